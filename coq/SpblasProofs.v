(* SpblasProofs.v -- exact-arithmetic theorems about SpblasModel.v (property C19).
   Everything generic is proved for an arbitrary arithmetic [Ar] that is a commutative ring (and, for
   the solves, has a division inverting multiplication by non-zero elements); the hypotheses are
   Section hypotheses, i.e. premises of the closed theorems.  They are met by the Qc instance
   (SpblasQc below), which also carries the non-vacuity examples. *)
Require Import List ZArith Bool Arith Lia Ring.
Require Import QArith Qcanon.
From SLU Require Import SpblasModel.
Import ListNotations.
Local Open Scope nat_scope.

(* ------------------------------------------------------------------------------------------------ *)
(* arrays                                                                                           *)

Lemma upd_length : forall (A : Type) (v : list A) i a, length (upd v i a) = length v.
Proof. induction v as [|h t IH]; intros [|i] a; simpl; auto. Qed.

Lemma nth_upd_same : forall (A : Type) (v : list A) i a d, i < length v -> nth i (upd v i a) d = a.
Proof. induction v as [|h t IH]; intros [|i] a d Hi; simpl in *; try lia; auto. apply IH; lia. Qed.

Lemma nth_upd_other : forall (A : Type) (v : list A) i j a d, i <> j -> nth j (upd v i a) d = nth j v d.
Proof. induction v as [|h t IH]; intros [|i] [|j] a d Hij; simpl; auto; try lia. Qed.

Lemma nth_upd : forall (A : Type) (v : list A) i j a d,
  nth j (upd v i a) d = if (i =? j) && (i <? length v) then a else nth j v d.
Proof.
  intros. destruct (Nat.eqb_spec i j) as [->|Hn]; simpl.
  - destruct (Nat.ltb_spec j (length v)).
    + apply nth_upd_same; auto.
    + rewrite !nth_overflow; auto; rewrite ?upd_length; lia.
  - apply nth_upd_other; auto.
Qed.

Lemma upd_oob : forall (A : Type) (v : list A) i a, length v <= i -> upd v i a = v.
Proof.
  induction v as [|h t IH]; intros i a Hi; destruct i as [|i]; simpl in *; try reflexivity; try lia.
  f_equal. apply IH. lia.
Qed.

Lemma seq_snoc : forall a n, seq a (S n) = seq a n ++ [a + n].
Proof. intros. rewrite seq_S. reflexivity. Qed.

Lemma fold_left_seq_snoc : forall (B : Type) (f : B -> nat -> B) a n x,
  fold_left f (seq a (S n)) x = f (fold_left f (seq a n) x) (a + n).
Proof. intros. rewrite seq_snoc, fold_left_app. reflexivity. Qed.

(* invariant rule for counted loops *)
Lemma fold_seq_inv : forall (B : Type) (P : nat -> B -> Prop) (f : B -> nat -> B) a n x,
  P 0 x -> (forall k y, k < n -> P k y -> P (S k) (f y (a + k))) -> P n (fold_left f (seq a n) x).
Proof.
  intros B P f a n x H0 Hs. induction n as [|n IH].
  - simpl; auto.
  - rewrite fold_left_seq_snoc. apply Hs; [lia | apply IH; intros; apply Hs; auto].
Qed.

Lemma fold_left_ext_in : forall (A B : Type) (f g : B -> A -> B) l x,
  (forall y a, In a l -> f y a = g y a) -> fold_left f l x = fold_left g l x.
Proof.
  induction l as [|h t IH]; intros x H; simpl; auto.
  rewrite H by (left; auto). apply IH. intros; apply H; right; auto.
Qed.

(* for i < n:  v[pos i] := g i   (pos injective on [0,n), in range); any element type *)
Lemma fold_upd_inj_gen : forall (B : Type) (d : B) (pos : nat -> nat) (g : nat -> B) n v,
  (forall i, i < n -> pos i < length v) ->
  (forall i j, i < n -> j < n -> pos i = pos j -> i = j) ->
  let v' := fold_left (fun r k => upd r (pos k) (g k)) (seq 0 n) v in
  length v' = length v /\
  (forall i, i < n -> nth (pos i) v' d = g i) /\
  (forall k, (forall i, i < n -> pos i <> k) -> nth k v' d = nth k v d).
Proof.
  induction n as [|n IH]; intros v Hr Hinj.
  - simpl. repeat split; auto. intros; lia.
  - cbv zeta. rewrite fold_left_seq_snoc. simpl.
    destruct (IH v) as (Hl & Hin & Hout); [intros; apply Hr; lia | intros; apply Hinj; auto; lia |].
    cbv zeta in Hl, Hin, Hout. set (v1 := fold_left _ (seq 0 n) v) in *.
    split. { rewrite upd_length; auto. }
    split.
    + intros i Hi. destruct (Nat.eq_dec i n) as [->|Hne].
      * apply nth_upd_same. rewrite Hl. apply Hr. lia.
      * rewrite nth_upd_other. apply Hin; lia. intros E. apply Hinj in E; lia.
    + intros k Hk. rewrite nth_upd_other by (apply Hk; lia). apply Hout. intros; apply Hk; lia.
Qed.

Lemma copy_prefix_length : forall (B : Type) n (src dst : list B), length (copy_prefix n src dst) = length dst.
Proof.
  induction n as [|n IH]; intros src dst; simpl; auto.
  destruct src as [|s src]; auto. destruct dst as [|t dst]; auto. simpl. rewrite IH. reflexivity.
Qed.

Lemma copy_prefix_nth : forall (B : Type) (d : B) n (src dst : list B) i,
  n <= length src -> n <= length dst ->
  nth i (copy_prefix n src dst) d = if i <? n then nth i src d else nth i dst d.
Proof.
  induction n as [|n IH]; intros src dst i Hs Hd; simpl.
  - reflexivity.
  - destruct src as [|s src]; [simpl in Hs; lia|]. destruct dst as [|t dst]; [simpl in Hd; lia|].
    destruct i as [|i]; simpl; auto. rewrite IH by (simpl in *; lia). reflexivity.
Qed.

(* ------------------------------------------------------------------------------------------------ *)
Section Ring.
Variable Ar : arith.
Notation Tt := (T Ar).
Notation z0 := (zero Ar).
Notation o1 := (one Ar).
Infix "+!" := (add Ar) (at level 50, left associativity).
Infix "-!" := (sub Ar) (at level 50, left associativity).
Infix "*!" := (mul Ar) (at level 40, left associativity).
Infix "/!" := (div Ar) (at level 40, left associativity).
Definition opp (a : Tt) : Tt := z0 -! a.

Hypothesis Rth : ring_theory z0 o1 (add Ar) (mul Ar) (sub Ar) opp eq.
Hypothesis eqb_ok : forall a b : Tt, eqb Ar a b = true <-> a = b.
Add Ring ArRing : Rth.

Lemma eqb_false : forall a b : Tt, eqb Ar a b = false -> a <> b.
Proof. intros a b H E. apply eqb_ok in E. congruence. Qed.

(* ---- finite sums *)
Fixpoint bsum (f : nat -> Tt) (n : nat) : Tt :=
  match n with O => z0 | S k => bsum f k +! f k end.

Lemma bsum_ext : forall f g n, (forall k, k < n -> f k = g k) -> bsum f n = bsum g n.
Proof. induction n as [|n IH]; intros H; simpl; auto. rewrite IH, H; auto. Qed.

Lemma bsum_zero : forall f n, (forall k, k < n -> f k = z0) -> bsum f n = z0.
Proof. induction n as [|n IH]; intros H; simpl; auto. rewrite IH, H; auto. ring. Qed.

Lemma bsum_add : forall f g n, bsum (fun k => f k +! g k) n = bsum f n +! bsum g n.
Proof. induction n as [|n IH]; simpl. ring. rewrite IH. ring. Qed.

Lemma bsum_mul_l : forall c f n, bsum (fun k => c *! f k) n = c *! bsum f n.
Proof. induction n as [|n IH]; simpl. ring. rewrite IH. ring. Qed.

Lemma bsum_mul_r : forall c f n, bsum (fun k => f k *! c) n = bsum f n *! c.
Proof. induction n as [|n IH]; simpl. ring. rewrite IH. ring. Qed.

Lemma bsum_app : forall f n m, bsum f (n + m) = bsum f n +! bsum (fun k => f (n + k)) m.
Proof.
  induction m as [|m IH]; simpl.
  - rewrite Nat.add_0_r. ring.
  - rewrite Nat.add_succ_r. simpl. rewrite IH. ring.
Qed.

Lemma bsum_single : forall (f : nat -> Tt) n i, i < n ->
  bsum (fun k => if k =? i then f k else z0) n = f i.
Proof.
  induction n as [|n IH]; intros i Hi; [lia|]. simpl.
  destruct (Nat.eqb_spec n i) as [->|Hn].
  - rewrite bsum_zero. ring. intros k Hk. destruct (Nat.eqb_spec k i); auto; lia.
  - rewrite IH by lia. ring.
Qed.

Lemma bsum_swap : forall (f : nat -> nat -> Tt) n m,
  bsum (fun i => bsum (fun j => f i j) m) n = bsum (fun j => bsum (fun i => f i j) n) m.
Proof.
  induction n as [|n IH]; intros m; simpl.
  - rewrite bsum_zero; auto.
  - rewrite IH, <- bsum_add. reflexivity.
Qed.

(* sum over k < n of f k, restricted to k < m  (m <= n) *)
Lemma bsum_restrict : forall f n m, m <= n ->
  bsum (fun k => if k <? m then f k else z0) n = bsum f m.
Proof.
  intros f n m H. replace n with (m + (n - m)) by lia. rewrite bsum_app.
  rewrite (bsum_zero (fun k => if m + k <? m then _ else _)).
  - rewrite (bsum_ext _ f). ring. intros k Hk. destruct (Nat.ltb_spec k m); auto; lia.
  - intros k _. destruct (Nat.ltb_spec (m + k) m); auto; lia.
Qed.

(* ---- arrays of ring elements *)
Lemma getn_upd : forall v i j a,
  getn Ar (upd v i a) j = if (i =? j) && (i <? length v) then a else getn Ar v j.
Proof. intros. unfold getn. apply nth_upd. Qed.

Lemma getn_upd_same : forall v i a, i < length v -> getn Ar (upd v i a) i = a.
Proof. intros. unfold getn. apply nth_upd_same; auto. Qed.

Lemma getn_upd_other : forall v i j a, i <> j -> getn Ar (upd v i a) j = getn Ar v j.
Proof. intros. unfold getn. apply nth_upd_other; auto. Qed.

(* fold of  acc - f c  /  acc + f c *)
Lemma fold_sub_bsum : forall (f : nat -> Tt) n a,
  fold_left (fun acc c => acc -! f c) (seq 0 n) a = a -! bsum f n.
Proof.
  induction n as [|n IH]; intros a.
  - simpl. ring.
  - rewrite fold_left_seq_snoc, IH. simpl. ring.
Qed.

Lemma fold_add_bsum : forall (f : nat -> Tt) n a,
  fold_left (fun acc c => acc +! f c) (seq 0 n) a = a +! bsum f n.
Proof.
  induction n as [|n IH]; intros a.
  - simpl. ring.
  - rewrite fold_left_seq_snoc, IH. simpl. ring.
Qed.

Lemma fold_add_bsum_from : forall (f : nat -> Tt) s n a,
  fold_left (fun acc c => acc +! f c) (seq s n) a = a +! bsum (fun k => f (s + k)) n.
Proof.
  induction n as [|n IH]; intros a.
  - simpl. ring.
  - rewrite fold_left_seq_snoc, IH. simpl. ring.
Qed.

(* ---- scatter / gather loops (the inner loops of every sparse kernel) *)

(* for t < m:  x[r t] := x[r t] - x[f] * v t      with r t <> f *)
Lemma scatter_sub : forall (r : nat -> nat) (v : nat -> Tt) (f : nat) m (x : list Tt) s,
  (forall t, t < m -> r (s + t) < length x) -> (forall t, t < m -> r (s + t) <> f) ->
  let x' := fold_left (fun x t => upd x (r t) (getn Ar x (r t) -! getn Ar x f *! v t)) (seq s m) x in
  length x' = length x /\
  forall i, getn Ar x' i = getn Ar x i -! getn Ar x f *! bsum (fun t => if r (s + t) =? i then v (s + t) else z0) m.
Proof.
  induction m as [|m IH]; intros x s Hr Hf.
  - simpl. split; auto. intros; ring.
  - cbv zeta. rewrite fold_left_seq_snoc.
    destruct (IH x s) as [Hl Hx]; [intros; apply Hr; lia | intros; apply Hf; lia |].
    cbv zeta in Hl, Hx. set (x1 := fold_left _ (seq s m) x) in *.
    split. { rewrite upd_length; auto. }
    intros i. rewrite getn_upd. simpl bsum.
    assert (Hin : r (s + m) < length x1) by (rewrite Hl; apply Hr; lia).
    destruct (Nat.eqb_spec (r (s + m)) i) as [E|E]; simpl.
    + apply Nat.ltb_lt in Hin. rewrite Hin. subst i. rewrite !Hx.
      rewrite (bsum_zero (fun t => if r (s + t) =? f then _ else _)).
      * ring.
      * intros k Hk. destruct (Nat.eqb_spec (r (s + k)) f); auto. exfalso; eapply Hf; [|eauto]; lia.
    + rewrite Hx. ring.
Qed.

(* for t < m:  x[j] := x[j] - x[r t] * v t        with r t <> j *)
Lemma gather_sub : forall (r : nat -> nat) (v : nat -> Tt) (j : nat) m (x : list Tt) s,
  j < length x -> (forall t, t < m -> r (s + t) <> j) ->
  let x' := fold_left (fun x t => upd x j (getn Ar x j -! getn Ar x (r t) *! v t)) (seq s m) x in
  length x' = length x /\
  (forall i, i <> j -> getn Ar x' i = getn Ar x i) /\
  getn Ar x' j = getn Ar x j -! bsum (fun t => getn Ar x (r (s + t)) *! v (s + t)) m.
Proof.
  induction m as [|m IH]; intros x s Hj Hr.
  - simpl. repeat split; auto. ring.
  - cbv zeta. rewrite fold_left_seq_snoc.
    destruct (IH x s) as (Hl & Ho & Hx); [auto | intros; apply Hr; lia |].
    cbv zeta in Hl, Ho, Hx. set (x1 := fold_left _ (seq s m) x) in *.
    split. { rewrite upd_length; auto. }
    split.
    + intros i Hi. rewrite getn_upd_other by auto. auto.
    + rewrite getn_upd_same by lia. rewrite Hx, Ho by (apply Hr; lia). simpl. ring.
Qed.


(* for k in [s, s+n):  v[o+k] := g k v[o+k]   (distinct positions) *)
Lemma fold_upd_range : forall (g : nat -> Tt -> Tt) o n s v, o + s + n <= length v ->
  let v' := fold_left (fun r k => upd r (o + k) (g k (getn Ar r (o + k)))) (seq s n) v in
  length v' = length v /\
  forall i, getn Ar v' i = if (o + s <=? i) && (i <? o + s + n) then g (i - o) (getn Ar v i) else getn Ar v i.
Proof.
  induction n as [|n IH]; intros s v Hlen.
  - simpl. split; auto. intros i.
    destruct (Nat.leb_spec (o + s) i); destruct (Nat.ltb_spec i (o + s + 0)); simpl; auto; lia.
  - cbv zeta. rewrite fold_left_seq_snoc.
    destruct (IH s v) as [Hl Hx]; [lia|]. cbv zeta in Hl, Hx.
    set (v1 := fold_left _ (seq s n) v) in *.
    split. { rewrite upd_length; auto. }
    intros i. rewrite getn_upd, Hl.
    destruct (Nat.eqb_spec (o + (s + n)) i) as [E|E]; simpl.
    + assert (Hlt : (o + (s + n) <? length v) = true) by (apply Nat.ltb_lt; lia). rewrite Hlt.
      rewrite Hx. subst i.
      replace (o + (s + n) - o) with (s + n) by lia.
      destruct (Nat.leb_spec (o + s) (o + (s + n))); try lia.
      destruct (Nat.ltb_spec (o + (s + n)) (o + s + n)); try lia.
      destruct (Nat.ltb_spec (o + (s + n)) (o + s + S n)); try lia. simpl. reflexivity.
    + rewrite Hx.
      destruct (Nat.leb_spec (o + s) i); simpl; auto.
      destruct (Nat.ltb_spec i (o + s + n)); destruct (Nat.ltb_spec i (o + s + S n)); auto; lia.
Qed.

Lemma bsum_S_first : forall (g : nat -> Tt) m, bsum g (S m) = g 0 +! bsum (fun k => g (S k)) m.
Proof.
  induction m as [|m IH].
  - simpl. ring.
  - change (bsum g (S (S m))) with (bsum g (S m) +! g (S m)). rewrite IH. simpl. ring.
Qed.

(* ------------------------------------------------------------------------------------------------ *)
(* dmatvec                                                                                          *)
Section Matvec.
Variables (M : list Tt) (mo ldm nrow ncol : nat) (vec : list Tt) (vo xo : nat).

Definition mv_term (k c : nat) : Tt := getn Ar vec (vo + c) *! Mat Ar M mo ldm k c.

Lemma matvec_row_spec : forall w fc k, 1 <= w ->
  matvec_row Ar w M mo ldm fc vec vo k = bsum (fun c => mv_term k (fc + c)) w.
Proof.
  intros w fc k Hw. unfold matvec_row. destruct w as [|w]; [lia|].
  replace (S w - 1) with w by lia.
  rewrite (fold_add_bsum_from (fun c => getn Ar vec (vo + fc + c) *! Mat Ar M mo ldm k (fc + c))).
  rewrite bsum_S_first. unfold mv_term. rewrite Nat.add_0_r.
  f_equal. apply bsum_ext. intros c _. replace (vo + (fc + S c)) with (vo + fc + (1 + c)) by lia.
  replace (fc + S c) with (fc + (1 + c)) by lia. reflexivity.
Qed.

Definition mx_after (Mx : list Tt) (fc cnt : nat) (r : list Tt) : Prop :=
  length r = length Mx /\
  forall i, getn Ar r i = if (xo <=? i) && (i <? xo + nrow)
                          then getn Ar Mx i +! bsum (fun c => mv_term (i - xo) (fc + c)) cnt
                          else getn Ar Mx i.

Lemma matvec_block_spec : forall w fc Mx, 1 <= w -> xo + nrow <= length Mx ->
  mx_after Mx fc w (matvec_block Ar w M mo ldm nrow fc vec vo Mx xo).
Proof.
  intros w fc Mx Hw Hlen. unfold matvec_block, mx_after.
  destruct (fold_upd_range (fun k old => old +! matvec_row Ar w M mo ldm fc vec vo k) xo nrow 0 Mx) as [Hl Hx]; [lia|].
  cbv zeta in Hl, Hx. split; auto. intros i. rewrite Hx.
  rewrite !Nat.add_0_r. destruct ((xo <=? i) && (i <? xo + nrow)); auto.
  rewrite matvec_row_spec by auto. reflexivity.
Qed.

Lemma mx_after_compose : forall Mx fc c1 c2 r1 r2,
  mx_after Mx fc c1 r1 -> mx_after r1 (fc + c1) c2 r2 -> mx_after Mx fc (c1 + c2) r2.
Proof.
  intros Mx fc c1 c2 r1 r2 [L1 H1] [L2 H2]. split. congruence.
  intros i. rewrite H2, H1. destruct ((xo <=? i) && (i <? xo + nrow)); auto.
  rewrite bsum_app. rewrite <- (Rth.(Radd_assoc)). f_equal. f_equal.
  apply bsum_ext. intros c _. f_equal. lia.
Qed.

Lemma mx_after_zero : forall Mx fc, mx_after Mx fc 0 Mx.
Proof.
  intros. split; auto. intros i. destruct ((xo <=? i) && (i <? xo + nrow)); auto. simpl. ring.
Qed.

Lemma matvec_loop_spec : forall w, 1 <= w -> forall fuel fc Mx, xo + nrow <= length Mx -> fc <= ncol ->
  let res := matvec_loop Ar w fuel M mo ldm nrow ncol fc vec vo Mx xo in
  fc <= fst res <= ncol /\ (ncol - fc <= fuel -> ncol < fst res + w) /\ mx_after Mx fc (fst res - fc) (snd res).
Proof.
  intros w Hw. induction fuel as [|fuel IH]; intros fc Mx Hlen Hfc; cbv zeta.
  - simpl. split; [lia|]. split; [lia|]. rewrite Nat.sub_diag. apply mx_after_zero.
  - simpl. destruct (Nat.ltb_spec (fc + (w - 1)) ncol) as [Hlt|Hge].
    + pose proof (matvec_block_spec w fc Mx Hw Hlen) as Hb.
      set (Mx1 := matvec_block Ar w M mo ldm nrow fc vec vo Mx xo) in *.
      specialize (IH (fc + w) Mx1). cbv zeta in IH.
      destruct IH as (Hr & Hf & Ha); [destruct Hb as [Hb _]; lia | lia |].
      set (res := matvec_loop Ar w fuel M mo ldm nrow ncol (fc + w) vec vo Mx1 xo) in *.
      split; [lia|]. split; [intros; apply Hf; lia|].
      replace (fst res - fc) with (w + (fst res - (fc + w))) by lia.
      eapply mx_after_compose; eauto.
    + simpl. split; [lia|]. split; [lia|]. rewrite Nat.sub_diag. apply mx_after_zero.
Qed.

(* dmatvec:  Mxvec[k] += sum_{c < ncol} vec[c] * M(k,c)  for k < nrow, nothing else is touched *)
Theorem matvec_exact : forall Mx, xo + nrow <= length Mx ->
  mx_after Mx 0 ncol (matvec Ar ldm nrow ncol M mo vec vo Mx xo).
Proof.
  intros Mx Hlen. unfold matvec.
  pose proof (matvec_loop_spec 8 ltac:(lia) ncol 0 Mx Hlen ltac:(lia)) as H1. cbv zeta in H1.
  destruct (matvec_loop Ar 8 ncol M mo ldm nrow ncol 0 vec vo Mx xo) as [fc1 r1]. simpl in H1.
  destruct H1 as (B1 & _ & A1).
  pose proof (matvec_loop_spec 4 ltac:(lia) ncol fc1 r1 ltac:(destruct A1; lia) ltac:(lia)) as H2. cbv zeta in H2.
  destruct (matvec_loop Ar 4 ncol M mo ldm nrow ncol fc1 vec vo r1 xo) as [fc2 r2]. simpl in H2.
  destruct H2 as (B2 & _ & A2).
  pose proof (matvec_loop_spec 1 ltac:(lia) ncol fc2 r2 ltac:(destruct A1, A2; lia) ltac:(lia)) as H3. cbv zeta in H3.
  destruct (matvec_loop Ar 1 ncol M mo ldm nrow ncol fc2 vec vo r2 xo) as [fc3 r3]. simpl in H3. simpl.
  destruct H3 as (B3 & F3 & A3). specialize (F3 ltac:(lia)).
  assert (fc3 = ncol) by lia. subst fc3.
  rewrite Nat.sub_0_r in A1.
  pose proof (mx_after_compose _ _ _ _ _ _ A1 A2) as A12. simpl in A12.
  replace (fc1 + (fc2 - fc1)) with fc2 in A12 by lia.
  pose proof (mx_after_compose _ _ _ _ _ _ A12 A3) as A123. simpl in A123.
  replace (fc2 + (ncol - fc2)) with ncol in A123 by lia. exact A123.
Qed.
End Matvec.


(* ------------------------------------------------------------------------------------------------ *)
(* tail sums  sum_{c <= j < n} f j  and reversal                                                     *)
Definition tsum (f : nat -> Tt) (c n : nat) : Tt := bsum (fun t => f (c + t)) (n - c).

Lemma tsum_first : forall f c n, c < n -> tsum f c n = f c +! tsum f (S c) n.
Proof.
  intros f c n H. unfold tsum. replace (n - c) with (S (n - S c)) by lia.
  rewrite bsum_S_first. rewrite Nat.add_0_r. f_equal. apply bsum_ext. intros k _. f_equal. lia.
Qed.

Lemma tsum_empty : forall f c n, n <= c -> tsum f c n = z0.
Proof. intros. unfold tsum. replace (n - c) with 0 by lia. reflexivity. Qed.

Lemma tsum_0 : forall f n, tsum f 0 n = bsum f n.
Proof. intros. unfold tsum. rewrite Nat.sub_0_r. apply bsum_ext. intros; reflexivity. Qed.

Lemma tsum_ext : forall f g c n, (forall j, c <= j < n -> f j = g j) -> tsum f c n = tsum g c n.
Proof. intros. unfold tsum. apply bsum_ext. intros k Hk. apply H. lia. Qed.

Lemma bsum_rev : forall (g : nat -> Tt) m, bsum (fun k => g (m - 1 - k)) m = bsum g m.
Proof.
  induction m as [|m IH]; [reflexivity|].
  rewrite bsum_S_first. simpl bsum at 2. rewrite <- IH.
  replace (S m - 1 - 0) with m by lia. rewrite (Rth.(Radd_comm)). f_equal.
  apply bsum_ext. intros k Hk. f_equal. lia.
Qed.

Hypothesis div_ok : forall a b : Tt, b <> z0 -> (a /! b) *! b = a.

(* ------------------------------------------------------------------------------------------------ *)
(* dense triangular kernels on a column-major block  A(r,c) = M[mo + r + c*ldm]                     *)
Section Dense.
Variables (M : list Tt) (mo ldm ncol ro : nat).
Notation A := (Mat Ar M mo ldm).

(* positions outside rhs[ro .. ro+ncol) keep their value *)
Definition frame (b r : list Tt) : Prop :=
  length r = length b /\ forall k, (k < ro \/ ro + ncol <= k) -> getn Ar r k = getn Ar b k.

Lemma frame_refl : forall b, frame b b.
Proof. split; auto. Qed.

(* ---- dusolve *)
Definition Up (i j : nat) : Tt := if i <=? j then A i j else z0.

Definition UI (b : list Tt) (c : nat) (r : list Tt) : Prop :=
  frame b r /\
  forall i, i < ncol ->
    getn Ar b (ro + i) = (if i <? c then getn Ar r (ro + i) else z0)
                         +! tsum (fun j => Up i j *! getn Ar r (ro + j)) c ncol.

Lemma usolve_col_spec : forall r jcol, jcol < ncol -> ro + ncol <= length r ->
  let r' := usolve_col Ar ldm M mo r ro jcol in
  length r' = length r /\
  forall k, getn Ar r' k =
    if k =? ro + jcol then getn Ar r (ro + jcol) /! A jcol jcol
    else if (ro <=? k) && (k <? ro + jcol) then getn Ar r k -! (getn Ar r (ro + jcol) /! A jcol jcol) *! A (k - ro) jcol
    else getn Ar r k.
Proof.
  intros r jcol Hj Hlen. unfold usolve_col. cbv zeta.
  set (xj := getn Ar r (ro + jcol) /! A jcol jcol).
  destruct (fold_upd_range (fun k old => old -! xj *! A k jcol) ro jcol 0 (upd r (ro + jcol) xj)) as [Hl Hx].
  { rewrite upd_length. lia. }
  cbv zeta in Hl, Hx. rewrite upd_length in Hl. split; auto.
  intros k. rewrite Hx. rewrite !Nat.add_0_r. rewrite getn_upd.
  destruct (Nat.eqb_spec k (ro + jcol)) as [->|Hk].
  - destruct (Nat.ltb_spec (ro + jcol) (ro + jcol)); try lia. rewrite andb_false_r.
    rewrite Nat.eqb_refl. assert (Hlt : (ro + jcol <? length r) = true) by (apply Nat.ltb_lt; lia).
    rewrite Hlt. reflexivity.
  - destruct (Nat.eqb_spec (ro + jcol) k); try lia. simpl. reflexivity.
Qed.

Lemma UI_step : forall b r jcol, jcol < ncol -> ro + ncol <= length b -> A jcol jcol <> z0 ->
  UI b (S jcol) r -> UI b jcol (usolve_col Ar ldm M mo r ro jcol).
Proof.
  intros b r jcol Hj Hlen Hd [[Hl Hfr] Hinv].
  destruct (usolve_col_spec r jcol Hj ltac:(lia)) as [Hl' Hx]. cbv zeta in Hl', Hx.
  set (r' := usolve_col Ar ldm M mo r ro jcol) in *.
  split.
  - split. congruence. intros k Hk. rewrite Hx.
    destruct (Nat.eqb_spec k (ro + jcol)); try lia.
    destruct (Nat.leb_spec ro k); destruct (Nat.ltb_spec k (ro + jcol)); simpl; try lia; apply Hfr; lia.
  - intros i Hi. rewrite (Hinv i Hi). rewrite (tsum_first _ jcol ncol Hj).
    assert (Htail : tsum (fun j => Up i j *! getn Ar r (ro + j)) (S jcol) ncol
                    = tsum (fun j => Up i j *! getn Ar r' (ro + j)) (S jcol) ncol).
    { apply tsum_ext. intros j Hjr. f_equal. rewrite Hx.
      destruct (Nat.eqb_spec (ro + j) (ro + jcol)); try lia.
      destruct (Nat.ltb_spec (ro + j) (ro + jcol)); try lia. rewrite andb_false_r. reflexivity. }
    rewrite Htail. clear Htail.
    assert (Hjj : getn Ar r' (ro + jcol) *! A jcol jcol = getn Ar r (ro + jcol)).
    { rewrite Hx, Nat.eqb_refl. apply div_ok; auto. }
    assert (Hxj : getn Ar r' (ro + jcol) = getn Ar r (ro + jcol) /! A jcol jcol).
    { rewrite Hx, Nat.eqb_refl. reflexivity. }
    unfold Up at 2.
    destruct (Nat.ltb_spec i (S jcol)) as [Hlt|Hge].
    + destruct (Nat.leb_spec i jcol); try lia.
      destruct (Nat.ltb_spec i jcol) as [Hlt2|Hge2].
      * (* i < jcol *)
        assert (Hi' : getn Ar r' (ro + i) = getn Ar r (ro + i) -! getn Ar r' (ro + jcol) *! A i jcol).
        { rewrite Hxj. rewrite (Hx (ro + i)).
          destruct (Nat.eqb_spec (ro + i) (ro + jcol)); try lia.
          destruct (Nat.leb_spec ro (ro + i)); try lia.
          destruct (Nat.ltb_spec (ro + i) (ro + jcol)); try lia. simpl.
          replace (ro + i - ro) with i by lia. reflexivity. }
        rewrite Hi'. ring.
      * (* i = jcol *)
        assert (i = jcol) by lia. subst i. rewrite <- Hjj. ring.
    + destruct (Nat.leb_spec i jcol); try lia.
      destruct (Nat.ltb_spec i jcol); try lia. ring.
Qed.

Theorem usolve_exact : forall b, ro + ncol <= length b ->
  (forall j, j < ncol -> A j j <> z0) ->
  let r := usolve Ar ldm ncol M mo b ro in
  frame b r /\
  forall i, i < ncol -> bsum (fun j => Up i j *! getn Ar r (ro + j)) ncol = getn Ar b (ro + i).
Proof.
  intros b Hlen Hd. cbv zeta. unfold usolve.
  assert (H : UI b (ncol - ncol) (fold_left (fun r j => usolve_col Ar ldm M mo r ro (ncol - 1 - j)) (seq 0 ncol) b)).
  { apply (fold_seq_inv _ (fun k r => UI b (ncol - k) r)).
    - rewrite Nat.sub_0_r. split. apply frame_refl. intros i Hi.
      destruct (Nat.ltb_spec i ncol); try lia. rewrite tsum_empty by lia. ring.
    - intros k y Hk Hy. simpl. replace (ncol - S k) with (ncol - 1 - k) by lia.
      apply UI_step; [lia | auto | apply Hd; lia | ].
      replace (S (ncol - 1 - k)) with (ncol - k) by lia. exact Hy. }
  rewrite Nat.sub_diag in H. destruct H as [Hf Hinv]. split; auto.
  intros i Hi. rewrite (Hinv i Hi). rewrite tsum_0.
  destruct (Nat.ltb_spec i 0); try lia. ring.
Qed.

(* ---- dlsolve (unit lower triangular, 8/4/2 unrolling) *)
Definition LI (b : list Tt) (fc : nat) (r : list Tt) : Prop :=
  frame b r /\
  forall i, i < ncol ->
    getn Ar b (ro + i) = getn Ar r (ro + i) +! bsum (fun c => A i c *! getn Ar r (ro + c)) (Nat.min i fc).

Lemma lsolve_elim_spec : forall fc xs row r0 cnt,
  lsolve_elim Ar M mo ldm fc xs row r0 cnt = r0 -! bsum (fun c => getn Ar xs c *! A row (fc + c)) cnt.
Proof. intros. unfold lsolve_elim. apply fold_sub_bsum. Qed.

Lemma lsolve_xs_length : forall fc rhs t, length (lsolve_xs Ar M mo ldm fc rhs ro t) = t.
Proof. induction t as [|t IH]; simpl; auto. rewrite app_length, IH. simpl. lia. Qed.

Lemma lsolve_xs_prefix : forall fc rhs t w c, c < t -> t <= w ->
  getn Ar (lsolve_xs Ar M mo ldm fc rhs ro w) c = getn Ar (lsolve_xs Ar M mo ldm fc rhs ro t) c.
Proof.
  intros fc rhs t w c Hc Htw. induction w as [|w IH]; [lia|].
  destruct (Nat.eq_dec t (S w)) as [->|Hne]; auto.
  simpl. unfold getn. rewrite app_nth1 by (rewrite lsolve_xs_length; lia). apply IH. lia.
Qed.

Lemma lsolve_xs_spec : forall fc rhs w t, t < w ->
  let xs := lsolve_xs Ar M mo ldm fc rhs ro w in
  getn Ar xs t = getn Ar rhs (ro + fc + t) -! bsum (fun c => getn Ar xs c *! A (fc + t) (fc + c)) t.
Proof.
  intros fc rhs w t Ht. cbv zeta.
  rewrite (lsolve_xs_prefix fc rhs (S t) w t) by lia.
  simpl. unfold getn at 1. rewrite app_nth2 by (rewrite lsolve_xs_length; lia).
  rewrite lsolve_xs_length, Nat.sub_diag. simpl. rewrite lsolve_elim_spec.
  f_equal. apply bsum_ext. intros c Hc. f_equal. symmetry. apply lsolve_xs_prefix; lia.
Qed.

Lemma lsolve_block_spec : forall w fc r, 1 <= w -> fc + w <= ncol -> ro + ncol <= length r ->
  let r' := lsolve_block Ar w M mo ldm ncol fc r ro in
  length r' = length r /\
  (forall k, (k < ro + fc \/ ro + ncol <= k) -> getn Ar r' k = getn Ar r k) /\
  (forall i, fc <= i < ncol ->
     getn Ar r' (ro + i) = getn Ar r (ro + i)
                           -! bsum (fun c => getn Ar r' (ro + fc + c) *! A i (fc + c)) (Nat.min (i - fc) w)).
Proof.
  intros w fc r Hw Hfc Hlen. unfold lsolve_block. cbv zeta.
  set (xs := lsolve_xs Ar M mo ldm fc r ro w).
  (* first loop: rhs[fc+t] = x_t, t = 1..w-1 *)
  destruct (fold_upd_range (fun t _ => getn Ar xs t) (ro + fc) (w - 1) 1 r) as [Hl1 Hx1]; [lia|].
  cbv zeta in Hl1, Hx1.
  set (r1 := fold_left (fun r t => upd r (ro + fc + t) (getn Ar xs t)) (seq 1 (w - 1)) r) in *.
  (* second loop *)
  destruct (fold_upd_range (fun k old => lsolve_elim Ar M mo ldm fc xs k old w) ro (ncol - (fc + w)) (fc + w) r1) as [Hl2 Hx2]; [lia|].
  cbv zeta in Hl2, Hx2.
  set (r2 := fold_left _ (seq (fc + w) (ncol - (fc + w))) r1) in *.
  assert (Hxs0 : getn Ar xs 0 = getn Ar r (ro + fc)).
  { unfold xs. rewrite lsolve_xs_spec by lia. simpl. rewrite Nat.add_0_r. ring. }
  assert (Hr1 : forall t, t < w -> getn Ar r1 (ro + fc + t) = getn Ar xs t).
  { intros t Ht. rewrite Hx1. destruct t as [|t].
    - destruct (Nat.leb_spec (ro + fc + 1) (ro + fc + 0)); try lia. simpl. rewrite Nat.add_0_r. auto.
    - destruct (Nat.leb_spec (ro + fc + 1) (ro + fc + S t)); try lia.
      destruct (Nat.ltb_spec (ro + fc + S t) (ro + fc + 1 + (w - 1))); try lia. simpl.
      f_equal. lia. }
  assert (Hr2 : forall t, t < w -> getn Ar r2 (ro + fc + t) = getn Ar xs t).
  { intros t Ht. rewrite Hx2. destruct (Nat.leb_spec (ro + (fc + w)) (ro + fc + t)); try lia. simpl. auto. }
  split. { congruence. }
  split.
  - intros k Hk. rewrite Hx2, Hx1.
    destruct (Nat.leb_spec (ro + (fc + w)) k); destruct (Nat.ltb_spec k (ro + (fc + w) + (ncol - (fc + w))));
      destruct (Nat.leb_spec (ro + fc + 1) k); destruct (Nat.ltb_spec k (ro + fc + 1 + (w - 1))); simpl; auto; lia.
  - intros i Hi. destruct (Nat.lt_ge_cases i (fc + w)) as [Hin|Hout].
    + (* inside the block *)
      replace (ro + i) with (ro + fc + (i - fc)) by lia. rewrite Hr2 by lia.
      unfold xs. rewrite lsolve_xs_spec by lia. fold xs.
      replace (Nat.min (i - fc) w) with (i - fc) by lia.
      replace (fc + (i - fc)) with i by lia.
      f_equal. apply bsum_ext. intros c Hc. rewrite Hr2 by lia. reflexivity.
    + rewrite Hx2. destruct (Nat.leb_spec (ro + (fc + w)) (ro + i)); try lia.
      destruct (Nat.ltb_spec (ro + i) (ro + (fc + w) + (ncol - (fc + w)))); try lia. simpl.
      rewrite lsolve_elim_spec. replace (ro + i - ro) with i by lia.
      replace (Nat.min (i - fc) w) with w by lia.
      assert (E : getn Ar r1 (ro + i) = getn Ar r (ro + i)).
      { rewrite Hx1. destruct (Nat.ltb_spec (ro + i) (ro + fc + 1 + (w - 1))); try lia. rewrite andb_false_r. auto. }
      rewrite E. f_equal. apply bsum_ext. intros c Hc. rewrite Hr2 by lia. reflexivity.
Qed.

Lemma LI_block : forall b w fc r, 1 <= w -> fc + w <= ncol -> ro + ncol <= length b ->
  LI b fc r -> LI b (fc + w) (lsolve_block Ar w M mo ldm ncol fc r ro).
Proof.
  intros b w fc r Hw Hfc Hlen [[Hl Hfr] Hinv].
  destruct (lsolve_block_spec w fc r Hw Hfc ltac:(lia)) as (Hl' & Hout & Hin). cbv zeta in Hl', Hout, Hin.
  set (r' := lsolve_block Ar w M mo ldm ncol fc r ro) in *.
  split.
  - split. congruence. intros k Hk. rewrite Hout by lia. apply Hfr; auto.
  - intros i Hi. rewrite (Hinv i Hi).
    destruct (Nat.lt_ge_cases i fc) as [Hlo|Hhi].
    + replace (Nat.min i fc) with i by lia. replace (Nat.min i (fc + w)) with i by lia.
      rewrite Hout by lia. f_equal. apply bsum_ext. intros c Hc. rewrite Hout by lia. reflexivity.
    + rewrite (Hin i) by lia.
      replace (Nat.min i fc) with fc by lia.
      replace (Nat.min i (fc + w)) with (fc + Nat.min (i - fc) w) by lia.
      rewrite bsum_app.
      assert (E1 : bsum (fun c => A i c *! getn Ar r (ro + c)) fc = bsum (fun c => A i c *! getn Ar r' (ro + c)) fc).
      { apply bsum_ext. intros c Hc. rewrite Hout by lia. reflexivity. }
      rewrite E1.
      assert (E2 : bsum (fun c => getn Ar r' (ro + fc + c) *! A i (fc + c)) (Nat.min (i - fc) w)
                   = bsum (fun k => A i (fc + k) *! getn Ar r' (ro + (fc + k))) (Nat.min (i - fc) w)).
      { apply bsum_ext. intros c Hc. rewrite Nat.add_assoc. ring. }
      rewrite E2. ring.
Qed.

Lemma lsolve_loop8_spec : forall b fuel fc r, ro + ncol <= length b -> fc <= ncol -> LI b fc r ->
  let res := lsolve_loop8 Ar fuel M mo ldm ncol fc r ro in
  fc <= fst res <= ncol /\ (ncol - fc <= fuel -> ncol <= fst res + 7) /\ LI b (fst res) (snd res).
Proof.
  intros b. induction fuel as [|fuel IH]; intros fc r Hlen Hfc HI; cbv zeta.
  - simpl. split; [lia|]. split; [lia|]. exact HI.
  - simpl. destruct (Nat.ltb_spec (fc + 7) ncol) as [Hlt|Hge].
    + specialize (IH (fc + 8) (lsolve_block Ar 8 M mo ldm ncol fc r ro) Hlen ltac:(lia)
                     (LI_block b 8 fc r ltac:(lia) ltac:(lia) Hlen HI)).
      cbv zeta in IH. destruct IH as (B & Fu & I). split; [lia|]. split; auto. intros; apply Fu; lia.
    + simpl. split; [lia|]. split; [lia|]. exact HI.
Qed.

Lemma lsolve_loop4_spec : forall b fuel fc r, ro + ncol <= length b -> fc <= ncol -> LI b fc r ->
  let res := lsolve_loop4 Ar fuel M mo ldm ncol fc r ro in
  fc <= fst res <= ncol /\ (ncol - fc <= fuel -> ncol <= fst res + 3) /\ LI b (fst res) (snd res).
Proof.
  intros b. induction fuel as [|fuel IH]; intros fc r Hlen Hfc HI; cbv zeta.
  - simpl. split; [lia|]. split; [lia|]. exact HI.
  - simpl. destruct (Nat.ltb_spec (fc + 3) ncol) as [Hlt|Hge].
    + specialize (IH (fc + 4) (lsolve_block Ar 4 M mo ldm ncol fc r ro) Hlen ltac:(lia)
                     (LI_block b 4 fc r ltac:(lia) ltac:(lia) Hlen HI)).
      cbv zeta in IH. destruct IH as (B & Fu & I). split; [lia|]. split; auto. intros; apply Fu; lia.
    + simpl. split; [lia|]. split; [lia|]. exact HI.
Qed.

(* dlsolve: the result r satisfies  r[i] + sum_{c<i} M(i,c) r[c] = rhs[i]  (unit lower triangular
   system "multiplied back"), nothing outside rhs[0..ncol) is touched *)
Theorem lsolve_exact : forall b, ro + ncol <= length b ->
  let r := lsolve Ar ldm ncol M mo b ro in
  frame b r /\
  forall i, i < ncol ->
    getn Ar r (ro + i) +! bsum (fun c => A i c *! getn Ar r (ro + c)) i = getn Ar b (ro + i).
Proof.
  intros b Hlen. cbv zeta. unfold lsolve.
  assert (H0 : LI b 0 b).
  { split. apply frame_refl. intros i Hi. rewrite Nat.min_0_r. simpl. ring. }
  pose proof (lsolve_loop8_spec b ncol 0 b Hlen ltac:(lia) H0) as H1. cbv zeta in H1.
  destruct (lsolve_loop8 Ar ncol M mo ldm ncol 0 b ro) as [fc1 r1]. simpl in H1. destruct H1 as (B1 & _ & I1).
  pose proof (lsolve_loop4_spec b ncol fc1 r1 Hlen ltac:(lia) I1) as H2. cbv zeta in H2.
  destruct (lsolve_loop4 Ar ncol M mo ldm ncol fc1 r1 ro) as [fc2 r2]. simpl in H2. destruct H2 as (B2 & F2 & I2).
  specialize (F2 ltac:(lia)).
  assert (Hfin : forall fc r, LI b fc r -> ncol <= fc + 1 -> frame b r /\
            forall i, i < ncol -> getn Ar r (ro + i) +! bsum (fun c => A i c *! getn Ar r (ro + c)) i = getn Ar b (ro + i)).
  { intros fc r [Hf Hi] Hfc. split; auto. intros i Hlt. rewrite (Hi i Hlt).
    replace (Nat.min i fc) with i by lia. reflexivity. }
  destruct (Nat.ltb_spec (fc2 + 1) ncol) as [Hlt|Hge].
  - apply (Hfin (fc2 + 2)); [|lia]. apply LI_block; auto; lia.
  - apply (Hfin fc2); auto.
Qed.

(* ---- CBLAS dtrsv, uplo='L', trans='T', diag='U', incx=1 *)
Definition LTI (b : list Tt) (c : nat) (r : list Tt) : Prop :=
  frame b r /\
  (forall j, j < c -> getn Ar r (ro + j) = getn Ar b (ro + j)) /\
  (forall j, c <= j < ncol ->
     getn Ar b (ro + j) = getn Ar r (ro + j) +! tsum (fun i => A i j *! getn Ar r (ro + i)) (S j) ncol).

Theorem dtrsv_LTU_exact : forall b, ro + ncol <= length b -> Nat.max 1 ncol <= ldm ->
  let r := dtrsv_LTU Ar ncol M mo ldm b ro in
  frame b r /\
  forall j, j < ncol ->
    getn Ar r (ro + j) +! tsum (fun i => A i j *! getn Ar r (ro + i)) (S j) ncol = getn Ar b (ro + j).
Proof.
  intros b Hlen Hld. cbv zeta. unfold dtrsv_LTU.
  destruct (Nat.ltb_spec ldm (Nat.max 1 ncol)) as [Hbad|_]; [lia|].
  match goal with |- frame b ?r /\ _ => assert (H : LTI b (ncol - ncol) r) end.
  { apply (fold_seq_inv _ (fun k r => LTI b (ncol - k) r)).
    - rewrite Nat.sub_0_r. split. apply frame_refl. split; auto. intros; lia.
    - intros k y Hk (Hf & Hlo & Hhi). simpl.
      set (j := ncol - 1 - k).
      assert (Hjn : j < ncol) by (unfold j; lia).
      replace (ncol - S k) with j by (unfold j; lia).
      replace (ncol - k) with (S j) in * by (unfold j; lia).
      rewrite (fold_sub_bsum (fun ii => A (ncol - 1 - ii) j *! getn Ar y (ro + (ncol - 1 - ii)))).
      set (temp := _ -! _).
      destruct Hf as [Hl Hfr].
      split; [|split].
      + split. rewrite upd_length; auto. intros q Hq. rewrite getn_upd_other by lia. apply Hfr; auto.
      + intros j' Hj'. rewrite getn_upd_other by lia. apply Hlo. lia.
      + intros j' Hj'. destruct (Nat.eq_dec j' j) as [->|Hne].
        * rewrite getn_upd_same by lia.
          assert (E : tsum (fun i => A i j *! getn Ar (upd y (ro + j) temp) (ro + i)) (S j) ncol
                      = bsum (fun ii => A (ncol - 1 - ii) j *! getn Ar y (ro + (ncol - 1 - ii))) (ncol - 1 - j)).
          { unfold tsum. replace (ncol - S j) with (ncol - 1 - j) by lia.
            rewrite <- (bsum_rev (fun t => A (S j + t) j *! getn Ar (upd y (ro + j) temp) (ro + (S j + t)))).
            apply bsum_ext. intros q Hq. rewrite getn_upd_other by lia.
            replace (S j + (ncol - 1 - j - 1 - q)) with (ncol - 1 - q) by lia. reflexivity. }
          rewrite E. unfold temp. rewrite (Hlo j) by lia. ring.
        * rewrite getn_upd_other by lia. rewrite (Hhi j') by lia. f_equal.
          apply tsum_ext. intros i Hi. rewrite getn_upd_other by lia. reflexivity. }
  rewrite Nat.sub_diag in H. destruct H as (Hf & _ & Hhi). split; auto.
  intros j Hj. symmetry. apply Hhi. lia.
Qed.

(* ---- CBLAS dtrsv, uplo='U', trans='T', diag='N', incx=1 *)
Definition UTI (b : list Tt) (c : nat) (r : list Tt) : Prop :=
  frame b r /\
  (forall j, c <= j < ncol -> getn Ar r (ro + j) = getn Ar b (ro + j)) /\
  (forall j, j < c ->
     getn Ar b (ro + j) = bsum (fun i => A i j *! getn Ar r (ro + i)) j +! A j j *! getn Ar r (ro + j)).

Theorem dtrsv_UTN_exact : forall b, ro + ncol <= length b -> Nat.max 1 ncol <= ldm ->
  (forall j, j < ncol -> A j j <> z0) ->
  let r := dtrsv_UTN Ar ncol M mo ldm b ro in
  frame b r /\
  forall j, j < ncol ->
    bsum (fun i => A i j *! getn Ar r (ro + i)) j +! A j j *! getn Ar r (ro + j) = getn Ar b (ro + j).
Proof.
  intros b Hlen Hld Hd. cbv zeta. unfold dtrsv_UTN.
  destruct (Nat.ltb_spec ldm (Nat.max 1 ncol)) as [Hbad|_]; [lia|].
  match goal with |- frame b ?r /\ _ => assert (H : UTI b ncol r) end.
  { apply (fold_seq_inv _ (fun k r => UTI b k r)).
    - split. apply frame_refl. split; auto. intros; lia.
    - intros j y Hj (Hf & Hhi & Hlo). simpl.
      rewrite (fold_sub_bsum (fun i => A i j *! getn Ar y (ro + i))).
      destruct Hf as [Hl Hfr].
      split; [|split].
      + split. rewrite upd_length; auto. intros q Hq. rewrite getn_upd_other by lia. apply Hfr; auto.
      + intros j' Hj'. rewrite getn_upd_other by lia. apply Hhi. lia.
      + intros j' Hj'. destruct (Nat.eq_dec j' j) as [->|Hne].
        * rewrite getn_upd_same by lia. rewrite (Hhi j) by lia.
          assert (E : bsum (fun i => A i j *! getn Ar (upd y (ro + j) ((getn Ar b (ro + j) -! bsum (fun i => A i j *! getn Ar y (ro + i)) j) /! A j j)) (ro + i)) j
                      = bsum (fun i => A i j *! getn Ar y (ro + i)) j).
          { apply bsum_ext. intros i Hi. rewrite getn_upd_other by lia. reflexivity. }
          rewrite E. rewrite (Rth.(Rmul_comm) (A j j)). rewrite div_ok by auto. ring.
        * rewrite getn_upd_other by lia. rewrite (Hlo j') by lia. f_equal.
          apply bsum_ext. intros i Hi. rewrite getn_upd_other by lia. reflexivity. }
  destruct H as (Hf & _ & Hlo). split; auto. intros j Hj. symmetry. apply Hlo. auto.
Qed.

End Dense.


(* ------------------------------------------------------------------------------------------------ *)
(* sp_gemv                                                                                          *)

(* for i < n:  v[pos i] := g i v[pos i]   (pos injective on [0,n), in range) *)
Lemma fold_upd_inj : forall (pos : nat -> nat) (g : nat -> Tt -> Tt) n v,
  (forall i, i < n -> pos i < length v) ->
  (forall i j, i < n -> j < n -> pos i = pos j -> i = j) ->
  let v' := fold_left (fun r k => upd r (pos k) (g k (getn Ar r (pos k)))) (seq 0 n) v in
  length v' = length v /\
  (forall i, i < n -> getn Ar v' (pos i) = g i (getn Ar v (pos i))) /\
  (forall k, (forall i, i < n -> pos i <> k) -> getn Ar v' k = getn Ar v k).
Proof.
  induction n as [|n IH]; intros v Hr Hinj.
  - simpl. repeat split; auto. intros; lia.
  - cbv zeta. rewrite fold_left_seq_snoc. simpl.
    destruct (IH v) as (Hl & Hin & Hout); [intros; apply Hr; lia | intros; apply Hinj; auto; lia |].
    cbv zeta in Hl, Hin, Hout. set (v1 := fold_left _ (seq 0 n) v) in *.
    split. { rewrite upd_length; auto. }
    split.
    + intros i Hi. destruct (Nat.eq_dec i n) as [->|Hne].
      * rewrite getn_upd_same by (rewrite Hl; apply Hr; lia). f_equal. apply Hout.
        intros i Hi2 E. apply Hinj in E; lia.
      * rewrite getn_upd_other. apply Hin; lia. intros E. apply Hinj in E; lia.
    + intros k Hk. rewrite getn_upd_other by (apply Hk; lia). apply Hout. intros; apply Hk; lia.
Qed.

Lemma getz_nat : forall v k, getz Ar v (Z.of_nat k) = getn Ar v k.
Proof.
  intros. unfold getz. destruct (Z.ltb_spec (Z.of_nat k) 0); [lia|]. rewrite Nat2Z.id. reflexivity.
Qed.
Lemma updz_nat : forall v k a, updz Ar v (Z.of_nat k) a = upd v k a.
Proof.
  intros. unfold updz. destruct (Z.ltb_spec (Z.of_nat k) 0); [lia|]. rewrite Nat2Z.id. reflexivity.
Qed.
Lemma getz_pos : forall v z, (0 <= z)%Z -> getz Ar v z = getn Ar v (Z.to_nat z).
Proof. intros. unfold getz. destruct (Z.ltb_spec z 0); [lia|]. reflexivity. Qed.
Lemma updz_pos : forall v z a, (0 <= z)%Z -> updz Ar v z a = upd v (Z.to_nat z) a.
Proof. intros. unfold updz. destruct (Z.ltb_spec z 0); [lia|]. reflexivity. Qed.

(* for t in [s, s+m):  y[r t] := y[r t] + c * v t *)
Lemma scatter_add : forall (r : nat -> nat) (v : nat -> Tt) (c : Tt) m (y : list Tt) s,
  (forall t, t < m -> r (s + t) < length y) ->
  let y' := fold_left (fun y t => upd y (r t) (getn Ar y (r t) +! c *! v t)) (seq s m) y in
  length y' = length y /\
  forall i, getn Ar y' i = getn Ar y i +! c *! bsum (fun t => if r (s + t) =? i then v (s + t) else z0) m.
Proof.
  induction m as [|m IH]; intros y s Hr.
  - simpl. split; auto. intros; ring.
  - cbv zeta. rewrite fold_left_seq_snoc.
    destruct (IH y s) as [Hl Hx]; [intros; apply Hr; lia |].
    cbv zeta in Hl, Hx. set (y1 := fold_left _ (seq s m) y) in *.
    split. { rewrite upd_length; auto. }
    intros i. rewrite getn_upd. simpl bsum.
    assert (Hin : r (s + m) < length y1) by (rewrite Hl; apply Hr; lia).
    destruct (Nat.eqb_spec (r (s + m)) i) as [E|E]; simpl.
    + apply Nat.ltb_lt in Hin. rewrite Hin. subst i. rewrite Hx. ring.
    + rewrite Hx. ring.
Qed.

Section Gemv.
Variable A : csc Ar.
Variables m n : nat.
Hypothesis Hm : a_nrow _ A = Z.of_nat m.
Hypothesis Hn : a_ncol _ A = Z.of_nat n.

Definition col_lo (j : nat) : nat := nget (a_colptr _ A) j.
Definition col_len (j : nat) : nat := nget (a_colptr _ A) (S j) - col_lo j.
(* the dense matrix a compressed-column structure denotes: A(i,j) = sum of the stored entries of
   column j whose row index is i *)
Definition dense (i j : nat) : Tt :=
  bsum (fun t => if nget (a_rowind _ A) (col_lo j + t) =? i then getn Ar (a_val _ A) (col_lo j + t) else z0) (col_len j).

Definition rows_in_range : Prop :=
  forall j t, j < n -> t < col_len j -> nget (a_rowind _ A) (col_lo j + t) < m.

(* "y := beta*y" on the positions pos 0 .. pos (len-1) *)
Lemma scal_loop_spec : forall beta len iy0 incy y (pos : nat -> nat),
  (forall i, i < len -> (0 <= iy0 + Z.of_nat i * incy)%Z /\ pos i = Z.to_nat (iy0 + Z.of_nat i * incy)) ->
  (forall i, i < len -> pos i < length y) ->
  (forall i j, i < len -> j < len -> pos i = pos j -> i = j) ->
  let y' := scal_loop Ar beta len iy0 incy y in
  length y' = length y /\
  (forall i, i < len -> getn Ar y' (pos i) = beta *! getn Ar y (pos i)) /\
  (forall k, (forall i, i < len -> pos i <> k) -> getn Ar y' k = getn Ar y k).
Proof.
  intros beta len iy0 incy y pos Hpos Hr Hinj. cbv zeta. unfold scal_loop.
  rewrite (fold_left_ext_in _ _ _
             (fun r k => upd r (pos k) ((fun _ old => if eqb Ar beta z0 then z0 else beta *! old) k (getn Ar r (pos k))))).
  - destruct (fold_upd_inj pos (fun _ old => if eqb Ar beta z0 then z0 else beta *! old) len y Hr Hinj) as (Hl & Hin & Hout).
    cbv zeta in Hl, Hin, Hout. split; auto. split; auto.
    intros i Hi. rewrite Hin by auto. destruct (eqb Ar beta z0) eqn:E; auto.
    apply eqb_ok in E. rewrite E. ring.
  - intros r k Hk. apply in_seq in Hk. destruct (Hpos k) as [Hnn Hp]; [lia|].
    rewrite updz_pos, getz_pos by auto. rewrite <- Hp. reflexivity.
Qed.

(* ---- y := alpha*A*x + beta*y   (trans = 'N', incy = 1) *)
Section GemvN.
Variables (alpha beta : Tt) (x : list Tt) (xo incx : Z) (y : list Tt) (yon : nat).
Let kx : Z := (if 0 <? incx then 0 else - (Z.of_nat n - 1) * incx)%Z.
Definition xN (j : nat) : Tt := getz Ar x (xo + (kx + Z.of_nat j * incx))%Z.

Lemma gemv_colN_spec : forall y1 j, j < n -> rows_in_range -> yon + m <= length y1 ->
  let y2 := gemv_colN Ar alpha A x xo kx incx (Z.of_nat yon) y1 j in
  length y2 = length y1 /\
  forall k, getn Ar y2 k = if (yon <=? k) && (k <? yon + m)
                           then getn Ar y1 k +! alpha *! (dense (k - yon) j *! xN j)
                           else getn Ar y1 k.
Proof.
  intros y1 j Hj Hrows Hlen. unfold gemv_colN. cbv zeta. fold (xN j). fold (col_lo j).
  destruct (eqb Ar (xN j) z0) eqn:E.
  - apply eqb_ok in E. split; auto. intros k. rewrite E.
    destruct ((yon <=? k) && (k <? yon + m)); auto. ring.
  - change (nget (a_colptr Ar A) (S j) - col_lo j) with (col_len j).
    rewrite (fold_left_ext_in _ _ _
       (fun y i => upd y (yon + nget (a_rowind _ A) i)
                         (getn Ar y (yon + nget (a_rowind _ A) i) +! (alpha *! xN j) *! getn Ar (a_val _ A) i))).
    2:{ intros r i _. rewrite <- Nat2Z.inj_add, updz_nat, getz_nat. reflexivity. }
    destruct (scatter_add (fun i => yon + nget (a_rowind _ A) i) (fun i => getn Ar (a_val _ A) i)
                          (alpha *! xN j) (col_len j) y1 (col_lo j)) as [Hl Hx].
    { intros t Ht. specialize (Hrows j t Hj Ht). lia. }
    cbv zeta in Hl, Hx. split; auto. intros k. rewrite Hx.
    destruct (Nat.leb_spec yon k); destruct (Nat.ltb_spec k (yon + m)); simpl.
    + match goal with |- _ +! _ *! ?b = _ => assert (Hb : b = dense (k - yon) j) end.
      { unfold dense. apply bsum_ext. intros t Ht.
        destruct (Nat.eqb_spec (yon + nget (a_rowind Ar A) (col_lo j + t)) k);
          destruct (Nat.eqb_spec (nget (a_rowind Ar A) (col_lo j + t)) (k - yon)); auto; lia. }
      rewrite Hb. ring.
    + rewrite bsum_zero. ring. intros t Ht. specialize (Hrows j t Hj Ht).
      destruct (Nat.eqb_spec (yon + nget (a_rowind Ar A) (col_lo j + t)) k); auto; lia.
    + rewrite bsum_zero. ring. intros t Ht.
      destruct (Nat.eqb_spec (yon + nget (a_rowind Ar A) (col_lo j + t)) k); auto; lia.
    + rewrite bsum_zero. ring. intros t Ht.
      destruct (Nat.eqb_spec (yon + nget (a_rowind Ar A) (col_lo j + t)) k); auto; lia.
Qed.

Theorem gemv_N_exact :
  0 < m -> 0 < n -> incx <> 0%Z -> rows_in_range -> yon + m <= length y ->
  exists y', sp_gemv Ar cN alpha A x xo incx beta y (Z.of_nat yon) 1 = G_ok y' /\
    length y' = length y /\
    (forall i, i < m ->
       getn Ar y' (yon + i) = alpha *! bsum (fun j => dense i j *! xN j) n +! beta *! getn Ar y (yon + i)) /\
    (forall k, (k < yon \/ yon + m <= k) -> getn Ar y' k = getn Ar y k).
Proof.
  intros Hm0 Hn0 Hincx Hrows Hlen.
  unfold sp_gemv. simpl tchar_eqb. simpl negb. simpl andb.
  rewrite Hm, Hn.
  destruct (Z.ltb_spec (Z.of_nat m) 0); [lia|]. destruct (Z.ltb_spec (Z.of_nat n) 0); [lia|]. simpl orb.
  destruct (Z.eqb_spec incx 0); [lia|]. simpl.
  destruct (Z.eqb_spec (Z.of_nat m) 0); [lia|]. destruct (Z.eqb_spec (Z.of_nat n) 0); [lia|]. simpl orb.
  fold kx.
  (* the scaled vector *)
  set (y1 := if eqb Ar beta o1 then y else scal_loop Ar beta (Z.to_nat (Z.of_nat m)) (Z.of_nat yon) 1 y).
  assert (Hy1 : length y1 = length y /\
                (forall i, i < m -> getn Ar y1 (yon + i) = beta *! getn Ar y (yon + i)) /\
                (forall k, (k < yon \/ yon + m <= k) -> getn Ar y1 k = getn Ar y k)).
  { unfold y1. destruct (eqb Ar beta o1) eqn:Eb.
    - apply eqb_ok in Eb. subst beta. repeat split; auto. intros; ring.
    - rewrite Nat2Z.id.
      destruct (scal_loop_spec beta m (Z.of_nat yon) 1 y (fun i => yon + i)) as (Hl & Hin & Hout).
      + intros i Hi. split; lia.
      + intros; lia.
      + intros; lia.
      + cbv zeta in Hl, Hin, Hout. repeat split; auto. intros k Hk. apply Hout. intros; lia. }
  destruct Hy1 as (Hl1 & Hin1 & Hout1).
  destruct (eqb Ar alpha z0 && eqb Ar beta o1) eqn:Eq.
  { apply andb_true_iff in Eq. destruct Eq as [Ea Eb]. apply eqb_ok in Ea, Eb. subst.
    exists y. repeat split; auto. intros; ring. }
  destruct (eqb Ar alpha z0) eqn:Ea.
  { apply eqb_ok in Ea. subst alpha. exists y1. repeat split; auto.
    intros i Hi. rewrite Hin1 by auto. ring. }
  rewrite Nat2Z.id.
  eexists. split; [reflexivity|].
  (* column loop invariant *)
  assert (Hinv : forall c, c <= n ->
     let yc := fold_left (gemv_colN Ar alpha A x xo kx incx (Z.of_nat yon)) (seq 0 c) y1 in
     length yc = length y1 /\
     forall k, getn Ar yc k = if (yon <=? k) && (k <? yon + m)
                              then getn Ar y1 k +! alpha *! bsum (fun j => dense (k - yon) j *! xN j) c
                              else getn Ar y1 k).
  { induction c as [|c IH]; intros Hc; cbv zeta.
    - simpl. split; auto. intros k. destruct ((yon <=? k) && (k <? yon + m)); auto. ring.
    - rewrite fold_left_seq_snoc. destruct IH as [Hl Hx]; [lia|]. cbv zeta in Hl, Hx.
      set (yc := fold_left _ (seq 0 c) y1) in *.
      destruct (gemv_colN_spec yc c ltac:(lia) Hrows ltac:(lia)) as [Hl2 Hx2]. cbv zeta in Hl2, Hx2.
      simpl plus. split; [congruence|]. intros k. rewrite Hx2, Hx.
      destruct ((yon <=? k) && (k <? yon + m)); auto. simpl. ring. }
  destruct (Hinv n (le_n n)) as [Hl Hx]. cbv zeta in Hl, Hx.
  split; [congruence|]. split.
  - intros i Hi. rewrite Hx.
    destruct (Nat.leb_spec yon (yon + i)); try lia. destruct (Nat.ltb_spec (yon + i) (yon + m)); try lia. simpl.
    replace (yon + i - yon) with i by lia. rewrite Hin1 by auto. ring.
  - intros k Hk. rewrite Hx.
    destruct (Nat.leb_spec yon k); destruct (Nat.ltb_spec k (yon + m)); simpl; try lia; apply Hout1; auto.
Qed.
End GemvN.

(* ---- y := alpha*A'*x + beta*y   (trans = 'T' or 'C', incx = 1) *)
Section GemvT.
Variables (alpha beta : Tt) (x : list Tt) (xon : nat) (y : list Tt) (yo incy : Z).
Let ky : Z := (if 0 <? incy then 0 else - (Z.of_nat n - 1) * incy)%Z.
Definition posT (j : nat) : Z := (yo + (ky + Z.of_nat j * incy))%Z.

Lemma gemv_colT_temp : forall j, j < n -> rows_in_range ->
  fold_left (fun t i => t +! getn Ar (a_val _ A) i *! getz Ar x (Z.of_nat xon + Z.of_nat (nget (a_rowind _ A) i))%Z)
            (seq (col_lo j) (col_len j)) z0
  = bsum (fun i => dense i j *! getn Ar x (xon + i)) m.
Proof.
  intros j Hj Hrows.
  rewrite (fold_add_bsum_from (fun i => getn Ar (a_val _ A) i *! getz Ar x (Z.of_nat xon + Z.of_nat (nget (a_rowind _ A) i))%Z)).
  unfold dense.
  rewrite (bsum_ext (fun i => bsum _ (col_len j) *! getn Ar x (xon + i))
                    (fun i => bsum (fun t => (if nget (a_rowind Ar A) (col_lo j + t) =? i
                                               then getn Ar (a_val Ar A) (col_lo j + t) else z0) *! getn Ar x (xon + i)) (col_len j))).
  2:{ intros i _. rewrite bsum_mul_r. reflexivity. }
  rewrite bsum_swap.
  rewrite (Rth.(Radd_0_l)). apply bsum_ext. intros t Ht.
  specialize (Hrows j t Hj Ht).
  rewrite <- Nat2Z.inj_add, getz_nat.
  rewrite (bsum_ext _ (fun i => if i =? nget (a_rowind Ar A) (col_lo j + t)
                                then getn Ar (a_val Ar A) (col_lo j + t) *! getn Ar x (xon + i) else z0)).
  - rewrite (bsum_single (fun i => getn Ar (a_val Ar A) (col_lo j + t) *! getn Ar x (xon + i))) by auto. reflexivity.
  - intros i _. rewrite Nat.eqb_sym. destruct (i =? nget (a_rowind Ar A) (col_lo j + t)); ring.
Qed.

Theorem gemv_T_exact : forall tr, tr = cT \/ tr = cC ->
  0 < m -> 0 < n -> incy <> 0%Z -> rows_in_range ->
  (forall j, j < n -> (0 <= posT j < Z.of_nat (length y))%Z) ->
  exists y', sp_gemv Ar tr alpha A x (Z.of_nat xon) 1 beta y yo incy = G_ok y' /\
    length y' = length y /\
    (forall j, j < n ->
       getz Ar y' (posT j) = alpha *! bsum (fun i => dense i j *! getn Ar x (xon + i)) m +! beta *! getz Ar y (posT j)) /\
    (forall k, (forall j, j < n -> posT j <> Z.of_nat k) -> getn Ar y' k = getn Ar y k).
Proof.
  intros tr Htr Hm0 Hn0 Hincy Hrows Hpos.
  assert (Hsel : sp_gemv Ar tr alpha A x (Z.of_nat xon) 1 beta y yo incy
                 = sp_gemv Ar cT alpha A x (Z.of_nat xon) 1 beta y yo incy) by (destruct Htr; subst; reflexivity).
  rewrite Hsel. clear Hsel.
  unfold sp_gemv. simpl tchar_eqb. simpl negb. simpl andb.
  rewrite Hm, Hn.
  destruct (Z.ltb_spec (Z.of_nat m) 0); [lia|]. destruct (Z.ltb_spec (Z.of_nat n) 0); [lia|]. simpl orb.
  change (1 =? 0)%Z with false. cbv iota.
  destruct (Z.eqb_spec incy 0); [lia|].
  destruct (Z.eqb_spec (Z.of_nat m) 0); [lia|]. destruct (Z.eqb_spec (Z.of_nat n) 0); [lia|]. simpl orb.
  fold ky. change (1 =? 1)%Z with true. cbv iota.
  set (pos := fun j => Z.to_nat (posT j)).
  assert (Hpr : forall j, j < n -> pos j < length y) by (intros j Hj; specialize (Hpos j Hj); unfold pos; lia).
  assert (Hpinj : forall i j, i < n -> j < n -> pos i = pos j -> i = j).
  { intros i j Hi Hj E. pose proof (Hpos i Hi). pose proof (Hpos j Hj). unfold pos, posT in *.
    assert (Z.of_nat i * incy = Z.of_nat j * incy)%Z by lia. nia. }
  (* both branches of the scaling loop visit the same positions *)
  set (y1 := if eqb Ar beta o1 then y
             else if (incy =? 1)%Z then scal_loop Ar beta (Z.to_nat (Z.of_nat n)) yo 1 y
                  else scal_loop Ar beta (Z.to_nat (Z.of_nat n)) (yo + ky) incy y).
  assert (Hy1 : length y1 = length y /\
                (forall j, j < n -> getn Ar y1 (pos j) = beta *! getn Ar y (pos j)) /\
                (forall k, (forall j, j < n -> pos j <> k) -> getn Ar y1 k = getn Ar y k)).
  { unfold y1. destruct (eqb Ar beta o1) eqn:Eb.
    - apply eqb_ok in Eb. subst beta. repeat split; auto. intros; ring.
    - rewrite Nat2Z.id. destruct (Z.eqb_spec incy 1) as [E1|E1].
      + apply (scal_loop_spec beta n yo 1 y pos); auto.
        intros i Hi. specialize (Hpos i Hi). unfold pos, posT, ky in *. subst incy. simpl in *. split; [lia|f_equal; lia].
      + apply (scal_loop_spec beta n (yo + ky) incy y pos); auto.
        intros i Hi. specialize (Hpos i Hi). unfold pos, posT in *. split; [lia|f_equal; lia]. }
  destruct Hy1 as (Hl1 & Hin1 & Hout1).
  assert (Hgz : forall v j, j < n -> getz Ar v (posT j) = getn Ar v (pos j)).
  { intros v j Hj. apply getz_pos. specialize (Hpos j Hj). lia. }
  assert (Hk2 : forall k, (forall j, j < n -> posT j <> Z.of_nat k) -> forall j, j < n -> pos j <> k).
  { intros k Hk j Hj E. apply (Hk j Hj). specialize (Hpos j Hj). unfold pos in E. lia. }
  destruct (eqb Ar alpha z0 && eqb Ar beta o1) eqn:Eq.
  { apply andb_true_iff in Eq. destruct Eq as [Ea Eb]. apply eqb_ok in Ea, Eb. subst.
    exists y. repeat split; auto. intros; ring. }
  destruct (eqb Ar alpha z0) eqn:Ea.
  { apply eqb_ok in Ea. subst alpha. exists y1. split; [reflexivity|]. split; [exact Hl1|]. split.
    - intros j Hj. rewrite !Hgz by auto. rewrite Hin1 by auto. ring.
    - intros k Hk. apply Hout1. auto. }
  rewrite Nat2Z.id.
  eexists. split; [reflexivity|].
  (* the column loop as an injective pointwise update *)
  rewrite (fold_left_ext_in _ _ _
     (fun r j => upd r (pos j) ((fun j old => old +! alpha *! bsum (fun i => dense i j *! getn Ar x (xon + i)) m) j (getn Ar r (pos j))))).
  2:{ intros r j Hj. apply in_seq in Hj. unfold gemv_colT. cbv zeta.
      fold (col_lo j). change (nget (a_colptr Ar A) (S j) - col_lo j) with (col_len j).
      rewrite gemv_colT_temp by (auto; lia).
      fold (posT j). specialize (Hpos j ltac:(lia)).
      rewrite updz_pos, getz_pos by lia. reflexivity. }
  destruct (fold_upd_inj pos (fun j old => old +! alpha *! bsum (fun i => dense i j *! getn Ar x (xon + i)) m) n y1) as (Hl & Hin & Hout).
  { intros; rewrite Hl1; auto. } { auto. }
  cbv zeta in Hl, Hin, Hout. split; [congruence|]. split.
  - intros j Hj. rewrite !Hgz by auto. rewrite Hin by auto. rewrite Hin1 by auto. ring.
  - intros k Hk. rewrite Hout by auto. apply Hout1. auto.
Qed.
End GemvT.

(* ---- the stored entries of a column, as seen by ?langs *)
Definition colsum_abs (j : nat) : Tt := bsum (fun t => abs Ar (getn Ar (a_val _ A) (col_lo j + t))) (col_len j).
Definition rowsum_abs (i : nat) : Tt :=
  bsum (fun j => bsum (fun t => if nget (a_rowind _ A) (col_lo j + t) =? i
                               then abs Ar (getn Ar (a_val _ A) (col_lo j + t)) else z0) (col_len j)) n.

Lemma langs_colsum : forall j,
  fold_left (fun s i => s +! abs Ar (getn Ar (a_val _ A) i)) (col_range Ar A j) z0 = colsum_abs j.
Proof.
  intros j. unfold col_range. fold (col_lo j). change (nget (a_colptr Ar A) (S j) - col_lo j) with (col_len j).
  rewrite (fold_add_bsum_from (fun i => abs Ar (getn Ar (a_val _ A) i))). unfold colsum_abs. ring.
Qed.

(* the row-sum work array of the infinity norm *)
Lemma langs_rwork : rows_in_range ->
  let rwork := fold_left (fun rw j =>
                 fold_left (fun rw i => let irow := nget (a_rowind _ A) i in
                                        upd rw irow (getn Ar rw irow +! abs Ar (getn Ar (a_val _ A) i)))
                           (col_range Ar A j) rw) (seq 0 n) (repeat z0 m) in
  length rwork = m /\ forall i, i < m -> getn Ar rwork i = rowsum_abs i.
Proof.
  intros Hrows. cbv zeta.
  assert (Hinv : forall c, c <= n ->
     let rw := fold_left (fun rw j =>
                 fold_left (fun rw i => let irow := nget (a_rowind _ A) i in
                                        upd rw irow (getn Ar rw irow +! abs Ar (getn Ar (a_val _ A) i)))
                           (col_range Ar A j) rw) (seq 0 c) (repeat z0 m) in
     length rw = m /\ forall i, getn Ar rw i =
        bsum (fun j => bsum (fun t => if nget (a_rowind _ A) (col_lo j + t) =? i
                                      then abs Ar (getn Ar (a_val _ A) (col_lo j + t)) else z0) (col_len j)) c).
  { induction c as [|c IH]; intros Hc; cbv zeta.
    - simpl. split. apply repeat_length. intros i. unfold getn.
      destruct (Nat.lt_ge_cases i m). apply nth_repeat. apply nth_overflow. rewrite repeat_length. lia.
    - rewrite fold_left_seq_snoc. change (0 + c) with c. destruct IH as [Hl Hx]; [lia|]. cbv zeta in Hl, Hx.
      set (rw := fold_left _ (seq 0 c) (repeat z0 m)) in *.
      unfold col_range. fold (col_lo c). change (nget (a_colptr Ar A) (S c) - col_lo c) with (col_len c).
      rewrite (fold_left_ext_in _ _ _
         (fun y t => upd y (nget (a_rowind _ A) t) (getn Ar y (nget (a_rowind _ A) t) +! o1 *! abs Ar (getn Ar (a_val _ A) t)))).
      2:{ intros r t _. cbv zeta. f_equal. ring. }
      destruct (scatter_add (fun t => nget (a_rowind _ A) t) (fun t => abs Ar (getn Ar (a_val _ A) t)) o1 (col_len c) rw (col_lo c)) as [Hl2 Hx2].
      { intros t Ht. rewrite Hl. apply Hrows; auto. }
      cbv zeta in Hl2, Hx2. split; [congruence|]. intros i. rewrite Hx2, Hx. simpl bsum. ring. }
  destruct (Hinv n (le_n n)) as [Hl Hx]. cbv zeta in Hl, Hx. split; [exact Hl|].
  intros i _. rewrite Hx. reflexivity.
Qed.

(* ---- dCopy_CompCol_Matrix *)
Lemma copy_dense_eq : forall (B : csc Ar) nnz,
  nnz <= length (a_rowind _ A) -> nnz <= length (a_val _ A) -> S n <= length (a_colptr _ A) ->
  nnz <= length (a_rowind _ B) -> nnz <= length (a_val _ B) -> S n <= length (a_colptr _ B) ->
  (forall j, j < n -> col_lo j + col_len j <= nnz) ->
  let C := copy_csc Ar nnz A B in
  a_nrow _ C = a_nrow _ A /\ a_ncol _ C = a_ncol _ A /\
  (forall j, j <= n -> nget (a_colptr _ C) j = nget (a_colptr _ A) j) /\
  (forall p, p < nnz -> nget (a_rowind _ C) p = nget (a_rowind _ A) p /\ getn Ar (a_val _ C) p = getn Ar (a_val _ A) p).
Proof.
  intros B nnz H1 H2 H3 H4 H5 H6 Hcols. cbv zeta. unfold copy_csc. cbn [a_nrow a_ncol a_colptr a_rowind a_val].
  split; auto. split; auto. rewrite Hn, Nat2Z.id. split.
  - intros j Hj. unfold nget. rewrite copy_prefix_nth by lia. destruct (Nat.ltb_spec j (S n)); auto; lia.
  - intros p Hp. unfold nget, getn. rewrite !copy_prefix_nth by lia. destruct (Nat.ltb_spec p nnz); auto; lia.
Qed.

End Gemv.

(* ---- sp_gemm: column j of C becomes alpha*op(A)*B(:,j) + beta*C(:,j) *)
Section Gemm.
Variables (A : csc Ar) (tr : tchar) (alpha beta : Tt) (b : list Tt) (ldb ldc leny nrhs : nat).
Variable F : nat -> nat -> Tt.           (* F j i = (alpha*op(A)*B(:,j))_i *)
Hypothesis Hld : leny <= ldc.
Hypothesis Hcol : forall j cin, j < nrhs -> ldc * j + leny <= length cin ->
  exists y', sp_gemv Ar tr alpha A b (Z.of_nat ldb * Z.of_nat j) 1 beta cin (Z.of_nat ldc * Z.of_nat j) 1 = G_ok y' /\
    length y' = length cin /\
    (forall i, i < leny -> getn Ar y' (ldc * j + i) = F j i +! beta *! getn Ar cin (ldc * j + i)) /\
    (forall p, (p < ldc * j \/ ldc * j + leny <= p) -> getn Ar y' p = getn Ar cin p).

Lemma gemm_cols : forall c, (forall j, j < nrhs -> ldc * j + leny <= length c) ->
  let c' := sp_gemm Ar tr nrhs alpha A b (Z.of_nat ldb) beta c (Z.of_nat ldc) in
  length c' = length c /\
  (forall j i, j < nrhs -> i < leny -> getn Ar c' (ldc * j + i) = F j i +! beta *! getn Ar c (ldc * j + i)) /\
  (forall p, (forall j, j < nrhs -> p < ldc * j \/ ldc * j + leny <= p) -> getn Ar c' p = getn Ar c p).
Proof.
  intros c Hlen. cbv zeta. unfold sp_gemm.
  assert (Hinv : forall k, k <= nrhs ->
     let ck := fold_left (fun c j => gemv_y Ar (sp_gemv Ar tr alpha A b (Z.of_nat ldb * Z.of_nat j) 1 beta c (Z.of_nat ldc * Z.of_nat j) 1))
                         (seq 0 k) c in
     length ck = length c /\
     (forall j i, j < k -> i < leny -> getn Ar ck (ldc * j + i) = F j i +! beta *! getn Ar c (ldc * j + i)) /\
     (forall p, (forall j, j < k -> p < ldc * j \/ ldc * j + leny <= p) -> getn Ar ck p = getn Ar c p)).
  { induction k as [|k IH]; intros Hk; cbv zeta.
    - simpl. repeat split; auto. intros; lia.
    - rewrite fold_left_seq_snoc. change (0 + k) with k. destruct IH as (Hl & Hin & Hout); [lia|]. cbv zeta in Hl, Hin, Hout.
      set (ck := fold_left _ (seq 0 k) c) in *.
      destruct (Hcol k ck ltac:(lia) ltac:(rewrite Hl; apply Hlen; lia)) as (y' & Hy & Hl' & Hin' & Hout').
      rewrite Hy. simpl gemv_y. split; [congruence|]. split.
      + intros j i Hj Hi. destruct (Nat.eq_dec j k) as [->|Hne].
        * rewrite Hin' by auto. f_equal. f_equal. apply Hout. intros j' Hj'. nia.
        * rewrite Hout' by nia. apply Hin; auto; lia.
      + intros q Hq. rewrite Hout' by (apply Hq; lia). apply Hout. intros; apply Hq; lia. }
  apply (Hinv nrhs (le_n _)).
Qed.
End Gemm.

Theorem gemm_N_exact : forall (A : csc Ar) m n alpha beta b ldb c ldc nrhs,
  a_nrow _ A = Z.of_nat m -> a_ncol _ A = Z.of_nat n -> 0 < m -> 0 < n -> rows_in_range A m n ->
  m <= ldc -> (forall j, j < nrhs -> ldc * j + m <= length c) ->
  let c' := sp_gemm Ar cN nrhs alpha A b (Z.of_nat ldb) beta c (Z.of_nat ldc) in
  length c' = length c /\
  (forall j i, j < nrhs -> i < m ->
     getn Ar c' (ldc * j + i)
     = alpha *! bsum (fun jj => dense A i jj *! getz Ar b (Z.of_nat (ldb * j + jj))) n +! beta *! getn Ar c (ldc * j + i)) /\
  (forall p, (forall j, j < nrhs -> p < ldc * j \/ ldc * j + m <= p) -> getn Ar c' p = getn Ar c p).
Proof.
  intros A m n alpha beta b ldb c ldc nrhs Hm Hn Hm0 Hn0 Hrows Hld Hlen.
  apply (gemm_cols A cN alpha beta b ldb ldc m nrhs
           (fun j i => alpha *! bsum (fun jj => dense A i jj *! getz Ar b (Z.of_nat (ldb * j + jj))) n)); auto.
  intros j cin Hj Hcin.
  destruct (gemv_N_exact A m n Hm Hn alpha beta b (Z.of_nat ldb * Z.of_nat j) 1 cin (ldc * j) Hm0 Hn0 ltac:(lia) Hrows Hcin)
    as (y' & Hy & Hl & Hin & Hout).
  exists y'. rewrite Nat2Z.inj_mul in Hy. split; auto. split; auto. split; auto.
  intros i Hi. rewrite (Hin i Hi). f_equal. f_equal. apply bsum_ext. intros jj Hjj. f_equal. unfold xN.
  f_equal. simpl. lia.
Qed.

Theorem gemm_T_exact : forall (A : csc Ar) m n tr alpha beta b ldb c ldc nrhs, tr = cT \/ tr = cC ->
  a_nrow _ A = Z.of_nat m -> a_ncol _ A = Z.of_nat n -> 0 < m -> 0 < n -> rows_in_range A m n ->
  n <= ldc -> (forall j, j < nrhs -> ldc * j + n <= length c) ->
  let c' := sp_gemm Ar tr nrhs alpha A b (Z.of_nat ldb) beta c (Z.of_nat ldc) in
  length c' = length c /\
  (forall j i, j < nrhs -> i < n ->
     getn Ar c' (ldc * j + i)
     = alpha *! bsum (fun ii => dense A ii i *! getn Ar b (ldb * j + ii)) m +! beta *! getn Ar c (ldc * j + i)) /\
  (forall p, (forall j, j < nrhs -> p < ldc * j \/ ldc * j + n <= p) -> getn Ar c' p = getn Ar c p).
Proof.
  intros A m n tr alpha beta b ldb c ldc nrhs Htr Hm Hn Hm0 Hn0 Hrows Hld Hlen.
  apply (gemm_cols A tr alpha beta b ldb ldc n nrhs
           (fun j i => alpha *! bsum (fun ii => dense A ii i *! getn Ar b (ldb * j + ii)) m)); auto.
  intros j cin Hj Hcin.
  assert (Hpos : forall i, posT n (Z.of_nat ldc * Z.of_nat j) 1 i = Z.of_nat (ldc * j + i)).
  { intros i. unfold posT. simpl. lia. }
  destruct (gemv_T_exact A m n Hm Hn alpha beta b (ldb * j) cin (Z.of_nat ldc * Z.of_nat j) 1 tr Htr Hm0 Hn0 ltac:(lia) Hrows)
    as (y' & Hy & Hl & Hin & Hout).
  { intros i Hi. rewrite Hpos. lia. }
  exists y'. rewrite Nat2Z.inj_mul in Hy. split; auto. split; auto. split.
  - intros i Hi. specialize (Hin i Hi). rewrite Hpos, !getz_nat in Hin. exact Hin.
  - intros q Hq. apply Hout. intros i Hi. rewrite Hpos. lia.
Qed.


(* ------------------------------------------------------------------------------------------------ *)
(* sp_trsv on a supernodal L (SCPformat) and a column-wise U (NCPformat)                            *)

(* scatter through the work vector:  x[R i] -= work[i]; work[i] = 0 *)
Lemma scatter_work : forall (R : nat -> nat) nrow (x w : list Tt),
  (forall i, i < nrow -> R i < length x) -> nrow <= length w ->
  let res := fold_left (fun xw i => let '(x, w) := xw in
                                    (upd x (R i) (getn Ar x (R i) -! getn Ar w i), upd w i z0))
                       (seq 0 nrow) (x, w) in
  length (fst res) = length x /\ length (snd res) = length w /\
  (forall r, getn Ar (fst res) r = getn Ar x r -! bsum (fun i => if R i =? r then getn Ar w i else z0) nrow) /\
  (forall i, getn Ar (snd res) i = if i <? nrow then z0 else getn Ar w i).
Proof.
  induction nrow as [|nrow IH]; intros x w HR Hw; cbv zeta.
  - simpl. repeat split; auto. intros; ring.
  - rewrite fold_left_seq_snoc. simpl plus.
    destruct (IH x w) as (Hlx & Hlw & Hx & Hwk); [intros; apply HR; lia | lia |]. cbv zeta in Hlx, Hlw, Hx, Hwk.
    destruct (fold_left _ (seq 0 nrow) (x, w)) as [x1 w1]. simpl in *.
    split. { rewrite upd_length; auto. } split. { rewrite upd_length; auto. }
    split.
    + intros r. rewrite getn_upd. rewrite (Hwk nrow). destruct (Nat.ltb_spec nrow nrow); [lia|].
      destruct (Nat.eqb_spec (R nrow) r) as [E|E]; simpl.
      * assert (Hlt : (R nrow <? length x1) = true) by (apply Nat.ltb_lt; rewrite Hlx; apply HR; lia).
        rewrite Hlt. subst r. rewrite Hx. ring.
      * rewrite Hx. ring.
    + intros i. rewrite getn_upd. rewrite Hwk.
      destruct (Nat.eqb_spec nrow i) as [E|E]; simpl.
      * subst i. assert (Hlt : (nrow <? length w1) = true) by (apply Nat.ltb_lt; lia). rewrite Hlt.
        destruct (Nat.ltb_spec nrow (S nrow)); auto; lia.
      * destruct (Nat.ltb_spec i nrow); destruct (Nat.ltb_spec i (S nrow)); auto; lia.
Qed.

(* sum over the stored entries of a list of (row, value) pairs = sum over rows of the accumulated value *)
Lemma bsum_by_row : forall (R : nat -> nat) (v : nat -> Tt) (g : nat -> Tt) cnt n,
  (forall q, q < cnt -> R q < n) ->
  bsum (fun q => g (R q) *! v q) cnt
  = bsum (fun i => g i *! bsum (fun q => if R q =? i then v q else z0) cnt) n.
Proof.
  intros R v g cnt n HR.
  rewrite (bsum_ext (fun i => g i *! bsum _ cnt)
                    (fun i => bsum (fun q => if R q =? i then g i *! v q else z0) cnt)).
  2:{ intros i _. rewrite <- bsum_mul_l. apply bsum_ext. intros q _. destruct (R q =? i); ring. }
  rewrite bsum_swap. apply bsum_ext. intros q Hq.
  rewrite (bsum_ext _ (fun i => if i =? R q then g i *! v q else z0)).
  - rewrite (bsum_single (fun i => g i *! v q)) by (apply HR; auto). reflexivity.
  - intros i _. rewrite Nat.eqb_sym. destruct (Nat.eqb_spec i (R q)); subst; reflexivity.
Qed.

Section Trsv.
Variables (L : scp Ar) (U : ncp Ar) (n ns : nat).

Notation Lval := (l_val _ L).
Notation fs := (sn_fsupc Ar L).          (* first column of supernode k *)
Notation wd := (sn_nsupc Ar L).          (* its width *)
Notation is_ := (sn_istart Ar L).
Notation nr := (sn_nsupr Ar L).          (* number of rows of its block *)
Notation lu := (sn_luptr Ar L).
Definition snrow (k t : nat) : nat := nget (l_rowind _ L) (is_ k + t).

(* well-formed factor storage: exactly what the sparse triangular solves rely on *)
Record wf_factor : Prop := {
  wf_npos : 0 < n;
  wf_ldim : l_nrow _ L = Z.of_nat n /\ l_ncol _ L = Z.of_nat n;
  wf_udim : u_nrow _ U = Z.of_nat n /\ u_ncol _ U = Z.of_nat n;
  wf_nsup : l_nsuper _ L = (Z.of_nat ns - 1)%Z /\ 0 < ns;
  wf_first : fs 0 = 0;
  wf_width : forall k, k < ns -> 0 < wd k;
  wf_next : forall k, S k < ns -> fs (S k) = fs k + wd k;
  wf_last : fs (ns - 1) + wd (ns - 1) = n;
  wf_supend : forall k, k < ns -> nget (l_supend _ L) k = fs k + wd k;
  wf_rows : forall k, k < ns -> wd k <= nr k /\ nr k <= n /\ nget (l_riend _ L) (fs k) = is_ k + nr k;
  wf_own : forall k t, k < ns -> t < wd k -> snrow k t = fs k + t;
  wf_below : forall k t, k < ns -> wd k <= t < nr k -> fs k + wd k <= snrow k t < n;
  wf_nz : forall k c, k < ns -> c < wd k ->
            nget (l_nzbeg _ L) (fs k + c) = lu k + c * nr k /\
            nget (l_nzend _ L) (fs k + c) = lu k + c * nr k + nr k;
  wf_c2s : forall k c, k < ns -> c < wd k -> nget (l_col2sup _ L) (fs k + c) = k;
  wf_urows : forall k c p, k < ns -> c < wd k ->
               nget (u_colbeg _ U) (fs k + c) <= p < nget (u_colend _ U) (fs k + c) ->
               nget (u_rowind _ U) p < fs k
}.

(* dense meaning of the storage.  Column j lies in supernode k = col_to_sup[j]. *)
Definition sn_of (j : nat) : nat := nget (l_col2sup _ L) j.
(* entry of the dense diagonal block of the supernode of column j, row i (both global indices) *)
Definition blk (i j : nat) : Tt := getn Ar Lval (nget (l_nzbeg _ L) j + (i - fs (sn_of j))).
(* rows below the diagonal block: sum over the stored entries with row index i *)
Definition tailL (i j : nat) : Tt :=
  let k := sn_of j in
  bsum (fun q => if snrow k (wd k + q) =? i then getn Ar Lval (nget (l_nzbeg _ L) j + wd k + q) else z0) (nr k - wd k).
Definition Ld (i j : nat) : Tt :=    (* strictly lower part of L; the diagonal of L is 1 *)
  let k := sn_of j in
  (if (fs k <=? i) && (i <? fs k + wd k) && (j <? i) then blk i j else z0) +! tailL i j.
Definition Usp (i j : nat) : Tt :=
  let lo := nget (u_colbeg _ U) j in
  bsum (fun t => if nget (u_rowind _ U) (lo + t) =? i then getn Ar (u_val _ U) (lo + t) else z0)
       (nget (u_colend _ U) j - lo).
Definition Ud (i j : nat) : Tt :=    (* U including its diagonal *)
  let k := sn_of j in
  (if (fs k <=? i) && (i <=? j) then blk i j else z0) +! Usp i j.

Hypothesis WF : wf_factor.

Lemma fs_mono : forall k, k < ns -> fs k + wd k <= n.
Proof.
  intros k Hk. pose proof (wf_last WF) as Hlast.
  assert (H : forall d, k + d < ns -> fs k + wd k <= fs (k + d) + wd (k + d)).
  { induction d as [|d IH]; intros Hd.
    - rewrite Nat.add_0_r. lia.
    - specialize (IH ltac:(lia)). pose proof (wf_next WF (k + d) ltac:(lia)).
      replace (k + S d) with (S (k + d)) by lia. pose proof (wf_width WF (S (k + d)) ltac:(lia)). lia. }
  specialize (H (ns - 1 - k) ltac:(lia)). replace (k + (ns - 1 - k)) with (ns - 1) in H by lia. lia.
Qed.

Lemma blk_mat : forall k t c, k < ns -> t < nr k -> c < wd k ->
  getn Ar Lval (nget (l_nzbeg _ L) (fs k + c) + t) = Mat Ar Lval (lu k) (nr k) t c.
Proof.
  intros k t c Hk Ht Hc. destruct (wf_nz WF k c Hk Hc) as [E _]. rewrite E. unfold Mat. f_equal. lia.
Qed.

Lemma tailL_zero : forall k c i, k < ns -> c < wd k -> i < fs k + wd k -> tailL i (fs k + c) = z0.
Proof.
  intros k c i Hk Hc Hi. unfold tailL, sn_of. rewrite (wf_c2s WF k c Hk Hc).
  apply bsum_zero. intros q Hq. pose proof (wf_below WF k (wd k + q) Hk ltac:(lia)).
  destruct (Nat.eqb_spec (snrow k (wd k + q)) i); auto; lia.
Qed.

(* ---------------------------------------------------------------------------------------------- *)
(* x := inv(L) x                                                                                   *)

Definition LN_inv (b : list Tt) (f : nat) (x : list Tt) : Prop :=
  length x = n /\
  forall i, i < n -> getn Ar b i = getn Ar x i +! bsum (fun j => Ld i j *! getn Ar x j) (Nat.min i f).

Definition work_ok (w : list Tt) : Prop := length w = n /\ forall i, getn Ar w i = z0.

(* what one supernode step of the forward solve establishes, whichever code path is taken *)
Definition LN_char (k : nat) (x x2 : list Tt) : Prop :=
  length x2 = length x /\
  (forall i, i < fs k -> getn Ar x2 i = getn Ar x i) /\
  (forall t, t < wd k ->
     getn Ar x2 (fs k + t) +! bsum (fun c => Mat Ar Lval (lu k) (nr k) t c *! getn Ar x2 (fs k + c)) t
     = getn Ar x (fs k + t)) /\
  (forall i, fs k + wd k <= i ->
     getn Ar x2 i = getn Ar x i -! bsum (fun c => getn Ar x2 (fs k + c) *! tailL i (fs k + c)) (wd k)).

Lemma LN_sn_char : forall k x w, k < ns -> length x = n -> work_ok w ->
  let res := trsv_LN_sn Ar L (x, w) k in
  LN_char k x (fst res) /\ work_ok (snd res).
Proof.
  intros k x w Hk Hlx [Hlw Hw0]. cbv zeta. unfold trsv_LN_sn.
  destruct (wf_rows WF k Hk) as (Hwr & Hrn & Hriend).
  pose proof (wf_width WF k Hk) as Hwpos. pose proof (fs_mono k Hk) as Hfe.
  destruct (Nat.eqb_spec (wd k) 1) as [E1|E1].
  - (* single column *)
    simpl snd. simpl fst. split; [|split; auto].
    rewrite Hriend. replace (is_ k + nr k - (is_ k + 1)) with (nr k - 1) by lia.
    destruct (scatter_sub (fun t => nget (l_rowind _ L) (is_ k + 1 + t)) (fun t => getn Ar Lval (lu k + 1 + t))
                          (fs k) (nr k - 1) x 0) as [Hl Hx].
    { intros t Ht. simpl. pose proof (wf_below WF k (1 + t) Hk ltac:(lia)) as Hb.
      unfold snrow in Hb. rewrite Nat.add_assoc in Hb. lia. }
    { intros t Ht. simpl. pose proof (wf_below WF k (1 + t) Hk ltac:(lia)) as Hb.
      unfold snrow in Hb. rewrite Nat.add_assoc in Hb. lia. }
    cbv zeta in Hl, Hx. simpl plus in Hx.
    set (x2 := fold_left _ (seq 0 (nr k - 1)) x) in *.
    assert (Hsum : forall i, bsum (fun t => if nget (l_rowind Ar L) (is_ k + 1 + t) =? i then getn Ar Lval (lu k + 1 + t) else z0) (nr k - 1)
                             = tailL i (fs k + 0)).
    { intros i. unfold tailL, sn_of. rewrite (wf_c2s WF k 0 Hk ltac:(lia)). rewrite E1.
      apply bsum_ext. intros q Hq. unfold snrow. rewrite Nat.add_assoc.
      destruct (wf_nz WF k 0 Hk ltac:(lia)) as [En _]. rewrite En.
      replace (lu k + 0 * nr k + 1 + q) with (lu k + 1 + q) by lia. reflexivity. }
    split; [auto|]. split; [|split].
    + intros i Hi. rewrite Hx, Hsum. rewrite tailL_zero by lia. ring.
    + intros t Ht. assert (t = 0) by lia. subst t. simpl. rewrite Nat.add_0_r.
      rewrite Hx, Hsum. rewrite Nat.add_0_r in Hsum. rewrite <- (Nat.add_0_r (fs k)) at 3.
      rewrite tailL_zero by lia. ring.
    + intros i Hi. rewrite E1. simpl. rewrite Nat.add_0_r. rewrite Hx, Hsum. rewrite Nat.add_0_r.
      assert (E2 : getn Ar x2 (fs k) = getn Ar x (fs k)).
      { rewrite Hx, Hsum. rewrite <- (Nat.add_0_r (fs k)) at 3. rewrite tailL_zero by lia. ring. }
      rewrite E2. ring.
  - (* lsolve + matvec + scatter *)
    set (w_ := wd k) in *. set (nrow := nr k - w_).
    destruct (lsolve_exact Lval (lu k) (nr k) w_ (fs k) x ltac:(lia)) as [[Hl1 Hfr1] Hls]. cbv zeta in Hl1, Hfr1, Hls.
    set (x1 := lsolve Ar (nr k) w_ Lval (lu k) x (fs k)) in *.
    destruct (matvec_exact Lval (lu k + w_) (nr k) nrow w_ x1 (fs k) 0 w ltac:(unfold nrow; lia)) as [Hlw1 Hmv].
    set (w1 := matvec Ar (nr k) nrow w_ Lval (lu k + w_) x1 (fs k) w 0) in *.
    destruct (scatter_work (fun i => nget (l_rowind _ L) (is_ k + w_ + i)) nrow x1 w1) as (Hl2 & Hlw2 & Hx2 & Hw2).
    { intros i Hi. pose proof (wf_below WF k (w_ + i) Hk ltac:(unfold nrow in Hi; lia)) as Hb.
      unfold snrow in Hb. rewrite Nat.add_assoc in Hb. lia. }
    { unfold nrow. lia. }
    cbv zeta in Hl2, Hlw2, Hx2, Hw2.
    match goal with |- LN_char _ _ (fst ?r) /\ _ => set (res := r) in * end.
    assert (Hw1 : forall i, i < nrow ->
              getn Ar w1 i = bsum (fun c => getn Ar x1 (fs k + c) *! getn Ar Lval (nget (l_nzbeg _ L) (fs k + c) + w_ + i)) w_).
    { intros i Hi. rewrite (Hmv i). change (0 + nrow) with nrow. change (0 <=? i) with true. simpl andb.
      destruct (Nat.ltb_spec i nrow); [|lia].
      rewrite Hw0, (Rth.(Radd_0_l)). apply bsum_ext. intros c Hc. unfold mv_term.
      rewrite Nat.sub_0_r, Nat.add_0_l.
      destruct (wf_nz WF k c Hk Hc) as [En _]. rewrite En. unfold Mat. f_equal. f_equal. lia. }
    assert (Hrows_hi : forall i, i < nrow -> fs k + w_ <= nget (l_rowind _ L) (is_ k + w_ + i)).
    { intros i Hi. pose proof (wf_below WF k (w_ + i) Hk ltac:(unfold nrow in Hi; lia)) as Hb.
      unfold snrow in Hb. rewrite Nat.add_assoc in Hb. lia. }
    assert (Hlow : forall r, r < fs k + w_ -> getn Ar (fst res) r = getn Ar x1 r).
    { intros r Hr. rewrite Hx2. rewrite bsum_zero. ring. intros i Hi. specialize (Hrows_hi i Hi).
      destruct (Nat.eqb_spec (nget (l_rowind Ar L) (is_ k + w_ + i)) r); auto; lia. }
    split.
    + split; [congruence|]. split; [|split].
      * intros i Hi. rewrite Hlow by lia. apply Hfr1. lia.
      * intros t Ht. rewrite Hlow by lia. rewrite <- (Hls t Ht). f_equal.
        apply bsum_ext. intros c Hc. rewrite Hlow by lia. reflexivity.
      * intros i Hi. rewrite Hx2. rewrite (Hfr1 i) by lia. f_equal.
        rewrite (bsum_ext _ (fun q => if nget (l_rowind Ar L) (is_ k + w_ + q) =? i
                                      then bsum (fun c => getn Ar x1 (fs k + c) *! getn Ar Lval (nget (l_nzbeg _ L) (fs k + c) + w_ + q)) w_
                                      else z0)).
        2:{ intros q Hq. rewrite Hw1 by auto. reflexivity. }
        rewrite (bsum_ext (fun c => getn Ar (fst res) (fs k + c) *! tailL i (fs k + c))
                          (fun c => bsum (fun q => if nget (l_rowind Ar L) (is_ k + w_ + q) =? i
                                                   then getn Ar x1 (fs k + c) *! getn Ar Lval (nget (l_nzbeg _ L) (fs k + c) + w_ + q)
                                                   else z0) nrow)).
        2:{ intros c Hc. rewrite Hlow by lia. unfold tailL, sn_of. rewrite (wf_c2s WF k c Hk Hc).
            fold w_. fold nrow. rewrite <- bsum_mul_l. apply bsum_ext. intros q Hq. unfold snrow.
            rewrite Nat.add_assoc. destruct (nget (l_rowind Ar L) (is_ k + w_ + q) =? i); ring. }
        rewrite (bsum_swap (fun c q => if nget (l_rowind Ar L) (is_ k + w_ + q) =? i
                                       then getn Ar x1 (fs k + c) *! getn Ar Lval (nget (l_nzbeg Ar L) (fs k + c) + w_ + q) else z0)).
        apply bsum_ext. intros q Hq. destruct (nget (l_rowind Ar L) (is_ k + w_ + q) =? i); auto.
        rewrite bsum_zero; auto.
    + split; [congruence|]. intros i. rewrite Hw2. destruct (Nat.ltb_spec i nrow) as [Hlt|Hge]; auto.
      rewrite (Hmv i). change (0 + nrow) with nrow. change (0 <=? i) with true. simpl andb.
      destruct (Nat.ltb_spec i nrow); [lia|apply Hw0].
Qed.

Lemma LN_char_inv : forall b k x x2, k < ns -> LN_inv b (fs k) x -> LN_char k x x2 ->
  LN_inv b (fs k + wd k) x2.
Proof.
  intros b k x x2 Hk [Hlx Hinv] (Hl & Hlo & Hblk & Hhi).
  pose proof (fs_mono k Hk) as Hfe.
  split; [congruence|]. intros i Hi. rewrite (Hinv i Hi).
  assert (Hpre : forall m', m' <= fs k ->
             bsum (fun j => Ld i j *! getn Ar x j) m' = bsum (fun j => Ld i j *! getn Ar x2 j) m').
  { intros m' Hm'. apply bsum_ext. intros j Hj. rewrite Hlo by lia. reflexivity. }
  destruct (Nat.lt_ge_cases i (fs k)) as [C1|C1].
  - replace (Nat.min i (fs k)) with i by lia. replace (Nat.min i (fs k + wd k)) with i by lia.
    rewrite Hlo by lia. rewrite Hpre by lia. reflexivity.
  - replace (Nat.min i (fs k)) with (fs k) by lia. rewrite Hpre by lia.
    destruct (Nat.lt_ge_cases i (fs k + wd k)) as [C2|C2].
    + (* inside the diagonal block *)
      replace (Nat.min i (fs k + wd k)) with (fs k + (i - fs k)) by lia.
      rewrite bsum_app. set (t := i - fs k). replace i with (fs k + t) by (unfold t; lia).
      rewrite <- (Hblk t ltac:(unfold t; lia)).
      assert (E : bsum (fun c => Ld (fs k + t) (fs k + c) *! getn Ar x2 (fs k + c)) t
                  = bsum (fun c => Mat Ar Lval (lu k) (nr k) t c *! getn Ar x2 (fs k + c)) t).
      { apply bsum_ext. intros c Hc. f_equal. unfold Ld, sn_of.
        rewrite (wf_c2s WF k c Hk ltac:(unfold t in *; lia)).
        rewrite tailL_zero by (unfold t in *; lia).
        destruct (Nat.leb_spec (fs k) (fs k + t)); [|lia].
        destruct (Nat.ltb_spec (fs k + t) (fs k + wd k)); [|unfold t in *; lia].
        destruct (Nat.ltb_spec (fs k + c) (fs k + t)); [|lia]. simpl.
        unfold blk, sn_of. rewrite (wf_c2s WF k c Hk ltac:(unfold t in *; lia)).
        replace (fs k + t - fs k) with t by lia.
        destruct (wf_rows WF k Hk) as (Hwr & _).
        rewrite blk_mat by (unfold t in *; lia). ring. }
      rewrite E. ring.
    + (* below the block *)
      replace (Nat.min i (fs k + wd k)) with (fs k + wd k) by lia.
      rewrite bsum_app. rewrite (Hhi i C2).
      assert (E : bsum (fun c => Ld i (fs k + c) *! getn Ar x2 (fs k + c)) (wd k)
                  = bsum (fun c => getn Ar x2 (fs k + c) *! tailL i (fs k + c)) (wd k)).
      { apply bsum_ext. intros c Hc. unfold Ld, sn_of. rewrite (wf_c2s WF k c Hk Hc).
        destruct (Nat.ltb_spec i (fs k + wd k)); [lia|]. rewrite andb_false_r. simpl. ring. }
      rewrite E. ring.
Qed.

Theorem trsv_LN_exact : forall x, length x = n ->
  exists x', sp_trsv Ar L U cL cN cU x = S_ok x' /\ length x' = n /\
    forall i, i < n -> getn Ar x' i +! bsum (fun j => Ld i j *! getn Ar x' j) i = getn Ar x i.
Proof.
  intros x Hlx. unfold sp_trsv. simpl tchar_eqb. simpl negb. simpl andb.
  destruct (wf_ldim WF) as [E1 E2]. destruct (wf_udim WF) as [E3 E4]. destruct (wf_nsup WF) as [E5 Hns].
  pose proof (wf_npos WF) as Hn.
  rewrite E1, E2, E3, E4, E5.
  rewrite !Z.eqb_refl. simpl negb. simpl orb.
  destruct (Z.ltb_spec (Z.of_nat n) 0); [lia|]. cbv iota.
  destruct (Z.eqb_spec (Z.of_nat n) 0); [lia|].
  replace (Z.to_nat (Z.of_nat ns - 1 + 1)) with ns by lia. rewrite Nat2Z.id.
  eexists. split; [reflexivity|].
  assert (Hloop : forall c, c <= ns ->
            let res := fold_left (trsv_LN_sn Ar L) (seq 0 c) (x, repeat z0 n) in
            LN_inv x (if c =? 0 then 0 else fs (c - 1) + wd (c - 1)) (fst res) /\ work_ok (snd res)).
  { induction c as [|c IH]; intros Hc; cbv zeta.
    - simpl. split.
      + split; auto. intros i Hi. rewrite Nat.min_0_r. simpl. ring.
      + split. apply repeat_length. intros i. unfold getn. destruct (Nat.lt_ge_cases i n).
        * apply nth_repeat.
        * apply nth_overflow. rewrite repeat_length. lia.
    - rewrite fold_left_seq_snoc. change (0 + c) with c. destruct IH as [HI HW]; [lia|]. cbv zeta in HI, HW.
      destruct (fold_left (trsv_LN_sn Ar L) (seq 0 c) (x, repeat z0 n)) as [xc wc]. cbn [fst snd] in HI, HW.
      assert (Hfc : (if c =? 0 then 0 else fs (c - 1) + wd (c - 1)) = fs c).
      { destruct c as [|c]; simpl. symmetry; apply (wf_first WF).
        rewrite Nat.sub_0_r. symmetry. apply (wf_next WF). lia. }
      rewrite Hfc in HI.
      destruct (LN_sn_char c xc wc ltac:(lia) ltac:(destruct HI; auto) HW) as [Hch Hwk]. cbv zeta in Hch, Hwk.
      split; [|exact Hwk]. change (S c =? 0) with false. cbv iota. replace (S c - 1) with c by lia.
      exact (LN_char_inv x c xc _ ltac:(lia) HI Hch). }
  destruct (Hloop ns (le_n ns)) as [[Hl Hinv] _]. cbv zeta in Hl, Hinv.
  destruct (Nat.eqb_spec ns 0); [lia|]. rewrite (wf_last WF) in Hinv.
  split; auto. intros i Hi. rewrite (Hinv i Hi). replace (Nat.min i n) with i by lia. reflexivity.
Qed.


(* ---------------------------------------------------------------------------------------------- *)
(* common facts for the other three solves                                                         *)

(* first column of supernode c when c < ns, n when c = ns *)
Definition cb (c : nat) : nat := if c =? 0 then 0 else fs (c - 1) + wd (c - 1).
Lemma cb_fs : forall c, c < ns -> cb c = fs c.
Proof.
  intros c Hc. unfold cb. destruct c as [|c]; simpl. symmetry; apply (wf_first WF).
  rewrite Nat.sub_0_r. symmetry. apply (wf_next WF). lia.
Qed.
Lemma cb_ns : cb ns = n.
Proof. unfold cb. destruct (wf_nsup WF) as [_ H]. destruct (Nat.eqb_spec ns 0); [lia|]. apply (wf_last WF). Qed.
Lemma cb_S : forall c, c < ns -> cb (S c) = fs c + wd c.
Proof. intros. unfold cb. simpl. rewrite Nat.sub_0_r. reflexivity. Qed.

Lemma fold_left_rev_seq_S : forall (B : Type) (f : B -> nat -> B) c x,
  fold_left f (rev (seq 0 (S c))) x = fold_left f (rev (seq 0 c)) (f x c).
Proof. intros. rewrite seq_snoc, rev_app_distr. simpl. reflexivity. Qed.

Lemma tsum_split : forall g f w m, f + w <= m -> tsum g f m = bsum (fun c => g (f + c)) w +! tsum g (f + w) m.
Proof.
  intros g f w m H. unfold tsum. replace (m - f) with (w + (m - (f + w))) by lia. rewrite bsum_app.
  f_equal. apply bsum_ext. intros; f_equal; lia.
Qed.

Lemma bsum_tail_only : forall g e m, e <= m -> (forall i, i < e -> g i = z0) -> bsum g m = tsum g e m.
Proof.
  intros g e m He Hz. rewrite <- tsum_0. rewrite (tsum_split g 0 e m) by lia. simpl.
  rewrite bsum_zero by (intros; apply Hz; auto). ring.
Qed.

Lemma Usp_zero : forall k c i, k < ns -> c < wd k -> fs k <= i -> Usp i (fs k + c) = z0.
Proof.
  intros k c i Hk Hc Hi. unfold Usp. apply bsum_zero. intros t Ht.
  pose proof (wf_urows WF k c (nget (u_colbeg Ar U) (fs k + c) + t) Hk Hc ltac:(lia)).
  destruct (Nat.eqb_spec (nget (u_rowind Ar U) (nget (u_colbeg Ar U) (fs k + c) + t)) i); auto; lia.
Qed.

Lemma Usp_zero0 : forall k i, k < ns -> fs k <= i -> Usp i (fs k) = z0.
Proof.
  intros k i Hk Hi. pose proof (Usp_zero k 0 i Hk (wf_width WF k Hk) Hi) as H. rewrite Nat.add_0_r in H. exact H.
Qed.

Hypothesis Hdiag : forall k c, k < ns -> c < wd k -> Mat Ar Lval (lu k) (nr k) c c <> z0.

(* x[irow] -= x[jcol]*Uval[i] over column jcol of U *)
Lemma ucol_scatter_spec : forall k c x, k < ns -> c < wd k -> length x = n ->
  let x' := ucol_scatter Ar U x (fs k + c) in
  length x' = n /\ forall i, getn Ar x' i = getn Ar x i -! getn Ar x (fs k + c) *! Usp i (fs k + c).
Proof.
  intros k c x Hk Hc Hl. pose proof (fs_mono k Hk). unfold ucol_scatter. cbv zeta.
  destruct (scatter_sub (fun i => nget (u_rowind _ U) i) (fun i => getn Ar (u_val _ U) i) (fs k + c)
              (nget (u_colend _ U) (fs k + c) - nget (u_colbeg _ U) (fs k + c)) x (nget (u_colbeg _ U) (fs k + c))) as [Hl' Hx].
  - intros t Ht. pose proof (wf_urows WF k c (nget (u_colbeg Ar U) (fs k + c) + t) Hk Hc ltac:(lia)). lia.
  - intros t Ht. pose proof (wf_urows WF k c (nget (u_colbeg Ar U) (fs k + c) + t) Hk Hc ltac:(lia)). lia.
  - cbv zeta in Hl', Hx. split; [congruence|]. intros i. rewrite Hx. reflexivity.
Qed.

(* x[jcol] -= x[irow]*Uval[i] over column jcol of U *)
Lemma ucol_gather_spec : forall k c x, k < ns -> c < wd k -> length x = n ->
  let x' := ucol_gather Ar U x (fs k + c) in
  length x' = n /\ (forall i, i <> fs k + c -> getn Ar x' i = getn Ar x i) /\
  getn Ar x' (fs k + c) = getn Ar x (fs k + c) -! bsum (fun i => getn Ar x i *! Usp i (fs k + c)) n.
Proof.
  intros k c x Hk Hc Hl. pose proof (fs_mono k Hk). unfold ucol_gather. cbv zeta.
  destruct (gather_sub (fun i => nget (u_rowind _ U) i) (fun i => getn Ar (u_val _ U) i) (fs k + c)
              (nget (u_colend _ U) (fs k + c) - nget (u_colbeg _ U) (fs k + c)) x (nget (u_colbeg _ U) (fs k + c))) as (Hl' & Ho & Hx).
  - lia.
  - intros t Ht. pose proof (wf_urows WF k c (nget (u_colbeg Ar U) (fs k + c) + t) Hk Hc ltac:(lia)). lia.
  - cbv zeta in Hl', Ho, Hx. split; [congruence|]. split; auto. rewrite Hx. f_equal.
    rewrite (bsum_by_row (fun t => nget (u_rowind Ar U) (nget (u_colbeg Ar U) (fs k + c) + t))
                         (fun t => getn Ar (u_val Ar U) (nget (u_colbeg Ar U) (fs k + c) + t)) (fun i => getn Ar x i) _ n).
    + reflexivity.
    + intros q Hq. pose proof (wf_urows WF k c (nget (u_colbeg Ar U) (fs k + c) + q) Hk Hc ltac:(lia)). lia.
Qed.

(* ---------------------------------------------------------------------------------------------- *)
(* x := inv(U) x                                                                                   *)

Definition UN_inv (b : list Tt) (c : nat) (x : list Tt) : Prop :=
  length x = n /\
  forall i, i < n -> getn Ar b i = (if i <? c then getn Ar x i else z0) +! tsum (fun j => Ud i j *! getn Ar x j) c n.

Definition UN_char (k : nat) (x x2 : list Tt) : Prop :=
  length x2 = n /\
  (forall i, fs k + wd k <= i -> getn Ar x2 i = getn Ar x i) /\
  (forall t, t < wd k ->
     bsum (fun c => (if t <=? c then Mat Ar Lval (lu k) (nr k) t c else z0) *! getn Ar x2 (fs k + c)) (wd k)
     = getn Ar x (fs k + t)) /\
  (forall i, i < fs k ->
     getn Ar x2 i = getn Ar x i -! bsum (fun c => getn Ar x2 (fs k + c) *! Usp i (fs k + c)) (wd k)).

Lemma ucol_scatter_block : forall k x1, k < ns -> length x1 = n -> forall c, c <= wd k ->
  let xc := fold_left (ucol_scatter Ar U) (seq (fs k) c) x1 in
  length xc = n /\
  forall i, getn Ar xc i = getn Ar x1 i -! bsum (fun c' => getn Ar x1 (fs k + c') *! Usp i (fs k + c')) c.
Proof.
  intros k x1 Hk Hl. induction c as [|c IH]; intros Hc; cbv zeta.
  - simpl. split; auto. intros; ring.
  - rewrite fold_left_seq_snoc. destruct IH as [Hlc Hx]; [lia|]. cbv zeta in Hlc, Hx.
    set (xc := fold_left _ (seq (fs k) c) x1) in *.
    destruct (ucol_scatter_spec k c xc Hk ltac:(lia) Hlc) as [Hl2 Hx2]. cbv zeta in Hl2, Hx2.
    split; auto. intros i. rewrite Hx2. rewrite (Hx i). simpl bsum.
    assert (E : getn Ar xc (fs k + c) = getn Ar x1 (fs k + c)).
    { rewrite Hx. rewrite bsum_zero. ring. intros c' Hc'. rewrite Usp_zero by lia. ring. }
    rewrite E. ring.
Qed.

Lemma UN_sn_char : forall k x, k < ns -> length x = n -> UN_char k x (trsv_UN_sn Ar L U x k).
Proof.
  intros k x Hk Hlx. unfold trsv_UN_sn.
  destruct (wf_rows WF k Hk) as (Hwr & Hrn & Hriend).
  pose proof (wf_width WF k Hk) as Hwpos. pose proof (fs_mono k Hk) as Hfe.
  destruct (Nat.eqb_spec (wd k) 1) as [E1|E1].
  - set (x1 := upd x (fs k) (getn Ar x (fs k) /! getn Ar Lval (lu k))).
    assert (Hl1 : length x1 = n) by (unfold x1; rewrite upd_length; auto).
    destruct (ucol_scatter_spec k 0 x1 Hk ltac:(lia) Hl1) as [Hl2 Hx2]. cbv zeta in Hl2, Hx2.
    rewrite Nat.add_0_r in Hl2, Hx2.
    assert (Hd : getn Ar Lval (lu k) = Mat Ar Lval (lu k) (nr k) 0 0) by (unfold Mat; f_equal; lia).
    assert (Hx1f : getn Ar x1 (fs k) *! Mat Ar Lval (lu k) (nr k) 0 0 = getn Ar x (fs k)).
    { unfold x1. rewrite getn_upd_same by lia. rewrite Hd. apply div_ok. apply Hdiag; auto. }
    split; auto. split; [|split].
    + intros i Hi. rewrite Hx2. rewrite Usp_zero0 by (auto; lia).
      unfold x1. rewrite getn_upd_other by lia. ring.
    + intros t Ht. rewrite E1 in *. assert (t = 0) by lia. subst t. simpl. rewrite Nat.add_0_r.
      rewrite Hx2. rewrite Usp_zero0 by (auto; lia). rewrite <- Hx1f. ring.
    + intros i Hi. rewrite E1. simpl. rewrite Nat.add_0_r. rewrite Hx2.
      rewrite (Hx2 (fs k)). rewrite (Usp_zero0 k (fs k)) by (auto; lia).
      unfold x1 at 1. rewrite getn_upd_other by lia. ring.
  - destruct (usolve_exact Lval (lu k) (nr k) (wd k) (fs k) x ltac:(lia) (fun c Hc => Hdiag k c Hk Hc)) as [[Hl1 Hfr1] Hus].
    cbv zeta in Hl1, Hfr1, Hus. set (x1 := usolve Ar (nr k) (wd k) Lval (lu k) x (fs k)) in *.
    destruct (ucol_scatter_block k x1 Hk ltac:(lia) (wd k) (le_n _)) as [Hl2 Hx2]. cbv zeta in Hl2, Hx2.
    set (x2 := fold_left (ucol_scatter Ar U) (seq (fs k) (wd k)) x1) in *.
    assert (Hblk : forall i, fs k <= i -> getn Ar x2 i = getn Ar x1 i).
    { intros i Hi. rewrite Hx2. rewrite bsum_zero. ring. intros c Hc. rewrite Usp_zero by lia. ring. }
    split; auto. split; [|split].
    + intros i Hi. rewrite Hblk by lia. apply Hfr1. lia.
    + intros t Ht. rewrite <- (Hus t Ht). apply bsum_ext. intros c Hc. rewrite Hblk by lia. reflexivity.
    + intros i Hi. rewrite Hx2. rewrite (Hfr1 i) by lia. f_equal. apply bsum_ext. intros c Hc.
      rewrite Hblk by lia. reflexivity.
Qed.

Lemma Ud_block : forall k t c, k < ns -> t < wd k -> c < wd k ->
  Ud (fs k + t) (fs k + c) = if t <=? c then Mat Ar Lval (lu k) (nr k) t c else z0.
Proof.
  intros k t c Hk Ht Hc. unfold Ud, sn_of. rewrite (wf_c2s WF k c Hk Hc). rewrite Usp_zero by lia.
  destruct (wf_rows WF k Hk) as (Hwr & _).
  destruct (Nat.leb_spec (fs k) (fs k + t)); [|lia]. simpl.
  destruct (Nat.leb_spec (fs k + t) (fs k + c)); destruct (Nat.leb_spec t c); try lia; [|ring].
  unfold blk, sn_of. rewrite (wf_c2s WF k c Hk Hc). replace (fs k + t - fs k) with t by lia.
  rewrite blk_mat by lia. ring.
Qed.

Lemma Ud_above : forall k i c, k < ns -> c < wd k -> i < fs k -> Ud i (fs k + c) = Usp i (fs k + c).
Proof.
  intros k i c Hk Hc Hi. unfold Ud, sn_of. rewrite (wf_c2s WF k c Hk Hc).
  destruct (Nat.leb_spec (fs k) i); [lia|]. simpl. ring.
Qed.

Lemma Ud_below : forall k i c, k < ns -> c < wd k -> fs k + wd k <= i -> Ud i (fs k + c) = z0.
Proof.
  intros k i c Hk Hc Hi. unfold Ud, sn_of. rewrite (wf_c2s WF k c Hk Hc). rewrite Usp_zero by lia.
  destruct (Nat.leb_spec i (fs k + c)); [lia|]. rewrite andb_false_r. ring.
Qed.

Lemma UN_char_inv : forall b k x x2, k < ns -> UN_inv b (fs k + wd k) x -> UN_char k x x2 -> UN_inv b (fs k) x2.
Proof.
  intros b k x x2 Hk [Hlx Hinv] (Hl & Hhi & Hblk & Hlo).
  pose proof (fs_mono k Hk) as Hfe.
  split; auto. intros i Hi. rewrite (Hinv i Hi).
  rewrite (tsum_split (fun j => Ud i j *! getn Ar x2 j) (fs k) (wd k) n Hfe).
  assert (Et : tsum (fun j => Ud i j *! getn Ar x j) (fs k + wd k) n = tsum (fun j => Ud i j *! getn Ar x2 j) (fs k + wd k) n).
  { apply tsum_ext. intros j Hj. rewrite Hhi by lia. reflexivity. }
  rewrite Et.
  destruct (Nat.ltb_spec i (fs k + wd k)) as [C1|C1]; destruct (Nat.ltb_spec i (fs k)) as [C2|C2]; try lia.
  - (* i < fs k *)
    rewrite (Hlo i C2).
    rewrite (bsum_ext (fun c => Ud i (fs k + c) *! getn Ar x2 (fs k + c)) (fun c => getn Ar x2 (fs k + c) *! Usp i (fs k + c))).
    ring. intros c Hc. rewrite Ud_above by auto. ring.
  - (* inside the block *)
    set (t := i - fs k). replace i with (fs k + t) by (unfold t; lia).
    rewrite <- (Hblk t ltac:(unfold t; lia)).
    rewrite (bsum_ext (fun c => Ud (fs k + t) (fs k + c) *! getn Ar x2 (fs k + c))
                      (fun c => (if t <=? c then Mat Ar Lval (lu k) (nr k) t c else z0) *! getn Ar x2 (fs k + c))).
    ring. intros c Hc. rewrite Ud_block by (unfold t in *; lia). reflexivity.
  - rewrite (bsum_zero (fun c => Ud i (fs k + c) *! getn Ar x2 (fs k + c))). ring.
    intros c Hc. rewrite Ud_below by auto. ring.
Qed.

Theorem trsv_UN_exact : forall x, length x = n ->
  exists x', sp_trsv Ar L U cU cN cN x = S_ok x' /\ length x' = n /\
    forall i, i < n -> bsum (fun j => Ud i j *! getn Ar x' j) n = getn Ar x i.
Proof.
  intros x Hlx. unfold sp_trsv. simpl tchar_eqb. simpl negb. simpl andb.
  destruct (wf_ldim WF) as [E1 E2]. destruct (wf_udim WF) as [E3 E4]. destruct (wf_nsup WF) as [E5 Hns].
  pose proof (wf_npos WF) as Hn.
  rewrite E1, E2, E3, E4, E5.
  rewrite !Z.eqb_refl. simpl negb. simpl orb.
  destruct (Z.ltb_spec (Z.of_nat n) 0); [lia|]. cbv iota.
  destruct (Z.eqb_spec (Z.of_nat n) 0); [lia|].
  replace (Z.to_nat (Z.of_nat ns - 1 + 1)) with ns by lia.
  eexists. split; [reflexivity|].
  assert (Hloop : forall c, c <= ns -> forall y, UN_inv x (cb c) y ->
                    UN_inv x 0 (fold_left (trsv_UN_sn Ar L U) (rev (seq 0 c)) y)).
  { induction c as [|c IH]; intros Hc y Hy.
    - simpl. exact Hy.
    - rewrite fold_left_rev_seq_S. apply IH; [lia|]. rewrite cb_fs by lia.
      rewrite cb_S in Hy by lia.
      eapply UN_char_inv; [lia | exact Hy |]. apply UN_sn_char; [lia | destruct Hy; auto]. }
  destruct (Hloop ns (le_n _) x) as [Hl Hinv].
  { rewrite cb_ns. split; auto. intros i Hi. destruct (Nat.ltb_spec i n); [|lia]. rewrite tsum_empty by lia. ring. }
  split; auto. intros i Hi. rewrite (Hinv i Hi). destruct (Nat.ltb_spec i 0); [lia|].
  rewrite (Rth.(Radd_0_l)). symmetry. apply tsum_0.
Qed.


Lemma bsum_head_only : forall g f m, f <= m -> (forall i, f <= i < m -> g i = z0) -> bsum g m = bsum g f.
Proof.
  intros g f m Hf Hz. replace m with (f + (m - f)) by lia. rewrite bsum_app.
  rewrite (bsum_zero (fun k => g (f + k))). ring. intros k Hk. apply Hz. lia.
Qed.

(* ---------------------------------------------------------------------------------------------- *)
(* x := inv(U') x                                                                                  *)

Definition UT_inv (b : list Tt) (c : nat) (x : list Tt) : Prop :=
  length x = n /\
  (forall j, c <= j < n -> getn Ar x j = getn Ar b j) /\
  (forall j, j < c -> getn Ar b j = bsum (fun i => Ud i j *! getn Ar x i) (S j)).

Definition UT_char (k : nat) (x x2 : list Tt) : Prop :=
  length x2 = n /\
  (forall i, (i < fs k \/ fs k + wd k <= i) -> getn Ar x2 i = getn Ar x i) /\
  (forall c, c < wd k ->
     bsum (fun t => Mat Ar Lval (lu k) (nr k) t c *! getn Ar x2 (fs k + t)) c
       +! Mat Ar Lval (lu k) (nr k) c c *! getn Ar x2 (fs k + c)
     = getn Ar x (fs k + c) -! bsum (fun i => getn Ar x i *! Usp i (fs k + c)) n).

Lemma ucol_gather_block : forall k x, k < ns -> length x = n -> forall c, c <= wd k ->
  let xc := fold_left (ucol_gather Ar U) (seq (fs k) c) x in
  length xc = n /\
  (forall i, (i < fs k \/ fs k + c <= i) -> getn Ar xc i = getn Ar x i) /\
  (forall c', c' < c -> getn Ar xc (fs k + c') = getn Ar x (fs k + c') -! bsum (fun i => getn Ar x i *! Usp i (fs k + c')) n).
Proof.
  intros k x Hk Hl. induction c as [|c IH]; intros Hc; cbv zeta.
  - simpl. repeat split; auto. intros; lia.
  - rewrite fold_left_seq_snoc. destruct IH as (Hlc & Ho & Hb); [lia|]. cbv zeta in Hlc, Ho, Hb.
    set (xc := fold_left _ (seq (fs k) c) x) in *.
    destruct (ucol_gather_spec k c xc Hk ltac:(lia) Hlc) as (Hl2 & Ho2 & Hx2). cbv zeta in Hl2, Ho2, Hx2.
    split; auto. split.
    + intros i Hi. rewrite Ho2 by lia. apply Ho. lia.
    + intros c' Hc'. destruct (Nat.eq_dec c' c) as [->|Hne].
      * rewrite Hx2. rewrite Ho by lia. f_equal. apply bsum_ext. intros i Hi.
        destruct (Nat.lt_ge_cases i (fs k)).
        -- rewrite Ho by lia. reflexivity.
        -- rewrite Usp_zero by lia. ring.
      * rewrite Ho2 by lia. apply Hb. lia.
Qed.

Lemma UT_sn_char : forall k x, k < ns -> length x = n -> UT_char k x (trsv_UT_sn Ar L U x k).
Proof.
  intros k x Hk Hlx. unfold trsv_UT_sn.
  destruct (wf_rows WF k Hk) as (Hwr & Hrn & Hriend).
  pose proof (wf_width WF k Hk) as Hwpos. pose proof (fs_mono k Hk) as Hfe.
  destruct (ucol_gather_block k x Hk Hlx (wd k) (le_n _)) as (Hl1 & Ho1 & Hb1). cbv zeta in Hl1, Ho1, Hb1.
  set (x1 := fold_left (ucol_gather Ar U) (seq (fs k) (wd k)) x) in *.
  destruct (Nat.eqb_spec (wd k) 1) as [E1|E1].
  - assert (Hd : getn Ar Lval (lu k) = Mat Ar Lval (lu k) (nr k) 0 0) by (unfold Mat; f_equal; lia).
    split. { rewrite upd_length; auto. } split.
    + intros i Hi. rewrite getn_upd_other by lia. apply Ho1. lia.
    + intros c Hc. assert (c = 0) by lia. subst c. simpl bsum. rewrite Nat.add_0_r.
      rewrite getn_upd_same by lia. rewrite Hd.
      rewrite (Rth.(Rmul_comm)), div_ok by (apply Hdiag; auto).
      pose proof (Hb1 0 ltac:(lia)) as H0. rewrite Nat.add_0_r in H0. rewrite H0. ring.
  - destruct (dtrsv_UTN_exact Lval (lu k) (nr k) (wd k) (fs k) x1 ltac:(lia) ltac:(lia) (fun c Hc => Hdiag k c Hk Hc))
      as [[Hl2 Hfr2] Hut]. cbv zeta in Hl2, Hfr2, Hut.
    split; [congruence|]. split.
    + intros i Hi. rewrite Hfr2 by lia. apply Ho1. lia.
    + intros c Hc. rewrite (Hut c Hc). apply Hb1. auto.
Qed.

Lemma UT_char_inv : forall b k x x2, k < ns -> UT_inv b (fs k) x -> UT_char k x x2 -> UT_inv b (fs k + wd k) x2.
Proof.
  intros b k x x2 Hk (Hlx & Hhi & Hlo) (Hl & Ho & Hblk).
  pose proof (fs_mono k Hk) as Hfe.
  split; auto. split.
  - intros j Hj. rewrite Ho by lia. apply Hhi. lia.
  - intros j Hj. destruct (Nat.lt_ge_cases j (fs k)) as [C|C].
    + rewrite (Hlo j C). apply bsum_ext. intros i Hi. rewrite Ho by lia. reflexivity.
    + set (c := j - fs k). replace j with (fs k + c) by (unfold c; lia).
      assert (Hc : c < wd k) by (unfold c; lia).
      rewrite <- (Hhi (fs k + c)) by lia.
      replace (S (fs k + c)) with (fs k + S c) by lia. rewrite bsum_app.
      assert (E1 : bsum (fun i => Ud i (fs k + c) *! getn Ar x2 i) (fs k)
                   = bsum (fun i => getn Ar x i *! Usp i (fs k + c)) n).
      { rewrite (bsum_head_only (fun i => getn Ar x i *! Usp i (fs k + c)) (fs k) n) by
          (try lia; intros i Hi; rewrite Usp_zero by lia; ring).
        apply bsum_ext. intros i Hi. rewrite Ud_above by auto. rewrite Ho by lia. ring. }
      assert (E2 : bsum (fun t => Ud (fs k + t) (fs k + c) *! getn Ar x2 (fs k + t)) (S c)
                   = bsum (fun t => Mat Ar Lval (lu k) (nr k) t c *! getn Ar x2 (fs k + t)) c
                     +! Mat Ar Lval (lu k) (nr k) c c *! getn Ar x2 (fs k + c)).
      { simpl bsum. rewrite Ud_block by auto. rewrite Nat.leb_refl. f_equal.
        apply bsum_ext. intros t Ht. rewrite Ud_block by (auto; lia).
        destruct (Nat.leb_spec t c); [reflexivity|lia]. }
      rewrite E1, E2. rewrite (Hblk c Hc). ring.
Qed.

Theorem trsv_UT_exact : forall x, length x = n ->
  exists x', sp_trsv Ar L U cU cT cN x = S_ok x' /\ length x' = n /\
    forall j, j < n -> bsum (fun i => Ud i j *! getn Ar x' i) (S j) = getn Ar x j.
Proof.
  intros x Hlx. unfold sp_trsv. simpl tchar_eqb. simpl negb. simpl andb.
  destruct (wf_ldim WF) as [E1 E2]. destruct (wf_udim WF) as [E3 E4]. destruct (wf_nsup WF) as [E5 Hns].
  pose proof (wf_npos WF) as Hn.
  rewrite E1, E2, E3, E4, E5.
  rewrite !Z.eqb_refl. simpl negb. simpl orb.
  destruct (Z.ltb_spec (Z.of_nat n) 0); [lia|]. cbv iota.
  destruct (Z.eqb_spec (Z.of_nat n) 0); [lia|].
  replace (Z.to_nat (Z.of_nat ns - 1 + 1)) with ns by lia.
  eexists. split; [reflexivity|].
  assert (Hloop : forall c, c <= ns -> UT_inv x (cb c) (fold_left (trsv_UT_sn Ar L U) (seq 0 c) x)).
  { induction c as [|c IH]; intros Hc.
    - simpl. split; auto. split; auto. unfold cb. simpl. intros; lia.
    - rewrite fold_left_seq_snoc. change (0 + c) with c. specialize (IH ltac:(lia)).
      rewrite cb_S by lia. rewrite cb_fs in IH by lia.
      eapply UT_char_inv; [lia | exact IH |]. apply UT_sn_char; [lia | destruct IH; auto]. }
  destruct (Hloop ns (le_n _)) as (Hl & _ & Hinv). rewrite cb_ns in Hinv.
  split; auto. intros j Hj. symmetry. apply Hinv. auto.
Qed.

(* ---------------------------------------------------------------------------------------------- *)
(* x := inv(L') x                                                                                  *)

Definition LT_inv (b : list Tt) (c : nat) (x : list Tt) : Prop :=
  length x = n /\
  (forall j, j < c -> getn Ar x j = getn Ar b j) /\
  (forall j, c <= j < n -> getn Ar b j = getn Ar x j +! tsum (fun i => Ld i j *! getn Ar x i) (S j) n).

Definition LT_char (k : nat) (x x2 : list Tt) : Prop :=
  length x2 = n /\
  (forall i, (i < fs k \/ fs k + wd k <= i) -> getn Ar x2 i = getn Ar x i) /\
  (forall c, c < wd k ->
     getn Ar x2 (fs k + c) +! tsum (fun t => Mat Ar Lval (lu k) (nr k) t c *! getn Ar x2 (fs k + t)) (S c) (wd k)
     = getn Ar x (fs k + c) -! bsum (fun i => getn Ar x i *! tailL i (fs k + c)) n).

Definition lt_col (k : nat) (x : list Tt) (jcol : nat) : list Tt :=
  let lo := nget (l_nzbeg _ L) jcol + wd k in
  let hi := nget (l_nzend _ L) jcol in
  fold_left (fun x t => let irow := nget (l_rowind _ L) (is_ k + wd k + t) in
                        upd x jcol (getn Ar x jcol -! getn Ar x irow *! getn Ar Lval (lo + t)))
            (seq 0 (hi - lo)) x.

Lemma lt_col_spec : forall k c x, k < ns -> c < wd k -> length x = n ->
  let x' := lt_col k x (fs k + c) in
  length x' = n /\ (forall i, i <> fs k + c -> getn Ar x' i = getn Ar x i) /\
  getn Ar x' (fs k + c) = getn Ar x (fs k + c) -! bsum (fun i => getn Ar x i *! tailL i (fs k + c)) n.
Proof.
  intros k c x Hk Hc Hl. pose proof (fs_mono k Hk). unfold lt_col. cbv zeta.
  destruct (wf_nz WF k c Hk Hc) as [En Ee]. destruct (wf_rows WF k Hk) as (Hwr & Hrn & _).
  rewrite En, Ee. replace (lu k + c * nr k + nr k - (lu k + c * nr k + wd k)) with (nr k - wd k) by lia.
  destruct (gather_sub (fun t => nget (l_rowind _ L) (is_ k + wd k + t)) (fun t => getn Ar Lval (lu k + c * nr k + wd k + t))
              (fs k + c) (nr k - wd k) x 0) as (Hl' & Ho & Hx).
  - lia.
  - intros t Ht. simpl. pose proof (wf_below WF k (wd k + t) Hk ltac:(lia)) as Hb. unfold snrow in Hb.
    rewrite Nat.add_assoc in Hb. lia.
  - cbv zeta in Hl', Ho, Hx. split; [congruence|]. split; auto. rewrite Hx. f_equal. simpl plus.
    rewrite (bsum_by_row (fun t => nget (l_rowind Ar L) (is_ k + wd k + t))
                         (fun t => getn Ar Lval (lu k + c * nr k + wd k + t)) (fun i => getn Ar x i) _ n).
    + apply bsum_ext. intros i Hi. f_equal. unfold tailL, sn_of. rewrite (wf_c2s WF k c Hk Hc). rewrite En.
      apply bsum_ext. intros q Hq. unfold snrow. rewrite Nat.add_assoc. reflexivity.
    + intros q Hq. pose proof (wf_below WF k (wd k + q) Hk ltac:(lia)) as Hb. unfold snrow in Hb.
      rewrite Nat.add_assoc in Hb. lia.
Qed.

Lemma lt_col_block : forall k x, k < ns -> length x = n -> forall c, c <= wd k ->
  let xc := fold_left (lt_col k) (seq (fs k) c) x in
  length xc = n /\
  (forall i, (i < fs k \/ fs k + c <= i) -> getn Ar xc i = getn Ar x i) /\
  (forall c', c' < c -> getn Ar xc (fs k + c') = getn Ar x (fs k + c') -! bsum (fun i => getn Ar x i *! tailL i (fs k + c')) n).
Proof.
  intros k x Hk Hl. induction c as [|c IH]; intros Hc; cbv zeta.
  - simpl. repeat split; auto. intros; lia.
  - rewrite fold_left_seq_snoc. destruct IH as (Hlc & Ho & Hb); [lia|]. cbv zeta in Hlc, Ho, Hb.
    set (xc := fold_left _ (seq (fs k) c) x) in *.
    destruct (lt_col_spec k c xc Hk ltac:(lia) Hlc) as (Hl2 & Ho2 & Hx2). cbv zeta in Hl2, Ho2, Hx2.
    split; auto. split.
    + intros i Hi. rewrite Ho2 by lia. apply Ho. lia.
    + intros c' Hc'. destruct (Nat.eq_dec c' c) as [->|Hne].
      * rewrite Hx2. rewrite Ho by lia. f_equal. apply bsum_ext. intros i Hi.
        destruct (Nat.lt_ge_cases i (fs k + wd k)).
        -- rewrite tailL_zero by lia. ring.
        -- rewrite Ho by lia. reflexivity.
      * rewrite Ho2 by lia. apply Hb. lia.
Qed.

Lemma LT_sn_char : forall k x, k < ns -> length x = n -> LT_char k x (trsv_LT_sn Ar L x k).
Proof.
  intros k x Hk Hlx. unfold trsv_LT_sn. cbv zeta.
  destruct (wf_rows WF k Hk) as (Hwr & Hrn & Hriend).
  pose proof (wf_width WF k Hk) as Hwpos. pose proof (fs_mono k Hk) as Hfe.
  change (nget (l_supend Ar L) k - fs k) with (wd k).
  change (fold_left _ (seq (fs k) (wd k)) x) with (fold_left (lt_col k) (seq (fs k) (wd k)) x).
  destruct (lt_col_block k x Hk Hlx (wd k) (le_n _)) as (Hl1 & Ho1 & Hb1). cbv zeta in Hl1, Ho1, Hb1.
  set (x1 := fold_left (lt_col k) (seq (fs k) (wd k)) x) in *.
  destruct (Nat.ltb_spec 1 (wd k)) as [E1|E1].
  - destruct (dtrsv_LTU_exact Lval (lu k) (nr k) (wd k) (fs k) x1 ltac:(lia) ltac:(lia)) as [[Hl2 Hfr2] Hlt].
    cbv zeta in Hl2, Hfr2, Hlt.
    split; [congruence|]. split.
    + intros i Hi. rewrite Hfr2 by lia. apply Ho1. lia.
    + intros c Hc. rewrite (Hlt c Hc). apply Hb1. auto.
  - split; auto. split.
    + intros i Hi. apply Ho1. lia.
    + intros c Hc. rewrite tsum_empty by lia. rewrite (Hb1 c Hc). ring.
Qed.

Lemma Ld_block : forall k t c, k < ns -> c < t -> t < wd k -> Ld (fs k + t) (fs k + c) = Mat Ar Lval (lu k) (nr k) t c.
Proof.
  intros k t c Hk Hc Ht. unfold Ld, sn_of. rewrite (wf_c2s WF k c Hk ltac:(lia)). rewrite tailL_zero by lia.
  destruct (wf_rows WF k Hk) as (Hwr & _).
  destruct (Nat.leb_spec (fs k) (fs k + t)); [|lia]. destruct (Nat.ltb_spec (fs k + t) (fs k + wd k)); [|lia].
  destruct (Nat.ltb_spec (fs k + c) (fs k + t)); [|lia]. simpl.
  unfold blk, sn_of. rewrite (wf_c2s WF k c Hk ltac:(lia)). replace (fs k + t - fs k) with t by lia.
  rewrite blk_mat by lia. ring.
Qed.

Lemma Ld_tail : forall k i c, k < ns -> c < wd k -> fs k + wd k <= i -> Ld i (fs k + c) = tailL i (fs k + c).
Proof.
  intros k i c Hk Hc Hi. unfold Ld, sn_of. rewrite (wf_c2s WF k c Hk Hc).
  destruct (Nat.ltb_spec i (fs k + wd k)); [lia|]. rewrite andb_false_r. simpl. ring.
Qed.

Lemma LT_char_inv : forall b k x x2, k < ns -> LT_inv b (fs k + wd k) x -> LT_char k x x2 -> LT_inv b (fs k) x2.
Proof.
  intros b k x x2 Hk (Hlx & Hlo & Hhi) (Hl & Ho & Hblk).
  pose proof (fs_mono k Hk) as Hfe.
  split; auto. split.
  - intros j Hj. rewrite Ho by lia. apply Hlo. lia.
  - intros j Hj. destruct (Nat.lt_ge_cases j (fs k + wd k)) as [C|C].
    + set (c := j - fs k). replace j with (fs k + c) by (unfold c; lia).
      assert (Hc : c < wd k) by (unfold c; lia).
      rewrite <- (Hlo (fs k + c)) by lia.
      rewrite (tsum_split (fun i => Ld i (fs k + c) *! getn Ar x2 i) (S (fs k + c)) (wd k - S c) n) by lia.
      replace (S (fs k + c) + (wd k - S c)) with (fs k + wd k) by lia.
      assert (E1 : bsum (fun d => Ld (S (fs k + c) + d) (fs k + c) *! getn Ar x2 (S (fs k + c) + d)) (wd k - S c)
                   = tsum (fun t => Mat Ar Lval (lu k) (nr k) t c *! getn Ar x2 (fs k + t)) (S c) (wd k)).
      { unfold tsum. apply bsum_ext. intros d Hd.
        replace (S (fs k + c) + d) with (fs k + (S c + d)) by lia. rewrite Ld_block by lia. reflexivity. }
      assert (E2 : tsum (fun i => Ld i (fs k + c) *! getn Ar x2 i) (fs k + wd k) n
                   = bsum (fun i => getn Ar x i *! tailL i (fs k + c)) n).
      { rewrite (bsum_tail_only (fun i => getn Ar x i *! tailL i (fs k + c)) (fs k + wd k) n) by
          (try lia; intros i Hi; rewrite tailL_zero by lia; ring).
        apply tsum_ext. intros i Hi. rewrite Ld_tail by (auto; lia). rewrite Ho by lia. ring. }
      rewrite E1, E2.
      pose proof (Hblk c Hc) as Hb.
      assert (Hx : getn Ar x (fs k + c) = getn Ar x2 (fs k + c)
                     +! tsum (fun t => Mat Ar Lval (lu k) (nr k) t c *! getn Ar x2 (fs k + t)) (S c) (wd k)
                     +! bsum (fun i => getn Ar x i *! tailL i (fs k + c)) n).
      { rewrite Hb. ring. }
      rewrite Hx. ring.
    + rewrite (Hhi j) by lia. rewrite Ho by lia. f_equal. apply tsum_ext. intros i Hi. rewrite Ho by lia. reflexivity.
Qed.

Theorem trsv_LT_exact : forall x, length x = n ->
  exists x', sp_trsv Ar L U cL cT cU x = S_ok x' /\ length x' = n /\
    forall j, j < n -> getn Ar x' j +! tsum (fun i => Ld i j *! getn Ar x' i) (S j) n = getn Ar x j.
Proof.
  intros x Hlx. unfold sp_trsv. simpl tchar_eqb. simpl negb. simpl andb.
  destruct (wf_ldim WF) as [E1 E2]. destruct (wf_udim WF) as [E3 E4]. destruct (wf_nsup WF) as [E5 Hns].
  pose proof (wf_npos WF) as Hn.
  rewrite E1, E2, E3, E4, E5.
  rewrite !Z.eqb_refl. simpl negb. simpl orb.
  destruct (Z.ltb_spec (Z.of_nat n) 0); [lia|]. cbv iota.
  destruct (Z.eqb_spec (Z.of_nat n) 0); [lia|].
  replace (Z.to_nat (Z.of_nat ns - 1 + 1)) with ns by lia.
  eexists. split; [reflexivity|].
  assert (Hloop : forall c, c <= ns -> forall y, LT_inv x (cb c) y ->
                    LT_inv x 0 (fold_left (trsv_LT_sn Ar L) (rev (seq 0 c)) y)).
  { induction c as [|c IH]; intros Hc y Hy.
    - simpl. exact Hy.
    - rewrite fold_left_rev_seq_S. apply IH; [lia|]. rewrite cb_fs by lia.
      rewrite cb_S in Hy by lia.
      eapply LT_char_inv; [lia | exact Hy |]. apply LT_sn_char; [lia | destruct Hy; auto]. }
  destruct (Hloop ns (le_n _) x) as (Hl & _ & Hinv).
  { rewrite cb_ns. split; auto. split; auto. intros; lia. }
  split; auto. intros j Hj. symmetry. apply Hinv. lia.
Qed.

End Trsv.

End Ring.

(* ------------------------------------------------------------------------------------------------ *)
(* which calls of sp_gemv reach SUPERLU_ABORT("Not implemented.") -- any arithmetic                 *)
Section Unimplemented.
Variable Ar : arith.
Theorem gemv_unimplemented : forall (A : csc Ar) tr alpha x xo incx beta y yo incy,
  (exists y', sp_gemv Ar tr alpha A x xo incx beta y yo incy = G_abort y') <->
  ( (tr = cN \/ tr = cT \/ tr = cC) /\ incx <> 0%Z /\ incy <> 0%Z /\
    (0 < a_nrow _ A)%Z /\ (0 < a_ncol _ A)%Z /\ eqb Ar alpha (zero Ar) = false /\
    ( (tr = cN /\ incy <> 1%Z) \/ ((tr = cT \/ tr = cC) /\ incx <> 1%Z) ) ).
Proof.
  intros A tr alpha x xo incx beta y yo incy. unfold sp_gemv.
  destruct (negb (tchar_eqb tr cN) && negb (tchar_eqb tr cT) && negb (tchar_eqb tr cC)) eqn:E1.
  { split; [intros [? H]; discriminate | intros (Ht & _); destruct Ht as [->|[->| ->]]; discriminate]. }
  assert (Htr : tr = cN \/ tr = cT \/ tr = cC) by (destruct tr; simpl in E1; auto; discriminate).
  destruct (Z.ltb_spec (a_nrow _ A) 0); simpl orb.
  { split; [intros [? H']; discriminate | intros; lia]. }
  destruct (Z.ltb_spec (a_ncol _ A) 0); simpl orb.
  { split; [intros [? H']; discriminate | intros; lia]. }
  destruct (Z.eqb_spec incx 0).
  { split; [intros [? H']; discriminate | intros; lia]. }
  destruct (Z.eqb_spec incy 0).
  { split; [intros [? H']; discriminate | intros; lia]. }
  destruct (Z.eqb_spec (a_nrow _ A) 0); simpl orb.
  { split; [intros [? H']; discriminate | intros; lia]. }
  destruct (Z.eqb_spec (a_ncol _ A) 0); simpl orb.
  { split; [intros [? H']; discriminate | intros; lia]. }
  destruct (eqb Ar alpha (zero Ar)) eqn:Ea.
  { destruct (eqb Ar beta (one Ar)); simpl;
      (split; [intros [? H']; discriminate | intros (_ & _ & _ & _ & _ & Hf & _); discriminate]). }
  simpl andb. cbv iota.
  destruct (tchar_eqb tr cN) eqn:EN.
  - assert (tr = cN) by (destruct tr; simpl in EN; auto; discriminate). subst tr.
    destruct (Z.eqb_spec incy 1).
    + split; [intros [? H']; discriminate | intros (_ & _ & _ & _ & _ & _ & [[_ Hs]|[[Hs|Hs] _]]); try lia; discriminate].
    + split; [intros _; repeat split; auto; lia | intros _; eexists; reflexivity].
  - assert (Ht2 : tr = cT \/ tr = cC) by (destruct Htr as [->|Htr]; [discriminate|auto]).
    destruct (Z.eqb_spec incx 1).
    + split; [intros [? H']; discriminate | intros (_ & _ & _ & _ & _ & _ & [[Hs _]|[_ Hs]]); try lia; subst; discriminate].
    + split; [intros _; repeat split; auto; lia | intros _; eexists; reflexivity].
Qed.

(* sp_trsv rejects trans = 'C' (and everything but 'N'/'T') with xerbla argument 2 *)
Theorem trsv_conj_rejected : forall (L : scp Ar) (U : ncp Ar) uplo diag x,
  uplo = cL \/ uplo = cU -> sp_trsv Ar L U uplo cC diag x = S_xerbla 2 x.
Proof. intros L U uplo diag x [-> | ->]; reflexivity. Qed.

(* the permuted (NCP) view built the way sp_colorder does: column perm(i) of the view is column i of A *)
Theorem permuted_view : forall (A : csc Ar) (perm : list nat) (n : nat),
  a_ncol _ A = Z.of_nat n ->
  (forall i, i < n -> nget perm i < n) ->
  (forall i j, i < n -> j < n -> nget perm i = nget perm j -> i = j) ->
  let P := ncp_of_csc Ar A perm in
  u_nrow _ P = a_nrow _ A /\ u_ncol _ P = a_ncol _ A /\ u_val _ P = a_val _ A /\ u_rowind _ P = a_rowind _ A /\
  forall i, i < n -> nget (u_colbeg _ P) (nget perm i) = nget (a_colptr _ A) i /\
                     nget (u_colend _ P) (nget perm i) = nget (a_colptr _ A) (S i).
Proof.
  intros A perm n Hn Hr Hinj. cbv zeta. unfold ncp_of_csc. rewrite Hn, Nat2Z.id.
  assert (Hinv : forall c, c <= n ->
     let be := fold_left (fun be i => let '(cb, ce) := be in
                     (upd cb (nget perm i) (nget (a_colptr _ A) i), upd ce (nget perm i) (nget (a_colptr _ A) (S i))))
                   (seq 0 c) (repeat 0 n, repeat 0 n) in
     fst be = fold_left (fun r k => upd r (nget perm k) (nget (a_colptr _ A) k)) (seq 0 c) (repeat 0 n) /\
     snd be = fold_left (fun r k => upd r (nget perm k) (nget (a_colptr _ A) (S k))) (seq 0 c) (repeat 0 n)).
  { induction c as [|c IH]; intros Hc; cbv zeta.
    - simpl. auto.
    - rewrite !fold_left_seq_snoc. destruct IH as [H1 H2]; [lia|]. cbv zeta in H1, H2.
      destruct (fold_left _ (seq 0 c) (repeat 0 n, repeat 0 n)) as [cb ce]. simpl in *. subst. auto. }
  destruct (Hinv n (le_n _)) as [H1 H2]. cbv zeta in H1, H2.
  destruct (fold_left _ (seq 0 n) (repeat 0 n, repeat 0 n)) as [cb ce]. simpl in H1, H2. subst cb ce. simpl.
  repeat split; auto.
  - destruct (fold_upd_inj_gen nat 0 (nget perm) (fun k => nget (a_colptr _ A) k) n (repeat 0 n)) as (_ & Hin & _);
      [intros; rewrite repeat_length; auto | auto |]. apply Hin; auto.
  - destruct (fold_upd_inj_gen nat 0 (nget perm) (fun k => nget (a_colptr _ A) (S k)) n (repeat 0 n)) as (_ & Hin & _);
      [intros; rewrite repeat_length; auto | auto |]. apply Hin; auto.
Qed.
End Unimplemented.

(* ------------------------------------------------------------------------------------------------ *)
(* the Qc instance satisfies the hypotheses of the generic theorems                                 *)
Lemma ArQ_ring : ring_theory (zero ArQ) (one ArQ) (add ArQ) (mul ArQ) (sub ArQ) (opp ArQ) eq.
Proof. unfold opp; simpl. constructor; intros; try ring. Qed.

Lemma ArQ_eqb_ok : forall a b : T ArQ, eqb ArQ a b = true <-> a = b.
Proof.
  simpl. intros a b. unfold Qc_eqb. rewrite Qeq_bool_iff. split.
  - apply Qc_is_canon.
  - intros ->. reflexivity.
Qed.

Lemma ArQ_div_ok : forall a b : T ArQ, b <> zero ArQ -> mul ArQ (div ArQ a b) b = a.
Proof. simpl. intros a b Hb. field. exact Hb. Qed.

(* ------------------------------------------------------------------------------------------------ *)
(* ?langs in exact (ordered) arithmetic                                                             *)
Local Open Scope Qc_scope.

Lemma Qc_ltb_lt : forall a b : Qc, Qc_ltb a b = true <-> a < b.
Proof.
  intros a b. unfold Qc_ltb. rewrite negb_true_iff. split.
  - intros H. apply Qcnot_le_lt. intros Hle. unfold Qcle in Hle. apply Qle_bool_iff in Hle. congruence.
  - intros H. destruct (Qle_bool (this b) (this a)) eqn:E; auto.
    apply Qle_bool_iff in E. exfalso. apply (Qclt_not_le _ _ H). exact E.
Qed.

Lemma Qc_abs_nonneg : forall a : Qc, 0 <= Qc_abs a.
Proof.
  intros a. unfold Qc_abs. destruct (Qle_bool (this a) 0) eqn:E.
  - apply Qle_bool_iff in E. change (a <= 0) in E. apply Qcopp_le_compat in E. exact E.
  - apply Qclt_le_weak. apply Qcnot_le_lt. intros H. unfold Qcle in H. apply Qle_bool_iff in H.
    change (this 0) with 0%Q in H. congruence.
Qed.

Lemma maxT_spec : forall a b : Qc, a <= maxT ArQ a b /\ b <= maxT ArQ a b /\ (maxT ArQ a b = a \/ maxT ArQ a b = b).
Proof.
  intros a b. unfold maxT. simpl. destruct (Qc_ltb b a) eqn:E.
  - apply Qc_ltb_lt in E. repeat split; auto. apply Qcle_refl. apply Qclt_le_weak; auto.
  - repeat split; auto; try apply Qcle_refl.
    destruct (Qclt_le_dec b a) as [H|H]; auto. apply Qc_ltb_lt in H. congruence.
Qed.

Lemma fold_max_spec : forall (g : nat -> Qc) l v0,
  let r := fold_left (fun v x => maxT ArQ v (g x)) l v0 in
  v0 <= r /\ (forall x, In x l -> g x <= r) /\ (r = v0 \/ exists x, In x l /\ r = g x).
Proof.
  induction l as [|h t IH]; intros v0; cbv zeta; cbn [fold_left].
  - split; [apply Qcle_refl|]. split; [intros x []|left; reflexivity].
  - specialize (IH (maxT ArQ v0 (g h))). cbv zeta in IH.
    set (r := fold_left (fun v x => maxT ArQ v (g x)) t (maxT ArQ v0 (g h))) in *.
    destruct IH as (H1 & H2 & H3).
    destruct (maxT_spec v0 (g h)) as (M1 & M2 & M3).
    split. { eapply Qcle_trans; eauto. }
    split.
    + intros x [<-|Hx]. eapply Qcle_trans; eauto. apply H2; auto.
    + destruct H3 as [H3|[x [Hx H3]]].
      * destruct M3 as [M3|M3].
        -- left. rewrite H3. exact M3.
        -- right. exists h. split; [left; auto|]. rewrite H3. exact M3.
      * right. exists x. split; [right; exact Hx | exact H3].
Qed.

Lemma fold_left_flat_map : forall (B C : Type) (f : B -> C -> B) (h : nat -> list C) l v,
  fold_left (fun v j => fold_left f (h j) v) l v = fold_left f (flat_map h l) v.
Proof. induction l as [|a l IH]; intros v; simpl; auto. rewrite fold_left_app. apply IH. Qed.

Section LangsQ.
Variable A : csc ArQ.
Variables m n : nat.
Hypothesis Hm : a_nrow _ A = Z.of_nat m.
Hypothesis Hn : a_ncol _ A = Z.of_nat n.
Hypothesis Hm0 : (0 < m)%nat.
Hypothesis Hn0 : (0 < n)%nat.

Lemma langs_nonempty : (Z.min (a_nrow _ A) (a_ncol _ A) =? 0)%Z = false.
Proof. rewrite Hm, Hn. apply Z.eqb_neq. lia. Qed.

Definition entry_abs (j t : nat) : Qc := Qc_abs (getn ArQ (a_val _ A) (col_lo ArQ A j + t)).

(* NORM = 'M': the largest stored |a_ij| *)
Theorem langs_M_exact :
  exists v, langs ArQ cM A = N_val v /\
    (forall j t, (j < n)%nat -> (t < col_len ArQ A j)%nat -> entry_abs j t <= v) /\
    (v = 0 \/ exists j t, (j < n)%nat /\ (t < col_len ArQ A j)%nat /\ v = entry_abs j t).
Proof.
  unfold langs. rewrite langs_nonempty. simpl tchar_eqb. cbv iota. rewrite Hn, Nat2Z.id.
  eexists. split; [reflexivity|].
  rewrite (fold_left_flat_map _ _ (fun v i => maxT ArQ v (abs ArQ (getn ArQ (a_val _ A) i))) (col_range ArQ A) (seq 0 n)).
  destruct (fold_max_spec (fun i => Qc_abs (getn ArQ (a_val _ A) i)) (flat_map (col_range ArQ A) (seq 0 n)) (zero ArQ))
    as (_ & H2 & H3). cbv zeta in H2, H3. simpl abs. split.
  - intros j t Hj Ht. apply H2. apply in_flat_map. exists j. split. apply in_seq; lia.
    unfold col_range. apply in_seq. unfold col_len, col_lo in *. lia.
  - destruct H3 as [H3|[x [Hx H3]]]; [left; exact H3|]. right.
    apply in_flat_map in Hx. destruct Hx as (j & Hj & Hx). apply in_seq in Hj. unfold col_range in Hx. apply in_seq in Hx.
    exists j, (x - col_lo ArQ A j)%nat. unfold entry_abs, col_len, col_lo in *.
    replace (nget (a_colptr ArQ A) j + (x - nget (a_colptr ArQ A) j))%nat with x by lia.
    repeat split; auto; lia.
Qed.

(* NORM = '1' or 'O': the largest column sum of |a_ij| *)
Theorem langs_1_exact : forall norm, norm = cO \/ norm = c1 ->
  exists v, langs ArQ norm A = N_val v /\
    (forall j, (j < n)%nat -> colsum_abs ArQ A j <= v) /\
    (v = 0 \/ exists j, (j < n)%nat /\ v = colsum_abs ArQ A j).
Proof.
  intros norm Hnorm.
  assert (E : langs ArQ norm A = langs ArQ cO A) by (destruct Hnorm; subst; reflexivity). rewrite E.
  unfold langs. rewrite langs_nonempty. simpl tchar_eqb. cbv iota. simpl orb. cbv iota. rewrite Hn, Nat2Z.id.
  eexists. split; [reflexivity|].
  rewrite (fold_left_ext_in _ _ _ (fun v j => maxT ArQ v (colsum_abs ArQ A j))).
  2:{ intros v j _. rewrite (langs_colsum ArQ ArQ_ring). reflexivity. }
  destruct (fold_max_spec (fun j => colsum_abs ArQ A j) (seq 0 n) (zero ArQ)) as (_ & H2 & H3). cbv zeta in H2, H3.
  split.
  - intros j Hj. apply H2. apply in_seq. lia.
  - destruct H3 as [H3|[x [Hx H3]]]; [left; exact H3|]. right. apply in_seq in Hx. exists x. split; auto; lia.
Qed.

(* NORM = 'I': the largest row sum of |a_ij| *)
Theorem langs_I_exact : rows_in_range ArQ A m n ->
  exists v, langs ArQ cI A = N_val v /\
    (forall i, (i < m)%nat -> rowsum_abs ArQ A n i <= v) /\
    (v = 0 \/ exists i, (i < m)%nat /\ v = rowsum_abs ArQ A n i).
Proof.
  intros Hrows.
  unfold langs. rewrite langs_nonempty. simpl tchar_eqb. cbv iota. simpl orb. cbv iota. rewrite Hn, Hm, !Nat2Z.id.
  eexists. split; [reflexivity|].
  destruct (langs_rwork ArQ ArQ_ring A m n Hrows) as [Hl Hx]. cbv zeta in Hl, Hx.
  set (rwork := fold_left _ (seq 0 n) (repeat (zero ArQ) m)) in *.
  destruct (fold_max_spec (fun i => getn ArQ rwork i) (seq 0 m) (zero ArQ)) as (_ & H2 & H3). cbv zeta in H2, H3.
  split.
  - intros i Hi. rewrite <- Hx by auto. apply H2. apply in_seq. lia.
  - destruct H3 as [H3|[x [Hx3 H3]]]; [left; exact H3|]. right. apply in_seq in Hx3. exists x.
    split; [lia|]. rewrite H3. apply Hx. lia.
Qed.

(* NORM = 'F' / 'E': the routine aborts -- the property text promises the Frobenius norm *)
Theorem langs_F_aborts : forall norm, norm = cF \/ norm = cE -> langs ArQ norm A = N_abort_notimpl.
Proof.
  intros norm [-> | ->]; unfold langs; rewrite langs_nonempty; reflexivity.
Qed.
End LangsQ.
Local Close Scope Qc_scope.

(* ------------------------------------------------------------------------------------------------ *)
(* witnesses: the faithful model violates three clauses of the property text                         *)
Definition q (z : Z) : Qc := Q2Qc (inject_Z z).
Definition exA : csc ArQ := mkCsc ArQ 2 2 [0; 1; 2] [0; 1] [q 3; q 4].

Lemma gemv_strides_witness :
  exists y', sp_gemv ArQ cN (q 1) exA [q 1; q 1] 0 1 (q 1) [q 0; q 0; q 0] 0 2 = G_abort y'.
Proof. eexists. vm_compute. reflexivity. Qed.

Lemma gemv_strides_witness_T :
  exists y', sp_gemv ArQ cT (q 1) exA [q 1; q 0; q 1] 0 2 (q 1) [q 0; q 0] 0 1 = G_abort y'.
Proof. eexists. vm_compute. reflexivity. Qed.

Lemma langs_frobenius_witness :
  (Z.min (a_nrow _ exA) (a_ncol _ exA) <> 0)%Z /\ langs ArQ cF exA = N_abort_notimpl /\ langs ArQ cE exA = N_abort_notimpl.
Proof. repeat split; vm_compute; congruence. Qed.

(* ------------------------------------------------------------------------------------------------ *)
(* non-vacuity: a concrete supernodal factor (two supernodes of widths 2 and 1) satisfies wf_factor  *)
Definition exL : scp ArQ :=
  mkScp ArQ 3 3 1 [q 2; q 1; q 3; q 5; q 4; q 1; q 7] [0; 3; 6] [3; 6; 7] [0; 1; 2; 2] [0; 0; 3] [3; 0; 4]
        [0; 0; 1; 1] [0; 2] [2; 3].
Definition exU : ncp ArQ := mkNcp ArQ 3 3 [q 6; q 8] [0; 1] [0; 0; 0] [0; 0; 2].

Example ex_factor_wf : wf_factor ArQ exL exU 3 2.
Proof.
  constructor; try (vm_compute; repeat split; auto; lia).
  - intros k Hk. destruct k as [|[|k]]; try lia; vm_compute; lia.
  - intros k Hk. destruct k as [|k]; try lia. vm_compute. reflexivity.
  - intros k Hk. destruct k as [|[|k]]; try lia; vm_compute; reflexivity.
  - intros k Hk. destruct k as [|[|k]]; try lia; vm_compute; repeat split; lia.
  - intros k t Hk Ht. destruct k as [|[|k]]; try lia.
    + change (sn_nsupc ArQ exL 0) with 2 in Ht. destruct t as [|[|t]]; try lia; reflexivity.
    + change (sn_nsupc ArQ exL 1) with 1 in Ht. destruct t as [|t]; try lia; reflexivity.
  - intros k t Hk Ht. destruct k as [|[|k]]; try lia.
    + change (sn_nsupc ArQ exL 0) with 2 in Ht. change (sn_nsupr ArQ exL 0) with 3 in Ht.
      assert (t = 2) by lia. subst t. vm_compute. lia.
    + change (sn_nsupc ArQ exL 1) with 1 in Ht. change (sn_nsupr ArQ exL 1) with 1 in Ht. lia.
  - intros k c Hk Hc. destruct k as [|[|k]]; try lia.
    + change (sn_nsupc ArQ exL 0) with 2 in Hc. destruct c as [|[|c]]; try lia; vm_compute; auto.
    + change (sn_nsupc ArQ exL 1) with 1 in Hc. destruct c as [|c]; try lia; vm_compute; auto.
  - intros k c Hk Hc. destruct k as [|[|k]]; try lia.
    + change (sn_nsupc ArQ exL 0) with 2 in Hc. destruct c as [|[|c]]; try lia; reflexivity.
    + change (sn_nsupc ArQ exL 1) with 1 in Hc. destruct c as [|c]; try lia; reflexivity.
  - intros k c p Hk Hc Hp. destruct k as [|[|k]]; try lia.
    + change (sn_nsupc ArQ exL 0) with 2 in Hc. destruct c as [|[|c]]; try lia; vm_compute in Hp; lia.
    + change (sn_nsupc ArQ exL 1) with 1 in Hc. destruct c as [|c]; try lia.
      change (nget (u_colbeg ArQ exU) (sn_fsupc ArQ exL 1 + 0)) with 0 in Hp.
      change (nget (u_colend ArQ exU) (sn_fsupc ArQ exL 1 + 0)) with 2 in Hp.
      destruct p as [|[|p]]; try lia; vm_compute; lia.
Qed.

Example ex_factor_diag : forall k c, k < 2 -> c < sn_nsupc ArQ exL k ->
  Mat ArQ (l_val _ exL) (sn_luptr ArQ exL k) (sn_nsupr ArQ exL k) c c <> zero ArQ.
Proof.
  intros k c Hk Hc. destruct k as [|[|k]]; try lia.
  - change (sn_nsupc ArQ exL 0) with 2 in Hc. destruct c as [|[|c]]; try lia; vm_compute; congruence.
  - change (sn_nsupc ArQ exL 1) with 1 in Hc. destruct c as [|c]; try lia; vm_compute; congruence.
Qed.

(* L = [[1,0,0],[1/1.. ]]: the forward solve of the example really runs and multiplies back *)
Example ex_trsv_runs : exists x', sp_trsv ArQ exL exU cL cN cU [q 1; q 2; q 3] = S_ok x' /\ x' = [q 1; q 1; q (-1)].
Proof. eexists. split; vm_compute; reflexivity. Qed.

Example ex_gemv_hyps : a_nrow _ exA = Z.of_nat 2 /\ a_ncol _ exA = Z.of_nat 2 /\ rows_in_range ArQ exA 2 2.
Proof.
  repeat split. intros j t Hj Ht. destruct j as [|[|j]]; try lia.
  - change (col_len ArQ exA 0) with 1 in Ht. destruct t; try lia. vm_compute. lia.
  - change (col_len ArQ exA 1) with 1 in Ht. destruct t; try lia. vm_compute. lia.
Qed.

(* ------------------------------------------------------------------------------------------------ *)
(* statements that are NOT proved here (kept at full strength; enforced at run time by the exact     *)
(* rational oracle of check C19 on every C result)                                                   *)
Require Import Reals.
Section Unproved.
Local Open Scope R_scope.
(* the model over reals with every operation followed by an arbitrary rounding function *)
Definition ArR (rnd : R -> R) : arith :=
  mkArith R 0 1 (fun a b => rnd (a + b)) (fun a b => rnd (a - b)) (fun a b => rnd (a * b)) (fun a b => rnd (a / b)) Rabs
          (fun a b => if Req_EM_T a b then true else false) (fun a b => if Rlt_dec a b then true else false).
Definition std_model (rnd : R -> R) (u : R) : Prop :=
  0 <= u /\ forall x, exists d, Rabs d <= u /\ rnd x = x * (1 + d).
Definition gammaR (k : nat) (u : R) : R := INR k * u / (1 - INR k * u).
Fixpoint Rsum (f : nat -> R) (n : nat) : R := match n with O => 0 | S k => Rsum f k + f k end.
Definition denseR (colptr rowind : list nat) (val : list R) (i j : nat) : R :=
  let lo := nget colptr j in
  Rsum (fun t => if Nat.eqb (nget rowind (lo + t)) i then nth (lo + t) val 0 else 0) (nget colptr (S j) - lo).

(* |y^_i - (alpha*A*x + beta*y)_i| <= gamma(n+2) (|alpha| |A| |x| + |beta| |y|)_i   for every rounding function
   obeying the standard model (binary64 round-to-nearest without over/underflow is one: Flocq relative_error_N_FLX) *)
Definition gemv_rounded_full : Prop :=
  forall rnd u, std_model rnd u ->
  forall (m n : nat) (colptr rowind : list nat) (val x y : list R) (alpha beta : R) (yon : nat),
    (0 < m)%nat -> (0 < n)%nat -> INR (n + 2) * u < 1 ->
    (forall j t, (j < n)%nat -> (t < nget colptr (S j) - nget colptr j)%nat -> (nget rowind (nget colptr j + t) < m)%nat) ->
    (yon + m <= length y)%nat ->
    exists y', sp_gemv (ArR rnd) cN alpha (mkCsc (ArR rnd) (Z.of_nat m) (Z.of_nat n) colptr rowind val) x 0 1 beta y (Z.of_nat yon) 1
               = G_ok y' /\
      forall i, (i < m)%nat ->
        Rabs (nth (yon + i) y' 0 - (alpha * Rsum (fun j => denseR colptr rowind val i j * nth j x 0) n + beta * nth (yon + i) y 0))
        <= gammaR (n + 2) u * (Rabs alpha * Rsum (fun j => Rabs (denseR colptr rowind val i j) * Rabs (nth j x 0)) n
                               + Rabs beta * Rabs (nth (yon + i) y 0)).

Definition exactL (rnd : R -> R) (L : scp (ArR rnd)) : scp (ArR (fun r => r)) :=
  mkScp (ArR (fun r => r)) (l_nrow _ L) (l_ncol _ L) (l_nsuper _ L) (l_val _ L)
        (l_nzbeg _ L) (l_nzend _ L) (l_rowind _ L) (l_ribeg _ L) (l_riend _ L) (l_col2sup _ L) (l_supbeg _ L) (l_supend _ L).
(* backward error of the sparse triangular solves: the computed x^ satisfies (T + dT) x^ = b with |dT| <= gamma(n+1)|T|,
   stated through the componentwise residual *)
Definition trsv_rounded_full : Prop :=
  forall rnd u, std_model rnd u ->
  forall (L : scp (ArR rnd)) (U : ncp (ArR rnd)) (n ns : nat) (b : list R),
    wf_factor (ArR rnd) L U n ns -> length b = n -> INR (n + 1) * u < 1 ->
    exists x', sp_trsv (ArR rnd) L U cL cN cU b = S_ok x' /\
      forall i, (i < n)%nat ->
        Rabs (nth i b 0 - (nth i x' 0 + Rsum (fun j => Ld (ArR (fun r => r)) (exactL rnd L) i j
                  * nth j x' 0) i))
        <= gammaR (n + 1) u * (Rabs (nth i x' 0) +
             Rsum (fun j => Rabs (Ld (ArR (fun r => r)) (exactL rnd L) i j)
                  * Rabs (nth j x' 0)) i).
End Unproved.

(* dCompRow_to_CompCol preserves the matrix: entry (i,c) of the compressed-row input (sum of the stored
   entries of row i with column index c) equals entry (i,c) of the compressed-column output *)
Definition cr2cc_preserves_full : Prop :=
  forall (Ar : arith), ring_theory (zero Ar) (one Ar) (add Ar) (mul Ar) (sub Ar) (opp Ar) eq ->
  forall (m n nnz : nat) (a : list (T Ar)) (colind rowptr : list nat),
    nget rowptr 0 = 0 -> nget rowptr m = nnz -> (forall i, i < m -> nget rowptr i <= nget rowptr (S i)) ->
    (forall p, p < nnz -> nget colind p < n) -> nnz <= length a -> nnz <= length colind ->
    let '(at_, rowind, colptr) := cr2cc Ar m n nnz a colind rowptr in
    nget colptr 0 = 0 /\ nget colptr n = nnz /\ (forall j, j < n -> nget colptr j <= nget colptr (S j)) /\
    forall i c, i < m -> c < n ->
      bsum Ar (fun t => if nget colind (nget rowptr i + t) =? c then getn Ar a (nget rowptr i + t) else zero Ar)
              (nget rowptr (S i) - nget rowptr i)
      = dense Ar (mkCsc Ar (Z.of_nat m) (Z.of_nat n) colptr rowind at_) i c.

Lemma trsv_transC_witness :
  exists (L : scp ArQ) (U : ncp ArQ) x, wf_factor ArQ L U 3 2 /\ sp_trsv ArQ L U cL cC cU x = S_xerbla 2 x.
Proof. exists exL, exU, [q 1; q 2; q 3]. split. exact ex_factor_wf. reflexivity. Qed.

Lemma ArQ_hypotheses :
  ring_theory (zero ArQ) (one ArQ) (add ArQ) (mul ArQ) (sub ArQ) (opp ArQ) eq /\
  (forall a b : T ArQ, eqb ArQ a b = true <-> a = b) /\
  (forall a b : T ArQ, b <> zero ArQ -> mul ArQ (div ArQ a b) b = a) /\
  wf_factor ArQ exL exU 3 2 /\
  (forall k c, k < 2 -> c < sn_nsupc ArQ exL k ->
     Mat ArQ (l_val _ exL) (sn_luptr ArQ exL k) (sn_nsupr ArQ exL k) c c <> zero ArQ) /\
  (a_nrow _ exA = Z.of_nat 2 /\ a_ncol _ exA = Z.of_nat 2 /\ rows_in_range ArQ exA 2 2).
Proof.
  split. exact ArQ_ring. split. exact ArQ_eqb_ok. split. exact ArQ_div_ok. split. exact ex_factor_wf.
  split. exact ex_factor_diag. exact ex_gemv_hyps.
Qed.
