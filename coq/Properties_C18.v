From Coq Require Import ZArith List Bool.
From SLU Require Import Consts PersistModel PersistProofs.
Import ListNotations.
Local Open Scope Z_scope.

Theorem first_factor_state_independent : forall (s1 s2 : pstate) (se : sess) (a : fargs) (opid : Z) (expert : bool),
  valid_lwork a -> bmod_compat s1 a -> bmod_compat s2 a ->
  snd (step expert (s1, se) (OFirst a opid)) = snd (step expert (s2, se) (OFirst a opid)) /\
  snd (fst (step expert (s1, se) (OFirst a opid))) = snd (fst (step expert (s2, se) (OFirst a opid))).
Proof. exact first_factor_indep. Qed.
Print Assumptions first_factor_state_independent.

Theorem first_factor_independent_of_process_history : forall (ps1 ps2 : list pstate) (ses : list sess) (expert : bool) (slot prec : nat)
    (a : fargs) (opid : Z) (s1 s2 : pstate),
  nth_error ps1 prec = Some s1 -> nth_error ps2 prec = Some s2 ->
  valid_lwork a -> bmod_compat s1 a -> bmod_compat s2 a ->
  snd (pstep (mkProc ps1 ses) expert slot prec (OFirst a opid)) = snd (pstep (mkProc ps2 ses) expert slot prec (OFirst a opid)) /\
  pr_se (fst (pstep (mkProc ps1 ses) expert slot prec (OFirst a opid))) = pr_se (fst (pstep (mkProc ps2 ses) expert slot prec (OFirst a opid))).
Proof. exact first_factor_indep_proc. Qed.
Print Assumptions first_factor_independent_of_process_history.

Theorem gstrf_first_reads_no_state : forall (s1 s2 : pstate) (a : fargs) (sym p : Z) (lu1 lu2 : lustore) (ok : bool),
  valid_lwork a -> bmod_compat s1 a -> bmod_compat s2 a ->
  fres_eq (gstrf s1 a c_NO sym p lu1 ok) (gstrf s2 a c_NO sym p lu2 ok).
Proof. exact gstrf_first_core. Qed.
Print Assumptions gstrf_first_reads_no_state.

Theorem first_factor_ienv_cache_refuted : exists (s1 s2 : pstate) (se : sess) (a : fargs) (opid : Z),
  snd (step true (s1, se) (OFirst a opid)) <> snd (step true (s2, se) (OFirst a opid)).
Proof. exact first_factor_ienv_cache. Qed.
Print Assumptions first_factor_ienv_cache_refuted.

Theorem solve_factored_state_independent_partial : forall (s1 s2 : pstate) (se : sess) (ex ex' : bool) (t b : Z),
  mask_exp (snd (step ex (s1, se) (OSolve ex' t b))) = mask_exp (snd (step ex (s2, se) (OSolve ex' t b))) /\
  snd (fst (step ex (s1, se) (OSolve ex' t b))) = se /\ snd (fst (step ex (s2, se) (OSolve ex' t b))) = se.
Proof. exact solve_indep_masked. Qed.
Print Assumptions solve_factored_state_independent_partial.

Theorem solve_gstrs_state_independent : forall (s1 s2 : pstate) (se : sess) (ex : bool) (t b : Z),
  snd (step ex (s1, se) (OSolve false t b)) = snd (step ex (s2, se) (OSolve false t b)).
Proof. exact solve_gstrs_indep. Qed.
Print Assumptions solve_gstrs_state_independent.

Theorem solve_expansions_refuted : exists (s1 s2 : pstate) (se : sess) (t b : Z),
  snd (step true (s1, se) (OSolve true t b)) <> snd (step true (s2, se) (OSolve true t b)).
Proof. exact solve_expansions_state_dependent. Qed.
Print Assumptions solve_expansions_refuted.

Theorem lacon_kase0_state_independent : forall (V R I : Type) (x_init : V) (n_is_one : bool) (asum : V -> R) (sign_vec : V -> V)
    (isgn_of : V -> I) (same_signs : V -> I -> bool) (idamax : V -> Z) (unit_vec : Z -> V) (alt_vec : V) (alt_last : R)
    (rle : R -> R -> bool) (cycle_test : V -> Z -> Z -> bool) (final_temp : V -> R) (rlt : R -> R -> bool) (first_abs : V -> R)
    (apply_op : Z -> V -> V) (fuel : nat) (s1 s2 : lstat R) (v0 : V) (i0 : I) (e0 : R),
  lacon_run V R I x_init n_is_one asum sign_vec isgn_of same_signs idamax unit_vec alt_vec alt_last rle cycle_test final_temp rlt first_abs
            apply_op fuel s1 v0 i0 e0 =
  lacon_run V R I x_init n_is_one asum sign_vec isgn_of same_signs idamax unit_vec alt_vec alt_last rle cycle_test final_temp rlt first_abs
            apply_op fuel s2 v0 i0 e0.
Proof. exact lacon_kase0_indep. Qed.
Print Assumptions lacon_kase0_state_independent.

Theorem refact_depends_on_state : exists (s1 s2 : pstate) (se : sess) (a : fargs) (opid : Z),
  snd (step true (s1, se) (ORefact a opid)) <> snd (step true (s2, se) (ORefact a opid)).
Proof. exact PersistProofs.refact_depends_on_state. Qed.
Print Assumptions refact_depends_on_state.

Theorem other_precision_untouched : forall (P : proc) (ex : bool) (slot prec : nat) (o : op) (q : nat), q <> prec ->
  nth_error (pr_ps (fst (pstep P ex slot prec o))) q = nth_error (pr_ps P) q.
Proof. exact other_precision_frame. Qed.
Print Assumptions other_precision_untouched.
