(* ReaderExamples.v -- non-vacuity of the C20 theorems and the formal side of finding
   C20-descriptor-grammar: concrete files evaluated by vm_compute *)
From Coq Require Import ZArith List Bool Lia.
From SLU Require Import ReaderModel ReaderProofs ReaderMtProofs.
Import ListNotations.
Local Open Scope Z_scope.

Definition ex_M : csc :=
  mkcsc 3 3 [0; 2; 3; 5] [0; 2; 1; 0; 2]
        [(false, 15, -1); (true, 25, -2); (false, 3, 0); (false, 12345, 3); (true, 1, -5)].

Definition ex_ptr : ifmt := mkifmt 8 5 false 0.
Definition ex_ind : ifmt := mkifmt 16 5 true 1.
Definition ex_val : ffmt := mkffmt (Some 1) 3 FD 16 8 false.
Definition ex_valF : ffmt := mkffmt None 4 FF 20 6 false.

Definition ex_hb : hb_opts :=
  mkhb (repeat 65 72) (repeat 66 8) [82; 85; 65] ex_ptr ex_ind ex_val (repeat 32 20) 2
       [70; 32; 32; 49].

Definition ex_rb : rb_opts := mkrb (repeat 67 40) [114; 117; 97] ex_ptr ex_ind ex_val.

Example hb_ok_example : hb_ok false ex_hb ex_M = true.
Proof. vm_compute. reflexivity. Qed.

Example rb_ok_example : rb_ok false ex_rb ex_M = true.
Proof. vm_compute. reflexivity. Qed.

Example mt_ok_example : mt_ok false (repeat 68 30) ex_M = true.
Proof. vm_compute. reflexivity. Qed.

(* the hypotheses also hold for an F format with the values that are multiples of 10^-6 *)
Definition ex_MF : csc := mkcsc 2 2 [0; 1; 2] [0; 1] [(false, 15, -1); (true, 25, -2)].
Example rb_ok_example_F : rb_ok false (mkrb (repeat 67 40) [114; 117; 97] ex_ptr ex_ind ex_valF) ex_MF = true.
Proof. vm_compute. reflexivity. Qed.

(* complex: two reals per entry *)
Definition ex_MZ : csc := mkcsc 2 2 [0; 1; 2] [1; 0] [(false, 15, -1); (true, 25, -2); (false, 7, 2); (false, 0, 0)].
Example hb_ok_example_complex : hb_ok true ex_hb ex_MZ = true.
Proof. vm_compute. reflexivity. Qed.
Example mt_ok_example_complex : mt_ok true [] ex_MZ = true.
Proof. vm_compute. reflexivity. Qed.

(* direct evaluation of the model on the printed files (independent of the proofs) *)
Example hb_eval_example :
  parse_hb false (print_hb ex_hb ex_M ++ [49; 50; 10]) = Ok (expected_result ex_val ex_M).
Proof. vm_compute. reflexivity. Qed.

Example mt_eval_example :
  parse_mt true (print_mt true [] ex_MZ)
  = Ok (mkres 2 2 2 [0; 1; 2] [1; 0] true (m_vals ex_MZ)).
Proof. vm_compute. reflexivity. Qed.

Example descriptor_examples :
  parse_int_format (ifmt_text ex_ind ++ [32; 32]) = Ok (16, 5)
  /\ parse_float_format (ffmt_text ex_val) = Ok (3, 16).
Proof. vm_compute. split; reflexivity. Qed.

(* Formal side of finding C20-descriptor-grammar: "(1P,3E16.8)" is a legal Fortran format
   (the comma after the scale factor is optional).  ?ParseFloatFormat re-reads the repeat count
   right after the P, finds the comma, and returns 0 values per line; ?ReadValues then never
   advances.  The model shows both facts for every continuation of the buffer / every stream. *)
Definition descr_scale_comma : list Z := [40; 49; 80; 44; 51; 69; 49; 54; 46; 56; 41].

Lemma descriptor_scale_comma_refuted_lemma :
  exists d : list Z,
    d = descr_scale_comma
    /\ (forall tail, parse_float_format (d ++ tail) = Ok (0, 16))
    /\ (forall s n w, 0 < n -> read_values s n 0 w = Err E_HANG).
Proof.
  exists descr_scale_comma. split; [reflexivity|]. split.
  - intros tail. reflexivity.
  - intros s n w Hn. unfold read_values. cbn [read_lines].
    assert (E : (n <=? 0) = false) by lia. rewrite E. reflexivity.
Qed.
