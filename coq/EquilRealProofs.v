(* EquilRealProofs.v (property C11), Part B: the model of ?gsequ instantiated with the real numbers
   (exact arithmetic): zero row / column index, positivity and clip range of the factors, unit row and
   column maxima unless clipped.  smlnum is a parameter (0 < smlnum <= 1), bignum = 1/smlnum as in the code. *)
Require Import Reals Lra List ZArith Bool Lia Arith Classical.
From SLU Require Import Consts EquilModel EquilProofs.
Import ListNotations.
Local Open Scope R_scope.

Definition Rltb (a b : R) : bool := if Rlt_dec a b then true else false.
Definition Rleb (a b : R) : bool := if Rle_dec a b then true else false.
Definition Reqb (a b : R) : bool := if Req_EM_T a b then true else false.

Definition ar_R : arith := mkArith R R 0 1 Rmult Rdiv Rltb Rleb Reqb Rabs Rmult.

Notation entryR := (entry ar_R).
Notation rowR := (e_row ar_R).  Notation colR := (e_col ar_R).  Notation valR := (e_val ar_R).

Lemma fmax_R a b : fmax ar_R a b = Rmax a b.
Proof. unfold fmax, Rmax; cbn. unfold Rltb. destruct (Rlt_dec b a), (Rle_dec a b); try lra; reflexivity. Qed.
Lemma fmin_R a b : fmin ar_R a b = Rmin a b.
Proof. unfold fmin, Rmin; cbn. unfold Rltb. destruct (Rlt_dec a b), (Rle_dec a b); try lra; reflexivity. Qed.
Lemma Reqb_true a b : Reqb a b = true <-> a = b.
Proof. unfold Reqb; destruct (Req_EM_T a b); split; intros; try discriminate; try reflexivity; try contradiction; assumption. Qed.
Lemma Reqb_false a b : Reqb a b = false <-> a <> b.
Proof. unfold Reqb; destruct (Req_EM_T a b); split; intros; try discriminate; try reflexivity; try contradiction; assumption. Qed.

(* below a bound, either nobody satisfies P or somebody does *)
Lemma classic_first (i : nat) (P : nat -> Prop) :
  (forall k, (k < i)%nat -> ~ P k) \/ (exists k, (k < i)%nat /\ P k).
Proof.
  induction i as [|i IH]; [left; intros; lia|].
  destruct IH as [H | [k [Hk HP]]]; [|right; exists k; split; [lia|exact HP]].
  destruct (classic (P i)) as [HP | HP]; [right; exists i; split; [lia|exact HP]|].
  left; intros k Hk. destruct (Nat.eq_dec k i) as [->|Hne]; [exact HP|apply H; lia].
Qed.

(* ------------------------------------------------------------------ array update *)
Lemma upd_length (l : list R) i x : length (upd ar_R l i x) = length l.
Proof. revert i; induction l as [|h t IH]; intros [|i]; cbn; auto. Qed.

Lemma upd_nth (l : list R) i x k : (i < length l)%nat ->
  nth k (upd ar_R l i x) 0 = if Nat.eqb i k then x else nth k l 0.
Proof.
  revert i k; induction l as [|h t IH]; intros i k Hi; [cbn in Hi; lia|].
  destruct i as [|i]; destruct k as [|k]; cbn; try reflexivity.
  apply IH. cbn in Hi; lia.
Qed.

Lemma nth_error_nth (l : list R) i : (i < length l)%nat -> nth_error l i = Some (nth i l 0).
Proof. revert i; induction l as [|h t IH]; intros [|i] H; cbn in *; try lia; auto. apply IH; lia. Qed.

(* ------------------------------------------------------------------ scatter-max loops *)
Section Scatter.
Variable key : entryR -> nat.
Variable w : entryR -> R.

Fixpoint scat (es : list entryR) (v : list R) : option (list R) :=
  match es with
  | [] => Some v
  | e :: t => match nth_error v (key e) with
              | None => None
              | Some x => scat t (upd ar_R v (key e) (Rmax x (w e)))
              end
  end.

(* the value slot k ends with: the running maximum over the entries whose key is k *)
Definition smax (es : list entryR) (k : nat) (init : R) : R :=
  fold_left (fun acc e => if Nat.eqb (key e) k then Rmax acc (w e) else acc) es init.

Lemma scat_spec : forall es v,
  (forall e, In e es -> (key e < length v)%nat) ->
  exists v', scat es v = Some v' /\ length v' = length v /\
             forall k, (k < length v)%nat -> nth k v' 0 = smax es k (nth k v 0).
Proof.
  induction es as [|e t IH]; intros v H.
  - exists v; cbn; auto.
  - cbn [scat]. assert (Hk : (key e < length v)%nat) by (apply H; left; reflexivity).
    rewrite (nth_error_nth v _ Hk).
    destruct (IH (upd ar_R v (key e) (Rmax (nth (key e) v 0) (w e)))) as [v' [Hs [Hl Hn]]].
    { intros e' He'. rewrite upd_length. apply H; right; assumption. }
    exists v'. split; [exact Hs|]. rewrite upd_length in Hl. split; [exact Hl|].
    intros k Hkl. rewrite Hn by (rewrite upd_length; exact Hkl).
    rewrite upd_nth by exact Hk. unfold smax; cbn [fold_left].
    destruct (Nat.eqb (key e) k) eqn:E; [apply Nat.eqb_eq in E; subst k|]; reflexivity.
Qed.

Lemma smax_ge_init : forall es k init, init <= smax es k init.
Proof.
  induction es as [|e t IH]; intros k init; unfold smax; cbn [fold_left]; [lra|].
  fold (smax t k (if Nat.eqb (key e) k then Rmax init (w e) else init)).
  eapply Rle_trans; [|apply IH]. destruct (Nat.eqb (key e) k); [apply Rmax_l|lra].
Qed.

Lemma smax_ge : forall es k init e, In e es -> key e = k -> w e <= smax es k init.
Proof.
  induction es as [|e0 t IH]; intros k init e Hin Hk; [contradiction|].
  unfold smax; cbn [fold_left]. fold (smax t k (if Nat.eqb (key e0) k then Rmax init (w e0) else init)).
  destruct Hin as [-> | Hin].
  - rewrite Hk, Nat.eqb_refl. eapply Rle_trans; [apply Rmax_r|apply smax_ge_init].
  - apply IH; assumption.
Qed.

Lemma smax_attained : forall es k init,
  smax es k init = init \/ exists e, In e es /\ key e = k /\ smax es k init = w e.
Proof.
  induction es as [|e0 t IH]; intros k init; [left; reflexivity|].
  unfold smax; cbn [fold_left]. fold (smax t k (if Nat.eqb (key e0) k then Rmax init (w e0) else init)).
  destruct (Nat.eqb (key e0) k) eqn:E.
  - apply Nat.eqb_eq in E.
    destruct (IH k (Rmax init (w e0))) as [H | [e [Hin [Hk He]]]].
    + rewrite H. unfold Rmax; destruct (Rle_dec init (w e0)); [right; exists e0; cbn; auto|left; reflexivity].
    + right; exists e; cbn; auto.
  - destruct (IH k init) as [H | [e [Hin [Hk He]]]]; [left; exact H|right; exists e; cbn; auto].
Qed.

Lemma smax_zero_iff es k :
  (forall e, In e es -> 0 <= w e) ->
  (smax es k 0 = 0 <-> forall e, In e es -> key e = k -> w e = 0).
Proof.
  intros Hpos; split.
  - intros H e Hin Hk. pose proof (smax_ge es k 0 e Hin Hk). specialize (Hpos e Hin). lra.
  - intros H. destruct (smax_attained es k 0) as [E | [e [Hin [Hk E]]]]; [exact E|]. rewrite E. apply H; assumption.
Qed.

(* m is the largest value of f among the entries selected by key = k, and it is attained *)
Definition is_largest (f : entryR -> R) (es : list entryR) (k : nat) (m : R) : Prop :=
  (forall e, In e es -> key e = k -> f e <= m) /\ (exists e, In e es /\ key e = k /\ f e = m).

Lemma smax_is_largest es k m :
  (forall e, In e es -> 0 <= w e) -> 0 < m -> is_largest w es k m -> smax es k 0 = m.
Proof.
  intros Hpos Hm [Hle [e [Hin [Hk He]]]].
  pose proof (smax_ge es k 0 e Hin Hk) as H1.
  destruct (smax_attained es k 0) as [E | [e' [Hin' [Hk' E]]]]; [lra|].
  specialize (Hle e' Hin' Hk'). lra.
Qed.

End Scatter.

Lemma rowmax_is_scat : forall (es : list entryR) (r : list R),
  rowmax_loop ar_R es r = scat rowR (fun e => Rabs (valR e)) es r.
Proof.
  induction es as [|e t IH]; intros r; cbn [rowmax_loop scat]; [reflexivity|].
  change (T ar_R) with R in *.
  destruct (nth_error r (rowR e)) as [x|]; [|reflexivity]. rewrite fmax_R. apply IH.
Qed.

Lemma colmax_is_scat : forall (es : list entryR) (r c : list R),
  (forall e, In e es -> (rowR e < length r)%nat) ->
  colmax_loop ar_R es r c = scat colR (fun e => Rabs (valR e) * nth (rowR e) r 0) es c.
Proof.
  induction es as [|e t IH]; intros r c H; cbn [colmax_loop scat]; [reflexivity|].
  change (T ar_R) with R in *.
  rewrite (nth_error_nth r _ (H e (or_introl eq_refl))).
  destruct (nth_error c (colR e)) as [x|]; [|reflexivity]. rewrite fmax_R. cbn [mul vabs ar_R]. apply IH.
  intros; apply H; right; assumption.
Qed.

(* ------------------------------------------------------------------ min / max scan, first zero *)
Lemma minmax_spec : forall v mn mx,
  minmax_loop ar_R v mn mx = (fold_left Rmin v mn, fold_left Rmax v mx).
Proof.
  induction v as [|x t IH]; intros mn mx; cbn [minmax_loop fold_left]; [reflexivity|].
  rewrite fmin_R, fmax_R. apply IH.
Qed.

Lemma fold_min_le_init : forall v mn, fold_left Rmin v mn <= mn.
Proof. induction v as [|x t IH]; intros mn; cbn; [lra|]. eapply Rle_trans; [apply IH|apply Rmin_l]. Qed.

Lemma fold_min_le : forall v mn x, In x v -> fold_left Rmin v mn <= x.
Proof.
  induction v as [|y t IH]; intros mn x H; [contradiction|]. cbn. destruct H as [-> | H].
  - eapply Rle_trans; [apply fold_min_le_init|apply Rmin_r].
  - apply IH; assumption.
Qed.

Lemma fold_min_attained : forall v mn, fold_left Rmin v mn = mn \/ In (fold_left Rmin v mn) v.
Proof.
  induction v as [|y t IH]; intros mn; [left; reflexivity|]. cbn.
  destruct (IH (Rmin mn y)) as [H | H]; [|right; right; exact H].
  rewrite H. unfold Rmin; destruct (Rle_dec mn y); [left; reflexivity|right; left; reflexivity].
Qed.

Lemma fold_max_ge_init : forall v mx, mx <= fold_left Rmax v mx.
Proof. induction v as [|x t IH]; intros mx; cbn; [lra|]. eapply Rle_trans; [apply Rmax_l|apply IH]. Qed.

Lemma fold_max_ge : forall v mx x, In x v -> x <= fold_left Rmax v mx.
Proof.
  induction v as [|y t IH]; intros mx x H; [contradiction|]. cbn. destruct H as [-> | H].
  - eapply Rle_trans; [apply Rmax_r|apply fold_max_ge_init].
  - apply IH; assumption.
Qed.

Lemma fold_max_attained : forall v mx, fold_left Rmax v mx = mx \/ In (fold_left Rmax v mx) v.
Proof.
  induction v as [|y t IH]; intros mx; [left; reflexivity|]. cbn.
  destruct (IH (Rmax mx y)) as [H | H]; [|right; right; exact H].
  rewrite H. unfold Rmax; destruct (Rle_dec mx y); [right; left; reflexivity|left; reflexivity].
Qed.

(* rcmin == 0 exactly when some scanned value is 0 (values are >= 0, the start value bignum is > 0) *)
Lemma fold_min_zero_iff v big :
  0 < big -> (forall x, In x v -> 0 <= x) -> (fold_left Rmin v big = 0 <-> In 0 v).
Proof.
  intros Hb Hpos; split.
  - intros H. destruct (fold_min_attained v big) as [E | E]; [lra|]. rewrite H in E; exact E.
  - intros H. pose proof (fold_min_le v big 0 H).
    destruct (fold_min_attained v big) as [E | E]; [lra|]. specialize (Hpos _ E). lra.
Qed.

Lemma first_zero_spec : forall v i,
  match first_zero ar_R v i with
  | Some k => exists j, k = (i + j)%nat /\ (j < length v)%nat /\ nth j v 1 = 0 /\ forall j', (j' < j)%nat -> nth j' v 1 <> 0
  | None => forall x, In x v -> x <> 0
  end.
Proof.
  induction v as [|x t IH]; intros i; cbn [first_zero]; [intros x []|].
  cbn [eqb zero ar_R]. destruct (Reqb x 0) eqn:E.
  - apply Reqb_true in E. exists 0%nat. split; [lia|]. split; [cbn; lia|]. split; [cbn; exact E|]. intros j' Hj'; lia.
  - apply Reqb_false in E. specialize (IH (S i)). change (T ar_R) with R in *. destruct (first_zero ar_R t (S i)) as [k|].
    + destruct IH as [j [Hk [Hj [Hz Hb]]]]. exists (S j). split; [lia|]. split; [simpl length; lia|]. split; [exact Hz|].
      intros [|j'] Hj'; [cbn; exact E|]. cbn. apply Hb; lia.
    + intros y [<- | Hy]; [exact E|apply IH; exact Hy].
Qed.

(* ------------------------------------------------------------------ the matrix-level notions *)
Definition wfR (A : smatrix ar_R) : Prop :=
  forall e, In e (sm_ents ar_R A) -> (rowR e < sm_nrow ar_R A)%nat /\ (colR e < sm_ncol ar_R A)%nat.
Definition row_is_zero (A : smatrix ar_R) (i : nat) : Prop :=
  forall e, In e (sm_ents ar_R A) -> rowR e = i -> valR e = 0.
Definition col_is_zero (A : smatrix ar_R) (j : nat) : Prop :=
  forall e, In e (sm_ents ar_R A) -> colR e = j -> valR e = 0.

Definition row_max (A : smatrix ar_R) (i : nat) : R := smax rowR (fun e => Rabs (valR e)) (sm_ents ar_R A) i 0.
Definition col_max (A : smatrix ar_R) (r : list R) (j : nat) : R :=
  smax colR (fun e => Rabs (valR e) * nth (rowR e) r 0) (sm_ents ar_R A) j 0.

Lemma row_max_zero_iff A i : row_max A i = 0 <-> row_is_zero A i.
Proof.
  unfold row_max, row_is_zero. rewrite smax_zero_iff by (intros; apply Rabs_pos).
  split; intros H e Hin Hk; specialize (H e Hin Hk).
  - destruct (Req_dec (valR e) 0) as [E|E]; [exact E|]. apply Rabs_no_R0 in E. contradiction.
  - rewrite H. apply Rabs_R0.
Qed.

Lemma clip_range sml big x : 0 < sml -> sml <= big -> sml <= Rmin (Rmax x sml) big <= big.
Proof.
  intros Hs Hb. split.
  - apply Rmin_glb; [apply Rmax_r|exact Hb].
  - apply Rmin_r.
Qed.

Lemma invert_clip_R sml big x : invert_clip ar_R sml big x = 1 / Rmin (Rmax x sml) big.
Proof. unfold invert_clip. rewrite fmin_R, fmax_R. reflexivity. Qed.

Lemma invert_clip_range sml big x :
  0 < sml -> sml <= big -> 0 < invert_clip ar_R sml big x /\ 1 / big <= invert_clip ar_R sml big x <= 1 / sml.
Proof.
  intros Hs Hb. rewrite invert_clip_R. destruct (clip_range sml big x Hs Hb) as [H1 H2].
  set (c := Rmin (Rmax x sml) big) in *. assert (Hc : 0 < c) by lra. assert (Hbig : 0 < big) by lra.
  split; [apply Rdiv_lt_0_compat; lra|]. split.
  - unfold Rdiv. rewrite !Rmult_1_l. apply Rinv_le_contravar; lra.
  - unfold Rdiv. rewrite !Rmult_1_l. apply Rinv_le_contravar; lra.
Qed.

Lemma invert_clip_unclipped sml big x : sml <= x <= big -> 0 < sml -> invert_clip ar_R sml big x * x = 1.
Proof.
  intros [H1 H2] Hs. rewrite invert_clip_R.
  rewrite Rmax_left by lra. rewrite Rmin_left by lra. field. lra.
Qed.

(* nth of a map under an in-range index *)
Lemma nth_map_R (f : R -> R) (l : list R) i : (i < length l)%nat -> nth i (map f l) 0 = f (nth i l 0).
Proof. revert i; induction l as [|h t IH]; intros [|i] H; cbn in *; try lia; auto. apply IH; lia. Qed.

(* ------------------------------------------------------------------ what ?gsequ computes, step by step *)
Record gsequ_facts (sml : R) (A : smatrix ar_R) (g : gsequ_out ar_R) : Prop := mkGF {
  gf_rows_zero : forall i, (i < sm_nrow ar_R A)%nat -> row_is_zero A i -> (forall k, (k < i)%nat -> ~ row_is_zero A k) ->
                 g_info ar_R g = (Z.of_nat i + 1)%Z;
  gf_norowzero : (forall i, (i < sm_nrow ar_R A)%nat -> ~ row_is_zero A i) ->
                 length (g_r ar_R g) = sm_nrow ar_R A /\
                 (forall i, (i < sm_nrow ar_R A)%nat -> nth i (g_r ar_R g) 0 = invert_clip ar_R sml (1 / sml) (row_max A i)) /\
                 (forall j, (j < sm_ncol ar_R A)%nat -> col_max A (g_r ar_R g) j = 0 ->
                            (forall k, (k < j)%nat -> col_max A (g_r ar_R g) k <> 0) ->
                            g_info ar_R g = (Z.of_nat (sm_nrow ar_R A) + Z.of_nat j + 1)%Z) /\
                 ((forall j, (j < sm_ncol ar_R A)%nat -> col_max A (g_r ar_R g) j <> 0) ->
                  g_info ar_R g = 0%Z /\ length (g_c ar_R g) = sm_ncol ar_R A /\
                  forall j, (j < sm_ncol ar_R A)%nat ->
                            nth j (g_c ar_R g) 0 = invert_clip ar_R sml (1 / sml) (col_max A (g_r ar_R g) j));
  gf_amax : (forall e, In e (sm_ents ar_R A) -> Rabs (valR e) <= g_amax ar_R g) /\
            (g_amax ar_R g = 0 \/ exists e, In e (sm_ents ar_R A) /\ Rabs (valR e) = g_amax ar_R g)
}.

Lemma in_nth_R (l : list R) x : In x l -> exists i, (i < length l)%nat /\ nth i l 0 = x.
Proof. intros H. destruct (In_nth l x 0 H) as [i [Hi Hn]]. exists i; auto. Qed.

Lemma repeat_nth0 n i : nth i (repeat 0 n) 0 = 0.
Proof. revert i; induction n as [|n IH]; intros [|i]; cbn; auto. Qed.

Lemma gsequ_facts_hold sml A r0 c0 rc0 cc0 am0 :
  0 < sml -> wfR A -> (0 < sm_nrow ar_R A)%nat -> (0 < sm_ncol ar_R A)%nat ->
  exists g, gsequ ar_R sml A r0 c0 rc0 cc0 am0 = Some g /\ gsequ_facts sml A g.
Proof.
  intros Hs Hwf Hn Hm. unfold gsequ.
  replace (Nat.eqb (sm_nrow ar_R A) 0) with false by (symmetry; apply Nat.eqb_neq; lia).
  replace (Nat.eqb (sm_ncol ar_R A) 0) with false by (symmetry; apply Nat.eqb_neq; lia).
  cbn [orb]. cbn [zero one div ar_R]. change (T ar_R) with R in *.
  set (big := 1 / sml). assert (Hbig : 0 < big) by (unfold big; apply Rdiv_lt_0_compat; lra).
  rewrite rowmax_is_scat.
  destruct (scat_spec rowR (fun e => Rabs (valR e)) (sm_ents ar_R A) (repeat 0 (sm_nrow ar_R A))) as [r1 [Hr1 [Hl1 Hn1]]].
  { intros e He. rewrite repeat_length. apply Hwf; exact He. }
  rewrite Hr1. rewrite repeat_length in Hl1, Hn1.
  assert (Hrm : forall i, (i < sm_nrow ar_R A)%nat -> nth i r1 0 = row_max A i).
  { intros i Hi. rewrite Hn1 by exact Hi. rewrite repeat_nth0. reflexivity. }
  assert (Hr1pos : forall x, In x r1 -> 0 <= x).
  { intros x Hx. destruct (in_nth_R _ _ Hx) as [i [Hi <-]]. rewrite Hl1 in Hi. rewrite Hrm by exact Hi.
    unfold row_max. apply smax_ge_init. }
  rewrite minmax_spec. cbn [eqb zero ar_R].
  set (rcmin := fold_left Rmin r1 big). set (rcmax := fold_left Rmax r1 0).
  assert (Hamax : (forall e, In e (sm_ents ar_R A) -> Rabs (valR e) <= rcmax) /\
                  (rcmax = 0 \/ exists e, In e (sm_ents ar_R A) /\ Rabs (valR e) = rcmax)).
  { split.
    - intros e He. destruct (Hwf e He) as [Hre _].
      apply Rle_trans with (nth (rowR e) r1 0).
      + rewrite Hrm by exact Hre. unfold row_max. apply (smax_ge rowR (fun e => Rabs (valR e))); [exact He|reflexivity].
      + apply fold_max_ge. apply nth_In. lia.
    - destruct (fold_max_attained r1 0) as [E | E]; [left; exact E|].
      destruct (in_nth_R _ _ E) as [i [Hi Hv]]. rewrite Hl1 in Hi. rewrite Hrm in Hv by exact Hi.
      unfold row_max in Hv.
      destruct (smax_attained rowR (fun e => Rabs (valR e)) (sm_ents ar_R A) i 0) as [E0 | [e [Hin [Hk E1]]]].
      + left. fold rcmax in Hv. lra.
      + right. exists e. split; [exact Hin|]. fold rcmax in Hv. lra. }
  (* does a zero row exist? *)
  destruct (Reqb rcmin 0) eqn:Ez.
  - (* some row maximum is zero: the first one is reported *)
    apply Reqb_true in Ez. unfold rcmin in Ez. apply (fold_min_zero_iff r1 big Hbig Hr1pos) in Ez.
    pose proof (first_zero_spec r1 0) as Hfz.
    destruct (first_zero ar_R r1 0) as [k|]; [|exfalso; exact (Hfz 0 Ez eq_refl)].
    destruct Hfz as [j [Hk [Hj [Hzj Hbj]]]]. cbn in Hk. subst k. change (T ar_R) with R in *.
    eexists; split; [reflexivity|]. rewrite Hl1 in Hj.
    assert (Hzrow : row_is_zero A j).
    { apply row_max_zero_iff. rewrite <- Hrm by exact Hj. rewrite (nth_indep r1 0 1) by lia. exact Hzj. }
    constructor; cbn [g_info g_r g_c g_amax]; [| |exact Hamax].
    + intros i Hi Hzi Hfirst.
      assert (i = j).
      { destruct (lt_eq_lt_dec i j) as [[L|E]|L]; [|exact E|].
        - exfalso. apply (Hbj i L). rewrite (nth_indep r1 1 0) by lia. rewrite Hrm by exact Hi. apply row_max_zero_iff; exact Hzi.
        - exfalso. exact (Hfirst j L Hzrow). }
      subst i; reflexivity.
    + intros Hnone. exfalso. exact (Hnone j Hj Hzrow).
  - (* no zero row: invert, then the columns *)
    apply Reqb_false in Ez.
    assert (Hnz : ~ In 0 r1) by (intro H; apply Ez; apply (fold_min_zero_iff r1 big Hbig Hr1pos); exact H).
    cbn [negb].
    set (r2 := map (invert_clip ar_R sml big) r1).
    assert (Hl2 : length r2 = sm_nrow ar_R A) by (unfold r2; rewrite map_length; exact Hl1).
    assert (Hr2 : forall i, (i < sm_nrow ar_R A)%nat -> nth i r2 0 = invert_clip ar_R sml big (row_max A i)).
    { intros i Hi. unfold r2. rewrite nth_map_R by lia. rewrite Hrm by exact Hi. reflexivity. }
    change (T ar_R) with R in *. change (map (invert_clip ar_R sml big) r1) with r2.
    rewrite colmax_is_scat by (intros e He; change (T ar_R) with R in *; rewrite Hl2; apply Hwf; exact He).
    destruct (scat_spec colR (fun e => Rabs (valR e) * nth (rowR e) r2 0) (sm_ents ar_R A) (repeat 0 (sm_ncol ar_R A)))
      as [c1 [Hc1 [Hlc Hnc]]].
    { intros e He. rewrite repeat_length. apply Hwf; exact He. }
    rewrite Hc1. rewrite repeat_length in Hlc, Hnc.
    assert (Hcm : forall j, (j < sm_ncol ar_R A)%nat -> nth j c1 0 = col_max A r2 j).
    { intros j Hj. rewrite Hnc by exact Hj. rewrite repeat_nth0. reflexivity. }
    assert (Hc1pos : forall x, In x c1 -> 0 <= x).
    { intros x Hx. destruct (in_nth_R _ _ Hx) as [j [Hj <-]]. rewrite Hlc in Hj. rewrite Hcm by exact Hj.
      unfold col_max. apply smax_ge_init. }
    rewrite minmax_spec.
    set (ccmin := fold_left Rmin c1 big). set (ccmax := fold_left Rmax c1 0).
    assert (Hnorow : forall i, (i < sm_nrow ar_R A)%nat -> row_is_zero A i -> False).
    { intros i Hi Hz. apply Hnz. apply row_max_zero_iff in Hz. rewrite <- Hrm in Hz by exact Hi. rewrite <- Hz. apply nth_In; lia. }
    destruct (Reqb ccmin 0) eqn:Ecz.
    + apply Reqb_true in Ecz. unfold ccmin in Ecz. apply (fold_min_zero_iff c1 big Hbig Hc1pos) in Ecz.
      pose proof (first_zero_spec c1 0) as Hfz.
      destruct (first_zero ar_R c1 0) as [k|]; [|exfalso; exact (Hfz 0 Ecz eq_refl)].
      destruct Hfz as [j [Hk [Hj [Hzj Hbj]]]]. cbn in Hk. subst k. change (T ar_R) with R in *. rewrite Hlc in Hj.
      eexists; split; [reflexivity|].
      constructor; cbn [g_info g_r g_c g_amax]; [| |exact Hamax].
      * intros i Hi Hzi _. exfalso. exact (Hnorow i Hi Hzi).
      * intros _. split; [exact Hl2|]. split; [exact Hr2|]. split.
        -- intros j' Hj' Hz' Hfirst.
           assert (j' = j).
           { destruct (lt_eq_lt_dec j' j) as [[L|E]|L]; [|exact E|].
             - exfalso. apply (Hbj j' L). rewrite (nth_indep c1 1 0) by lia. rewrite Hcm by exact Hj'. exact Hz'.
             - exfalso. apply (Hfirst j L). rewrite <- Hcm by exact Hj. rewrite (nth_indep c1 0 1) by lia. exact Hzj. }
           subst j'. reflexivity.
        -- intros Hnone. exfalso. apply (Hnone j Hj). rewrite <- Hcm by exact Hj. rewrite (nth_indep c1 0 1) by lia. exact Hzj.
    + apply Reqb_false in Ecz. cbn [negb].
      assert (Hcnz : ~ In 0 c1) by (intro H; apply Ecz; apply (fold_min_zero_iff c1 big Hbig Hc1pos); exact H).
      eexists; split; [reflexivity|].
      constructor; cbn [g_info g_r g_c g_amax]; [| |exact Hamax].
      * intros i Hi Hzi _. exfalso. exact (Hnorow i Hi Hzi).
      * intros _. split; [exact Hl2|]. split; [exact Hr2|]. split.
        -- intros j Hj Hz _. exfalso. apply Hcnz. rewrite <- Hz. rewrite <- Hcm by exact Hj. apply nth_In; lia.
        -- intros _. split; [reflexivity|]. split; [rewrite map_length; exact Hlc|].
           intros j Hj. rewrite nth_map_R by lia. rewrite Hcm by exact Hj. reflexivity.
Qed.

Lemma sml_le_big sml : 0 < sml -> sml <= 1 -> sml <= 1 / sml.
Proof.
  intros H0 H1. apply Rle_trans with 1; [lra|]. apply (Rmult_le_reg_r sml); [lra|].
  unfold Rdiv. rewrite Rmult_assoc, Rinv_l by lra. lra.
Qed.

(* a column of diag(R)*A is zero exactly when the column of A is (every R_i is positive) *)
Lemma col_max_zero_iff A r j :
  (forall e, In e (sm_ents ar_R A) -> 0 < nth (rowR e) r 0) ->
  (col_max A r j = 0 <-> col_is_zero A j).
Proof.
  intros Hpos. unfold col_max, col_is_zero.
  rewrite smax_zero_iff.
  2:{ intros e He. apply Rmult_le_pos; [apply Rabs_pos|]. specialize (Hpos e He). lra. }
  split; intros H e Hin Hk; specialize (H e Hin Hk).
  - specialize (Hpos e Hin). destruct (Req_dec (valR e) 0) as [E|E]; [exact E|].
    apply Rabs_no_R0 in E. apply Rmult_integral in H. destruct H; [contradiction|lra].
  - rewrite H, Rabs_R0. ring.
Qed.

(* ================================================================== T gsequ_zero_index *)
Theorem gsequ_zero_index_proof :
  forall sml A r0 c0 rc0 cc0 am0,
    0 < sml -> sml <= 1 -> wfR A -> (0 < sm_nrow ar_R A)%nat -> (0 < sm_ncol ar_R A)%nat ->
    exists g, gsequ ar_R sml A r0 c0 rc0 cc0 am0 = Some g /\
      (* the first exactly-zero row i is reported as i+1 *)
      (forall i, (i < sm_nrow ar_R A)%nat -> row_is_zero A i -> (forall k, (k < i)%nat -> ~ row_is_zero A k) ->
                 g_info ar_R g = (Z.of_nat i + 1)%Z) /\
      (* no zero row: the first exactly-zero column j is reported as nrow+j+1 *)
      ((forall i, (i < sm_nrow ar_R A)%nat -> ~ row_is_zero A i) ->
       forall j, (j < sm_ncol ar_R A)%nat -> col_is_zero A j -> (forall k, (k < j)%nat -> ~ col_is_zero A k) ->
                 g_info ar_R g = (Z.of_nat (sm_nrow ar_R A) + Z.of_nat j + 1)%Z) /\
      (* neither: info = 0 *)
      ((forall i, (i < sm_nrow ar_R A)%nat -> ~ row_is_zero A i) ->
       (forall j, (j < sm_ncol ar_R A)%nat -> ~ col_is_zero A j) -> g_info ar_R g = 0%Z).
Proof.
  intros sml A r0 c0 rc0 cc0 am0 Hs Hs1 Hwf Hn Hm.
  destruct (gsequ_facts_hold sml A r0 c0 rc0 cc0 am0 Hs Hwf Hn Hm) as [g [Hg [F1 F2]]].
  exists g. split; [exact Hg|]. split; [exact F1|].
  assert (Hb : sml <= 1 / sml) by (apply sml_le_big; assumption).
  assert (Hpos : (forall i, (i < sm_nrow ar_R A)%nat -> ~ row_is_zero A i) ->
                 forall e, In e (sm_ents ar_R A) -> 0 < nth (rowR e) (g_r ar_R g) 0).
  { intros Hnr e He. destruct (F2 Hnr) as [_ [Hr _]]. rewrite Hr by (apply Hwf; exact He).
    apply invert_clip_range; assumption. }
  split.
  - intros Hnr j Hj Hz Hfirst. destruct (F2 Hnr) as [_ [_ [Hc _]]].
    apply Hc; [exact Hj|apply col_max_zero_iff; [apply Hpos; exact Hnr|exact Hz]|].
    intros k Hk E. apply (Hfirst k Hk). apply (col_max_zero_iff A (g_r ar_R g) k (Hpos Hnr)). exact E.
  - intros Hnr Hnc. destruct (F2 Hnr) as [_ [_ [_ Hc]]].
    apply Hc. intros j Hj E. apply (Hnc j Hj). apply (col_max_zero_iff A (g_r ar_R g) j (Hpos Hnr)). exact E.
Qed.

(* ------------------------------------------------------------------ info = 0: what R and C are *)
Lemma gsequ_info0_facts :
  forall sml A r0 c0 rc0 cc0 am0 g,
    0 < sml -> wfR A -> (0 < sm_nrow ar_R A)%nat -> (0 < sm_ncol ar_R A)%nat ->
    gsequ ar_R sml A r0 c0 rc0 cc0 am0 = Some g -> g_info ar_R g = 0%Z ->
    length (g_r ar_R g) = sm_nrow ar_R A /\ length (g_c ar_R g) = sm_ncol ar_R A /\
    (forall i, (i < sm_nrow ar_R A)%nat -> nth i (g_r ar_R g) 0 = invert_clip ar_R sml (1 / sml) (row_max A i)) /\
    (forall j, (j < sm_ncol ar_R A)%nat -> nth j (g_c ar_R g) 0 = invert_clip ar_R sml (1 / sml) (col_max A (g_r ar_R g) j)).
Proof.
  intros sml A r0 c0 rc0 cc0 am0 g Hs Hwf Hn Hm Hg Hinfo.
  destruct (gsequ_facts_hold sml A r0 c0 rc0 cc0 am0 Hs Hwf Hn Hm) as [g' [Hg' [F1 F2]]].
  rewrite Hg in Hg'. inversion Hg'; subst g'; clear Hg'.
  (* info = 0 excludes a zero row ... *)
  assert (Hnr : forall i, (i < sm_nrow ar_R A)%nat -> ~ row_is_zero A i).
  { intros i Hi Hz.
    assert (Hex : exists k, (k <= i)%nat /\ row_is_zero A k /\ forall k', (k' < k)%nat -> ~ row_is_zero A k').
    { clear - Hz. induction i as [i IH] using lt_wf_ind.
      destruct (classic_first i (row_is_zero A)) as [Hnone | [k [Hk Hzk]]].
      - exists i. split; [lia|]. split; [exact Hz|exact Hnone].
      - destruct (IH k Hk Hzk) as [k0 [Hk0 [Hz0 Hf0]]]. exists k0. split; [lia|]. split; assumption. }
    destruct Hex as [k [Hk [Hzk Hfk]]]. pose proof (F1 k ltac:(lia) Hzk Hfk) as E. rewrite Hinfo in E. lia. }
  destruct (F2 Hnr) as [Hl [Hr [Hcz Hc]]].
  (* ... and a zero column of diag(R)*A *)
  assert (Hncz : forall j, (j < sm_ncol ar_R A)%nat -> col_max A (g_r ar_R g) j <> 0).
  { intros j Hj Hz.
    assert (Hex : exists k, (k <= j)%nat /\ col_max A (g_r ar_R g) k = 0 /\ forall k', (k' < k)%nat -> col_max A (g_r ar_R g) k' <> 0).
    { clear - Hz. induction j as [j IH] using lt_wf_ind.
      destruct (classic_first j (fun k => col_max A (g_r ar_R g) k = 0)) as [Hnone | [k [Hk Hzk]]].
      - exists j. split; [lia|]. split; [exact Hz|exact Hnone].
      - destruct (IH k Hk Hzk) as [k0 [Hk0 [Hz0 Hf0]]]. exists k0. split; [lia|]. split; assumption. }
    destruct Hex as [k [Hk [Hzk Hfk]]]. pose proof (Hcz k ltac:(lia) Hzk Hfk) as E. rewrite Hinfo in E. lia. }
  destruct (Hc Hncz) as [_ [Hlc Hcv]].
  split; [exact Hl|]. split; [exact Hlc|]. split; [exact Hr|exact Hcv].
Qed.

(* ================================================================== T gsequ_positive_range *)
Theorem gsequ_scale_range_proof :
  forall sml A r0 c0 rc0 cc0 am0 g,
    0 < sml -> sml <= 1 -> wfR A -> (0 < sm_nrow ar_R A)%nat -> (0 < sm_ncol ar_R A)%nat ->
    gsequ ar_R sml A r0 c0 rc0 cc0 am0 = Some g -> g_info ar_R g = 0%Z ->
    length (g_r ar_R g) = sm_nrow ar_R A /\ length (g_c ar_R g) = sm_ncol ar_R A /\
    (forall i, (i < sm_nrow ar_R A)%nat -> 0 < nth i (g_r ar_R g) 0 /\ sml <= nth i (g_r ar_R g) 0 <= 1 / sml) /\
    (forall j, (j < sm_ncol ar_R A)%nat -> 0 < nth j (g_c ar_R g) 0 /\ sml <= nth j (g_c ar_R g) 0 <= 1 / sml).
Proof.
  intros sml A r0 c0 rc0 cc0 am0 g Hs Hs1 Hwf Hn Hm Hg Hinfo.
  destruct (gsequ_info0_facts sml A r0 c0 rc0 cc0 am0 g Hs Hwf Hn Hm Hg Hinfo) as [Hl [Hlc [Hr Hcv]]].
  assert (Hb : sml <= 1 / sml) by (apply sml_le_big; assumption).
  assert (Hinv : 1 / (1 / sml) = sml) by (field; lra).
  split; [exact Hl|]. split; [exact Hlc|]. split.
  - intros i Hi. rewrite Hr by exact Hi.
    destruct (invert_clip_range sml (1 / sml) (row_max A i) Hs Hb) as [P [Q1 Q2]]. rewrite Hinv in Q1. auto.
  - intros j Hj. rewrite Hcv by exact Hj.
    destruct (invert_clip_range sml (1 / sml) (col_max A (g_r ar_R g) j) Hs Hb) as [P [Q1 Q2]]. rewrite Hinv in Q1. auto.
Qed.

(* ================================================================== T gsequ_unit_max (exact arithmetic) *)
(* unless clipped, the largest magnitude in every row of diag(R)*A is 1, and then the largest magnitude in every
   column of diag(R)*A*diag(C) is 1 *)
Theorem gsequ_unit_max_exact_proof :
  forall sml A r0 c0 rc0 cc0 am0 g,
    0 < sml -> sml <= 1 -> wfR A -> (0 < sm_nrow ar_R A)%nat -> (0 < sm_ncol ar_R A)%nat ->
    gsequ ar_R sml A r0 c0 rc0 cc0 am0 = Some g -> g_info ar_R g = 0%Z ->
    (forall i m, (i < sm_nrow ar_R A)%nat ->
       is_largest rowR (fun e => Rabs (valR e)) (sm_ents ar_R A) i m -> sml <= m <= 1 / sml ->
       is_largest rowR (fun e => Rabs (nth i (g_r ar_R g) 0 * valR e)) (sm_ents ar_R A) i 1) /\
    (forall j m, (j < sm_ncol ar_R A)%nat ->
       is_largest colR (fun e => Rabs (nth (rowR e) (g_r ar_R g) 0 * valR e)) (sm_ents ar_R A) j m -> sml <= m <= 1 / sml ->
       is_largest colR (fun e => Rabs (nth (rowR e) (g_r ar_R g) 0 * valR e * nth j (g_c ar_R g) 0)) (sm_ents ar_R A) j 1).
Proof.
  intros sml A r0 c0 rc0 cc0 am0 g Hs Hs1 Hwf Hn Hm Hg Hinfo.
  destruct (gsequ_info0_facts sml A r0 c0 rc0 cc0 am0 g Hs Hwf Hn Hm Hg Hinfo) as [Hl [Hlc [Hr Hcv]]].
  assert (Hb : sml <= 1 / sml) by (apply sml_le_big; assumption).
  assert (Hrpos : forall i, (i < sm_nrow ar_R A)%nat -> 0 < nth i (g_r ar_R g) 0).
  { intros i Hi. rewrite Hr by exact Hi. apply invert_clip_range; assumption. }
  split.
  - intros i m Hi Hlg [Hm1 Hm2].
    assert (Hrm : row_max A i = m).
    { unfold row_max. apply smax_is_largest; [intros; apply Rabs_pos|lra|exact Hlg]. }
    assert (HR : nth i (g_r ar_R g) 0 * m = 1).
    { rewrite Hr by exact Hi. rewrite Hrm. apply invert_clip_unclipped; [split; assumption|exact Hs]. }
    pose proof (Hrpos i Hi) as HRp.
    destruct Hlg as [Hle [e [Hin [Hk He]]]]. split.
    + intros e' Hin' Hk'. rewrite Rabs_mult, (Rabs_pos_eq (nth i (g_r ar_R g) 0)) by lra.
      specialize (Hle e' Hin' Hk'). rewrite <- HR. apply Rmult_le_compat_l; lra.
    + exists e. split; [exact Hin|]. split; [exact Hk|].
      rewrite Rabs_mult, (Rabs_pos_eq (nth i (g_r ar_R g) 0)) by lra. rewrite He. exact HR.
  - intros j m Hj Hlg [Hm1 Hm2].
    (* on stored entries  |R_i * a| = |a| * R_i  because R_i > 0 *)
    assert (Heqw : forall e, In e (sm_ents ar_R A) ->
                   Rabs (nth (rowR e) (g_r ar_R g) 0 * valR e) = Rabs (valR e) * nth (rowR e) (g_r ar_R g) 0).
    { intros e He. pose proof (Hrpos (rowR e) (proj1 (Hwf e He))).
      rewrite Rabs_mult, (Rabs_pos_eq (nth (rowR e) (g_r ar_R g) 0)) by lra. ring. }
    assert (Hcm : col_max A (g_r ar_R g) j = m).
    { unfold col_max. apply smax_is_largest.
      - intros e He. rewrite <- Heqw by exact He. apply Rabs_pos.
      - lra.
      - destruct Hlg as [Hle [e [Hin [Hk He]]]]. split.
        + intros e' Hin' Hk'. rewrite <- Heqw by exact Hin'. apply Hle; assumption.
        + exists e. split; [exact Hin|]. split; [exact Hk|]. rewrite <- Heqw by exact Hin. exact He. }
    assert (HC : nth j (g_c ar_R g) 0 * m = 1).
    { rewrite Hcv by exact Hj. rewrite Hcm. apply invert_clip_unclipped; [split; assumption|exact Hs]. }
    assert (HCp : 0 < nth j (g_c ar_R g) 0).
    { rewrite Hcv by exact Hj. apply invert_clip_range; assumption. }
    destruct Hlg as [Hle [e [Hin [Hk He]]]]. split.
    + intros e' Hin' Hk'. rewrite Rabs_mult, (Rabs_pos_eq (nth j (g_c ar_R g) 0)) by lra.
      specialize (Hle e' Hin' Hk'). rewrite <- HC. rewrite (Rmult_comm (nth j (g_c ar_R g) 0) m).
      apply Rmult_le_compat_r; lra.
    + exists e. split; [exact Hin|]. split; [exact Hk|].
      rewrite Rabs_mult, (Rabs_pos_eq (nth j (g_c ar_R g) 0)) by lra. rewrite He. lra.
Qed.

(* non-vacuity: a 2x2 matrix with entries 4, 1/2 (row 0) and 2 (row 1) satisfies every hypothesis *)
Definition exA : smatrix ar_R :=
  mkSM ar_R 2 2 [mkEntry ar_R 0 0 4; mkEntry ar_R 1 0 (-2); mkEntry ar_R 0 1 (1 / 2)].

Example exA_hypotheses :
  wfR exA /\ (0 < sm_nrow ar_R exA)%nat /\ (0 < sm_ncol ar_R exA)%nat /\
  (forall i, (i < 2)%nat -> ~ row_is_zero exA i) /\ (forall j, (j < 2)%nat -> ~ col_is_zero exA j) /\
  is_largest rowR (fun e => Rabs (valR e)) (sm_ents ar_R exA) 0 4 /\ (1 / 16 <= 4 <= 1 / (1 / 16)).
Proof.
  unfold wfR, row_is_zero, col_is_zero, is_largest, exA; cbn.
  split; [intros e [<-|[<-|[<-|[]]]]; cbn; lia|]. split; [lia|]. split; [lia|]. split.
  { intros i Hi Hz. destruct i as [|[|i]]; [|clear Hi|lia].
    - specialize (Hz (mkEntry ar_R 0 0 4) (or_introl eq_refl) eq_refl). cbn in Hz. lra.
    - specialize (Hz (mkEntry ar_R 1 0 (-2)) (or_intror (or_introl eq_refl)) eq_refl). cbn in Hz. lra. }
  split.
  { intros j Hj Hz. destruct j as [|[|j]]; [|clear Hj|lia].
    - specialize (Hz (mkEntry ar_R 0 0 4) (or_introl eq_refl) eq_refl). cbn in Hz. lra.
    - specialize (Hz (mkEntry ar_R 0 1 (1 / 2)) (or_intror (or_intror (or_introl eq_refl))) eq_refl). cbn in Hz. lra. }
  split; [|lra]. split.
  - intros e [<-|[<-|[<-|[]]]] Hk; cbn in *; try lia.
    + rewrite Rabs_pos_eq; lra.
    + rewrite Rabs_pos_eq; lra.
  - exists (mkEntry ar_R 0 0 4). cbn. split; [left; reflexivity|]. split; [reflexivity|]. rewrite Rabs_pos_eq; lra.
Qed.

(* ================================================================== T amax is the largest magnitude *)
Theorem gsequ_amax_true_proof :
  forall sml A r0 c0 rc0 cc0 am0,
    0 < sml -> wfR A -> (0 < sm_nrow ar_R A)%nat -> (0 < sm_ncol ar_R A)%nat ->
    exists g, gsequ ar_R sml A r0 c0 rc0 cc0 am0 = Some g /\
      (forall e, In e (sm_ents ar_R A) -> Rabs (valR e) <= g_amax ar_R g) /\
      (g_amax ar_R g = 0 \/ exists e, In e (sm_ents ar_R A) /\ Rabs (valR e) = g_amax ar_R g).
Proof.
  intros sml A r0 c0 rc0 cc0 am0 Hs Hwf Hn Hm.
  destruct (gsequ_facts_hold sml A r0 c0 rc0 cc0 am0 Hs Hwf Hn Hm) as [g [Hg F]].
  exists g. split; [exact Hg|]. exact (gf_amax _ _ _ F).
Qed.

(* The full "up to rounding" statement, kept for reference.  It is about the same model instantiated with rounded
   operations (rnd o op, relative error u, no underflow); it is NOT proved here: the exact-arithmetic version above is,
   and the rounded version is evaluated on the C outputs by the rational oracle of checks/c11.py. *)
Definition ar_rnd (rnd : R -> R) : arith :=
  mkArith R R 0 1 (fun a b => rnd (a * b)) (fun a b => rnd (a / b)) Rltb Rleb Reqb Rabs (fun a s => rnd (a * s)).

Definition largest_of {E : Type} (sel : E -> Prop) (f : E -> R) (es : list E) (m : R) : Prop :=
  (forall e, In e es -> sel e -> f e <= m) /\ (exists e, In e es /\ sel e /\ f e = m).

Definition gsequ_unit_max_rounded_full : Prop :=
  forall (rnd : R -> R) (u : R),
    0 <= u < / 4 -> (forall x, Rabs (rnd x - x) <= u * Rabs x) ->
    forall sml (A : smatrix (ar_rnd rnd)) (r0 c0 : list R) (rc0 cc0 am0 : R) (g : gsequ_out (ar_rnd rnd)),
      0 < sml -> sml <= 1 ->
      (forall e : entry (ar_rnd rnd), In e (sm_ents (ar_rnd rnd) A) ->
         (e_row (ar_rnd rnd) e < sm_nrow (ar_rnd rnd) A)%nat /\ (e_col (ar_rnd rnd) e < sm_ncol (ar_rnd rnd) A)%nat) ->
      (0 < sm_nrow (ar_rnd rnd) A)%nat -> (0 < sm_ncol (ar_rnd rnd) A)%nat ->
      gsequ (ar_rnd rnd) sml A r0 c0 rc0 cc0 am0 = Some g -> g_info (ar_rnd rnd) g = 0%Z ->
      let R' := (g_r (ar_rnd rnd) g : list R) in
      let C' := (g_c (ar_rnd rnd) g : list R) in
      let row := (e_row (ar_rnd rnd) : entry (ar_rnd rnd) -> nat) in
      let col := (e_col (ar_rnd rnd) : entry (ar_rnd rnd) -> nat) in
      let val := (e_val (ar_rnd rnd) : entry (ar_rnd rnd) -> R) in
      (forall i m, (i < sm_nrow (ar_rnd rnd) A)%nat ->
         largest_of (fun e => row e = i) (fun e => Rabs (val e)) (sm_ents (ar_rnd rnd) A) m -> sml <= m <= 1 / sml ->
         exists m', largest_of (fun e => row e = i) (fun e => Rabs (nth i R' 0 * val e)) (sm_ents (ar_rnd rnd) A) m' /\
                    Rabs (m' - 1) <= u) /\
      (forall j m, (j < sm_ncol (ar_rnd rnd) A)%nat ->
         largest_of (fun e => col e = j) (fun e => Rabs (nth (row e) R' 0 * val e)) (sm_ents (ar_rnd rnd) A) m ->
         sml * (1 + 2 * u) <= m <= (1 / sml) * (1 - 2 * u) ->
         exists m', largest_of (fun e => col e = j) (fun e => Rabs (nth (row e) R' 0 * val e * nth j C' 0)) (sm_ents (ar_rnd rnd) A) m' /\
                    Rabs (m' - 1) <= 3 * u).
