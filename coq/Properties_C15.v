From SLU Require Import Consts ArgCheckModel ArgCheckProofs ArgCheckGen ArgCheckTie.
Require Import ZArith List Bool QArith.
Import ListNotations.
Local Open Scope Z_scope.

Theorem gssvx_first_offender :
  forall p a, gssvx_wf a -> gssvx_check p a = Some (spec_info (doc_gssvx p) a).
Proof. exact gssvx_first_offender_proof. Qed.
Print Assumptions gssvx_first_offender.

Theorem gscon_first_offender : forall p a, gscon_check p a = spec_info (doc_gscon p) a.
Proof. exact gscon_first_offender_proof. Qed.
Print Assumptions gscon_first_offender.

Theorem gsequ_first_offender : forall p A, gsequ_check p A = spec_info (doc_gsequ p) A.
Proof. exact gsequ_first_offender_proof. Qed.
Print Assumptions gsequ_first_offender.

Theorem gssv_first_offender_partial :
  forall p a, dn_types p (gv_B a) = true -> (m_nr (gv_A a) = 0 -> 1 <= m_lda (gv_B a)) ->
              gssv_check p a = spec_info (doc_gssv p) a.
Proof. exact gssv_first_offender_partial_proof. Qed.
Print Assumptions gssv_first_offender_partial.

Theorem gssv_first_offender_refuted :
  exists p a, gssv_check p a = 0 /\ spec_info (doc_gssv p) a = -7.
Proof. exact gssv_first_offender_refuted_proof. Qed.
Print Assumptions gssv_first_offender_refuted.

Theorem gstrs_first_offender_partial :
  forall p a, l_types p (gt_L a) = true -> u_types p (gt_U a) = true -> dn_types p (gt_B a) = true ->
              0 <= m_nc (gt_B a) ->
              gstrs_check p a = gstrs_renumber (spec_info (doc_gstrs p) a).
Proof. exact gstrs_first_offender_partial_proof. Qed.
Print Assumptions gstrs_first_offender_partial.

Theorem gstrs_first_offender_refuted :
  exists p a, spec_info (doc_gstrs p) a = -2 /\ gstrs_check p a = -3.
Proof. exact gstrs_first_offender_refuted_proof. Qed.
Print Assumptions gstrs_first_offender_refuted.

Theorem gstrs_final_is_own_check : forall p a, gstrs_final_info p a = gstrs_check p a.
Proof. exact gstrs_final_is_own_check_proof. Qed.
Print Assumptions gstrs_final_is_own_check.

Theorem gsrfs_first_offender_partial :
  forall p a, 0 <= m_nc (gr_B a) -> m_nc (gr_X a) = m_nc (gr_B a) ->
              gsrfs_check p a = spec_info (doc_gsrfs p) a.
Proof. exact gsrfs_first_offender_partial_proof. Qed.
Print Assumptions gsrfs_first_offender_partial.

Theorem gsrfs_first_offender_refuted :
  exists p a, spec_info (doc_gsrfs p) a = -10 /\ gsrfs_check p a = 0.
Proof. exact gsrfs_first_offender_refuted_proof. Qed.
Print Assumptions gsrfs_first_offender_refuted.

Theorem trsv_first_offender_partial :
  forall p a, is_letter (tv_trans a) ch_C = false ->
              l_types p (tv_L a) = true -> u_types p (tv_U a) = true ->
              trsv_check p a = spec_info (doc_trsv p) a.
Proof. exact trsv_first_offender_partial_proof. Qed.
Print Assumptions trsv_first_offender_partial.

Theorem trsv_first_offender_refuted :
  exists p a, spec_info (doc_trsv p) a = 0 /\ trsv_check p a = -2.
Proof. exact trsv_first_offender_refuted_proof. Qed.
Print Assumptions trsv_first_offender_refuted.

Theorem gemv_first_offender_partial :
  forall p a, memZ (m_st (gm_A a)) [c_SLU_NC; c_SLU_NCP] = true -> m_dt (gm_A a) = dtype_of p ->
              m_mt (gm_A a) = c_SLU_GE ->
              gemv_check p a = spec_info (doc_gemv p) a.
Proof. exact gemv_first_offender_partial_proof. Qed.
Print Assumptions gemv_first_offender_partial.

Theorem gemv_first_offender_refuted :
  exists p a, spec_info (doc_gemv p) a = -3 /\ gemv_check p a = 0.
Proof. exact gemv_first_offender_refuted_proof. Qed.
Print Assumptions gemv_first_offender_refuted.

Theorem argcheck_no_effect :
  (forall p a, quiet (gssv_run p a)) /\
  (forall p a o, gssvx_run p a = Some o ->
                 quiet o /\ o_optperm o = true /\
                 o_equed o = (if (gx_fact a =? c_DOFACT) || (gx_fact a =? c_EQUILIBRATE)
                              then c_NOEQUIL else gx_equed a)) /\
  (forall p a, quiet (gstrs_run p a)) /\ (forall p a, quiet (gsrfs_run p a)) /\
  (forall p a, quiet (gscon_run p a)) /\ (forall p a, quiet (gsequ_run p a)) /\
  (forall p a, quiet (trsv_run p a)) /\ (forall p a, quiet (gemv_run p a)).
Proof. exact argcheck_no_effect_proof. Qed.
Print Assumptions argcheck_no_effect.

(* ---- the tie by translation: src_*_check are the argument tests RE-TRANSLATED from the current C source on every run
   (coq/ArgCheckGen.v, tools/gen_trans.py + tools/c2gal.py over the clang AST), in the four precisions; they compute
   exactly what the model computes, so every theorem above is a theorem about what the source says now ---- *)
Theorem c15_source_is_model :
  (forall p a, src_gssv_check p a = gssv_check p a) /\ (forall p a, src_gstrs_check p a = gstrs_check p a) /\
  (forall p a, src_gsrfs_check p a = gsrfs_check p a) /\ (forall p a, src_gscon_check p a = gscon_check p a) /\
  (forall p A, src_gsequ_check p A = gsequ_check p A) /\ (forall p a, src_trsv_check p a = trsv_check p a) /\
  (forall p a, src_gemv_check p a = gemv_check p a).
Proof. exact (conj src_gssv_is_model (conj src_gstrs_is_model (conj src_gsrfs_is_model (conj src_gscon_is_model
       (conj src_gsequ_is_model (conj src_trsv_is_model src_gemv_is_model)))))). Qed.
Print Assumptions c15_source_is_model.

Theorem c15_source_gscon_first_offender : forall p a, src_gscon_check p a = spec_info (doc_gscon p) a.
Proof. exact src_gscon_first_offender_proof. Qed.
Print Assumptions c15_source_gscon_first_offender.

Theorem c15_source_gsequ_first_offender : forall p A, src_gsequ_check p A = spec_info (doc_gsequ p) A.
Proof. exact src_gsequ_first_offender_proof. Qed.
Print Assumptions c15_source_gsequ_first_offender.
