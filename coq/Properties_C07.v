(* Properties_C07.v -- property theorems for C07.  Only statements closed by `exact`, and Print Assumptions. *)
From Coq Require Import Reals.
From SLU Require Import NumLU NumSolve DriverScale.
Local Open Scope R_scope.

(* equilibrated solve, trans = NOTRANS: if y solves (R^a A C^b) y = R^a b then x = C^b y solves the ORIGINAL system *)
Theorem c07_unscale_notran : forall n rowequ colequ r c A b y,
  (forall i, (i < n)%nat -> rf rowequ r i <> 0) ->
  (forall i, (i < n)%nat -> bigsum (fun j => scaleA rowequ colequ r c A i j * y j) n = rf rowequ r i * b i) ->
  forall i, (i < n)%nat -> bigsum (fun j => A i j * (cf colequ c j * y j)) n = b i.
Proof. exact unscale_notran. Qed.
Print Assumptions c07_unscale_notran.

(* trans = TRANS / CONJ: if y solves (R^a A C^b)^T y = C^b b then x = R^a y solves A^T x = b *)
Theorem c07_unscale_trans : forall n rowequ colequ r c A b y,
  (forall j, (j < n)%nat -> cf colequ c j <> 0) ->
  (forall j, (j < n)%nat -> bigsum (fun i => scaleA rowequ colequ r c A i j * y i) n = cf colequ c j * b j) ->
  forall j, (j < n)%nat -> bigsum (fun i => A i j * (rf rowequ r i * y i)) n = b j.
Proof. exact unscale_trans. Qed.
Print Assumptions c07_unscale_trans.

(* the backward-stability statement for the (equilibrated) system the driver factors and solves is C01's theorem *)
Theorem c07_solve_backward : forall u, 0 <= u -> u < 1 -> forall n B L U c y x,
  lu_rel u n B L U -> lsolve_rel u n L c y -> usolve_rel u n U y x -> INR (3 * n) * u < 1 ->
  forall i, (i < n)%nat ->
    Rabs (c i - bigsum (fun j => B i j * x j) n)
    <= NumBase.gamma u (3 * n) * bigsum (fun j => bigsum (fun k => Rabs (L i k) * Rabs (U k j)) n * Rabs (x j)) n.
Proof. exact solve_backward. Qed.
Print Assumptions c07_solve_backward.
