From Coq Require Import Extraction ExtrOcamlBasic.
From SLU Require Import SchedModel SchedInv SchedBusy.
Extraction "busy_model.ml" parallel_init check_init mark_busy forestb chainb postb.
