(* EtreePostProofs.v -- TreePostorder with the non-recursive nr_etdfs:
   termination with explicit fuel (outer loop n+1, climbing loop n) and the functional characterisation
       tree_postorder n parent = Some (numt (mk (n+1) 0) (po n) 0)
   where po v is the recursive postorder list of the subtree of v (children in increasing order);
   then: the result is a permutation, children are numbered before parents, every subtree occupies a
   contiguous range of numbers ending at its root. *)
From Coq Require Import ZArith List Bool Lia Permutation.
From SLU Require Import EtreeModel EtreeArrProofs EtreePermProofs EtreeUFProofs.
Import ListNotations.
Local Open Scope Z_scope.

Lemma flat_map_ext_in : forall {A B} (f g : A -> list B) l, (forall a, In a l -> f a = g a) -> flat_map f l = flat_map g l.
Proof.
  induction l as [|x t IH]; intros H; simpl; auto.
  rewrite H by (simpl; auto). rewrite IH; auto. intros a Ha. apply H. simpl; auto.
Qed.

(* sequential numbering: post[x_0] = k, post[x_1] = k+1, ... *)
Fixpoint numt (post : list Z) (l : list Z) (k : Z) : list Z :=
  match l with [] => post | x :: t => numt (upd post (Z.to_nat x) k) t (k + 1) end.

Lemma numt_app : forall l1 l2 post k, numt post (l1 ++ l2) k = numt (numt post l1 k) l2 (k + Z.of_nat (length l1)).
Proof.
  induction l1 as [|x t IH]; intros l2 post k; simpl.
  - f_equal. lia.
  - rewrite IH. f_equal. lia.
Qed.

Lemma alen_numt : forall l post k, alen (numt post l k) = alen post.
Proof. induction l as [|x t IH]; intros; simpl; auto. rewrite IH. apply alen_upd. Qed.

Lemma numt_notin : forall l post k x, 0 <= x -> (forall y, In y l -> 0 <= y) -> ~ In x l -> aget (numt post l k) x = aget post x.
Proof.
  induction l as [|y t IH]; intros post k x Hx Hpos Hn; simpl; auto.
  rewrite IH; auto.
  - apply aget_upd_other; [apply Hpos; simpl; auto|]. intro; subst. apply Hn. simpl; auto.
  - intros z Hz. apply Hpos. simpl; auto.
  - intro. apply Hn. simpl; auto.
Qed.

Lemma numt_nth : forall l post k i, NoDup l -> (forall y, In y l -> 0 <= y < alen post) -> (i < length l)%nat ->
  aget (numt post l k) (nth i l 0) = Some (k + Z.of_nat i).
Proof.
  induction l as [|x t IH]; intros post k i Hnd Hr Hi; simpl in *; [lia|].
  inversion Hnd as [|? ? Hnx Hndt]; subst.
  destruct i as [|i].
  - rewrite numt_notin; auto.
    + rewrite aget_upd_same; [f_equal; lia|]. apply Hr; auto.
    + apply Hr; auto.
    + intros y Hy. apply Hr; auto.
  - rewrite IH; auto; [f_equal; lia| |lia].
    intros y Hy. rewrite alen_upd. apply Hr; auto.
Qed.

Lemma nth_idx : forall L x, In x L -> nth (idx L x) L 0 = x.
Proof.
  induction L as [|y t IH]; intros x H; simpl in *; [tauto|].
  destruct (y =? x) eqn:E; [apply Z.eqb_eq in E; auto|].
  apply Z.eqb_neq in E. destruct H; [congruence|]. auto.
Qed.

Lemma numt_idx : forall l post k x, NoDup l -> (forall y, In y l -> 0 <= y < alen post) -> In x l ->
  aget (numt post l k) x = Some (k + Z.of_nat (idx l x)).
Proof.
  intros l post k x Hnd Hr Hx. rewrite <- (nth_idx l x Hx) at 1. apply numt_nth; auto. now apply idx_In.
Qed.

Lemma idx_inj : forall L x y, In x L -> idx L x = idx L y -> x = y.
Proof.
  intros L x y Hx E. assert (Hy : In y L). { apply idx_In. rewrite <- E. now apply idx_In. }
  rewrite <- (nth_idx L x Hx), <- (nth_idx L y Hy). now rewrite E.
Qed.

Lemma idx_app_l : forall L1 L2 x, In x L1 -> idx (L1 ++ L2) x = idx L1 x.
Proof.
  induction L1 as [|y t IH]; intros L2 x H; simpl in *; [tauto|].
  destruct (y =? x) eqn:E; auto. apply Z.eqb_neq in E. destruct H; [congruence|]. now rewrite IH.
Qed.

Lemma idx_app_r : forall L1 L2 x, ~ In x L1 -> idx (L1 ++ L2) x = (length L1 + idx L2 x)%nat.
Proof.
  induction L1 as [|y t IH]; intros L2 x H; simpl in *; auto.
  destruct (y =? x) eqn:E; [apply Z.eqb_eq in E; tauto|]. rewrite IH; auto.
Qed.

(* ------------------------------------------------------------------------------------------ *)
Section Traversal.
  Variable kd : Z -> list Z.
  Hypothesis Hkd_lt : forall v c, In c (kd v) -> 0 <= c < v.

  (* recursive postorder list of the subtree of v *)
  Fixpoint po_f (f : nat) (v : Z) : list Z :=
    match f with O => [] | S f' => flat_map (po_f f') (kd v) ++ [v] end.
  Definition po (v : Z) : list Z := po_f (S (Z.to_nat v)) v.

  Lemma po_f_irrel : forall f1 f2 v, 0 <= v -> (Z.to_nat v < f1)%nat -> (Z.to_nat v < f2)%nat -> po_f f1 v = po_f f2 v.
  Proof.
    induction f1 as [|f1 IH]; intros f2 v Hv H1 H2; [lia|].
    destruct f2 as [|f2]; [lia|]. simpl. f_equal.
    apply flat_map_ext_in. intros c Hc. apply Hkd_lt in Hc. apply IH; lia.
  Qed.

  Lemma po_unfold : forall v, 0 <= v -> po v = flat_map po (kd v) ++ [v].
  Proof.
    intros v Hv. unfold po at 1. cbn [po_f]. f_equal.
    apply flat_map_ext_in. intros c Hc. apply Hkd_lt in Hc. unfold po. apply po_f_irrel; lia.
  Qed.

  Lemma po_length_pos : forall v, 0 <= v -> (1 <= length (po v))%nat.
  Proof. intros v Hv. rewrite po_unfold by auto. rewrite app_length. simpl. lia. Qed.

  (* length of the chain of last children below v *)
  Fixpoint h_f (f : nat) (v : Z) : nat :=
    match f with O => O | S f' => match rev (kd v) with [] => O | c :: _ => S (h_f f' c) end end.
  Definition hh (v : Z) : nat := h_f (S (Z.to_nat v)) v.

  Lemma last_kid_in : forall v c t, rev (kd v) = c :: t -> In c (kd v).
  Proof. intros v c t H. apply in_rev. rewrite H. simpl; auto. Qed.

  Lemma h_f_irrel : forall f1 f2 v, 0 <= v -> (Z.to_nat v < f1)%nat -> (Z.to_nat v < f2)%nat -> h_f f1 v = h_f f2 v.
  Proof.
    induction f1 as [|f1 IH]; intros f2 v Hv H1 H2; [lia|].
    destruct f2 as [|f2]; [lia|]. simpl. destruct (rev (kd v)) as [|c t] eqn:E; auto.
    f_equal. apply last_kid_in in E. apply Hkd_lt in E. apply IH; lia.
  Qed.

  Lemma hh_unfold : forall v, 0 <= v -> hh v = match rev (kd v) with [] => O | c :: _ => S (hh c) end.
  Proof.
    intros v Hv. unfold hh at 1. cbn [h_f]. destruct (rev (kd v)) as [|c t] eqn:E; auto.
    f_equal. apply last_kid_in in E. apply Hkd_lt in E. unfold hh. apply h_f_irrel; lia.
  Qed.

  Lemma hh_le : forall (b : nat) v, (Z.to_nat v < b)%nat -> 0 <= v -> (hh v <= Z.to_nat v)%nat.
  Proof.
    induction b as [|b IH]; intros v Hb Hv; [lia|].
    rewrite hh_unfold by auto. destruct (rev (kd v)) as [|c t] eqn:E; [lia|].
    apply last_kid_in in E. apply Hkd_lt in E. specialize (IH c). lia.
  Qed.

  Variables (n : Z) (parent fk nk : list Z) (cf : nat).
  Hypothesis Hn : 0 <= n.
  Hypothesis Hcf : (Z.to_nat n <= cf)%nat.
  Hypothesis Hkd_par : forall v c, 0 <= v <= n -> In c (kd v) -> aget parent c = Some v.
  Hypothesis Hfk : forall v, 0 <= v <= n -> aget fk v = Some (hd (-1) (kd v)).
  Hypothesis Hnk_tot : forall v, 0 <= v <= n -> exists x, aget nk v = Some x.
  Hypothesis Hsib : forall v l1 c l2, 0 <= v <= n -> kd v = l1 ++ c :: l2 -> aget nk c = Some (hd (-1) l2).

  Definition nxt (v : Z) : Z := match aget nk v with Some x => x | None => 0 end.

  Lemma aget_nk : forall v, 0 <= v <= n -> aget nk v = Some (nxt v).
  Proof. intros v Hv. unfold nxt. destruct (Hnk_tot v Hv) as [x ->]. reflexivity. Qed.

  (* continuation: "v has just been numbered, next = next_kid[v] has been read" *)
  Definition K (fo c : nat) (v k : Z) (post : list Z) (next : Z) : option (list Z) :=
    match po_climb c parent nk v k post next with
    | Some (cur2, pn2, post2, next2) =>
        if pn2 =? n + 1 then Some post2 else po_outer fo cf n parent fk nk next2 pn2 post2
    | None => None
    end.

  Lemma subtree_ok : forall (b : nat) v, (Z.to_nat v < b)%nat -> 0 <= v <= n ->
    forall fo k post, alen post = n + 1 -> 0 <= k < n -> k + Z.of_nat (length (po v)) <= n + 1 ->
    po_outer (fo + length (po v)) cf n parent fk nk v k post =
    K fo (cf - hh v) v (k + Z.of_nat (length (po v))) (numt post (po v) k) (nxt v).
  Proof.
    induction b as [|b IH]; intros v Hb Hv fo k post Hlen Hk Hsz; [lia|].
    assert (Hv0 : 0 <= v) by lia.
    rewrite (po_unfold v Hv0) in *. rewrite app_length in *. cbn [length] in *.
    replace (fo + (length (flat_map po (kd v)) + 1))%nat with (S (fo + length (flat_map po (kd v)))) by lia.
    cbn [po_outer].
    assert (Ekn : (k =? n) = false) by (apply Z.eqb_neq; lia). rewrite Ekn.
    rewrite (Hfk v Hv).
    destruct (kd v) as [|c1 rest] eqn:Ekd.
    - (* leaf *)
      cbn [hd flat_map length app]. change (-1 =? -1) with true. cbn iota.
      assert (Ea : aset post v k = Some (upd post (Z.to_nat v) k)) by (apply aset_Some; split; [lia|auto]).
      rewrite Ea. rewrite (aget_nk v Hv).
      assert (Eh : hh v = O) by (rewrite hh_unfold by auto; rewrite Ekd; reflexivity).
      rewrite Eh. rewrite Nat.sub_0_r. rewrite Nat.add_0_r.
      unfold K. cbn [numt]. replace (k + Z.of_nat (0 + 1)) with (k + 1) by lia. reflexivity.
    - (* internal vertex: descend to the first child, then walk through the children *)
      cbn [hd].
      assert (Hc1 : 0 <= c1 < v) by (apply Hkd_lt; rewrite Ekd; simpl; auto).
      assert (Ec1 : (c1 =? -1) = false) by (apply Z.eqb_neq; lia). rewrite Ec1.
      rewrite <- Ekd.
      (* siblings lemma *)
      assert (Hsibs : forall l2 l1 c, kd v = l1 ++ c :: l2 ->
        forall fo k post, alen post = n + 1 -> 0 <= k ->
          k + Z.of_nat (length (flat_map po (c :: l2)) + 1) <= n + 1 ->
          po_outer (fo + length (flat_map po (c :: l2))) cf n parent fk nk c k post =
          K fo (cf - hh v) v (k + Z.of_nat (length (flat_map po (c :: l2)) + 1))
            (numt post (flat_map po (c :: l2) ++ [v]) k) (nxt v)).
      { clear fo k post Hlen Hk Hsz Ekn.
        induction l2 as [|c' l2 IHl]; intros l1 c Hsplit fo k post Hlen Hk Hsz.
        - (* last child: climb to v *)
          assert (Hc : 0 <= c < v) by (apply Hkd_lt; rewrite Hsplit; apply in_app_iff; simpl; auto).
          cbn [flat_map] in *. rewrite app_nil_r in *.
          pose proof (po_length_pos c ltac:(lia)) as Hpos.
          rewrite (IH c) by (auto; lia).
          assert (En : nxt c = -1).
          { pose proof (Hsib v l1 c [] Hv Hsplit) as E. rewrite aget_nk in E by lia. cbn [hd] in E. congruence. }
          rewrite En.
          assert (Ehv : hh v = S (hh c)).
          { rewrite (hh_unfold v Hv0). rewrite Hsplit. rewrite rev_app_distr. reflexivity. }
          assert (Hhv : (hh v <= Z.to_nat v)%nat) by (apply (hh_le (S (Z.to_nat v))); lia).
          assert (Ecf : (cf - hh c = S (cf - hh v))%nat) by lia.
          unfold K at 1. rewrite Ecf. cbn [po_climb]. change (-1 =? -1) with true. cbn iota.
          rewrite (Hkd_par v c Hv) by (rewrite Hsplit; apply in_app_iff; simpl; auto).
          assert (Ea : aset (numt post (po c) k) v (k + Z.of_nat (length (po c))) =
                       Some (upd (numt post (po c) k) (Z.to_nat v) (k + Z.of_nat (length (po c))))).
          { apply aset_Some. rewrite alen_numt. split; [lia|auto]. }
          rewrite Ea. rewrite (aget_nk v Hv).
          unfold K. rewrite numt_app. cbn [numt].
          replace (k + Z.of_nat (length (po c) + 1)) with (k + Z.of_nat (length (po c)) + 1) by lia.
          reflexivity.
        - (* c is followed by c': continue with c' *)
          assert (Hc : 0 <= c < v) by (apply Hkd_lt; rewrite Hsplit; apply in_app_iff; simpl; auto).
          assert (Hc' : 0 <= c' < v) by (apply Hkd_lt; rewrite Hsplit; apply in_app_iff; simpl; auto).
          change (flat_map po (c :: c' :: l2)) with (po c ++ flat_map po (c' :: l2)) in *.
          rewrite app_length in *.
          pose proof (po_length_pos c ltac:(lia)) as Hpos.
          pose proof (po_length_pos c' ltac:(lia)) as Hpos'.
          assert (Hb2 : (1 <= length (flat_map po (c' :: l2)))%nat).
          { cbn [flat_map]. rewrite app_length. lia. }
          replace (fo + (length (po c) + length (flat_map po (c' :: l2))))%nat
            with ((fo + length (flat_map po (c' :: l2))) + length (po c))%nat by lia.
          rewrite (IH c) by (auto; lia).
          assert (En : nxt c = c').
          { pose proof (Hsib v l1 c (c' :: l2) Hv Hsplit) as E. rewrite aget_nk in E by lia. cbn [hd] in E. congruence. }
          rewrite En. unfold K at 1.
          assert (Ecl : forall f, po_climb f parent nk c (k + Z.of_nat (length (po c))) (numt post (po c) k) c' =
                                  Some (c, k + Z.of_nat (length (po c)), numt post (po c) k, c')).
          { intros f. destruct f; cbn [po_climb]; replace (c' =? -1) with false by (symmetry; apply Z.eqb_neq; lia); reflexivity. }
          rewrite Ecl.
          replace (k + Z.of_nat (length (po c)) =? n + 1) with false by (symmetry; apply Z.eqb_neq; lia).
          rewrite (IHl (l1 ++ [c]) c') by (try (rewrite <- app_assoc; exact Hsplit); try rewrite alen_numt; auto; lia).
          rewrite <- app_assoc. rewrite (numt_app (po c)).
          replace (k + Z.of_nat (length (po c)) + Z.of_nat (length (flat_map po (c' :: l2)) + 1))
            with (k + Z.of_nat (length (po c) + length (flat_map po (c' :: l2)) + 1)) by lia.
          reflexivity. }
      rewrite Ekd in Hsibs |- *.
      rewrite (Hsibs rest [] c1 eq_refl) by (auto; lia).
      reflexivity.
  Qed.

  Hypothesis Hnkn : aget nk n = Some 0.

  Lemma outer_root : 1 <= n -> length (po n) = S (Z.to_nat n) ->
    po_outer (S (Z.to_nat n)) cf n parent fk nk n 0 (mk (n + 1) 0) = Some (numt (mk (n + 1) 0) (po n) 0).
  Proof.
    intros Hn1 Hsz.
    replace (S (Z.to_nat n)) with (0 + length (po n))%nat at 1 by lia.
    rewrite (subtree_ok (S (Z.to_nat n)) n) by (try rewrite alen_mk; lia).
    unfold K. unfold nxt. rewrite Hnkn.
    assert (Ecl : forall f post k, po_climb f parent nk n k post 0 = Some (n, k, post, 0)).
    { intros f post k. destruct f; reflexivity. }
    rewrite Ecl. replace (0 + Z.of_nat (length (po n)) =? n + 1) with true by (symmetry; apply Z.eqb_eq; lia).
    reflexivity.
  Qed.
End Traversal.

(* ------------------------------------------------------------------------------------------ *)
(* the concrete child lists built by TreePostorder                                              *)
Definition par_is (parent : list Z) (v w : Z) : bool :=
  match aget parent w with Some p => p =? v | None => false end.
(* children of v among the vertices k..n-1, increasing *)
Definition kidsfrom (parent : list Z) (n k v : Z) : list Z := filter (par_is parent v) (zrange k n).
Definition kids (parent : list Z) (n v : Z) : list Z := kidsfrom parent n 0 v.

Lemma kidsfrom_step : forall parent n k v, 0 <= k < n ->
  kidsfrom parent n k v = if par_is parent v k then k :: kidsfrom parent n (k + 1) v else kidsfrom parent n (k + 1) v.
Proof. intros. unfold kidsfrom. rewrite zrange_cons by lia. reflexivity. Qed.

Lemma In_kidsfrom : forall parent n k v c, In c (kidsfrom parent n k v) <-> (k <= c < n /\ aget parent c = Some v).
Proof.
  intros. unfold kidsfrom. rewrite filter_In, In_zrange. unfold par_is.
  destruct (aget parent c) as [p|]; [|split; [intros [_ H]; discriminate|intros [_ H]; discriminate]].
  rewrite Z.eqb_eq. split; intros [H1 H2]; split; auto; congruence.
Qed.

Lemma kid_lists_spec : forall n parent, 0 <= n -> forest n parent ->
  exists fk nk, kid_lists n parent = Some (fk, nk) /\ alen fk = n + 1 /\ alen nk = n + 1 /\
    (forall v, 0 <= v <= n -> aget fk v = Some (hd (-1) (kids parent n v))) /\
    (forall v l1 c l2, 0 <= v <= n -> kids parent n v = l1 ++ c :: l2 -> aget nk c = Some (hd (-1) l2)) /\
    aget nk n = Some 0.
Proof.
  intros n parent Hn [Hlen Hfor]. unfold kid_lists.
  destruct (ofold_down_inv
    (fun '(first_kid, next_kid) v =>
       match aget parent v with Some dad => match aget first_kid dad with Some fkd =>
         match aset next_kid v fkd with Some next_kid1 => match aset first_kid dad v with Some first_kid1 =>
           Some (first_kid1, next_kid1) | None => None end | None => None end | None => None end | None => None end)
    (fun k st => let '(fk, nk) := st in
       alen fk = n + 1 /\ alen nk = n + 1 /\
       (forall v, 0 <= v <= n -> aget fk v = Some (hd (-1) (kidsfrom parent n k v))) /\
       (forall v l1 c l2, 0 <= v <= n -> kidsfrom parent n k v = l1 ++ c :: l2 -> aget nk c = Some (hd (-1) l2)) /\
       aget nk n = Some 0)
    n (mk (n + 1) (-1), mk (n + 1) 0)) as [[fk nk] [E H]]; auto.
  - rewrite !alen_mk. split; [lia|]. split; [lia|]. split; [|split].
    + intros v Hv. unfold kidsfrom. rewrite zrange_empty by lia. simpl. apply aget_mk. lia.
    + intros v l1 c l2 Hv Hs. unfold kidsfrom in Hs. rewrite zrange_empty in Hs by lia. simpl in Hs.
      destruct l1; discriminate.
    + apply aget_mk. lia.
  - intros k [fk nk] Hk [L1 [L2 [Hf [Hs Hnn]]]].
    destruct (Hfor k Hk) as [d [Ed Hd]]. rewrite Ed.
    rewrite (Hf d) by lia.
    destruct (aset_total nk k (hd (-1) (kidsfrom parent n (k + 1) d))) as [nk1 En]; [lia|]. rewrite En.
    destruct (aset_total fk d k) as [fk1 Ef]; [lia|]. rewrite Ef.
    eexists. split; [reflexivity|]. cbn beta iota.
    split; [rewrite (aset_len _ _ _ _ Ef); auto|]. split; [rewrite (aset_len _ _ _ _ En); auto|].
    assert (Hpk : forall v, par_is parent v k = (d =? v)).
    { intros v. unfold par_is. rewrite Ed. reflexivity. }
    split; [|split].
    + intros v Hv. rewrite (aget_aset _ _ _ _ v Ef). rewrite (kidsfrom_step parent n k v Hk). rewrite Hpk.
      destruct (v =? d) eqn:Evd.
      * apply Z.eqb_eq in Evd. subst v. rewrite Z.eqb_refl. reflexivity.
      * rewrite Z.eqb_sym, Evd. apply Hf; auto.
    + intros v l1 c l2 Hv Hsplit. rewrite (kidsfrom_step parent n k v Hk) in Hsplit. rewrite Hpk in Hsplit.
      rewrite (aget_aset _ _ _ _ c En).
      destruct (d =? v) eqn:Edv.
      * apply Z.eqb_eq in Edv. subst v. destruct l1 as [|x l1].
        -- simpl in Hsplit. inversion Hsplit; subst. rewrite Z.eqb_refl. reflexivity.
        -- simpl in Hsplit. inversion Hsplit; subst x.
           assert (Hc : In c (kidsfrom parent n (k + 1) d)) by (rewrite H1; apply in_app_iff; simpl; auto).
           apply In_kidsfrom in Hc. replace (c =? k) with false by (symmetry; apply Z.eqb_neq; lia).
           eapply Hs; eauto.
      * assert (Hc : In c (kidsfrom parent n (k + 1) v)) by (rewrite Hsplit; apply in_app_iff; simpl; auto).
        apply In_kidsfrom in Hc. replace (c =? k) with false by (symmetry; apply Z.eqb_neq; lia).
        eapply Hs; eauto.
    + rewrite (aget_aset _ _ _ _ n En). replace (n =? k) with false by (symmetry; apply Z.eqb_neq; lia). auto.
  - exists fk, nk. split; auto.
Qed.

(* ------------------------------------------------------------------------------------------ *)
Section Concrete.
  Variables (n : Z) (parent : list Z).
  Hypothesis Hn : 0 <= n.
  Hypothesis Hfor : forest n parent.

  Let kd := kids parent n.

  Lemma kd_lt : forall v c, In c (kd v) -> 0 <= c < v.
  Proof.
    intros v c H. apply In_kidsfrom in H as [Hc Ep]. destruct Hfor as [_ Hf].
    destruct (Hf c Hc) as [p [Ep' Hp]]. assert (p = v) by congruence. lia.
  Qed.

  Lemma kd_par : forall v c, In c (kd v) -> aget parent c = Some v.
  Proof. intros v c H. now apply In_kidsfrom in H as [_ Ep]. Qed.

  Lemma kd_in : forall c p, 0 <= c < n -> aget parent c = Some p -> In c (kd p).
  Proof. intros c p Hc Ep. apply In_kidsfrom. split; auto. Qed.

  Definition pov := po kd.

  Lemma pov_unfold : forall v, 0 <= v -> pov v = flat_map pov (kd v) ++ [v].
  Proof. intros. apply po_unfold; auto. apply kd_lt. Qed.

  (* the forests F_v on 0..v-1 (roots: vertices whose parent is >= v) are listed exactly once *)
  Definition parv (w : Z) : Z := match aget parent w with Some p => p | None => 0 end.

  Lemma filter_split_perm : forall {B} (f : Z -> list B) (p p1 p2 : Z -> bool) l,
    (forall w, In w l -> p w = p1 w || p2 w) -> (forall w, In w l -> p1 w && p2 w = false) ->
    Permutation (flat_map f (filter p1 l) ++ flat_map f (filter p2 l)) (flat_map f (filter p l)).
  Proof.
    intros B f p p1 p2. induction l as [|x t IH]; intros H1 H2; simpl; auto.
    assert (IHt : Permutation (flat_map f (filter p1 t) ++ flat_map f (filter p2 t)) (flat_map f (filter p t))).
    { apply IH; intros; [apply H1|apply H2]; simpl; auto. }
    specialize (H1 x ltac:(simpl; auto)). specialize (H2 x ltac:(simpl; auto)).
    destruct (p1 x), (p2 x); simpl in *; try discriminate; rewrite H1; simpl.
    - rewrite <- app_assoc. apply Permutation_app_head. auto.
    - rewrite <- IHt. rewrite !app_assoc. apply Permutation_app_tail. apply Permutation_app_comm.
    - auto.
  Qed.

  Lemma filter_none : forall (f : Z -> bool) l, (forall x, In x l -> f x = false) -> filter f l = [].
  Proof.
    induction l as [|x t IH]; intros H; simpl; auto.
    rewrite H by (simpl; auto). apply IH. intros y Hy. apply H. simpl; auto.
  Qed.

  Lemma parent_get : forall w, 0 <= w < n -> exists p, aget parent w = Some p /\ w < p <= n.
  Proof. intros w Hw. destruct Hfor as [_ Hf]. auto. Qed.

  Lemma kids_below : forall v, 0 <= v <= n -> kd v = filter (par_is parent v) (zrange 0 v).
  Proof.
    intros v Hv. unfold kd, kids, kidsfrom. rewrite (zrange_split 0 v n) by lia.
    rewrite filter_app. rewrite (filter_none _ (zrange v n)); [apply app_nil_r|].
    intros x Hx. apply In_zrange in Hx. unfold par_is.
    destruct (parent_get x) as [p [Ep Hp]]; [lia|]. rewrite Ep. apply Z.eqb_neq. lia.
  Qed.

  Lemma roots_perm : forall (m : nat), Z.of_nat m <= n ->
    Permutation (flat_map pov (filter (fun w => Z.of_nat m <=? parv w) (zrange 0 (Z.of_nat m)))) (zrange 0 (Z.of_nat m)).
  Proof.
    induction m as [|m IH]; intros Hm.
    - simpl. constructor.
    - replace (Z.of_nat (S m)) with (Z.of_nat m + 1) in * by lia.
      set (v := Z.of_nat m) in *.
      rewrite zrange_snoc by lia. rewrite filter_app, flat_map_app.
      destruct (parent_get v) as [p [Ep Hp]]; [lia|].
      assert (Epv : parv v = p) by (unfold parv; now rewrite Ep).
      cbn [filter]. rewrite Epv. replace (v + 1 <=? p) with true by (symmetry; apply Z.leb_le; lia).
      cbn [flat_map]. rewrite app_nil_r.
      rewrite (pov_unfold v) by lia. rewrite (kids_below v) by lia.
      rewrite app_assoc. apply Permutation_app_tail.
      rewrite (filter_split_perm pov (fun w => v <=? parv w)).
      + apply IH. lia.
      + intros w Hw. apply In_zrange in Hw. destruct (parent_get w) as [q [Eq Hq]]; [lia|].
        unfold parv, par_is. rewrite Eq.
        destruct (Z.leb_spec v q), (Z.leb_spec (v + 1) q), (Z.eqb_spec q v); simpl; auto; lia.
      + intros w Hw. apply In_zrange in Hw. destruct (parent_get w) as [q [Eq Hq]]; [lia|].
        unfold parv, par_is. rewrite Eq.
        destruct (Z.leb_spec (v + 1) q), (Z.eqb_spec q v); simpl; auto; lia.
  Qed.

  Lemma pov_perm : Permutation (pov n) (zrange 0 (n + 1)).
  Proof.
    rewrite (pov_unfold n Hn). rewrite zrange_snoc by lia. apply Permutation_app_tail.
    pose proof (roots_perm (Z.to_nat n)) as H. rewrite Z2Nat.id in H by lia.
    rewrite <- H by lia. unfold kd, kids, kidsfrom.
    rewrite (filter_ext_in (par_is parent n) (fun w => n <=? parv w)); [reflexivity|].
    intros w Hw. apply In_zrange in Hw. destruct (parent_get w) as [q [Eq Hq]]; [lia|].
    unfold parv, par_is. rewrite Eq.
    destruct (Z.leb_spec n q), (Z.eqb_spec q n); simpl; auto; lia.
  Qed.

  Lemma pov_NoDup : NoDup (pov n).
  Proof. eapply Permutation_NoDup; [symmetry; apply pov_perm|apply NoDup_zrange]. Qed.

  Lemma pov_In : forall x, In x (pov n) <-> 0 <= x <= n.
  Proof.
    intros x. split; intros H.
    - apply (Permutation_in _ pov_perm) in H. apply In_zrange in H. lia.
    - apply (Permutation_in _ (Permutation_sym pov_perm)). apply In_zrange. lia.
  Qed.

  Lemma pov_length : length (pov n) = S (Z.to_nat n).
  Proof. rewrite (Permutation_length pov_perm). rewrite zrange_length. lia. Qed.

  (* ---- the model computes exactly the numbering of pov n ---- *)
  Theorem tree_postorder_eq : tree_postorder n parent = Some (numt (mk (n + 1) 0) (pov n) 0).
  Proof.
    destruct (kid_lists_spec n parent Hn Hfor) as [fk [nk [E [L1 [L2 [Hf [Hs Hnn]]]]]]].
    unfold tree_postorder. rewrite E.
    destruct (Z.eq_dec n 0) as [Hz|Hn0].
    - assert (E0 : (0 =? n) = true) by (apply Z.eqb_eq; lia).
      cbn [po_outer]. rewrite E0.
      rewrite (pov_unfold n) by lia.
      destruct (kd n) as [|c t] eqn:Ek.
      + cbn [flat_map app numt]. rewrite Hz. reflexivity.
      + assert (0 <= c < n) by (apply kd_lt; rewrite Ek; simpl; auto). lia.
    - apply (outer_root kd kd_lt n parent fk nk (Z.to_nat n)); auto; try lia.
      + intros v c _ Hc. now apply kd_par.
      + intros v Hv. apply aget_range_Some. lia.
      + apply pov_length.
  Qed.

  Definition postv : list Z := numt (mk (n + 1) 0) (pov n) 0.
  Definition pos (x : Z) : Z := Z.of_nat (idx (pov n) x).

  Lemma postv_len : alen postv = n + 1.
  Proof. unfold postv. rewrite alen_numt, alen_mk. lia. Qed.

  Lemma postv_get : forall x, 0 <= x <= n -> aget postv x = Some (pos x).
  Proof.
    intros x Hx. unfold postv, pos. rewrite numt_idx; [f_equal; lia|apply pov_NoDup| |now apply pov_In].
    intros y Hy. apply pov_In in Hy. rewrite alen_mk. lia.
  Qed.

  Lemma pos_range : forall x, 0 <= x <= n -> 0 <= pos x <= n.
  Proof.
    intros x Hx. unfold pos. assert (H : In x (pov n)) by now apply pov_In.
    apply idx_In in H. rewrite pov_length in H. lia.
  Qed.

  Lemma pos_inj : forall x y, 0 <= x <= n -> 0 <= y <= n -> pos x = pos y -> x = y.
  Proof.
    intros x y Hx Hy E. unfold pos in E. apply (idx_inj (pov n)); [now apply pov_In|lia].
  Qed.

  Lemma pos_root : pos n = n.
  Proof.
    unfold pos. rewrite (pov_unfold n Hn).
    assert (Hni : ~ In n (flat_map pov (kd n))).
    { pose proof pov_NoDup as Hnd. rewrite (pov_unfold n Hn) in Hnd.
      apply NoDup_remove_2 in Hnd. rewrite app_nil_r in Hnd. exact Hnd. }
    rewrite idx_app_new by auto.
    pose proof pov_length as Hl. rewrite (pov_unfold n Hn), app_length in Hl. simpl in Hl. lia.
  Qed.

  Lemma postv_inj_on : inj_on n postv.
  Proof.
    split.
    - intros i Hi. exists (pos i). split; [apply postv_get; lia|].
      pose proof (pos_range i ltac:(lia)). destruct (Z.eq_dec (pos i) n) as [E|]; [|lia].
      rewrite <- pos_root in E. apply pos_inj in E; lia.
    - intros i j v Hi Hj Ei Ej. rewrite postv_get in Ei, Ej by lia.
      apply pos_inj; try lia. congruence.
  Qed.

  (* ---- subtrees are contiguous segments of pov n ---- *)
  Lemma NoDup_app_l : forall (a b : list Z), NoDup (a ++ b) -> NoDup a.
  Proof. induction a as [|x t IH]; intros b H; [constructor|]. inversion H; subst. constructor; [rewrite in_app_iff in *; tauto|eauto]. Qed.
  Lemma NoDup_app_r : forall (a b : list Z), NoDup (a ++ b) -> NoDup b.
  Proof. induction a as [|x t IH]; intros b H; auto. inversion H; subst. auto. Qed.
  Lemma NoDup_app_disj : forall (a b : list Z) x, NoDup (a ++ b) -> In x a -> ~ In x b.
  Proof.
    induction a as [|y t IH]; intros b x H Hx; [inversion Hx|]. inversion H; subst.
    destruct Hx as [->|Hx]; [rewrite in_app_iff in *; tauto|eauto].
  Qed.

  Lemma seg : forall (m : nat) b, (Z.to_nat (n - b) <= m)%nat -> 0 <= b <= n ->
    exists l1 l2, pov n = l1 ++ pov b ++ l2.
  Proof.
    induction m as [|m IH]; intros b Hm Hb.
    - assert (b = n) by lia. subst. exists [], []. now rewrite app_nil_r.
    - destruct (Z.eq_dec b n) as [->|Hne]; [exists [], []; now rewrite app_nil_r|].
      destruct (parent_get b) as [p [Ep Hp]]; [lia|].
      destruct (IH p) as [l1 [l2 E]]; [lia|lia|].
      assert (Hin : In b (kd p)) by (apply kd_in; auto; lia).
      apply in_split in Hin as [k1 [k2 Ek]].
      rewrite (pov_unfold p) in E by lia. rewrite Ek in E. rewrite flat_map_app in E. cbn [flat_map] in E.
      exists (l1 ++ flat_map pov k1), (flat_map pov k2 ++ [p] ++ l2).
      rewrite E. repeat rewrite <- app_assoc. reflexivity.
  Qed.

  (* ancestor relation of a parent array *)
  Inductive anc (par : list Z) : Z -> Z -> Prop :=
  | anc_refl : forall a, anc par a a
  | anc_step : forall a p b, aget par a = Some p -> anc par p b -> anc par a b.

  Lemma anc_trans : forall par a b c, anc par a b -> anc par b c -> anc par a c.
  Proof. induction 1; intros; auto. econstructor; eauto. Qed.

  Lemma pov_self : forall b, 0 <= b -> In b (pov b).
  Proof. intros b Hb. rewrite pov_unfold by auto. apply in_app_iff. simpl; auto. Qed.

  Lemma pov_incl : forall (m : nat) b p, (Z.to_nat b < m)%nat -> 0 <= b -> In p (pov b) -> incl (pov p) (pov b).
  Proof.
    induction m as [|m IH]; intros b p Hm Hb Hin; [lia|].
    rewrite (pov_unfold b Hb) in Hin. apply in_app_iff in Hin as [Hin|[<-|[]]].
    - apply in_flat_map in Hin as [c [Hc Hpc]]. pose proof (kd_lt _ _ Hc) as Hcl.
      intros x Hx. rewrite (pov_unfold b Hb). apply in_app_iff. left. apply in_flat_map. exists c. split; auto.
      apply (IH c p); auto; lia.
    - apply incl_refl.
  Qed.

  Lemma anc_pov : forall a b, 0 <= a <= n -> 0 <= b <= n -> (anc parent a b <-> In a (pov b)).
  Proof.
    intros a b Ha Hb. split.
    - intros H. revert Ha Hb. induction H as [a|a p b Ep Hanc IH]; intros Ha Hb.
      + apply pov_self; lia.
      + assert (Han : 0 <= a < n) by (apply aget_Some_range in Ep; destruct Hfor as [Hl _]; lia).
        destruct (parent_get a Han) as [p' [Ep' Hp]]. assert (p' = p) by congruence. subst p'.
        assert (Hpb : In p (pov b)) by (apply IH; lia).
        apply (pov_incl (S (Z.to_nat b)) b p); auto; try lia.
        rewrite (pov_unfold p) by lia. apply in_app_iff. left. apply in_flat_map. exists a. split.
        * apply kd_in; auto.
        * apply pov_self; lia.
    - revert a Ha. remember (S (Z.to_nat b)) as m eqn:Em. assert (Hm : (Z.to_nat b < m)%nat) by lia. clear Em.
      revert b Hb Hm. induction m as [|m IH]; intros b Hb Hm a Ha Hin; [lia|].
      rewrite (pov_unfold b) in Hin by lia. apply in_app_iff in Hin as [Hin|[<-|[]]]; [|constructor].
      apply in_flat_map in Hin as [c [Hc Hac]]. pose proof (kd_lt _ _ Hc) as Hcl.
      apply (anc_trans _ a c b).
      + apply IH; auto; lia.
      + econstructor; [apply kd_par; eauto|constructor].
  Qed.

  (* children are numbered before their parents *)
  Theorem pos_parent : forall j p, 0 <= j < n -> aget parent j = Some p -> pos j < pos p.
  Proof.
    intros j p Hj Ep. destruct (parent_get j Hj) as [p' [Ep' Hp]]. assert (p' = p) by congruence. subst p'.
    destruct (seg (Z.to_nat (n - p)) p) as [l1 [l2 E]]; [lia|lia|].
    assert (Hin : In j (kd p)) by (apply kd_in; auto).
    apply in_split in Hin as [k1 [k2 Ek]].
    pose proof pov_NoDup as Hnd. unfold pos. rewrite E in *.
    rewrite (pov_unfold p) in * by lia. rewrite Ek in *. rewrite flat_map_app in *. cbn [flat_map] in *.
    rewrite (pov_unfold j) in * by lia.
    (* pov n = l1 ++ ((A ++ (B ++ [j]) ++ C) ++ [p]) ++ l2 *)
    set (A := flat_map pov k1) in *. set (B := flat_map pov (kd j)) in *. set (C := flat_map pov k2) in *.
    assert (Hnd1 : NoDup ((A ++ (B ++ [j]) ++ C) ++ [p])) by (apply NoDup_app_r in Hnd; apply NoDup_app_l in Hnd; auto).
    assert (Hj1 : In j (A ++ (B ++ [j]) ++ C)) by (rewrite !in_app_iff; simpl; auto).
    assert (Hp1 : ~ In p (A ++ (B ++ [j]) ++ C)).
    { intro Hc. apply (NoDup_app_disj _ _ p Hnd1 Hc). simpl; auto. }
    destruct (in_dec Z.eq_dec j l1) as [Hjl|Hjl].
    { exfalso. apply (NoDup_app_disj _ _ j Hnd Hjl). rewrite !in_app_iff. simpl. auto 10. }
    destruct (in_dec Z.eq_dec p l1) as [Hpl|Hpl].
    { exfalso. apply (NoDup_app_disj _ _ p Hnd Hpl). rewrite !in_app_iff. simpl. auto 10. }
    rewrite (idx_app_r l1 _ j Hjl), (idx_app_r l1 _ p Hpl).
    rewrite (idx_app_l _ l2 j) by (rewrite in_app_iff; auto).
    rewrite (idx_app_l _ l2 p) by (rewrite in_app_iff; simpl; auto).
    rewrite (idx_app_l _ [p] j Hj1). rewrite (idx_app_new _ p Hp1).
    apply idx_In in Hj1. lia.
  Qed.

  (* every subtree is a contiguous range of numbers ending at its root *)
  Theorem pos_contiguous : forall b, 0 <= b <= n ->
    exists lo, 0 <= lo <= pos b /\ forall a, 0 <= a <= n -> (anc parent a b <-> lo <= pos a <= pos b).
  Proof.
    intros b Hb. destruct (seg (Z.to_nat (n - b)) b) as [l1 [l2 E]]; [lia|lia|].
    pose proof pov_NoDup as Hnd. rewrite E in Hnd.
    assert (Hndb : NoDup (pov b)) by (apply NoDup_app_r in Hnd; apply NoDup_app_l in Hnd; auto).
    assert (Hbl1 : ~ In b l1).
    { intro Hc. apply (NoDup_app_disj _ _ b Hnd Hc). rewrite in_app_iff. left. apply pov_self. lia. }
    assert (Hposb : pos b = Z.of_nat (length l1) + Z.of_nat (length (pov b)) - 1).
    { unfold pos. rewrite E. rewrite idx_app_r by auto. rewrite idx_app_l by (apply pov_self; lia).
      rewrite (pov_unfold b) in * by lia.
      assert (Hnb : ~ In b (flat_map pov (kd b))).
      { apply NoDup_remove_2 in Hndb. rewrite app_nil_r in Hndb. exact Hndb. }
      rewrite idx_app_new by auto. rewrite app_length. simpl. lia. }
    exists (Z.of_nat (length l1)).
    pose proof (po_length_pos kd kd_lt b ltac:(lia)) as Hlp. fold (pov b) in Hlp.
    split; [lia|].
    intros a Ha. rewrite (anc_pov a b Ha Hb).
    assert (Epa : pos a = Z.of_nat (idx (l1 ++ pov b ++ l2) a)) by (unfold pos; rewrite E; reflexivity).
    rewrite Epa. clear Epa. split.
    - intros Hin.
      assert (Hal1 : ~ In a l1).
      { intro Hc. apply (NoDup_app_disj _ _ a Hnd Hc). rewrite in_app_iff. auto. }
      rewrite idx_app_r by auto. rewrite idx_app_l by auto.
      apply idx_In in Hin. lia.
    - intros Hr.
      destruct (in_dec Z.eq_dec a l1) as [H1|H1].
      { rewrite idx_app_l in Hr by auto. apply idx_In in H1. lia. }
      rewrite idx_app_r in Hr by auto.
      destruct (in_dec Z.eq_dec a (pov b)) as [H2|H2]; auto.
      rewrite idx_app_r in Hr by auto. lia.
  Qed.
End Concrete.

(* ------------------------------------------------------------------------------------------ *)
(* TreePostorder, final form.  The model runs the outer loop of nr_etdfs with fuel n+1 and the climbing
   loop with fuel n: `= Some post` below says that this fuel is sufficient for EVERY forest. *)
Theorem postorder_ok_main : forall n parent, 0 <= n -> forest n parent ->
  exists post, tree_postorder n parent = Some post /\ alen post = n + 1 /\ aget post n = Some n /\
    is_perm n (firstn (Z.to_nat n) post) /\
    (forall j p, 0 <= j < n -> aget parent j = Some p ->
       exists pj pp, aget post j = Some pj /\ aget post p = Some pp /\ pj < pp) /\
    (forall b, 0 <= b <= n -> exists pb lo, aget post b = Some pb /\ 0 <= lo <= pb /\
       forall a, 0 <= a <= n -> exists pa, aget post a = Some pa /\ (anc parent a b <-> lo <= pa <= pb)).
Proof.
  intros n parent Hn Hfor. exists (postv n parent).
  split; [apply tree_postorder_eq; auto|].
  split; [apply postv_len; auto|].
  split; [rewrite postv_get by (auto; lia); f_equal; apply pos_root; auto|].
  split; [apply inj_on_is_perm_firstn; auto; apply postv_inj_on; auto|].
  split.
  - intros j p Hj Ep. destruct (parent_get n parent Hfor j Hj) as [p' [Ep' Hp]]. assert (p' = p) by congruence. subst p'.
    exists (pos n parent j), (pos n parent p). split; [apply postv_get; auto; lia|]. split; [apply postv_get; auto; lia|].
    eapply pos_parent; eauto.
  - intros b Hb. destruct (pos_contiguous n parent Hn Hfor b Hb) as [lo [Hlo Hc]].
    exists (pos n parent b), lo. split; [apply postv_get; auto|]. split; auto.
    intros a Ha. exists (pos n parent a). split; [apply postv_get; auto|auto].
Qed.

(* non-vacuity: a forest with two trees, not numbered in postorder *)
Example postorder_ex : forest 6 [4; 5; 3; 4; 6; 6] /\ tree_postorder 6 [4; 5; 3; 4; 6; 6] = Some [0; 4; 1; 2; 3; 5; 6].
Proof.
  split; [|reflexivity]. split; [reflexivity|]. intros j Hj.
  assert (j = 0 \/ j = 1 \/ j = 2 \/ j = 3 \/ j = 4 \/ j = 5) as [-> | [-> | [-> | [-> | [-> | ->]]]]] by lia;
    eexists; (split; [reflexivity|lia]).
Qed.
