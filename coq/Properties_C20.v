From Coq Require Import ZArith.
From SLU Require Import ReaderModel ReaderProofs.

Theorem slice_index_bound : forall perline persize j : Z,
  (1 <= persize)%Z -> (0 <= j < perline)%Z -> (perline * persize <= 80)%Z ->
  (0 <= j * persize /\ (j + 1) * persize <= 80 /\ (j + 1) * persize < BUFSZ)%Z.
Proof. exact ReaderProofs.slice_index_bound. Qed.
Print Assumptions slice_index_bound.
