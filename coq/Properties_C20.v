From Coq Require Import ZArith List Bool QArith.
From SLU Require Import ReaderModel ReaderProofs ReaderMtProofs ReaderQProofs ReaderExamples.
Import ListNotations.

Theorem parse_int_format_correct : forall (f : ifmt) (tail : list Z),
  ifmt_wf f -> parse_int_format (ifmt_text f ++ tail) = Ok (i_per f, i_w f).
Proof. exact ReaderProofs.parse_int_format_correct. Qed.
Print Assumptions parse_int_format_correct.

Theorem parse_float_format_correct : forall (f : ffmt) (tail : list Z),
  ffmt_wf f -> parse_float_format (ffmt_text f ++ tail) = Ok (f_per f, f_w f).
Proof. exact ReaderProofs.parse_float_format_correct. Qed.
Print Assumptions parse_float_format_correct.

Theorem field_slicing_total : forall (s : list Z) (n perline persize : Z),
  (1 <= persize)%Z -> (perline * persize <= 80)%Z ->
  read_vector s n perline persize <> Err E_OOB /\ read_values s n perline persize <> Err E_OOB.
Proof. exact ReaderProofs.field_slicing_total. Qed.
Print Assumptions field_slicing_total.

Theorem read_print_roundtrip_hb : forall (cplx : bool) (h : hb_opts) (M : csc) (tail : list Z),
  hb_ok cplx h M = true ->
  parse_hb cplx (print_hb h M ++ tail) = Ok (expected_result (h_val h) M).
Proof. exact ReaderProofs.read_print_roundtrip_hb. Qed.
Print Assumptions read_print_roundtrip_hb.

Theorem read_print_roundtrip_rb : forall (cplx : bool) (h : rb_opts) (M : csc) (tail : list Z),
  rb_ok cplx h M = true ->
  parse_rb cplx (print_rb h M ++ tail) = Ok (expected_result (b_val h) M).
Proof. exact ReaderProofs.read_print_roundtrip_rb. Qed.
Print Assumptions read_print_roundtrip_rb.

Theorem read_print_roundtrip_mt : forall (cplx : bool) (title : list Z) (M : csc) (tail : list Z),
  mt_ok cplx title M = true ->
  parse_mt cplx (print_mt cplx title M ++ tail)
  = Ok (mkres (m_nrow M) (m_ncol M) (m_nnz M) (m_colptr M) (m_rowind M) true (m_vals M)).
Proof. exact ReaderMtProofs.read_print_roundtrip_mt. Qed.
Print Assumptions read_print_roundtrip_mt.

Theorem values_read_back_exact_partial : forall (f : ffmt) (vs : list dec),
  ffmt_ok f = true -> Forall (fun v => dec_fits f v = true) vs ->
  Forall2 (fun r v => dec_to_Q r == dec_to_Q v) (map (norm_dec f) vs) vs.
Proof. exact ReaderQProofs.values_read_back_exact_partial. Qed.
Print Assumptions values_read_back_exact_partial.

Theorem descriptor_scale_comma_refuted :
  exists d : list Z,
    d = descr_scale_comma
    /\ (forall tail, parse_float_format (d ++ tail) = Ok (0%Z, 16%Z))
    /\ (forall s n w, (0 < n)%Z -> read_values s n 0 w = Err E_HANG).
Proof. exact ReaderExamples.descriptor_scale_comma_refuted_lemma. Qed.
Print Assumptions descriptor_scale_comma_refuted.
