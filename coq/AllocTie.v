(* AllocTie.v (property C05): the bump allocators of the factor storage, Glu_alloc and DynamicSetMap, RE-TRANSLATED from the current C
   source (AllocGen.v, generated on every run by tools/gen_trans.py from SRC/pmemory.c, one file for all precisions) compute exactly
   what the hand-written model AllocModel.v computes (bump for UCOL / USUB / LSUB and for the dynamic L-supernode storage, lusup_alloc
   for LUSUP), for ALL argument values: the equalities need no hypothesis (both sides are arithmetic in Z).  Hence the theorems of
   Properties_C05.v about bump / bump_all are theorems about what the source says now.

   Correspondence of the arguments of gen_Glu_alloc pnum jcol num mem_type prev0 m nextlu nextu nextl nzlumax nzumax nzlmax
     mem_type (an int_t / MemType)   its storage class [class_of mem_type]: LUSUP | UCOL or USUB (one shared next-pointer nextu) | LSUB |
                                     none of the four values (the C switch has no default: nothing happens, 0 is returned)
     prev0                           *prev_next on entry (only visible for a mem_type outside the enumeration)
     m                               the array Glu->map_in_sup as a function Z -> Z; a store is C2GalLib.zupd
     nextlu .. nzlmax                the fields of *pxgstrf_shared->Glu on entry
     result                          Returned (0, *prev_next, map_in_sup, (nextlu, nextu, nextl, nzlumax, nzumax, nzlmax)) on return,
                                     Aborted = the XPAND_HINT path (SUPERLU_ABORT)          = the model's  bump .. = None
   The lock discipline (nextu only under lu_locks[ULOCK], nextl only under LLOCK, nextlu only under LULOCK, all locks released on
   return) is checked by the translator while it generates AllocGen.v: a violation leaves the definition out, and this file
   no longer compiles. *)
Require Import ZArith List Bool Lia ZifyBool.
From SLU Require Import C2GalLib SchedModel SchedBase AllocModel AllocProofs AllocGen.
Import ListNotations.
Local Open Scope Z_scope.

Definition cells : Type := (Z * Z * Z * Z * Z * Z)%type.      (* nextlu, nextu, nextl, nzlumax, nzumax, nzlmax *)

(* ---- storage classes: which next-pointer a mem_type bumps ---- *)
Inductive sclass : Set := SC_LUSUP | SC_U | SC_L | SC_none.
Definition class_of (mt : Z) : sclass :=
  if mt =? gen_LUSUP then SC_LUSUP
  else if (mt =? gen_UCOL) || (mt =? gen_USUB) then SC_U
  else if mt =? gen_LSUB then SC_L
  else SC_none.

(* the four values of the enumeration are distinct and fall into the expected classes (the hypotheses `class_of mt = ..` below
   are satisfiable) *)
Lemma memtypes_distinct : NoDup [gen_LUSUP; gen_UCOL; gen_LSUB; gen_USUB].
Proof.
  unfold gen_LUSUP, gen_UCOL, gen_LSUB, gen_USUB.
  repeat (constructor; [cbn [In]; lia|]). constructor.
Qed.
Lemma class_LUSUP : class_of gen_LUSUP = SC_LUSUP. Proof. reflexivity. Qed.
Lemma class_UCOL : class_of gen_UCOL = SC_U. Proof. reflexivity. Qed.
Lemma class_USUB : class_of gen_USUB = SC_U. Proof. reflexivity. Qed.
Lemma class_LSUB : class_of gen_LSUB = SC_L. Proof. reflexivity. Qed.

(* the leading column of the H-supernode slot of jcol: map_in_sup[jcol] < 0 points back to it *)
Definition lusup_leader (m : Z -> Z) (jcol : Z) : Z := if m jcol <? 0 then jcol + m jcol else jcol.

(* ---- the model, in the shape of the generated functions ---- *)
Definition model_Glu_alloc (jcol num mt prev0 : Z) (m : Z -> Z) (nextlu nextu nextl nzlumax nzumax nzlmax : Z)
  : outcome (Z * Z * (Z -> Z) * cells) :=
  match class_of mt with
  | SC_LUSUP => let f := lusup_leader m jcol in
                let b := lusup_alloc (m f) num in
                Returned (0, fst b, zupd m f (snd b), (nextlu, nextu, nextl, nzlumax, nzumax, nzlmax))
  | SC_U => match bump nextu nzumax num with
            | None => Aborted
            | Some (p, nx) => Returned (0, p, m, (nextlu, nx, nextl, nzlumax, nzumax, nzlmax))
            end
  | SC_L => match bump nextl nzlmax num with
            | None => Aborted
            | Some (p, nx) => Returned (0, p, m, (nextlu, nextu, nx, nzlumax, nzumax, nzlmax))
            end
  | SC_none => Returned (0, prev0, m, (nextlu, nextu, nextl, nzlumax, nzumax, nzlmax))
  end.

(* DynamicSetMap: the slot of the H-supernode led by jcol is carved from lusup[] when its first column is reached *)
Definition model_DynamicSetMap (jcol num : Z) (m : Z -> Z) (nextlu nextu nextl nzlumax nzumax nzlmax : Z)
  : outcome (Z * (Z -> Z) * cells) :=
  match bump nextlu nzlumax num with
  | None => Aborted
  | Some (p, nx) => Returned (0, zupd m jcol p, (nx, nextu, nextl, nzlumax, nzumax, nzlmax))
  end.

(* ---- the tie tactic ----
   Both sides are unfolded to decision trees over Z.  First plain convertibility is tried (after > and >= are turned into < and <=);
   when that fails the trees are walked (C2GalLib.c2g_walk): one destruct per atomic test, kept as a hypothesis; a leaf is closed
   when both sides are the same constructor with componentwise equal values (linear arithmetic, under map_in_sup and zupd), or when
   the path is contradictory (this is where the values of the enumeration are looked at).  The walk survives harmless rewrites
   (switch vs if-chain, cases reordered, tests restated, a + b vs b + a, extra locals, statements reordered inside the critical
   section); it FAILS when on a satisfiable path the two sides decide or compute differently. *)
Ltac alloc_leaf :=
  first [ reflexivity
        | solve [ c2g_tuple; c2g_arith ]
        | solve [ exfalso; unfold gen_LUSUP, gen_UCOL, gen_LSUB, gen_USUB in *; lia ] ].

Ltac tie_alloc :=
  intros;
  cbv beta delta [model_Glu_alloc model_DynamicSetMap class_of lusup_leader lusup_alloc bump fst snd] iota zeta;
  rewrite ?Z.geb_leb, ?Z.gtb_ltb;
  first [ reflexivity | c2g_walk alloc_leaf ].

(* ---- the tie theorems: no hypothesis ---- *)
Theorem tie_Glu_alloc : forall pnum jcol num mt prev0 m nextlu nextu nextl nzlumax nzumax nzlmax,
  gen_Glu_alloc pnum jcol num mt prev0 m nextlu nextu nextl nzlumax nzumax nzlmax
  = model_Glu_alloc jcol num mt prev0 m nextlu nextu nextl nzlumax nzumax nzlmax.
Proof. unfold gen_Glu_alloc. tie_alloc. Qed.

Theorem tie_DynamicSetMap : forall pnum jcol num m nextlu nextu nextl nzlumax nzumax nzlmax,
  gen_DynamicSetMap pnum jcol num m nextlu nextu nextl nzlumax nzumax nzlmax
  = model_DynamicSetMap jcol num m nextlu nextu nextl nzlumax nzumax nzlmax.
Proof. unfold gen_DynamicSetMap. tie_alloc. Qed.

(* ---- per storage type: the translated function computes the model's bump ----
   new next-pointer = snd of the model's block, *prev_next = fst, Aborted exactly when the model reports exhaustion; the other
   next-pointers, the maxima and map_in_sup are returned unchanged *)
Theorem src_alloc_U : forall pnum jcol num mt prev0 m nextlu nextu nextl nzlumax nzumax nzlmax,
  class_of mt = SC_U ->
  gen_Glu_alloc pnum jcol num mt prev0 m nextlu nextu nextl nzlumax nzumax nzlmax
  = match bump nextu nzumax num with
    | None => Aborted
    | Some (p, nx) => Returned (0, p, m, (nextlu, nx, nextl, nzlumax, nzumax, nzlmax))
    end.
Proof. intros * Hc. rewrite tie_Glu_alloc. unfold model_Glu_alloc. rewrite Hc. reflexivity. Qed.

Theorem src_alloc_L : forall pnum jcol num mt prev0 m nextlu nextu nextl nzlumax nzumax nzlmax,
  class_of mt = SC_L ->
  gen_Glu_alloc pnum jcol num mt prev0 m nextlu nextu nextl nzlumax nzumax nzlmax
  = match bump nextl nzlmax num with
    | None => Aborted
    | Some (p, nx) => Returned (0, p, m, (nextlu, nextu, nx, nzlumax, nzumax, nzlmax))
    end.
Proof. intros * Hc. rewrite tie_Glu_alloc. unfold model_Glu_alloc. rewrite Hc. reflexivity. Qed.

(* LUSUP: the unchecked bump inside the slot of the H-supernode (the model's lusup_alloc on the slot pointer map_in_sup[fsupc]);
   it never aborts and touches none of the Glu cells *)
Theorem src_alloc_LUSUP : forall pnum jcol num mt prev0 m nextlu nextu nextl nzlumax nzumax nzlmax,
  class_of mt = SC_LUSUP ->
  gen_Glu_alloc pnum jcol num mt prev0 m nextlu nextu nextl nzlumax nzumax nzlmax
  = let f := lusup_leader m jcol in
    Returned (0, fst (lusup_alloc (m f) num), zupd m f (snd (lusup_alloc (m f) num)), (nextlu, nextu, nextl, nzlumax, nzumax, nzlmax)).
Proof. intros * Hc. rewrite tie_Glu_alloc. unfold model_Glu_alloc. rewrite Hc. reflexivity. Qed.

Theorem src_alloc_none : forall pnum jcol num mt prev0 m nextlu nextu nextl nzlumax nzumax nzlmax,
  class_of mt = SC_none ->
  gen_Glu_alloc pnum jcol num mt prev0 m nextlu nextu nextl nzlumax nzumax nzlmax
  = Returned (0, prev0, m, (nextlu, nextu, nextl, nzlumax, nzumax, nzlmax)).
Proof. intros * Hc. rewrite tie_Glu_alloc. unfold model_Glu_alloc. rewrite Hc. reflexivity. Qed.

(* abort exactly when the model reports exhaustion *)
Theorem src_alloc_abort_iff : forall pnum jcol num mt prev0 m nextlu nextu nextl nzlumax nzumax nzlmax,
  gen_Glu_alloc pnum jcol num mt prev0 m nextlu nextu nextl nzlumax nzumax nzlmax = Aborted <->
  (class_of mt = SC_U /\ bump nextu nzumax num = None) \/ (class_of mt = SC_L /\ bump nextl nzlmax num = None).
Proof.
  intros *. rewrite tie_Glu_alloc. unfold model_Glu_alloc.
  destruct (class_of mt) eqn:Hc; cbv zeta.
  - split; [discriminate | intros [[Hk _]|[Hk _]]; discriminate].
  - destruct (bump nextu nzumax num) as [[p nx]|] eqn:Hb.
    + split; [discriminate | intros [[_ Hk]|[Hk _]]; discriminate].
    + split; [intros _; left; split; reflexivity | reflexivity].
  - destruct (bump nextl nzlmax num) as [[p nx]|] eqn:Hb.
    + split; [discriminate | intros [[Hk _]|[_ Hk]]; discriminate].
    + split; [intros _; right; split; reflexivity | reflexivity].
  - split; [discriminate | intros [[Hk _]|[Hk _]]; discriminate].
Qed.

(* the array model of AllocModel / SchedModel (lists with nthZ / updZ) is the function view used here *)
Lemma zupd_nthZ : forall l i v j, 0 <= i < lenZ l -> zupd (nthZ l) i v j = nthZ (updZ l i v) j.
Proof. intros l i v j Hi. unfold zupd. rewrite nthZ_updZ by exact Hi. reflexivity. Qed.

(* ---- non-vacuity: the translated function on concrete values (nzumax = 10, nextu = 4) ---- *)
Example glu_alloc_runs :
  gen_Glu_alloc 0 7 5 gen_UCOL 99 (fun _ => 0) 1 4 2 100 10 20 = Returned (0, 4, (fun _ => 0), (1, 9, 2, 100, 10, 20)) /\
  gen_Glu_alloc 0 7 6 gen_USUB 99 (fun _ => 0) 1 4 2 100 10 20 = Returned (0, 4, (fun _ => 0), (1, 10, 2, 100, 10, 20)) /\
  gen_Glu_alloc 0 7 7 gen_UCOL 99 (fun _ => 0) 1 4 2 100 10 20 = Aborted /\
  gen_Glu_alloc 0 7 3 gen_LSUB 99 (fun _ => 0) 1 4 2 100 10 20 = Returned (0, 2, (fun _ => 0), (1, 4, 5, 100, 10, 20)) /\
  (exists m', gen_Glu_alloc 0 7 3 gen_LUSUP 99 (fun j => if j =? 7 then -2 else 40) 1 4 2 100 10 20
              = Returned (0, 40, m', (1, 4, 2, 100, 10, 20)) /\ m' 5 = 43 /\ m' 7 = -2) /\
  (exists m', gen_DynamicSetMap 0 7 30 (fun _ => 0) 1 4 2 100 10 20 = Returned (0, m', (31, 4, 2, 100, 10, 20)) /\ m' 7 = 1) /\
  gen_DynamicSetMap 0 7 100 (fun _ => 0) 1 4 2 100 10 20 = Aborted.
Proof.
  repeat split; try reflexivity.
  - eexists. split; [reflexivity|]. split; reflexivity.
  - eexists. split; reflexivity.
Qed.

(* ---- a run of the translated function over a list of requests (mem_type, jcol, num), in any interleaving of the storage types ----
   the Glu cells and map_in_sup are threaded from call to call; a block is (mem_type, ( *prev_next, next-pointer of its class after
   the call)); an abort of any call aborts the run *)
Definition next_of (k : sclass) (c : cells) : Z :=
  let '(nextlu, nextu, nextl, _, _, _) := c in match k with SC_U => nextu | SC_L => nextl | _ => nextlu end.
Definition max_of (k : sclass) (c : cells) : Z :=
  let '(_, _, _, nzlumax, nzumax, nzlmax) := c in match k with SC_U => nzumax | SC_L => nzlmax | _ => nzlumax end.

Definition call_Glu_alloc (pnum jcol num mt prev0 : Z) (m : Z -> Z) (c : cells) : outcome (Z * Z * (Z -> Z) * cells) :=
  let '(nextlu, nextu, nextl, nzlumax, nzumax, nzlmax) := c in
  gen_Glu_alloc pnum jcol num mt prev0 m nextlu nextu nextl nzlumax nzumax nzlmax.

Fixpoint src_run (pnum prev0 : Z) (m : Z -> Z) (c : cells) (reqs : list (Z * Z * Z))
  : outcome (list (Z * (Z * Z)) * ((Z -> Z) * cells)) :=
  match reqs with
  | [] => Returned ([], (m, c))
  | (mt, jcol, num) :: t =>
      match call_Glu_alloc pnum jcol num mt prev0 m c with
      | Aborted => Aborted
      | Returned (_, prev, m', c') =>
          match src_run pnum prev0 m' c' t with
          | Aborted => Aborted
          | Returned (l, fin) => Returned ((mt, (prev, next_of (class_of mt) c')) :: l, fin)
          end
      end
  end.

Definition sclass_eqb (a b : sclass) : bool :=
  match a, b with SC_LUSUP, SC_LUSUP | SC_U, SC_U | SC_L, SC_L | SC_none, SC_none => true | _, _ => false end.
Definition reqs_of (k : sclass) (reqs : list (Z * Z * Z)) : list Z :=
  map snd (filter (fun r => sclass_eqb (class_of (fst (fst r))) k) reqs).
Definition blocks_of (k : sclass) (l : list (Z * (Z * Z))) : list (Z * Z) :=
  map snd (filter (fun b => sclass_eqb (class_of (fst b)) k) l).

(* the blocks of one locked storage type (U or L) handed out by a run of the translated function are those of the model's
   bump_all on the requests of that type, whatever the other requests in between do *)
Theorem src_run_is_bump_all : forall k, k = SC_U \/ k = SC_L ->
  forall reqs pnum prev0 m c l fin,
  src_run pnum prev0 m c reqs = Returned (l, fin) ->
  bump_all (next_of k c) (max_of k c) (reqs_of k reqs) = Some (blocks_of k l).
Proof.
  intros k Hk reqs. induction reqs as [|[[mt jcol] num] t IH]; intros pnum prev0 m c l fin Hrun.
  - cbn in Hrun. apply Returned_inj in Hrun. injection Hrun as Hl _. subst l. reflexivity.
  - destruct c as [[[[[nextlu nextu] nextl] nzlumax] nzumax] nzlmax].
    cbn [src_run call_Glu_alloc] in Hrun. rewrite tie_Glu_alloc in Hrun. unfold model_Glu_alloc in Hrun.
    unfold reqs_of, blocks_of in *. cbn [filter fst snd].
    destruct (class_of mt) eqn:Hc; cbv zeta in Hrun.
    + (* LUSUP: no cell changes *)
      destruct (src_run pnum prev0 _ _ t) as [[l' fin']|] eqn:Hrec; [|discriminate].
      apply Returned_inj in Hrun. injection Hrun as Hl _. subst l. cbn [filter fst snd]. rewrite Hc.
      specialize (IH _ _ _ _ _ _ Hrec).
      destruct Hk as [-> | ->]; cbn [sclass_eqb]; exact IH.
    + (* U *)
      unfold bump in Hrun. destruct (nzumax <? nextu + num) eqn:Hfit; [discriminate|].
      destruct (src_run pnum prev0 _ _ t) as [[l' fin']|] eqn:Hrec; [|discriminate].
      apply Returned_inj in Hrun. injection Hrun as Hl _. subst l. cbn [filter fst snd]. rewrite Hc.
      specialize (IH _ _ _ _ _ _ Hrec).
      destruct Hk as [-> | ->]; cbn [sclass_eqb map snd bump_all next_of max_of] in *.
      * unfold bump. rewrite Hfit. rewrite IH. reflexivity.
      * exact IH.
    + (* L *)
      unfold bump in Hrun. destruct (nzlmax <? nextl + num) eqn:Hfit; [discriminate|].
      destruct (src_run pnum prev0 _ _ t) as [[l' fin']|] eqn:Hrec; [|discriminate].
      apply Returned_inj in Hrun. injection Hrun as Hl _. subst l. cbn [filter fst snd]. rewrite Hc.
      specialize (IH _ _ _ _ _ _ Hrec).
      destruct Hk as [-> | ->]; cbn [sclass_eqb map snd bump_all next_of max_of] in *.
      * exact IH.
      * unfold bump. rewrite Hfit. rewrite IH. reflexivity.
    + (* a mem_type outside the enumeration: nothing happens *)
      destruct (src_run pnum prev0 _ _ t) as [[l' fin']|] eqn:Hrec; [|discriminate].
      apply Returned_inj in Hrun. injection Hrun as Hl _. subst l. cbn [filter fst snd]. rewrite Hc.
      specialize (IH _ _ _ _ _ _ Hrec).
      destruct Hk as [-> | ->]; cbn [sclass_eqb]; exact IH.
Qed.

(* hence the C05 statement about the model (c05_bump_safe + c05_bump_disjoint) holds for the translated function: the blocks of
   one locked storage type are inside [next, max], consecutive, pairwise disjoint, one per request of that type *)
Theorem src_run_blocks_safe : forall k, k = SC_U \/ k = SC_L ->
  forall reqs pnum prev0 m c l fin,
  0 <= next_of k c -> (forall r, In r (reqs_of k reqs) -> 0 <= r) ->
  src_run pnum prev0 m c reqs = Returned (l, fin) ->
  blocks_ok (next_of k c) (max_of k c) (blocks_of k l) /\ consecutive (next_of k c) (blocks_of k l) /\
  ForallOrdPairs (fun a b => snd a <= fst b) (blocks_of k l) /\ length (blocks_of k l) = length (reqs_of k reqs).
Proof.
  intros k Hk reqs pnum prev0 m c l fin Hnext Hreq Hrun.
  pose proof (src_run_is_bump_all k Hk reqs pnum prev0 m c l fin Hrun) as Hb.
  destruct (bump_safe _ _ _ _ Hnext Hreq Hb) as (Hok & Hcons & Hlen).
  split; [exact Hok|]. split; [exact Hcons|]. split; [|exact Hlen].
  apply (consecutive_disjoint _ _ Hcons). intros b Hin. destruct (Hok b Hin) as (_ & Hle & _). exact Hle.
Qed.

(* non-vacuity of the run: U and L requests interleaved with a LUSUP request, everything fits *)
Example src_run_example :
  exists fin, src_run 0 99 (fun _ => 0) (0, 4, 2, 100, 10, 20) [(gen_UCOL, 1, 3); (gen_LSUB, 1, 5); (gen_LUSUP, 1, 8); (gen_USUB, 2, 3)]
              = Returned ([(gen_UCOL, (4, 7)); (gen_LSUB, (2, 7)); (gen_LUSUP, (0, 0)); (gen_USUB, (7, 10))], fin).
Proof. eexists. reflexivity. Qed.

(* ---- the statement used by Properties_C05: in terms of AllocModel.bump / lusup_alloc only ---- *)
Theorem source_alloc_is_model : forall pnum jcol num mt prev0 m nextlu nextu nextl nzlumax nzumax nzlmax,
  let run := gen_Glu_alloc pnum jcol num mt prev0 m nextlu nextu nextl nzlumax nzumax nzlmax in
  (class_of mt = SC_U ->
     run = match bump nextu nzumax num with
           | None => Aborted
           | Some (p, nx) => Returned (0, p, m, (nextlu, nx, nextl, nzlumax, nzumax, nzlmax))
           end) /\
  (class_of mt = SC_L ->
     run = match bump nextl nzlmax num with
           | None => Aborted
           | Some (p, nx) => Returned (0, p, m, (nextlu, nextu, nx, nzlumax, nzumax, nzlmax))
           end) /\
  (class_of mt = SC_LUSUP ->
     run = let f := lusup_leader m jcol in
           Returned (0, fst (lusup_alloc (m f) num), zupd m f (snd (lusup_alloc (m f) num)),
                     (nextlu, nextu, nextl, nzlumax, nzumax, nzlmax))) /\
  (class_of mt = SC_none -> run = Returned (0, prev0, m, (nextlu, nextu, nextl, nzlumax, nzumax, nzlmax))).
Proof.
  intros *. cbv zeta. split; [apply src_alloc_U|]. split; [apply src_alloc_L|]. split; [apply src_alloc_LUSUP | apply src_alloc_none].
Qed.

Theorem source_dynamic_setmap_is_model : forall pnum jcol num m nextlu nextu nextl nzlumax nzumax nzlmax,
  gen_DynamicSetMap pnum jcol num m nextlu nextu nextl nzlumax nzumax nzlmax
  = match bump nextlu nzlumax num with
    | None => Aborted
    | Some (p, nx) => Returned (0, zupd m jcol p, (nx, nextu, nextl, nzlumax, nzumax, nzlmax))
    end.
Proof. exact tie_DynamicSetMap. Qed.
