(* NumSum.v -- rounded summation in ANY order (any binary tree over the terms), with the two classical lemmas:
   (1) every term is perturbed by at most m-1 roundings;
   (2) "distinguished leaf": relative to one chosen term c, the computed sum is a common factor (at most m-1 roundings)
       times  c + sum of the other terms each perturbed by at most m-2 roundings.
   (2) is what keeps the constant gamma(n) in the LU bound although SuperLU accumulates the products first. *)
From Coq Require Import Reals Lra Lia List Permutation.
From SLU Require Import NumBase.
Import ListNotations.
Local Open Scope R_scope.

Inductive tree := Leaf (x : R) | Node (l r : tree).
Fixpoint leaves (t : tree) : list R := match t with Leaf x => [x] | Node l r => leaves l ++ leaves r end.
Fixpoint size (t : tree) : nat := match t with Leaf _ => 1 | Node l r => size l + size r end.

Lemma size_pos t : (1 <= size t)%nat. Proof. induction t; simpl; lia. Qed.
Lemma size_leaves t : length (leaves t) = size t.
Proof. induction t; simpl; auto. rewrite app_length. lia. Qed.

Definition wsum (xs ws : list R) : R := fold_right Rplus 0 (map (fun p => fst p * (1 + snd p)) (combine xs ws)).

Lemma wsum_app xs1 ws1 xs2 ws2 : length xs1 = length ws1 -> wsum (xs1 ++ xs2) (ws1 ++ ws2) = wsum xs1 ws1 + wsum xs2 ws2.
Proof.
  unfold wsum. revert ws1. induction xs1 as [|x xs IH]; intros [|w ws] H; simpl in *; try lia; [lra|].
  rewrite IH by lia. lra.
Qed.

Lemma wsum_scale xs ws f : wsum xs (map (fun w => (1 + w) * (1 + f) - 1) ws) = (1 + f) * wsum xs ws.
Proof.
  unfold wsum. revert ws. induction xs as [|x xs IH]; intros [|w ws]; simpl; try lra. rewrite IH. ring.
Qed.

Lemma wsum_scale_div xs ws f : 1 + f <> 0 -> wsum xs (map (fun w => (1 + w) / (1 + f) - 1) ws) = wsum xs ws / (1 + f).
Proof.
  intros Hf. unfold wsum. revert ws. induction xs as [|x xs IH]; intros [|w ws]; simpl; try (field; auto). rewrite IH. field; auto.
Qed.

Section SUM.
Variable u : R.
Hypothesis Hu0 : 0 <= u.
Hypothesis Hu1 : u < 1.

(* evaluation of a summation tree with one rounding per addition *)
Inductive fl_eval : tree -> R -> Prop :=
| ev_leaf x : fl_eval (Leaf x) x
| ev_node l r sl sr s : fl_eval l sl -> fl_eval r sr -> fl_eq u (sl + sr) s -> fl_eval (Node l r) s.

(* s is a rounded sum of the terms M evaluated in some order *)
Definition fl_sum_any (M : list R) (s : R) : Prop := exists t, Permutation (leaves t) M /\ fl_eval t s.

Lemma Forall_Theta_weaken k m ws : (k <= m)%nat -> Forall (Theta u k) ws -> Forall (Theta u m) ws.
Proof. intros H F. eapply Forall_impl; [|exact F]. intros a Ha. eapply Theta_weaken; eauto. Qed.

Lemma eval_plain t s : fl_eval t s ->
  exists ws, length ws = size t /\ Forall (Theta u (size t - 1)) ws /\ s = wsum (leaves t) ws.
Proof.
  induction 1 as [x|l r sl sr s Hl IHl Hr IHr Hs].
  - exists [0]. simpl. split; auto. split; [repeat constructor|]. unfold wsum. simpl. lra.
  - destruct IHl as (wl & Ll & Fl & El). destruct IHr as (wr & Lr & Fr & Er). destruct Hs as (d & Hd & Es).
    pose proof (size_pos l). pose proof (size_pos r).
    exists (map (fun w => (1 + w) * (1 + d) - 1) wl ++ map (fun w => (1 + w) * (1 + d) - 1) wr).
    split; [rewrite app_length, !map_length; simpl; lia|]. split.
    + apply Forall_app. split.
      * apply Forall_map. eapply Forall_impl; [|exact Fl]. intros a Ha. cbn beta.
        apply (Theta_weaken u (S (size l - 1))); [now apply ThMul | simpl; lia].
      * apply Forall_map. eapply Forall_impl; [|exact Fr]. intros a Ha. cbn beta.
        apply (Theta_weaken u (S (size r - 1))); [now apply ThMul | simpl; lia].
    + simpl leaves. rewrite wsum_app by (rewrite map_length, size_leaves; lia).
      rewrite !wsum_scale. rewrite Es, El, Er. ring.
Qed.

(* tree t has the distinguished leaf c; o lists its other leaves *)
Inductive dl : tree -> R -> list R -> Prop :=
| dl_leaf c : dl (Leaf c) c []
| dl_left l r c o : dl l c o -> dl (Node l r) c (o ++ leaves r)
| dl_right l r c o : dl r c o -> dl (Node l r) c (leaves l ++ o).

Lemma dl_length t c o : dl t c o -> S (length o) = size t.
Proof. induction 1; simpl; auto; rewrite app_length, size_leaves; lia. Qed.

Lemma dl_perm t c o : dl t c o -> Permutation (leaves t) (c :: o).
Proof.
  induction 1; simpl.
  - constructor. constructor.
  - apply Permutation_trans with ((c :: o) ++ leaves r); [now apply Permutation_app_tail | reflexivity].
  - apply Permutation_trans with (leaves l ++ c :: o); [now apply Permutation_app_head|].
    symmetry. apply Permutation_middle.
Qed.

Lemma dl_exists t c : In c (leaves t) -> exists o, dl t c o.
Proof.
  induction t as [x|l IHl r IHr]; simpl; intros H.
  - destruct H as [->|[]]. eexists; constructor.
  - apply in_app_iff in H. destruct H as [H|H].
    + destruct (IHl H) as (o & D). eexists; apply dl_left; eauto.
    + destruct (IHr H) as (o & D). eexists; apply dl_right; eauto.
Qed.

Lemma eval_dl t s : fl_eval t s -> forall c o, dl t c o ->
  exists f ws, Theta u (size t - 1) f /\ length ws = length o /\ Forall (Theta u (size t - 2)) ws /\
               s = (1 + f) * (c + wsum o ws).
Proof.
  induction 1 as [x|l r sl sr s Hl IHl Hr IHr Hs]; intros c o D.
  - inversion D; subst. exists 0, []. simpl. split; [constructor|]. split; auto. split; [constructor|]. unfold wsum. simpl. lra.
  - destruct Hs as (d & Hd & Es). pose proof (size_pos l) as Pl. pose proof (size_pos r) as Pr.
    inversion D as [|l0 r0 c0 o0 D0|l0 r0 c0 o0 D0]; subst.
    + (* the distinguished leaf is on the left *)
      destruct (IHl c o0 D0) as (f & wl & Tf & Lw & Fw & El).
      destruct (eval_plain r sr Hr) as (wr & Lr & Fr & Er).
      pose proof (Theta_pos u Hu0 Hu1 _ _ Tf) as Pf.
      exists ((1 + f) * (1 + d) - 1), (wl ++ map (fun w => (1 + w) / (1 + f) - 1) wr).
      split; [apply (Theta_weaken u (S (size l - 1))); [now apply ThMul | simpl; lia]|].
      split; [rewrite !app_length, map_length, size_leaves; lia|]. split.
      * apply Forall_app. split.
        -- apply (Forall_Theta_weaken (size l - 2)); [simpl; lia | exact Fw].
        -- apply Forall_map. eapply Forall_impl; [|exact Fr]. intros a Ha. cbn beta.
           apply (Theta_weaken u ((size r - 1) + (size l - 1))); [now apply Theta_div | simpl; lia].
      * rewrite wsum_app by lia. rewrite wsum_scale_div by lra. rewrite El, Er. field. lra.
    + (* ... on the right *)
      destruct (IHr c o0 D0) as (f & wr & Tf & Lw & Fw & Er).
      destruct (eval_plain l sl Hl) as (wl & Ll & Fl & El).
      pose proof (Theta_pos u Hu0 Hu1 _ _ Tf) as Pf.
      exists ((1 + f) * (1 + d) - 1), (map (fun w => (1 + w) / (1 + f) - 1) wl ++ wr).
      split; [apply (Theta_weaken u (S (size r - 1))); [now apply ThMul | simpl; lia]|].
      split; [rewrite !app_length, map_length, size_leaves; lia|]. split.
      * apply Forall_app. split.
        -- apply Forall_map. eapply Forall_impl; [|exact Fl]. intros a Ha. cbn beta.
           apply (Theta_weaken u ((size l - 1) + (size r - 1))); [now apply Theta_div | simpl; lia].
        -- apply (Forall_Theta_weaken (size r - 2)); [simpl; lia | exact Fw].
      * rewrite wsum_app by (rewrite map_length, size_leaves; lia). rewrite wsum_scale_div by lra. rewrite El, Er. field. lra.
Qed.

(* the form used by the LU analysis: a rounded sum, in any order, of c and the terms M *)
Theorem sum_any_distinguished c M s : fl_sum_any (c :: M) s ->
  exists f M' ws, Permutation M' M /\ Theta u (length M) f /\ length ws = length M' /\
                  Forall (Theta u (length M - 1)) ws /\ s = (1 + f) * (c + wsum M' ws).
Proof.
  intros (t & P & E).
  assert (Hin : In c (leaves t)) by (eapply Permutation_in; [symmetry; exact P | now left]).
  destruct (dl_exists t c Hin) as (o & D).
  destruct (eval_dl t s E c o D) as (f & ws & Tf & Lw & Fw & Es).
  pose proof (dl_length _ _ _ D) as Ld. pose proof (dl_perm _ _ _ D) as Pd.
  assert (Po : Permutation o M).
  { apply Permutation_cons_inv with c. apply Permutation_trans with (leaves t); [now symmetry | exact P]. }
  pose proof (Permutation_length Po) as Lo.
  exists f, o, ws. split; auto. split; [replace (length M) with (size t - 1)%nat by lia; exact Tf|].
  split; auto. split; [replace (length M - 1)%nat with (size t - 2)%nat by lia; exact Fw | exact Es].
Qed.
End SUM.
