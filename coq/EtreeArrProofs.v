(* EtreeArrProofs.v -- lemmas about the array / loop combinators of EtreeModel.v *)
From Coq Require Import ZArith List Bool Lia Permutation.
From SLU Require Import EtreeModel.
Import ListNotations.
Local Open Scope Z_scope.

(* ------------------------------------------------------------------------------------------ *)
(* aget / aset                                                                                 *)
Lemma alen_nonneg : forall a, 0 <= alen a.
Proof. intros; unfold alen; lia. Qed.

Lemma aget_Some_range : forall a i v, aget a i = Some v -> 0 <= i < alen a.
Proof.
  unfold aget, alen; intros a i v H.
  destruct (i <? 0) eqn:E; [discriminate|].
  apply Z.ltb_ge in E.
  assert (Hn : nth_error a (Z.to_nat i) <> None) by congruence.
  apply nth_error_Some in Hn. lia.
Qed.

Lemma aget_range_Some : forall a i, 0 <= i < alen a -> exists v, aget a i = Some v.
Proof.
  unfold aget, alen; intros a i H.
  destruct (i <? 0) eqn:E; [apply Z.ltb_lt in E; lia|].
  destruct (nth_error a (Z.to_nat i)) eqn:N; [eauto|].
  apply nth_error_None in N. lia.
Qed.

Lemma aget_None_range : forall a i, aget a i = None -> i < 0 \/ alen a <= i.
Proof.
  intros a i H. destruct (Z_lt_dec i 0); [auto|]. destruct (Z_lt_dec i (alen a)); [|lia].
  destruct (aget_range_Some a i) as [v Hv]; [lia|congruence].
Qed.

Lemma aget_nth : forall a i v d, aget a i = Some v -> nth (Z.to_nat i) a d = v.
Proof.
  unfold aget; intros a i v d H. destruct (i <? 0); [discriminate|].
  now apply nth_error_nth.
Qed.

Lemma aget_nth_error : forall a i, 0 <= i -> aget a i = nth_error a (Z.to_nat i).
Proof. unfold aget; intros a i H. destruct (i <? 0) eqn:E; [apply Z.ltb_lt in E; lia|reflexivity]. Qed.

Lemma aget_of_nat : forall a (k : nat), aget a (Z.of_nat k) = nth_error a k.
Proof. intros. rewrite aget_nth_error by lia. now rewrite Nat2Z.id. Qed.

Lemma aget_In : forall a i v, aget a i = Some v -> In v a.
Proof. unfold aget; intros a i v H. destruct (i <? 0); [discriminate|]. eapply nth_error_In; eauto. Qed.

Lemma In_aget : forall a v, In v a -> exists i, 0 <= i < alen a /\ aget a i = Some v.
Proof.
  intros a v H. apply In_nth_error in H. destruct H as [k Hk].
  exists (Z.of_nat k). split.
  - assert (nth_error a k <> None) by congruence. apply nth_error_Some in H. unfold alen; lia.
  - now rewrite aget_of_nat.
Qed.

Lemma upd_length : forall a i v, length (upd a i v) = length a.
Proof. induction a as [|h t IH]; intros [|i] v; simpl; auto. Qed.

Lemma alen_upd : forall a i v, alen (upd a i v) = alen a.
Proof. intros; unfold alen; now rewrite upd_length. Qed.

Lemma nth_error_upd_same : forall a i v, (i < length a)%nat -> nth_error (upd a i v) i = Some v.
Proof. induction a as [|h t IH]; intros [|i] v H; simpl in *; try lia; auto. apply IH; lia. Qed.

Lemma nth_error_upd_other : forall a i j v, i <> j -> nth_error (upd a i v) j = nth_error a j.
Proof.
  induction a as [|h t IH]; intros [|i] [|j] v H; simpl; auto; try congruence.
Qed.

Lemma upd_opt_spec : forall a i v, upd_opt a i v = if (i <? length a)%nat then Some (upd a i v) else None.
Proof.
  induction a as [|h t IH]; intros [|i] v; simpl; auto.
  rewrite IH. change (S i <? S (length t))%nat with (i <? length t)%nat.
  destruct (i <? length t)%nat; reflexivity.
Qed.

Lemma aset_Some : forall a i v a', aset a i v = Some a' <-> (0 <= i < alen a /\ a' = upd a (Z.to_nat i) v).
Proof.
  unfold aset, alen; intros a i v a'. rewrite upd_opt_spec.
  destruct (i <? 0) eqn:E.
  - apply Z.ltb_lt in E. split; [discriminate|lia].
  - apply Z.ltb_ge in E. destruct (Z.to_nat i <? length a)%nat eqn:L.
    + apply Nat.ltb_lt in L. split; [intros H; inversion H; split; [lia|reflexivity]|intros [_ ->]; reflexivity].
    + apply Nat.ltb_ge in L. split; [discriminate|lia].
Qed.

Lemma aset_total : forall a i v, 0 <= i < alen a -> exists a', aset a i v = Some a'.
Proof. intros a i v H. exists (upd a (Z.to_nat i) v). apply aset_Some; auto. Qed.

Lemma aset_len : forall a i v a', aset a i v = Some a' -> alen a' = alen a.
Proof. intros a i v a' H. apply aset_Some in H as [_ ->]. apply alen_upd. Qed.

Lemma aset_range : forall a i v a', aset a i v = Some a' -> 0 <= i < alen a.
Proof. intros a i v a' H. now apply aset_Some in H as [H _]. Qed.

Lemma aget_upd_same : forall a i v, 0 <= i < alen a -> aget (upd a (Z.to_nat i) v) i = Some v.
Proof.
  intros a i v H. rewrite aget_nth_error by lia. apply nth_error_upd_same. unfold alen in H; lia.
Qed.

Lemma aget_upd_other : forall a i j v, 0 <= i -> i <> j -> aget (upd a (Z.to_nat i) v) j = aget a j.
Proof.
  intros a i j v Hi H. unfold aget. destruct (j <? 0) eqn:E; [reflexivity|].
  apply Z.ltb_ge in E. apply nth_error_upd_other. lia.
Qed.

Lemma aget_aset_same : forall a i v a', aset a i v = Some a' -> aget a' i = Some v.
Proof. intros a i v a' H. apply aset_Some in H as [H ->]. now apply aget_upd_same. Qed.

Lemma aget_aset_other : forall a i v a' j, aset a i v = Some a' -> j <> i -> aget a' j = aget a j.
Proof. intros a i v a' j H Hj. apply aset_Some in H as [H ->]. apply aget_upd_other; lia. Qed.

Lemma aget_aset : forall a i v a' j, aset a i v = Some a' -> aget a' j = if j =? i then Some v else aget a j.
Proof.
  intros a i v a' j H. destruct (j =? i) eqn:E.
  - apply Z.eqb_eq in E; subst. eapply aget_aset_same; eauto.
  - apply Z.eqb_neq in E. eapply aget_aset_other; eauto.
Qed.

Lemma alen_mk : forall n v, alen (mk n v) = Z.max 0 n.
Proof. intros; unfold alen, mk. rewrite repeat_length. lia. Qed.

Lemma aget_mk : forall n v i, 0 <= i < n -> aget (mk n v) i = Some v.
Proof.
  intros n v i H. rewrite aget_nth_error by lia. unfold mk.
  rewrite nth_error_repeat; auto. lia.
Qed.

Lemma In_mk : forall n v x, In x (mk n v) -> x = v.
Proof. unfold mk; intros n v x H. now apply repeat_spec in H. Qed.

(* ------------------------------------------------------------------------------------------ *)
(* zseq / zrange                                                                               *)
Lemma zseq_length : forall len lo, length (zseq lo len) = len.
Proof. induction len; intros; simpl; auto. Qed.

Lemma In_zseq : forall len lo x, In x (zseq lo len) <-> lo <= x < lo + Z.of_nat len.
Proof.
  induction len as [|len IH]; intros lo x; simpl.
  - lia.
  - rewrite IH. lia.
Qed.

Lemma NoDup_zseq : forall len lo, NoDup (zseq lo len).
Proof.
  induction len as [|len IH]; intros lo; simpl; constructor; auto.
  rewrite In_zseq. lia.
Qed.

Lemma zseq_app : forall l1 l2 lo, zseq lo (l1 + l2) = zseq lo l1 ++ zseq (lo + Z.of_nat l1) l2.
Proof.
  induction l1 as [|l1 IH]; intros l2 lo; simpl.
  - f_equal. lia.
  - rewrite IH. do 3 f_equal. lia.
Qed.

Lemma nth_error_zseq : forall len lo k, (k < len)%nat -> nth_error (zseq lo len) k = Some (lo + Z.of_nat k).
Proof.
  induction len as [|len IH]; intros lo k H; [lia|].
  destruct k as [|k]; simpl.
  - f_equal; lia.
  - rewrite IH by lia. f_equal; lia.
Qed.

Lemma zrange_length : forall lo hi, length (zrange lo hi) = Z.to_nat (hi - lo).
Proof. intros; apply zseq_length. Qed.

Lemma alen_zrange : forall lo hi, alen (zrange lo hi) = Z.max 0 (hi - lo).
Proof. intros; unfold alen. rewrite zrange_length. lia. Qed.

Lemma In_zrange : forall lo hi x, In x (zrange lo hi) <-> lo <= x < hi.
Proof. intros; unfold zrange. rewrite In_zseq. lia. Qed.

Lemma NoDup_zrange : forall lo hi, NoDup (zrange lo hi).
Proof. intros; apply NoDup_zseq. Qed.

Lemma zrange_empty : forall lo hi, hi <= lo -> zrange lo hi = [].
Proof. intros lo hi H. unfold zrange. replace (Z.to_nat (hi - lo)) with O by lia. reflexivity. Qed.

Lemma zrange_cons : forall lo hi, lo < hi -> zrange lo hi = lo :: zrange (lo + 1) hi.
Proof.
  intros lo hi H. unfold zrange.
  replace (Z.to_nat (hi - lo)) with (S (Z.to_nat (hi - (lo + 1)))) by lia. reflexivity.
Qed.

Lemma zrange_snoc : forall lo hi, lo <= hi -> zrange lo (hi + 1) = zrange lo hi ++ [hi].
Proof.
  intros lo hi H. unfold zrange.
  replace (Z.to_nat (hi + 1 - lo)) with (Z.to_nat (hi - lo) + 1)%nat by lia.
  rewrite zseq_app. simpl. do 2 f_equal. lia.
Qed.

Lemma zrange_split : forall lo mid hi, lo <= mid <= hi -> zrange lo hi = zrange lo mid ++ zrange mid hi.
Proof.
  intros lo mid hi H. unfold zrange.
  replace (Z.to_nat (hi - lo)) with (Z.to_nat (mid - lo) + Z.to_nat (hi - mid))%nat by lia.
  rewrite zseq_app. do 2 f_equal. lia.
Qed.

Lemma aget_zrange : forall lo hi i, 0 <= i < hi - lo -> aget (zrange lo hi) i = Some (lo + i).
Proof.
  intros lo hi i H. rewrite aget_nth_error by lia. unfold zrange.
  rewrite nth_error_zseq by lia. f_equal; lia.
Qed.

(* ------------------------------------------------------------------------------------------ *)
(* ofold                                                                                       *)
Lemma ofold_app : forall {St A} (f : St -> A -> option St) l1 l2 s,
  ofold f (l1 ++ l2) s = match ofold f l1 s with Some s' => ofold f l2 s' | None => None end.
Proof.
  induction l1 as [|x t IH]; intros l2 s; simpl; auto.
  destruct (f s x); auto.
Qed.

(* total-correctness rule for `for (i = lo; i < hi; ++i)` *)
Lemma ofold_zrange_inv : forall {St} (f : St -> Z -> option St) (P : Z -> St -> Prop) lo hi s,
  lo <= hi -> P lo s ->
  (forall i s, lo <= i < hi -> P i s -> exists s', f s i = Some s' /\ P (i + 1) s') ->
  exists s', ofold f (zrange lo hi) s = Some s' /\ P hi s'.
Proof.
  intros St f P lo hi s Hle. unfold zrange.
  remember (Z.to_nat (hi - lo)) as len eqn:Hlen.
  assert (Hhi : hi = lo + Z.of_nat len) by lia. clear Hlen. subst hi.
  revert lo s Hle. induction len as [|len IH]; intros lo s Hle H0 Hstep; cbn [zseq ofold].
  - exists s; split; auto. now replace (lo + Z.of_nat 0) with lo by (simpl; lia).
  - destruct (Hstep lo s) as [s1 [E1 P1]]; [lia|auto|]. rewrite E1.
    destruct (IH (lo + 1) s1) as [s2 [E2 P2]]; [lia|auto| |].
    + intros i s0 Hi Pi. apply Hstep; auto. lia.
    + exists s2; split; auto. now replace (lo + Z.of_nat (S len)) with (lo + 1 + Z.of_nat len) by lia.
Qed.

(* partial-correctness rule *)
Lemma ofold_zrange_inv_partial : forall {St} (f : St -> Z -> option St) (P : Z -> St -> Prop) lo hi s s',
  lo <= hi -> P lo s ->
  (forall i s s', lo <= i < hi -> P i s -> f s i = Some s' -> P (i + 1) s') ->
  ofold f (zrange lo hi) s = Some s' -> P hi s'.
Proof.
  intros St f P lo hi s s' Hle. unfold zrange.
  remember (Z.to_nat (hi - lo)) as len eqn:Hlen.
  assert (Hhi : hi = lo + Z.of_nat len) by lia. clear Hlen. subst hi.
  revert lo s Hle. induction len as [|len IH]; intros lo s Hle H0 Hstep; cbn [zseq ofold].
  - intros E; inversion E; subst. now replace (lo + Z.of_nat 0) with lo by (simpl; lia).
  - destruct (f s lo) as [s1|] eqn:E1; [|discriminate]. intros E.
    replace (lo + Z.of_nat (S len)) with (lo + 1 + Z.of_nat len) by lia.
    apply (IH (lo + 1) s1); auto; try lia.
    + apply (Hstep lo s s1); auto. lia.
    + intros i s0 s0' Hi Pi. apply Hstep; auto. lia.
Qed.

(* `for (v = n-1; v >= 0; v--)` *)
Lemma ofold_down_inv_nat : forall {St} (f : St -> Z -> option St) (P : Z -> St -> Prop) (m : nat) s,
  P (Z.of_nat m) s ->
  (forall k s, 0 <= k < Z.of_nat m -> P (k + 1) s -> exists s', f s k = Some s' /\ P k s') ->
  exists s', ofold f (rev (zrange 0 (Z.of_nat m))) s = Some s' /\ P 0 s'.
Proof.
  intros St f P m. induction m as [|m IH]; intros s H0 Hstep.
  - exists s; auto.
  - replace (Z.of_nat (S m)) with (Z.of_nat m + 1) in * by lia.
    rewrite zrange_snoc by lia. rewrite rev_app_distr. cbn [rev app ofold].
    destruct (Hstep (Z.of_nat m) s) as [s1 [E1 P1]]; [lia|auto|].
    rewrite E1. apply IH; auto. intros k s0 Hk. apply Hstep. lia.
Qed.

Lemma ofold_down_inv : forall {St} (f : St -> Z -> option St) (P : Z -> St -> Prop) n s,
  0 <= n -> P n s ->
  (forall k s, 0 <= k < n -> P (k + 1) s -> exists s', f s k = Some s' /\ P k s') ->
  exists s', ofold f (rev (zrange 0 n)) s = Some s' /\ P 0 s'.
Proof.
  intros St f P n s Hn H0 Hstep. rewrite <- (Z2Nat.id n Hn) in *.
  apply ofold_down_inv_nat; auto.
Qed.

(* generic list invariant *)
Lemma ofold_inv : forall {St A} (f : St -> A -> option St) (P : St -> Prop) l s,
  P s -> (forall s x, In x l -> P s -> exists s', f s x = Some s' /\ P s') ->
  exists s', ofold f l s = Some s' /\ P s'.
Proof.
  induction l as [|x t IH]; intros s H0 Hstep; simpl.
  - eauto.
  - destruct (Hstep s x) as [s1 [E1 P1]]; simpl; auto. rewrite E1.
    apply IH; auto. intros s0 y Hy. apply Hstep. now right.
Qed.

Lemma ofold_inv_partial : forall {St A} (f : St -> A -> option St) (P : St -> Prop) l s s',
  P s -> (forall s x s', In x l -> P s -> f s x = Some s' -> P s') ->
  ofold f l s = Some s' -> P s'.
Proof.
  induction l as [|x t IH]; intros s s' H0 Hstep; simpl.
  - intros E; inversion E; subst; auto.
  - destruct (f s x) as [s1|] eqn:E1; [|discriminate]. intros E.
    apply (IH s1 s'); auto.
    + apply (Hstep s x s1); simpl; auto.
    + intros s0 y s0' Hy. apply Hstep. now right.
Qed.
