(* DiagDom.v -- C16: "a matrix whose diagonal entries stay nonzero during elimination (e.g. diagonally dominant)".
   In exact arithmetic, column diagonal dominance of the trailing submatrix is preserved by one step of Gaussian
   elimination with the diagonal pivot (the Schur complement of a column diagonally dominant matrix is column diagonally
   dominant), hence by induction every diagonal pivot is nonzero: the hypothesis of the property is realised by every
   column diagonally dominant matrix, of any size.  (Rounded arithmetic: not covered; see DESIGN.) *)
From Coq Require Import Reals Lra Lia List Arith Bool.
From SLU Require Import NumBase NumSum NumLU NumSolve.
Local Open Scope R_scope.

Definition rmat := nat -> nat -> R.

(* one elimination step with pivot (k,k): only the trailing part i,j > k is updated *)
Definition gstep (k : nat) (A : rmat) : rmat :=
  fun i j => if (k <? i)%nat && (k <? j)%nat then A i j - A i k * A k j / A k k else A i j.

(* sum of |A i j| over the rows i of the trailing block k..n-1 other than the diagonal row j *)
Definition offsum (n k : nat) (A : rmat) (j : nat) : R :=
  bigsum (fun i => if (k <=? i)%nat && negb (i =? j)%nat then Rabs (A i j) else 0) n.

(* column diagonal dominance of the trailing block k..n-1 *)
Definition cdd (n k : nat) (A : rmat) : Prop :=
  forall j, (k <= j < n)%nat -> offsum n k A j < Rabs (A j j).

Lemma offsum_nonneg n k A j : 0 <= offsum n k A j.
Proof. unfold offsum. apply bigsum_nonneg. intros i _. destruct (_ && _); [apply Rabs_pos | lra]. Qed.

Lemma cdd_pivot_nonzero n k A : (k < n)%nat -> cdd n k A -> A k k <> 0.
Proof.
  intros Hk H. specialize (H k (conj (le_n k) Hk)). pose proof (offsum_nonneg n k A k).
  intros E. rewrite E, Rabs_R0 in H. lra.
Qed.

(* take one index out of a sum *)
Lemma bigsum_extract f n k : (k < n)%nat -> bigsum f n = f k + bigsum (fun i => if (i =? k)%nat then 0 else f i) n.
Proof.
  intros Hk.
  rewrite (bigsum_ext f (fun i => (if (i =? k)%nat then f k else 0) + (if (i =? k)%nat then 0 else f i)) n).
  2:{ intros i _. destruct (i =? k)%nat eqn:E; [apply Nat.eqb_eq in E; subst; lra | lra]. }
  rewrite bigsum_plus. f_equal.
  rewrite (bigsum_single _ n k Hk); [rewrite Nat.eqb_refl; reflexivity|].
  intros i _ Hne. apply Nat.eqb_neq in Hne. rewrite Hne. reflexivity.
Qed.

Section STEP.
Variables (n k : nat) (A : rmat).
Hypothesis Hk : (k < n)%nat.
Hypothesis Hd : cdd n k A.

Let a := Rabs (A k k).

Lemma a_pos : 0 < a.
Proof.
  unfold a. pose proof (cdd_pivot_nonzero n k A Hk Hd) as H. apply Rabs_pos_lt. exact H.
Qed.

(* column k: the entries below the pivot, without row j, and row j *)
Lemma col_k_split j : (k < j < n)%nat ->
  offsum n (S k) A k + 0 = offsum n (S k) (fun i c => if (i =? j)%nat then 0 else A i c) k + Rabs (A j k).
Proof.
  intros Hj. unfold offsum.
  rewrite (bigsum_extract _ n j) by lia.
  assert (E1 : (S k <=? j)%nat = true) by (apply Nat.leb_le; lia).
  assert (E2 : (j =? k)%nat = false) by (apply Nat.eqb_neq; lia).
  rewrite E1, E2. cbn [negb andb]. rewrite Rplus_0_r, Rplus_comm. f_equal.
  apply bigsum_ext. intros i _. destruct (i =? j)%nat eqn:E; [|reflexivity].
  destruct (_ && _); [rewrite Rabs_R0|]; reflexivity.
Qed.

Lemma offsum_Sk_le_k c : (k < c)%nat -> offsum n k A c = Rabs (A k c) + offsum n (S k) A c.
Proof.
  intros Hc. unfold offsum. rewrite (bigsum_extract _ n k Hk).
  rewrite Nat.leb_refl. assert (E : (k =? c)%nat = false) by (apply Nat.eqb_neq; lia). rewrite E. cbn [negb andb].
  f_equal. apply bigsum_ext. intros i _.
  destruct (i =? k)%nat eqn:Ei.
  - apply Nat.eqb_eq in Ei. subst i. assert (F : (S k <=? k)%nat = false) by (apply Nat.leb_gt; lia). rewrite F. reflexivity.
  - apply Nat.eqb_neq in Ei.
    destruct (Nat.leb_spec k i) as [H1|H1]; destruct (Nat.leb_spec (S k) i) as [H2|H2]; try reflexivity; lia.
Qed.

Theorem gstep_cdd : cdd n (S k) (gstep k A).
Proof.
  intros j Hj. pose proof a_pos as Ha.
  assert (Hkj : (k < j < n)%nat) by lia.
  (* bound every off-diagonal entry of the new column j *)
  set (r := Rabs (A k j) / a).
  assert (Hr : 0 <= r) by (unfold r; apply Rmult_le_pos; [apply Rabs_pos | left; apply Rinv_0_lt_compat; exact Ha]).
  assert (B1 : offsum n (S k) (gstep k A) j
               <= offsum n (S k) A j + r * offsum n (S k) (fun i c => if (i =? j)%nat then 0 else A i c) k).
  { unfold offsum. rewrite <- bigsum_scal, <- bigsum_plus. apply bigsum_le. intros i Hi.
    destruct (Nat.leb_spec (S k) i) as [H1|H1]; cbn [andb]; [|destruct (i =? k)%nat; cbn; try rewrite Rabs_R0; nra].
    destruct (i =? j)%nat eqn:Eij; cbn [negb].
    { assert (Eik : (i =? k)%nat = false) by (apply Nat.eqb_neq; lia). rewrite Eik. cbn [negb andb]. rewrite Rabs_R0. nra. }
    assert (Eik : (i =? k)%nat = false) by (apply Nat.eqb_neq; lia). rewrite Eik. cbn [negb andb].
    unfold gstep. assert (G1 : (k <? i)%nat = true) by (apply Nat.ltb_lt; lia). assert (G2 : (k <? j)%nat = true) by (apply Nat.ltb_lt; lia).
    rewrite G1, G2. cbn [andb].
    unfold Rminus. eapply Rle_trans; [apply Rabs_triang|]. rewrite Rabs_Ropp.
    apply Rplus_le_compat_l. unfold Rdiv. rewrite !Rabs_mult, Rabs_inv. fold a. unfold r, Rdiv. nra. }
  (* the two dominance hypotheses *)
  pose proof (Hd k (conj (le_n k) Hk)) as Dk. fold a in Dk.
  assert (Ok : offsum n k A k = offsum n (S k) A k).
  { unfold offsum. apply bigsum_ext. intros i _. destruct (i =? k)%nat eqn:E.
    - rewrite !andb_false_r. reflexivity.
    - apply Nat.eqb_neq in E. destruct (Nat.leb_spec k i); destruct (Nat.leb_spec (S k) i); try reflexivity; lia. }
  rewrite Ok in Dk. pose proof (col_k_split j Hkj) as Sk. rewrite Rplus_0_r in Sk.
  set (s2 := offsum n (S k) (fun i c => if (i =? j)%nat then 0 else A i c) k) in *.
  assert (s2nn : 0 <= s2) by (apply offsum_nonneg).
  pose proof (Hd j (conj (Nat.lt_le_incl _ _ (proj1 Hkj)) (proj2 Hkj))) as Dj.
  rewrite (offsum_Sk_le_k j (proj1 Hkj)) in Dj.
  pose proof (offsum_nonneg n (S k) A j) as s1nn. set (s1 := offsum n (S k) A j) in *.
  (* the new diagonal entry *)
  assert (Dg : Rabs (A j j) - r * Rabs (A j k) <= Rabs (gstep k A j j)).
  { unfold gstep. assert (G : (k <? j)%nat = true) by (apply Nat.ltb_lt; lia). rewrite G. cbn [andb].
    assert (T : Rabs (A j k * A k j / A k k) = r * Rabs (A j k)).
    { unfold Rdiv. rewrite !Rabs_mult, Rabs_inv. fold a. unfold r, Rdiv. ring. }
    pose proof (Rabs_triang_inv (A j j) (A j k * A k j / A k k)) as Ti. rewrite T in Ti. exact Ti. }
  (* r * s2 < |A k j| - r |A j k|  unless |A k j| = 0 *)
  assert (Rs : r * s2 <= Rabs (A k j) - r * Rabs (A j k)).
  { assert (E : Rabs (A k j) = r * a) by (unfold r; field; lra).
    rewrite E. assert (s2 + Rabs (A j k) <= a) by lra. nra. }
  lra.
Qed.

End STEP.

(* elimination of the first k columns *)
Fixpoint gelim (k : nat) (A : rmat) : rmat :=
  match k with O => A | S k' => gstep k' (gelim k' A) end.

Theorem gelim_cdd n A : cdd n 0 A -> forall k, (k <= n)%nat -> cdd n k (gelim k A).
Proof.
  intros H0 k. induction k as [|k IH]; intros Hk; cbn [gelim]; [exact H0|].
  apply gstep_cdd; [lia | apply IH; lia].
Qed.

(* every diagonal pivot met by the elimination of a column diagonally dominant matrix is nonzero *)
Theorem diag_dominant_pivots_nonzero n A : cdd n 0 A -> forall k, (k < n)%nat -> gelim k A k k <> 0.
Proof. intros H k Hk. apply (cdd_pivot_nonzero n k); [exact Hk | apply gelim_cdd; [exact H | lia]]. Qed.

(* the hypothesis is satisfiable: a 2 x 2 example *)
Example cdd_example : cdd 2 0 (fun i j => if (i =? j)%nat then 3 else 1).
Proof.
  intros j Hj. unfold offsum, bigsum. cbn [seq map fold_right].
  destruct j as [|[|j]]; cbn; try lia; rewrite ?Rabs_R1; replace (Rabs 3) with 3 by (symmetry; apply Rabs_pos_eq; lra); lra.
Qed.

(* ROW diagonal dominance: the same statement for the transpose.  One elimination step commutes with transposition
   (the update A i j - A i k * A k j / A k k is symmetric in the roles of rows and columns), so row dominance of the
   trailing block is inherited too and every diagonal pivot of a row diagonally dominant matrix is nonzero -- although the
   diagonal entry need not be the largest of its column: this is where the pivot rule's diagonal preference at threshold 0
   (not the magnitude test) is what keeps perm_r = perm_c. *)
Definition tr (A : rmat) : rmat := fun i j => A j i.
Definition rdd (n k : nat) (A : rmat) : Prop := cdd n k (tr A).

Lemma gstep_tr k A i j : gstep k (tr A) i j = tr (gstep k A) i j.
Proof.
  unfold gstep, tr. rewrite (andb_comm (k <? j)%nat (k <? i)%nat).
  destruct ((k <? i)%nat && (k <? j)%nat); [|reflexivity]. unfold Rdiv. ring.
Qed.

Lemma cdd_ext n k A B : (forall i j, A i j = B i j) -> cdd n k A -> cdd n k B.
Proof.
  intros E H j Hj. specialize (H j Hj). rewrite <- (E j j).
  replace (offsum n k B j) with (offsum n k A j); [exact H|].
  unfold offsum. apply bigsum_ext. intros i _. rewrite (E i j). reflexivity.
Qed.

Theorem gstep_rdd n k A : (k < n)%nat -> rdd n k A -> rdd n (S k) (gstep k A).
Proof.
  intros Hk H. unfold rdd in *.
  apply (cdd_ext n (S k) (gstep k (tr A))); [intros i j; apply gstep_tr|].
  apply gstep_cdd; assumption.
Qed.

Theorem gelim_rdd n A : rdd n 0 A -> forall k, (k <= n)%nat -> rdd n k (gelim k A).
Proof.
  intros H0 k. induction k as [|k IH]; intros Hk; cbn [gelim]; [exact H0|].
  apply gstep_rdd; [lia | apply IH; lia].
Qed.

Theorem row_dominant_pivots_nonzero n A : rdd n 0 A -> forall k, (k < n)%nat -> gelim k A k k <> 0.
Proof.
  intros H k Hk. pose proof (gelim_rdd n A H k ltac:(lia)) as R.
  exact (cdd_pivot_nonzero n k (tr (gelim k A)) Hk R).
Qed.

(* a row dominant matrix whose diagonal is NOT the largest entry of its column: rows (1/4, 1/8) and (1, 2) *)
Example rdd_not_column_max :
  let A : rmat := fun i j => match i, j with O, O => /4 | O, _ => /8 | _, O => 1 | _, _ => 2 end in
  rdd 2 0 A /\ Rabs (A 0 0)%nat < Rabs (A 1 0)%nat.
Proof.
  cbv zeta. split.
  - intros j Hj. unfold offsum, bigsum, tr. cbn [seq map fold_right].
    destruct j as [|[|j]]; cbn; try lia.
    + rewrite (Rabs_pos_eq (/8)) by lra. rewrite (Rabs_pos_eq (/4)) by lra. lra.
    + rewrite Rabs_R1. rewrite (Rabs_pos_eq 2) by lra. lra.
  - rewrite (Rabs_pos_eq (/4)) by lra. rewrite Rabs_R1. lra.
Qed.
