From Coq Require Import Extraction ExtrOcamlBasic.
From SLU Require Import PivotModel.
Extraction "pivot_model.ml" pivotL.
