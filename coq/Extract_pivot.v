From Coq Require Import Extraction ExtrOcamlBasic.
From SLU Require Import PivotModel InfoModel.
Extraction "pivot_model.ml" pivotL gstrf_info.
