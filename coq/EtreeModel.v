(* EtreeModel.v -- executable model (definitions only; proofs in Etree*Proofs.v) of the preprocessing code
     SRC/sp_coletree.c : make_set / make_link / find (path halving) / sp_coletree / sp_symetree /
                         nr_etdfs (non-recursive) / TreePostorder
     SRC/get_perm_c.c  : at_plus_a, the natural-ordering branch of get_perm_c
     SRC/sp_colorder.c : sp_colorder with options->refact == NO, SymmetricMode on/off (the calls of
                         qrnzcnt / cholnzcnt are NOT modelled: colcnt_h / part_super_h are only checked)
   and of the verified checkers run on the outputs of the un-modelled code (check_perm, check_blocks).

   C arrays are `list Z`; every read / write is bounds checked and an out-of-range access, as well as
   fuel exhaustion of a `while` loop, makes the whole function return None (never a default value).
   malloc'ed (uninitialised) memory is filled with c_uninit, calloc'ed memory (mxCallocInt) with 0. *)
From Coq Require Import ZArith List Bool Lia.
From SLU Require Import Consts.
Import ListNotations.
Local Open Scope Z_scope.

(* ------------------------------------------------------------------------------------------ *)
(* arrays                                                                                     *)
Definition aget (a : list Z) (i : Z) : option Z :=
  if i <? 0 then None else nth_error a (Z.to_nat i).

Fixpoint upd (a : list Z) (i : nat) (v : Z) : list Z :=
  match a, i with
  | [], _ => []
  | _ :: t, O => v :: t
  | h :: t, S i' => h :: upd t i' v
  end.

Definition alen (a : list Z) : Z := Z.of_nat (length a).

(* bounds-checked write: None when i is outside 0..length-1 *)
Fixpoint upd_opt (a : list Z) (i : nat) (v : Z) : option (list Z) :=
  match a, i with
  | [], _ => None
  | _ :: t, O => Some (v :: t)
  | h :: t, S i' => match upd_opt t i' v with Some t' => Some (h :: t') | None => None end
  end.

Definition aset (a : list Z) (i v : Z) : option (list Z) :=
  if i <? 0 then None else upd_opt a (Z.to_nat i) v.

Definition mk (n v : Z) : list Z := repeat v (Z.to_nat n).

Definition c_uninit : Z := -777.

Fixpoint zseq (lo : Z) (len : nat) : list Z :=
  match len with O => [] | S k => lo :: zseq (lo + 1) k end.
(* lo, lo+1, ..., hi-1  (empty when hi <= lo): the index set of `for (i = lo; i < hi; ++i)` *)
Definition zrange (lo hi : Z) : list Z := zseq lo (Z.to_nat (hi - lo)).

Fixpoint ofold {S A : Type} (f : S -> A -> option S) (l : list A) (s : S) : option S :=
  match l with
  | [] => Some s
  | x :: t => match f s x with Some s' => ofold f t s' | None => None end
  end.

Notation "x <- e ;; k" := (match e with Some x => k | None => None end)
  (at level 60, e at next level, right associativity).
Notation "' pat <- e ;; k" := (match e with Some pat => k | None => None end)
  (at level 60, pat pattern, e at next level, right associativity).

(* ------------------------------------------------------------------------------------------ *)
(* permutations: verified checker, inverse, composition                                       *)
(* check_perm n p: p has n entries and every value 0..n-1 occurs in p *)
Definition check_perm (n : Z) (p : list Z) : bool :=
  (alen p =? n) && forallb (fun i => existsb (Z.eqb i) p) (zrange 0 n).

(* inv[p[i]] = i *)
Definition perm_inverse (n : Z) (p : list Z) : option (list Z) :=
  ofold (fun inv i => pi <- aget p i ;; aset inv pi i) (zrange 0 n) (mk n c_uninit).

(* r[i] = q[p[i]] *)
Definition perm_compose (n : Z) (q p : list Z) : option (list Z) :=
  ofold (fun r i => pi <- aget p i ;; qi <- aget q pi ;; aset r i qi) (zrange 0 n) (mk n c_uninit).

(* block partition checker for part_super_h: part[k] = size of the block starting at k, 0 elsewhere *)
Fixpoint all_zero (l : list Z) : bool :=
  match l with [] => true | x :: t => (x =? 0) && all_zero t end.
Fixpoint check_blocks_f (fuel : nat) (l : list Z) : bool :=
  match l with
  | [] => true
  | s :: t =>
    match fuel with
    | O => false
    | S f => (1 <=? s) && (s - 1 <=? alen t) &&
             all_zero (firstn (Z.to_nat (s - 1)) t) && check_blocks_f f (skipn (Z.to_nat (s - 1)) t)
    end
  end.
Definition check_blocks (n : Z) (part : list Z) : bool :=
  (alen part =? n) && check_blocks_f (length part) part.

(* get_perm_c, case 0:  for (i = 0; i < n; ++i) perm_c[i] = i; *)
Definition natural_perm (n : Z) : option (list Z) :=
  ofold (fun p i => aset p i i) (zrange 0 n) (mk n c_uninit).

(* the drivers call get_perm_c (options->ColPerm, ...): the k-th ordering option as a colperm_t value *)
Definition ordering_code (k : Z) : option Z := aget [c_NATURAL; c_MMD_ATA; c_MMD_AT_PLUS_A; c_COLAMD] k.
(* switch (ispec) { case 0: <natural> ... }: only this branch is modelled (None = not modelled) *)
Definition get_perm_c_model (ispec n : Z) : option (option (list Z)) :=
  if ispec =? 0 then Some (natural_perm n) else None.

(* ------------------------------------------------------------------------------------------ *)
(* disjoint sets (sp_coletree.c:60-110)                                                        *)
(* while (gp != p) { pp[i] = gp; i = gp; p = pp[i]; gp = pp[p]; }  return p; *)
Fixpoint find_loop (fuel : nat) (pp : list Z) (i p gp : Z) : option (Z * list Z) :=
  if gp =? p then Some (p, pp) else
  match fuel with
  | O => None
  | S f =>
    pp1 <- aset pp i gp ;;
    p1 <- aget pp1 gp ;;
    gp1 <- aget pp1 p1 ;;
    find_loop f pp1 gp p1 gp1
  end.
(* p = pp[i]; gp = pp[p]; <loop> *)
Definition uf_find (fuel : nat) (pp : list Z) (i : Z) : option (Z * list Z) :=
  p <- aget pp i ;;
  gp <- aget pp p ;;
  find_loop fuel pp i p gp.

(* body of the inner loop of sp_coletree / sp_symetree once `row` is known;
   state = (parent, pp, root, cset) *)
Definition ct_edge (fuel : nat) (col : Z) (st : list Z * list Z * list Z * Z) (row : Z)
  : option (list Z * list Z * list Z * Z) :=
  let '(parent, pp, root, cset) := st in
  if row >=? col then Some st else                 (* if (row >= col) continue;       *)
  '(rset, pp1) <- uf_find fuel pp row ;;           (* rset = find (row, pp);          *)
  rroot <- aget root rset ;;                       (* rroot = root[rset];             *)
  if rroot =? col then Some (parent, pp1, root, cset) else
  parent1 <- aset parent rroot col ;;              (* parent[rroot] = col;            *)
  pp2 <- aset pp1 cset rset ;;                     (* cset = make_link (cset, rset)   *)
  root1 <- aset root rset col ;;                   (* root[cset] = col;               *)
  Some (parent1, pp2, root1, rset).

(* one iteration of `for (col = 0; col < nc; col++)`; rowof p = the `row` value for position p *)
Definition ct_col (fuel : nat) (nc : Z) (rowof : Z -> option Z) (acolst acolend : list Z)
           (st : list Z * list Z * list Z) (col : Z) : option (list Z * list Z * list Z) :=
  let '(parent, pp, root) := st in
  pp1 <- aset pp col col ;;                        (* cset = make_set (col, pp);      *)
  root1 <- aset root col col ;;                    (* root[cset] = col;               *)
  parent1 <- aset parent col nc ;;                 (* parent[col] = nc;               *)
  s <- aget acolst col ;;
  e <- aget acolend col ;;
  '(parent2, pp2, root2, _) <-
     ofold (fun st p => row <- rowof p ;; ct_edge fuel col st row) (zrange s e) (parent1, pp1, root1, col) ;;
  Some (parent2, pp2, root2).

Definition find_fuel (nc : Z) : nat := S (Z.to_nat nc).

(* firstcol[row] = first nonzero column in row *)
Definition firstcol_of (nr nc : Z) (acolst acolend arow : list Z) : option (list Z) :=
  ofold (fun fc col =>
           s <- aget acolst col ;;
           e <- aget acolend col ;;
           ofold (fun fc p => row <- aget arow p ;; f <- aget fc row ;; aset fc row (Z.min f col))
                 (zrange s e) fc)
        (zrange 0 nc) (mk nr nc).

Definition sp_coletree (acolst acolend arow : list Z) (nr nc : Z) : option (list Z) :=
  firstcol <- firstcol_of nr nc acolst acolend arow ;;
  '(parent, _, _) <-
     ofold (ct_col (find_fuel nc) nc (fun p => ar <- aget arow p ;; aget firstcol ar) acolst acolend)
           (zrange 0 nc) (mk nc c_uninit, mk nc 0, mk nc 0) ;;
  Some parent.

Definition sp_symetree (acolst acolend arow : list Z) (n : Z) : option (list Z) :=
  '(parent, _, _) <-
     ofold (ct_col (find_fuel n) n (fun p => aget arow p) acolst acolend)
           (zrange 0 n) (mk n c_uninit, mk n 0, mk n 0) ;;
  Some parent.

(* ------------------------------------------------------------------------------------------ *)
(* TreePostorder with the non-recursive nr_etdfs (sp_coletree.c:230-330)                       *)
(* for (v = n-1; v >= 0; v--) { dad = parent[v]; next_kid[v] = first_kid[dad]; first_kid[dad] = v; } *)
Definition kid_lists (n : Z) (parent : list Z) : option (list Z * list Z) :=
  ofold (fun '(first_kid, next_kid) v =>
           dad <- aget parent v ;;
           fk <- aget first_kid dad ;;
           next_kid1 <- aset next_kid v fk ;;
           first_kid1 <- aset first_kid dad v ;;
           Some (first_kid1, next_kid1))
        (rev (zrange 0 n)) (mk (n + 1) (-1), mk (n + 1) 0).

(* while (next == -1) { current = parent[current]; post[current] = postnum++; next = next_kid[current]; } *)
Fixpoint po_climb (fuel : nat) (parent next_kid : list Z) (current postnum : Z) (post : list Z) (next : Z)
  : option (Z * Z * list Z * Z) :=
  if next =? -1 then
    match fuel with
    | O => None
    | S f =>
      cur1 <- aget parent current ;;
      post1 <- aset post cur1 postnum ;;
      next1 <- aget next_kid cur1 ;;
      po_climb f parent next_kid cur1 (postnum + 1) post1 next1
    end
  else Some (current, postnum, post, next).

(* while (postnum != n) { ... } *)
Fixpoint po_outer (fuel cfuel : nat) (n : Z) (parent first_kid next_kid : list Z)
         (current postnum : Z) (post : list Z) : option (list Z) :=
  if postnum =? n then Some post else
  match fuel with
  | O => None
  | S f =>
    first <- aget first_kid current ;;
    if first =? -1 then
      post1 <- aset post current postnum ;;
      next <- aget next_kid current ;;
      '(cur2, pn2, post2, next2) <- po_climb cfuel parent next_kid current (postnum + 1) post1 next ;;
      if pn2 =? n + 1 then Some post2                    (* stopping criterion *)
      else po_outer f cfuel n parent first_kid next_kid next2 pn2 post2
    else po_outer f cfuel n parent first_kid next_kid first postnum post
  end.

Definition tree_postorder (n : Z) (parent : list Z) : option (list Z) :=
  '(first_kid, next_kid) <- kid_lists n parent ;;
  po_outer (S (Z.to_nat n)) (Z.to_nat n) n parent first_kid next_kid n 0 (mk (n + 1) 0).

(* ------------------------------------------------------------------------------------------ *)
(* at_plus_a (get_perm_c.c:216-340): structure of A'+A without the diagonal                    *)
Definition for_cols (colptr : list Z) (j : Z) {S : Type} (f : S -> Z -> option S) (s : S) : option S :=
  b <- aget colptr j ;;
  e <- aget colptr (j + 1) ;;
  ofold f (zrange b e) s.

(* if (marker[k] != j) { marker[k] = j; <emit k> } ; state = (marker, num_nz, b_rowind) *)
Definition apa_visit (count_only : bool) (j : Z) (st : list Z * Z * list Z) (k : Z) : option (list Z * Z * list Z) :=
  let '(marker, num_nz, b_rowind) := st in
  mk_ <- aget marker k ;;
  if mk_ =? j then Some st else
  marker1 <- aset marker k j ;;
  if count_only then Some (marker1, num_nz + 1, b_rowind)
  else b1 <- aset b_rowind num_nz k ;; Some (marker1, num_nz + 1, b1).

Definition apa_pass (count_only : bool) (n : Z) (colptr rowind t_colptr t_rowind : list Z)
           (marker b_colptr b_rowind : list Z) : option (list Z * Z * list Z * list Z) :=
  ofold (fun '(marker, num_nz, b_rowind, b_colptr) j =>
           b_colptr1 <- (if count_only then Some b_colptr else aset b_colptr j num_nz) ;;
           marker1 <- aset marker j j ;;
           st1 <- for_cols colptr j (fun st i => k <- aget rowind i ;; apa_visit count_only j st k)
                           (marker1, num_nz, b_rowind) ;;
           '(marker2, num_nz2, b_rowind2) <-
              for_cols t_colptr j (fun st i => k <- aget t_rowind i ;; apa_visit count_only j st k) st1 ;;
           Some (marker2, num_nz2, b_rowind2, b_colptr1))
        (zrange 0 n) (marker, 0, b_rowind, b_colptr).

Definition at_plus_a (n nz : Z) (colptr rowind : list Z) : option (Z * list Z * list Z) :=
  (* counts of each column of T *)
  marker1 <- ofold (fun mkr j => for_cols colptr j
                      (fun mkr i => r <- aget rowind i ;; c <- aget mkr r ;; aset mkr r (c + 1)) mkr)
                   (zrange 0 n) (mk n 0) ;;
  t_colptr0 <- aset (mk (n + 1) c_uninit) 0 0 ;;
  '(t_colptr, marker2) <-
     ofold (fun '(tc, mkr) i =>
              a <- aget tc i ;; c <- aget mkr i ;;
              tc1 <- aset tc (i + 1) (a + c) ;;
              mkr1 <- aset mkr i a ;;
              Some (tc1, mkr1))
           (zrange 0 n) (t_colptr0, marker1) ;;
  (* transpose *)
  '(t_rowind, _) <-
     ofold (fun st j => for_cols colptr j
              (fun '(tr, mkr) i =>
                 col <- aget rowind i ;; pos <- aget mkr col ;;
                 tr1 <- aset tr pos j ;;
                 mkr1 <- aset mkr col (pos + 1) ;;
                 Some (tr1, mkr1)) st)
           (zrange 0 n) (mk nz c_uninit, marker2) ;;
  (* first pass: count *)
  '(_, bnz, _, _) <- apa_pass true n colptr rowind t_colptr t_rowind (mk n (-1)) [] [] ;;
  (* second pass: fill; b_rowind is not allocated when bnz == 0 *)
  '(_, num_nz, b_rowind, b_colptr) <-
     apa_pass false n colptr rowind t_colptr t_rowind (mk n (-1)) (mk (n + 1) c_uninit) (mk bnz c_uninit) ;;
  b_colptr1 <- aset b_colptr n num_nz ;;
  Some (bnz, b_colptr1, b_rowind).

(* ------------------------------------------------------------------------------------------ *)
(* sp_colorder (sp_colorder.c:86-260), refact == NO                                            *)
(* for (i = 0; i < n; ++i) dst[idx[i]] = src[i + off]; *)
Definition scatter (n : Z) (idx src : list Z) (off : Z) (dst : list Z) : option (list Z) :=
  ofold (fun d i => k <- aget idx i ;; v <- aget src (i + off) ;; aset d k v) (zrange 0 n) dst.
(* for (i = 0; i < n; ++i) dst[i] = src[i]; *)
Definition copy_n (n : Z) (src dst : list Z) : option (list Z) :=
  ofold (fun d i => v <- aget src i ;; aset d i v) (zrange 0 n) dst.

Definition colorder_symetree (n : Z) (colptr rowind perm_c iwork : list Z) : option (list Z * list Z) :=
  '(bnz, b_colptr, b_rowind) <- at_plus_a n (alen rowind) colptr rowind ;;
  c_colbeg <- scatter n perm_c b_colptr 0 (mk n c_uninit) ;;
  c_colend <- scatter n perm_c b_colptr 1 (mk n c_uninit) ;;
  '(b_rowind1, iwork1) <-
     ofold (fun '(br, iw) j =>
              s <- aget c_colbeg j ;; e <- aget c_colend j ;;
              br1 <- ofold (fun br i => r <- aget br i ;; pr <- aget perm_c r ;; aset br i pr) (zrange s e) br ;;
              pj <- aget perm_c j ;;
              iw1 <- aset iw pj j ;;
              Some (br1, iw1))
           (zrange 0 n) (b_rowind, iwork) ;;
  etree <- sp_symetree c_colbeg c_colend b_rowind1 n ;;
  (* restore B *)
  restored <- ofold (fun br i => r <- aget br i ;; v <- aget iwork1 r ;; aset br i v) (zrange 0 bnz) b_rowind1 ;;
  Some (etree, iwork1).

(* result: (colbeg, colend, perm_c, etree) *)
Definition colorder (sym : bool) (m n : Z) (colptr rowind perm_c : list Z)
  : option (list Z * list Z * list Z * list Z) :=
  colbeg <- scatter n perm_c colptr 0 (mk n c_uninit) ;;
  colend <- scatter n perm_c colptr 1 (mk n c_uninit) ;;
  let iwork := mk (n + 1) c_uninit in
  '(etree, iwork) <-
     (if sym then colorder_symetree n colptr rowind perm_c iwork
      else et <- sp_coletree colbeg colend rowind m n ;; Some (et, iwork)) ;;
  post <- tree_postorder n etree ;;
  invp <- scatter n post (zrange 0 n) 0 (mk n c_uninit) ;;
  (* renumber etree in postorder *)
  iwork <- ofold (fun iw i => pi <- aget post i ;; e <- aget etree i ;; pe <- aget post e ;; aset iw pi pe)
                 (zrange 0 n) iwork ;;
  etree <- copy_n n iwork etree ;;
  (* postmultiply A*Pc by post[] *)
  iwork <- scatter n post colbeg 0 iwork ;;
  colbeg <- copy_n n iwork colbeg ;;
  iwork <- scatter n post colend 0 iwork ;;
  colend <- copy_n n iwork colend ;;
  iwork <- ofold (fun iw i => pc <- aget perm_c i ;; v <- aget post pc ;; aset iw i v) (zrange 0 n) iwork ;;
  perm_c <- copy_n n iwork perm_c ;;
  invp <- scatter n perm_c (zrange 0 n) 0 invp ;;
  (* iperm = post; for (i = 0; i < n; ++i) iperm[i] = i; *)
  iperm <- copy_n n (zrange 0 n) post ;;
  Some (colbeg, colend, perm_c, etree).
