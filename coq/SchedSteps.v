(* SchedSteps.v -- helper lemmas; preservation of the invariant by the Finish and Test steps *)
From Coq Require Import ZArith List Bool Lia.
From SLU Require Import Consts SchedModel SchedBase SchedInv.
Import ListNotations.
Local Open Scope Z_scope.

Ltac inv_unf := unfold I_len, I_states, I_threads, I_ukids, I_J, I_D, I_queue, I_ready, I_tasks, I_root, I_fb0 in *;
                cbn [gs thr] in *.
Ltac use_inv HI :=
  pose proof (inv_wf _ HI) as IWF; pose proof (inv_len _ HI) as ILEN; pose proof (inv_states _ HI) as ISTATES;
  pose proof (inv_threads _ HI) as ITHREADS; pose proof (inv_ukids _ HI) as IUKIDS; pose proof (inv_J _ HI) as IJ;
  pose proof (inv_D _ HI) as ID; pose proof (inv_queue _ HI) as IQUEUE; pose proof (inv_ready _ HI) as IREADY;
  pose proof (inv_tasks _ HI) as ITASKS; pose proof (inv_root _ HI) as IROOT; pose proof (inv_fb0 _ HI) as IFB0;
  inv_unf.

(* ---------------- thread list ---------------- *)
Lemma thr_upd_nat_length l i v : length (thr_upd_nat l i v) = length l.
Proof. revert i; induction l as [|h t IH]; intros [|i]; simpl; auto. Qed.

Lemma thr_upd_length l t v : length (thr_upd l t v) = length l.
Proof. unfold thr_upd; destruct (t <? 0); auto using thr_upd_nat_length. Qed.

Lemma tlen_upd l t v : tlen (thr_upd l t v) = tlen l.
Proof. unfold tlen; now rewrite thr_upd_length. Qed.

Lemma nth_thr_upd_nat l i j v d :
  nth j (thr_upd_nat l i v) d = if Nat.eqb j i then (if Nat.ltb i (length l) then v else d) else nth j l d.
Proof.
  revert i j; induction l as [|h t IH]; intros [|i] [|j]; simpl; auto.
  - destruct (Nat.eqb j i); auto.
  - rewrite IH. destruct (Nat.eqb j i); auto.
Qed.

Lemma thr_get_upd l t t' v :
  0 <= t < tlen l -> thr_get (thr_upd l t v) t' = if t' =? t then v else thr_get l t'.
Proof.
  unfold thr_get, thr_upd, tlen; intros H.
  destruct (t <? 0) eqn:Et; [lia|].
  destruct (t' <? 0) eqn:Et'.
  - destruct (t' =? t) eqn:E; auto. apply Z.eqb_eq in E; lia.
  - rewrite nth_thr_upd_nat.
    destruct (t' =? t) eqn:E.
    + apply Z.eqb_eq in E; subst. rewrite Nat.eqb_refl.
      assert (Hl : Nat.ltb (Z.to_nat t) (length l) = true) by (apply Nat.ltb_lt; lia). now rewrite Hl.
    + apply Z.eqb_neq in E. assert (Hn : Nat.eqb (Z.to_nat t') (Z.to_nat t) = false) by (apply Nat.eqb_neq; lia).
      now rewrite Hn.
Qed.

Lemma heldb_iff th p : heldb th p = true <-> exists t, 0 <= t < tlen th /\ snd (thr_get th t) = p.
Proof.
  unfold heldb, tlen. rewrite existsb_exists. split.
  - intros (mc & Hin & E). apply Z.eqb_eq in E.
    destruct (In_nth _ _ (M_EXIT, c_EMPTY) Hin) as (k & Hk & Hn).
    exists (Z.of_nat k). split; [lia|]. unfold thr_get.
    destruct (Z.of_nat k <? 0) eqn:E0; [lia|]. rewrite Nat2Z.id, Hn. exact E.
  - intros (t & Ht & E). unfold thr_get in E. destruct (t <? 0) eqn:E0; [lia|].
    exists (nth (Z.to_nat t) th (M_EXIT, c_EMPTY)). split.
    + apply nth_In; lia.
    + now apply Z.eqb_eq.
Qed.

Lemma heldb_false_iff th p : heldb th p = false <-> forall t, 0 <= t < tlen th -> snd (thr_get th t) <> p.
Proof.
  split.
  - intros H t Ht E. assert (heldb th p = true) by (apply heldb_iff; eauto). congruence.
  - intros H. destruct (heldb th p) eqn:E; auto. apply heldb_iff in E. destruct E as (t & Ht & E). exfalso; eapply H; eauto.
Qed.

(* ---------------- static frame ---------------- *)
Definition same_static (s s' : sstate) : Prop :=
  sn s' = sn s /\ etree s' = etree s /\ psize s' = psize s /\ ptype s' = ptype s.

Lemma same_static_refl s : same_static s s.
Proof. repeat split. Qed.

Lemma same_static_trans a b c : same_static a b -> same_static b c -> same_static a c.
Proof. unfold same_static; intuition congruence. Qed.

Section FRAME.
Variables s s' : sstate.
Hypothesis F : same_static s s'.
Lemma fr_sz p : sz s' p = sz s p. Proof. unfold sz; destruct F as (_ & _ & -> & _); auto. Qed.
Lemma fr_lead p : lead s' p = lead s p.
Proof. unfold lead; rewrite fr_sz; destruct F as (-> & _); auto. Qed.
Lemma fr_dad p : dadpanel s' p = dadpanel s p.
Proof. unfold dadpanel; rewrite fr_sz; destruct F as (_ & -> & _); auto. Qed.
Lemma fr_kid p c : kid s' p c = kid s p c.
Proof. unfold kid; now rewrite fr_lead, fr_dad. Qed.
Lemma fr_regular p : regular s' p <-> regular s p.
Proof. unfold regular; destruct F as (_ & _ & _ & ->); tauto. Qed.
Lemma fr_relaxed p : relaxed s' p <-> relaxed s p.
Proof. unfold relaxed; destruct F as (_ & _ & _ & ->); tauto. Qed.
Lemma fr_sn : sn s' = sn s. Proof. destruct F as (-> & _); auto. Qed.
Lemma fr_WF : WF s -> WF s'.
Proof.
  intros W. destruct F as (Hn & He & Hs & Ht).
  constructor; rewrite ?Hn, ?He, ?Hs, ?Ht; try apply W.
  - intros p; rewrite fr_lead, fr_sz; apply W.
  - intros p; rewrite fr_lead, fr_dad; apply W.
  - intros p; rewrite fr_lead, fr_dad, fr_lead, fr_regular. apply W.
  - intros p; rewrite fr_lead, fr_regular, fr_relaxed; apply W.
Qed.
End FRAME.

(* basic facts from WF *)
Lemma kid_iff s p c : kid s p c = true <-> lead s c = true /\ dadpanel s c = p.
Proof. unfold kid; rewrite andb_true_iff, Z.eqb_eq; tauto. Qed.

Lemma kid_lt s p c : WF s -> kid s p c = true -> c < p <= sn s.
Proof. intros W H; apply kid_iff in H; destruct H as [L <-]; now apply W. Qed.

Lemma kid_regular s p c : WF s -> kid s p c = true -> p < sn s -> lead s p = true /\ regular s p.
Proof. intros W H Hp; apply kid_iff in H; destruct H as [L <-]; now apply W. Qed.

(* relaxed panels have no children *)
Lemma relaxed_no_kid s p c : WF s -> lead s p = true -> relaxed s p -> kid s p c = false.
Proof.
  intros W Lp R. destruct (kid s p c) eqn:E; auto.
  pose proof (lead_range _ _ Lp) as [Hp _].
  destruct (kid_regular _ _ _ W E) as [_ Rg]; [lia|].
  unfold regular, relaxed in *; cs; congruence.
Qed.

(* ---------------- Finish ---------------- *)
Section FINISH.
Variable s : sstate.
Variable th : list (Z * Z).
Variables t cur : Z.
Hypothesis HI : Inv (mkG s th).
Hypothesis Ht : 0 <= t < tlen th.
Hypothesis Hget : thr_get th t = (M_WORK, cur).
Hypothesis Hkd : kids_done s cur = true.

Let s' := set_pstate s (updZ (pstate s) cur c_DONE).
Let th' := thr_upd th t (M_TEST, cur).

Lemma fin_static : same_static s s'.
Proof. repeat split. Qed.

Lemma fin_cur : lead s cur = true /\ st s cur = c_BUSY.
Proof.
  use_inv HI. destruct ITHREADS as (A & _ & _). specialize (A t Ht). rewrite Hget in A.
  destruct A as (_ & B & _). now apply B.
Qed.

Lemma fin_st p : st s' p = if p =? cur then c_DONE else st s p.
Proof.
  use_inv HI. unfold st, s'. cbn [pstate set_pstate]. apply nthZ_updZ.
  destruct ILEN as (A & _). rewrite A.
  destruct fin_cur as [L _]. apply lead_range in L. lia.
Qed.

Lemma fin_snd t0 : snd (thr_get th' t0) = snd (thr_get th t0).
Proof.
  unfold th'. rewrite thr_get_upd by exact Ht. destruct (t0 =? t) eqn:E; auto.
  apply Z.eqb_eq in E; subst. now rewrite Hget.
Qed.

Lemma fin_heldb p : heldb th' p = heldb th p.
Proof.
  destruct (heldb th p) eqn:E.
  - apply heldb_iff in E. destruct E as (t0 & H0 & E). apply heldb_iff. exists t0. unfold th'. rewrite tlen_upd. split; auto.
    fold th'. now rewrite fin_snd.
  - rewrite heldb_false_iff in *. intros t0 H0. rewrite fin_snd. apply E. unfold th' in H0. now rewrite tlen_upd in H0.
Qed.

Lemma fin_kids_done c : kid s cur c = true -> st s c = c_DONE.
Proof.
  intros K. pose proof Hkd as Hk. unfold kids_done in Hk. rewrite forallb_forall in Hk.
  apply kid_iff in K. destruct K as [L D].
  pose proof (lead_range _ _ L) as [R _].
  specialize (Hk c (proj2 (in_cols _ _) R)). rewrite L in Hk.
  apply Z.eqb_eq in D. rewrite D in Hk. cbn in Hk. now apply Z.eqb_eq.
Qed.

Theorem inv_finish : Inv (mkG s' th').
Proof.
  pose proof fin_static as FS. pose proof fin_cur as [Lc Bc].
  pose proof (lead_range _ _ Lc) as [Rc _].
  use_inv HI.
  constructor; inv_unf.
  - (* WF *) eapply fr_WF; [exact FS | exact IWF].
  - (* len *) destruct ILEN as (A & B & C & D & E). unfold s'. cbn. rewrite lenZ_updZ. auto.
  - (* states *)
    destruct ISTATES as (R & A). split.
    + rewrite fin_st. replace (sn s') with (sn s) by reflexivity.
      destruct (sn s =? cur) eqn:E; [apply Z.eqb_eq in E; lia | exact R].
    + intros p Lp. rewrite (fr_lead _ _ FS) in Lp. rewrite (fr_regular _ _ FS), (fr_relaxed _ _ FS), fin_st.
      specialize (A p Lp). destruct (p =? cur); [cs; split; intros; lia | exact A].
  - (* threads *)
    destruct ITHREADS as (A & B & C). split; [|split].
    + intros t0 H0. unfold th' in H0. rewrite tlen_upd in H0. unfold th'. rewrite thr_get_upd by exact Ht.
      destruct (t0 =? t) eqn:E.
      * split; [cs; lia|]. split; [cs; lia|]. intros _. right. rewrite (fr_lead _ _ FS), fin_st, Z.eqb_refl. auto.
      * specialize (A t0 H0). destruct (thr_get th t0) as [m c] eqn:G.
        destruct A as (A1 & A2 & A3). split; auto. rewrite (fr_lead _ _ FS), fin_st.
        assert (Hc : c = cur -> c = c_EMPTY).
        { intros ->. apply Z.eqb_neq in E. specialize (B t0 t H0 Ht E). rewrite G, Hget in B. cbn in B. auto. }
        destruct (c =? cur) eqn:E2.
        { apply Z.eqb_eq in E2. specialize (Hc E2). subst c. split; intros; [|left; cs; lia].
          destruct (A2 H) as [L _]. apply lead_range in L. cs; lia. }
        split; auto.
    + intros t1 t2 H1 H2 Hne. unfold th' in H1, H2. rewrite tlen_upd in H1, H2. rewrite !fin_snd. now apply B.
    + intros p Lp Bp. rewrite (fr_lead _ _ FS) in Lp. rewrite fin_st in Bp.
      destruct (p =? cur) eqn:E; [cs; lia|].
      destruct (C p Lp Bp) as (t0 & H0 & G). exists t0. unfold th'. rewrite tlen_upd. split; auto.
      rewrite thr_get_upd by exact Ht. destruct (t0 =? t) eqn:E2; auto.
      apply Z.eqb_eq in E2; subst t0. rewrite Hget in G. inversion G; subst. rewrite Z.eqb_refl in E. discriminate.
  - (* ukids *)
    intros p Hp. rewrite (fr_lead _ _ FS) in Hp. replace (sn s') with (sn s) in Hp by reflexivity.
    replace (uk s' p) with (uk s p) by reflexivity.
    rewrite (IUKIDS p Hp). unfold ukspec. replace (sn s') with (sn s) by reflexivity.
    apply countb_ext. intros c Hc. rewrite (fr_kid _ _ FS). f_equal.
    unfold unrep. rewrite fin_heldb, fin_st.
    destruct (c =? cur) eqn:E; auto. apply Z.eqb_eq in E; subst c.
    rewrite Bc. assert (Hh : heldb th cur = true) by (apply heldb_iff; exists t; split; auto; now rewrite Hget).
    rewrite Hh. cs. reflexivity.
  - (* J *)
    intros p Lp Sp. rewrite (fr_lead _ _ FS) in Lp.
    assert (Sp0 : st s p <= c_CANPIPE).
    { rewrite fin_st in Sp. destruct (p =? cur) eqn:E; auto. apply Z.eqb_eq in E; subst. rewrite Bc. cs; lia. }
    destruct (IJ p Lp Sp0) as [J1 J2]. split.
    + intros c K. rewrite (fr_kid _ _ FS) in K. rewrite fin_st. destruct (c =? cur); [cs; lia | auto].
    + intros c1 c2 K1 K2 N1 N2. rewrite (fr_kid _ _ FS) in K1, K2. rewrite fin_st in N1, N2.
      apply J2; auto.
      * destruct (c1 =? cur); [congruence | auto].
      * destruct (c2 =? cur); [congruence | auto].
  - (* D *)
    intros p Lp Dp c K. rewrite (fr_lead _ _ FS) in Lp. rewrite (fr_kid _ _ FS) in K. rewrite fin_st in *.
    destruct (c =? cur) eqn:Ec; auto.
    destruct (p =? cur) eqn:E.
    + apply Z.eqb_eq in E; subst p. now apply fin_kids_done.
    + eapply ID; eauto.
  - (* queue *)
    destruct IQUEUE as (A & B & C & D & E & F).
    unfold s'. cbn [qhead qtail qcount q set_pstate sn]. fold s'.
    split; auto. split; auto. split; auto. split; auto. split.
    + intros i Hi. destruct (E i Hi) as [E1 E2]. rewrite (fr_lead _ _ FS), (fr_regular _ _ FS). split; auto.
      intros R. rewrite fin_st. destruct (_ =? cur); [cs; lia | auto].
    + intros p Lp Sp. rewrite (fr_lead _ _ FS) in Lp. rewrite fin_st in Sp.
      destruct (p =? cur); [cs; lia | auto].
  - (* ready *)
    intros p Lp R Sp. rewrite (fr_lead _ _ FS) in Lp. rewrite (fr_regular _ _ FS) in R. rewrite fin_st in Sp.
    replace (uk s' p) with (uk s p) by reflexivity.
    destruct (p =? cur); [cs; lia|]. eapply IREADY; eauto.
  - (* tasks *)
    replace (tasks s') with (tasks s) by reflexivity.
    rewrite ITASKS. unfold tasks_spec. replace (sn s') with (sn s) by reflexivity.
    apply countb_ext. intros c Hc. unfold untaken. rewrite (fr_lead _ _ FS), fin_st.
    destruct (c =? cur) eqn:E; auto. apply Z.eqb_eq in E; subst. rewrite Bc. cs. reflexivity.
  - (* root *)
    destruct IROOT as [R1 R2].
    replace (tasks s') with (tasks s) by reflexivity. replace (sn s') with (sn s) by reflexivity. split.
    + intros Hpos. destruct (R1 Hpos) as (r & K & Sr). exists r. rewrite (fr_kid _ _ FS), fin_st. split; auto.
      destruct (r =? cur) eqn:E; auto. apply Z.eqb_eq in E; subst. rewrite Bc in Sr. lia.
    + intros Hz. destruct (R2 Hz) as (r & t0 & K & H0 & G1 & G2). exists r, t0.
      rewrite (fr_kid _ _ FS). unfold th'. rewrite tlen_upd. fold th'. rewrite fin_snd. repeat split; auto; try lia.
      unfold th'. rewrite thr_get_upd by exact Ht. destruct (t0 =? t); auto. cbn. cs. lia.
  - (* fb0 *)
    intros p Lp. rewrite (fr_lead _ _ FS) in Lp. replace (fb s') with (fb s) by reflexivity.
    rewrite (fr_lead _ _ FS). replace (sn s') with (sn s) by reflexivity. now apply IFB0.
Qed.
End FINISH.

(* ---------------- Test ---------------- *)
Section TEST.
Variable s : sstate.
Variable th : list (Z * Z).
Variables t cur : Z.
Hypothesis HI : Inv (mkG s th).
Hypothesis Ht : 0 <= t < tlen th.
Hypothesis Hget : thr_get th t = (M_TEST, cur).
Let m' := if 0 <? tasks s then M_READY else M_EXIT.
Let th' := thr_upd th t (m', cur).

Lemma tst_snd t0 : snd (thr_get th' t0) = snd (thr_get th t0).
Proof.
  unfold th'. rewrite thr_get_upd by exact Ht. destruct (t0 =? t) eqn:E; auto.
  apply Z.eqb_eq in E; subst. now rewrite Hget.
Qed.

Lemma tst_heldb p : heldb th' p = heldb th p.
Proof.
  destruct (heldb th p) eqn:E.
  - apply heldb_iff in E. destruct E as (t0 & H0 & E). apply heldb_iff. exists t0. unfold th'. rewrite tlen_upd. split; auto.
    fold th'. now rewrite tst_snd.
  - rewrite heldb_false_iff in *. intros t0 H0. rewrite tst_snd. apply E. unfold th' in H0. now rewrite tlen_upd in H0.
Qed.

Theorem inv_test : Inv (mkG s th').
Proof.
  use_inv HI.
  constructor; inv_unf; auto.
  - (* threads *)
    destruct ITHREADS as (A & B & C). split; [|split].
    + intros t0 H0. unfold th' in H0. rewrite tlen_upd in H0. unfold th'. rewrite thr_get_upd by exact Ht.
      destruct (t0 =? t) eqn:E; [|now apply A].
      specialize (A t Ht). rewrite Hget in A. destruct A as (_ & _ & A3).
      split; [unfold m'; destruct (0 <? tasks s); cs; lia|].
      split; [unfold m'; destruct (0 <? tasks s); cs; lia|].
      intros _. apply A3. cs; lia.
    + intros t1 t2 H1 H2 Hne. unfold th' in H1, H2. rewrite tlen_upd in H1, H2. rewrite !tst_snd. now apply B.
    + intros p Lp Bp. destruct (C p Lp Bp) as (t0 & H0 & G). exists t0. unfold th'. rewrite tlen_upd. split; auto.
      rewrite thr_get_upd by exact Ht. destruct (t0 =? t) eqn:E2; auto.
      apply Z.eqb_eq in E2; subst t0. rewrite Hget in G. cs. discriminate G.
  - (* ukids *)
    intros p Hp. rewrite (IUKIDS p Hp). unfold ukspec.
    apply countb_ext. intros c Hc. f_equal. unfold unrep. now rewrite tst_heldb.
  - (* root *)
    destruct IROOT as [R1 R2]. split; auto.
    intros Hz. destruct (R2 Hz) as (r & t0 & K & H0 & G1 & G2). exists r, t0.
    unfold th'. rewrite tlen_upd. fold th'. rewrite tst_snd. repeat split; auto; try lia.
    unfold th'. rewrite thr_get_upd by exact Ht. destruct (t0 =? t); auto. cbn. unfold m'.
    assert (E : 0 <? tasks s = false) by (apply Z.ltb_ge; lia). rewrite E. cs. lia.
Qed.
End TEST.
