(* EtreePermProofs.v -- permutations (check_perm sound and complete, index view, scatter/copy loops),
   natural ordering, block-partition checker *)
From Coq Require Import ZArith List Bool Lia Permutation.
From SLU Require Import Consts EtreeModel EtreeArrProofs.
Import ListNotations.
Local Open Scope Z_scope.

(* p is a bijection of {0..n-1}: n entries, all in range, pairwise distinct *)
Definition is_perm (n : Z) (p : list Z) : Prop :=
  alen p = n /\ Forall (fun x => 0 <= x < n) p /\ NoDup p.

Lemma check_perm_correct : forall n p, check_perm n p = true <-> is_perm n p.
Proof.
  intros n p. unfold check_perm, is_perm. rewrite andb_true_iff, Z.eqb_eq, forallb_forall.
  split.
  - intros [Hl Hall].
    assert (Hincl : incl (zrange 0 n) p).
    { intros x Hx. apply Hall in Hx. apply existsb_exists in Hx as [y [Hy E]].
      apply Z.eqb_eq in E. subst; auto. }
    assert (Hlen : length p = length (zrange 0 n)).
    { rewrite zrange_length. unfold alen in Hl. lia. }
    split; auto. split.
    + apply Forall_forall. intros x Hx.
      assert (Hsub : incl p (zrange 0 n)) by (apply NoDup_length_incl; [apply NoDup_zrange | lia | exact Hincl]).
      apply Hsub in Hx. apply In_zrange in Hx. lia.
    + apply (@NoDup_incl_NoDup Z (zrange 0 n) p); [apply NoDup_zrange | lia | exact Hincl].
  - intros [Hl [Hr Hnd]]. split; auto. intros x Hx.
    apply existsb_exists. exists x. split; [|apply Z.eqb_refl].
    assert (Hi : incl (zrange 0 n) p).
    { apply NoDup_length_incl; auto.
      - rewrite zrange_length; unfold alen in Hl; lia.
      - intros y Hy. rewrite Forall_forall in Hr. apply In_zrange. apply Hr in Hy. lia. }
    auto.
Qed.

(* non-vacuity *)
Example check_perm_ex : check_perm 4 [2; 0; 3; 1] = true /\ check_perm 4 [2; 0; 2; 1] = false /\
                        check_perm 3 [0; 1; 3] = false /\ check_perm 3 [0; 1] = false.
Proof. repeat split; reflexivity. Qed.

(* ------------------------------------------------------------------------------------------ *)
(* index view: injective map of 0..n-1 into 0..n-1 (the array may be longer than n) *)
Definition inj_on (n : Z) (p : list Z) : Prop :=
  (forall i, 0 <= i < n -> exists v, aget p i = Some v /\ 0 <= v < n) /\
  (forall i j v, 0 <= i < n -> 0 <= j < n -> aget p i = Some v -> aget p j = Some v -> i = j).

Lemma is_perm_inj_on : forall n p, is_perm n p -> inj_on n p.
Proof.
  intros n p [Hl [Hr Hnd]]. split.
  - intros i Hi. destruct (aget_range_Some p i) as [v Hv]; [lia|].
    exists v; split; auto. rewrite Forall_forall in Hr. apply Hr. eapply aget_In; eauto.
  - intros i j v Hi Hj Ei Ej. rewrite aget_nth_error in Ei, Ej by lia.
    rewrite NoDup_nth_error in Hnd.
    assert (Z.to_nat i = Z.to_nat j).
    { apply Hnd; [unfold alen in Hl; lia|congruence]. }
    lia.
Qed.

Lemma nth_error_firstn_lt : forall (l : list Z) k i, (i < k)%nat -> nth_error (firstn k l) i = nth_error l i.
Proof.
  induction l as [|h t IH]; intros [|k] [|i] H; simpl; auto; try lia. apply IH. lia.
Qed.

Lemma aget_firstn : forall p (k : nat) i, 0 <= i < Z.of_nat k -> aget (firstn k p) i = aget p i.
Proof.
  intros p k i H. rewrite !aget_nth_error by lia. apply nth_error_firstn_lt. lia.
Qed.

Lemma inj_on_alen : forall n p, inj_on n p -> n <= alen p.
Proof.
  intros n p [H _]. destruct (Z_le_dec n 0); [pose proof (alen_nonneg p); lia|].
  destruct (H (n - 1)) as [v [Hv _]]; [lia|]. apply aget_Some_range in Hv. lia.
Qed.

Lemma inj_on_is_perm_firstn : forall n p, 0 <= n -> inj_on n p -> is_perm n (firstn (Z.to_nat n) p).
Proof.
  intros n p Hn Hinj. pose proof (inj_on_alen _ _ Hinj) as Hlen. destruct Hinj as [Hr Hi].
  assert (Hl : alen (firstn (Z.to_nat n) p) = n).
  { unfold alen in *. rewrite firstn_length. lia. }
  split; auto. split.
  - apply Forall_forall. intros x Hx. apply In_aget in Hx as [i [Hi1 Hi2]].
    rewrite Hl in Hi1. rewrite aget_firstn in Hi2 by lia.
    destruct (Hr i Hi1) as [v [Hv Hv2]]. congruence.
  - apply NoDup_nth_error. intros a b Ha E.
    unfold alen in Hl.
    assert (Hb : (b < length (firstn (Z.to_nat n) p))%nat).
    { apply nth_error_Some. rewrite <- E. apply nth_error_Some. auto. }
    destruct (nth_error (firstn (Z.to_nat n) p) a) as [v|] eqn:Ea.
    2:{ apply nth_error_None in Ea. lia. }
    symmetry in E.
    rewrite <- aget_of_nat in Ea, E. rewrite aget_firstn in Ea, E by lia.
    assert (Z.of_nat a = Z.of_nat b) by (eapply Hi; eauto; lia). lia.
Qed.

Lemma inj_on_is_perm : forall n p, alen p = n -> inj_on n p -> is_perm n p.
Proof.
  intros n p Hl H. pose proof (alen_nonneg p).
  replace p with (firstn (Z.to_nat n) p).
  - apply inj_on_is_perm_firstn; auto. lia.
  - apply firstn_all2. unfold alen in Hl. lia.
Qed.

Lemma is_perm_surj : forall n p v, is_perm n p -> 0 <= v < n -> exists i, 0 <= i < n /\ aget p i = Some v.
Proof.
  intros n p v Hp Hv. assert (Hc : check_perm n p = true) by now apply check_perm_correct.
  unfold check_perm in Hc. apply andb_true_iff in Hc as [Hl Hall]. apply Z.eqb_eq in Hl.
  rewrite forallb_forall in Hall. specialize (Hall v). rewrite In_zrange in Hall.
  apply existsb_exists in Hall as [y [Hy E]]; [|lia]. apply Z.eqb_eq in E. subst y.
  apply In_aget in Hy as [i [Hi1 Hi2]]. exists i. split; auto. lia.
Qed.

Lemma inj_on_surj : forall n p v, inj_on n p -> 0 <= v < n -> exists i, 0 <= i < n /\ aget p i = Some v.
Proof.
  intros n p v H Hv. assert (Hn : 0 <= n) by lia.
  pose proof (inj_on_is_perm_firstn n p Hn H) as Hp.
  destruct (is_perm_surj _ _ v Hp Hv) as [i [Hi Hg]].
  exists i; split; auto. rewrite aget_firstn in Hg by lia. auto.
Qed.

Lemma inj_on_firstn : forall n p, 0 <= n -> inj_on n p -> inj_on n (firstn (Z.to_nat n) p).
Proof. intros. apply is_perm_inj_on. now apply inj_on_is_perm_firstn. Qed.

(* equality of arrays from equality of all reads *)
Lemma list_eq_aget : forall a b, alen a = alen b -> (forall i, 0 <= i < alen a -> aget a i = aget b i) -> a = b.
Proof.
  intros a b Hl H. unfold alen in Hl.
  apply (nth_ext a b 0 0); [lia|]. intros k Hk.
  specialize (H (Z.of_nat k)). rewrite !aget_of_nat in H.
  assert (Hk2 : (k < length b)%nat) by lia.
  destruct (nth_error a k) eqn:Ea; [|apply nth_error_None in Ea; lia].
  destruct (nth_error b k) eqn:Eb; [|apply nth_error_None in Eb; lia].
  apply (nth_error_nth _ _ 0) in Ea. apply (nth_error_nth _ _ 0) in Eb.
  rewrite Ea, Eb. assert (Some z = Some z0) by (apply H; unfold alen; lia). congruence.
Qed.

(* ------------------------------------------------------------------------------------------ *)
(* scatter / copy loops of sp_colorder *)
Lemma scatter_spec : forall n idx src off dst,
  0 <= n -> inj_on n idx -> n <= alen dst ->
  (forall i, 0 <= i < n -> exists v, aget src (i + off) = Some v) ->
  exists d, scatter n idx src off dst = Some d /\ alen d = alen dst /\
    (forall i k, 0 <= i < n -> aget idx i = Some k -> aget d k = aget src (i + off)) /\
    (forall k, (forall i, 0 <= i < n -> aget idx i <> Some k) -> aget d k = aget dst k).
Proof.
  intros n idx src off dst Hn [Hr Hinj] Hd Hsrc. unfold scatter.
  destruct (ofold_zrange_inv
    (fun d i => match aget idx i with Some k => match aget src (i + off) with Some v => aset d k v | None => None end | None => None end)
    (fun m d => alen d = alen dst /\
       (forall i k, 0 <= i < m -> aget idx i = Some k -> aget d k = aget src (i + off)) /\
       (forall k, (forall i, 0 <= i < m -> aget idx i <> Some k) -> aget d k = aget dst k))
    0 n dst) as [d [E [P1 [P2 P3]]]]; auto.
  - split; auto. split; [intros; lia|auto].
  - intros i d Hi [Q1 [Q2 Q3]].
    destruct (Hr i Hi) as [k [Ek Hk]]. destruct (Hsrc i Hi) as [v Ev]. rewrite Ek, Ev.
    destruct (aset_total d k v) as [d' Ed]; [lia|]. exists d'. split; auto. split; [|split].
    + rewrite (aset_len _ _ _ _ Ed). auto.
    + intros j kj Hj Ej. rewrite (aget_aset _ _ _ _ kj Ed).
      destruct (kj =? k) eqn:Ekk.
      * apply Z.eqb_eq in Ekk. subst kj.
        destruct (Z.eq_dec j i) as [->|Hne]; [congruence|].
        assert (j = i) by (eapply Hinj; eauto; lia). contradiction.
      * apply Z.eqb_neq in Ekk. apply Q2; auto.
        destruct (Z.eq_dec j i) as [->|Hne]; [congruence|lia].
    + intros k' Hk'. rewrite (aget_aset _ _ _ _ k' Ed).
      destruct (k' =? k) eqn:Ekk.
      * apply Z.eqb_eq in Ekk. subst k'. exfalso. apply (Hk' i); auto. lia.
      * apply Q3. intros j Hj. apply Hk'. lia.
  - exists d. auto.
Qed.

Lemma copy_n_spec : forall n src dst,
  0 <= n -> n <= alen src -> n <= alen dst ->
  exists d, copy_n n src dst = Some d /\ alen d = alen dst /\
    (forall i, 0 <= i < n -> aget d i = aget src i) /\
    (forall i, n <= i -> aget d i = aget dst i).
Proof.
  intros n src dst Hn Hs Hd. unfold copy_n.
  destruct (ofold_zrange_inv
    (fun d i => match aget src i with Some v => aset d i v | None => None end)
    (fun m d => alen d = alen dst /\ (forall i, 0 <= i < m -> aget d i = aget src i) /\
                (forall i, m <= i -> aget d i = aget dst i))
    0 n dst) as [d [E P]]; auto.
  - split; auto. split; [intros; lia|auto].
  - intros i d Hi [Q1 [Q2 Q3]].
    destruct (aget_range_Some src i) as [v Ev]; [lia|]. rewrite Ev.
    destruct (aset_total d i v) as [d' Ed]; [lia|]. exists d'. split; auto. split; [|split].
    + rewrite (aset_len _ _ _ _ Ed). auto.
    + intros j Hj. rewrite (aget_aset _ _ _ _ j Ed). destruct (j =? i) eqn:Eji.
      * apply Z.eqb_eq in Eji. now subst.
      * apply Z.eqb_neq in Eji. apply Q2. lia.
    + intros j Hj. rewrite (aget_aset _ _ _ _ j Ed). destruct (j =? i) eqn:Eji.
      * apply Z.eqb_eq in Eji. lia.
      * apply Q3. lia.
  - exists d. auto.
Qed.

(* ------------------------------------------------------------------------------------------ *)
(* natural ordering = identity *)
Lemma natural_perm_id : forall n, 0 <= n -> natural_perm n = Some (zrange 0 n).
Proof.
  intros n Hn. unfold natural_perm.
  destruct (ofold_zrange_inv (fun p i => aset p i i)
    (fun m p => alen p = n /\ forall i, 0 <= i < m -> aget p i = Some i) 0 n (mk n c_uninit))
    as [p [E [P1 P2]]]; auto.
  - split; [rewrite alen_mk; lia|intros; lia].
  - intros i p Hi [Q1 Q2]. destruct (aset_total p i i) as [p' Ep]; [lia|].
    exists p'; split; auto. split; [rewrite (aset_len _ _ _ _ Ep); auto|].
    intros j Hj. rewrite (aget_aset _ _ _ _ j Ep). destruct (j =? i) eqn:Eji.
    + apply Z.eqb_eq in Eji. now subst.
    + apply Z.eqb_neq in Eji. apply Q2. lia.
  - rewrite E. f_equal. apply list_eq_aget.
    + rewrite alen_zrange. lia.
    + intros i Hi. rewrite P2 by lia. rewrite aget_zrange by lia. f_equal; lia.
Qed.

Lemma is_perm_zrange : forall n, 0 <= n -> is_perm n (zrange 0 n).
Proof.
  intros n Hn. split; [rewrite alen_zrange; lia|]. split; [|apply NoDup_zrange].
  apply Forall_forall. intros x Hx. apply In_zrange in Hx. lia.
Qed.

(* get_perm_c called with the colperm_t constant NATURAL (generated from slu_mt_util.h) returns the
   identity; the proof breaks if NATURAL stops being the value handled by `case 0` *)
Lemma natural_is_id_main : forall n, 0 <= n ->
  ordering_code 0 = Some c_NATURAL /\ get_perm_c_model c_NATURAL n = Some (Some (zrange 0 n)) /\ is_perm n (zrange 0 n).
Proof.
  intros n Hn. split; [reflexivity|]. split; [|now apply is_perm_zrange].
  unfold get_perm_c_model. change (c_NATURAL =? 0) with true. cbn iota. now rewrite natural_perm_id.
Qed.

(* ------------------------------------------------------------------------------------------ *)
(* block partitions: the list is a concatenation of blocks  s, 0, ..., 0  of length s >= 1 *)
Inductive block_part : list Z -> Prop :=
| BP_nil : block_part []
| BP_cons : forall s rest, 1 <= s -> block_part rest ->
            block_part (s :: repeat 0 (Z.to_nat (s - 1)) ++ rest).

Lemma all_zero_repeat : forall l, all_zero l = true <-> l = repeat 0 (length l).
Proof.
  induction l as [|x t IH]; simpl; [tauto|].
  rewrite andb_true_iff, Z.eqb_eq, IH. split.
  - intros [-> E]. now f_equal.
  - intros E. inversion E; subst. split; auto. now rewrite <- H1.
Qed.

Lemma check_blocks_f_sound : forall f l, check_blocks_f f l = true -> block_part l.
Proof.
  induction f as [|f IH]; intros [|s t] H; simpl in H; try constructor; try discriminate.
  repeat rewrite andb_true_iff in H. destruct H as [[[H1 H2] H3] H4].
  apply Z.leb_le in H1, H2. unfold alen in H2.
  rewrite <- (firstn_skipn (Z.to_nat (s - 1)) t).
  apply all_zero_repeat in H3. rewrite H3. rewrite firstn_length.
  replace (Init.Nat.min (Z.to_nat (s - 1)) (length t)) with (Z.to_nat (s - 1)) by lia.
  constructor; auto.
Qed.

Lemma check_blocks_f_complete : forall l, block_part l -> forall f, (length l <= f)%nat -> check_blocks_f f l = true.
Proof.
  induction 1 as [|s rest Hs Hb IH]; intros f Hf.
  - destruct f; reflexivity.
  - destruct f as [|f]; [simpl in Hf; lia|]. cbn [check_blocks_f].
    simpl in Hf. rewrite app_length, repeat_length in Hf.
    assert (E1 : firstn (Z.to_nat (s - 1)) (repeat 0 (Z.to_nat (s - 1)) ++ rest) = repeat 0 (Z.to_nat (s - 1))).
    { rewrite firstn_app. rewrite repeat_length. rewrite Nat.sub_diag. simpl. rewrite app_nil_r.
      apply firstn_all2. rewrite repeat_length. lia. }
    assert (E2 : skipn (Z.to_nat (s - 1)) (repeat 0 (Z.to_nat (s - 1)) ++ rest) = rest).
    { rewrite skipn_app. rewrite repeat_length. rewrite Nat.sub_diag. simpl.
      rewrite skipn_all2; [reflexivity|rewrite repeat_length; lia]. }
    rewrite E1, E2. repeat rewrite andb_true_iff. repeat split.
    + apply Z.leb_le; lia.
    + apply Z.leb_le. unfold alen. rewrite app_length, repeat_length. lia.
    + apply all_zero_repeat. now rewrite repeat_length.
    + apply IH. lia.
Qed.

Lemma check_blocks_correct : forall n part, check_blocks n part = true <-> (alen part = n /\ block_part part).
Proof.
  intros n part. unfold check_blocks. rewrite andb_true_iff, Z.eqb_eq. split.
  - intros [H1 H2]. split; auto. eapply check_blocks_f_sound; eauto.
  - intros [H1 H2]. split; auto. apply check_blocks_f_complete; auto.
Qed.

(* what a block partition says about positions: every index lies in exactly one block [k, k+s) whose
   first entry is its size s >= 1 and whose other entries are 0 *)
Lemma block_part_cover : forall l, block_part l -> forall i, 0 <= i < alen l ->
  exists k s, aget l k = Some s /\ 1 <= s /\ k <= i < k + s /\ k + s <= alen l /\
              (forall j, k < j < k + s -> aget l j = Some 0).
Proof.
  induction 1 as [|s rest Hs Hb IH]; intros i Hi.
  - unfold alen in Hi; simpl in Hi; lia.
  - set (blk := s :: repeat 0 (Z.to_nat (s - 1))).
    assert (Hbl : alen blk = s). { unfold alen, blk. simpl. rewrite repeat_length. lia. }
    change (s :: repeat 0 (Z.to_nat (s - 1)) ++ rest) with (blk ++ rest) in *.
    assert (Hal : alen (blk ++ rest) = s + alen rest). { unfold alen in *. rewrite app_length. lia. }
    assert (Hget1 : forall j, 0 <= j < s -> aget (blk ++ rest) j = aget blk j).
    { intros j Hj. rewrite !aget_nth_error by lia. apply nth_error_app1. unfold alen in Hbl. lia. }
    assert (Hget2 : forall j, s <= j -> aget (blk ++ rest) j = aget rest (j - s)).
    { intros j Hj. rewrite !aget_nth_error by lia. rewrite nth_error_app2 by (unfold alen in Hbl; lia).
      f_equal. unfold alen in Hbl. lia. }
    destruct (Z_lt_dec i s) as [Hlt|Hge].
    + exists 0, s. split; [rewrite Hget1 by lia; reflexivity|]. split; auto. split; [lia|]. split; [pose proof (alen_nonneg rest); lia|].
      intros j Hj. rewrite Hget1 by lia. rewrite aget_nth_error by lia. unfold blk.
      replace (Z.to_nat j) with (S (Z.to_nat (j - 1))) by lia. simpl.
      apply nth_error_repeat. lia.
    + destruct (IH (i - s)) as [k [s' [G1 [G2 [G3 [G4 G5]]]]]]; [lia|].
      assert (0 <= k) by (apply aget_Some_range in G1; lia).
      exists (k + s), s'. split; [rewrite Hget2 by lia; now replace (k + s - s) with k by lia|].
      split; auto. split; [lia|]. split; [lia|].
      intros j Hj. rewrite Hget2 by lia. apply G5. lia.
Qed.

Example check_blocks_ex : check_blocks 6 [2; 0; 1; 3; 0; 0] = true /\ check_blocks 6 [2; 0; 1; 3; 0; 1] = false /\
                          check_blocks 3 [1; 3; 0] = false /\ check_blocks 2 [0; 2] = false.
Proof. repeat split; reflexivity. Qed.
