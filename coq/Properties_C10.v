From Coq Require Import ZArith List Bool.
From SLU Require Import Consts EtreeModel EtreeSpec EtreeArrProofs EtreePermProofs EtreeUFProofs EtreePostProofs EtreeColorderProofs EtreeSpecProofs EtreeGameProofs EtreeTheoryProofs EtreeLiuProofs EtreeFullProofs EtreeReorderProofs EtreeFinalProofs.
Import ListNotations.
Local Open Scope Z_scope.

(* check_perm (run on the outputs of MMD / COLAMD / sp_colorder) is sound and complete *)
Theorem check_perm_sound_complete : forall n p, check_perm n p = true <-> is_perm n p.
Proof. exact check_perm_correct. Qed.
Print Assumptions check_perm_sound_complete.

(* check_blocks (run on part_super_h) is sound and complete; block_part_cover spells out the partition *)
Theorem check_blocks_sound_complete : forall n part, check_blocks n part = true <-> (alen part = n /\ block_part part).
Proof. exact check_blocks_correct. Qed.
Print Assumptions check_blocks_sound_complete.

Theorem block_part_is_partition : forall l, block_part l -> forall i, 0 <= i < alen l ->
  exists k s, aget l k = Some s /\ 1 <= s /\ k <= i < k + s /\ k + s <= alen l /\
              (forall j, k < j < k + s -> aget l j = Some 0).
Proof. exact block_part_cover. Qed.
Print Assumptions block_part_is_partition.

(* natural ordering = identity, for the colperm_t value NATURAL of the current headers *)
Theorem natural_is_id : forall n, 0 <= n ->
  ordering_code 0 = Some c_NATURAL /\ get_perm_c_model c_NATURAL n = Some (Some (zrange 0 n)) /\ is_perm n (zrange 0 n).
Proof. exact natural_is_id_main. Qed.
Print Assumptions natural_is_id.

(* sp_coletree / sp_symetree: for EVERY well-formed pattern the model terminates (find with path halving:
   fuel nc+1 suffices), makes no out-of-range access and returns a forest  j < parent[j] <= nc *)
Theorem coletree_forest : forall nr nc acolst acolend arow,
  0 <= nr -> 0 <= nc -> wf_pat nr nc acolst acolend arow ->
  exists parent, sp_coletree acolst acolend arow nr nc = Some parent /\ forest nc parent.
Proof. exact sp_coletree_forest. Qed.
Print Assumptions coletree_forest.

Theorem symetree_forest : forall n acolst acolend arow,
  0 <= n -> wf_pat n n acolst acolend arow ->
  exists parent, sp_symetree acolst acolend arow n = Some parent /\ forest n parent.
Proof. exact sp_symetree_forest. Qed.
Print Assumptions symetree_forest.

(* TreePostorder (non-recursive nr_etdfs): for EVERY forest the model terminates within fuel (n+1, n) and
   returns post with post[n] = n, post[0..n-1] a bijection, children numbered before parents, and the
   numbers of every subtree forming a contiguous range that ends at the number of its root *)
Theorem postorder_ok : forall n parent, 0 <= n -> forest n parent ->
  exists post, tree_postorder n parent = Some post /\ alen post = n + 1 /\ aget post n = Some n /\
    is_perm n (firstn (Z.to_nat n) post) /\
    (forall j p, 0 <= j < n -> aget parent j = Some p ->
       exists pj pp, aget post j = Some pj /\ aget post p = Some pp /\ pj < pp) /\
    (forall b, 0 <= b <= n -> exists pb lo, aget post b = Some pb /\ 0 <= lo <= pb /\
       forall a, 0 <= a <= n -> exists pa, aget post a = Some pa /\ (anc parent a b <-> lo <= pa <= pb)).
Proof. exact postorder_ok_main. Qed.
Print Assumptions postorder_ok.

(* sp_colorder, non-symmetric mode, EVERY well-formed CSC pattern and EVERY bijection perm_c:
   see colorder_post in EtreeColorderProofs.v for the conclusions (perm_c_out = post o perm_c_in bijection,
   AC column perm_c_out[j] = column j of A, etree = renumbered etree of A*Pc_in, j < parent j <= n,
   contiguous subtrees) *)
Theorem colorder_perm : forall m n colptr rowind perm_c,
  0 <= m -> 0 <= n -> wf_csc m n colptr rowind -> is_perm n perm_c ->
  exists out et0 colbeg0 colend0,
    colorder false m n colptr rowind perm_c = Some out /\
    (forall i k, 0 <= i < n -> aget perm_c i = Some k ->
                 aget colbeg0 k = aget colptr i /\ aget colend0 k = aget colptr (i + 1)) /\
    wf_pat m n colbeg0 colend0 rowind /\
    sp_coletree colbeg0 colend0 rowind m n = Some et0 /\ forest n et0 /\
    colorder_post n colptr perm_c et0 out.
Proof. exact colorder_nonsym_ok. Qed.
Print Assumptions colorder_perm.

(* ... and the reported etree is the column elimination tree (definitional spec) of the FINAL A*Pc *)
Theorem colorder_reports_final_etree : forall m n colptr rowind perm_c,
  0 <= m -> 0 <= n -> wf_csc m n colptr rowind -> is_perm n perm_c ->
  exists colbeg colend perm_out etree,
    colorder false m n colptr rowind perm_c = Some (colbeg, colend, perm_out, etree) /\
    wf_pat m n colbeg colend rowind /\
    etree = coletree_spec colbeg colend rowind n.
Proof. exact colorder_etree_final. Qed.
Print Assumptions colorder_reports_final_etree.

(* symmetric mode: same conclusions for every run of the model that returns a result (partial: the
   totality of at_plus_a on well-formed square input is not proved) *)
Theorem colorder_perm_sym_partial : forall m n colptr rowind perm_c out,
  0 <= n -> alen colptr = n + 1 -> is_perm n perm_c ->
  colorder true m n colptr rowind perm_c = Some out ->
  exists et0, forest n et0 /\ colorder_post n colptr perm_c et0 out.
Proof. exact colorder_sym_ok_partial. Qed.
Print Assumptions colorder_perm_sym_partial.

(* sp_coletree / sp_symetree = the definitional spec (elimination game on the graph of M^T M, resp. of the
   strict upper triangle): for EVERY well-formed pattern the model returns exactly the spec *)
Theorem coletree_is_spec : forall nr nc acolst acolend arow,
  0 <= nr -> 0 <= nc -> wf_pat nr nc acolst acolend arow ->
  sp_coletree acolst acolend arow nr nc = Some (coletree_spec acolst acolend arow nc).
Proof. exact sp_coletree_is_spec. Qed.
Print Assumptions coletree_is_spec.

Theorem symetree_is_spec : forall n acolst acolend arow,
  0 <= n -> wf_pat n n acolst acolend arow ->
  sp_symetree acolst acolend arow n = Some (symetree_spec acolst acolend arow n).
Proof. exact sp_symetree_is_spec. Qed.
Print Assumptions symetree_is_spec.

(* the executable elimination step of the spec is the text-book one *)
Theorem spec_elim_step : forall g k i j, square g -> (k < length g)%nat -> (i < length g)%nat -> (j < length g)%nat ->
  gget (elim_step g k) i j = gget g i j || (Nat.ltb k i && Nat.ltb k j && gget g k i && gget g k j).
Proof. exact elim_step_spec. Qed.
Print Assumptions spec_elim_step.

From SLU Require Import EtreeSymProofs.

(* symmetric mode, completed: for every square pattern with monotone column pointers the A + A^T step of the model is total ... *)
Theorem c10_at_plus_a_total : forall n colptr rowind, 0 <= n -> wf_csc_mono n colptr rowind ->
  exists bnz b_colptr b_rowind, at_plus_a n (alen rowind) colptr rowind = Some (bnz, b_colptr, b_rowind).
Proof. exact at_plus_a_total. Qed.
Print Assumptions c10_at_plus_a_total.

(* ... and returns exactly the off-diagonal pattern of A + A^T (duplicate-free columns, whatever duplicates the input had) *)
Theorem c10_at_plus_a_pattern : forall n colptr rowind bnz b_colptr b_rowind,
  0 <= n -> wf_csc_mono n colptr rowind ->
  at_plus_a n (alen rowind) colptr rowind = Some (bnz, b_colptr, b_rowind) ->
  wf_csc_mono n b_colptr b_rowind /\
  aget b_colptr 0 = Some 0 /\ aget b_colptr n = Some bnz /\ alen b_rowind = bnz /\
  forall j, 0 <= j < n ->
    NoDup (col_rows b_colptr (tl b_colptr) b_rowind j) /\
    forall i, memZ i (col_rows b_colptr (tl b_colptr) b_rowind j) = true <->
      (i <> j /\ (memZ i (col_rows colptr (tl colptr) rowind j) = true \/
                  memZ j (col_rows colptr (tl colptr) rowind i) = true)).
Proof. exact at_plus_a_pattern. Qed.
Print Assumptions c10_at_plus_a_pattern.

(* sp_colorder in symmetric mode always returns, with the same post-conditions as in the non-symmetric case ... *)
Theorem c10_colorder_sym_total : forall m n colptr rowind perm_c,
  0 <= n -> wf_csc_mono n colptr rowind -> is_perm n perm_c ->
  exists out et0,
    colorder true m n colptr rowind perm_c = Some out /\ forest n et0 /\ colorder_post n colptr perm_c et0 out.
Proof. exact colorder_sym_total. Qed.
Print Assumptions c10_colorder_sym_total.

(* ... and the etree it reports is the definitional elimination tree (symetree_spec) of Pc (A + A^T) Pc^T for the FINAL Pc *)
Theorem c10_colorder_sym_etree_is_spec : forall m n colptr rowind perm_c,
  0 <= n -> wf_csc_mono n colptr rowind -> is_perm n perm_c ->
  exists colbeg colend perm_out etree ccb cce br,
    colorder true m n colptr rowind perm_c = Some (colbeg, colend, perm_out, etree) /\
    is_perm n perm_out /\
    (* the intermediate pattern and tree *)
    wf_pat n n ccb cce br /\
    (forall i j pi pj, 0 <= i < n -> 0 <= j < n -> aget perm_c i = Some pi -> aget perm_c j = Some pj ->
       (memZ pi (col_rows ccb cce br pj) = true <->
        (i <> j /\ (memZ i (col_rows colptr (tl colptr) rowind j) = true \/
                    memZ j (col_rows colptr (tl colptr) rowind i) = true)))) /\
    colorder_post n colptr perm_c (symetree_spec ccb cce br n) (colbeg, colend, perm_out, etree) /\
    (* the reported tree *)
    forall cb' ce' ar',
      (forall i j qi qj, 0 <= i < n -> 0 <= j < n -> aget perm_out i = Some qi -> aget perm_out j = Some qj ->
         (memZ qi (col_rows cb' ce' ar' qj) = true <->
          (i <> j /\ (memZ i (col_rows colptr (tl colptr) rowind j) = true \/
                      memZ j (col_rows colptr (tl colptr) rowind i) = true)))) ->
      etree = symetree_spec cb' ce' ar' n.
Proof. exact colorder_sym_etree_is_spec. Qed.
Print Assumptions c10_colorder_sym_etree_is_spec.
