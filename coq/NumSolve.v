(* NumSolve.v -- triangular solves in any summation order, and the backward stability of the whole solve
   (Higham, Accuracy and Stability of Numerical Algorithms, Thm 9.4):  |c - B x| <= gamma(3n) |L||U||x|  where
   B = Pr*A*Pc, c = Pr*b and x = Pc^T * (returned solution). *)
From Coq Require Import Reals Lra Lia List Permutation.
From SLU Require Import NumBase NumSum NumLU.
Import ListNotations.
Local Open Scope R_scope.

Lemma bigsum_zero n : bigsum (fun _ => 0) n = 0.
Proof. induction n as [|n IH]; [reflexivity|]. rewrite bigsum_S, IH. lra. Qed.

Lemma bigsum_minus f g n : bigsum (fun k => f k - g k) n = bigsum f n - bigsum g n.
Proof. induction n as [|n IH]; [unfold bigsum; simpl; lra|]. rewrite !bigsum_S, IH. lra. Qed.

Lemma bigsum_scal_r c f n : bigsum (fun k => f k * c) n = bigsum f n * c.
Proof. induction n as [|n IH]; [unfold bigsum; simpl; lra|]. rewrite !bigsum_S, IH. lra. Qed.

Lemma bigsum_swap (a : nat -> nat -> R) n m :
  bigsum (fun k => bigsum (fun j => a k j) m) n = bigsum (fun j => bigsum (fun k => a k j) n) m.
Proof.
  induction n as [|n IH].
  - unfold bigsum at 1. simpl. symmetry. rewrite <- (bigsum_zero m). apply bigsum_ext. intros; reflexivity.
  - rewrite bigsum_S, IH. rewrite <- bigsum_plus. apply bigsum_ext. intros j Hj. now rewrite bigsum_S.
Qed.

(* a single term: bigsum over k < n of a function supported on one index *)
Lemma bigsum_single f n i : (i < n)%nat -> (forall k, (k < n)%nat -> k <> i -> f k = 0) -> bigsum f n = f i.
Proof.
  intros Hi Hz. induction n as [|n IH]; [lia|]. rewrite bigsum_S.
  destruct (Nat.eq_dec i n) as [->|Hne].
  - replace (bigsum f n) with 0; [lra|]. symmetry. rewrite <- (bigsum_zero n). apply bigsum_ext. intros k Hk. apply Hz; lia.
  - rewrite IH by (try lia; intros; apply Hz; lia). rewrite (Hz n) by lia. lra.
Qed.

(* terms below index i vanish: shift the summation range *)
Lemma bigsum_shift f n i : (i <= n)%nat -> (forall k, (k < i)%nat -> f k = 0) -> bigsum f n = bigsum (fun k => f (i + k)%nat) (n - i).
Proof.
  intros Hi Hz. replace n with (i + (n - i))%nat at 1 by lia. generalize (n - i)%nat as m. intros m.
  induction m as [|m IH].
  - rewrite Nat.add_0_r. unfold bigsum at 2. simpl. rewrite <- (bigsum_zero i). apply bigsum_ext. auto.
  - rewrite Nat.add_succ_r, !bigsum_S, IH. reflexivity.
Qed.

Lemma abs_scale a e g1 g2 : Rabs e <= g1 -> g1 <= g2 -> Rabs (a * e) <= g2 * Rabs a.
Proof. intros H1 H2. rewrite Rabs_mult. pose proof (Rabs_pos a). pose proof (Rabs_pos e). nra. Qed.

Lemma rows_choice (P : nat -> list R -> Prop) m : (forall i, (i < m)%nat -> exists row, P i row) ->
  exists rows : list (list R), length rows = m /\ forall i, (i < m)%nat -> P i (nth i rows []).
Proof.
  induction m as [|m IH]; intros H.
  - exists []. split; auto. intros; lia.
  - destruct IH as (rows & Lr & Hr); [intros i Hi; apply H; lia|].
    destruct (H m ltac:(lia)) as (row & Pr).
    exists (rows ++ [row]). split; [rewrite app_length; simpl; lia|].
    intros i Hi. destruct (Nat.eq_dec i m) as [->|Hne].
    + rewrite app_nth2 by lia. rewrite Lr, Nat.sub_diag. exact Pr.
    + rewrite app_nth1 by lia. apply Hr. lia.
Qed.

Section SOLVE.
Variable u : R.
Hypothesis Hu0 : 0 <= u.
Hypothesis Hu1 : u < 1.

Definition vec := nat -> R.

(* forward substitution with the unit lower triangular L:  y_i = fl-any( b_i - sum_{k<i} l_ik y_k ) *)
Definition lsolve_rel (n : nat) (L : mat) (b y : vec) : Prop :=
  forall i, (i < n)%nat -> exists ps, (forall k, (k < i)%nat -> fl_eq u (L i k * y k) (ps k)) /\
                                   fl_sum_any u (b i :: map (fun k => - ps k) (seq 0 i)) (y i).

(* back substitution with U:  x_i = fl( fl-any( y_i - sum_{k>i} u_ik x_k ) / u_ii ) *)
Definition usolve_rel (n : nat) (U : mat) (y x : vec) : Prop :=
  forall i, (i < n)%nat -> exists ps s, (forall k, (k < n - 1 - i)%nat -> fl_eq u (U i (i + 1 + k)%nat * x (i + 1 + k)%nat) (ps k)) /\
                                     fl_sum_any u (y i :: map (fun k => - ps k) (seq 0 (n - 1 - i))) s /\
                                     U i i <> 0 /\ fl_eq u (s / U i i) (x i).

Lemma le_n_u m n : (m <= n)%nat -> INR n * u < 1 -> INR m * u < 1.
Proof. intros Hm H. apply le_INR in Hm. pose proof (pos_INR m). assert (INR m * u <= INR n * u) by (apply Rmult_le_compat_r; lra). lra. Qed.

Theorem lsolve_backward n L b y : lsolve_rel n L b y -> (forall i, (i < n)%nat -> L i i = 1) -> (forall i j, (i < j)%nat -> L i j = 0) ->
  INR n * u < 1 ->
  exists dL : mat, (forall i j, (i < n)%nat -> (j < n)%nat -> Rabs (dL i j) <= gamma u n * Rabs (L i j)) /\
                   forall i, (i < n)%nat -> b i = bigsum (fun k => (L i k + dL i k) * y k) n.
Proof.
  intros H Hd Hz Hn.
  assert (Hrow : forall i, (i < n)%nat -> exists row : list R, length row = n /\
            (forall j, (j < n)%nat -> Rabs (nth j row 0) <= gamma u n * Rabs (L i j)) /\
            b i = bigsum (fun k => (L i k + nth k row 0) * y k) n).
  { intros i Hi. destruct (H i Hi) as (ps & Hp & Hs).
    destruct (dot_any u Hu0 Hu1 (b i) i (fun k => L i k) y ps (y i) Hp Hs) as (f & eta & Tf & Te & Es).
    pose proof (Theta_pos u Hu0 Hu1 _ _ Tf) as Pf.
    set (d := fun k => if Nat.ltb k i then L i k * eta k else if Nat.eqb k i then (/ (1 + f) - 1) else 0).
    exists (map d (seq 0 n)). split; [now rewrite map_length, seq_length|].
    assert (Hnth : forall k, (k < n)%nat -> nth k (map d (seq 0 n)) 0 = d k).
    { intros k Hk. rewrite (nth_indep _ 0 (d 0%nat)) by (rewrite map_length, seq_length; lia).
      rewrite map_nth, seq_nth by lia. reflexivity. }
    assert (Gi : gamma u i <= gamma u n) by (apply gamma_mono; auto; lia).
    assert (Gn : 0 <= gamma u n) by (apply gamma_nonneg; auto).
    split.
    - intros j Hj. rewrite (Hnth j Hj). unfold d.
      destruct (Nat.ltb_spec j i) as [Hlt|Hge].
      + apply (abs_scale _ _ (gamma u i)); auto.
        apply (Theta_gamma u Hu0 Hu1 _ _ (Te j Hlt) (le_n_u i n ltac:(lia) Hn)).
      + destruct (Nat.eqb_spec j i) as [->|Hne].
        * rewrite (Hd i Hi), Rabs_R1, Rmult_1_r.
          pose proof (Theta_gamma u Hu0 Hu1 _ _ (Theta_inv u Hu0 Hu1 _ _ Tf) (le_n_u i n ltac:(lia) Hn)). lra.
        * rewrite Rabs_R0. pose proof (Rabs_pos (L i j)). nra.
    - rewrite (bigsum_ext _ (fun k => (L i k + d k) * y k)) by (intros k Hk; now rewrite (Hnth k Hk)).
      rewrite (bigsum_trunc (fun k => (L i k + d k) * y k) n i Hi).
      2:{ intros k Hk. unfold d. destruct (Nat.ltb_spec k i); [lia|]. destruct (Nat.eqb_spec k i); [lia|].
          rewrite (Hz i k) by lia. ring. }
      rewrite (bigsum_ext (fun k => (L i k + d k) * y k) (fun k => L i k * y k * (1 + eta k)) i).
      2:{ intros k Hk. unfold d. destruct (Nat.ltb_spec k i); [ring | lia]. }
      unfold d. destruct (Nat.ltb_spec i i); [lia|]. rewrite Nat.eqb_refl, (Hd i Hi).
      rewrite Es. field. lra. }
  destruct (rows_choice _ n Hrow) as (rows & Lr & Hr).
  exists (fun i k => nth k (nth i rows []) 0). split.
  - intros i j Hi Hj. now apply (Hr i Hi).
  - intros i Hi. now apply (Hr i Hi).
Qed.

Theorem usolve_backward n U y x : usolve_rel n U y x -> (forall i j, (j < i)%nat -> U i j = 0) -> INR n * u < 1 ->
  exists dU : mat, (forall i j, (i < n)%nat -> (j < n)%nat -> Rabs (dU i j) <= gamma u n * Rabs (U i j)) /\
                   forall i, (i < n)%nat -> y i = bigsum (fun k => (U i k + dU i k) * x k) n.
Proof.
  intros H Hz Hn.
  assert (Gn : 0 <= gamma u n) by (apply gamma_nonneg; auto).
  assert (Hrow : forall i, (i < n)%nat -> exists row : list R, length row = n /\
            (forall j, (j < n)%nat -> Rabs (nth j row 0) <= gamma u n * Rabs (U i j)) /\
            y i = bigsum (fun k => (U i k + nth k row 0) * x k) n).
  { intros i Hi. destruct (H i Hi) as (ps & s & Hp & Hs & Hnz & Hx).
    set (m := (n - 1 - i)%nat) in *.
    destruct (dot_any u Hu0 Hu1 (y i) m (fun k => U i (i + 1 + k)%nat) (fun k => x (i + 1 + k)%nat) ps s Hp Hs) as (f & eta & Tf & Te & Es).
    destruct (Theta_of_fl u _ _ Hx) as (t & Tt & Ex).
    pose proof (Theta_pos u Hu0 Hu1 _ _ Tf) as Pf. pose proof (Theta_pos u Hu0 Hu1 _ _ Tt) as Pt.
    set (g := (1 + f) * (1 + t) - 1).
    assert (Tg : Theta u (m + 1) g) by (unfold g; now apply Theta_mul).
    pose proof (Theta_pos u Hu0 Hu1 _ _ Tg) as Pg.
    set (d := fun k => if Nat.ltb i k then U i k * eta (k - (i + 1))%nat else if Nat.eqb k i then U i i * (/ (1 + g) - 1) else 0).
    exists (map d (seq 0 n)). split; [now rewrite map_length, seq_length|].
    assert (Hnth : forall k, (k < n)%nat -> nth k (map d (seq 0 n)) 0 = d k).
    { intros k Hk. rewrite (nth_indep _ 0 (d 0%nat)) by (rewrite map_length, seq_length; lia).
      rewrite map_nth, seq_nth by lia. reflexivity. }
    split.
    - intros j Hj. rewrite (Hnth j Hj). unfold d.
      destruct (Nat.ltb_spec i j) as [Hlt|Hge].
      + assert (Hk : (j - (i + 1) < m)%nat) by (unfold m; lia).
        apply (abs_scale _ _ (gamma u m)); [|apply gamma_mono; auto; unfold m; lia].
        apply (Theta_gamma u Hu0 Hu1 _ _ (Te _ Hk) (le_n_u m n ltac:(unfold m; lia) Hn)).
      + destruct (Nat.eqb_spec j i) as [->|Hne].
        * apply (abs_scale _ _ (gamma u (m + 1))); [|apply gamma_mono; auto; unfold m; lia].
          apply (Theta_gamma u Hu0 Hu1 _ _ (Theta_inv u Hu0 Hu1 _ _ Tg) (le_n_u (m + 1) n ltac:(unfold m; lia) Hn)).
        * rewrite Rabs_R0. pose proof (Rabs_pos (U i j)). nra.
    - rewrite (bigsum_ext _ (fun k => (U i k + d k) * x k)) by (intros k Hk; now rewrite (Hnth k Hk)).
      (* split off k < i (zero), k = i, k > i *)
      rewrite (bigsum_shift (fun k => (U i k + d k) * x k) n i) by (first [lia | intros k Hk; unfold d;
        destruct (Nat.ltb_spec i k); [lia|]; destruct (Nat.eqb_spec k i); [lia|]; rewrite (Hz i k) by lia; ring]).
      replace (n - i)%nat with (S m) by (unfold m; lia).
      (* bigsum over 0..m of g(i+k): first term k=0 is the diagonal, rest shifted *)
      assert (Hsplit : forall (h : nat -> R) q, bigsum h (S q) = h 0%nat + bigsum (fun k => h (S k)) q).
      { intros h q. induction q as [|q IHq]; [unfold bigsum; simpl; lra|]. rewrite bigsum_S, IHq, bigsum_S. lra. }
      rewrite Hsplit. rewrite Nat.add_0_r.
      rewrite (bigsum_ext (fun k => (U i (i + S k)%nat + d (i + S k)%nat) * x (i + S k)%nat)
                          (fun k => U i (i + 1 + k)%nat * x (i + 1 + k)%nat * (1 + eta k)) m).
      2:{ intros k Hk. unfold d. replace (i + S k)%nat with (i + 1 + k)%nat by lia.
          destruct (Nat.ltb_spec i (i + 1 + k)%nat); [|lia]. replace (i + 1 + k - (i + 1))%nat with k by lia. ring. }
      unfold d. destruct (Nat.ltb_spec i i); [lia|]. rewrite Nat.eqb_refl.
      assert (Exi : U i i * x i = (1 + g) * (y i - bigsum (fun k => U i (i + 1 + k)%nat * x (i + 1 + k)%nat * (1 + eta k)) m)).
      { rewrite Ex, Es. unfold g. field. exact Hnz. }
      assert (Hy : y i = U i i * x i / (1 + g) + bigsum (fun k => U i (i + 1 + k)%nat * x (i + 1 + k)%nat * (1 + eta k)) m) by (rewrite Exi; field; lra).
      etransitivity; [exact Hy|]. unfold Rdiv. ring. }
  destruct (rows_choice _ n Hrow) as (rows & Lr & Hr).
  exists (fun i k => nth k (nth i rows []) 0). split.
  - intros i j Hi Hj. now apply (Hr i Hi).
  - intros i Hi. now apply (Hr i Hi).
Qed.


Lemma gamma_3n n : INR (3 * n) * u < 1 -> 3 * gamma u n + gamma u n * gamma u n <= gamma u (3 * n).
Proof.
  intros H. unfold gamma. rewrite mult_INR in *. simpl INR in *. replace (1 + 1 + 1) with 3 in * by lra.
  pose proof (pos_INR n). set (a := INR n * u) in *.
  assert (Ha : 0 <= a) by (unfold a; apply Rmult_le_pos; lra).
  assert (H3 : 3 * a < 1) by (unfold a in *; lra).
  replace (3 * INR n * u) with (3 * a) by (unfold a; ring).
  apply Rmult_le_reg_r with ((1 - a) * (1 - a) * (1 - 3 * a)); [apply Rmult_lt_0_compat; [apply Rmult_lt_0_compat|]; lra|].
  replace ((3 * (a / (1 - a)) + a / (1 - a) * (a / (1 - a))) * ((1 - a) * (1 - a) * (1 - 3 * a)))
    with ((3 * a * (1 - a) + a * a) * (1 - 3 * a)) by (field; lra).
  replace (3 * a / (1 - 3 * a) * ((1 - a) * (1 - a) * (1 - 3 * a))) with (3 * a * ((1 - a) * (1 - a))) by (field; lra).
  nra.
Qed.

(* Higham Thm 9.4 for the relational specifications: c = Pr*b, B = Pr*A*Pc, x = Pc^T * X *)
Theorem solve_backward n B L U c y x :
  lu_rel u n B L U -> lsolve_rel n L c y -> usolve_rel n U y x -> INR (3 * n) * u < 1 ->
  forall i, (i < n)%nat ->
    Rabs (c i - bigsum (fun j => B i j * x j) n)
    <= gamma u (3 * n) * bigsum (fun j => bigsum (fun k => Rabs (L i k) * Rabs (U k j)) n * Rabs (x j)) n.
Proof.
  intros HLU HL HU H3 i Hi.
  assert (Hn : INR n * u < 1) by (apply (le_n_u n (3 * n)); [lia | exact H3]).
  pose proof (gamma_nonneg u Hu0 n Hn) as Gn. set (g := gamma u n) in *.
  destruct (lsolve_backward n L c y HL (lr_unit _ _ _ _ _ HLU) (lr_Lzero _ _ _ _ _ HLU) Hn) as (dL & BdL & EL).
  destruct (usolve_backward n U y x HU (lr_Uzero _ _ _ _ _ HLU) Hn) as (dU & BdU & EU).
  pose proof (lu_backward u Hu0 Hu1 n B L U HLU Hn) as BE.
  set (S := fun i j => bigsum (fun k => Rabs (L i k) * Rabs (U k j)) n).
  (* c_i as a double sum *)
  assert (Ec : c i = bigsum (fun j => bigsum (fun k => (L i k + dL i k) * (U k j + dU k j)) n * x j) n).
  { rewrite (EL i Hi).
    rewrite (bigsum_ext _ (fun k => bigsum (fun j => (L i k + dL i k) * ((U k j + dU k j) * x j)) n)).
    2:{ intros k Hk. rewrite (EU k Hk). now rewrite bigsum_scal. }
    rewrite bigsum_swap. apply bigsum_ext. intros j Hj.
    rewrite <- bigsum_scal_r. apply bigsum_ext. intros k Hk. ring. }
  rewrite Ec, <- bigsum_minus.
  eapply Rle_trans; [apply bigsum_abs|].
  rewrite <- bigsum_scal. apply bigsum_le. intros j Hj. cbn beta.
  (* the (i,j) coefficient *)
  replace (bigsum (fun k => (L i k + dL i k) * (U k j + dU k j)) n * x j - B i j * x j)
    with ((bigsum (fun k => L i k * dU k j + dL i k * U k j + dL i k * dU k j) n
           + (bigsum (fun k => L i k * U k j) n - B i j)) * x j).
  2:{ rewrite <- (bigsum_ext (fun k => (L i k * dU k j + dL i k * U k j + dL i k * dU k j) + L i k * U k j)
                             (fun k => (L i k + dL i k) * (U k j + dU k j))) by (intros; ring).
      rewrite !bigsum_plus. ring. }
  rewrite Rabs_mult.
  assert (T1 : Rabs (bigsum (fun k => L i k * dU k j + dL i k * U k j + dL i k * dU k j) n) <= (2 * g + g * g) * S i j).
  { eapply Rle_trans; [apply bigsum_abs|]. unfold S. rewrite <- bigsum_scal. apply bigsum_le. intros k Hk.
    pose proof (BdL i k Hi Hk) as B1. pose proof (BdU k j Hk Hj) as B2. change (gamma u n) with g in B1, B2.
    pose proof (Rabs_pos (L i k)). pose proof (Rabs_pos (U k j)). pose proof (Rabs_pos (dL i k)). pose proof (Rabs_pos (dU k j)).
    eapply Rle_trans; [apply Rabs_triang|]. eapply Rle_trans; [apply Rplus_le_compat_r; apply Rabs_triang|].
    rewrite !Rabs_mult.
    assert (Rabs (L i k) * Rabs (dU k j) <= g * (Rabs (L i k) * Rabs (U k j))) by nra.
    assert (Rabs (dL i k) * Rabs (U k j) <= g * (Rabs (L i k) * Rabs (U k j))) by nra.
    assert (Rabs (dL i k) * Rabs (dU k j) <= g * g * (Rabs (L i k) * Rabs (U k j))).
    { assert (Rabs (dL i k) * Rabs (dU k j) <= (g * Rabs (L i k)) * (g * Rabs (U k j))) by (apply Rmult_le_compat; lra). nra. }
    lra. }
  assert (T2 : Rabs (bigsum (fun k => L i k * U k j) n - B i j) <= g * S i j).
  { rewrite Rabs_minus_sym. unfold g, S. apply (BE i j Hi Hj). }
  assert (S0 : 0 <= S i j).
  { unfold S. apply bigsum_nonneg. intros k Hk. apply Rmult_le_pos; apply Rabs_pos. }
  pose proof (gamma_3n n H3) as G3. fold g in G3. pose proof (Rabs_pos (x j)).
  eapply Rle_trans; [apply Rmult_le_compat_r; [lra|]; eapply Rle_trans; [apply Rabs_triang | apply Rplus_le_compat; [exact T1 | exact T2]]|].
  fold (S i j). assert (0 <= S i j * Rabs (x j)) by (apply Rmult_le_pos; lra). nra.
Qed.
End SOLVE.
