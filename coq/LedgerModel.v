(* C17 -- resource ledger of a library call.  Definitions only (no proofs).
   A call's allocation history is the list of events the interposed allocator (USER_MALLOC / USER_FREE),
   the pthread_create / pthread_join wrappers and the descriptor count around the call produce.
   Block identifiers are the request ordinals of harness/verif_malloc.c (never reused). *)
Require Import ZArith List Bool PeanoNat.
Import ListNotations.
Local Open Scope Z_scope.

Inductive event :=
| Alloc (id : nat) (size : Z)
| Free (id : nat)
| ThreadStart
| ThreadEnd
| Open
| Close.

Definition history := list event.

Record lstate := mkL {
  live : list nat;        (* identifiers of the live blocks *)
  threads : Z;            (* threads started and not yet joined *)
  handles : Z             (* files / descriptors opened and not yet closed *)
}.

Definition empty_state : lstate := mkL [] 0 0.

Definition memb (id : nat) (l : list nat) : bool := existsb (Nat.eqb id) l.

(* one event; None = the ledger itself is inconsistent: a live identifier allocated again, a block freed
   that is not live (double free, free of a foreign pointer), more joins than creates, more closes than opens *)
Definition step (st : lstate) (e : event) : option lstate :=
  match e with
  | Alloc id _ => if memb id (live st) then None
                  else Some (mkL (id :: live st) (threads st) (handles st))
  | Free id => if memb id (live st) then Some (mkL (remove Nat.eq_dec id (live st)) (threads st) (handles st))
               else None
  | ThreadStart => Some (mkL (live st) (threads st + 1) (handles st))
  | ThreadEnd => if threads st <=? 0 then None else Some (mkL (live st) (threads st - 1) (handles st))
  | Open => Some (mkL (live st) (threads st) (handles st + 1))
  | Close => if handles st <=? 0 then None else Some (mkL (live st) (threads st) (handles st - 1))
  end.

Fixpoint run (st : lstate) (h : history) : option lstate :=
  match h with
  | [] => Some st
  | e :: t => match step st e with
              | None => None
              | Some st' => run st' t
              end
  end.

(* A call that starts in state st is balanced w.r.t. the set ret of blocks reachable from the objects it hands
   back: the ledger is consistent, afterwards exactly the blocks live before plus those of ret are live (every
   block allocated and not freed is in ret, nothing that was live before has been freed, no returned block is
   dangling), threads and handles are back to their previous numbers. *)
Definition balanced_from (st : lstate) (ret : list nat) (h : history) : Prop :=
  exists st', run st h = Some st' /\
              (forall id, In id (live st') <-> In id (live st) \/ In id ret) /\
              threads st' = threads st /\ handles st' = handles st.

Definition balanced (ret : list nat) (h : history) : Prop := balanced_from empty_state ret h.

Definition subsetb (a b : list nat) : bool := forallb (fun x => memb x b) a.

Definition check_balanced_from (st : lstate) (ret : list nat) (h : history) : bool :=
  match run st h with
  | None => false
  | Some st' => subsetb (live st') (live st ++ ret) && subsetb (live st ++ ret) (live st')
                && (threads st' =? threads st) && (handles st' =? handles st)
  end.

Definition check_balanced (ret : list nat) (h : history) : bool := check_balanced_from empty_state ret h.

(* what the check reports when a call is not balanced *)
Definition leaked (st st' : lstate) (ret : list nat) : list nat :=
  filter (fun id => negb (memb id (live st ++ ret))) (live st').
Definition dangling (st st' : lstate) (ret : list nat) : list nat :=
  filter (fun id => negb (memb id (live st'))) (live st ++ ret).

(* the caller destroys what it was handed: the blocks of ret that were not live before the call *)
Definition destroy_events (st : lstate) (ret : list nat) : history :=
  map Free (nodup Nat.eq_dec (filter (fun id => negb (memb id (live st))) ret)).

(* a sequence of calls (history, returned set), each followed by the caller's destroy *)
Fixpoint run_calls (st : lstate) (calls : list (history * list nat)) : option lstate :=
  match calls with
  | [] => Some st
  | (h, ret) :: t =>
      match run st h with
      | None => None
      | Some st' => match run st' (destroy_events st ret) with
                    | None => None
                    | Some st'' => run_calls st'' t
                    end
      end
  end.

(* every call of the sequence is balanced in the state in which it starts *)
Fixpoint all_balanced (st : lstate) (calls : list (history * list nat)) : Prop :=
  match calls with
  | [] => True
  | (h, ret) :: t =>
      balanced_from st ret h /\
      forall st' st'', run st h = Some st' -> run st' (destroy_events st ret) = Some st'' -> all_balanced st'' t
  end.

Definition live_bytes (sz : nat -> Z) (st : lstate) : Z := fold_right (fun id acc => sz id + acc) 0 (live st).
