(* extraction of the executable reader model (C20) *)
From SLU Require Import ReaderModel.
Require Import Extraction ExtrOcamlBasic.
Require Import ZArith List.
Extraction "reader_model.ml"
  parse_hb parse_rb parse_mt
  print_hb print_rb print_mt
  parse_int_format parse_float_format read_vector read_values
  ifmt_ok ffmt_ok int_fits dec_fits ifmt_text ffmt_text undef_buf buf_write
  Z.add Z.mul Z.sub Z.div Z.modulo Z.opp Z.ltb Z.eqb Z.of_nat Z.to_nat.
