From Coq Require Import Extraction ExtrOcamlBasic.
From SLU Require Import LedgerModel.
Extraction "ledger_model.ml" empty_state step run check_balanced_from check_balanced leaked dangling destroy_events run_calls.
