From Coq Require Import ZArith List Bool Lia.
From SLU Require Import InfoModel.
Import ListNotations.
Local Open Scope Z_scope.

(* r is the least nonzero element of l, or 0 when there is none (all elements >= 0) *)
Definition is_min_nonzero (l : list Z) (r : Z) : Prop :=
  (r = 0 -> forall x, In x l -> x = 0) /\ (r <> 0 -> In r l /\ forall x, In x l -> x <> 0 -> r <= x).

Lemma upd_comb s i : 0 <= s -> 0 <= i -> upd_singular s i = combine_step s i.
Proof.
  intros Hs Hi. unfold upd_singular, combine_step.
  destruct (i =? 0) eqn:E1; cbn [negb andb]; auto.
  destruct (s =? 0) eqn:E2; cbn [negb orb]; auto.
  apply Z.eqb_neq in E1, E2. destruct (i <? s) eqn:E3; [apply Z.ltb_lt in E3 | apply Z.ltb_ge in E3]; lia.
Qed.

Lemma fold_comb_spec l : (forall x, In x l -> 0 <= x) -> forall acc, 0 <= acc ->
  let r := fold_left combine_step l acc in
  0 <= r /\ (r = 0 -> acc = 0 /\ forall x, In x l -> x = 0) /\
  (r <> 0 -> (r = acc \/ In r l) /\ (acc <> 0 -> r <= acc) /\ forall x, In x l -> x <> 0 -> r <= x).
Proof.
  induction l as [|a t IH]; intros Hl acc Ha; cbn [fold_left].
  - cbn. split; [exact Ha|]. split; [intros E; split; [exact E | intros x Hx; inversion Hx]|].
    intros Hr. split; [now left|]. split; [lia | intros x Hx; inversion Hx].
  - assert (Hat : 0 <= a) by (apply Hl; now left).
    assert (Ht : forall x, In x t -> 0 <= x) by (intros x Hx; apply Hl; now right).
    set (acc' := combine_step acc a).
    assert (Hacc' : 0 <= acc' /\ (acc' = 0 <-> acc = 0 /\ a = 0) /\ (acc' <> 0 -> (acc' = acc \/ acc' = a) /\ (acc <> 0 -> acc' <= acc) /\ (a <> 0 -> acc' <= a))).
    { unfold acc', combine_step. destruct (a =? 0) eqn:E1; cbn [negb].
      - apply Z.eqb_eq in E1. subst a. repeat split; auto; try lia. all: try (intros [-> _]; reflexivity).
      - apply Z.eqb_neq in E1. destruct (acc =? 0) eqn:E2; cbn [negb].
        + apply Z.eqb_eq in E2. subst acc. repeat split; auto; try lia.
        + apply Z.eqb_neq in E2. repeat split; try lia. }
    destruct Hacc' as (P0 & P1 & P2).
    destruct (IH Ht acc' P0) as (Q0 & Q1 & Q2). fold acc'. split; auto. split.
    + intros Hr. destruct (Q1 Hr) as [Q1a Q1b]. apply P1 in Q1a. destruct Q1a as [-> ->]. split; auto.
      intros x [<-|Hx]; auto.
    + intros Hr. destruct (Q2 Hr) as (R1 & R2 & R3).
      assert (Hacc'nz : fold_left combine_step t acc' = acc' -> acc' <> 0) by (intros E; rewrite <- E; exact Hr).
      split; [|split].
      * destruct R1 as [R1|R1]; [|right; now right].
        destruct (P2 (Hacc'nz R1)) as ([E|E] & _); [left; congruence | right; left; congruence].
      * intros Hacc. assert (acc' <> 0) by (intros E; apply P1 in E; lia).
        specialize (R2 H). destruct (P2 H) as (_ & B & _). specialize (B Hacc). lia.
      * intros x [<-|Hx] Hnz; [|now apply R3].
        assert (acc' <> 0) by (intros E; apply P1 in E; lia).
        specialize (R2 H). destruct (P2 H) as (_ & _ & B). specialize (B Hnz). lia.
Qed.

Lemma combine_is_min l : (forall x, In x l -> 0 <= x) -> is_min_nonzero l (combine_info l).
Proof.
  intros Hl. unfold combine_info. destruct (fold_comb_spec l Hl 0 ltac:(lia)) as (A & B & C). split.
  - intros Hr. now apply B.
  - intros Hr. destruct (C Hr) as ([E|E] & _ & D); [congruence | split; auto].
Qed.

Lemma thread_is_min l : (forall x, In x l -> 0 <= x) -> is_min_nonzero l (thread_info l).
Proof.
  intros Hl. assert (E : thread_info l = combine_info l).
  { unfold thread_info, combine_info. assert (G : forall acc, 0 <= acc -> fold_left upd_singular l acc = fold_left combine_step l acc).
    { induction l as [|a t IH]; intros acc Ha; cbn [fold_left]; auto.
      assert (0 <= a) by (apply Hl; now left). rewrite upd_comb by auto.
      apply IH; [intros x Hx; apply Hl; now right|].
      unfold combine_step. destruct (a =? 0); cbn [negb]; auto. destruct (acc =? 0); cbn [negb]; lia. }
    apply G. lia. }
  rewrite E. now apply combine_is_min.
Qed.

(* C06: whatever the distribution of the columns over the workers and whatever the order in which each worker meets
   them, the reported info is the smallest nonzero per-column info (= 1 + first column without a nonzero candidate) *)
Theorem gstrf_info_schedule_independent parts : (forall p, In p parts -> forall x, In x p -> 0 <= x) ->
  is_min_nonzero (concat parts) (gstrf_info parts).
Proof.
  intros Hp. unfold gstrf_info.
  assert (Hm : forall x, In x (map thread_info parts) -> 0 <= x).
  { intros x Hx. apply in_map_iff in Hx. destruct Hx as (p & <- & Hin).
    destruct (thread_is_min p (Hp p Hin)) as [A B]. destruct (Z.eq_dec (thread_info p) 0) as [->|Hn]; [lia|].
    destruct (B Hn) as [Hi _]. now apply (Hp p Hin). }
  destruct (combine_is_min _ Hm) as [A B]. split.
  - intros Hr x Hx. apply in_concat in Hx. destruct Hx as (p & Hp1 & Hx).
    assert (T0 : thread_info p = 0) by (apply (A Hr); apply in_map_iff; eauto).
    destruct (thread_is_min p (Hp p Hp1)) as [TA _]. now apply TA.
  - intros Hr. destruct (B Hr) as [Hin Hmin]. apply in_map_iff in Hin. destruct Hin as (p & E & Hp1).
    destruct (thread_is_min p (Hp p Hp1)) as [_ TB]. rewrite E in TB. destruct (TB Hr) as [Hrp _]. split.
    + apply in_concat. eauto.
    + intros x Hx Hnz. apply in_concat in Hx. destruct Hx as (p' & Hp' & Hx).
      destruct (thread_is_min p' (Hp p' Hp')) as [TA' TB'].
      destruct (Z.eq_dec (thread_info p') 0) as [E0|N0]; [specialize (TA' E0 x Hx); lia|].
      destruct (TB' N0) as [_ Hle]. specialize (Hle x Hx Hnz).
      assert (gstrf_info parts <= thread_info p') by (apply Hmin; [apply in_map_iff; eauto | exact N0]).
      unfold gstrf_info in H. lia.
Qed.

Corollary gstrf_info_permutation_invariant parts parts' :
  (forall p, In p parts -> forall x, In x p -> 0 <= x) -> (forall p, In p parts' -> forall x, In x p -> 0 <= x) ->
  (forall x, In x (concat parts) <-> In x (concat parts')) -> gstrf_info parts = gstrf_info parts'.
Proof.
  intros H1 H2 Heq. destruct (gstrf_info_schedule_independent parts H1) as [A B].
  destruct (gstrf_info_schedule_independent parts' H2) as [A' B'].
  destruct (Z.eq_dec (gstrf_info parts) 0) as [E|N]; destruct (Z.eq_dec (gstrf_info parts') 0) as [E'|N']; try lia.
  - destruct (B' N') as [Hin _]. apply Heq in Hin. specialize (A E _ Hin). lia.
  - destruct (B N) as [Hin _]. apply Heq in Hin. specialize (A' E' _ Hin). lia.
  - destruct (B N) as [Hin Hmin]. destruct (B' N') as [Hin' Hmin'].
    apply Heq in Hin. apply Heq in Hin'. specialize (Hmin _ Hin' N'). specialize (Hmin' _ Hin N). lia.
Qed.

Example info_example : gstrf_info [[0; 7; 0]; [4; 0]; [0; 9; 5]] = 4 /\ gstrf_info [[9; 0]; [5; 0; 0; 7]; [4]] = 4 /\ gstrf_info [[0]; []; [0; 0]] = 0.
Proof. vm_compute. auto. Qed.

(* factor_snode keeps the first nonzero info of its columns; the columns are visited in ascending order and info = column+1,
   so the nonzero entries increase along the list: the first one is the smallest, i.e. what a worker that met the columns one
   by one would have kept *)
Fixpoint nz_increasing (lo : Z) (l : list Z) : Prop :=
  match l with
  | [] => True
  | x :: t => (x = 0 /\ nz_increasing lo t) \/ (lo < x /\ nz_increasing x t)
  end.

Lemma snode_fold_stable l : forall acc, acc <> 0 -> fold_left snode_step l acc = acc.
Proof.
  induction l as [|x t IH]; intros acc Ha; cbn [fold_left]; [reflexivity|].
  unfold snode_step at 2. destruct (acc =? 0) eqn:E; [apply Z.eqb_eq in E; contradiction|].
  rewrite andb_false_r. apply IH; exact Ha.
Qed.

Lemma thread_fold_lower l : forall lo acc, 0 < acc -> acc <= lo -> nz_increasing lo l -> fold_left upd_singular l acc = acc.
Proof.
  induction l as [|x t IH]; intros lo acc Hp Hl H; cbn [fold_left]; [reflexivity|].
  cbn [nz_increasing] in H. destruct H as [[Hx H]|[Hx H]].
  - subst x. unfold upd_singular at 2. cbn. apply (IH lo); assumption.
  - unfold upd_singular at 2.
    destruct (x =? 0) eqn:E0; [apply Z.eqb_eq in E0; lia|]. cbn [negb andb].
    destruct (acc =? 0) eqn:E1; [apply Z.eqb_eq in E1; lia|]. cbn [orb].
    destruct (x <? acc) eqn:E2; [apply Z.ltb_lt in E2; lia|].
    apply (IH x); [exact Hp | lia | exact H].
Qed.

Theorem snode_info_is_thread_info l : nz_increasing 0 l -> snode_info l = thread_info l.
Proof.
  unfold snode_info, thread_info.
  induction l as [|x t IH]; intros H; [reflexivity|].
  cbn [fold_left]. cbn [nz_increasing] in H.
  destruct H as [[Hx H]|[Hx H]].
  - subst x. unfold snode_step at 2, upd_singular at 2. cbn. apply IH. exact H.
  - unfold snode_step at 2, upd_singular at 2.
    destruct (x =? 0) eqn:E0; [apply Z.eqb_eq in E0; lia|]. cbn.
    rewrite (snode_fold_stable t x) by lia.
    rewrite (thread_fold_lower t x x) by (try lia; exact H). reflexivity.
Qed.
