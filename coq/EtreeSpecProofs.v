(* EtreeSpecProofs.v -- the executable elimination step of EtreeSpec.v is the text-book one
   (used by EtreeGameProofs.v; the equality model = spec is proved in EtreeFullProofs.v). *)
From Coq Require Import ZArith List Bool Lia Permutation Sorted.
From SLU Require Import EtreeModel EtreeSpec EtreeArrProofs EtreePermProofs EtreeUFProofs.
Import ListNotations.
Local Open Scope Z_scope.

(* ------------------------------------------------------------------------------------------ *)
(* the executable elimination step is the text-book one *)
Lemma map2_length : forall {A B C} (f : A -> B -> C) l1 l2, length (map2 f l1 l2) = Nat.min (length l1) (length l2).
Proof. induction l1 as [|a t IH]; intros [|b u]; simpl; auto. Qed.

Lemma nth_map2 : forall {A B C} (f : A -> B -> C) l1 l2 k da db dc,
  (k < length l1)%nat -> (k < length l2)%nat -> nth k (map2 f l1 l2) dc = f (nth k l1 da) (nth k l2 db).
Proof.
  induction l1 as [|a t IH]; intros [|b u] k da db dc H1 H2; simpl in *; try lia.
  destruct k; auto. apply IH; lia.
Qed.

Definition square (g : list (list bool)) : Prop := Forall (fun r => length r = length g) g.

Lemma nth_hi_mask : forall k row j, (j < length row)%nat -> nth j (hi_mask k row) false = (Nat.ltb k j && nth j row false).
Proof.
  intros k row j Hj. unfold hi_mask. rewrite (nth_map2 _ _ _ _ O false false); [|rewrite seq_length; auto|auto].
  rewrite seq_nth by auto. reflexivity.
Qed.

Lemma hi_mask_length : forall k row, length (hi_mask k row) = length row.
Proof. intros. unfold hi_mask. rewrite map2_length, seq_length. lia. Qed.

(* G_{k+1}(i,j) = G_k(i,j) or (k < i and k < j and G_k(k,i) and G_k(k,j)) *)
Theorem elim_step_spec : forall g k i j, square g -> (k < length g)%nat -> (i < length g)%nat -> (j < length g)%nat ->
  gget (elim_step g k) i j = gget g i j || (Nat.ltb k i && Nat.ltb k j && gget g k i && gget g k j).
Proof.
  intros g k i j Hsq Hk Hi Hj. unfold gget, elim_step.
  assert (Hrow : forall r, (r < length g)%nat -> length (nth r g []) = length g).
  { intros r Hr. unfold square in Hsq. rewrite Forall_forall in Hsq. apply Hsq. apply nth_In. auto. }
  set (mask := hi_mask k (nth k g [])).
  assert (Lm : length mask = length g) by (unfold mask; rewrite hi_mask_length; auto).
  rewrite (nth_map2 _ _ _ _ false [] []); [|lia|auto].
  unfold mask at 1. rewrite nth_hi_mask by (rewrite Hrow; auto).
  destruct (Nat.ltb k i && nth i (nth k g []) false) eqn:Esel.
  - apply andb_true_iff in Esel as [E1 E2]. rewrite E1, E2.
    rewrite (nth_map2 _ _ _ _ false false false); [|rewrite Hrow; auto|lia].
    unfold mask. rewrite nth_hi_mask by (rewrite Hrow; auto).
    destruct (nth j (nth i g []) false), (Nat.ltb k j), (nth j (nth k g []) false); reflexivity.
  - destruct (Nat.ltb k i); simpl in *; [rewrite Esel|]; simpl; rewrite ?andb_false_r, ?orb_false_r; reflexivity.
Qed.
