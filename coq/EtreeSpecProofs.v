(* EtreeSpecProofs.v -- relation between the sp_coletree model and the definitional spec.
   The unbounded equality is NOT proved (coletree_is_spec_full below stays a Definition); what is proved:
   - elim_step is the text-book elimination step (characterisation of the executable definition);
   - the equality for EVERY pattern with at most 3 rows and 3 columns (finite sweep by vm_compute, lifted to
     a quantified statement through a completeness proof of the enumeration; the 4 x 4 sweep takes 7 min
     in the VM and is therefore done on every run by the extracted code instead, see checks/c10.py). *)
From Coq Require Import ZArith List Bool Lia Permutation Sorted.
From SLU Require Import EtreeModel EtreeSpec EtreeArrProofs EtreePermProofs EtreeUFProofs.
Import ListNotations.
Local Open Scope Z_scope.

(* the full statement (not proved): for every well-formed pattern the model returns the spec *)
Definition coletree_is_spec_full : Prop :=
  forall nr nc acolst acolend arow, 0 <= nr -> 0 <= nc -> wf_pat nr nc acolst acolend arow ->
    sp_coletree acolst acolend arow nr nc = Some (coletree_spec acolst acolend arow nc).

(* ------------------------------------------------------------------------------------------ *)
(* CSC arrays of a list of columns *)
Fixpoint colptr_of (start : Z) (cols : list (list Z)) : list Z :=
  match cols with [] => [start] | c :: t => start :: colptr_of (start + alen c) t end.
Definition rowind_of (cols : list (list Z)) : list Z := concat cols.

Definition model_eq_spec (m : Z) (cols : list (list Z)) : bool :=
  let cp := colptr_of 0 cols in
  let cb := removelast cp in
  let ce := tl cp in
  let ri := rowind_of cols in
  let n := Z.of_nat (length cols) in
  match sp_coletree cb ce ri m n with
  | Some parent => forallb (fun ab => Z.eqb (fst ab) (snd ab)) (combine parent (coletree_spec cb ce ri n))
                   && (alen parent =? alen (coletree_spec cb ce ri n))
  | None => false
  end.

Lemma list_eqb_eq : forall a b : list Z,
  forallb (fun ab => Z.eqb (fst ab) (snd ab)) (combine a b) && (alen a =? alen b) = true -> a = b.
Proof.
  induction a as [|x t IH]; intros [|y u] H; auto; apply andb_true_iff in H as [H1 H2]; apply Z.eqb_eq in H2;
    unfold alen in H2; simpl in H2; try lia.
  simpl in H1. apply andb_true_iff in H1 as [Hxy H1]. apply Z.eqb_eq in Hxy. simpl in Hxy. subst y. f_equal.
  apply IH. apply andb_true_iff. split; auto. apply Z.eqb_eq. unfold alen. lia.
Qed.

(* all sub-sequences of a list *)
Fixpoint sublists (l : list Z) : list (list Z) :=
  match l with [] => [[]] | x :: t => map (cons x) (sublists t) ++ sublists t end.
(* all lists of n elements drawn from choices *)
Fixpoint tuples {A} (n : nat) (choices : list A) : list (list A) :=
  match n with O => [[]] | S k => flat_map (fun c => map (cons c) (tuples k choices)) choices end.

(* a column: strictly increasing row indices in lo..hi-1 *)
Inductive incr_in : Z -> Z -> list Z -> Prop :=
| incr_nil : forall lo hi, incr_in lo hi []
| incr_cons : forall lo hi x t, lo <= x < hi -> incr_in (x + 1) hi t -> incr_in lo hi (x :: t).

Lemma sublists_complete : forall (len : nat) lo c, incr_in lo (lo + Z.of_nat len) c -> In c (sublists (zseq lo len)).
Proof.
  induction len as [|len IH]; intros lo c H.
  - inversion H; subst; simpl; auto. lia.
  - cbn [zseq sublists]. apply in_app_iff. inversion H as [|? ? x t Hx Ht]; subst.
    + right. apply IH. constructor.
    + destruct (Z.eq_dec x lo) as [->|Hne].
      * left. apply in_map. apply IH. replace (lo + 1 + Z.of_nat len) with (lo + Z.of_nat (S len)) by lia. auto.
      * right. apply IH. replace (lo + 1 + Z.of_nat len) with (lo + Z.of_nat (S len)) by lia.
        constructor; [lia|auto].
Qed.

Lemma tuples_complete : forall {A} (choices : list A) l, Forall (fun c => In c choices) l -> In l (tuples (length l) choices).
Proof.
  induction l as [|c t IH]; intros H; simpl; auto.
  inversion H; subst. apply in_flat_map. exists c. split; auto. apply in_map. auto.
Qed.

Definition sweep (mmax nmax : nat) : bool :=
  forallb (fun m => forallb (fun n =>
      forallb (model_eq_spec (Z.of_nat m)) (tuples n (sublists (zseq 0 m))))
    (seq 0 (S nmax))) (seq 0 (S mmax)).

Lemma sweep_3_3 : sweep 3 3 = true.
Proof. vm_compute. reflexivity. Qed.

Theorem coletree_is_spec_upto3 : forall (m : nat) (cols : list (list Z)),
  (m <= 3)%nat -> (length cols <= 3)%nat -> Forall (incr_in 0 (Z.of_nat m)) cols ->
  let cp := colptr_of 0 cols in
  sp_coletree (removelast cp) (tl cp) (rowind_of cols) (Z.of_nat m) (Z.of_nat (length cols))
  = Some (coletree_spec (removelast cp) (tl cp) (rowind_of cols) (Z.of_nat (length cols))).
Proof.
  intros m cols Hm Hn Hcols cp.
  pose proof sweep_3_3 as Hs. unfold sweep in Hs. rewrite forallb_forall in Hs.
  specialize (Hs m). rewrite in_seq in Hs. specialize (Hs ltac:(lia)).
  rewrite forallb_forall in Hs. specialize (Hs (length cols)). rewrite in_seq in Hs. specialize (Hs ltac:(lia)).
  rewrite forallb_forall in Hs. specialize (Hs cols).
  assert (Hin : In cols (tuples (length cols) (sublists (zseq 0 m)))).
  { apply tuples_complete. eapply Forall_impl; [|exact Hcols]. intros c Hc. apply sublists_complete. exact Hc. }
  specialize (Hs Hin). unfold model_eq_spec in Hs. fold cp in Hs.
  destruct (sp_coletree (removelast cp) (tl cp) (rowind_of cols) (Z.of_nat m) (Z.of_nat (length cols))) as [parent|]; [|discriminate].
  f_equal. apply list_eqb_eq. exact Hs.
Qed.

(* ------------------------------------------------------------------------------------------ *)
(* the executable elimination step is the text-book one *)
Lemma map2_length : forall {A B C} (f : A -> B -> C) l1 l2, length (map2 f l1 l2) = Nat.min (length l1) (length l2).
Proof. induction l1 as [|a t IH]; intros [|b u]; simpl; auto. Qed.

Lemma nth_map2 : forall {A B C} (f : A -> B -> C) l1 l2 k da db dc,
  (k < length l1)%nat -> (k < length l2)%nat -> nth k (map2 f l1 l2) dc = f (nth k l1 da) (nth k l2 db).
Proof.
  induction l1 as [|a t IH]; intros [|b u] k da db dc H1 H2; simpl in *; try lia.
  destruct k; auto. apply IH; lia.
Qed.

Definition square (g : list (list bool)) : Prop := Forall (fun r => length r = length g) g.

Lemma nth_hi_mask : forall k row j, (j < length row)%nat -> nth j (hi_mask k row) false = (Nat.ltb k j && nth j row false).
Proof.
  intros k row j Hj. unfold hi_mask. rewrite (nth_map2 _ _ _ _ O false false); [|rewrite seq_length; auto|auto].
  rewrite seq_nth by auto. reflexivity.
Qed.

Lemma hi_mask_length : forall k row, length (hi_mask k row) = length row.
Proof. intros. unfold hi_mask. rewrite map2_length, seq_length. lia. Qed.

(* G_{k+1}(i,j) = G_k(i,j) or (k < i and k < j and G_k(k,i) and G_k(k,j)) *)
Theorem elim_step_spec : forall g k i j, square g -> (k < length g)%nat -> (i < length g)%nat -> (j < length g)%nat ->
  gget (elim_step g k) i j = gget g i j || (Nat.ltb k i && Nat.ltb k j && gget g k i && gget g k j).
Proof.
  intros g k i j Hsq Hk Hi Hj. unfold gget, elim_step.
  assert (Hrow : forall r, (r < length g)%nat -> length (nth r g []) = length g).
  { intros r Hr. unfold square in Hsq. rewrite Forall_forall in Hsq. apply Hsq. apply nth_In. auto. }
  set (mask := hi_mask k (nth k g [])).
  assert (Lm : length mask = length g) by (unfold mask; rewrite hi_mask_length; auto).
  rewrite (nth_map2 _ _ _ _ false [] []); [|lia|auto].
  unfold mask at 1. rewrite nth_hi_mask by (rewrite Hrow; auto).
  destruct (Nat.ltb k i && nth i (nth k g []) false) eqn:Esel.
  - apply andb_true_iff in Esel as [E1 E2]. rewrite E1, E2.
    rewrite (nth_map2 _ _ _ _ false false false); [|rewrite Hrow; auto|lia].
    unfold mask. rewrite nth_hi_mask by (rewrite Hrow; auto).
    destruct (nth j (nth i g []) false), (Nat.ltb k j), (nth j (nth k g []) false); reflexivity.
  - destruct (Nat.ltb k i); simpl in *; [rewrite Esel|]; simpl; rewrite ?andb_false_r, ?orb_false_r; reflexivity.
Qed.
