From Coq Require Import ZArith List Bool.
From SLU Require Import Consts UstackModel UstackProofs.
Import ListNotations.
Local Open Scope Z_scope.

(* lwork = -1: a positive estimate, the stack and the space selector untouched, the only allocator event
   possible is the 64-byte ?expanders header (no L/U array, no user block) ... *)
Theorem query_no_side_effect :
  forall (fail : nat -> bool) (c : cfg) (fuel : nat) (a : mi_args) (m : mem),
    0 <= dword c ->
    a_lwork a = -1 -> (a_refact a = true -> a_prev a <> None) ->
    0 <= a_n a -> 0 <= a_annz a -> 0 <= a_w a -> 0 <= a_nprocs a ->
    0 <= a_nzlumax a -> 0 <= a_nzlmax a -> 0 <= a_nzumax a ->
    exists est m',
      mem_init fail c fuel a m = Ok (MIquery est) m' /\ 0 < est /\
      m_stack m' = m_stack m /\ m_space m' = m_space m /\ only_header_event (m_log m) (m_log m').
Proof. intros fail c fuel a m H. exact (query_lemma fail c H fuel a m). Qed.
Print Assumptions query_no_side_effect.

(* ... and at the driver level no thread is created, no L/U is built, p?gssvx returns at once *)
Theorem query_no_factor_step :
  forall (est : Z) (infos : list Z) (fo : fact_outcome) (n : Z),
    gstrf_outcome (MIquery est) infos = Some fo ->
    fo_threads_ran fo = false /\ fo_lu_built fo = false /\ fo_info fo = est /\
    gssvx_tail (-1) n (fo_info fo) = [AReturnQuery (est - n)] /\
    forallb (fun x => negb (reads_lu x)) (gssvx_tail (-1) n (fo_info fo)) = true.
Proof. exact query_no_factor. Qed.
Print Assumptions query_no_factor_step.

(* the bare two-ended allocator, EVERY request sequence of a client that frees only its most recent block
   (or the whole tail): blocks inside [0, lwork), pairwise disjoint (so HEAD and TAIL never overlap),
   used = top1 + (size - top2) *)
Theorem ustack_safe :
  forall (lwork : Z) (rs : list req), 0 < lwork -> Forall req_ok rs ->
    let u := run_reqs rs (init_ust lwork) in
    let s := u_stack u in
    Forall (block_in 0 lwork) (u_head u ++ u_tail u) /\
    ForallOrdPairs disjoint (u_head u ++ u_tail u) /\
    s_used s = s_top1 s + (s_size s - s_top2 s) /\
    0 <= s_top1 s <= s_top2 s /\ s_top2 s <= lwork /\ s_size s = lwork.
Proof. exact ustack_safe_lemma. Qed.
Print Assumptions ustack_safe.

(* a refused request leaves the state unchanged *)
Theorem ustack_refused_unchanged :
  forall (bytes : Z) (e : end_t) (s : stack),
    fst (user_malloc bytes e s) = None -> snd (user_malloc bytes e s) = s.
Proof. exact user_malloc_refused_unchanged. Qed.
Print Assumptions ustack_refused_unchanged.

(* the retry loop halves at most log2(nzumax)+1 times: with that much fuel MemInit never runs out of it
   (annz >= 2; see meminit_hang_refuted for annz <= 1) *)
Theorem meminit_terminates_partial :
  forall (fail : nat -> bool) (c : cfg) (fuel : nat) (a : mi_args) (m : mem),
    2 <= a_annz a -> (Z.to_nat (Z.log2 (nzumax0 c a)) + 2 <= fuel)%nat ->
    no_hang (mem_init fail c fuel a m).
Proof. exact meminit_terminates_lemma. Qed.
Print Assumptions meminit_terminates_partial.

(* a failure return is a value > n *)
Theorem meminit_code :
  forall (fail : nat -> bool) (c : cfg) (fuel : nat) (a : mi_args) (m : mem) (code : Z) (m' : mem),
    0 <= dword c -> 1 <= a_n a -> 0 <= a_annz a -> 0 <= a_nzlumax a ->
    mem_init fail c fuel a m = Ok (MIfail code) m' -> a_n a < code.
Proof. intros fail c fuel a m code m' H. exact (meminit_code_lemma fail c H fuel a m code m'). Qed.
Print Assumptions meminit_code.

(* a user buffer that is large enough (need + 14 alignment bytes < lwork): MemInit succeeds, the 13 arrays
   are inside [0, lwork), pairwise disjoint, lusup and ucol 8-byte aligned, capacities = the guesses *)
Theorem meminit_sufficient_in_buffer :
  forall (fail : nat -> bool) (c : cfg) (fuel : nat) (a : mi_args) (m : mem),
    0 <= dword c ->
    a_refact a = false -> 0 <= a_n a -> 0 <= a_annz a -> 0 <= a_nzlumax a -> 0 < a_lwork a ->
    (m_exp m <> None \/ fail (S (m_sysn m)) = false) ->
    need c a + 14 < a_lwork a ->
    exists g m' bl,
      mem_init fail c fuel a m = Ok (MIok g) m' /\
      g_nzlmax g = nzlmax0 c a /\ g_nzumax g = nzumax0 c a /\ g_nzlumax g = nzlumax0 c a /\
      glu_blocks c (a_n a) g = Some bl /\
      Forall (block_in 0 (a_lwork a)) bl /\ ForallOrdPairs disjoint bl /\
      (exists o, g_lusup g = POff o /\ misalign (a_ba a) o = 0) /\
      (exists o, g_ucol g = POff o /\ misalign (a_ba a) o = 0) /\
      s_top2 (m_stack m') = a_lwork a /\ s_used (m_stack m') = s_top1 (m_stack m') /\
      s_used (m_stack m') < a_lwork a.
Proof. intros fail c fuel a m H. exact (meminit_sufficient_lemma fail c H fuel a m). Qed.
Print Assumptions meminit_sufficient_in_buffer.

(* internally allocated mode with an allocator that does not fail: same capacities (the factorization is
   a function of the matrix, the options and these capacities; it is not modelled here) *)
Theorem same_capacities_in_system_space_partial :
  forall (fail : nat -> bool) (c : cfg) (fuel : nat) (a : mi_args) (m : mem),
    (forall k, fail k = false) -> a_refact a = false -> a_lwork a = 0 ->
    exists g m', mem_init fail c fuel a m = Ok (MIok g) m' /\
      g_nzlmax g = nzlmax0 c a /\ g_nzumax g = nzumax0 c a /\ g_nzlumax g = nzlumax0 c a /\
      Forall (fun p => exists k, p = PSys k) [g_lusup g; g_ucol g; g_lsub g; g_usub g].
Proof. intros fail c fuel a m H. exact (meminit_system_ok_lemma fail c H fuel a m). Qed.
Print Assumptions same_capacities_in_system_space_partial.

(* P threads entering p?gstrf_WorkInit on the user stack, EVERY interleaving of their locked sections, start-up phase
   (nobody has reached WorkFree), no alignment fix-up possible (buffer end 8-aligned, element size multiple of 8):
   blocks of different threads never overlap, everything stays between the HEAD part and the end of the buffer
   (see workinit_race_overlap_refuted / workfree_overlap_refuted for what happens without these hypotheses) *)
Theorem workinit_any_interleaving_partial :
  forall (c : cfg) (n w ba L T1 : Z),
    (ba + L) mod 8 = 0 -> work_dsize c n w mod 8 = 0 -> 0 <= work_isize n w -> 0 <= work_dsize c n w -> 0 <= T1 <= L ->
    forall (P : nat) (sched : list nat),
      let '(ts, s) := run_init c n w ba sched (repeat TStart P) (mkStack L T1 T1 L) in
      (forall i t b, nth_error ts i = Some t -> In b (thread_blocks c n w t) -> block_in T1 L b) /\
      (forall i j ti tj bi bj, i <> j -> nth_error ts i = Some ti -> nth_error ts j = Some tj ->
            In bi (thread_blocks c n w ti) -> In bj (thread_blocks c n w tj) -> disjoint bi bj) /\
      (forall i iw dw, nth_error ts i = Some (TReady iw dw) -> disjoint (iw, work_isize n w) (dw, work_dsize c n w)) /\
      s_used s = s_top1 s + (s_size s - s_top2 s) /\ s_top1 s = T1 /\ T1 <= s_top2 s <= L.
Proof. exact workinit_threads_lemma. Qed.
Print Assumptions workinit_any_interleaving_partial.

(* the thread-level transition system (used by the three theorems about interleavings) and the sequential model of
   p?gstrf_WorkInit that is compared with the C code on every run agree on a thread that is not interleaved *)
Theorem thread_model_refines_workinit :
  forall (fail : nat -> bool) (c : cfg) (n w : Z) (m : mem),
    m_space m = USER ->
    exists r iw dw m',
      work_init fail c n w m = Ok (r, iw, dw) m' /\
      m_stack m' = snd (run3 c n w (m_ba m) (m_stack m)) /\
      match fst (run3 c n w (m_ba m) (m_stack m)) with
      | TReady i d => r = 0 /\ iw = POff i /\ dw = POff d
      | TFailed code => r = code /\ dw = PNull
      | _ => False
      end.
Proof. exact thread_steps_refine_work_init. Qed.
Print Assumptions thread_model_refines_workinit.

(* p?gstrf_thread_finalize: the combined info is 0 only if every thread returned 0, otherwise it is one of
   the thread values and a lower bound of every non-zero one; if every failed thread reports > n so does it *)
Theorem finalize_info_min :
  forall (infos : list Z) (acc : Z),
    let r := finalize_info acc infos in
    (r = acc \/ In r infos) /\
    (r = 0 <-> acc = 0 /\ Forall (fun i => i = 0) infos) /\
    (acc <> 0 -> r <= acc) /\ Forall (fun i => i <> 0 -> r <= i) infos.
Proof. exact finalize_info_spec. Qed.
Print Assumptions finalize_info_min.

(* the executable block oracle used on the implementation's offsets is sound and complete *)
Theorem blocks_oracle_sound_complete :
  forall (lwork : Z) (bl : list (Z * Z)),
    (blocks_okb lwork bl = true ->
       Forall (block_in 0 lwork) bl /\
       ForallOrdPairs (fun b1 b2 => disjoint b1 b2 \/ snd b1 <= 0 \/ snd b2 <= 0) bl) /\
    (Forall (block_in 0 lwork) bl -> ForallOrdPairs disjoint bl -> blocks_okb lwork bl = true).
Proof. intros; split; [apply blocks_okb_sound|apply blocks_okb_complete]. Qed.
Print Assumptions blocks_oracle_sound_complete.

(* ---- where the faithful model of the unchanged code violates the property text ---- *)

(* insufficient user buffer: MemInit returns 0 with arrays BELOW the buffer (retry loop frees blocks that
   were never handed out) *)
Theorem insufficient_buffer_wild_blocks_refuted :
  exists a g m', 0 < a_lwork a /\
    mem_init (fun _ => false) default_cfg 64 a init_mem = Ok (MIok g) m' /\
    exists bl, glu_blocks default_cfg (a_n a) g = Some bl /\ blocks_okb (a_lwork a) bl = false /\
    g_ucol g = POff (-19616).
Proof. exact insufficient_buffer_wild_blocks_lemma. Qed.
Print Assumptions insufficient_buffer_wild_blocks_refuted.

(* annz <= 1 and a failing system allocator: the retry loop never ends, whatever the fuel *)
Theorem meminit_hang_refuted :
  forall fuel, exists m', mem_init hang_fail hang_cfg fuel hang_args init_mem = Stop Hang m'.
Proof. exact meminit_hang_lemma. Qed.
Print Assumptions meminit_hang_refuted.

(* the alignment fix-up of WorkInit moves dwork below top1: TAIL block overlaps the last HEAD block *)
Theorem workinit_alignment_overlap_refuted :
  exists a g m1 iw dw m2,
    mem_init (fun _ => false) small_cfg 64 a init_mem = Ok (MIok g) m1 /\
    work_init (fun _ => false) small_cfg (a_n a) (a_w a) m1 = Ok (0, POff iw, POff dw) m2 /\
    exists bl, glu_blocks small_cfg (a_n a) g = Some bl /\ blocks_okb (a_lwork a) bl = true /\
    blocks_okb (a_lwork a) (bl ++ [(iw, work_isize (a_n a) (a_w a)); (dw, work_dsize small_cfg (a_n a) (a_w a))]) = false /\
    s_top2 (m_stack m2) < s_top1 (m_stack m2).
Proof. exact workinit_alignment_overlap_lemma. Qed.
Print Assumptions workinit_alignment_overlap_refuted.

(* two threads: the unlocked gap between user_malloc(dwork) and its fix-up lets another thread's iwork in *)
Theorem workinit_race_overlap_refuted :
  exists lwork sched,
    let '(ts, s) := run_sched small_cfg 3 1 0 sched [TStart; TStart] (mkStack lwork 264 264 lwork) in
    ts = [TReady 9884 9808; TReady 9692 9616] /\ pairwise_disjointb (live_blocks small_cfg 3 1 ts) = false.
Proof. exact workinit_race_overlap_lemma. Qed.
Print Assumptions workinit_race_overlap_refuted.

(* P threads on the user stack, EVERY interleaving of their locked sections over the WHOLE run -- WorkInit, working,
   WorkFree (which since fix 'WorkFree keeps the tail' releases nothing: the tail is reclaimed by the next MemInit): under the
   same alignment hypotheses as above, blocks of different threads never overlap and stay inside the tail region.  Before the
   fix the first thread to finish reset the whole tail and a thread starting late was handed live memory (findings F17,
   C14-workfree: the refuted statement workfree_overlap_refuted of earlier versions). *)
Theorem workfree_any_interleaving :
  forall (c : cfg) (n w ba L T1 : Z),
    (ba + L) mod 8 = 0 -> work_dsize c n w mod 8 = 0 -> 0 <= work_isize n w -> 0 <= work_dsize c n w -> 0 <= T1 <= L ->
    forall (P : nat) (sched : list nat),
      let '(ts, s) := run_sched c n w ba sched (repeat TStart P) (mkStack L T1 T1 L) in
      (forall i t b, nth_error ts i = Some t -> In b (thread_blocks c n w t) -> block_in T1 L b) /\
      (forall i j ti tj bi bj, i <> j -> nth_error ts i = Some ti -> nth_error ts j = Some tj ->
            In bi (thread_blocks c n w ti) -> In bj (thread_blocks c n w tj) -> disjoint bi bj) /\
      (forall i iw dw, nth_error ts i = Some (TReady iw dw) -> disjoint (iw, work_isize n w) (dw, work_dsize c n w)) /\
      s_used s = s_top1 s + (s_size s - s_top2 s) /\ s_top1 s = T1 /\ T1 <= s_top2 s <= L.
Proof. exact workfree_threads_lemma. Qed.
Print Assumptions workfree_any_interleaving.

(* the schedule that used to produce the overlap (thread 1 finishes first, thread 2 starts late): now disjoint *)
Theorem workfree_keeps_tail :
  exists lwork sched,
    let '(ts, s) := run_sched small_cfg 3 1 0 sched [TStart; TStart; TStart] (mkStack lwork 264 264 lwork) in
    nth_error ts 1 = Some TDone /\ (exists iw, nth_error ts 2 = Some (TGotI iw)) /\
    pairwise_disjointb (live_blocks small_cfg 3 1 ts) = true.
Proof. exact workfree_keeps_tail_example. Qed.
Print Assumptions workfree_keeps_tail.

(* MemInit failed, no L/U built, p?gssvx still reads L->Store / U->Store (superlu_?QuerySpace) *)
Theorem driver_reads_uninit_L_refuted :
  exists a code m' fo,
    0 < a_lwork a /\
    mem_init (fun _ => false) default_cfg 64 a init_mem = Ok (MIfail code) m' /\
    gstrf_outcome (MIfail code) [] = Some fo /\ a_n a < fo_info fo /\ fo_lu_built fo = false /\
    existsb reads_lu (gssvx_tail (a_lwork a) (a_n a) (fo_info fo)) = true.
Proof. exact driver_reads_uninit_lemma. Qed.
Print Assumptions driver_reads_uninit_L_refuted.

(* the ?expanders header is never tested *)
Theorem expanders_null_crash_refuted :
  exists a m', mem_init (fun k => Nat.eqb k 1) default_cfg 64 a init_mem = Stop Crash m'.
Proof. exact expanders_null_crash_lemma. Qed.
Print Assumptions expanders_null_crash_refuted.
