From Coq Require Import ZArith List Bool.
From SLU Require Import Consts UstackModel UstackProofs.
Import ListNotations.
Local Open Scope Z_scope.

(* lwork = -1: a positive estimate, the stack and the space selector untouched, the only allocator event
   possible is the 64-byte ?expanders header (no L/U array, no user block) ... *)
Theorem query_no_side_effect :
  forall (fail : nat -> bool) (c : cfg) (fuel : nat) (a : mi_args) (m : mem),
    0 <= dword c ->
    a_lwork a = -1 -> (a_refact a = true -> a_prev a <> None) ->
    0 <= a_n a -> 0 <= a_annz a -> 0 <= a_w a -> 0 <= a_nprocs a ->
    0 <= a_nzlumax a -> 0 <= a_nzlmax a -> 0 <= a_nzumax a ->
    exists est m',
      mem_init fail c fuel a m = Ok (MIquery est) m' /\ 0 < est /\
      m_stack m' = m_stack m /\ m_space m' = m_space m /\ only_header_event (m_log m) (m_log m').
Proof. intros fail c fuel a m H. exact (query_lemma fail c H fuel a m). Qed.
Print Assumptions query_no_side_effect.

(* ... and at the driver level no thread is created, no L/U is built, p?gssvx returns at once *)
Theorem query_no_factor_step :
  forall (est : Z) (infos : list Z) (fo : fact_outcome) (n : Z),
    gstrf_outcome (MIquery est) infos = Some fo ->
    fo_threads_ran fo = false /\ fo_lu_built fo = false /\ fo_info fo = est /\
    gssvx_tail (-1) n (fo_info fo) = [AReturnQuery (est - n)] /\
    forallb (fun x => negb (reads_lu x)) (gssvx_tail (-1) n (fo_info fo)) = true.
Proof. exact query_no_factor. Qed.
Print Assumptions query_no_factor_step.

(* the bare two-ended allocator, EVERY request sequence of a client that frees only its most recent block
   (or the whole tail), EVERY alignment ba of the buffer: blocks inside [0, lwork), pairwise disjoint (so HEAD and
   TAIL never overlap), used = top1 + (size - top2).  (A TAIL request takes bytes + extra, 0 <= extra < 8: the slack
   lies above the block and is not part of it.) *)
Theorem ustack_safe :
  forall (ba lwork : Z) (rs : list req), 0 < lwork -> Forall req_ok rs ->
    let u := run_reqs ba rs (init_ust lwork) in
    let s := u_stack u in
    Forall (block_in 0 lwork) (u_head u ++ u_tail u) /\
    ForallOrdPairs disjoint (u_head u ++ u_tail u) /\
    s_used s = s_top1 s + (s_size s - s_top2 s) /\
    0 <= s_top1 s <= s_top2 s /\ s_top2 s <= lwork /\ s_size s = lwork.
Proof. exact ustack_safe_lemma. Qed.
Print Assumptions ustack_safe.

(* ... every live TAIL block starts on an 8-byte boundary (address = ba + offset) *)
Theorem ustack_tail_blocks_aligned :
  forall (ba lwork : Z) (rs : list req),
    Forall (fun b => misalign ba (fst b) = 0) (u_tail (run_reqs ba rs (init_ust lwork))).
Proof. exact ustack_tail_aligned_lemma. Qed.
Print Assumptions ustack_tail_blocks_aligned.

(* a refused request leaves the state unchanged *)
Theorem ustack_refused_unchanged :
  forall (ba bytes : Z) (e : end_t) (s : stack),
    fst (user_malloc ba bytes e s) = None -> snd (user_malloc ba bytes e s) = s.
Proof. exact user_malloc_refused_unchanged. Qed.
Print Assumptions ustack_refused_unchanged.

(* a granted request: HEAD takes bytes at top1; TAIL takes bytes + extra (0 <= extra < 8, tested against the room left)
   below top2 and the block starts on an 8-byte boundary *)
Theorem ustack_granted :
  forall (ba bytes : Z) (e : end_t) (s : stack) (off : Z) (s' : stack),
    user_malloc ba bytes e s = (Some off, s') ->
    stack_full bytes s = false /\
    match e with
    | HEAD => off = s_top1 s /\ s' = mkStack (s_size s) (s_used s + bytes) (s_top1 s + bytes) (s_top2 s)
    | TAIL => let extra := tail_extra ba bytes s in
              0 <= extra < 8 /\ stack_full (bytes + extra) s = false /\ misalign ba off = 0 /\
              off = s_top2 s - (bytes + extra) /\
              s' = mkStack (s_size s) (s_used s + (bytes + extra)) (s_top1 s) (s_top2 s - (bytes + extra))
    end.
Proof. exact user_malloc_granted. Qed.
Print Assumptions ustack_granted.

(* the retry loop halves at most log2(nzumax)+1 times: with that much fuel MemInit never runs out of it, for EVERY annz and
   every allocator behaviour (was meminit_terminates_partial, with the hypothesis 2 <= a_annz a and one more unit of fuel: since
   fix 'the retry loop gives up when nzumax < 1' the loop ends for annz <= 1 too; the arguments of the former witness
   meminit_hang_refuted are in meminit_old_hang_witness_fails below) *)
Theorem meminit_terminates :
  forall (fail : nat -> bool) (c : cfg) (fuel : nat) (a : mi_args) (m : mem),
    (Z.to_nat (Z.log2 (nzumax0 c a)) + 1 <= fuel)%nat ->
    no_hang (mem_init fail c fuel a m).
Proof. exact meminit_terminates_lemma. Qed.
Print Assumptions meminit_terminates.

(* ... and more fuel never changes a result *)
Theorem meminit_fuel_irrelevant :
  forall (fail : nat -> bool) (c : cfg) (fuel k : nat) (a : mi_args) (m : mem) (r : mi_result) (m' : mem),
    mem_init fail c fuel a m = Ok r m' -> mem_init fail c (fuel + k) a m = Ok r m'.
Proof. exact mem_init_fuel_mono. Qed.
Print Assumptions meminit_fuel_irrelevant.

(* a failure return is a value > n *)
Theorem meminit_code :
  forall (fail : nat -> bool) (c : cfg) (fuel : nat) (a : mi_args) (m : mem) (code : Z) (m' : mem),
    0 <= dword c -> 1 <= a_n a -> 0 <= a_annz a -> 0 <= a_nzlumax a ->
    mem_init fail c fuel a m = Ok (MIfail code) m' -> a_n a < code.
Proof. intros fail c fuel a m code m' H. exact (meminit_code_lemma fail c H fuel a m code m'). Qed.
Print Assumptions meminit_code.

(* a user buffer that is large enough (need + 14 alignment bytes < lwork): MemInit succeeds, the 13 arrays
   are inside [0, lwork), pairwise disjoint, lusup and ucol 8-byte aligned, capacities = the guesses *)
Theorem meminit_sufficient_in_buffer :
  forall (fail : nat -> bool) (c : cfg) (fuel : nat) (a : mi_args) (m : mem),
    0 <= dword c ->
    a_refact a = false -> 0 <= a_n a -> 0 <= a_annz a -> 0 <= a_nzlumax a -> 0 < a_lwork a ->
    (m_exp m <> None \/ fail (S (m_sysn m)) = false) ->
    need c a + 14 < a_lwork a ->
    exists g m' bl,
      mem_init fail c fuel a m = Ok (MIok g) m' /\
      g_nzlmax g = nzlmax0 c a /\ g_nzumax g = nzumax0 c a /\ g_nzlumax g = nzlumax0 c a /\
      glu_blocks c (a_n a) g = Some bl /\
      Forall (block_in 0 (a_lwork a)) bl /\ ForallOrdPairs disjoint bl /\
      (exists o, g_lusup g = POff o /\ misalign (a_ba a) o = 0) /\
      (exists o, g_ucol g = POff o /\ misalign (a_ba a) o = 0) /\
      s_top2 (m_stack m') = a_lwork a /\ s_used (m_stack m') = s_top1 (m_stack m') /\
      s_used (m_stack m') < a_lwork a.
Proof. intros fail c fuel a m H. exact (meminit_sufficient_lemma fail c H fuel a m). Qed.
Print Assumptions meminit_sufficient_in_buffer.

(* internally allocated mode with an allocator that does not fail: same capacities (the factorization is
   a function of the matrix, the options and these capacities; it is not modelled here) *)
Theorem same_capacities_in_system_space_partial :
  forall (fail : nat -> bool) (c : cfg) (fuel : nat) (a : mi_args) (m : mem),
    (forall k, fail k = false) -> a_refact a = false -> a_lwork a = 0 ->
    exists g m', mem_init fail c fuel a m = Ok (MIok g) m' /\
      g_nzlmax g = nzlmax0 c a /\ g_nzumax g = nzumax0 c a /\ g_nzlumax g = nzlumax0 c a /\
      Forall (fun p => exists k, p = PSys k) [g_lusup g; g_ucol g; g_lsub g; g_usub g].
Proof. intros fail c fuel a m H. exact (meminit_system_ok_lemma fail c H fuel a m). Qed.
Print Assumptions same_capacities_in_system_space_partial.

(* P threads entering p?gstrf_WorkInit on the user stack, EVERY interleaving of their locked sections, start-up phase
   (nobody has reached WorkFree), EVERY alignment of the buffer and every element size (the two alignment hypotheses
   "(ba + L) mod 8 = 0" and "work_dsize mod 8 = 0" of earlier versions are gone: since fix 'tail blocks are aligned by
   the allocator' no fix-up outside the allocator's critical section can occur, see workinit_fixup_unreachable):
   blocks of different threads never overlap, everything stays between the HEAD part and the end of the buffer.
   (The name keeps its historical suffix; the statement is no longer partial in the alignment.) *)
Theorem workinit_any_interleaving_partial :
  forall (c : cfg) (n w ba L T1 : Z),
    0 <= work_isize n w -> 0 <= work_dsize c n w -> 0 <= T1 <= L ->
    forall (P : nat) (sched : list nat),
      let '(ts, s) := run_init c n w ba sched (repeat TStart P) (mkStack L T1 T1 L) in
      (forall i t b, nth_error ts i = Some t -> In b (thread_blocks c n w t) -> block_in T1 L b) /\
      (forall i j ti tj bi bj, i <> j -> nth_error ts i = Some ti -> nth_error ts j = Some tj ->
            In bi (thread_blocks c n w ti) -> In bj (thread_blocks c n w tj) -> disjoint bi bj) /\
      (forall i iw dw, nth_error ts i = Some (TReady iw dw) -> disjoint (iw, work_isize n w) (dw, work_dsize c n w)) /\
      s_used s = s_top1 s + (s_size s - s_top2 s) /\ s_top1 s = T1 /\ T1 <= s_top2 s <= L.
Proof. exact workinit_threads_lemma. Qed.
Print Assumptions workinit_any_interleaving_partial.

(* ... over the WHOLE run and for EVERY interleaving no thread is ever in the state between user_malloc(dwork) and the
   second locked section of the alignment fix-up of p?gstrf_WorkInit (that C code is still there, and dead), and every
   block a thread holds starts on an 8-byte boundary *)
Theorem workinit_fixup_unreachable :
  forall (c : cfg) (n w ba L T1 : Z),
    0 <= work_isize n w -> 0 <= work_dsize c n w -> 0 <= T1 <= L ->
    forall (P : nat) (sched : list nat),
      let '(ts, s) := run_sched c n w ba sched (repeat TStart P) (mkStack L T1 T1 L) in
      (forall i iw dw e, nth_error ts i <> Some (TGotD iw dw e)) /\
      (forall i t b, nth_error ts i = Some t -> In b (thread_blocks c n w t) -> misalign ba (fst b) = 0).
Proof. exact workinit_no_fixup_lemma. Qed.
Print Assumptions workinit_fixup_unreachable.

(* the sequential p?gstrf_WorkInit (the model that is compared with the C code) on a user stack in ANY state satisfying
   the stack invariant: what it hands out lies between the new and the old top2 (above top1), iwork and dwork are
   disjoint, dwork is on an 8-byte boundary, a failure returns isize + n or isize + dsize + n, no fix-up is logged *)
Theorem workinit_sequential_safe :
  forall (fail : nat -> bool) (c : cfg) (n w : Z) (m : mem) (L : Z),
    m_space m = USER -> stack_inv L (m_stack m) -> 0 <= work_isize n w -> 0 <= work_dsize c n w ->
    exists r iw dw m',
      work_init fail c n w m = Ok (r, iw, dw) m' /\
      stack_inv L (m_stack m') /\ s_top1 (m_stack m') = s_top1 (m_stack m) /\ s_top2 (m_stack m') <= s_top2 (m_stack m) /\
      (forall i, iw = POff i -> block_in (s_top2 (m_stack m')) (s_top2 (m_stack m)) (i, work_isize n w)) /\
      (forall d, dw = POff d ->
         r = 0 /\ misalign (m_ba m) d = 0 /\ block_in (s_top2 (m_stack m')) (s_top2 (m_stack m)) (d, work_dsize c n w) /\
         exists i, iw = POff i /\ disjoint (i, work_isize n w) (d, work_dsize c n w)) /\
      (dw = PNull -> r = work_isize n w + n \/ r = work_isize n w + work_dsize c n w + n) /\
      (forall o b e, In (EvShift o b e) (m_log m') -> In (EvShift o b e) (m_log m)).
Proof. exact work_init_user_safe_lemma. Qed.
Print Assumptions workinit_sequential_safe.

(* the thread-level transition system (used by the three theorems about interleavings) and the sequential model of
   p?gstrf_WorkInit that is compared with the C code on every run agree on a thread that is not interleaved *)
Theorem thread_model_refines_workinit :
  forall (fail : nat -> bool) (c : cfg) (n w : Z) (m : mem),
    m_space m = USER ->
    exists r iw dw m',
      work_init fail c n w m = Ok (r, iw, dw) m' /\
      m_stack m' = snd (run3 c n w (m_ba m) (m_stack m)) /\
      match fst (run3 c n w (m_ba m) (m_stack m)) with
      | TReady i d => r = 0 /\ iw = POff i /\ dw = POff d
      | TFailed code => r = code /\ dw = PNull
      | _ => False
      end.
Proof. exact thread_steps_refine_work_init. Qed.
Print Assumptions thread_model_refines_workinit.

(* p?gstrf_thread_finalize: the combined info is 0 only if every thread returned 0, otherwise it is one of
   the thread values and a lower bound of every non-zero one; if every failed thread reports > n so does it *)
Theorem finalize_info_min :
  forall (infos : list Z) (acc : Z),
    let r := finalize_info acc infos in
    (r = acc \/ In r infos) /\
    (r = 0 <-> acc = 0 /\ Forall (fun i => i = 0) infos) /\
    (acc <> 0 -> r <= acc) /\ Forall (fun i => i <> 0 -> r <= i) infos.
Proof. exact finalize_info_spec. Qed.
Print Assumptions finalize_info_min.

(* the executable block oracle used on the implementation's offsets is sound and complete *)
Theorem blocks_oracle_sound_complete :
  forall (lwork : Z) (bl : list (Z * Z)),
    (blocks_okb lwork bl = true ->
       Forall (block_in 0 lwork) bl /\
       ForallOrdPairs (fun b1 b2 => disjoint b1 b2 \/ snd b1 <= 0 \/ snd b2 <= 0) bl) /\
    (Forall (block_in 0 lwork) bl -> ForallOrdPairs disjoint bl -> blocks_okb lwork bl = true).
Proof. intros; split; [apply blocks_okb_sound|apply blocks_okb_complete]. Qed.
Print Assumptions blocks_oracle_sound_complete.

(* "a too small lwork returns info > n and corrupts nothing": user space, EVERY lwork > 0 (not only a sufficient one as in
   meminit_sufficient_in_buffer), every allocator behaviour, every fuel, every alignment of the buffer: whenever MemInit
   returns 0 the 13 arrays are inside [0, lwork), pairwise disjoint (also for the executable oracle), lusup and ucol on
   8-byte boundaries, nzlumax is the guess, nzumax and nzlmax are between 0 and their guesses, the bytes they take are
   strictly below lwork, and the stack is tail-free with used = top1 < lwork.  (The other outcomes: MIfail code with
   code > n -- meminit_code; Stop Crash when the ?expanders header is NULL -- expanders_null_crash_refuted; no Hang --
   meminit_terminates.)  Since fixes 'MemInit tests the nine integer arrays' and 'the retry loop gives back exactly what
   the last attempt took'; replaces insufficient_buffer_wild_blocks_refuted. *)
Theorem meminit_user_any_buffer_safe :
  forall (fail : nat -> bool) (c : cfg), 0 <= dword c ->
  forall (fuel : nat) (a : mi_args) (m : mem) (g : glu) (m' : mem),
    a_refact a = false -> 0 < a_lwork a -> 0 <= a_n a -> 0 <= a_annz a -> 0 <= a_nzlumax a ->
    mem_init fail c fuel a m = Ok (MIok g) m' ->
    exists bl,
      glu_blocks c (a_n a) g = Some bl /\
      Forall (block_in 0 (a_lwork a)) bl /\ ForallOrdPairs disjoint bl /\ blocks_okb (a_lwork a) bl = true /\
      g_nzlumax g = nzlumax0 c a /\ 0 <= g_nzumax g <= nzumax0 c a /\ 0 <= g_nzlmax g <= nzlmax0 c a /\
      (exists o, g_lusup g = POff o /\ misalign (a_ba a) o = 0) /\
      (exists o, g_ucol g = POff o /\ misalign (a_ba a) o = 0) /\
      glu_need c (a_n a) g < a_lwork a /\
      s_size (m_stack m') = a_lwork a /\ s_top2 (m_stack m') = a_lwork a /\
      s_used (m_stack m') = s_top1 (m_stack m') /\ s_used (m_stack m') < a_lwork a.
Proof. intros fail c H. exact (meminit_user_in_buffer_lemma fail c H). Qed.
Print Assumptions meminit_user_any_buffer_safe.

(* the nine integer arrays are tested: a buffer that cannot hold them (36 n + 20 bytes, strictly below lwork) makes MemInit
   return memory_use(initial guesses) + n at once; no L/U array is requested, ?expanders and no_expand are as MemInit found /
   set them on entry.  (Before the fix the nine results were never looked at and MemInit went on with NULL arrays.) *)
Theorem meminit_int_arrays_refused :
  forall (fail : nat -> bool) (c : cfg) (fuel : nat) (a : mi_args) (m : mem),
    a_refact a = false -> 0 < a_lwork a -> 0 <= a_n a -> a_lwork a <= 36 * a_n a + 20 ->
    exists m',
      mem_init fail c fuel a m
      = Ok (MIfail (f32 (memory_use c (a_n a) (nzlmax0 c a) (nzumax0 c a) (nzlumax0 c a) + f32 (a_n a)))) m' /\
      m_noexp m' = 0 /\ m_exp m' = m_exp (ensure_expanders fail (set_ba (set_dims m (a_n a) 0) (a_ba a))).
Proof. exact meminit_int_arrays_refused_lemma. Qed.
Print Assumptions meminit_int_arrays_refused.

(* ---- vm_compute witnesses: arguments of former counterexamples (now repaired) and what is still refuted ---- *)

(* [repaired; was insufficient_buffer_wild_blocks_refuted: lwork = 3000, MemInit returned 0 with ucol at offset -19616]
   the very arguments of the old witness: MemInit returns 0 after six attempts with nzumax = 46, nzlmax = 28, all 13 arrays
   inside [0, 3000) and disjoint, used = top1 = 2648; with lwork = 300 the integer arrays do not fit and the failure code
   23610 > n + 1 is returned at once.  Instances of meminit_user_any_buffer_safe / meminit_int_arrays_refused. *)
Theorem insufficient_buffer_in_range :
  (exists a g m', a = mkArgs 10 30 1 4 false false 200 0 0 3000 0 None /\
    mem_init (fun _ => false) default_cfg 64 a init_mem = Ok (MIok g) m' /\
    (exists bl, glu_blocks default_cfg (a_n a) g = Some bl /\ blocks_okb (a_lwork a) bl = true) /\
    g_lusup g = POff 384 /\ g_ucol g = POff 1984 /\ g_lsub g = POff 2352 /\ g_usub g = POff 2464 /\
    g_nzumax g = 46 /\ g_nzlmax g = 28 /\ g_nzlumax g = 200 /\
    m_stack m' = mkStack 3000 2648 2648 3000) /\
  (exists a m', a = mkArgs 10 30 1 4 false false 200 0 0 300 0 None /\
    mem_init (fun _ => false) default_cfg 64 a init_mem = Ok (MIfail 23610) m' /\
    a_n a + 1 < 23610 /\ m_noexp m' = 0 /\ m_stack m' = mkStack 300 296 296 300).
Proof. exact insufficient_buffer_lemma. Qed.
Print Assumptions insufficient_buffer_in_range.

(* [repaired; was meminit_hang_refuted: annz <= 1 and a failing system allocator, the retry loop never ended whatever the fuel]
   the very arguments of the old witness (system space, n = annz = 1, the allocator fails from the 11th request on): with any
   fuel >= 6 MemInit returns the failure code 49 > n after 29 system requests (nzumax = 50, 25, 12, 6, 3, 1, then 0: give up) *)
Theorem meminit_old_hang_witness_fails :
  forall fuel, (6 <= fuel)%nat ->
    exists m', mem_init hang_fail hang_cfg fuel hang_args init_mem = Ok (MIfail 49) m' /\
               m_sysn m' = 29%nat /\ m_noexp m' = 0.
Proof. exact meminit_old_hang_witness_lemma. Qed.
Print Assumptions meminit_old_hang_witness_fails.

(* [repaired: fix 'tail blocks are aligned by the allocator'; was workinit_alignment_overlap_refuted: the alignment
   fix-up of WorkInit moved dwork below top1 and the TAIL block overlapped the last HEAD block]
   the very arguments of the old witness (lwork = 477): iwork is granted with its slack, dwork is refused, WorkInit
   returns isize + dsize + n, everything handed out is inside the buffer and disjoint from the 13 arrays, top1 <= top2;
   with lwork = 485 (buffer end still misaligned) both arrays are granted, dwork aligned, no fix-up event.
   Instances of workinit_sequential_safe. *)
Theorem workinit_alignment_in_range :
  (exists a g m1 iw m2,
    a = mkArgs 3 5 1 1 false false 7 0 0 477 0 None /\
    mem_init (fun _ => false) small_cfg 64 a init_mem = Ok (MIok g) m1 /\
    work_init (fun _ => false) small_cfg (a_n a) (a_w a) m1
      = Ok (work_isize (a_n a) (a_w a) + work_dsize small_cfg (a_n a) (a_w a) + a_n a, POff iw, PNull) m2 /\
    exists bl, glu_blocks small_cfg (a_n a) g = Some bl /\ blocks_okb (a_lwork a) bl = true /\
    blocks_okb (a_lwork a) (bl ++ [(iw, work_isize (a_n a) (a_w a))]) = true /\
    s_top1 (m_stack m2) <= s_top2 (m_stack m2) /\ s_top1 (m_stack m2) = s_top1 (m_stack m1)) /\
  (exists a g m1 iw dw m2,
    a = mkArgs 3 5 1 1 false false 7 0 0 485 0 None /\
    mem_init (fun _ => false) small_cfg 64 a init_mem = Ok (MIok g) m1 /\
    work_init (fun _ => false) small_cfg (a_n a) (a_w a) m1 = Ok (0, POff iw, POff dw) m2 /\
    misalign (a_ba a) dw = 0 /\
    exists bl, glu_blocks small_cfg (a_n a) g = Some bl /\ blocks_okb (a_lwork a) bl = true /\
    blocks_okb (a_lwork a) (bl ++ [(iw, work_isize (a_n a) (a_w a)); (dw, work_dsize small_cfg (a_n a) (a_w a))]) = true /\
    s_top1 (m_stack m2) <= s_top2 (m_stack m2) /\ s_top1 (m_stack m2) = s_top1 (m_stack m1) /\
    forall o b e, ~ In (EvShift o b e) (m_log m2)).
Proof. exact workinit_alignment_in_range_lemma. Qed.
Print Assumptions workinit_alignment_in_range.

(* [repaired; was workinit_race_overlap_refuted: the unlocked gap between user_malloc(dwork) and its fix-up let another
   thread's iwork in]  the very schedule of the old witness (two threads, buffer end = 4 mod 8): blocks pairwise
   disjoint and in range, both over the whole run (thread 0's fourth step is now its WorkFree) and in the start-up
   phase (both threads ready, all four blocks on 8-byte boundaries).  Instances of workfree_any_interleaving /
   workinit_any_interleaving_partial. *)
Theorem workinit_race_no_overlap :
  exists lwork sched,
    (let '(ts, s) := run_sched small_cfg 3 1 0 sched [TStart; TStart] (mkStack lwork 264 264 lwork) in
     ts = [TDone; TReady 9688 9616] /\ blocks_okb lwork (live_blocks small_cfg 3 1 ts) = true /\
     s_top1 s = 264 /\ s_top1 s <= s_top2 s) /\
    (let '(ts, s) := run_init small_cfg 3 1 0 sched [TStart; TStart] (mkStack lwork 264 264 lwork) in
     ts = [TReady 9880 9808; TReady 9688 9616] /\ blocks_okb lwork (live_blocks small_cfg 3 1 ts) = true /\
     forallb (in_rangeb 264 lwork) (live_blocks small_cfg 3 1 ts) = true /\
     forallb (fun b => misalign 0 (fst b) =? 0) (live_blocks small_cfg 3 1 ts) = true /\
     s = mkStack lwork 652 264 9616).
Proof. exact workinit_race_no_overlap_lemma. Qed.
Print Assumptions workinit_race_no_overlap.

(* P threads on the user stack, EVERY interleaving of their locked sections over the WHOLE run -- WorkInit, working,
   WorkFree (which since fix 'WorkFree keeps the tail' releases nothing: the tail is reclaimed by the next MemInit): for
   EVERY alignment of the buffer and every element size (no alignment hypothesis any more, as above), blocks of different
   threads never overlap and stay inside the tail region.  Before the first fix the first thread to finish reset the whole
   tail and a thread starting late was handed live memory (findings F17, C14-workfree: the refuted statement
   workfree_overlap_refuted of earlier versions); before the second one a misaligned dwork was shifted outside the lock. *)
Theorem workfree_any_interleaving :
  forall (c : cfg) (n w ba L T1 : Z),
    0 <= work_isize n w -> 0 <= work_dsize c n w -> 0 <= T1 <= L ->
    forall (P : nat) (sched : list nat),
      let '(ts, s) := run_sched c n w ba sched (repeat TStart P) (mkStack L T1 T1 L) in
      (forall i t b, nth_error ts i = Some t -> In b (thread_blocks c n w t) -> block_in T1 L b) /\
      (forall i j ti tj bi bj, i <> j -> nth_error ts i = Some ti -> nth_error ts j = Some tj ->
            In bi (thread_blocks c n w ti) -> In bj (thread_blocks c n w tj) -> disjoint bi bj) /\
      (forall i iw dw, nth_error ts i = Some (TReady iw dw) -> disjoint (iw, work_isize n w) (dw, work_dsize c n w)) /\
      s_used s = s_top1 s + (s_size s - s_top2 s) /\ s_top1 s = T1 /\ T1 <= s_top2 s <= L.
Proof. exact workfree_threads_lemma. Qed.
Print Assumptions workfree_any_interleaving.

(* the schedule that used to produce the overlap (thread 1 finishes first, thread 2 starts late): now disjoint *)
Theorem workfree_keeps_tail :
  exists lwork sched,
    let '(ts, s) := run_sched small_cfg 3 1 0 sched [TStart; TStart; TStart] (mkStack lwork 264 264 lwork) in
    nth_error ts 1 = Some TDone /\ (exists iw, nth_error ts 2 = Some (TGotI iw)) /\
    pairwise_disjointb (live_blocks small_cfg 3 1 ts) = true.
Proof. exact workfree_keeps_tail_example. Qed.
Print Assumptions workfree_keeps_tail.

(* MemInit failed: info > n + 1, no L/U is built, and p?gssvx reads neither L->Store nor U->Store (since the repair of finding
   C14-F4 the statistics call superlu_?QuerySpace(L, U) is skipped for info > n + 1); for every allocator behaviour, every
   configuration and all arguments with n >= 1 *)
Theorem driver_never_reads_unbuilt_LU :
  forall (fail : nat -> bool) (c : cfg), 0 <= dword c ->
  forall (fuel : nat) (a : mi_args) (m : mem) (code : Z) (m' : mem) (infos : list Z) (fo : fact_outcome),
    1 <= a_n a -> 0 <= a_annz a -> 0 <= a_nzlumax a ->
    mem_init fail c fuel a m = Ok (MIfail code) m' ->
    gstrf_outcome (MIfail code) infos = Some fo ->
    fo_lu_built fo = false /\ a_n a + 1 < fo_info fo /\
    forallb (fun x => negb (reads_lu x)) (gssvx_tail (a_lwork a) (a_n a) (fo_info fo)) = true.
Proof. intros fail c H. exact (driver_never_reads_unbuilt fail c H). Qed.
Print Assumptions driver_never_reads_unbuilt_LU.

Theorem driver_skips_queryspace_after_failure :
  exists a code m' fo,
    0 < a_lwork a /\
    mem_init (fun _ => false) default_cfg 64 a init_mem = Ok (MIfail code) m' /\
    gstrf_outcome (MIfail code) [] = Some fo /\ a_n a + 1 < fo_info fo /\ fo_lu_built fo = false /\
    existsb reads_lu (gssvx_tail (a_lwork a) (a_n a) (fo_info fo)) = false.
Proof. exact driver_skips_queryspace_example. Qed.
Print Assumptions driver_skips_queryspace_after_failure.

(* the ?expanders header is never tested *)
Theorem expanders_null_crash_refuted :
  exists a m', mem_init (fun k => Nat.eqb k 1) default_cfg 64 a init_mem = Stop Crash m'.
Proof. exact expanders_null_crash_lemma. Qed.
Print Assumptions expanders_null_crash_refuted.

(* ------------------------------------------------------------------ *)
(* The source is the model: ?user_malloc / ?user_free as RE-TRANSLATED from SRC/p?memory.c on every run (UstackGen.v, by
   tools/gen_trans.py through the clang AST) compute, in all four precisions and for ALL argument values, the result and the
   stack fields that the model's umalloc / ufree compute (event log projected away; `array` is the address held in stack.array,
   of which the model only knows the alignment m_ba = array mod 8; an int_t which_end selects HEAD when it equals the value of the
   enum constant HEAD of that file and TAIL otherwise, and the two constants differ). *)
From SLU Require Import C2GalLib UstackGen UstackTie.

Theorem c14_source_ustack_is_model :
  forall (p : ArgCheckModel.prec) (m : mem) (array bytes w : Z),
    m_ba m = array mod 8 ->
    let s := m_stack m in
    let e := src_end p w in
    src_user_malloc p (s_size s) (s_used s) (s_top1 s) (s_top2 s) array bytes w
      = (poff (fst (umalloc bytes e m)), fields (m_stack (snd (umalloc bytes e m)))) /\
    src_user_free p (s_size s) (s_used s) (s_top1 s) (s_top2 s) array bytes w
      = (tt, fields (m_stack (ufree bytes e m))) /\
    src_end p (src_HEAD p) = HEAD /\ src_end p (src_TAIL p) = TAIL.
Proof. exact src_ustack_is_model. Qed.
Print Assumptions c14_source_ustack_is_model.

(* ... and the hypothesis is satisfiable / the generated functions compute (d precision, buffer of 100 bytes at address 1004) *)
Theorem c14_source_ustack_nonvacuous :
  let m := set_ba (set_stack init_mem (mkStack 100 16 16 100)) 4 in
  m_ba m = 1004 mod 8 /\
  gen_duser_malloc 100 16 16 100 1004 10 gen_d_TAIL = (Some 84, (100, 32, 16, 84)) /\
  poff (fst (umalloc 10 TAIL m)) = Some 84 /\
  gen_duser_malloc 100 16 16 100 1004 10 gen_d_HEAD = (Some 16, (100, 26, 26, 100)) /\
  gen_duser_malloc 100 16 16 100 1004 84 gen_d_HEAD = (None, (100, 16, 16, 100)) /\
  gen_duser_free 100 32 16 84 1004 16 gen_d_TAIL = (tt, (100, 16, 16, 100)).
Proof. exact src_umalloc_nonvacuous. Qed.
Print Assumptions c14_source_ustack_nonvacuous.

(* ustack_granted / ustack_safe restated for the generated function: in a reachable state of the stack (stack_inv) a block
   granted to a request of bytes >= 0 lies inside [0, lwork) and the state stays reachable ... *)
Theorem c14_source_block_inside_buffer :
  forall (p : ArgCheckModel.prec) (lwork size used top1 top2 array bytes w off : Z) (st : Z * Z * Z * Z),
    stack_inv lwork (mkStack size used top1 top2) -> 0 <= bytes ->
    src_user_malloc p size used top1 top2 array bytes w = (Some off, st) ->
    0 <= off /\ off + bytes <= lwork /\
    exists s', st = fields s' /\ stack_inv lwork s'.
Proof. exact src_malloc_block_inside. Qed.
Print Assumptions c14_source_block_inside_buffer.

(* ... and a block granted at the TAIL end (which_end <> HEAD) has an ADDRESS that is a multiple of 8, whatever the address of
   the buffer, the state of the stack and the byte count are (ustack_tail_blocks_aligned / user_malloc_tail_aligned) *)
Theorem c14_source_tail_block_aligned :
  forall (p : ArgCheckModel.prec) (size used top1 top2 array bytes w off : Z) (st : Z * Z * Z * Z),
    w <> src_HEAD p ->
    src_user_malloc p size used top1 top2 array bytes w = (Some off, st) ->
    (array + off) mod 8 = 0.
Proof. exact src_malloc_tail_aligned. Qed.
Print Assumptions c14_source_tail_block_aligned.
