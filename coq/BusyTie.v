(* BusyTie.v -- the busy snapshot pxgstrf_mark_busy_descends AS TRANSLATED FROM THE C SOURCE (BusyGen.v, regenerated on every run by
   tools/gen_trans.py / tools/gen_trans_busy.py) writes jcol into exactly the entries of lbusy[] that the hand-written model
   SchedBusy.mark_busy lists, in the order the model lists them.

   Representations.  The C routine has no result but its effect on the caller's private array lbusy[] (and on *bcol); the model
   SchedBusy.mark_busy s jcol bcol fsup is the LIST of the columns k that have lbusy[k] = jcol after the call.  The two are related by
       mark_all jcol cols lb  =  lb with  lb[k] := jcol  executed for every k of cols, first to last
   (fold_left of updZ): the tie theorem says  translated lbusy' = mark_all jcol (mark_busy ..) lbusy  -- an equation between arrays, which
   also fixes the entries that are NOT touched.  mark_all_spec / mark_all_length read it entry by entry:
       lbusy'[k] = jcol  if k is in the model's list,  lbusy'[k] = lbusy[k]  otherwise  (0 <= k < length lbusy),  same length.
   The model's parameter fsup ("first column of the supernode containing bcol-1, as read from the changing supernode table -- any
   value does") is what the C code reads through the macro SUPER_FSUPC:  fsup = xsup[supno[bcol-1]]; the tie holds for every content
   of xsup / supno.  The scheduler state s supplies etree, pan_status[].type, pan_status[].size (SchedModel.sstate: etree, ptype, psize).

   Hypotheses: the executable shape predicate forestb of the model's own theorem (k < etree[k] <= n on 0..n-1: the climb ends),
   index ranges (jcol <= n, 0 <= bcol, 0 <= size[bcol]) and enough fuel for the climb (more than n). *)
From Coq Require Import ZArith List Bool Lia ZifyBool.
From SLU Require Import Consts C2GalLib SchedModel SchedBase SchedInv SchedSteps SchedCall1 SchedCall2 SchedCall3 SchedProofs SchedPipe
                        SchedBusy BusyGen.
Import ListNotations.
Local Open Scope Z_scope.

(* ---- list of marked columns  <->  array ---- *)
Definition mark_all (jcol : Z) (cs : list Z) (lb : list Z) : list Z := fold_left (fun l k => updZ l k jcol) cs lb.

Lemma mark_all_app jcol a b lb : mark_all jcol (a ++ b) lb = mark_all jcol b (mark_all jcol a lb).
Proof. unfold mark_all. apply fold_left_app. Qed.

Lemma mark_all_length jcol cs : forall lb, lenZ (mark_all jcol cs lb) = lenZ lb.
Proof.
  induction cs as [|c cs IH]; intros lb; cbn [mark_all fold_left]; [reflexivity|].
  fold (mark_all jcol cs (updZ lb c jcol)). rewrite IH. apply lenZ_updZ.
Qed.

Lemma mark_all_spec jcol cs : forall lb k, 0 <= k < lenZ lb ->
  nthZ (mark_all jcol cs lb) k = if existsb (Z.eqb k) cs then jcol else nthZ lb k.
Proof.
  induction cs as [|c cs IH]; intros lb k Hk; cbn [mark_all fold_left existsb]; [reflexivity|].
  fold (mark_all jcol cs (updZ lb c jcol)). rewrite IH by (rewrite lenZ_updZ; exact Hk).
  destruct (existsb (Z.eqb k) cs) eqn:Ex.
  - rewrite orb_true_r. reflexivity.
  - rewrite orb_false_r. destruct (k =? c) eqn:Ekc.
    + apply Z.eqb_eq in Ekc. subst c. apply nthZ_updZ_same. exact Hk.
    + apply Z.eqb_neq in Ekc. apply nthZ_updZ_other. congruence.
Qed.

Lemma mark_all_in jcol cs lb k : 0 <= k < lenZ lb -> In k cs -> nthZ (mark_all jcol cs lb) k = jcol.
Proof.
  intros Hk Hin. rewrite mark_all_spec by exact Hk.
  assert (Ex : existsb (Z.eqb k) cs = true) by (apply existsb_exists; exists k; split; [exact Hin | apply Z.eqb_refl]).
  rewrite Ex. reflexivity.
Qed.

Lemma mark_all_notin jcol cs lb k : ~ In k cs -> nthZ (mark_all jcol cs lb) k = nthZ lb k.
Proof.
  revert lb. induction cs as [|c cs IH]; intros lb Hn; cbn [mark_all fold_left]; [reflexivity|].
  fold (mark_all jcol cs (updZ lb c jcol)). rewrite IH by (intros Hin; apply Hn; right; exact Hin).
  apply nthZ_updZ_other. intros Heq. apply Hn. left. exact Heq.
Qed.

(* ---- the two loops ---- *)
(* for (kcol = a; kcol < b; ++kcol) lbusy[kcol] = jcol; *)
Lemma mark_loop_tie jcol : forall cs lb, fold_left (gen_pxgstrf_mark_busy_descends_loop1 jcol) cs lb = mark_all jcol cs lb.
Proof.
  induction cs as [|c cs IH]; intros lb; [reflexivity|].
  cbn [fold_left mark_all]. fold (mark_all jcol cs (updZ lb c jcol)). rewrite <- IH. reflexivity.
Qed.

(* the range of the C loop `for (k = a; k < b; ++k)` is the model's range `b - a columns from a` *)
Lemma zrange_tie a b : C2GalLib.zrange a b = SchedBusy.zrange a (b - a).
Proof. reflexivity. Qed.

(* for (kcol = k; kcol < jcol; kcol = etree[kcol]) lbusy[kcol] = jcol;  -- with enough fuel on both sides *)
Lemma climb_tie et jcol n (HF : forall k, 0 <= k < n -> k < nthZ et k) (Hj : jcol <= n) :
  forall (fuel fuel' : nat) k lb, 0 <= k -> (Z.to_nat (jcol - k) < fuel)%nat -> (Z.to_nat (jcol - k) <= fuel')%nat ->
  exists kf, gen_pxgstrf_mark_busy_descends_while1 fuel jcol et (k, lb) = Some (kf, mark_all jcol (path fuel' et k jcol) lb).
Proof.
  induction fuel as [|f IH]; intros fuel' k lb Hk Hf Hf'; [lia|].
  cbn [gen_pxgstrf_mark_busy_descends_while1]. cbv zeta.
  destruct (k <? jcol) eqn:E.
  - apply Z.ltb_lt in E. destruct fuel' as [|f']; [lia|].
    cbn [path]. assert (E' : (k <? jcol) = true) by (apply Z.ltb_lt; exact E). rewrite E'.
    cbn [mark_all fold_left]. fold (mark_all jcol (path f' et (nthZ et k) jcol) (updZ lb k jcol)).
    assert (Hup : k < nthZ et k) by (apply HF; lia).
    apply IH; lia.
  - exists k. f_equal. f_equal. destruct fuel' as [|f']; cbn [path]; [reflexivity|]. rewrite E. reflexivity.
Qed.

(* ---- the routine ---- *)
Definition fsup_of (xsup supno : list Z) (bcol : Z) : Z := nthZ xsup (nthZ supno (bcol - 1)).

(* *bcol at the end: the first column of the farthest busy supernode *)
Definition bcol_out (s : sstate) (jcol bcol fsup : Z) : Z :=
  if bcol <? jcol then (if nthZ (ptype s) bcol =? c_RELAXED_SNODE then bcol else fsup) else bcol.

Lemma forestb_up s : forestb s = true -> forall k, 0 <= k < sn s -> k < nthZ (etree s) k.
Proof.
  intros HF k Hk. unfold forestb in HF. rewrite forallb_forall in HF. specialize (HF k (proj2 (in_cols _ _) Hk)).
  apply andb_true_iff in HF. destruct HF as [A _]. apply Z.ltb_lt in A. exact A.
Qed.

Theorem mark_busy_tie s jcol bcol xsup supno lbusy fuel :
  forestb s = true -> jcol <= sn s -> 0 <= bcol -> 0 <= sz s bcol -> (Z.to_nat (sn s) < fuel)%nat ->
  gen_pxgstrf_mark_busy_descends jcol (etree s) (ptype s) (psize s) xsup supno bcol lbusy fuel =
  Some (mark_all jcol (mark_busy s jcol bcol (fsup_of xsup supno bcol)) lbusy, bcol_out s jcol bcol (fsup_of xsup supno bcol)).
Proof.
  intros HF Hj Hb Hsz Hfuel.
  pose proof (forestb_up s HF) as Hup.
  unfold gen_pxgstrf_mark_busy_descends, mark_busy, bcol_out, fsup_of, sz in *. cbv zeta.
  destruct (bcol <? jcol) eqn:Ebj; [|reflexivity].
  apply Z.ltb_lt in Ebj.
  destruct (nthZ (ptype s) bcol =? c_RELAXED_SNODE) eqn:Et.
  - rewrite mark_loop_tie, zrange_tie, mark_all_app.
    replace (bcol + nthZ (psize s) bcol - bcol) with (nthZ (psize s) bcol) by lia.
    destruct (climb_tie (etree s) jcol (sn s) Hup Hj fuel (S (Z.to_nat (sn s))) (bcol + nthZ (psize s) bcol)
                (mark_all jcol (SchedBusy.zrange bcol (nthZ (psize s) bcol)) lbusy)) as [kf Hw]; [lia | lia | lia |].
    rewrite Hw. reflexivity.
  - rewrite mark_loop_tie, zrange_tie, mark_all_app.
    destruct (climb_tie (etree s) jcol (sn s) Hup Hj fuel (S (Z.to_nat (sn s))) bcol
                (mark_all jcol (SchedBusy.zrange (nthZ xsup (nthZ supno (bcol - 1))) (bcol - nthZ xsup (nthZ supno (bcol - 1)))) lbusy))
      as [kf Hw]; [lia | lia | lia |].
    rewrite Hw. reflexivity.
Qed.

(* entry by entry: the translated routine sets exactly the model's columns to jcol and leaves every other entry alone *)
Corollary mark_busy_tie_entries s jcol bcol xsup supno lbusy fuel :
  forestb s = true -> jcol <= sn s -> 0 <= bcol -> 0 <= sz s bcol -> (Z.to_nat (sn s) < fuel)%nat ->
  exists lbusy' bcol',
    gen_pxgstrf_mark_busy_descends jcol (etree s) (ptype s) (psize s) xsup supno bcol lbusy fuel = Some (lbusy', bcol') /\
    lenZ lbusy' = lenZ lbusy /\
    bcol' = bcol_out s jcol bcol (fsup_of xsup supno bcol) /\
    (forall k, 0 <= k < lenZ lbusy -> In k (mark_busy s jcol bcol (fsup_of xsup supno bcol)) -> nthZ lbusy' k = jcol) /\
    (forall k, ~ In k (mark_busy s jcol bcol (fsup_of xsup supno bcol)) -> nthZ lbusy' k = nthZ lbusy k).
Proof.
  intros HF Hj Hb Hsz Hfuel. eexists. eexists. split; [apply mark_busy_tie; assumption|].
  split; [apply mark_all_length|]. split; [reflexivity|]. split.
  - intros k Hk Hin. apply mark_all_in; assumption.
  - intros k Hn. apply mark_all_notin. exact Hn.
Qed.

(* ---- C03, column level, for the translated routine: in every reachable state, when the scheduler hands panel j with bcol b to a
   worker and the worker runs the translated pxgstrf_mark_busy_descends on its n-entry array lbusy (any contents, any supernode
   table xsup / supno), the routine terminates within n+1 units of fuel and afterwards lbusy[c] = j for every column c of every proper
   descendant panel x of j that is not DONE. ---- *)
Theorem source_busy_columns_marked s0 P g t cur s' j b xsup supno lbusy fuel x c :
  reachable s0 P g -> 0 <= t < tlen (thr g) -> thr_get (thr g) t = (M_READY, cur) ->
  sched (gs g) cur = (s', j, b) -> j <> c_EMPTY ->
  forestb s0 = true -> chainb s0 = true -> postb s0 = true ->
  lenZ lbusy = sn s' -> (Z.to_nat (sn s') < fuel)%nat ->
  anc s' x j -> x <> j -> st s' x <> c_DONE -> x <= c < x + sz s' x ->
  exists lbusy' bcol',
    gen_pxgstrf_mark_busy_descends j (etree s') (ptype s') (psize s') xsup supno b lbusy fuel = Some (lbusy', bcol') /\
    nthZ lbusy' c = j.
Proof.
  intros R Ht G Es Hj HF HC HP Hlen Hfuel Ax Hx Hnd Hc.
  pose proof (busy_columns_marked s0 P g t cur s' j b (fsup_of xsup supno b) x c R Ht G Es Hj HF HC HP Ax Hx Hnd Hc) as Hin.
  pose proof (pipeline_handout s0 P g t cur s' j b R Ht G Es Hj) as (Abj & _ & _ & Hall).
  destruct (Hall x Ax Hx) as [_ Hanc]. specialize (Hanc Hnd).
  pose proof (reachable_inv s0 P g R) as HI.
  destruct g as [s th]. cbn [gs thr] in *.
  pose proof (inv_call s th t cur HI Ht G s' j b Es) as (HI' & _ & FS & _ & Hpost).
  destruct (Hpost Hj) as (Lj & _ & _ & _).
  pose proof (inv_wf _ HI') as W'. cbn [gs] in W'.
  assert (FS0 : same_static s0 s').
  { destruct R as [Hc0 (ls & Hr)].
    assert (FSr : same_static s0 s) by (exact (run_static ls _ _ (init_inv s0 P Hc0) Hr)).
    exact (same_static_trans _ _ _ FSr FS). }
  destruct (static_conditions_frame s0 s' FS0) as (E1 & _ & _).
  assert (Lj' : lead s' j = true).
  { destruct FS as (En & Ee & Esz & Et). unfold lead, sz. rewrite En, Esz. exact Lj. }
  assert (Hbj : b <> j).
  { intros ->. pose proof (anc_le _ _ _ W' Ax). pose proof (anc_le _ _ _ W' Hanc). lia. }
  assert (Lb : lead s' b = true) by exact (anc_lead _ _ _ Abj Hbj).
  assert (Lx : lead s' x = true) by exact (anc_lead _ _ _ Ax Hx).
  pose proof (lead_range _ _ Lj') as [Hrj _]. pose proof (lead_range _ _ Lb) as [Hrb Hszb]. pose proof (lead_range _ _ Lx) as [Hrx _].
  pose proof (wf_fit _ W' x Lx) as Hfit.
  destruct (mark_busy_tie_entries s' j b xsup supno lbusy fuel) as (lb' & b' & Hgen & _ & _ & Hmark & _);
    [congruence | lia | lia | lia | exact Hfuel |].
  exists lb', b'. split; [exact Hgen|]. apply Hmark; [lia | exact Hin].
Qed.
