(* SymFill.v -- C16: with diagonal pivots the fill of A*Pc (permuted symmetrically) stays inside the fill of the symmetric
   matrix A^T + A, which is what cholnzcnt predicts and ?PresetMap reserves.

   Patterns are boolean matrices nat -> nat -> bool (true = structurally nonzero).  One step of Gaussian elimination
   WITHOUT row interchange (pivot k on the diagonal) adds (i,j) for i,j > k whenever (i,k) and (k,j) are present.
   The step is monotone in the pattern, the pattern of A is inside that of A^T + A, hence by induction on the number of
   eliminated columns every entry of L and U lies in the filled pattern of A^T + A (lemma fill_within_symmetric), and
   the number of entries of each L column is at most the predicted column count (lcount_le).

   elimT / lcountT are the executable versions (the pattern is tabulated after every step so that the extracted code does
   not recompute the closure chain); elimT_eq ties them to the abstract definition. *)
From Coq Require Import Arith Bool List Lia.
Import ListNotations.

Definition pat := nat -> nat -> bool.

Definition estep (k : nat) (P : pat) : pat :=
  fun i j => P i j || ((k <? i) && (k <? j) && P i k && P k j).

(* the pattern after eliminating columns 0 .. k-1 *)
Fixpoint elim (k : nat) (P : pat) : pat :=
  match k with O => P | S k' => estep k' (elim k' P) end.

Definition sub (P Q : pat) : Prop := forall i j, P i j = true -> Q i j = true.
Definition symm (P : pat) : pat := fun i j => P i j || P j i.
Definition symmetric (P : pat) : Prop := forall i j, P i j = P j i.

Lemma sub_refl P : sub P P.
Proof. intros i j H; exact H. Qed.

Lemma sub_symm P : sub P (symm P).
Proof. intros i j H. unfold symm. rewrite H. reflexivity. Qed.

Lemma symm_symmetric P : symmetric (symm P).
Proof. intros i j. unfold symm. apply orb_comm. Qed.

Lemma estep_mono k P Q : sub P Q -> sub (estep k P) (estep k Q).
Proof.
  intros H i j. unfold estep. intros E. apply orb_true_iff in E. apply orb_true_iff.
  destruct E as [E|E]; [left; apply H; exact E|].
  right. apply andb_true_iff in E. destruct E as [E E3]. apply andb_true_iff in E. destruct E as [E E2].
  rewrite E. rewrite (H _ _ E2), (H _ _ E3). reflexivity.
Qed.

Lemma elim_mono k P Q : sub P Q -> sub (elim k P) (elim k Q).
Proof. induction k as [|k IH]; intros H; cbn [elim]; [exact H|]. apply estep_mono, IH, H. Qed.

Lemma estep_symmetric k P : symmetric P -> symmetric (estep k P).
Proof.
  intros H i j. unfold estep. rewrite (H i j), (H i k), (H k j).
  destruct (P j i); cbn [orb]; [reflexivity|].
  destruct (k <? i), (k <? j), (P k i), (P j k); reflexivity.
Qed.

Lemma elim_symmetric k P : symmetric P -> symmetric (elim k P).
Proof. induction k as [|k IH]; intros H; cbn [elim]; [exact H|]. apply estep_symmetric, IH, H. Qed.

(* elimination never removes an entry *)
Lemma estep_incr k P : sub P (estep k P).
Proof. intros i j H. unfold estep. rewrite H. reflexivity. Qed.

Lemma elim_incr k P : sub P (elim k P).
Proof. induction k as [|k IH]; cbn [elim]; [apply sub_refl|]. intros i j H. apply estep_incr, IH, H. Qed.

(* the theorem: fill of A with diagonal pivots is inside the fill of A^T + A, at every stage *)
Theorem fill_within_symmetric k P : sub (elim k P) (elim k (symm P)).
Proof. apply elim_mono, sub_symm. Qed.

(* ---- column counts of L ---- *)
(* entries of column j of the lower triangle (diagonal included) among rows j .. n-1 *)
Fixpoint count_from (f : nat -> bool) (lo len : nat) : nat :=
  match len with O => 0 | S l => (if f lo then 1 else 0) + count_from f (S lo) l end.

Definition lcount (n : nat) (F : pat) (j : nat) : nat := count_from (fun i => F i j) j (n - j).

Lemma count_from_le f g lo len : (forall i, f i = true -> g i = true) -> count_from f lo len <= count_from g lo len.
Proof.
  revert lo; induction len as [|l IH]; intros lo H; cbn [count_from]; [lia|].
  specialize (IH (S lo) H). destruct (f lo) eqn:E; [rewrite (H _ E); lia|]. destruct (g lo); lia.
Qed.

Theorem lcount_le n P j : lcount n (elim n P) j <= lcount n (elim n (symm P)) j.
Proof. unfold lcount. apply count_from_le. intros i H. apply (fill_within_symmetric n P i j H). Qed.

(* ---- executable version: tabulate after each step ---- *)
Definition tab (n : nat) (P : pat) : pat :=
  let rows := map (fun i => map (fun j => P i j) (seq 0 n)) (seq 0 n) in
  fun i j => nth j (nth i rows []) false.

Lemma tab_eq n P i j : i < n -> j < n -> tab n P i j = P i j.
Proof.
  intros Hi Hj. unfold tab.
  rewrite (nth_indep _ [] (map (fun j0 => P 0 j0) (seq 0 n))) by (rewrite map_length, seq_length; exact Hi).
  change (map (fun j0 : nat => P 0 j0) (seq 0 n)) with ((fun i0 => map (fun j0 => P i0 j0) (seq 0 n)) 0).
  rewrite map_nth, seq_nth by exact Hi. cbn [plus].
  rewrite (nth_indep _ false (P i 0)) by (rewrite map_length, seq_length; exact Hj).
  change (P i 0) with ((fun j0 => P i j0) 0).
  rewrite map_nth, seq_nth by exact Hj. reflexivity.
Qed.

Fixpoint elimT (n k : nat) (P : pat) : pat :=
  match k with O => tab n P | S k' => tab n (estep k' (elimT n k' P)) end.

Lemma elimT_eq n k P : k <= n -> forall i j, i < n -> j < n -> elimT n k P i j = elim k P i j.
Proof.
  induction k as [|k IH]; intros Hk i j Hi Hj; cbn [elimT elim]; rewrite tab_eq by assumption; [reflexivity|].
  unfold estep. assert (Hkn : k < n) by lia.
  rewrite !IH by (try assumption; lia). reflexivity.
Qed.

Definition lcountT (n : nat) (P : pat) (j : nat) : nat := lcount n (elimT n n P) j.

Lemma count_from_ext f g lo len : (forall i, lo <= i < lo + len -> f i = g i) -> count_from f lo len = count_from g lo len.
Proof.
  revert lo; induction len as [|l IH]; intros lo H; cbn [count_from]; [reflexivity|].
  rewrite (H lo) by lia. rewrite (IH (S lo)) by (intros i Hi; apply H; lia). reflexivity.
Qed.

Lemma lcountT_eq n P j : j < n -> lcountT n P j = lcount n (elim n P) j.
Proof.
  intros Hj. unfold lcountT, lcount. apply count_from_ext. intros i Hi. apply elimT_eq; lia.
Qed.

(* all column counts of the symmetric prediction for a pattern given by its entries (list of (row, column)) *)
Definition pat_of (ents : list (nat * nat)) : pat :=
  fun i j => existsb (fun e => Nat.eqb (fst e) i && Nat.eqb (snd e) j) ents.

Definition sym_colcounts (n : nat) (ents : list (nat * nat)) : list nat :=
  let F := elimT n n (tab n (symm (pat_of ents))) in map (fun j => lcount n F j) (seq 0 n).

Definition lu_colcounts (n : nat) (ents : list (nat * nat)) : list nat :=
  let F := elimT n n (tab n (pat_of ents)) in map (fun j => lcount n F j) (seq 0 n).

Example sym_colcounts_ex : sym_colcounts 4 [(0,0);(1,1);(2,2);(3,3);(3,0);(0,2)] = [3; 1; 2; 1]
                        /\ lu_colcounts 4 [(0,0);(1,1);(2,2);(3,3);(3,0);(0,2)] = [2; 1; 2; 1].
Proof. vm_compute. split; reflexivity. Qed.
