(* SpblasGemvRounded.v -- rounding-error analysis of the sparse matrix-vector product model sp_gemv
   ('N', unit strides) of SpblasModel.v over the reals with an arbitrary rounding function obeying the
   standard model.

   RESULT.  SpblasProofs.gemv_rounded_full is FALSE as stated (Theorem gemv_rounded_full_false): nothing
   forbids a column that stores the same row index twice, the duplicates may cancel in denseR (making the
   right-hand side 0) while the rounded accumulation does not cancel.  Proved instead:
     gemv_rounded_partial  -- the original statement, verbatim, same constant gamma(n+2), plus ONE extra
                              hypothesis: the row indices stored within each column are pairwise distinct;
     gemv_rounded_general  -- no hypothesis on the matrix at all: constant gamma(c_i + 2) with c_i = number of
                              stored entries lying in row i (rowcnt), and sum_t |val_t| over the stored entries
                              at (i,j) (denseAbsR) in place of |a_ij|;
     gemv_chain            -- y'_i as an explicit scalar left-to-right chain (exact, no error analysis).
   No axioms beyond those of the standard library Reals. *)
Require Import List ZArith Bool Arith Lia Reals Lra.
From SLU Require Import SpblasModel SpblasProofs.
Import ListNotations.
Local Open Scope R_scope.

(* ------------------------------------------------------------------------------------------------ *)
(* 1. real analysis: gammaR                                                                         *)

Lemma frac_mono : forall a b, 0 <= a -> a <= b -> b < 1 -> a / (1 - a) <= b / (1 - b).
Proof.
  intros a b Ha Hab Hb. unfold Rdiv.
  apply Rmult_le_compat; try lra.
  - left; apply Rinv_0_lt_compat; lra.
  - apply Rinv_le_contravar; lra.
Qed.

Lemma INR_u_mono : forall u a b, 0 <= u -> (a <= b)%nat -> INR b * u < 1 -> INR a * u < 1.
Proof.
  intros u a b Hu Hab Hb. apply Rle_lt_trans with (INR b * u); auto.
  apply Rmult_le_compat_r; auto. apply le_INR; auto.
Qed.

Lemma gammaR_mono : forall j k u, 0 <= u -> (j <= k)%nat -> INR k * u < 1 -> gammaR j u <= gammaR k u.
Proof.
  intros j k u Hu Hjk Hk. unfold gammaR. apply frac_mono; auto.
  - apply Rmult_le_pos; [apply pos_INR | auto].
  - apply Rmult_le_compat_r; auto. apply le_INR; auto.
Qed.

Lemma gammaR_nonneg : forall k u, 0 <= u -> INR k * u < 1 -> 0 <= gammaR k u.
Proof.
  intros k u Hu Hk. unfold gammaR, Rdiv. apply Rmult_le_pos.
  - apply Rmult_le_pos; [apply pos_INR | auto].
  - left; apply Rinv_0_lt_compat; lra.
Qed.

Lemma gammaR_step : forall k u, 0 <= u -> INR (S k) * u < 1 -> gammaR k u * (1 + u) + u <= gammaR (S k) u.
Proof.
  intros k u Hu Hk. unfold gammaR. rewrite S_INR in *.
  assert (Ha : 0 <= INR k * u) by (apply Rmult_le_pos; [apply pos_INR | lra]).
  replace ((INR k + 1) * u) with (INR k * u + u) in * by ring.
  set (a := INR k * u) in *.
  replace (a / (1 - a) * (1 + u) + u) with ((a + u) / (1 - a)) by (field; lra).
  unfold Rdiv. apply Rmult_le_compat_l; [lra|]. apply Rinv_le_contravar; lra.
Qed.

Lemma two_round : forall u e1 e2, 0 <= u -> INR 2 * u < 1 -> Rabs e1 <= u -> Rabs e2 <= u ->
  Rabs ((1 + e1) * (1 + e2) - 1) <= gammaR 2 u.
Proof.
  intros u e1 e2 Hu H2 H1 H2'. unfold gammaR. simpl INR in *.
  apply Rle_trans with (u + u + u * u).
  - replace ((1 + e1) * (1 + e2) - 1) with (e1 + e2 + e1 * e2) by ring.
    eapply Rle_trans; [apply Rabs_triang|]. apply Rplus_le_compat.
    + eapply Rle_trans; [apply Rabs_triang|]. lra.
    + rewrite Rabs_mult. apply Rmult_le_compat; auto using Rabs_pos.
  - apply Rmult_le_reg_r with (1 - (1 + 1) * u); [lra|].
    unfold Rdiv. rewrite Rmult_assoc, Rinv_l by lra.
    assert (0 <= u * u) by (apply Rmult_le_pos; auto).
    assert (0 <= u * u * u) by (apply Rmult_le_pos; auto).
    ring_simplify. lra.
Qed.

Lemma inv_step : forall k u d s E M t t0,
  0 <= u -> (2 <= k)%nat -> INR (S k) * u < 1 -> Rabs d <= u ->
  Rabs (s - E) <= gammaR k u * M -> Rabs E <= M ->
  Rabs (t - t0) <= gammaR 2 u * Rabs t0 ->
  Rabs ((s + t) * (1 + d) - (E + t0)) <= gammaR (S k) u * (M + Rabs t0) /\ Rabs (E + t0) <= M + Rabs t0.
Proof.
  intros k u d s E M t t0 Hu Hk HSk Hd HsE HE Ht. split.
  2:{ eapply Rle_trans; [apply Rabs_triang|]. lra. }
  assert (Hku : INR k * u < 1) by (apply INR_u_mono with (S k); auto).
  assert (H3u : INR 3 * u < 1) by (apply INR_u_mono with (S k); auto; lia).
  assert (HM : 0 <= M) by (eapply Rle_trans; [apply Rabs_pos | apply HE]).
  assert (Ht0 : 0 <= Rabs t0) by apply Rabs_pos.
  assert (H1d : Rabs (1 + d) <= 1 + u).
  { eapply Rle_trans; [apply Rabs_triang|]. rewrite Rabs_R1. lra. }
  assert (Hgk : 0 <= gammaR k u) by (apply gammaR_nonneg; auto).
  assert (Hg2 : 0 <= gammaR 2 u) by (apply gammaR_nonneg; auto; apply INR_u_mono with (S k); auto; lia).
  replace ((s + t) * (1 + d) - (E + t0)) with ((s - E) * (1 + d) + (t - t0) * (1 + d) + (E + t0) * d) by ring.
  assert (A1 : Rabs ((s - E) * (1 + d)) <= gammaR k u * M * (1 + u)).
  { rewrite Rabs_mult. apply Rmult_le_compat; auto using Rabs_pos. }
  assert (A2 : Rabs ((t - t0) * (1 + d)) <= gammaR 2 u * Rabs t0 * (1 + u)).
  { rewrite Rabs_mult. apply Rmult_le_compat; auto using Rabs_pos. }
  assert (A3 : Rabs ((E + t0) * d) <= (M + Rabs t0) * u).
  { rewrite Rabs_mult. apply Rmult_le_compat; auto using Rabs_pos.
    eapply Rle_trans; [apply Rabs_triang|]. lra. }
  assert (B1 : (gammaR k u * (1 + u) + u) * M <= gammaR (S k) u * M).
  { apply Rmult_le_compat_r; auto. apply gammaR_step; auto. }
  assert (B2 : (gammaR 2 u * (1 + u) + u) * Rabs t0 <= gammaR (S k) u * Rabs t0).
  { apply Rmult_le_compat_r; auto. apply Rle_trans with (gammaR 3 u).
    - apply gammaR_step; auto.
    - apply gammaR_mono; auto. lia. }
  eapply Rle_trans; [apply Rabs_triang|].
  eapply Rle_trans; [apply Rplus_le_compat; [apply Rabs_triang | apply A3]|].
  lra.
Qed.

(* ------------------------------------------------------------------------------------------------ *)
(* 2. the value of one output component as a scalar chain                                           *)

Lemma fold_proj : forall (A : Type) (f : list R -> A -> list R) (g : R -> A -> R) (pos : nat),
  (forall y a, (pos < length y)%nat -> length (f y a) = length y /\ nth pos (f y a) 0 = g (nth pos y 0) a) ->
  forall l y, (pos < length y)%nat ->
    length (fold_left f l y) = length y /\ nth pos (fold_left f l y) 0 = fold_left g l (nth pos y 0).
Proof.
  intros A f g pos Hstep. induction l as [|a l IH]; intros y Hy; simpl; auto.
  destruct (Hstep y a Hy) as [Hl Hn].
  destruct (IH (f y a)) as [Hl' Hn']; [lia|]. split; [lia|]. rewrite Hn', Hn. reflexivity.
Qed.

Section Chain.
Variable rnd : R -> R.

Lemma getzR : forall (v : list R) a b, getz (ArR rnd) v (Z.of_nat a + Z.of_nat b) = nth (a + b) v 0.
Proof.
  intros. unfold getz. destruct (Z.ltb_spec (Z.of_nat a + Z.of_nat b) 0); [lia|].
  unfold getn. rewrite <- Nat2Z.inj_add, Nat2Z.id. reflexivity.
Qed.
Lemma updzR : forall (v : list R) a b c, updz (ArR rnd) v (Z.of_nat a + Z.of_nat b) c = upd v (a + b) c.
Proof.
  intros. unfold updz. destruct (Z.ltb_spec (Z.of_nat a + Z.of_nat b) 0); [lia|].
  rewrite <- Nat2Z.inj_add, Nat2Z.id. reflexivity.
Qed.

Variables (colptr rowind : list nat) (val x : list R) (alpha : R) (i : nat).

(* one stored entry p, seen from row i *)
Definition rowstep (temp s : R) (p : nat) : R :=
  if Nat.eqb (nget rowind p) i then rnd (s + rnd (temp * nth p val 0)) else s.
(* one column j, seen from row i *)
Definition colrow (s : R) (j : nat) : R :=
  if Req_EM_T (nth j x 0) 0 then s
  else fold_left (rowstep (rnd (alpha * nth j x 0))) (seq (nget colptr j) (nget colptr (S j) - nget colptr j)) s.
Definition scal1 (beta s : R) : R := if Req_EM_T beta 0 then 0 else rnd (beta * s).

Lemma gemv_colN_nth : forall (M N : Z) yon y j, (yon + i < length y)%nat ->
  length (gemv_colN (ArR rnd) alpha (mkCsc (ArR rnd) M N colptr rowind val) x 0 0 1 (Z.of_nat yon) y j) = length y /\
  nth (yon + i) (gemv_colN (ArR rnd) alpha (mkCsc (ArR rnd) M N colptr rowind val) x 0 0 1 (Z.of_nat yon) y j) 0
  = colrow (nth (yon + i) y 0) j.
Proof.
  intros M N yon y j Hy. unfold gemv_colN, colrow. cbn [a_colptr a_rowind a_val].
  replace (0 + (0 + Z.of_nat j * 1))%Z with (Z.of_nat 0 + Z.of_nat j)%Z by lia.
  rewrite getzR. simpl plus. cbn [eqb ArR zero mul add].
  destruct (Req_EM_T (nth j x 0) 0) as [E|E]; [split; reflexivity|].
  apply fold_proj; auto.
  intros y0 p Hy0. cbv zeta. rewrite updzR, getzR. rewrite upd_length. split; auto.
  unfold rowstep. destruct (Nat.eqb_spec (nget rowind p) i) as [->|Hne].
  - rewrite nth_upd_same by auto. unfold getn. reflexivity.
  - rewrite nth_upd_other by lia. reflexivity.
Qed.

Lemma fold_once : forall (sc : R -> R) m s,
  fold_left (fun s k => if Nat.eqb k i then sc s else s) (seq 0 m) s = if Nat.ltb i m then sc s else s.
Proof.
  intros sc m s. induction m as [|m IH].
  - reflexivity.
  - rewrite fold_left_seq_snoc, IH. simpl plus.
    destruct (Nat.eqb_spec m i) as [->|Hne].
    + rewrite Nat.ltb_irrefl. destruct (Nat.ltb_spec i (S i)); [reflexivity|lia].
    + destruct (Nat.ltb_spec i m); destruct (Nat.ltb_spec i (S m)); try lia; reflexivity.
Qed.

Lemma scal_loop_nth : forall beta m yon y, (i < m)%nat -> (yon + i < length y)%nat ->
  length (scal_loop (ArR rnd) beta m (Z.of_nat yon) 1 y) = length y /\
  nth (yon + i) (scal_loop (ArR rnd) beta m (Z.of_nat yon) 1 y) 0 = scal1 beta (nth (yon + i) y 0).
Proof.
  intros beta m yon y Hi Hy. unfold scal_loop.
  match goal with |- length ?X = _ /\ _ =>
    enough (HH : length X = length y /\
                 nth (yon + i) X 0 = fold_left (fun s k => if Nat.eqb k i then scal1 beta s else s) (seq 0 m) (nth (yon + i) y 0)) end.
  { destruct HH as [Hl Hn]. split; [exact Hl|]. rewrite Hn, fold_once. destruct (Nat.ltb_spec i m); [reflexivity|lia]. }
  apply fold_proj; auto.
  intros y0 k Hy0. cbv zeta. replace (Z.of_nat k * 1)%Z with (Z.of_nat k) by lia.
  rewrite updzR, getzR, upd_length. split; auto.
  destruct (Nat.eqb_spec k i) as [->|Hne].
  - rewrite nth_upd_same by auto. unfold scal1. cbn [eqb ArR zero mul].
    destruct (Req_EM_T beta 0); reflexivity.
  - rewrite nth_upd_other by lia. reflexivity.
Qed.

End Chain.

Definition chain (rnd : R -> R) (colptr rowind : list nat) (val x : list R) (alpha beta : R) (i n : nat) (yi : R) : R :=
  let s0 := if Req_EM_T beta 1 then yi else scal1 rnd beta yi in
  if Req_EM_T alpha 0 then s0 else fold_left (colrow rnd colptr rowind val x alpha i) (seq 0 n) s0.

Lemma gemv_chain : forall rnd (m n : nat) (colptr rowind : list nat) (val x y : list R) (alpha beta : R) (yon : nat),
  (0 < m)%nat -> (0 < n)%nat -> (yon + m <= length y)%nat ->
  exists y', sp_gemv (ArR rnd) cN alpha (mkCsc (ArR rnd) (Z.of_nat m) (Z.of_nat n) colptr rowind val) x 0 1 beta y (Z.of_nat yon) 1
             = G_ok y' /\
    forall i, (i < m)%nat -> nth (yon + i) y' 0 = chain rnd colptr rowind val x alpha beta i n (nth (yon + i) y 0).
Proof.
  intros rnd m n colptr rowind val x y alpha beta yon Hm Hn Hy.
  unfold sp_gemv. cbn [a_nrow a_ncol tchar_eqb negb andb].
  replace (Z.of_nat m <? 0)%Z with false by (symmetry; apply Z.ltb_ge; lia).
  replace (Z.of_nat n <? 0)%Z with false by (symmetry; apply Z.ltb_ge; lia).
  replace (Z.of_nat m =? 0)%Z with false by (symmetry; apply Z.eqb_neq; lia).
  replace (Z.of_nat n =? 0)%Z with false by (symmetry; apply Z.eqb_neq; lia).
  change (1 =? 0)%Z with false. change (1 =? 1)%Z with true. change (0 <? 1)%Z with true.
  rewrite !Nat2Z.id. cbn [orb eqb ArR zero one T].
  (* the scaled vector *)
  assert (Hy1 : forall i, (i < m)%nat ->
            length (if (if Req_EM_T beta 1 then true else false) then y
                    else scal_loop (ArR rnd) beta m (Z.of_nat yon) 1 y) = length y /\
            nth (yon + i) (if (if Req_EM_T beta 1 then true else false) then y
                           else scal_loop (ArR rnd) beta m (Z.of_nat yon) 1 y) 0
            = (if Req_EM_T beta 1 then nth (yon + i) y 0 else scal1 rnd beta (nth (yon + i) y 0))).
  { intros i Hi. destruct (Req_EM_T beta 1); [split; reflexivity|].
    apply scal_loop_nth; auto. change (yon + i < @length R y)%nat. lia. }
  unfold chain.
  destruct (Req_EM_T alpha 0) as [Ea|Ea].
  - destruct (Req_EM_T beta 1) as [Eb|Eb]; cbn [andb].
    + eexists; split; [reflexivity|]. intros i Hi. reflexivity.
    + eexists; split; [reflexivity|]. intros i Hi. cbv zeta.
      destruct (Hy1 i Hi) as [_ Hv]. exact Hv.
  - cbn [andb]. eexists; split; [reflexivity|]. intros i Hi. cbv zeta.
    specialize (Hy1 i Hi).
    match goal with |- nth _ (fold_left _ _ ?yy) 0 = _ => set (y1 := yy) in * end.
    destruct Hy1 as [Hl Hv].
    match goal with |- nth _ (fold_left ?F ?ll _) 0 = _ =>
      destruct (fold_proj nat F (colrow rnd colptr rowind val x alpha i) (yon + i)%nat) with (l := ll) (y := y1)
        as [_ Hc] end.
    + intros y0 j Hy0. apply gemv_colN_nth; auto.
    + change (yon + i < @length R y1)%nat. change (@length R y1 = @length R y) in Hl. lia.
    + rewrite Hc, Hv. reflexivity.
Qed.

(* ------------------------------------------------------------------------------------------------ *)
(* 3. error analysis of the chain                                                                   *)

Fixpoint cntb (f : nat -> bool) (n : nat) : nat :=
  match n with O => O | S k => (cntb f k + if f k then 1 else 0)%nat end.
Fixpoint nsum (f : nat -> nat) (n : nat) : nat :=
  match n with O => O | S k => (nsum f k + f k)%nat end.

Definition rowhit (colptr rowind : list nat) (i j t : nat) : bool := Nat.eqb (nget rowind (nget colptr j + t)) i.
(* number of stored entries of column j lying in row i *)
Definition colcnt (colptr rowind : list nat) (i j : nat) : nat :=
  cntb (rowhit colptr rowind i j) (nget colptr (S j) - nget colptr j).
(* number of stored entries of columns 0..n-1 lying in row i *)
Definition rowcnt (colptr rowind : list nat) (i n : nat) : nat := nsum (colcnt colptr rowind i) n.
(* sum of the absolute values of the stored entries at (i,j) *)
Definition denseAbsR (colptr rowind : list nat) (val : list R) (i j : nat) : R :=
  let lo := nget colptr j in
  Rsum (fun t => if Nat.eqb (nget rowind (lo + t)) i then Rabs (nth (lo + t) val 0) else 0) (nget colptr (S j) - lo).

Section Analysis.
Variables (rnd : R -> R) (u : R).
Hypothesis Hstd : std_model rnd u.
Variables (colptr rowind : list nat) (val x : list R) (alpha : R) (i : nat).

Definition Inv (k : nat) (s E M : R) : Prop :=
  (2 <= k)%nat /\ Rabs (s - E) <= gammaR k u * M /\ Rabs E <= M.

Lemma Hu0 : 0 <= u. Proof. destruct Hstd; auto. Qed.

Lemma Inv_mono : forall k k' s E M, (k <= k')%nat -> INR k' * u < 1 -> Inv k s E M -> Inv k' s E M.
Proof.
  intros k k' s E M Hk Hk' (H2 & HsE & HE). split; [lia|]. split; auto.
  eapply Rle_trans; [apply HsE|]. apply Rmult_le_compat_r.
  - eapply Rle_trans; [apply Rabs_pos | apply HE].
  - apply gammaR_mono; auto. apply Hu0.
Qed.

Lemma inner_inv : forall j temp xj, (exists e, Rabs e <= u /\ temp = alpha * xj * (1 + e)) ->
  forall T k s E M,
  INR (k + cntb (rowhit colptr rowind i j) T) * u < 1 -> Inv k s E M ->
  Inv (k + cntb (rowhit colptr rowind i j) T)
      (fold_left (rowstep rnd rowind val i temp) (seq (nget colptr j) T) s)
      (E + alpha * xj * Rsum (fun t => if Nat.eqb (nget rowind (nget colptr j + t)) i
                                       then nth (nget colptr j + t) val 0 else 0) T)
      (M + Rabs alpha * Rabs xj * Rsum (fun t => if Nat.eqb (nget rowind (nget colptr j + t)) i
                                                 then Rabs (nth (nget colptr j + t) val 0) else 0) T).
Proof.
  intros j temp xj (e & He & Htemp). pose proof Hu0 as Hu.
  induction T as [|T IH]; intros k s E M Hk HI.
  - simpl. rewrite Nat.add_0_r.
    replace (E + alpha * xj * 0) with E by ring. replace (M + Rabs alpha * Rabs xj * 0) with M by ring. exact HI.
  - rewrite fold_left_seq_snoc. cbn [cntb Rsum] in *. unfold rowstep at 1.
    unfold rowhit at 2. unfold rowhit at 2 in Hk.
    destruct (Nat.eqb (nget rowind (nget colptr j + T)) i).
    + replace (k + (cntb (rowhit colptr rowind i j) T + 1))%nat with (S (k + cntb (rowhit colptr rowind i j) T)) in * by lia.
      assert (Hk' : INR (k + cntb (rowhit colptr rowind i j) T) * u < 1) by (eapply INR_u_mono; [| |apply Hk]; auto).
      specialize (IH k s E M Hk' HI). destruct IH as (H2 & HsE & HE).
      set (v := nth (nget colptr j + T) val 0).
      destruct Hstd as [_ Hr].
      destruct (Hr (temp * v)) as (e2 & He2 & Hr2). rewrite Hr2.
      match goal with |- Inv _ (rnd ?a) _ _ => destruct (Hr a) as (d & Hd & Hrd); rewrite Hrd end.
      assert (H2u : INR 2 * u < 1) by (eapply INR_u_mono; [| |apply Hk]; auto; lia).
      destruct (inv_step _ u d _ _ _ (temp * v * (1 + e2)) (alpha * xj * v) Hu H2 Hk Hd HsE HE) as [R1 R2].
      { subst temp. replace (alpha * xj * (1 + e) * v * (1 + e2) - alpha * xj * v)
          with (alpha * xj * v * ((1 + e) * (1 + e2) - 1)) by ring.
        rewrite Rabs_mult, Rmult_comm. apply Rmult_le_compat_r; [apply Rabs_pos|]. apply two_round; auto. }
      split; [lia|].
      replace (E + alpha * xj * (Rsum (fun t => if Nat.eqb (nget rowind (nget colptr j + t)) i
                                       then nth (nget colptr j + t) val 0 else 0) T + v))
        with (E + alpha * xj * Rsum (fun t => if Nat.eqb (nget rowind (nget colptr j + t)) i
                                       then nth (nget colptr j + t) val 0 else 0) T + alpha * xj * v) by ring.
      replace (M + Rabs alpha * Rabs xj * (Rsum (fun t => if Nat.eqb (nget rowind (nget colptr j + t)) i
                                       then Rabs (nth (nget colptr j + t) val 0) else 0) T + Rabs v))
        with (M + Rabs alpha * Rabs xj * Rsum (fun t => if Nat.eqb (nget rowind (nget colptr j + t)) i
                                       then Rabs (nth (nget colptr j + t) val 0) else 0) T + Rabs (alpha * xj * v))
        by (rewrite !Rabs_mult; ring).
      split; assumption.
    + rewrite Nat.add_0_r in *. rewrite !Rplus_0_r. apply IH; auto.
Qed.

Lemma col_inv : forall j k s E M,
  INR (k + colcnt colptr rowind i j) * u < 1 -> Inv k s E M ->
  Inv (k + colcnt colptr rowind i j) (colrow rnd colptr rowind val x alpha i s j)
      (E + alpha * (denseR colptr rowind val i j * nth j x 0))
      (M + Rabs alpha * (denseAbsR colptr rowind val i j * Rabs (nth j x 0))).
Proof.
  intros j k s E M Hk HI. unfold colrow.
  destruct (Req_EM_T (nth j x 0) 0) as [E0|E0].
  - rewrite E0, Rabs_R0. 
    replace (E + alpha * (denseR colptr rowind val i j * 0)) with E by ring.
    replace (M + Rabs alpha * (denseAbsR colptr rowind val i j * 0)) with M by ring.
    eapply Inv_mono; [| |apply HI]; auto. lia.
  - destruct Hstd as [_ Hr]. destruct (Hr (alpha * nth j x 0)) as (e & He & Hre).
    pose proof (inner_inv j (rnd (alpha * nth j x 0)) (nth j x 0) (ex_intro _ e (conj He Hre))
                  (nget colptr (S j) - nget colptr j)%nat k s E M Hk HI) as HH.
    unfold denseR, denseAbsR. cbv zeta.
    match goal with |- Inv _ _ ?a ?b => replace a with (E + alpha * nth j x 0 *
        Rsum (fun t => if Nat.eqb (nget rowind (nget colptr j + t)) i then nth (nget colptr j + t) val 0 else 0)
             (nget colptr (S j) - nget colptr j)) by ring;
      replace b with (M + Rabs alpha * Rabs (nth j x 0) *
        Rsum (fun t => if Nat.eqb (nget rowind (nget colptr j + t)) i then Rabs (nth (nget colptr j + t) val 0) else 0)
             (nget colptr (S j) - nget colptr j)) by ring end.
    exact HH.
Qed.

Lemma cols_inv : forall J k s E M,
  INR (k + rowcnt colptr rowind i J) * u < 1 -> Inv k s E M ->
  Inv (k + rowcnt colptr rowind i J) (fold_left (colrow rnd colptr rowind val x alpha i) (seq 0 J) s)
      (E + alpha * Rsum (fun j => denseR colptr rowind val i j * nth j x 0) J)
      (M + Rabs alpha * Rsum (fun j => denseAbsR colptr rowind val i j * Rabs (nth j x 0)) J).
Proof.
  pose proof Hu0 as Hu.
  induction J as [|J IH]; intros k s E M Hk HI.
  - simpl. unfold rowcnt; simpl. rewrite Nat.add_0_r.
    replace (E + alpha * 0) with E by ring. replace (M + Rabs alpha * 0) with M by ring. exact HI.
  - rewrite fold_left_seq_snoc. unfold rowcnt in *. cbn [nsum Rsum] in *. simpl plus.
    rewrite Nat.add_assoc in *.
    assert (Hk' : INR (k + nsum (colcnt colptr rowind i) J) * u < 1) by (eapply INR_u_mono; [| |apply Hk]; auto; lia).
    specialize (IH k s E M Hk' HI).
    pose proof (col_inv J _ _ _ _ Hk IH) as HH.
    match goal with |- Inv _ _ ?a ?b => replace a with
       (E + alpha * Rsum (fun j => denseR colptr rowind val i j * nth j x 0) J + alpha * (denseR colptr rowind val i J * nth J x 0)) by ring;
       replace b with (M + Rabs alpha * Rsum (fun j => denseAbsR colptr rowind val i j * Rabs (nth j x 0)) J +
                         Rabs alpha * (denseAbsR colptr rowind val i J * Rabs (nth J x 0))) by ring end.
    exact HH.
Qed.

(* the whole chain *)
Lemma chain_bound : forall beta n yi N,
  (rowcnt colptr rowind i n + 2 <= N)%nat -> INR N * u < 1 ->
  Rabs (chain rnd colptr rowind val x alpha beta i n yi
        - (alpha * Rsum (fun j => denseR colptr rowind val i j * nth j x 0) n + beta * yi))
  <= gammaR N u * (Rabs alpha * Rsum (fun j => denseAbsR colptr rowind val i j * Rabs (nth j x 0)) n
                   + Rabs beta * Rabs yi).
Proof.
  intros beta n yi N HN HNu. pose proof Hu0 as Hu. destruct Hstd as [_ Hr].
  assert (H2u : INR 2 * u < 1) by (eapply INR_u_mono; [| |apply HNu]; auto; lia).
  assert (H0 : Inv 2 (if Req_EM_T beta 1 then yi else scal1 rnd beta yi) (beta * yi) (Rabs beta * Rabs yi)).
  { split; [lia|]. rewrite <- Rabs_mult. split; [|lra].
    assert (G : 0 <= gammaR 2 u * Rabs (beta * yi)).
    { apply Rmult_le_pos; [apply gammaR_nonneg; auto | apply Rabs_pos]. }
    destruct (Req_EM_T beta 1) as [->|Eb].
    - replace (yi - 1 * yi) with 0 by ring. rewrite Rabs_R0. exact G.
    - unfold scal1. destruct (Req_EM_T beta 0) as [->|Eb0].
      + replace (0 - 0 * yi) with 0 by ring. rewrite Rabs_R0. exact G.
      + destruct (Hr (beta * yi)) as (d & Hd & Hrd). rewrite Hrd.
        replace (beta * yi * (1 + d) - beta * yi) with (d * (beta * yi)) by ring.
        rewrite Rabs_mult. apply Rmult_le_compat_r; [apply Rabs_pos|].
        eapply Rle_trans; [apply Hd|]. unfold gammaR. simpl INR in *.
        apply Rmult_le_reg_r with (1 - (1 + 1) * u); [lra|].
        unfold Rdiv. rewrite Rmult_assoc, Rinv_l by lra.
        assert (0 <= u * u) by (apply Rmult_le_pos; auto). ring_simplify. lra. }
  assert (Hfin : forall K s E M, (K <= N)%nat -> Inv K s E M -> Rabs (s - E) <= gammaR N u * M).
  { intros K s E M HK HI. destruct (Inv_mono K N s E M HK HNu HI) as (_ & HH & _). exact HH. }
  unfold chain. cbv zeta.
  destruct (Req_EM_T alpha 0) as [Ea|Ea].
  - subst alpha. rewrite Rabs_R0.
    match goal with |- Rabs (_ - ?a) <= _ * ?b => replace a with (beta * yi) by ring;
      replace b with (Rabs beta * Rabs yi) by ring end.
    apply (Hfin 2%nat); auto. lia.
  - assert (Hk : INR (2 + rowcnt colptr rowind i n) * u < 1) by (eapply INR_u_mono; [| |apply HNu]; auto; lia).
    pose proof (cols_inv n 2 _ _ _ Hk H0) as HH.
    match goal with |- Rabs (_ - ?a) <= _ * ?b =>
      replace a with (beta * yi + alpha * Rsum (fun j => denseR colptr rowind val i j * nth j x 0) n) by ring;
      replace b with (Rabs beta * Rabs yi + Rabs alpha * Rsum (fun j => denseAbsR colptr rowind val i j * Rabs (nth j x 0)) n) by ring end.
    eapply Hfin; [|exact HH]. lia.
Qed.

End Analysis.

(* ------------------------------------------------------------------------------------------------ *)
(* 4. the general theorem: no structural hypothesis on the matrix.  The constant counts the stored   *)
(*    entries of row i (duplicates included) and the bound uses the sum of the absolute values of    *)
(*    the stored entries at (i,j) instead of |a_ij|.                                                 *)

Theorem gemv_rounded_general :
  forall rnd u, std_model rnd u ->
  forall (m n : nat) (colptr rowind : list nat) (val x y : list R) (alpha beta : R) (yon : nat),
    (0 < m)%nat -> (0 < n)%nat -> (yon + m <= length y)%nat ->
    exists y', sp_gemv (ArR rnd) cN alpha (mkCsc (ArR rnd) (Z.of_nat m) (Z.of_nat n) colptr rowind val) x 0 1 beta y (Z.of_nat yon) 1
               = G_ok y' /\
      forall i, (i < m)%nat -> INR (rowcnt colptr rowind i n + 2) * u < 1 ->
        Rabs (nth (yon + i) y' 0 - (alpha * Rsum (fun j => denseR colptr rowind val i j * nth j x 0) n + beta * nth (yon + i) y 0))
        <= gammaR (rowcnt colptr rowind i n + 2) u *
             (Rabs alpha * Rsum (fun j => denseAbsR colptr rowind val i j * Rabs (nth j x 0)) n
              + Rabs beta * Rabs (nth (yon + i) y 0)).
Proof.
  intros rnd u Hstd m n colptr rowind val x y alpha beta yon Hm Hn Hy.
  destruct (gemv_chain rnd m n colptr rowind val x y alpha beta yon Hm Hn Hy) as (y' & Hy' & Hc).
  exists y'. split; [exact Hy'|]. intros i Hi Hu. rewrite (Hc i Hi).
  apply chain_bound; auto.
Qed.

(* ------------------------------------------------------------------------------------------------ *)
(* 5. distinct row indices within each column                                                       *)

Lemma cntb_0 : forall f T, (forall t, (t < T)%nat -> f t = false) -> cntb f T = O.
Proof.
  induction T as [|T IH]; intros H; simpl; auto. rewrite IH by (intros; apply H; lia). rewrite H by lia. reflexivity.
Qed.

Lemma cntb_le1 : forall f T,
  (forall t1 t2, (t1 < T)%nat -> (t2 < T)%nat -> f t1 = true -> f t2 = true -> t1 = t2) -> (cntb f T <= 1)%nat.
Proof.
  induction T as [|T IH]; intros H; simpl; auto.
  destruct (f T) eqn:EfT.
  - rewrite cntb_0; [lia|]. intros t Ht. destruct (f t) eqn:Eft; auto.
    assert (t = T) by (apply H; auto; lia). lia.
  - rewrite Nat.add_0_r. apply IH. intros; apply H; auto; lia.
Qed.

Lemma Rsum_0 : forall f T, (forall t, (t < T)%nat -> f t = 0) -> Rsum f T = 0.
Proof.
  induction T as [|T IH]; intros H; simpl; auto. rewrite IH by (intros; apply H; lia). rewrite H by lia. ring.
Qed.

Lemma Rsum_ext : forall f g T, (forall t, (t < T)%nat -> f t = g t) -> Rsum f T = Rsum g T.
Proof.
  induction T as [|T IH]; intros H; simpl; auto. rewrite IH by (intros; apply H; lia). rewrite H by lia. reflexivity.
Qed.

Lemma Rsum_abs_single : forall (f : nat -> bool) (v : nat -> R) T,
  (forall t1 t2, (t1 < T)%nat -> (t2 < T)%nat -> f t1 = true -> f t2 = true -> t1 = t2) ->
  Rsum (fun t => if f t then Rabs (v t) else 0) T = Rabs (Rsum (fun t => if f t then v t else 0) T).
Proof.
  induction T as [|T IH]; intros H; simpl.
  - rewrite Rabs_R0; reflexivity.
  - destruct (f T) eqn:EfT.
    + assert (Hz : forall t, (t < T)%nat -> f t = false).
      { intros t Ht. destruct (f t) eqn:Eft; auto. assert (t = T) by (apply H; auto; lia). lia. }
      rewrite !Rsum_0; [rewrite !Rplus_0_l; reflexivity| |]; intros t Ht; rewrite Hz; auto.
    + rewrite !Rplus_0_r. apply IH. intros; apply H; auto; lia.
Qed.

Lemma nsum_le : forall f n, (forall j, (j < n)%nat -> (f j <= 1)%nat) -> (nsum f n <= n)%nat.
Proof.
  induction n as [|n IH]; intros H; simpl; auto.
  assert (nsum f n <= n)%nat by (apply IH; intros; apply H; lia). assert (f n <= 1)%nat by (apply H; lia). lia.
Qed.

(* gemv_rounded_full is FALSE as stated (see gemv_rounded_full_false below): it lacks the hypothesis that the
   row indices stored within one column are pairwise distinct.  With that single extra hypothesis (the last one
   before the conclusion) the statement holds verbatim, with the same constant gamma(n+2).
   (The row-range hypothesis of the original statement is kept for fidelity; the proof does not use it.) *)
Definition gemv_rounded_partial_stmt : Prop :=
  forall rnd u, std_model rnd u ->
  forall (m n : nat) (colptr rowind : list nat) (val x y : list R) (alpha beta : R) (yon : nat),
    (0 < m)%nat -> (0 < n)%nat -> INR (n + 2) * u < 1 ->
    (forall j t, (j < n)%nat -> (t < nget colptr (S j) - nget colptr j)%nat -> (nget rowind (nget colptr j + t) < m)%nat) ->
    (yon + m <= length y)%nat ->
    (* EXTRA: no duplicate row index within a column *)
    (forall j t1 t2, (j < n)%nat -> (t1 < nget colptr (S j) - nget colptr j)%nat -> (t2 < nget colptr (S j) - nget colptr j)%nat ->
       nget rowind (nget colptr j + t1) = nget rowind (nget colptr j + t2) -> t1 = t2) ->
    exists y', sp_gemv (ArR rnd) cN alpha (mkCsc (ArR rnd) (Z.of_nat m) (Z.of_nat n) colptr rowind val) x 0 1 beta y (Z.of_nat yon) 1
               = G_ok y' /\
      forall i, (i < m)%nat ->
        Rabs (nth (yon + i) y' 0 - (alpha * Rsum (fun j => denseR colptr rowind val i j * nth j x 0) n + beta * nth (yon + i) y 0))
        <= gammaR (n + 2) u * (Rabs alpha * Rsum (fun j => Rabs (denseR colptr rowind val i j) * Rabs (nth j x 0)) n
                               + Rabs beta * Rabs (nth (yon + i) y 0)).

Theorem gemv_rounded_partial : gemv_rounded_partial_stmt.
Proof.
  intros rnd u Hstd m n colptr rowind val x y alpha beta yon Hm Hn Hnu _ Hy Hdist.
  destruct (gemv_chain rnd m n colptr rowind val x y alpha beta yon Hm Hn Hy) as (y' & Hy' & Hc).
  exists y'. split; [exact Hy'|]. intros i Hi. rewrite (Hc i Hi).
  assert (Hd : forall j t1 t2, (j < n)%nat -> (t1 < nget colptr (S j) - nget colptr j)%nat ->
             (t2 < nget colptr (S j) - nget colptr j)%nat ->
             rowhit colptr rowind i j t1 = true -> rowhit colptr rowind i j t2 = true -> t1 = t2).
  { intros j t1 t2 Hj H1 H2 E1 E2. unfold rowhit in *. apply Nat.eqb_eq in E1, E2. apply (Hdist j); auto. congruence. }
  assert (Hcnt : (rowcnt colptr rowind i n <= n)%nat).
  { unfold rowcnt. apply nsum_le. intros j Hj. unfold colcnt. apply cntb_le1. intros; apply (Hd j); auto. }
  assert (Habs : Rsum (fun j => denseAbsR colptr rowind val i j * Rabs (nth j x 0)) n
                 = Rsum (fun j => Rabs (denseR colptr rowind val i j) * Rabs (nth j x 0)) n).
  { apply Rsum_ext. intros j Hj. f_equal. unfold denseAbsR, denseR. cbv zeta.
    apply (Rsum_abs_single (rowhit colptr rowind i j) (fun t => nth (nget colptr j + t) val 0)).
    intros; apply (Hd j); auto. }
  rewrite <- Habs. apply chain_bound; auto. lia.
Qed.

(* ------------------------------------------------------------------------------------------------ *)
(* 6. the original statement is false: a column may store the same row index twice.                  *)
(*    Witness: m = n = 1, colptr = [0;2], rowind = [0;0], val = [3;-3] (so a_00 = 3 + -3 = 0),       *)
(*    x = [1], y = [0], alpha = beta = 1, u = 1/8, rnd 3 = 3(1+1/8) and rnd z = z otherwise.         *)
(*    The model returns y' = [3/8] while the right-hand side of the bound is 0.                      *)

Definition wrnd (z : R) : R := if Req_EM_T z 3 then 27 / 8 else z.

Lemma wrnd_std : std_model wrnd (1 / 8).
Proof.
  split; [lra|]. intros z. unfold wrnd. destruct (Req_EM_T z 3) as [->|Hne].
  - exists (1 / 8). split; [rewrite Rabs_right; lra | lra].
  - exists 0. split; [rewrite Rabs_R0; lra | ring].
Qed.

Lemma wrnd_ne : forall z, z <> 3 -> wrnd z = z.
Proof. intros z Hz. unfold wrnd. destruct (Req_EM_T z 3); [contradiction | reflexivity]. Qed.
Lemma wrnd_3 : wrnd 3 = 27 / 8.
Proof. unfold wrnd. destruct (Req_EM_T 3 3); [reflexivity | contradiction]. Qed.

Lemma witness_val : chain wrnd [0; 2]%nat [0; 0]%nat [3; -3] [1] 1 1 0 1 0 = 3 / 8.
Proof.
  unfold chain, colrow, rowstep, scal1. cbn [seq fold_left nget nth Nat.eqb Nat.sub Nat.add].
  destruct (Req_EM_T 1 1) as [_|Hn]; [|contradiction Hn; reflexivity].
  destruct (Req_EM_T 1 0) as [Hn|_]; [lra|].
  replace (1 * 1) with 1 by ring. rewrite (wrnd_ne 1) by lra.
  replace (1 * 3) with 3 by ring. rewrite wrnd_3.
  replace (0 + 27 / 8) with (27 / 8) by ring. rewrite (wrnd_ne (27 / 8)) by lra.
  replace (1 * -3) with (-3) by ring. rewrite (wrnd_ne (-3)) by lra.
  replace (27 / 8 + -3) with (3 / 8) by lra. apply wrnd_ne. lra.
Qed.

Theorem gemv_rounded_full_false : ~ gemv_rounded_full.
Proof.
  intros H.
  destruct (H wrnd (1 / 8) wrnd_std 1%nat 1%nat [0; 2]%nat [0; 0]%nat [3; -3] [1] [0] 1 1 0%nat) as (y' & Hy' & Hb).
  - lia.
  - lia.
  - simpl. lra.
  - intros j t Hj Ht. destruct j as [|j]; [|lia]. unfold nget in *. simpl in Ht.
    destruct t as [|[|t]]; [simpl; lia | simpl; lia | lia].
  - simpl. lia.
  - destruct (gemv_chain wrnd 1 1 [0; 2]%nat [0; 0]%nat [3; -3] [1] [0] 1 1 0) as (y'' & Hy'' & Hc);
      [lia | lia | simpl; lia |].
    rewrite Hy' in Hy''. injection Hy'' as <-.
    specialize (Hb 0%nat ltac:(lia)). specialize (Hc 0%nat ltac:(lia)).
    rewrite Hc in Hb. cbn [nth Nat.add] in Hb. rewrite witness_val in Hb.
    assert (Hd : denseR [0; 2]%nat [0; 0]%nat [3; -3] 0 0 = 0).
    { unfold denseR. cbn [nget nth Nat.sub Nat.add Nat.eqb Rsum]. ring. }
    cbn [Rsum nth] in Hb. rewrite Hd in Hb.
    match type of Hb with _ <= ?b => replace b with 0 in Hb by (rewrite Rabs_R0; ring) end.
    match type of Hb with Rabs ?a <= _ => replace a with (3 / 8) in Hb by ring end.
    rewrite Rabs_right in Hb; lra.
Qed.

Print Assumptions gemv_rounded_general.
Print Assumptions gemv_rounded_partial.
Print Assumptions gemv_rounded_full_false.
