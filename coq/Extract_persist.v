(* Extraction of the Persist model (C08, C18) -- ExtrOcamlBasic only, no Extract Constant *)
Require Import Extraction ExtrOcamlBasic.
From SLU Require Import PersistModel.
Extraction "persist_model.ml" pstep pobserve proc0 sess0 pstate0 step run observe pivotL eliminate estimate temp_space memory_use.
