(* ColRelease.v -- column-level release protocol of p?gstrf_thread / p?gstrf_panel_bmod (property C03).

   State: per column, whether the scheduler has handed it out (taken: spin_locks[c] was set to 1 in pxgstrf_scheduler),
   whether the flag is still set (lck), whether the call that makes it final (p?gstrf_pivotL / p?gstrf_factor_snode) has
   returned (fin); plus the history of columns consumed by panel updates (rd, newest first, with the fin flag seen then).
   Operations and their guards are those of the code:
     Take cs    the scheduler hands out the columns cs of one panel (each panel once: c03_each_panel_at_most_once)
     Final c    pivotL / factor_snode of column c returns
     Release c  spin_locks[c] = 0 -- in the thread loop this store FOLLOWS pivotL / factor_snode (guard fin; audited on the
                current source by hook_audit of checks/c03.py on every run)
     Read c     a panel update consumes column c: only columns of panels already handed out (c03_pipeline_handout: every
                proper descendant is DONE or BUSY) and only once the flag is clear (await; trace monitor)
   Proofs are kept here; Properties_C03.v restates the theorems. *)
From Coq Require Import List Arith Bool Lia.
Import ListNotations.

Record cst := { taken : nat -> bool; lck : nat -> bool; fin : nat -> bool; rd : list (nat * bool) }.

Inductive cop := Take (cs : list nat) | Final (c : nat) | Release (c : nat) | Read (c : nat).

Definition upd (f : nat -> bool) (c : nat) (v : bool) : nat -> bool := fun x => if Nat.eqb x c then v else f x.
Definition mem (cs : list nat) (x : nat) : bool := existsb (Nat.eqb x) cs.

Definition cinit : cst := {| taken := fun _ => false; lck := fun _ => false; fin := fun _ => false; rd := [] |}.

(* guarded: whether Release demands fin (the code as it is) or not (the order a change could introduce) *)
Definition cstep (guarded : bool) (s : cst) (o : cop) : option cst :=
  match o with
  | Take cs => if existsb (taken s) cs then None
               else Some {| taken := fun x => mem cs x || taken s x; lck := fun x => mem cs x || lck s x;
                            fin := fin s; rd := rd s |}
  | Final c => if taken s c && lck s c
               then Some {| taken := taken s; lck := lck s; fin := upd (fin s) c true; rd := rd s |} else None
  | Release c => if taken s c && (negb guarded || fin s c)
                 then Some {| taken := taken s; lck := upd (lck s) c false; fin := fin s; rd := rd s |} else None
  | Read c => if taken s c && negb (lck s c)
              then Some {| taken := taken s; lck := lck s; fin := fin s; rd := (c, fin s c) :: rd s |} else None
  end.

Fixpoint crun (guarded : bool) (s : cst) (os : list cop) : option cst :=
  match os with
  | [] => Some s
  | o :: os' => match cstep guarded s o with Some s' => crun guarded s' os' | None => None end
  end.

(* the invariant: a handed-out column whose flag is clear is final; every column consumed so far was final when consumed *)
Definition CInv (s : cst) : Prop :=
  (forall c, taken s c = true -> lck s c = false -> fin s c = true) /\
  Forall (fun p => snd p = true) (rd s).

Lemma cinv_init : CInv cinit.
Proof. split; [intros c H; discriminate H | constructor]. Qed.

Lemma cinv_step s o s' : CInv s -> cstep true s o = Some s' -> CInv s'.
Proof.
  intros [Ha Hb] Hs. destruct o as [cs | c | c | c]; cbn [cstep] in Hs.
  - destruct (existsb (taken s) cs) eqn:Hex; [discriminate|]. injection Hs as <-. split; cbn; [|exact Hb].
    intros c Ht Hl. apply orb_false_elim in Hl as [Hm Hl]. rewrite Hm in Ht. cbn in Ht. auto.
  - destruct (taken s c && lck s c) eqn:Hg; [|discriminate]. injection Hs as <-. split; cbn; [|exact Hb].
    intros x Ht Hl. unfold upd. destruct (Nat.eqb x c); auto.
  - cbn [negb orb] in Hs.
    destruct (taken s c && fin s c) eqn:Hg; [|discriminate]. injection Hs as <-. split; cbn; [|exact Hb].
    apply andb_prop in Hg as [_ Hf]. intros x Ht Hl. unfold upd in Hl.
    destruct (Nat.eqb x c) eqn:He; [apply Nat.eqb_eq in He; subst x; exact Hf | auto].
  - destruct (taken s c && negb (lck s c)) eqn:Hg; [|discriminate]. injection Hs as <-. split; cbn; [exact Ha|].
    apply andb_prop in Hg as [Ht Hl]. apply Bool.negb_true_iff in Hl. constructor; [cbn; auto | exact Hb].
Qed.

Lemma cinv_run os : forall s s', CInv s -> crun true s os = Some s' -> CInv s'.
Proof.
  induction os as [|o os IH]; intros s s' Hi Hr; cbn [crun] in Hr.
  - injection Hr as <-. exact Hi.
  - destruct (cstep true s o) as [s1|] eqn:Hs; [|discriminate]. eapply IH; [eapply cinv_step; eauto | exact Hr].
Qed.

(* every execution of the guarded protocol, of any length, in any interleaving of any number of owners and readers:
   each column a panel update consumed was final at the moment it was consumed *)
Lemma reads_are_final os s' : crun true cinit os = Some s' -> Forall (fun p => snd p = true) (rd s').
Proof. intros Hr. exact (proj2 (cinv_run os cinit s' cinv_init Hr)). Qed.

(* finality is never taken back, so the consumed columns are still final at the end *)
Lemma fin_mono_step g s o s' c : cstep g s o = Some s' -> fin s c = true -> fin s' c = true.
Proof.
  intros Hs Hf. destruct o as [cs | c0 | c0 | c0]; cbn [cstep] in Hs;
  match type of Hs with (if ?b then _ else _) = _ => destruct b; try discriminate end; injection Hs as <-; cbn; auto.
  unfold upd. destruct (Nat.eqb c c0); auto.
Qed.

(* without the guard on Release (the flag cleared before pivotL returns) the statement is false: a three-step witness *)
Lemma unguarded_release_refuted :
  exists os s', crun false cinit os = Some s' /\ ~ Forall (fun p => snd p = true) (rd s').
Proof.
  exists [Take [0]; Release 0; Read 0]. eexists. split; [vm_compute; reflexivity|].
  cbn. intros H. inversion H as [|p l Hp Hl]; subst. cbn in Hp. discriminate Hp.
Qed.

(* non-vacuity: a run of the guarded protocol in which a pipelined reader consumes a column another worker finished *)
Example guarded_run_reads :
  exists s', crun true cinit [Take [0; 1]; Take [2]; Final 0; Release 0; Read 0; Final 1; Release 1; Read 1] = Some s'
             /\ map fst (rd s') = [1; 0].
Proof. eexists. split; [vm_compute; reflexivity | reflexivity]. Qed.
