From Coq Require Import ZArith List Bool PeanoNat Permutation.
From SLU Require Import LedgerModel LedgerProofs.
Import ListNotations.
Local Open Scope Z_scope.

(* the executable ledger check decides balancedness (w.r.t. the state the call starts in and the set of blocks
   reachable from what it hands back) *)
Theorem check_balanced_sound_complete :
  forall (st : lstate) (ret : list nat) (h : history),
    check_balanced_from st ret h = true <-> balanced_from st ret h.
Proof. exact check_balanced_from_spec. Qed.
Print Assumptions check_balanced_sound_complete.

(* any sequence of balanced calls, each followed by the destroy of what it handed back, ends with the live
   blocks, the thread count and the handle count of the beginning; live bytes are equal for every size map *)
Theorem balanced_compose :
  forall (calls : list (history * list nat)) (st : lstate),
    NoDup (live st) -> all_balanced st calls ->
    exists st', run_calls st calls = Some st' /\ Permutation (live st') (live st) /\
                threads st' = threads st /\ handles st' = handles st /\
                forall sz, live_bytes sz st' = live_bytes sz st.
Proof. exact balanced_compose_lemma. Qed.
Print Assumptions balanced_compose.

(* hence repeating a call any number of times does not grow memory *)
Theorem repetition_does_not_grow :
  forall (k : nat) (h : history) (ret : list nat) (st : lstate) (sz : nat -> Z),
    NoDup (live st) -> (forall s', equiv_state s' st -> balanced_from s' ret h) ->
    exists st', run_calls st (repeat_calls k (h, ret)) = Some st' /\
                live_bytes sz st' = live_bytes sz st /\ length (live st') = length (live st) /\
                threads st' = threads st /\ handles st' = handles st.
Proof. exact repetition_lemma. Qed.
Print Assumptions repetition_does_not_grow.
