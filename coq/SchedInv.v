(* SchedInv.v -- the invariant of the scheduler/thread-loop model and its executable initial check *)
From Coq Require Import ZArith List Bool Lia.
From SLU Require Import Consts SchedModel SchedBase.
Import ListNotations.
Local Open Scope Z_scope.

Ltac cs := unfold c_DONE, c_BUSY, c_CANGO, c_CANPIPE, c_UNREADY, c_EMPTY, ERR, c_REGULAR_PANEL, c_RELAXED_SNODE,
                  M_WORK, M_TEST, M_READY, M_EXIT in *.

Definition kid (s : sstate) (p c : Z) : bool := lead s c && (dadpanel s c =? p).
Definition heldb (th : list (Z * Z)) (p : Z) : bool := existsb (fun mc => snd mc =? p) th.
Definition unrep (s : sstate) (th : list (Z * Z)) (c : Z) : bool := (c_BUSY <? st s c) || heldb th c.
Definition ukspec (s : sstate) (th : list (Z * Z)) (p : Z) : Z :=
  countb (fun c => kid s p c && unrep s th c) (cols (sn s)).
Definition untaken (s : sstate) (p : Z) : bool := lead s p && (c_BUSY <? st s p).
Definition tasks_spec (s : sstate) : Z := countb (untaken s) (cols (sn s)).
Definition tlen (th : list (Z * Z)) : Z := Z.of_nat (length th).
Definition regular (s : sstate) (p : Z) : Prop := nthZ (ptype s) p = c_REGULAR_PANEL.
Definition relaxed (s : sstate) (p : Z) : Prop := nthZ (ptype s) p = c_RELAXED_SNODE.

(* ---- static structure: established by ParallelInit, never changed afterwards ---- *)
Record WF (s : sstate) : Prop := {
  wf_n : 1 <= sn s;
  wf_et : lenZ (etree s) = sn s;
  wf_sz : lenZ (psize s) = sn s + 1;
  wf_tp : lenZ (ptype s) = sn s + 1;
  wf_fit : forall p, lead s p = true -> p + sz s p <= sn s;
  wf_dad : forall p, lead s p = true -> p < dadpanel s p <= sn s;
  wf_dadlead : forall p, lead s p = true -> dadpanel s p < sn s ->
               lead s (dadpanel s p) = true /\ regular s (dadpanel s p);
  wf_types : forall p, lead s p = true -> regular s p \/ relaxed s p
}.

Definition check_wf (s : sstate) : bool :=
  (1 <=? sn s) && (lenZ (etree s) =? sn s) && (lenZ (psize s) =? sn s + 1) && (lenZ (ptype s) =? sn s + 1) &&
  forallb (fun p => negb (lead s p) ||
                    ((p + sz s p <=? sn s) && (p <? dadpanel s p) && (dadpanel s p <=? sn s) &&
                     ((sn s <=? dadpanel s p) || (lead s (dadpanel s p) && (nthZ (ptype s) (dadpanel s p) =? c_REGULAR_PANEL))) &&
                     ((nthZ (ptype s) p =? c_REGULAR_PANEL) || (nthZ (ptype s) p =? c_RELAXED_SNODE))))
          (cols (sn s)).

Lemma lead_range s p : lead s p = true -> 0 <= p < sn s /\ 1 <= sz s p.
Proof. unfold lead; rewrite andb_true_iff, inb_true, Z.leb_le; tauto. Qed.

Lemma check_wf_sound s : check_wf s = true -> WF s.
Proof.
  unfold check_wf; rewrite !andb_true_iff, forallb_forall.
  intros ((((Hn & He) & Hs) & Ht) & Hall).
  apply Z.leb_le in Hn. apply Z.eqb_eq in He, Hs, Ht.
  assert (H : forall p, lead s p = true ->
             p + sz s p <= sn s /\ p < dadpanel s p <= sn s /\
             (dadpanel s p < sn s -> lead s (dadpanel s p) = true /\ regular s (dadpanel s p)) /\
             (regular s p \/ relaxed s p)).
  { intros p Hp. pose proof (lead_range _ _ Hp) as [Hr _].
    specialize (Hall p (proj2 (in_cols _ _) Hr)). rewrite Hp in Hall. cbn [negb orb] in Hall.
    rewrite !andb_true_iff, !orb_true_iff, !andb_true_iff in Hall.
    destruct Hall as ((((A & B) & C) & D) & E).
    apply Z.leb_le in A, C. apply Z.ltb_lt in B.
    split; [lia|]. split; [lia|]. split.
    - intros Hlt. destruct D as [D|[D1 D2]]; [apply Z.leb_le in D; lia|].
      split; auto. apply Z.eqb_eq in D2; exact D2.
    - unfold regular, relaxed. rewrite !Z.eqb_eq in E. exact E. }
  constructor; auto; intros p Hp; destruct (H p Hp) as (A & B & C & D); auto.
Qed.

(* ---- dynamic invariant ---- *)
Section INV.
Variable g : gstate.
Let s := gs g.
Let th := thr g.

Definition I_len : Prop :=
  lenZ (pstate s) = sn s + 1 /\ lenZ (pukids s) = sn s + 1 /\ lenZ (fb s) = sn s + 1 /\
  lenZ (q s) = sn s /\ lenZ (spin s) = sn s.

Definition I_states : Prop :=
  st s (sn s) = c_UNREADY /\
  forall p, lead s p = true ->
    (regular s p -> st s p = c_UNREADY \/ st s p = c_CANPIPE \/ st s p = c_BUSY \/ st s p = c_DONE) /\
    (relaxed s p -> st s p = c_CANGO \/ st s p = c_BUSY \/ st s p = c_DONE).

Definition I_threads : Prop :=
  (forall t, 0 <= t < tlen th ->
     let '(m, c) := thr_get th t in
     (m = M_WORK \/ m = M_TEST \/ m = M_READY \/ m = M_EXIT) /\
     (m = M_WORK -> lead s c = true /\ st s c = c_BUSY) /\
     (m <> M_WORK -> c = c_EMPTY \/ (lead s c = true /\ st s c = c_DONE))) /\
  (forall t1 t2, 0 <= t1 < tlen th -> 0 <= t2 < tlen th -> t1 <> t2 ->
     snd (thr_get th t1) = snd (thr_get th t2) -> snd (thr_get th t1) = c_EMPTY) /\
  (forall p, lead s p = true -> st s p = c_BUSY -> exists t, 0 <= t < tlen th /\ thr_get th t = (M_WORK, p)).

Definition I_ukids : Prop :=
  forall p, lead s p = true \/ p = sn s -> uk s p = ukspec s th p.

(* a panel that is CANPIPE, BUSY or DONE has all children taken and at most one of them not DONE *)
Definition I_J : Prop :=
  forall p, lead s p = true -> st s p <= c_CANPIPE ->
    (forall c, kid s p c = true -> st s c <= c_BUSY) /\
    (forall c1 c2, kid s p c1 = true -> kid s p c2 = true -> st s c1 <> c_DONE -> st s c2 <> c_DONE -> c1 = c2).

Definition I_D : Prop :=
  forall p, lead s p = true -> st s p = c_DONE -> forall c, kid s p c = true -> st s c = c_DONE.

Definition I_queue : Prop :=
  0 <= qhead s <= qtail s /\ qcount s = qtail s - qhead s /\ qtail s <= sn s /\
  NoDup (firstn (Z.to_nat (qtail s)) (q s)) /\
  (forall i, 0 <= i < qtail s -> lead s (nthZ (q s) i) = true /\
                                 (regular s (nthZ (q s) i) -> st s (nthZ (q s) i) <= c_CANPIPE)) /\
  (forall p, lead s p = true -> st s p = c_CANGO \/ st s p = c_CANPIPE ->
             exists i, qhead s <= i < qtail s /\ nthZ (q s) i = p).

(* an untaken regular panel still has an unreported child (otherwise the reporting thread took it) *)
Definition I_ready : Prop :=
  forall p, lead s p = true -> regular s p -> c_BUSY < st s p -> 1 <= uk s p.

Definition I_tasks : Prop := tasks s = tasks_spec s.

(* the dummy root always keeps an unreported child that no calling thread is about to report *)
Definition I_root : Prop :=
  (0 < tasks s -> exists r, kid s (sn s) r = true /\ c_BUSY < st s r) /\
  (tasks s <= 0 -> exists r t, kid s (sn s) r = true /\ 0 <= t < tlen th /\
                              snd (thr_get th t) = r /\ fst (thr_get th t) <> M_READY).

Definition I_fb0 : Prop :=
  forall p, lead s p = true -> lead s (nthZ (fb s) p) = true \/ nthZ (fb s) p = sn s.

(* the two clauses that are temporarily false, inside one scheduler call, for the panel e being taken *)
Definition I_queue_x (e : Z) : Prop :=
  0 <= qhead s <= qtail s /\ qcount s = qtail s - qhead s /\ qtail s <= sn s /\
  NoDup (firstn (Z.to_nat (qtail s)) (q s)) /\
  (forall i, 0 <= i < qtail s -> lead s (nthZ (q s) i) = true /\
                                 (regular s (nthZ (q s) i) -> st s (nthZ (q s) i) <= c_CANPIPE)) /\
  (forall p, p <> e -> lead s p = true -> st s p = c_CANGO \/ st s p = c_CANPIPE ->
             exists i, qhead s <= i < qtail s /\ nthZ (q s) i = p).
Definition I_ready_x (e : Z) : Prop :=
  forall p, p <> e -> lead s p = true -> regular s p -> c_BUSY < st s p -> 1 <= uk s p.

Record InvX (e : Z) : Prop := {
  ix_wf : WF s; ix_len : I_len; ix_states : I_states; ix_threads : I_threads; ix_ukids : I_ukids;
  ix_J : I_J; ix_D : I_D; ix_queue : I_queue_x e; ix_ready : I_ready_x e; ix_tasks : I_tasks;
  ix_root : I_root; ix_fb0 : I_fb0
}.

Record Inv : Prop := {
  inv_wf : WF s; inv_len : I_len; inv_states : I_states; inv_threads : I_threads; inv_ukids : I_ukids;
  inv_J : I_J; inv_D : I_D; inv_queue : I_queue; inv_ready : I_ready; inv_tasks : I_tasks;
  inv_root : I_root; inv_fb0 : I_fb0
}.
End INV.

(* ---- executable check of the initial state produced by ParallelInit ---- *)
Definition check_init (s : sstate) : bool :=
  check_wf s &&
  (lenZ (pstate s) =? sn s + 1) && (lenZ (pukids s) =? sn s + 1) && (lenZ (fb s) =? sn s + 1) &&
  (lenZ (q s) =? sn s) && (lenZ (spin s) =? sn s) &&
  (st s (sn s) =? c_UNREADY) &&
  forallb (fun p => negb (lead s p) ||
             ((if nthZ (ptype s) p =? c_REGULAR_PANEL then (st s p =? c_UNREADY) && (1 <=? uk s p)
               else (st s p =? c_CANGO)) &&
              (uk s p =? countb (kid s p) (cols (sn s))) &&
              (nthZ (fb s) p =? p) &&
              (negb (st s p =? c_CANGO) || existsb (fun i => nthZ (q s) i =? p) (cols (qtail s)))))
          (cols (sn s)) &&
  (uk s (sn s) =? countb (kid s (sn s)) (cols (sn s))) &&
  (qhead s =? 0) && (0 <=? qtail s) && (qtail s <=? sn s) && (qcount s =? qtail s) &&
  forallb (fun i => lead s (nthZ (q s) i) && (nthZ (ptype s) (nthZ (q s) i) =? c_RELAXED_SNODE)) (cols (qtail s)) &&
  forallb (fun i => forallb (fun k => (k <=? i) || negb (nthZ (q s) i =? nthZ (q s) k)) (cols (qtail s))) (cols (qtail s)) &&
  (tasks s =? tasks_spec s) && (1 <=? tasks s).
