From Coq Require Import ZArith List Bool Lia.
From SLU Require Import SchedModel SchedBase AllocModel.
Import ListNotations.
Local Open Scope Z_scope.

(* blocks handed out by the locked bump allocator are inside [start, max), pairwise disjoint and consecutive;
   a request that does not fit takes the abort path and hands out nothing *)
Definition blocks_ok (lo hi : Z) (l : list (Z * Z)) : Prop :=
  forall b, In b l -> lo <= fst b /\ fst b <= snd b /\ snd b <= hi.
Fixpoint consecutive (start : Z) (l : list (Z * Z)) : Prop :=
  match l with [] => True | (p, q) :: t => p = start /\ consecutive q t end.

Theorem bump_safe reqs : forall next maxv l, 0 <= next -> (forall r, In r reqs -> 0 <= r) ->
  bump_all next maxv reqs = Some l -> blocks_ok next maxv l /\ consecutive next l /\ length l = length reqs.
Proof.
  induction reqs as [|r t IH]; intros next maxv l Hn Hr H; cbn [bump_all] in H.
  - inversion H; subst. split; [intros b []|]. split; cbn; auto.
  - unfold bump in H. destruct (maxv <? next + r) eqn:E; [discriminate|]. apply Z.ltb_ge in E.
    assert (Hr0 : 0 <= r) by (apply Hr; now left).
    destruct (bump_all (next + r) maxv t) as [l'|] eqn:E2; [|discriminate]. inversion H; subst.
    destruct (IH (next + r) maxv l' ltac:(lia) ltac:(intros; apply Hr; now right) E2) as (A & B & C).
    split; [|split].
    + intros b [<-|Hb]; cbn; [lia|]. destruct (A b Hb). lia.
    + cbn. auto.
    + cbn. lia.
Qed.

Theorem bump_abort_when_full next maxv num : maxv < next + num -> bump next maxv num = None.
Proof. intros H. unfold bump. apply Z.ltb_lt in H. now rewrite H. Qed.

(* consecutive blocks are pairwise disjoint *)
Lemma consecutive_lower l : forall start, consecutive start l -> (forall b, In b l -> fst b <= snd b) ->
  forall b, In b l -> start <= fst b.
Proof.
  induction l as [|[p q] t IH]; intros start Hc Hb b Hin; [destruct Hin|].
  cbn in Hc. destruct Hc as [-> Hc]. destruct Hin as [<-|Hin]; [cbn; lia|].
  assert (start <= q) by (apply (Hb (start, q)); now left).
  assert (q <= fst b) by (apply (IH q Hc); [intros b' Hb'; apply Hb; now right | exact Hin]). lia.
Qed.

Theorem consecutive_disjoint l : forall start, consecutive start l -> (forall b, In b l -> fst b <= snd b) ->
  ForallOrdPairs (fun a b => snd a <= fst b) l.
Proof.
  induction l as [|[p q] t IH]; intros start Hc Hb; [constructor|].
  cbn in Hc. destruct Hc as [-> Hc]. constructor.
  - apply Forall_forall. intros b Hin. cbn [snd]. apply (consecutive_lower t q Hc); [intros b' Hb'; apply Hb; now right | exact Hin].
  - apply (IH q Hc). intros b' Hb'. apply Hb. now right.
Qed.

(* LUSUP: the columns of an L supernode lying in one H-supernode slot of capacity w * rows each request at most
   `rows` entries, at most w times: every block stays inside the slot *)
Theorem lusup_slot_suffices (start w rows : Z) (reqs : list Z) : 0 <= w -> 0 <= rows ->
  Z.of_nat (length reqs) <= w -> (forall r, In r reqs -> 0 <= r <= rows) ->
  forall l, bump_all start (start + w * rows) reqs = Some l \/ True ->
  exists l', bump_all start (start + w * rows) reqs = Some l' /\ blocks_ok start (start + w * rows) l'.
Proof.
  intros Hw Hrows Hlen Hr l _.
  assert (G : forall reqs next k, 0 <= k -> Z.of_nat (length reqs) <= k -> (forall r, In r reqs -> 0 <= r <= rows) ->
             next + k * rows <= start + w * rows -> exists l', bump_all next (start + w * rows) reqs = Some l').
  { clear - Hrows. induction reqs as [|r t IH]; intros next k Hk Hlen Hr Hfit; cbn [bump_all]; [eauto|].
    unfold bump. assert (Hr0 : 0 <= r <= rows) by (apply Hr; now left). cbn [length] in Hlen.
    assert (Hk1 : 1 <= k) by lia. assert (rows <= k * rows) by nia.
    assert (E : start + w * rows <? next + r = false) by (apply Z.ltb_ge; lia). rewrite E.
    destruct (IH (next + r) (k - 1)) as (l' & El'); try lia; [intros; apply Hr; now right |]. rewrite El'. eauto. }
  destruct (G reqs start w Hw Hlen Hr ltac:(lia)) as (l' & El'). exists l'. split; auto.
  assert (Hs : start <= start) by lia.
  pose proof (bump_safe reqs start (start + w * rows) l') as B.
  (* bump_safe needs 0 <= start only for its own statement about `next`; restate with an offset *)
  clear B. revert El'. generalize start at 1 3 as nx. intros nx El'.
  assert (H : forall reqs nx l', (forall r, In r reqs -> 0 <= r) -> bump_all nx (start + w * rows) reqs = Some l' ->
              forall b, In b l' -> nx <= fst b /\ fst b <= snd b /\ snd b <= start + w * rows).
  { clear. induction reqs as [|r t IH]; intros nx l' Hr H b Hb; cbn [bump_all] in H.
    - inversion H; subst. destruct Hb.
    - unfold bump in H. destruct (start + w * rows <? nx + r) eqn:E; [discriminate|]. apply Z.ltb_ge in E.
      destruct (bump_all (nx + r) (start + w * rows) t) as [l2|] eqn:E2; [|discriminate]. inversion H; subst.
      assert (0 <= r) by (apply Hr; now left).
      destruct Hb as [<-|Hb]; [cbn; lia|]. destruct (IH (nx + r) l2 ltac:(intros; apply Hr; now right) E2 b Hb). lia. }
  intros b Hb. apply (H reqs nx l'); auto. intros r Hin. apply Hr in Hin. lia.
Qed.

(* soundness of the storage-image checker: leaders' starts are non-decreasing and bounded by total *)
Lemma slots_ok_sound m : forall cnt j prev lastlead, slots_ok m j cnt prev lastlead = true ->
  forall a b, (j <= a)%nat -> (a <= b)%nat -> (b < j + cnt)%nat ->
    0 <= nthZ m (Z.of_nat a) -> 0 <= nthZ m (Z.of_nat b) -> prev <= nthZ m (Z.of_nat a) <= nthZ m (Z.of_nat b).
Proof.
  induction cnt as [|c IH]; intros j prev lastlead H a b Ha Hab Hb Va Vb; [lia|].
  cbn [slots_ok] in H. destruct (0 <=? nthZ m (Z.of_nat j)) eqn:E.
  - apply andb_true_iff in H. destruct H as [H1 H2]. apply Z.leb_le in H1, E.
    destruct (Nat.eq_dec a j) as [->|Hne].
    + destruct (Nat.eq_dec b j) as [->|Hnb]; [lia|].
      destruct (IH (S j) _ _ H2 b b ltac:(lia) ltac:(lia) ltac:(lia) Vb Vb). lia.
    + destruct (IH (S j) _ _ H2 a b ltac:(lia) Hab ltac:(lia) Va Vb). lia.
  - apply Z.leb_gt in E. rewrite !andb_true_iff in H. destruct H as [_ H2].
    destruct (Nat.eq_dec a j) as [->|Hne]; [lia|].
    apply (IH (S j) _ _ H2 a b); auto; lia.
Qed.

Theorem check_slots_sound n m : check_slots n m = true ->
  forall a b, 0 <= a <= b -> b < n -> 0 <= nthZ m a -> 0 <= nthZ m b -> 0 <= nthZ m a <= nthZ m b.
Proof.
  unfold check_slots. rewrite !andb_true_iff. intros ((((_ & _) & _) & Hs) & _) a b Hab Hb Va Vb.
  pose proof (slots_ok_sound m (Z.to_nat n) 0 0 (-1) Hs (Z.to_nat a) (Z.to_nat b) ltac:(lia) ltac:(lia) ltac:(lia)) as G.
  rewrite !Z2Nat.id in G by lia. specialize (G Va Vb). lia.
Qed.

Example preset_example :
  (* 4 columns, diagonal + one subdiagonal: two relaxed supernodes of size 1 at columns 0 and 2, H supernodes of size 1 *)
  fst (preset_map 4 [0;2;3;5] [2;3;5;6] [0;1;1;2;3;3] [(0,1);(2,1)] [2;1;2;1] [1;1;1;1] 200) = [0; 2; 3; 5; 6].
Proof. vm_compute. reflexivity. Qed.
