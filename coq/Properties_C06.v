(* Properties_C06.v -- property theorems for C06.  Only statements closed by `exact`, and Print Assumptions. *)
From Coq Require Import ZArith List.
From SLU Require Import PivotModel PivotProofs InfoModel InfoProofs.
Import ListNotations.
Local Open Scope Z_scope.

(* a column is reported (info = jcol+1) exactly when all its candidate pivots are exactly zero *)
Theorem c06_singular_iff_all_zero : forall c usepr oldrow diagind thr,
  pr_singular (pivotL c usepr oldrow diagind thr) = true <-> maxmag c = 0.
Proof. exact piv_singular_iff. Qed.
Print Assumptions c06_singular_iff_all_zero.

(* in that case the recorded row is a candidate row, or the diagonal row when the column has no candidate at all:
   no subscript outside the column's list is touched (finding F2, repaired) *)
Theorem c06_singular_row_in_range : forall c usepr oldrow diagind thr,
  let r := pivotL c usepr oldrow diagind thr in
  pr_singular r = true ->
  (c <> [] -> (pr_ptr r < length c)%nat /\ pr_row r = row_at c (pr_ptr r)) /\ (c = [] -> pr_row r = diagind).
Proof. exact piv_singular_row. Qed.
Print Assumptions c06_singular_row_in_range.

(* the info returned by the factorization is the smallest nonzero per-column info, however the columns are distributed
   over the worker threads and in whatever order each worker meets them (schedule independence) *)
Theorem c06_info_is_first_zero_pivot : forall parts, (forall p, In p parts -> forall x, In x p -> 0 <= x) ->
  is_min_nonzero (concat parts) (gstrf_info parts).
Proof. exact gstrf_info_schedule_independent. Qed.
Print Assumptions c06_info_is_first_zero_pivot.

Theorem c06_info_schedule_independent : forall parts parts',
  (forall p, In p parts -> forall x, In x p -> 0 <= x) -> (forall p, In p parts' -> forall x, In x p -> 0 <= x) ->
  (forall x, In x (concat parts) <-> In x (concat parts')) -> gstrf_info parts = gstrf_info parts'.
Proof. exact gstrf_info_permutation_invariant. Qed.
Print Assumptions c06_info_schedule_independent.
