(* Properties_C06.v -- property theorems for C06.  Only statements closed by `exact`, and Print Assumptions. *)
From Coq Require Import ZArith List.
From SLU Require Import PivotModel PivotProofs InfoModel InfoProofs.
Import ListNotations.
Local Open Scope Z_scope.

(* a column is reported (info = jcol+1) exactly when all its candidate pivots are exactly zero *)
Theorem c06_singular_iff_all_zero : forall c usepr oldrow diagind thr,
  pr_singular (pivotL c usepr oldrow diagind thr) = true <-> maxmag c = 0.
Proof. exact piv_singular_iff. Qed.
Print Assumptions c06_singular_iff_all_zero.

(* in that case the recorded row is a candidate row, or the diagonal row when the column has no candidate at all:
   no subscript outside the column's list is touched (finding F2, repaired) *)
Theorem c06_singular_row_in_range : forall c usepr oldrow diagind thr,
  let r := pivotL c usepr oldrow diagind thr in
  pr_singular r = true ->
  (c <> [] -> (pr_ptr r < length c)%nat /\ pr_row r = row_at c (pr_ptr r)) /\ (c = [] -> pr_row r = diagind).
Proof. exact piv_singular_row. Qed.
Print Assumptions c06_singular_row_in_range.

(* the info returned by the factorization is the smallest nonzero per-column info, however the columns are distributed
   over the worker threads and in whatever order each worker meets them (schedule independence) *)
Theorem c06_info_is_first_zero_pivot : forall parts, (forall p, In p parts -> forall x, In x p -> 0 <= x) ->
  is_min_nonzero (concat parts) (gstrf_info parts).
Proof. exact gstrf_info_schedule_independent. Qed.
Print Assumptions c06_info_is_first_zero_pivot.

Theorem c06_info_schedule_independent : forall parts parts',
  (forall p, In p parts -> forall x, In x p -> 0 <= x) -> (forall p, In p parts' -> forall x, In x p -> 0 <= x) ->
  (forall x, In x (concat parts) <-> In x (concat parts')) -> gstrf_info parts = gstrf_info parts'.
Proof. exact gstrf_info_permutation_invariant. Qed.
Print Assumptions c06_info_schedule_independent.

From SLU Require Import ElimRank.

(* WHICH column is the first one reported does not depend on the pivot choices at all (threshold, tie-breaking, preferred
   diagonal, forced row order, hence neither on the schedule): in exact arithmetic, Gaussian elimination with ANY admissible
   row pivoting (elim m A k M piv: k columns eliminated, each with some not-yet-pivoted row whose reduced entry is nonzero)
   finds all candidates of the next column zero exactly when that column of A is a linear combination of the earlier columns,
   and the columns eliminated so far are linearly independent.  So "the first column all of whose candidate pivots are
   exactly zero" is the least linearly dependent column of A*Pc: a function of the matrix alone. *)
Theorem c06_eliminated_prefix_independent : forall m A k M piv, elim m A k M piv -> indep m A k.
Proof. exact elim_prefix_independent. Qed.
Print Assumptions c06_eliminated_prefix_independent.

Theorem c06_zero_column_iff_dependent : forall m A k M piv, elim m A k M piv ->
  (candidates_zero m M piv k <-> exists x, lin_comb m A k x).
Proof. exact elim_zero_column_iff_dependent. Qed.
Print Assumptions c06_zero_column_iff_dependent.

Theorem c06_first_zero_column_is_least_dependent : forall m A k M piv,
  elim m A k M piv -> candidates_zero m M piv k ->
  (exists x, lin_comb m A k x) /\ (forall k', (k' < k)%nat -> ~ exists x, lin_comb m A k' x).
Proof. exact first_zero_column_least. Qed.
Print Assumptions c06_first_zero_column_is_least_dependent.

(* two runs with different pivot choices report the same first singular column, and none gets past it *)
Theorem c06_first_zero_column_unique : forall m A k1 M1 piv1 k2 M2 piv2,
  elim m A k1 M1 piv1 -> candidates_zero m M1 piv1 k1 ->
  elim m A k2 M2 piv2 -> candidates_zero m M2 piv2 k2 -> k1 = k2.
Proof. exact first_zero_column_unique. Qed.
Print Assumptions c06_first_zero_column_unique.

Theorem c06_run_cannot_pass_zero_column : forall m A k1 M1 piv1 k2 M2 piv2,
  elim m A k1 M1 piv1 -> candidates_zero m M1 piv1 k1 -> elim m A k2 M2 piv2 -> (k2 <= k1)%nat.
Proof. exact run_cannot_pass_zero_column. Qed.
Print Assumptions c06_run_cannot_pass_zero_column.

(* a relaxed supernode reports the FIRST nonzero info of its columns (p?gstrf_factor_snode); its columns are visited in
   ascending order (info = column + 1 or 0, nz_increasing), so this is the smallest one -- what the worker's own rule
   (thread_info) would have kept column by column: the per-supernode combination does not change the reported position *)
Theorem c06_snode_reports_its_first_singular_column : forall l, nz_increasing 0 l -> snode_info l = thread_info l.
Proof. exact snode_info_is_thread_info. Qed.
Print Assumptions c06_snode_reports_its_first_singular_column.

Example c06_snode_info_example : snode_info [0; 2; 0; 4; 5] = 2 /\ nz_increasing 0 [0; 2; 0; 4; 5].
Proof.
  split; [reflexivity|]. cbn.
  left. split; [reflexivity|]. right. split; [reflexivity|]. left. split; [reflexivity|].
  right. split; [reflexivity|]. right. split; [reflexivity|]. exact I.
Qed.
