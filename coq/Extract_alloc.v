From Coq Require Import Extraction ExtrOcamlBasic.
From SLU Require Import SchedModel AllocModel.
Extraction "alloc_model.ml" preset_map preset_map_dyn check_slots relax_snode bump_all.
