(* InfoModel.v -- how the zero-pivot report travels from p?gstrf_pivotL to the caller (C06):
   each worker keeps `singular` = the smallest nonzero info it has seen (p?gstrf_thread.c, p?gstrf_factor_snode.c),
   p?gstrf_thread_finalize combines the workers' values with the same rule, the drivers skip the solve when info != 0. *)
From Coq Require Import ZArith List Bool Lia.
Import ListNotations.
Local Open Scope Z_scope.

(* if ( *info ) { if ( singular == 0 || *info < singular ) singular = *info; } *)
Definition upd_singular (singular info : Z) : Z :=
  if negb (info =? 0) && ((singular =? 0) || (info <? singular)) then info else singular.

(* a worker processes its columns in some order; info_k is 0 or jcol+1 *)
Definition thread_info (infos : list Z) : Z := fold_left upd_singular infos 0.

(* thread_finalize: if (info_i) { if (iinfo) iinfo = MIN(iinfo, info_i); else iinfo = info_i; } *)
Definition combine_step (iinfo info_i : Z) : Z :=
  if negb (info_i =? 0) then (if negb (iinfo =? 0) then Z.min iinfo info_i else info_i) else iinfo.
Definition combine_info (tinfos : list Z) : Z := fold_left combine_step tinfos 0.

(* the whole factorization: parts = per worker, the infos of the columns it processed, in its own order *)
Definition gstrf_info (parts : list (list Z)) : Z := combine_info (map thread_info parts).

(* drivers: p?gssv solves iff info = 0 (B untouched otherwise); p?gssvx: solve+refine iff info = 0 after factorization
   (or fact = FACTORED), B is scaled before the factorization when equilibrated and never unscaled *)
Definition gssv_solves (info : Z) : bool := info =? 0.
Definition min_nonzero (l : list Z) : Z := fold_left combine_step l 0.

(* p?gstrf_factor_snode: the columns of a relaxed supernode are factored in ascending order and the routine returns the
   FIRST nonzero info:   info = pivotL(...); if ( info ) if ( singular == 0 ) singular = info;   ...   return singular  *)
Definition snode_step (singular info : Z) : Z :=
  if negb (info =? 0) && (singular =? 0) then info else singular.
Definition snode_info (infos : list Z) : Z := fold_left snode_step infos 0.
