(* ElimRank.v -- exact-arithmetic Gaussian elimination with ARBITRARY row pivoting:
   the first zero-pivot column is a function of the matrix alone.

   Context: SuperLU_MT's p?gstrf reports info = k+1 for the first column k (in A*Pc order) all of
   whose candidate pivots (entries of the reduced column in the not-yet-pivoted rows) are exactly
   zero.  The theorems below show that, in exact arithmetic, this position does not depend on the
   pivot choices (hence not on threshold, tie-breaking, schedule or thread count):

     elim_prefix_independent        : k successful pivots  ->  columns 0..k-1 of A independent
     elim_zero_column_iff_dependent : after k successful pivots,
                                      all candidates of column k are zero
                                      <->  column k of A is a combination of columns 0..k-1 of A
     first_zero_column_least        : the zero-pivot column is the LEAST linearly dependent column
     first_zero_column_unique       : two runs with different pivot choices stop at the same column

   Self-contained: standard library only (Reals, Lra, Lia, List). *)

From Coq Require Import Reals Lra Lia List Arith Bool.
Import ListNotations.
Open Scope R_scope.

(* ------------------------------------------------------------------------------------------ *)
(* Definitions                                                                                  *)
(* ------------------------------------------------------------------------------------------ *)

Definition rmat := nat -> nat -> R.

(* sum_{j<k} f j *)
Fixpoint sumn (k : nat) (f : nat -> R) : R :=
  match k with
  | O => 0
  | S k' => sumn k' f + f k'
  end.

Fixpoint memb (i : nat) (l : list nat) : bool :=
  match l with
  | [] => false
  | a :: l' => if Nat.eqb i a then true else memb i l'
  end.

(* One elimination step on column k with pivot row r: every row that is neither already pivoted
   (in piv) nor the pivot row itself gets the multiple of the pivot row subtracted that
   annihilates its entry in column k.  Pivoted rows and the pivot row are left alone. *)
Definition estep (M : rmat) (piv : list nat) (k r : nat) : rmat :=
  fun i j => if memb i (r :: piv) then M i j else M i j - (M i k / M r k) * M r j.

(* elim m A k M piv : starting from the m-row matrix A, columns 0..k-1 have been eliminated, each
   with SOME not-yet-pivoted row r < m whose reduced entry is nonzero; M is the reduced matrix and
   piv lists the pivot rows, most recent first (so the pivot row of column j is the element of piv
   at position k-1-j).  No constraint whatsoever on which admissible row is taken. *)
Inductive elim (m : nat) (A : rmat) : nat -> rmat -> list nat -> Prop :=
| elim_O : elim m A O A []
| elim_S : forall (k : nat) (M : rmat) (piv : list nat) (r : nat),
    elim m A k M piv ->
    (r < m)%nat ->
    ~ In r piv ->
    M r k <> 0 ->
    elim m A (S k) (estep M piv k r) (r :: piv).

Definition candidates_zero (m : nat) (M : rmat) (piv : list nat) (k : nat) : Prop :=
  forall i, (i < m)%nat -> ~ In i piv -> M i k = 0.

Definition lin_comb (m : nat) (A : rmat) (k : nat) (x : nat -> R) : Prop :=
  forall i, (i < m)%nat -> A i k = sumn k (fun j => A i j * x j).

Definition indep (m : nat) (A : rmat) (k : nat) : Prop :=
  forall x, (forall i, (i < m)%nat -> sumn k (fun j => A i j * x j) = 0) ->
            forall j, (j < k)%nat -> x j = 0.

(* a column relation: the coefficient vector y annihilates the first n columns of M (rows < m) *)
Definition colrel (m : nat) (M : rmat) (n : nat) (y : nat -> R) : Prop :=
  forall i, (i < m)%nat -> sumn n (fun j => M i j * y j) = 0.

(* ------------------------------------------------------------------------------------------ *)
(* Finite sums                                                                                  *)
(* ------------------------------------------------------------------------------------------ *)

Lemma sumn_ext : forall k f g,
  (forall j, (j < k)%nat -> f j = g j) -> sumn k f = sumn k g.
Proof.
  induction k as [|k IH]; intros f g Hfg; simpl.
  - reflexivity.
  - rewrite (IH f g).
    + rewrite Hfg by lia. reflexivity.
    + intros j Hj. apply Hfg. lia.
Qed.

Lemma sumn_zero : forall k f,
  (forall j, (j < k)%nat -> f j = 0) -> sumn k f = 0.
Proof.
  induction k as [|k IH]; intros f Hf; simpl.
  - reflexivity.
  - rewrite IH.
    + rewrite Hf by lia. lra.
    + intros j Hj. apply Hf. lia.
Qed.

Lemma sumn_sub_scal : forall k (a b y : nat -> R) (c : R),
  sumn k (fun j => (a j - c * b j) * y j)
  = sumn k (fun j => a j * y j) - c * sumn k (fun j => b j * y j).
Proof.
  induction k as [|k IH]; intros a b y c; simpl.
  - lra.
  - rewrite IH. lra.
Qed.

Lemma sumn_extend : forall n k f,
  (k <= n)%nat ->
  (forall j, (k <= j < n)%nat -> f j = 0) ->
  sumn n f = sumn k f.
Proof.
  induction n as [|n IH]; intros k f Hkn Hz.
  - assert (k = O) by lia. subst k. reflexivity.
  - destruct (Nat.eq_dec k (S n)) as [->|Hne].
    + reflexivity.
    + simpl. rewrite (IH k f).
      * rewrite Hz by lia. lra.
      * lia.
      * intros j Hj. apply Hz. lia.
Qed.

(* ------------------------------------------------------------------------------------------ *)
(* Membership                                                                                   *)
(* ------------------------------------------------------------------------------------------ *)

Lemma memb_In : forall i l, memb i l = true <-> In i l.
Proof.
  intros i l. induction l as [|a l IH]; simpl.
  - split; [discriminate | tauto].
  - destruct (Nat.eqb i a) eqn:E.
    + apply Nat.eqb_eq in E. subst a. tauto.
    + apply Nat.eqb_neq in E. rewrite IH. split.
      * intros H. right. exact H.
      * intros [H|H]; [congruence | exact H].
Qed.

Lemma memb_false_not_In : forall i l, memb i l = false <-> ~ In i l.
Proof.
  intros i l. rewrite <- memb_In. destruct (memb i l); split; intros H.
  - discriminate.
  - exfalso. apply H. reflexivity.
  - intros H'. discriminate.
  - reflexivity.
Qed.

(* ------------------------------------------------------------------------------------------ *)
(* 1. A step preserves every column relation, in both directions                                *)
(* ------------------------------------------------------------------------------------------ *)

Lemma estep_row_sum : forall M piv k r n y i,
  sumn n (fun j => estep M piv k r i j * y j)
  = if memb i (r :: piv)
    then sumn n (fun j => M i j * y j)
    else sumn n (fun j => M i j * y j) - (M i k / M r k) * sumn n (fun j => M r j * y j).
Proof.
  intros M piv k r n y i. unfold estep.
  destruct (memb i (r :: piv)).
  - reflexivity.
  - apply (sumn_sub_scal n (fun j => M i j) (fun j => M r j) y (M i k / M r k)).
Qed.

Lemma estep_pivot_row : forall M piv k r j, estep M piv k r r j = M r j.
Proof.
  intros M piv k r j. unfold estep. simpl. rewrite Nat.eqb_refl. reflexivity.
Qed.

Lemma estep_colrel : forall m M piv k r n y,
  (r < m)%nat ->
  (colrel m (estep M piv k r) n y <-> colrel m M n y).
Proof.
  intros m M piv k r n y Hr. unfold colrel. split; intros H i Hi.
  - assert (Hrow : sumn n (fun j => M r j * y j) = 0).
    { rewrite <- (H r Hr). apply sumn_ext. intros j _. rewrite estep_pivot_row. reflexivity. }
    specialize (H i Hi). rewrite estep_row_sum in H.
    destruct (memb i (r :: piv)).
    + exact H.
    + rewrite Hrow in H. lra.
  - rewrite estep_row_sum. destruct (memb i (r :: piv)).
    + apply H. exact Hi.
    + rewrite (H i Hi), (H r Hr). lra.
Qed.

Lemma elim_colrel : forall m A k M piv,
  elim m A k M piv -> forall n y, colrel m M n y <-> colrel m A n y.
Proof.
  intros m A k M piv H. induction H as [|k M piv r H IH Hr Hnin Hnz]; intros n y.
  - tauto.
  - rewrite estep_colrel by exact Hr. apply IH.
Qed.

(* ------------------------------------------------------------------------------------------ *)
(* 2. Echelon structure of the reduced matrix                                                   *)
(* ------------------------------------------------------------------------------------------ *)

(* piv = r_{k-1} :: ... :: r_0.  Column j = length of the tail below r_j has a nonzero entry in
   row r_j and is zero in every row outside {r_j, ..., r_0}; pivot rows are pairwise distinct. *)
Fixpoint ech (M : rmat) (piv : list nat) : Prop :=
  match piv with
  | [] => True
  | r :: piv' =>
      ~ In r piv' /\
      M r (length piv') <> 0 /\
      (forall i, ~ In i (r :: piv') -> M i (length piv') = 0) /\
      ech M piv'
  end.

Lemma ech_ext : forall M M' piv,
  (forall i j, (j < length piv)%nat -> M' i j = M i j) ->
  ech M piv -> ech M' piv.
Proof.
  intros M M' piv. induction piv as [|r piv IH]; intros Hext Hech.
  - exact I.
  - simpl in Hech. destruct Hech as (Hnin & Hnz & Hcol & Hrest).
    simpl. repeat split.
    + exact Hnin.
    + rewrite Hext by (simpl; lia). exact Hnz.
    + intros i Hi. rewrite Hext by (simpl; lia). apply Hcol. exact Hi.
    + apply IH.
      * intros i j Hj. apply Hext. simpl. lia.
      * exact Hrest.
Qed.

(* rows outside piv vanish in all the eliminated columns *)
Lemma ech_outside_zero : forall M piv i j,
  ech M piv -> ~ In i piv -> (j < length piv)%nat -> M i j = 0.
Proof.
  intros M piv. induction piv as [|r piv IH]; intros i j Hech Hnin Hj.
  - simpl in Hj. lia.
  - simpl in Hech. destruct Hech as (_ & _ & Hcol & Hrest).
    simpl in Hj. destruct (Nat.eq_dec j (length piv)) as [->|Hne].
    + apply Hcol. exact Hnin.
    + apply IH.
      * exact Hrest.
      * intros Hin. apply Hnin. right. exact Hin.
      * lia.
Qed.

(* a step on column k = length piv does not touch the columns already eliminated *)
Lemma estep_old_columns : forall M piv r i j,
  ech M piv -> ~ In r piv -> (j < length piv)%nat ->
  estep M piv (length piv) r i j = M i j.
Proof.
  intros M piv r i j Hech Hr Hj. unfold estep.
  destruct (memb i (r :: piv)) eqn:E.
  - reflexivity.
  - rewrite (ech_outside_zero M piv r j Hech Hr Hj). lra.
Qed.

Lemma estep_ech : forall M piv r,
  ech M piv -> ~ In r piv -> M r (length piv) <> 0 ->
  ech (estep M piv (length piv) r) (r :: piv).
Proof.
  intros M piv r Hech Hr Hnz. simpl. repeat split.
  - exact Hr.
  - rewrite estep_pivot_row. exact Hnz.
  - intros i Hi. unfold estep.
    assert (E : memb i (r :: piv) = false) by (apply memb_false_not_In; exact Hi).
    rewrite E. field. exact Hnz.
  - apply (ech_ext M).
    + intros i j Hj. apply estep_old_columns; assumption.
    + exact Hech.
Qed.

Lemma elim_invariant : forall m A k M piv,
  elim m A k M piv ->
  length piv = k /\ (forall r, In r piv -> (r < m)%nat) /\ ech M piv.
Proof.
  intros m A k M piv H. induction H as [|k M piv r H IH Hr Hnin Hnz].
  - simpl. repeat split. intros r [].
  - destruct IH as (Hlen & Hlt & Hech). subst k. split; [|split].
    + reflexivity.
    + intros r' [<-|Hin]; [exact Hr | apply Hlt; exact Hin].
    + apply estep_ech; assumption.
Qed.

(* ------------------------------------------------------------------------------------------ *)
(* 3. Linear algebra on an echelon matrix                                                       *)
(* ------------------------------------------------------------------------------------------ *)

(* the eliminated columns of an echelon matrix are independent (back substitution: the most
   recent pivot row only sees the last column) *)
Lemma ech_indep : forall m M piv,
  (forall r, In r piv -> (r < m)%nat) -> ech M piv -> indep m M (length piv).
Proof.
  intros m M piv. induction piv as [|r piv IH]; intros Hlt Hech x Hrel j Hj.
  - simpl in Hj. lia.
  - pose proof Hech as Hech0.
    simpl in Hech. destruct Hech as (Hnin & Hnz & Hcol & Hrest).
    assert (Hlast : x (length piv) = 0).
    { assert (Hrm : (r < m)%nat) by (apply Hlt; left; reflexivity).
      specialize (Hrel r Hrm). simpl in Hrel.
      rewrite sumn_zero in Hrel.
      - rewrite Rplus_0_l in Hrel.
        apply Rmult_integral in Hrel. destruct Hrel as [Hrel|Hrel]; [|exact Hrel].
        exfalso. apply Hnz. exact Hrel.
      - intros j' Hj'. rewrite (ech_outside_zero M piv r j' Hrest Hnin Hj'). lra. }
    simpl in Hj. destruct (Nat.eq_dec j (length piv)) as [->|Hne].
    + exact Hlast.
    + apply (IH (fun r' Hin => Hlt r' (or_intror Hin)) Hrest x).
      * intros i Hi. specialize (Hrel i Hi). simpl in Hrel. rewrite Hlast in Hrel. lra.
      * lia.
Qed.

(* any column b supported on the pivot rows is a combination of the eliminated columns
   (triangular solve, the coefficient of the last eliminated column first) *)
Lemma ech_solve : forall m M piv (b : nat -> R),
  ech M piv ->
  (forall i, (i < m)%nat -> ~ In i piv -> b i = 0) ->
  exists x, forall i, (i < m)%nat -> b i = sumn (length piv) (fun j => M i j * x j).
Proof.
  intros m M piv. induction piv as [|r piv IH]; intros b Hech Hb.
  - exists (fun _ => 0). intros i Hi. simpl. apply Hb; [exact Hi | intros []].
  - simpl in Hech. destruct Hech as (Hnin & Hnz & Hcol & Hrest).
    set (k := length piv) in *.
    set (xk := b r / M r k).
    destruct (IH (fun i => b i - M i k * xk) Hrest) as [x' Hx'].
    { intros i Hi Hi'. destruct (Nat.eq_dec i r) as [->|Hne].
      - unfold xk. field. exact Hnz.
      - assert (Hout : ~ In i (r :: piv)).
        { intros [Heq|Hin]; [apply Hne; symmetry; exact Heq | apply Hi'; exact Hin]. }
        rewrite (Hb i Hi Hout), (Hcol i Hout). lra. }
    exists (fun j => if Nat.eqb j k then xk else x' j).
    intros i Hi. simpl length. fold k. simpl sumn. rewrite Nat.eqb_refl.
    rewrite (sumn_ext k _ (fun j => M i j * x' j)).
    + rewrite <- (Hx' i Hi). lra.
    + intros j Hj. assert (E : Nat.eqb j k = false) by (apply Nat.eqb_neq; lia).
      rewrite E. reflexivity.
Qed.

(* ------------------------------------------------------------------------------------------ *)
(* 4. Transfer between the reduced matrix and A                                                 *)
(* ------------------------------------------------------------------------------------------ *)

(* "column k is the combination x of columns < k" as a column relation on k+1 columns *)
Definition relvec (k : nat) (x : nat -> R) : nat -> R :=
  fun j => if Nat.ltb j k then x j else -1.

Lemma lin_comb_colrel : forall m M k x,
  lin_comb m M k x <-> colrel m M (S k) (relvec k x).
Proof.
  intros m M k x. unfold lin_comb, colrel.
  assert (Hsum : forall i, sumn (S k) (fun j => M i j * relvec k x j)
                           = sumn k (fun j => M i j * x j) - M i k).
  { intros i. simpl. unfold relvec at 2. rewrite Nat.ltb_irrefl.
    rewrite (sumn_ext k _ (fun j => M i j * x j)).
    - lra.
    - intros j Hj. unfold relvec. apply Nat.ltb_lt in Hj. rewrite Hj. reflexivity. }
  split; intros H i Hi.
  - rewrite Hsum, (H i Hi). lra.
  - specialize (H i Hi). rewrite Hsum in H. lra.
Qed.

Lemma elim_lin_comb : forall m A k M piv n x,
  elim m A k M piv -> (lin_comb m M n x <-> lin_comb m A n x).
Proof.
  intros m A k M piv n x H. rewrite !lin_comb_colrel. apply (elim_colrel m A k M piv H).
Qed.

Lemma elim_indep : forall m A k M piv n,
  elim m A k M piv -> (indep m M n <-> indep m A n).
Proof.
  intros m A k M piv n H. unfold indep.
  split; intros Hind x Hrel j Hj; apply (Hind x); try exact Hj.
  - apply (elim_colrel m A k M piv H n x). exact Hrel.
  - apply (elim_colrel m A k M piv H n x). exact Hrel.
Qed.

(* ------------------------------------------------------------------------------------------ *)
(* 5. Main theorems                                                                             *)
(* ------------------------------------------------------------------------------------------ *)

(* (a) k successful pivots (whatever rows were chosen) => columns 0..k-1 of A are independent *)
Theorem elim_prefix_independent : forall m A k M piv,
  elim m A k M piv -> indep m A k.
Proof.
  intros m A k M piv H.
  destruct (elim_invariant m A k M piv H) as (Hlen & Hlt & Hech).
  apply (elim_indep m A k M piv k H). rewrite <- Hlen.
  apply ech_indep; assumption.
Qed.

(* (b) after k successful pivots: column k has only zero candidates  <->  column k of A is a
       linear combination of columns 0..k-1 of A *)
Theorem elim_zero_column_iff_dependent : forall m A k M piv,
  elim m A k M piv ->
  (candidates_zero m M piv k <-> exists x, lin_comb m A k x).
Proof.
  intros m A k M piv H.
  destruct (elim_invariant m A k M piv H) as (Hlen & Hlt & Hech).
  split.
  - intros Hcz.
    destruct (ech_solve m M piv (fun i => M i k) Hech Hcz) as [x Hx].
    exists x. apply (elim_lin_comb m A k M piv k x H).
    intros i Hi. rewrite (Hx i Hi), Hlen. reflexivity.
  - intros [x Hx] i Hi Hnin.
    apply (elim_lin_comb m A k M piv k x H) in Hx.
    rewrite (Hx i Hi). apply sumn_zero. intros j Hj.
    rewrite (ech_outside_zero M piv i j Hech Hnin) by lia. lra.
Qed.

(* independence of a prefix is inherited by shorter prefixes *)
Lemma indep_prefix : forall m A k k',
  (k' <= k)%nat -> indep m A k -> indep m A k'.
Proof.
  intros m A k k' Hle Hind x Hrel j Hj.
  set (y := fun j => if Nat.ltb j k' then x j else 0).
  assert (Hy : y j = 0).
  { apply (Hind y); [|lia].
    intros i Hi. rewrite (sumn_extend k k').
    - rewrite <- (Hrel i Hi). apply sumn_ext. intros j' Hj'.
      unfold y. apply Nat.ltb_lt in Hj'. rewrite Hj'. reflexivity.
    - exact Hle.
    - intros j' Hj'. unfold y.
      assert (E : Nat.ltb j' k' = false) by (apply Nat.ltb_ge; lia).
      rewrite E. lra. }
  unfold y in Hy. apply Nat.ltb_lt in Hj. rewrite Hj in Hy. exact Hy.
Qed.

(* independent columns 0..k  =>  column k is not a combination of the earlier ones *)
Lemma indep_not_lin_comb : forall m A k x,
  indep m A (S k) -> ~ lin_comb m A k x.
Proof.
  intros m A k x Hind Hlc. apply lin_comb_colrel in Hlc.
  assert (H : relvec k x k = 0) by (apply (Hind (relvec k x) Hlc); lia).
  unfold relvec in H. rewrite Nat.ltb_irrefl in H. lra.
Qed.

(* The zero-pivot column is the LEAST column of A that depends linearly on its predecessors:
   a property of A alone. *)
Theorem first_zero_column_least : forall m A k M piv,
  elim m A k M piv ->
  candidates_zero m M piv k ->
  (exists x, lin_comb m A k x) /\
  (forall k', (k' < k)%nat -> ~ exists x, lin_comb m A k' x).
Proof.
  intros m A k M piv H Hcz. split.
  - apply (elim_zero_column_iff_dependent m A k M piv H). exact Hcz.
  - intros k' Hk' [x Hx].
    apply (indep_not_lin_comb m A k' x); [|exact Hx].
    apply (indep_prefix m A k (S k')); [lia|].
    apply (elim_prefix_independent m A k M piv H).
Qed.

(* conversely: every column before the first dependent one does find a nonzero candidate,
   whatever the earlier pivot choices were *)
Theorem nonzero_candidate_before_dependent : forall m A k M piv,
  elim m A k M piv ->
  (~ exists x, lin_comb m A k x) ->
  ~ candidates_zero m M piv k.
Proof.
  intros m A k M piv H Hno Hcz. apply Hno.
  apply (elim_zero_column_iff_dependent m A k M piv H). exact Hcz.
Qed.

(* Two runs from the same A, with arbitrary (different) pivot choices, each stopped at a column
   whose candidates are all zero, stopped at the same column. *)
Theorem first_zero_column_unique : forall m A k1 M1 piv1 k2 M2 piv2,
  elim m A k1 M1 piv1 -> candidates_zero m M1 piv1 k1 ->
  elim m A k2 M2 piv2 -> candidates_zero m M2 piv2 k2 ->
  k1 = k2.
Proof.
  intros m A k1 M1 piv1 k2 M2 piv2 H1 Hz1 H2 Hz2.
  destruct (first_zero_column_least m A k1 M1 piv1 H1 Hz1) as [Hd1 Hl1].
  destruct (first_zero_column_least m A k2 M2 piv2 H2 Hz2) as [Hd2 Hl2].
  destruct (lt_eq_lt_dec k1 k2) as [[Hlt|Heq]|Hgt].
  - exfalso. apply (Hl2 k1 Hlt). exact Hd1.
  - exact Heq.
  - exfalso. apply (Hl1 k2 Hgt). exact Hd2.
Qed.

(* More generally a run cannot get past a column at which another run found only zero
   candidates: the number of successful pivots of any run is bounded by the first zero-pivot
   column of any other run. *)
Theorem run_cannot_pass_zero_column : forall m A k1 M1 piv1 k2 M2 piv2,
  elim m A k1 M1 piv1 -> candidates_zero m M1 piv1 k1 ->
  elim m A k2 M2 piv2 ->
  (k2 <= k1)%nat.
Proof.
  intros m A k1 M1 piv1 k2 M2 piv2 H1 Hz1 H2.
  destruct (le_lt_dec k2 k1) as [Hle|Hlt]; [exact Hle|exfalso].
  destruct (first_zero_column_least m A k1 M1 piv1 H1 Hz1) as [[x Hx] _].
  apply (indep_not_lin_comb m A k1 x); [|exact Hx].
  apply (indep_prefix m A k2 (S k1)); [lia|].
  apply (elim_prefix_independent m A k2 M2 piv2 H2).
Qed.

(* ------------------------------------------------------------------------------------------ *)
(* 6. Non-vacuity: a 3x3 matrix, two different pivot orders, same first zero-pivot column       *)
(* ------------------------------------------------------------------------------------------ *)

(*      [ 1 1 2 ]
    A = [ 1 2 3 ]      column 2 = column 0 + column 1, columns 0,1 independent
        [ 2 1 3 ]                                                                              *)
Definition exA : rmat := fun i j =>
  match i, j with
  | O, O => 1 | O, S O => 1 | O, S (S O) => 2
  | S O, O => 1 | S O, S O => 2 | S O, S (S O) => 3
  | S (S O), O => 2 | S (S O), S O => 1 | S (S O), S (S O) => 3
  | _, _ => 0
  end.

(* run 1: pivot rows 0 then 1 *)
Definition exM1 : rmat := estep (estep exA [] 0 0) [0%nat] 1 1.
(* run 2: pivot rows 2 then 0 *)
Definition exM2 : rmat := estep (estep exA [] 0 2) [2%nat] 1 0.

Example ex_run1 : elim 3 exA 2 exM1 [1%nat; 0%nat] /\ candidates_zero 3 exM1 [1%nat; 0%nat] 2.
Proof.
  split.
  - unfold exM1. apply elim_S.
    + apply elim_S.
      * apply elim_O.
      * lia.
      * intros [].
      * unfold exA. lra.
    + lia.
    + simpl. lia.
    + unfold estep, exA. simpl. lra.
  - intros i Hi Hnin.
    assert (Hi2 : i = 2%nat) by (simpl in Hnin; lia). subst i.
    unfold exM1, estep, exA. simpl. field.
Qed.

Example ex_run2 : elim 3 exA 2 exM2 [0%nat; 2%nat] /\ candidates_zero 3 exM2 [0%nat; 2%nat] 2.
Proof.
  split.
  - unfold exM2. apply elim_S.
    + apply elim_S.
      * apply elim_O.
      * lia.
      * intros [].
      * unfold exA. lra.
    + lia.
    + simpl. lia.
    + unfold estep, exA. simpl. lra.
  - intros i Hi Hnin.
    assert (Hi2 : i = 1%nat) by (simpl in Hnin; lia). subst i.
    unfold exM2, estep, exA. simpl. field.
Qed.

(* the two runs really differ (different pivot rows, different reduced matrices) ... *)
Example ex_runs_differ : exM1 1%nat 1%nat <> exM2 1%nat 1%nat.
Proof.
  unfold exM1, exM2, estep, exA. simpl. lra.
Qed.

(* ... and the theorem applies to them *)
Example ex_same_column : (2 = 2)%nat.
Proof.
  destruct ex_run1 as [H1 Hz1]. destruct ex_run2 as [H2 Hz2].
  exact (first_zero_column_unique 3 exA 2 exM1 _ 2 exM2 _ H1 Hz1 H2 Hz2).
Qed.

(* column 2 of exA is indeed column 0 + column 1 *)
Example ex_dependent : lin_comb 3 exA 2 (fun _ => 1).
Proof.
  intros i Hi. unfold exA.
  destruct i as [|[|[|i]]]; simpl; lra.
Qed.

Print Assumptions elim_prefix_independent.
Print Assumptions elim_zero_column_iff_dependent.
Print Assumptions first_zero_column_unique.
Print Assumptions first_zero_column_least.
Print Assumptions run_cannot_pass_zero_column.
