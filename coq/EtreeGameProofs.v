(* EtreeGameProofs.v -- properties of the executable elimination game of EtreeSpec.v.
   For a square symmetric graph g with N vertices, F := gget (fill_graph g) satisfies
     (F1) symmetric   (F2) contains g   (F3) closure: k<i, k<j, F k i, F k j -> F i j
     (F4) origin: F i j -> g i j \/ exists k < min i j, F k i /\ F k j
   and etree_of_graph g lists, for every j, the least i > j with F j i (N when there is none). *)
From Coq Require Import ZArith List Bool Lia Arith.
From SLU Require Import EtreeModel EtreeSpec EtreeSpecProofs.
Import ListNotations.

Definition gsym (g : list (list bool)) : Prop :=
  forall i j, (i < length g)%nat -> (j < length g)%nat -> gget g i j = gget g j i.

Lemma elim_step_length : forall g k, square g -> (k < length g)%nat -> length (elim_step g k) = length g.
Proof.
  intros g k Hsq Hk. unfold elim_step. rewrite map2_length, hi_mask_length.
  unfold square in Hsq. rewrite Forall_forall in Hsq. rewrite (Hsq (nth k g [])) by (apply nth_In; auto). lia.
Qed.

Lemma elim_step_square : forall g k, square g -> (k < length g)%nat -> square (elim_step g k).
Proof.
  intros g k Hsq Hk. pose proof (elim_step_length g k Hsq Hk) as Hl.
  unfold square. rewrite Hl. apply Forall_forall. intros r Hr.
  apply In_nth with (d := []) in Hr. destruct Hr as [i [Hi Er]]. rewrite Hl in Hi. subst r.
  unfold elim_step.
  assert (Hrow : forall r, (r < length g)%nat -> length (nth r g []) = length g).
  { intros r Hr. unfold square in Hsq. rewrite Forall_forall in Hsq. apply Hsq. apply nth_In. auto. }
  set (mask := hi_mask k (nth k g [])).
  assert (Lm : length mask = length g) by (unfold mask; rewrite hi_mask_length; auto).
  rewrite (nth_map2 _ _ _ _ false [] []); [|lia|auto].
  destruct (nth i mask false); [|auto]. rewrite map2_length. rewrite Hrow by auto. lia.
Qed.

Lemma elim_step_sym : forall g k, square g -> gsym g -> (k < length g)%nat -> gsym (elim_step g k).
Proof.
  intros g k Hsq Hsym Hk i j Hi Hj. rewrite (elim_step_length g k Hsq Hk) in *.
  rewrite !elim_step_spec by auto. rewrite (Hsym i j) by auto.
  destruct (gget g j i), (Nat.ltb k i), (Nat.ltb k j), (gget g k i), (gget g k j); reflexivity.
Qed.

(* G m = graph after eliminating the vertices 0..m-1 *)
Definition G (g : list (list bool)) (m : nat) : list (list bool) := fold_left elim_step (seq 0 m) g.

Lemma G_S : forall g m, G g (S m) = elim_step (G g m) m.
Proof. intros. unfold G. rewrite seq_S. rewrite fold_left_app. reflexivity. Qed.

Lemma G_inv : forall g m, square g -> gsym g -> (m <= length g)%nat ->
  length (G g m) = length g /\ square (G g m) /\ gsym (G g m).
Proof.
  intros g m Hsq Hsym. induction m as [|m IH]; intros Hm.
  - unfold G. simpl. auto.
  - destruct IH as [Hl [Hs Hy]]; [lia|]. rewrite G_S.
    split; [rewrite elim_step_length; auto; lia|]. split; [apply elim_step_square; auto; lia|apply elim_step_sym; auto; lia].
Qed.

Lemma G_step : forall g m i j, square g -> gsym g -> (m < length g)%nat -> (i < length g)%nat -> (j < length g)%nat ->
  gget (G g (S m)) i j = gget (G g m) i j || (Nat.ltb m i && Nat.ltb m j && gget (G g m) m i && gget (G g m) m j).
Proof.
  intros g m i j Hsq Hsym Hm Hi Hj. destruct (G_inv g m Hsq Hsym ltac:(lia)) as [Hl [Hs Hy]].
  rewrite G_S. apply elim_step_spec; auto; lia.
Qed.

Lemma G_mono : forall g m m' i j, square g -> gsym g -> (m <= m')%nat -> (m' <= length g)%nat ->
  (i < length g)%nat -> (j < length g)%nat -> gget (G g m) i j = true -> gget (G g m') i j = true.
Proof.
  intros g m m' i j Hsq Hsym Hle. induction Hle as [|m' Hle IH]; intros Hm' Hi Hj H; auto.
  rewrite G_step by (auto; lia). rewrite IH by (auto; lia). reflexivity.
Qed.

(* entries with an endpoint <= m do not change after step m *)
Lemma G_stable : forall g m m' i j, square g -> gsym g -> (m <= m')%nat -> (m' <= length g)%nat ->
  (i < length g)%nat -> (j < length g)%nat -> (i <= m \/ j <= m)%nat -> gget (G g m') i j = gget (G g m) i j.
Proof.
  intros g m m' i j Hsq Hsym Hle. induction Hle as [|m' Hle IH]; intros Hm' Hi Hj Hij; auto.
  rewrite G_step by (auto; lia). rewrite IH by (auto; lia).
  destruct (Nat.ltb_spec m' i), (Nat.ltb_spec m' j); simpl; try rewrite orb_false_r; auto. lia.
Qed.

Section Fill.
  Variable g : list (list bool).
  Hypothesis Hsq : square g.
  Hypothesis Hsym : gsym g.
  Let N := length g.
  Definition Fg (i j : nat) : bool := gget (fill_graph g) i j.

  Lemma fill_is_G : fill_graph g = G g N.
  Proof. reflexivity. Qed.

  Lemma F_sym : forall i j, (i < N)%nat -> (j < N)%nat -> Fg i j = Fg j i.
  Proof. intros. unfold Fg. rewrite fill_is_G. destruct (G_inv g N Hsq Hsym (le_n _)) as [Hl [_ Hy]]. apply Hy; lia. Qed.

  Lemma F_contains : forall i j, (i < N)%nat -> (j < N)%nat -> gget g i j = true -> Fg i j = true.
  Proof. intros i j Hi Hj H. unfold Fg. rewrite fill_is_G. apply (G_mono g 0 N); auto; lia. Qed.

  Lemma F_closure : forall k i j, (k < i)%nat -> (k < j)%nat -> (i < N)%nat -> (j < N)%nat ->
    Fg k i = true -> Fg k j = true -> Fg i j = true.
  Proof.
    intros k i j Hki Hkj Hi Hj H1 H2. unfold Fg in *. rewrite fill_is_G in *.
    rewrite (G_stable g k N) in H1, H2 by (auto; lia).
    apply (G_mono g (S k) N); auto; try lia.
    rewrite G_step by (auto; lia). rewrite H1, H2.
    replace (Nat.ltb k i) with true by (symmetry; apply Nat.ltb_lt; auto).
    replace (Nat.ltb k j) with true by (symmetry; apply Nat.ltb_lt; auto).
    apply orb_true_r.
  Qed.

  Lemma G_origin : forall m i j, (m <= N)%nat -> (i < N)%nat -> (j < N)%nat -> gget (G g m) i j = true ->
    gget g i j = true \/ exists k, (k < i)%nat /\ (k < j)%nat /\ Fg k i = true /\ Fg k j = true.
  Proof.
    induction m as [|m IH]; intros i j Hm Hi Hj H.
    - left. exact H.
    - rewrite G_step in H by (auto; lia). apply orb_true_iff in H as [H|H]; [apply IH; auto; lia|].
      repeat rewrite andb_true_iff in H. destruct H as [[[H1 H2] H3] H4].
      apply Nat.ltb_lt in H1, H2. right. exists m. split; auto. split; auto.
      unfold Fg. rewrite fill_is_G. split; apply (G_mono g m N); auto; lia.
  Qed.

  Lemma F_origin : forall i j, (i < N)%nat -> (j < N)%nat -> Fg i j = true ->
    gget g i j = true \/ exists k, (k < i)%nat /\ (k < j)%nat /\ Fg k i = true /\ Fg k j = true.
  Proof. intros i j Hi Hj H. apply (G_origin N); auto. Qed.
End Fill.

(* ------------------------------------------------------------------------------------------ *)
(* first_above: least i > j with row[i] *)
Lemma first_above_spec : forall row j i0 n,
  let p := first_above row j i0 n in
  (p = n /\ forall k, (k < length row)%nat -> (j < i0 + k)%nat -> nth k row false = false) \/
  (exists k, (k < length row)%nat /\ p = Z.of_nat (i0 + k) /\ (j < i0 + k)%nat /\ nth k row false = true /\
             forall k', (k' < k)%nat -> (j < i0 + k')%nat -> nth k' row false = false).
Proof.
  induction row as [|b t IH]; intros j i0 n; simpl.
  - left. split; auto. intros; lia.
  - destruct (Nat.ltb j i0 && b) eqn:E.
    + right. apply andb_true_iff in E as [E1 E2]. apply Nat.ltb_lt in E1. exists 0%nat.
      split; [lia|]. split; [f_equal; lia|]. split; [lia|]. split; auto. intros; lia.
    + destruct (IH j (S i0) n) as [[Hp Hall]|[k [Hk [Hp [Hjk [Hb Hmin]]]]]].
      * left. split; auto. intros [|k] Hk Hjk.
        -- destruct (Nat.ltb_spec j i0); simpl in *; [auto|lia].
        -- apply Hall; lia.
      * right. exists (S k). split; [lia|]. split; [rewrite Hp; f_equal; lia|]. split; [lia|]. split; auto.
        intros [|k'] Hk' Hjk'.
        -- destruct (Nat.ltb_spec j i0); simpl in *; [auto|lia].
        -- apply Hmin; lia.
Qed.

Lemma nth_map2_gen : forall {A B C} (f : A -> B -> C) l1 l2 k da db dc,
  (k < length l1)%nat -> (k < length l2)%nat -> nth k (map2 f l1 l2) dc = f (nth k l1 da) (nth k l2 db).
Proof. intros. apply nth_map2; auto. Qed.

(* the spec output: parent j = least i > j adjacent to j in the filled graph, N if none *)
Theorem etree_of_graph_spec : forall g, square g -> gsym g ->
  let N := length g in
  length (etree_of_graph g) = N /\
  forall j, (j < N)%nat ->
    let p := nth j (etree_of_graph g) 0%Z in
    (Z.of_nat j < p <= Z.of_nat N)%Z /\
    (forall i, (j < i)%nat -> (Z.of_nat i < p)%Z -> Fg g j i = false) /\
    ((p < Z.of_nat N)%Z -> Fg g j (Z.to_nat p) = true).
Proof.
  intros g Hsq Hsym N. destruct (G_inv g N Hsq Hsym (le_n _)) as [Hl [Hs Hy]].
  unfold etree_of_graph. fold N. change (fill_graph g) with (G g N).
  split; [rewrite map2_length, seq_length, Hl; fold N; lia|].
  intros j Hj. cbv zeta.
  rewrite (nth_map2 _ _ _ _ O [] 0%Z); [|rewrite seq_length; auto|rewrite Hl; auto].
  rewrite seq_nth by auto. simpl.
  set (row := nth j (G g N) []).
  assert (Lrow : length row = N).
  { unfold square in Hs. rewrite Forall_forall in Hs. rewrite (Hs row); [exact Hl|]. apply nth_In. rewrite Hl. auto. }
  destruct (first_above_spec row j 0 (Z.of_nat N)) as [[Hp Hall]|[k [Hk [Hp [Hjk [Hb Hmin]]]]]].
  - rewrite Hp. split; [lia|]. split; [|lia]. intros i Hi _.
    destruct (Nat.lt_ge_cases i N) as [HiN|HiN].
    + unfold Fg, gget. change (fill_graph g) with (G g N). fold row. apply Hall; lia.
    + unfold Fg, gget. change (fill_graph g) with (G g N). fold row. apply nth_overflow. lia.
  - simpl in Hp, Hjk. rewrite Hp. split; [lia|]. split.
    + intros i Hi Hik. unfold Fg, gget. change (fill_graph g) with (G g N). fold row. apply Hmin; simpl; lia.
    + intros _. rewrite Nat2Z.id. unfold Fg, gget. change (fill_graph g) with (G g N). fold row. exact Hb.
Qed.
