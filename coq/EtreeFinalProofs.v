(* EtreeFinalProofs.v -- sp_colorder (non-symmetric mode) reports the column elimination tree of the FINAL
   A*Pc: the etree array returned by the model equals coletree_spec evaluated on the returned
   (colbeg, colend) -- for every well-formed CSC pattern and every bijection perm_c. *)
From Coq Require Import ZArith List Bool Lia Arith.
From SLU Require Import EtreeModel EtreeSpec EtreeArrProofs EtreePermProofs EtreeUFProofs EtreePostProofs
     EtreeColorderProofs EtreeSpecProofs EtreeGameProofs EtreeTheoryProofs EtreeLiuProofs EtreeFullProofs
     EtreeReorderProofs.
Import ListNotations.
Local Open Scope Z_scope.

Lemma incol_ext : forall cb ce cb' ce' ar i i' r,
  aget cb' i' = aget cb i -> aget ce' i' = aget ce i -> (incol cb' ce' ar i' r <-> incol cb ce ar i r).
Proof.
  intros cb ce cb' ce' ar i i' r H1 H2. unfold incol. rewrite H1, H2. tauto.
Qed.

Theorem colorder_etree_final : forall m n colptr rowind perm_c,
  0 <= m -> 0 <= n -> wf_csc m n colptr rowind -> is_perm n perm_c ->
  exists colbeg colend perm_out etree,
    colorder false m n colptr rowind perm_c = Some (colbeg, colend, perm_out, etree) /\
    wf_pat m n colbeg colend rowind /\
    etree = coletree_spec colbeg colend rowind n.
Proof.
  intros m n colptr rowind perm_c Hm Hn Hwfc Hperm.
  destruct (colorder_nonsym_ok m n colptr rowind perm_c Hm Hn Hwfc Hperm)
    as [[[[cb' ce'] perm'] et'] [et0 [cb0 [ce0 [Eco [Hab [Hwf0 [Ect [Hfor0 Hpost]]]]]]]]].
  exists cb', ce', perm', et'. split; auto.
  destruct Hpost as [Etp [Hpp [Hpo [Hcomp [Lcb' [Lce' [Hcols' [Hren [Hfor' _]]]]]]]]].
  set (post := firstn (Z.to_nat n) (postv n et0)) in *.
  pose proof (is_perm_inj_on _ _ Hpp) as [Hsr Hsi].
  (* sigma = post as a function *)
  set (sg := fun i => match aget post i with Some v => v | None => 0 end).
  assert (Hsg : forall i, 0 <= i < n -> aget post i = Some (sg i) /\ 0 <= sg i < n).
  { intros i Hi. destruct (Hsr i Hi) as [v [Ev Hv]]. unfold sg. rewrite Ev. auto. }
  assert (Hsg_pos : forall i, 0 <= i < n -> sg i = pos n et0 i).
  { intros i Hi. destruct (Hsg i Hi) as [E1 _]. unfold post in E1. rewrite aget_firstn in E1 by lia.
    rewrite (postv_get n et0 Hn Hfor0) in E1 by lia. congruence. }
  assert (Hsg_surj : forall j, 0 <= j < n -> exists i, 0 <= i < n /\ sg i = j).
  { intros j Hj. destruct (is_perm_surj n post j Hpp Hj) as [i [Hi Ei]]. exists i. split; auto.
    destruct (Hsg i Hi) as [E1 _]. congruence. }
  (* columns of the final matrix are those of A*Pc_in, renumbered by sigma *)
  assert (Hcb : forall i, 0 <= i < n -> aget cb' (sg i) = aget cb0 i /\ aget ce' (sg i) = aget ce0 i).
  { intros i Hi. destruct (is_perm_surj n perm_c i Hperm Hi) as [j [Hj Ej]].
    destruct (Hab j i Hj Ej) as [Ha Hb].
    destruct (Hcols' j Hj) as [k [Ek [Hk [Hc Hd]]]].
    destruct (Hcomp j Hj) as [pj [Epj [Hpj Epo]]]. assert (pj = i) by congruence. subst pj.
    destruct (Hsg i Hi) as [Es _]. assert (k = sg i) by congruence. subst k.
    rewrite Hc, Hd, Ha, Hb. auto. }
  assert (Hwf' : wf_pat m n cb' ce' rowind).
  { split; auto. split; auto. intros k Hk. destruct (Hsg_surj k Hk) as [i [Hi <-]].
    destruct Hwf0 as [_ [_ Hw]]. destruct (Hw i Hi) as [s [e [Es [Ee Hrows]]]].
    destruct (Hcb i Hi) as [H1 H2]. exists s, e. rewrite H1, H2. auto. }
  split; auto.
  (* the two graphs *)
  set (g := ata_graph n cb0 ce0 rowind). set (g' := ata_graph n cb' ce' rowind).
  assert (Hlen : length g = Z.to_nat n) by apply ga_length.
  assert (Hsq : square g) by apply ga_square.
  assert (Hsym : gsym g) by apply ga_sym.
  assert (Hlen' : length g' = Z.to_nat n) by apply ga_length.
  assert (Hsq' : square g') by apply ga_square.
  assert (Hsym' : gsym g') by apply ga_sym.
  (* et0 is the spec of A*Pc_in *)
  assert (Eet0 : et0 = etree_of_graph g).
  { pose proof (sp_coletree_is_spec m n cb0 ce0 rowind Hm Hn Hwf0) as Hs. unfold coletree_spec in Hs. fold g in Hs. congruence. }
  assert (HPz : forall j, 0 <= j < n -> aget et0 j = Some (Pz g j)).
  { intros j Hj. unfold Pz. rewrite <- Eet0. rewrite aget_nth_error by lia. apply nth_error_nth'.
    destruct Hfor0 as [Hl _]. unfold alen in Hl. lia. }
  (* reordering theorem *)
  assert (Hre : forall j, 0 <= j < n -> Pz g' (sg j) = if Pz g j =? n then n else sg (Pz g j)).
  { apply (reorder_parent n (Eg g) (Fz g) (Eg g') (Fz g') (Pz g) (Pz g') sg).
    - apply (I_Fsym n g Hlen Hsq Hsym).
    - apply (I_EF n g Hlen Hsq Hsym).
    - apply (I_Fclos n g Hlen Hsq Hsym).
    - apply (I_Forig n g Hlen Hsq Hsym).
    - apply (I_Pspec n g Hlen Hsq Hsym).
    - apply (I_Fsym n g' Hlen' Hsq' Hsym').
    - apply (I_EF n g' Hlen' Hsq' Hsym').
    - apply (I_Fclos n g' Hlen' Hsq' Hsym').
    - apply (I_Forig n g' Hlen' Hsq' Hsym').
    - apply (I_Pspec n g' Hlen' Hsq' Hsym').
    - intros i Hi. apply Hsg; auto.
    - intros i j Hi Hj E. destruct (Hsg i Hi) as [E1 _]. destruct (Hsg j Hj) as [E2 _].
      apply (Hsi i j (sg i)); auto. congruence.
    - exact Hsg_surj.
    - intros j Hj Hp. rewrite !Hsg_pos by (auto; destruct (I_Pspec n g Hlen Hsq Hsym j Hj) as [? _]; lia).
      apply (pos_parent n et0 Hn Hfor0 j (Pz g j) Hj). apply HPz; auto.
    - intros i j Hi Hj. destruct (Hsg i Hi) as [_ Hsi']. destruct (Hsg j Hj) as [_ Hsj'].
      unfold Eg. unfold g, g'. rewrite (ga_edge n cb' ce' rowind (sg i) (sg j)) by auto.
      rewrite (ga_edge n cb0 ce0 rowind i j) by auto.
      destruct (Hcb i Hi) as [A1 A2]. destruct (Hcb j Hj) as [B1 B2].
      split; intros [r [H1 H2]]; exists r.
      + split; [apply (incol_ext cb0 ce0 cb' ce' rowind i (sg i) r A1 A2); auto|apply (incol_ext cb0 ce0 cb' ce' rowind j (sg j) r B1 B2); auto].
      + split; [apply (incol_ext cb0 ce0 cb' ce' rowind i (sg i) r A1 A2); auto|apply (incol_ext cb0 ce0 cb' ce' rowind j (sg j) r B1 B2); auto]. }
  (* the returned etree is the spec of the final matrix *)
  unfold coletree_spec. fold g'.
  apply (parent_is_spec n g' et'); auto.
  - apply (Pz_list n g' Hlen' Hsq' Hsym').
  - destruct Hfor' as [Hl _]. auto.
  - intros k Hk. destruct (Hsg_surj k Hk) as [j [Hj <-]].
    destruct (Hren j Hj) as [e [pi [Ee [Epi Eet]]]].
    destruct (Hsg j Hj) as [Esj _]. assert (pi = sg j) by congruence. subst pi.
    assert (e = Pz g j) by (rewrite (HPz j Hj) in Ee; congruence). subst e.
    rewrite Eet, (Hre j Hj).
    destruct (Pz g j =? n) eqn:Epn; auto.
    apply Z.eqb_neq in Epn. destruct (I_Pspec n g Hlen Hsq Hsym j Hj) as [Hp _].
    destruct (Hsg (Pz g j) ltac:(lia)) as [Es _]. exact Es.
Qed.
