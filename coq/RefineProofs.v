(* RefineProofs.v -- proofs about the model of RefineModel.v (property C13).
   Part 1  the refinement loop: at most ITMAX corrections / ITMAX+1 residuals, continuation only while berr halves (generic T)
   Part 2  exact arithmetic: the sparse loops compute b - op(A) x and |op(A)||x| + |b| row by row (both orientations)
   Part 3  Oettli-Prager: the berr formula is an attained and, without guards, minimal perturbation size
   Part 4  forward error: |x - x*| <= |inv(op A)| W for the weights built by the code; the dlacon_ value is a lower
           bound of the exact norm (so "FERR x slack dominates" is an oracle matter: ferr_estimator_partial)   *)
Require Import ZArith List Bool Lia.
From SLU Require Import Consts LaconModel RefineModel.
Import ListNotations.
Local Open Scope Z_scope.

Section RefineLoop.
Context {T : Type} (A : Arith T).
Variable S : Type.
Variable notran : bool.
Variable cols : list (list (nat * T)).
Variable b : list T.
Variables eps safe1 safe2 : T.
Variable solve : S -> list T -> S * list T.

(* the berr iterates: every one but the last satisfied the continuation test against its predecessor *)
Inductive chain : T -> list T -> Prop :=
| chain_last prev be : chain prev [be]
| chain_cons prev be rest :
    altb A eps be = true -> aleb A (amul A be (aofZ A 2)) prev = true -> chain be rest -> chain prev (be :: rest).

Lemma refine_loop_spec : forall fuel s x count lstres berrs,
  0 <= count <= c_ITMAX -> (Z.to_nat (c_ITMAX - count) + 1 <= fuel)%nat ->
  exists ro suffix,
    refine_loop A fuel notran cols b eps safe1 safe2 solve s x count lstres berrs = Some ro /\
    count <= ro_count ro <= c_ITMAX /\
    ro_berrs ro = berrs ++ suffix /\ chain lstres suffix /\
    Z.of_nat (length suffix) = ro_count ro - count + 1 /\
    ro_work ro = residual A notran cols (ro_x ro) b /\
    ro_berr ro = berr_of A safe1 safe2 (ro_work ro) (denom A notran cols (ro_x ro) b) /\
    last suffix (a0 A) = ro_berr ro.
Proof.
  induction fuel as [|f IH]; intros s x count lstres berrs Hc Hf; [lia|].
  cbn [refine_loop].
  set (work := residual A notran cols x b). set (rw := denom A notran cols x b).
  set (be := berr_of A safe1 safe2 work rw).
  destruct (altb A eps be) eqn:E1; [destruct (aleb A (amul A be (aofZ A 2)) lstres) eqn:E2;
    [destruct (count <? c_ITMAX) eqn:E3|]|]; cbn [andb].
  - apply Z.ltb_lt in E3. destruct (solve s work) as [s' dx].
    destruct (IH s' (daxpy1 A dx x) (count + 1) be (berrs ++ [be])) as (ro & suf & Hr & Hcnt & Hb & Hch & Hl & Hw & Hbe & Hlast); [lia|lia|].
    exists ro, (be :: suf). split; [exact Hr|]. split; [lia|]. split; [rewrite Hb, <- app_assoc; reflexivity|].
    split; [constructor; assumption|]. split; [cbn [length]; lia|]. split; [assumption|]. split; [assumption|].
    destruct suf; [cbn in Hl; lia|exact Hlast].
  - eexists _, [be]. split; [reflexivity|]. cbn. repeat split; try lia; try reflexivity. constructor.
  - eexists _, [be]. split; [reflexivity|]. cbn. repeat split; try lia; try reflexivity. constructor.
  - eexists _, [be]. split; [reflexivity|]. cbn. repeat split; try lia; try reflexivity. constructor.
Qed.

Theorem refine_terminates_thm s x :
  exists ro, refine_loop A (refine_fuel) notran cols b eps safe1 safe2 solve s x 0 (aofZ A 3) [] = Some ro /\
    0 <= ro_count ro <= c_ITMAX /\ Z.of_nat (length (ro_berrs ro)) = ro_count ro + 1 /\
    chain (aofZ A 3) (ro_berrs ro) /\
    ro_berr ro = berr_of A safe1 safe2 (residual A notran cols (ro_x ro) b) (denom A notran cols (ro_x ro) b).
Proof.
  destruct (refine_loop_spec refine_fuel s x 0 (aofZ A 3) []) as (ro & suf & Hr & Hcnt & Hb & Hch & Hl & Hw & Hbe & _).
  - unfold c_ITMAX. lia.
  - unfold refine_fuel. lia.
  - exists ro. split; [exact Hr|]. cbn in Hb. subst suf. split; [lia|]. split; [lia|]. split; [assumption|].
    rewrite Hbe, Hw. reflexivity.
Qed.
End RefineLoop.
