(* RefineProofs.v -- proofs about the model of RefineModel.v (property C13).
   Part 1  the refinement loop: at most ITMAX corrections / ITMAX+1 residuals, continuation only while berr halves (generic T)
   Part 2  exact arithmetic: the sparse loops compute b - op(A) x and |op(A)||x| + |b| row by row (both orientations)
   Part 3  Oettli-Prager: the berr formula is an attained and, without guards, minimal perturbation size
   Part 4  forward error: |x - x*| <= |inv(op A)| W for the weights built by the code; the dlacon_ value is a lower
           bound of the exact norm (so "FERR x slack dominates" is an oracle matter: ferr_estimator_partial)   *)
Require Import ZArith List Bool Lia QArith Qabs Lqa Qreduction.
From SLU Require Import Consts LaconModel LaconProofs RefineModel.
Import ListNotations.

(* ================================================================== Part 1 *)
Local Open Scope Z_scope.

Section RefineLoop.
Context {T : Type} (A : Arith T).
Variable S : Type.
Variable notran : bool.
Variable cols : list (list (nat * T)).
Variable b : list T.
Variables eps safe1 safe2 : T.
Variable solve : S -> list T -> S * list T.

(* the berr iterates: every one but the last satisfied the continuation test against its predecessor *)
Inductive chain : T -> list T -> Prop :=
| chain_last prev be : chain prev [be]
| chain_cons prev be rest :
    altb A eps be = true -> aleb A (amul A be (aofZ A 2)) prev = true -> chain be rest -> chain prev (be :: rest).

Lemma refine_loop_spec : forall fuel s x count lstres berrs,
  0 <= count <= c_ITMAX -> (Z.to_nat (c_ITMAX - count) + 1 <= fuel)%nat ->
  exists ro suffix,
    refine_loop A fuel notran cols b eps safe1 safe2 solve s x count lstres berrs = Some ro /\
    count <= ro_count ro <= c_ITMAX /\
    ro_berrs ro = berrs ++ suffix /\ chain lstres suffix /\
    Z.of_nat (length suffix) = ro_count ro - count + 1 /\
    ro_work ro = residual A notran cols (ro_x ro) b /\
    ro_berr ro = berr_of A safe1 safe2 (ro_work ro) (denom A notran cols (ro_x ro) b) /\
    last suffix (a0 A) = ro_berr ro.
Proof.
  induction fuel as [|f IH]; intros s x count lstres berrs Hc Hf; [lia|].
  cbn [refine_loop].
  set (work := residual A notran cols x b). set (rw := denom A notran cols x b).
  set (be := berr_of A safe1 safe2 work rw).
  destruct (altb A eps be) eqn:E1; [destruct (aleb A (amul A be (aofZ A 2)) lstres) eqn:E2;
    [destruct (count <? c_ITMAX) eqn:E3|]|]; cbn [andb].
  - apply Z.ltb_lt in E3. destruct (solve s work) as [s' dx].
    destruct (IH s' (daxpy1 A dx x) (count + 1) be (berrs ++ [be])) as (ro & suf & Hr & Hcnt & Hb & Hch & Hl & Hw & Hbe & Hlast); [lia|lia|].
    exists ro, (be :: suf). split; [exact Hr|]. split; [lia|]. split; [rewrite Hb, <- app_assoc; reflexivity|].
    split; [constructor; assumption|]. split; [cbn [length]; lia|]. split; [assumption|]. split; [assumption|].
    destruct suf; [cbn in Hl; lia|exact Hlast].
  - eexists _, [be]. split; [reflexivity|]. cbn. repeat split; try lia; try reflexivity. constructor.
  - eexists _, [be]. split; [reflexivity|]. cbn. repeat split; try lia; try reflexivity. constructor.
  - eexists _, [be]. split; [reflexivity|]. cbn. repeat split; try lia; try reflexivity. constructor.
Qed.

Theorem refine_terminates_thm s x :
  exists ro, refine_loop A (refine_fuel) notran cols b eps safe1 safe2 solve s x 0 (aofZ A 3) [] = Some ro /\
    0 <= ro_count ro <= c_ITMAX /\ Z.of_nat (length (ro_berrs ro)) = ro_count ro + 1 /\
    chain (aofZ A 3) (ro_berrs ro) /\
    ro_berr ro = berr_of A safe1 safe2 (residual A notran cols (ro_x ro) b) (denom A notran cols (ro_x ro) b).
Proof.
  destruct (refine_loop_spec refine_fuel s x 0 (aofZ A 3) []) as (ro & suf & Hr & Hcnt & Hb & Hch & Hl & Hw & Hbe & _).
  - unfold c_ITMAX. lia.
  - unfold refine_fuel. lia.
  - exists ro. split; [exact Hr|]. cbn in Hb. subst suf. split; [lia|]. split; [lia|]. split; [assumption|].
    rewrite Hbe, Hw. reflexivity.
Qed.
End RefineLoop.
Local Close Scope Z_scope.
Local Open Scope Q_scope.

(* ================================================================== Part 2 (R2.v) *)

(* ---------------------------------------------------------------- specification side: rows of op(A) as lists of (a_ij, x_j) *)
Notation colsQ := (list (list (nat * Q))).

Fixpoint sum_prod (l : list (Q * Q)) : Q := match l with [] => 0 | (v, y) :: r => v * y + sum_prod r end.
Fixpoint sum_absprod (l : list (Q * Q)) : Q := match l with [] => 0 | (v, y) :: r => Qabs v * Qabs y + sum_absprod r end.

(* entries of row i of A paired with the x they multiply, column by column (no transpose) *)
Fixpoint col_pick (i : nat) (xk : Q) (col : list (nat * Q)) : list (Q * Q) :=
  match col with [] => [] | e :: r => if Nat.eqb (fst e) i then (snd e, xk) :: col_pick i xk r else col_pick i xk r end.
Fixpoint row_terms (i : nat) (xc : list (Q * list (nat * Q))) : list (Q * Q) :=
  match xc with [] => [] | (xk, col) :: r => col_pick i xk col ++ row_terms i r end.
(* entries of row k of A' = column k of A paired with x at their row index *)
Definition col_terms (d : Q) (x : list Q) (col : list (nat * Q)) : list (Q * Q) :=
  map (fun e => (snd e, nth (fst e) x d)) col.

Definition op_terms (notran : bool) (cols : colsQ) (x : list Q) (i : nat) : list (Q * Q) :=
  if notran then row_terms i (combine x cols) else col_terms 0 x (nth i cols []).

Lemma sum_prod_app a b : sum_prod (a ++ b) == sum_prod a + sum_prod b.
Proof. induction a as [|[v y] r IH]; cbn; [lra|]. rewrite IH. lra. Qed.
Lemma sum_absprod_app a b : sum_absprod (a ++ b) == sum_absprod a + sum_absprod b.
Proof. induction a as [|[v y] r IH]; cbn; [lra|]. rewrite IH. lra. Qed.
Lemma sum_absprod_nonneg l : 0 <= sum_absprod l.
Proof. induction l as [|[v y] r IH]; cbn; [lra|]. pose proof (Qabs_nonneg v). pose proof (Qabs_nonneg y). nra. Qed.

Section RefineQ.
Variable A : Arith Q.
Hypothesis ok : ArithQ_ok A.
Local Notation z0 := (a0 A).

(* generic scatter  rw[fst e] += g (snd e)  over one column *)
Fixpoint gsum (g : Q -> Q) (i : nat) (col : list (nat * Q)) : Q :=
  match col with [] => 0 | e :: r => (if Nat.eqb (fst e) i then g (snd e) else 0) + gsum g i r end.

Lemma scatter_gen (g : Q -> Q) n col : forall rw, length rw = n ->
  let rw' := fold_left (fun rw (e : nat * Q) => upd rw (fst e) (aadd A (nth (fst e) rw z0) (g (snd e)))) col rw in
  length rw' = n /\ forall i, (i < n)%nat -> nth i rw' z0 == nth i rw z0 + gsum g i col.
Proof.
  induction col as [|e r IH]; intros rw Hl; cbn.
  - split; [assumption|]. intros. lra.
  - destruct (IH (upd rw (fst e) (aadd A (nth (fst e) rw z0) (g (snd e))))) as [Hl' Hv].
    { rewrite upd_length. assumption. }
    split; [assumption|]. intros i Hi. rewrite (Hv i Hi). rewrite nth_upd.
    destruct (Nat.eqb i (fst e)) eqn:E.
    + apply Nat.eqb_eq in E. subst i. rewrite Nat.eqb_refl.
      replace (fst e <? length rw)%nat with true by (symmetry; apply Nat.ltb_lt; lia). cbn [andb].
      rewrite (ok_add A ok). lra.
    + cbn [andb]. rewrite Nat.eqb_sym, E. lra.
Qed.

Lemma gsum_scale c i col : gsum (fun v => c * v) i col == c * gsum (fun v => v) i col.
Proof. induction col as [|e r IH]; cbn; [lra|]. rewrite IH. destruct (Nat.eqb (fst e) i); lra. Qed.
Lemma gsum_pick i xk col : xk * gsum (fun v => v) i col == sum_prod (col_pick i xk col).
Proof. induction col as [|e r IH]; cbn; [lra|]. destruct (Nat.eqb (fst e) i); cbn; rewrite <- IH; lra. Qed.
Lemma gsum_pick_abs i xk col : Qabs xk * gsum Qabs i col == sum_absprod (col_pick i xk col).
Proof. induction col as [|e r IH]; cbn; [lra|]. destruct (Nat.eqb (fst e) i); cbn; rewrite <- IH; lra. Qed.
Lemma gsum_ext g h i col : (forall v, g v == h v) -> gsum g i col == gsum h i col.
Proof. intros H. induction col as [|e r IH]; cbn; [lra|]. rewrite IH. destruct (Nat.eqb (fst e) i); [rewrite H|]; lra. Qed.

(* ---- no transpose: y := alpha*A*x + y *)
Lemma gemvN_spec alpha n : forall xc y, length y = n ->
  let y' := fold_left (fun y (p : Q * list (nat * Q)) =>
               let (xj, col) := p in
               if aeqb A xj z0 then y
               else let temp := amul A alpha xj in
                    fold_left (fun y e => upd y (fst e) (aadd A (nth (fst e) y z0) (amul A temp (snd e)))) col y) xc y in
  length y' = n /\ forall i, (i < n)%nat -> nth i y' z0 == nth i y z0 + alpha * sum_prod (row_terms i xc).
Proof.
  induction xc as [|[xj col] r IH]; intros y Hl; cbn [fold_left row_terms].
  - split; [assumption|]. intros. cbn. lra.
  - destruct (aeqb A xj z0) eqn:E.
    + apply (ok_eqb A ok) in E. rewrite (ok0 A ok) in E.
      destruct (IH y Hl) as [Hl' Hv]. split; [assumption|]. intros i Hi. rewrite (Hv i Hi), sum_prod_app.
      rewrite <- gsum_pick, E. ring.
    + destruct (scatter_gen (fun v => amul A (amul A alpha xj) v) n col y Hl) as [Hl1 Hv1].
      destruct (IH _ Hl1) as [Hl' Hv]. split; [assumption|]. intros i Hi.
      rewrite (Hv i Hi), (Hv1 i Hi), sum_prod_app, <- gsum_pick.
      rewrite (gsum_ext _ (fun v => (alpha * xj) * v)).
      2:{ intros v. rewrite !(ok_mul A ok). reflexivity. }
      rewrite gsum_scale. ring.
Qed.

Lemma map_nth_in {X Y} (f : X -> Y) l k dx dy : (k < length l)%nat -> nth k (map f l) dy = f (nth k l dx).
Proof. intros H. rewrite (nth_indep _ dy (f dx)) by (rewrite map_length; assumption). apply map_nth. Qed.

Lemma col_terms_cons d x e r : col_terms d x (e :: r) = (snd e, nth (fst e) x d) :: col_terms d x r.
Proof. reflexivity. Qed.

Lemma fold_sum_prod (col : list (nat * Q)) x : forall acc q, acc == q ->
  fold_left (fun t (e : nat * Q) => aadd A t (amul A (snd e) (nth (fst e) x z0))) col acc == q + sum_prod (col_terms z0 x col).
Proof.
  induction col as [|e r IH]; intros acc q H; [cbn; rewrite H; lra|].
  rewrite col_terms_cons. cbn [fold_left sum_prod].
  rewrite (IH _ (q + snd e * nth (fst e) x z0)); [lra|]. rewrite (ok_add A ok), (ok_mul A ok), H. reflexivity.
Qed.

Lemma col_terms_default d1 d2 x col : d1 == d2 -> sum_prod (col_terms d1 x col) == sum_prod (col_terms d2 x col)
                                                  /\ sum_absprod (col_terms d1 x col) == sum_absprod (col_terms d2 x col).
Proof.
  intros H. induction col as [|e r [IH1 IH2]]; [cbn; split; reflexivity|]. rewrite !col_terms_cons. cbn [sum_prod sum_absprod].
  assert (E : nth (fst e) x d1 == nth (fst e) x d2).
  { destruct (Nat.lt_ge_cases (fst e) (length x)) as [Hl|Hl].
    - rewrite (nth_indep x d1 d2 Hl). reflexivity.
    - rewrite !nth_overflow by assumption. exact H. }
  split; [rewrite IH1, E; reflexivity|rewrite IH2, E; reflexivity].
Qed.

(* ---- the residual  work = b - op(A) x *)
Theorem residual_spec notran (cols : colsQ) x b n : length b = n -> length cols = n -> length x = n ->
  length (residual A notran cols x b) = n /\
  forall i, (i < n)%nat ->
    nth i (residual A notran cols x b) z0 == nth i b z0 - sum_prod (op_terms notran cols x i).
Proof.
  intros Hb Hc Hx. unfold residual, sp_gemv.
  assert (Hm1 : aopp A (a1 A) == -(1)) by (rewrite (ok_opp A ok), (ok1 A ok); reflexivity).
  assert (E1 : aeqb A (aopp A (a1 A)) z0 = false).
  { destruct (aeqb A (aopp A (a1 A)) z0) eqn:E; [|reflexivity]. apply (ok_eqb A ok) in E. rewrite Hm1, (ok0 A ok) in E. discriminate. }
  assert (E2 : aeqb A (a1 A) (a1 A) = true) by (apply (ok_eqb A ok); reflexivity).
  rewrite E1, E2. cbn [andb]. destruct notran.
  - unfold gemvN. destruct (gemvN_spec (aopp A (a1 A)) n (combine x cols) b Hb) as [Hl Hv].
    split; [assumption|]. intros i Hi. rewrite (Hv i Hi), Hm1. unfold op_terms. lra.
  - unfold gemvT. split; [rewrite map_length, combine_length; lia|]. intros i Hi.
    rewrite (map_nth_in _ _ _ (z0, [])) by (rewrite combine_length; lia).
    rewrite combine_nth by lia.
    rewrite (ok_add A ok), (ok_mul A ok), Hm1.
    rewrite (fold_sum_prod (nth i cols []) x z0 0 (ok0 A ok)).
    unfold op_terms. destruct (col_terms_default z0 0 x (nth i cols []) (ok0 A ok)) as [E _]. rewrite E. lra.
Qed.

(* ---- the denominators |op(A)||x| + |b| *)
Lemma denomN_spec n : forall xc rw, length rw = n ->
  let rw' := fold_left (fun rw (p : Q * list (nat * Q)) =>
               let (xk0, col) := p in
               let xk := afabs A xk0 in
               fold_left (fun rw e => upd rw (fst e) (aadd A (nth (fst e) rw z0) (amul A (afabs A (snd e)) xk))) col rw) xc rw in
  length rw' = n /\ forall i, (i < n)%nat -> nth i rw' z0 == nth i rw z0 + sum_absprod (row_terms i xc).
Proof.
  induction xc as [|[xk col] r IH]; intros rw Hl; cbn [fold_left row_terms].
  - split; [assumption|]. intros. cbn. lra.
  - destruct (scatter_gen (fun v => amul A (afabs A v) (afabs A xk)) n col rw Hl) as [Hl1 Hv1].
    destruct (IH _ Hl1) as [Hl' Hv]. split; [assumption|]. intros i Hi.
    rewrite (Hv i Hi), (Hv1 i Hi), sum_absprod_app, <- gsum_pick_abs.
    rewrite (gsum_ext _ (fun v => Qabs xk * Qabs v)).
    2:{ intros v. rewrite (ok_mul A ok), !(ok_abs A ok). lra. }
    assert (G : forall c (h : Q -> Q) cl, gsum (fun v => c * h v) i cl == c * gsum h i cl).
    { intros c h cl. induction cl as [|e rr IHc]; cbn; [lra|]. rewrite IHc. destruct (Nat.eqb (fst e) i); lra. }
    rewrite G. ring.
Qed.

Lemma fold_sum_absprod (col : list (nat * Q)) x : forall acc q, acc == q ->
  fold_left (fun s (e : nat * Q) => aadd A s (amul A (afabs A (snd e)) (afabs A (nth (fst e) x z0)))) col acc
  == q + sum_absprod (col_terms z0 x col).
Proof.
  induction col as [|e r IH]; intros acc q H; [cbn; rewrite H; lra|].
  rewrite col_terms_cons. cbn [fold_left sum_absprod].
  rewrite (IH _ (q + Qabs (snd e) * Qabs (nth (fst e) x z0))); [lra|].
  rewrite (ok_add A ok), (ok_mul A ok), !(ok_abs A ok), H. reflexivity.
Qed.

Theorem denom_spec notran (cols : colsQ) x b n : length b = n -> length cols = n -> length x = n ->
  length (denom A notran cols x b) = n /\
  forall i, (i < n)%nat ->
    nth i (denom A notran cols x b) z0 == Qabs (nth i b z0) + sum_absprod (op_terms notran cols x i).
Proof.
  intros Hb Hc Hx. unfold denom. destruct notran.
  - unfold denomN. destruct (denomN_spec n (combine x cols) (map (afabs A) b)) as [Hl Hv]; [rewrite map_length; assumption|].
    split; [assumption|]. intros i Hi. rewrite (Hv i Hi).
    rewrite (map_nth_in _ _ _ z0) by lia. rewrite (ok_abs A ok). unfold op_terms. reflexivity.
  - unfold denomT. split; [rewrite map_length, combine_length; lia|]. intros i Hi.
    rewrite (map_nth_in _ _ _ (z0, [])) by (rewrite combine_length; lia).
    rewrite combine_nth by lia.
    rewrite (ok_add A ok), (ok_abs A ok).
    rewrite (fold_sum_absprod (nth i cols []) x z0 0 (ok0 A ok)).
    unfold op_terms. destruct (col_terms_default z0 0 x (nth i cols []) (ok0 A ok)) as [_ E]. rewrite E. lra.
Qed.
End RefineQ.

(* ================================================================== Part 3 (R3.v) *)

(* ---------------------------------------------------------------- Oettli-Prager, one row *)
(* a perturbation of one row: deltas for the matrix entries, one delta for the right-hand side *)
Fixpoint perturb (ds : list Q) (row : list (Q * Q)) : list (Q * Q) :=
  match ds, row with d :: ds', (v, y) :: r => (v + d, y) :: perturb ds' r | _, _ => [] end.
Fixpoint bounded (w : Q) (ds : list Q) (row : list (Q * Q)) : Prop :=
  match ds, row with
  | d :: ds', (v, y) :: r => Qabs d <= w * Qabs v /\ bounded w ds' r
  | [], [] => True
  | _, _ => False
  end.
(* "row i of (A + dA) x = (b + db)_i with |dA| <= w |A|, |db| <= w |b|" *)
Definition row_feasible (w : Q) (row : list (Q * Q)) (b : Q) : Prop :=
  exists ds db, bounded w ds row /\ Qabs db <= w * Qabs b /\ sum_prod (perturb ds row) == b + db.

Lemma Qabs_idem v : Qabs (Qabs v) == Qabs v.
Proof. apply Qabs_pos, Qabs_nonneg. Qed.

Definition sgnq (y : Q) : Q := if Qle_bool 0 y then 1 else -(1).
Lemma sgnq_mul y : sgnq y * y == Qabs y.
Proof.
  unfold sgnq. destruct (Qle_bool 0 y) eqn:E.
  - apply Qle_bool_iff in E. rewrite Qabs_pos by assumption. lra.
  - assert (y < 0). { apply Qnot_le_lt. intros H. apply Qle_bool_iff in H. congruence. }
    rewrite Qabs_neg by lra. lra.
Qed.
Lemma sgnq_abs y : Qabs (sgnq y) == 1.
Proof. unfold sgnq. destruct (Qle_bool 0 y); reflexivity. Qed.

Lemma perturb_sum t row :
  sum_prod (perturb (map (fun vy => t * Qabs (fst vy) * sgnq (snd vy)) row) row) == sum_prod row + t * sum_absprod row.
Proof.
  induction row as [|[v y] r IH]; cbn [perturb map fst snd sum_prod sum_absprod]; [lra|]. rewrite IH.
  setoid_replace ((v + t * Qabs v * sgnq y) * y) with (v * y + t * Qabs v * (sgnq y * y)) by ring.
  rewrite sgnq_mul. ring.
Qed.
Lemma perturb_bounded t w row : Qabs t <= w ->
  bounded w (map (fun vy => t * Qabs (fst vy) * sgnq (snd vy)) row) row.
Proof.
  intros Ht. induction row as [|[v y] r IH]; cbn [bounded map fst snd]; [exact I|]. split; [|assumption].
  rewrite !Qabs_Qmult, sgnq_abs, Qabs_idem. pose proof (Qabs_nonneg v). nra.
Qed.

Theorem op_row_attained w row b : 0 <= w ->
  Qabs (b - sum_prod row) <= w * (Qabs b + sum_absprod row) -> row_feasible w row b.
Proof.
  intros Hw H. set (r := b - sum_prod row) in *. set (d := Qabs b + sum_absprod row) in *.
  pose proof (Qabs_nonneg b) as Hb. pose proof (sum_absprod_nonneg row) as Hs.
  destruct (Qeq_dec d 0) as [Hd|Hd].
  - (* zero denominator: the residual is zero, no perturbation needed *)
    assert (Hr : r == 0). { rewrite Hd in H. apply Qabs_Qle_condition in H. lra. }
    exists (map (fun _ => 0) row), 0. split; [|split].
    + clear - Hw. induction row as [|[v y] rr IH]; cbn [bounded map]; [exact I|]. split; [|assumption].
      change (Qabs 0) with 0. pose proof (Qabs_nonneg v). nra.
    + change (Qabs 0) with 0. nra.
    + assert (E : sum_prod (perturb (map (fun _ => 0) row) row) == sum_prod row).
      { clear. induction row as [|[v y] rr IH]; cbn [perturb map sum_prod]; [lra|]. rewrite IH. ring. }
      rewrite E. unfold r in Hr. lra.
  - assert (Hdp : 0 < d) by (unfold d in *; lra).
    set (t := r / d).
    assert (Ht : Qabs t <= w).
    { unfold t. unfold Qdiv. rewrite Qabs_Qmult. rewrite (Qabs_pos (/ d)) by (apply Qlt_le_weak, Qinv_lt_0_compat; assumption).
      apply Qle_shift_div_r; [assumption|]. lra. }
    assert (Htd : t * d == r) by (unfold t; field; lra).
    exists (map (fun vy => t * Qabs (fst vy) * sgnq (snd vy)) row), (- (t * Qabs b)). split; [|split].
    + apply perturb_bounded. assumption.
    + rewrite Qabs_opp, Qabs_Qmult, Qabs_idem. nra.
    + rewrite perturb_sum. unfold d in Htd. unfold r in Htd. 
      setoid_replace (t * sum_absprod row) with (t * (Qabs b + sum_absprod row) - t * Qabs b) by ring.
      rewrite Htd. ring.
Qed.

Lemma perturb_split ds : forall row w, bounded w ds row -> 0 <= w ->
  exists e, sum_prod (perturb ds row) == sum_prod row + e /\ Qabs e <= w * sum_absprod row.
Proof.
  induction ds as [|d ds IH]; intros [|[v y] r] w Hb Hw; cbn in Hb; try contradiction.
  - exists 0. cbn [perturb sum_prod sum_absprod]. split; [lra|]. change (Qabs 0) with 0. lra.
  - destruct Hb as [Hd Hr]. destruct (IH r w Hr Hw) as (e & He & Hbe).
    exists (d * y + e). cbn [perturb sum_prod sum_absprod]. split; [rewrite He; ring|].
    eapply Qle_trans; [apply Qabs_triangle|]. rewrite Qabs_Qmult. pose proof (Qabs_nonneg y). nra.
Qed.

Theorem op_row_necessary w row b : 0 <= w -> row_feasible w row b ->
  Qabs (b - sum_prod row) <= w * (Qabs b + sum_absprod row).
Proof.
  intros Hw (ds & db & Hb & Hdb & Heq).
  destruct (perturb_split ds row w Hb Hw) as (e & He & Hbe).
  rewrite He in Heq.
  setoid_replace (b - sum_prod row) with (e - db) by lra.
  eapply Qle_trans; [apply Qabs_triangle|]. rewrite Qabs_opp. nra.
Qed.

(* ---------------------------------------------------------------- the berr formula *)
Lemma sum_prod_le_abs l : Qabs (sum_prod l) <= sum_absprod l.
Proof.
  induction l as [|[v y] r IH]; cbn [sum_prod sum_absprod]; [change (Qabs 0) with 0; lra|].
  eapply Qle_trans; [apply Qabs_triangle|]. rewrite Qabs_Qmult. lra.
Qed.

Section BerrQ.
Variable A : Arith Q.
Hypothesis ok : ArithQ_ok A.
Local Notation z0 := (a0 A).
Variables safe1 safe2 : Q.
Hypothesis Hs1 : 0 <= safe1.
Hypothesis Hs2 : 0 <= safe2.

(* the i-th candidate of the maximum, exactly as coded: safe1 is added when the denominator is <= safe2 *)
Definition guard (d : Q) : Q := if Qle_bool d safe2 then safe1 else 0.
Definition term_spec (w d : Q) : Q := (Qabs w + guard d) / d.

Lemma guard_nonneg d : 0 <= guard d.
Proof. unfold guard. destruct (Qle_bool d safe2); lra. Qed.

Lemma berr_term_some w d : ~ d == 0 -> exists t, berr_term A safe1 safe2 w d = Some t /\ t == term_spec w d.
Proof.
  intros Hd. unfold berr_term, term_spec, guard. destruct (altb A safe2 d) eqn:E1.
  - apply (ok_ltb A ok) in E1.
    assert (H : Qle_bool d safe2 = false).
    { destruct (Qle_bool d safe2) eqn:E; [|reflexivity]. apply Qle_bool_iff in E. lra. }
    rewrite H. eexists. split; [reflexivity|]. rewrite (ok_div A ok), (ok_abs A ok). field. assumption.
  - apply (ltb_false A ok) in E1.
    assert (H : Qle_bool d safe2 = true) by (apply Qle_bool_iff; assumption).
    rewrite H.
    assert (E2 : aeqb A d z0 = false).
    { destruct (aeqb A d z0) eqn:E; [|reflexivity]. apply (ok_eqb A ok) in E. rewrite (ok0 A ok) in E. contradiction. }
    rewrite E2. cbn [negb]. eexists. split; [reflexivity|].
    rewrite (ok_div A ok), (ok_add A ok), (ok_abs A ok). reflexivity.
Qed.

Lemma berr_term_none w d : berr_term A safe1 safe2 w d = None -> d == 0.
Proof.
  unfold berr_term. destruct (altb A safe2 d); [discriminate|].
  destruct (aeqb A d z0) eqn:E; cbn [negb]; [|discriminate].
  intros _. apply (ok_eqb A ok) in E. rewrite (ok0 A ok) in E. assumption.
Qed.

Definition bstep (s : Q) (p : Q * Q) : Q :=
  match berr_term A safe1 safe2 (fst p) (snd p) with Some t => smax A s t | None => s end.

Lemma bstep_spec acc p :
  acc <= bstep acc p /\ (~ snd p == 0 -> term_spec (fst p) (snd p) <= bstep acc p) /\
  (bstep acc p = acc \/ (~ snd p == 0 /\ bstep acc p == term_spec (fst p) (snd p))).
Proof.
  unfold bstep. destruct (berr_term A safe1 safe2 (fst p) (snd p)) as [t|] eqn:Et.
  - assert (Hd : ~ snd p == 0).
    { intros Hd. unfold berr_term in Et. destruct (altb A safe2 (snd p)) eqn:E1.
      - apply (ok_ltb A ok) in E1. lra.
      - destruct (aeqb A (snd p) z0) eqn:E2; cbn [negb] in Et; [discriminate|].
        assert (aeqb A (snd p) z0 = true) by (apply (ok_eqb A ok); rewrite (ok0 A ok); assumption). congruence. }
    destruct (berr_term_some (fst p) (snd p) Hd) as (t' & Et' & Ht'). rewrite Et in Et'. inversion Et'; subst t'.
    destruct (smax_cases A ok acc t) as [[Hlt E]|[Hle E]]; rewrite E.
    + split; [apply Qle_refl|]. split; [intros _; rewrite <- Ht'; lra|left; reflexivity].
    + split; [assumption|]. split; [intros _; rewrite <- Ht'; apply Qle_refl|right; split; assumption].
  - apply berr_term_none in Et. split; [apply Qle_refl|]. split; [intros H; contradiction|left; reflexivity].
Qed.

Lemma fold_berr l : forall acc,
  let r := fold_left bstep l acc in
  acc <= r /\ (forall p, In p l -> ~ snd p == 0 -> term_spec (fst p) (snd p) <= r) /\
  (r = acc \/ exists p, In p l /\ ~ snd p == 0 /\ r == term_spec (fst p) (snd p)).
Proof.
  induction l as [|p l IH]; intros acc; cbn [fold_left].
  - split; [apply Qle_refl|]. split; [intros p []|left; reflexivity].
  - destruct (IH (bstep acc p)) as (H1 & H2 & H3). destruct (bstep_spec acc p) as (B1 & B2 & B3).
    set (r := fold_left bstep l (bstep acc p)) in *.
    split; [lra|]. split.
    + intros q [<-|Hq] Hq0; [specialize (B2 Hq0); lra|apply H2; assumption].
    + destruct H3 as [H3|(q & Hq & Hq0 & H3)].
      * destruct B3 as [B3|[Bd B3]]; [left; rewrite H3; assumption|].
        right. exists p. split; [left; reflexivity|]. split; [assumption|rewrite H3; assumption].
      * right. exists q. split; [right; assumption|]. split; assumption.
Qed.

Lemma berr_of_spec work rw n : length work = n -> length rw = n ->
  let s := berr_of A safe1 safe2 work rw in
  0 <= s /\
  (forall i, (i < n)%nat -> ~ nth i rw z0 == 0 -> term_spec (nth i work z0) (nth i rw z0) <= s) /\
  (s == 0 \/ exists i, (i < n)%nat /\ ~ nth i rw z0 == 0 /\ s == term_spec (nth i work z0) (nth i rw z0)).
Proof.
  intros Hw Hr. unfold berr_of. fold bstep.
  change (fold_left (fun (s : Q) (p : Q * Q) => match berr_term A safe1 safe2 (fst p) (snd p) with
                                                | Some t => smax A s t | None => s end)) with (fold_left bstep).
  destruct (fold_berr (combine work rw) z0) as (H1 & H2 & H3). set (s := fold_left bstep _ _) in *.
  split; [rewrite <- (ok0 A ok); assumption|]. split.
  - intros i Hi Hd. specialize (H2 (nth i work z0, nth i rw z0)). cbn [fst snd] in H2. apply H2; [|assumption].
    rewrite <- combine_nth by lia. apply nth_In. rewrite combine_length. lia.
  - destruct H3 as [H3|(p & Hp & Hd & H3)]; [left; rewrite H3; apply (ok0 A ok)|]. right.
    apply In_nth with (d := (z0, z0)) in Hp. destruct Hp as (i & Hi & Hn).
    rewrite combine_length in Hi. rewrite combine_nth in Hn by lia. subst p. cbn [fst snd] in *.
    exists i. split; [lia|]. split; assumption.
Qed.

(* ---------------------------------------------------------------- the returned berr is an Oettli-Prager backward error *)
Theorem berr_is_oettli_prager_thm notran (cols : colsQ) x b n :
  length b = n -> length cols = n -> length x = n ->
  let s := berr_of A safe1 safe2 (residual A notran cols x b) (denom A notran cols x b) in
  0 <= s /\
  (forall i, (i < n)%nat -> row_feasible s (op_terms notran cols x i) (nth i b z0)) /\
  (forall w, 0 <= w ->
     (forall i, (i < n)%nat -> row_feasible w (op_terms notran cols x i) (nth i b z0)) ->
     (forall i, (i < n)%nat -> let d := Qabs (nth i b z0) + sum_absprod (op_terms notran cols x i) in ~ d == 0 -> safe2 < d) ->
     s <= w).
Proof.
  intros Hb Hc Hx s.
  destruct (residual_spec A ok notran cols x b n Hb Hc Hx) as [Hlr Hr].
  destruct (denom_spec A ok notran cols x b n Hb Hc Hx) as [Hld Hd].
  destruct (berr_of_spec _ _ n Hlr Hld) as (H0 & Hall & Hex). fold s in H0, Hall, Hex.
  split; [assumption|]. split.
  - intros i Hi. apply op_row_attained; [assumption|].
    set (terms := op_terms notran cols x i) in *.
    pose proof (Hr i Hi) as Er. pose proof (Hd i Hi) as Ed. fold terms in Er, Ed.
    pose proof (sum_absprod_nonneg terms) as Hsa. pose proof (Qabs_nonneg (nth i b z0)) as Hba.
    destruct (Qeq_dec (Qabs (nth i b z0) + sum_absprod terms) 0) as [Hz|Hnz].
    + (* zero denominator: b_i = 0 and every product vanishes, so the residual is zero *)
      pose proof (sum_prod_le_abs terms) as Hsp. apply Qabs_Qle_condition in Hsp.
      assert (E0 : nth i b z0 == 0).
      { destruct (Qabs_Qle_condition (nth i b z0) 0) as [Hq _]. specialize (Hq ltac:(lra)). lra. }
      rewrite Hz. setoid_replace (nth i b z0 - sum_prod terms) with (- sum_prod terms) by lra.
      rewrite Qabs_opp. apply Qabs_Qle_condition. lra.
    + assert (Hdd : ~ nth i (denom A notran cols x b) z0 == 0) by (rewrite Ed; assumption).
      specialize (Hall i Hi Hdd). unfold term_spec in Hall.
      pose proof (guard_nonneg (nth i (denom A notran cols x b) z0)) as Hg.
      assert (Hpos : 0 < nth i (denom A notran cols x b) z0) by (rewrite Ed; lra).
      assert (Hq : Qabs (nth i (residual A notran cols x b) z0) / nth i (denom A notran cols x b) z0 <= s).
      { eapply Qle_trans; [|exact Hall]. apply Qle_shift_div_l; [assumption|].
        unfold Qdiv. rewrite <- Qmult_assoc, (Qmult_comm (/ _)), Qmult_inv_r by lra. lra. }
      apply Qmult_le_compat_r with (z := nth i (denom A notran cols x b) z0) in Hq; [|lra].
      unfold Qdiv in Hq. rewrite <- Qmult_assoc, (Qmult_comm (/ _)), Qmult_inv_r, Qmult_1_r in Hq by lra.
      rewrite Er, Ed in Hq. exact Hq.
  - intros w Hw Hfeas Hng. destruct Hex as [Hz|(i & Hi & Hdd & Hs)]; [lra|].
    rewrite Hs. set (terms := op_terms notran cols x i) in *.
    pose proof (Hr i Hi) as Er. pose proof (Hd i Hi) as Ed. fold terms in Er, Ed.
    assert (Hnz : ~ Qabs (nth i b z0) + sum_absprod terms == 0) by (rewrite <- Ed; assumption).
    pose proof (Hng i Hi Hnz) as Hbig. fold terms in Hbig. rewrite <- Ed in Hbig.
    assert (Hguard : guard (nth i (denom A notran cols x b) z0) = 0).
    { unfold guard. destruct (Qle_bool _ safe2) eqn:E; [|reflexivity]. apply Qle_bool_iff in E. lra. }
    unfold term_spec. rewrite Hguard.
    pose proof (op_row_necessary w terms (nth i b z0) Hw (Hfeas i Hi)) as Hn.
    rewrite <- Er, <- Ed in Hn.
    apply Qle_shift_div_r; [lra|]. lra.
Qed.
End BerrQ.

(* ================================================================== Part 4 (R4.v) *)

(* ---------------------------------------------------------------- forward error, exact arithmetic *)
Definition vsub (u v : list Q) : list Q := map (fun p : Q * Q => fst p - snd p) (combine u v).
Definition opv (notran : bool) (cols : colsQ) (n : nat) (v : list Q) : list Q :=
  map (fun i => sum_prod (op_terms notran cols v i)) (seq O n).

Lemma vsub_length u v : length u = length v -> length (vsub u v) = length u.
Proof. intros H. unfold vsub. rewrite map_length, combine_length. lia. Qed.
Lemma vsub_nth u v k : length u = length v -> nth k (vsub u v) 0 == nth k u 0 - nth k v 0.
Proof.
  intros H. destruct (Nat.lt_ge_cases k (length u)) as [Hk|Hk].
  - unfold vsub. rewrite (map_nth_in _ _ _ (0, 0)) by (rewrite combine_length; lia).
    rewrite combine_nth by assumption. cbn. reflexivity.
  - rewrite !nth_overflow; try lia; [lra|rewrite vsub_length by assumption; lia].
Qed.
Lemma opv_nth notran cols n v i : (i < n)%nat -> nth i (opv notran cols n v) 0 = sum_prod (op_terms notran cols v i).
Proof.
  intros Hi. unfold opv. rewrite (map_nth_in _ _ _ O) by (rewrite seq_length; assumption).
  rewrite seq_nth by assumption. reflexivity.
Qed.

(* linearity of both orientations *)
Lemma col_pick_sub i a b col :
  sum_prod (col_pick i (a - b) col) == sum_prod (col_pick i a col) - sum_prod (col_pick i b col).
Proof. induction col as [|e r IH]; cbn [col_pick]; [cbn; lra|]. destruct (Nat.eqb (fst e) i); cbn [sum_prod]; rewrite ?IH; ring. Qed.

Lemma row_terms_sub i : forall (cols : colsQ) u v, length u = length v ->
  sum_prod (row_terms i (combine (vsub u v) cols)) ==
  sum_prod (row_terms i (combine u cols)) - sum_prod (row_terms i (combine v cols)).
Proof.
  induction cols as [|col cs IH]; intros u v H.
  - rewrite !combine_nil. cbn. lra.
  - destruct u as [|a u], v as [|b v]; cbn in H; try discriminate; [cbn; lra|].
    unfold vsub. cbn [combine map fst snd row_terms]. fold (vsub u v).
    rewrite !sum_prod_app, col_pick_sub, IH by lia. ring.
Qed.

Lemma col_terms_sub u v col : length u = length v ->
  sum_prod (col_terms 0 (vsub u v) col) == sum_prod (col_terms 0 u col) - sum_prod (col_terms 0 v col).
Proof.
  intros H. induction col as [|e r IH]; [cbn; lra|]. rewrite !col_terms_cons. cbn [sum_prod].
  rewrite IH, vsub_nth by assumption. ring.
Qed.

Lemma opv_lin notran cols n u v i : length u = length v -> (i < n)%nat ->
  nth i (opv notran cols n (vsub u v)) 0 == nth i (opv notran cols n u) 0 - nth i (opv notran cols n v) 0.
Proof.
  intros H Hi. rewrite !opv_nth by assumption. unfold op_terms. destruct notran.
  - apply row_terms_sub. assumption.
  - apply col_terms_sub. assumption.
Qed.

Lemma dot_abs_le a : forall c W, Forall2 (fun ck wk => Qabs ck <= wk) c W -> Qabs (dot a c) <= dot (map Qabs a) W.
Proof.
  induction a as [|x a IH]; intros c W H; [cbn; change (Qabs 0) with 0; lra|].
  destruct H as [|ck wk c W Hk Hr]; [cbn; change (Qabs 0) with 0; lra|].
  cbn [dot map]. eapply Qle_trans; [apply Qabs_triangle|]. rewrite Qabs_Qmult.
  specialize (IH c W Hr). pose proof (Qabs_nonneg x). nra.
Qed.

Lemma Forall2_nth_intro {X} (P : X -> X -> Prop) d : forall n (c W : list X),
  length c = n -> length W = n -> (forall k, (k < n)%nat -> P (nth k c d) (nth k W d)) -> Forall2 P c W.
Proof.
  induction n as [|n IH]; intros [|a c] [|b W] Hc HW H; cbn in Hc, HW; try discriminate; constructor.
  - apply (H O). lia.
  - apply IH; try lia. intros k Hk. apply (H (S k)). lia.
Qed.

Theorem forward_bound_thm notran (cols : colsQ) n (Brows : list (list Q)) x xs b W :
  length x = n -> length xs = n -> length W = n ->
  (* xs is the exact solution of op(A) xs = b *)
  (forall i, (i < n)%nat -> sum_prod (op_terms notran cols xs i) == nth i b 0) ->
  (* Brows are the rows of an exact left inverse of op(A) *)
  (forall v, length v = n -> forall i, (i < n)%nat -> dot (nth i Brows []) (opv notran cols n v) == nth i v 0) ->
  (* W dominates the exact residual of x *)
  (forall i, (i < n)%nat -> Qabs (nth i b 0 - sum_prod (op_terms notran cols x i)) <= nth i W 0) ->
  forall i, (i < n)%nat -> Qabs (nth i x 0 - nth i xs 0) <= dot (map Qabs (nth i Brows [])) W.
Proof.
  intros Hx Hxs HW Hsol Hinv Hres i Hi.
  assert (Hl : length x = length xs) by lia.
  rewrite <- vsub_nth by assumption.
  rewrite <- (Hinv (vsub x xs)) by (try rewrite vsub_length; lia).
  apply dot_abs_le. apply (Forall2_nth_intro _ 0 n).
  - unfold opv. rewrite map_length, seq_length. reflexivity.
  - assumption.
  - intros k Hk. rewrite opv_lin by assumption. rewrite !opv_nth by assumption. rewrite (Hsol k Hk).
    rewrite <- Qabs_opp. setoid_replace (- (sum_prod (op_terms notran cols x k) - nth k b 0))
      with (nth k b 0 - sum_prod (op_terms notran cols x k)) by ring.
    apply Hres. assumption.
Qed.

Section FerrQ.
Variable A : Arith Q.
Hypothesis ok : ArithQ_ok A.
Local Notation z0 := (a0 A).

(* the weights built by dgsrfs dominate |residual| *)
Lemma ferr_weights_ge eps safe1 safe2 work rw cnt n :
  0 <= eps -> 0 <= safe1 -> length work = n -> length rw = n -> length cnt = n ->
  (forall i, (i < n)%nat -> 0 <= nth i rw z0) -> (forall i, (i < n)%nat -> (0 <= nth i cnt 0%Z)%Z) ->
  length (ferr_weights A eps safe1 safe2 work rw cnt) = n /\
  forall i, (i < n)%nat -> Qabs (nth i work z0) <= nth i (ferr_weights A eps safe1 safe2 work rw cnt) z0.
Proof.
  intros He Hs Hw Hr Hc Hrp Hcp. unfold ferr_weights. split.
  - rewrite map_length, !combine_length. lia.
  - intros i Hi. rewrite (map_nth_in _ _ _ ((z0, z0), 0%Z)) by (rewrite !combine_length; lia).
    rewrite !combine_nth by (try rewrite combine_length; lia). cbn [fst snd].
    assert (Hbase : Qabs (nth i work z0) <=
                    aadd A (afabs A (nth i work z0)) (amul A (amul A (aofZ A (nth i cnt 0%Z + 1)) eps) (nth i rw z0))).
    { rewrite (ok_add A ok), !(ok_mul A ok), (ok_abs A ok), (ok_ofZ A ok).
      assert (0 <= inject_Z (nth i cnt 0%Z + 1)).
      { change 0 with (inject_Z 0). rewrite <- Zle_Qle. specialize (Hcp i Hi). lia. }
      specialize (Hrp i Hi).
      assert (0 <= inject_Z (nth i cnt 0%Z + 1) * eps) by nra.
      assert (0 <= inject_Z (nth i cnt 0%Z + 1) * eps * nth i rw z0) by nra. lra. }
    destruct (altb A safe2 (nth i rw z0)); [assumption|]. rewrite (ok_add A ok). lra.
Qed.

(* ---------------------------------------------------------------- the estimator can only under-estimate *)
Variable n : nat.
Hypothesis Hn : (1 <= n)%nat.
Variables fN fT : list Q -> list Q.          (* dgstrs(trans) and dgstrs(transt) as exact maps *)
Hypothesis lenN : forall v, length v = n -> length (fN v) = n.
Hypothesis lenT : forall v, length v = n -> length (fT v) = n.
Variable sc : option (list Q).
Hypothesis len_sc : match sc with Some c => length c = n | None => True end.
Variable w : list Q.
Hypothesis len_w : length w = n.

Definition scale_in (v : list Q) : list Q := match sc with Some c => vmul A v c | None => v end.
(* KASE = 1 : x := W .* inv(op(A)')( s .* x );   KASE = 2 : x := s .* inv(op(A))( W .* x ) *)
Definition ferrM (v : list Q) : list Q := vmul A (fT (scale_in v)) w.
Definition ferrMt (v : list Q) : list Q := scale_in (fN (vmul A v w)).

Lemma vmul_length a b : length a = n -> length b = n -> length (vmul A a b) = n.
Proof. intros. unfold vmul. rewrite map_length, combine_length. lia. Qed.
Lemma scale_in_length v : length v = n -> length (scale_in v) = n.
Proof. intros. unfold scale_in. destruct sc; [apply vmul_length; assumption|assumption]. Qed.

Theorem ferr_estimator_partial_thm (st : lacon_st) (io0 : lacon_io) N fuel res :
  kase io0 = 0%Z ->
  lacon_drive A fuel n (ferr_op A (fun (s : unit) v => (s, fN v)) (fun (s : unit) v => (s, fT v)) sc w) tt st io0 O = Some res ->
  (forall v, length v = n -> sumabs (ferrM v) <= N * sumabs v) ->
  est (r_io res) <= N /\
  exists v, length v = n /\ 0 < sumabs v /\ est (r_io res) * sumabs v == sumabs (ferrM v).
Proof.
  intros Hk Hrun HN.
  destruct (drive_sound A ok n Hn ferrM ferrMt) with (X := unit)
    (op := ferr_op A (fun (s : unit) v => (s, fN v)) (fun (s : unit) v => (s, fT v)) sc w)
    (fuel := fuel) (s := tt) (st := st) (io := io0) (r := res) as [_ [HW _]].
  - intros v Hv. unfold ferrM. apply vmul_length; [apply lenT, scale_in_length; assumption|assumption].
  - intros v Hv. unfold ferrMt. apply scale_in_length, lenN, vmul_length; assumption.
  - intros s io K. unfold ferr_op, ferrM, scale_in. rewrite K. cbn [Z.eqb Pos.eqb]. destruct sc; reflexivity.
  - intros s io K. unfold ferr_op, ferrMt, scale_in. rewrite K. cbn [Z.eqb Pos.eqb]. destruct sc; reflexivity.
  - assumption.
  - assumption.
  - destruct HW as (v & Hv & Hp & He). split; [|exists v; split; [assumption|split; assumption]].
    specialize (HN v Hv). rewrite <- He in HN. nra.
Qed.
End FerrQ.

(* ================================================================== Part 4 (R5.v) *)

Section FerrTop.
Variable A : Arith Q.
Hypothesis ok : ArithQ_ok A.
Local Notation z0 := (a0 A).

Lemma row_counts_spec notran n (cols : colsQ) : length cols = n ->
  length (row_counts notran n cols) = n /\ forall i, (i < n)%nat -> (0 <= nth i (row_counts notran n cols) 0%Z)%Z.
Proof.
  intros Hc. unfold row_counts. destruct notran.
  - assert (G : forall (cs : colsQ) cnt, length cnt = n -> Forall (fun z => (0 <= z)%Z) cnt ->
               let r := fold_left (fun cnt col => fold_left (fun cnt (e : nat * Q) => upd cnt (fst e) (nth (fst e) cnt 0 + 1)%Z) col cnt) cs cnt in
               length r = n /\ Forall (fun z => (0 <= z)%Z) r).
    { assert (G1 : forall (col : list (nat * Q)) cnt, length cnt = n -> Forall (fun z => (0 <= z)%Z) cnt ->
                   let r := fold_left (fun cnt (e : nat * Q) => upd cnt (fst e) (nth (fst e) cnt 0 + 1)%Z) col cnt in
                   length r = n /\ Forall (fun z => (0 <= z)%Z) r).
      { induction col as [|e r IH]; intros cnt Hl Hf; cbn; [split; assumption|].
        apply IH; [rewrite upd_length; assumption|].
        assert (Hn : (0 <= nth (fst e) cnt 0)%Z).
        { destruct (Nat.lt_ge_cases (fst e) (length cnt)) as [H|H].
          - rewrite Forall_forall in Hf. apply Hf, nth_In. assumption.
          - rewrite nth_overflow by assumption. lia. }
        clear - Hf Hn. revert Hf Hn. generalize (nth (fst e) cnt 0%Z). generalize (fst e). 
        induction cnt as [|c cnt IHc]; intros k z Hf Hz; destruct k; cbn; try constructor; inversion Hf; subst; try assumption; try lia.
        apply IHc; assumption. }
      induction cs as [|c r IH]; intros cnt Hl Hf; cbn; [split; assumption|].
      destruct (G1 c cnt Hl Hf) as [Hl1 Hf1]. apply IH; assumption. }
    destruct (G cols (repeat 0%Z n)) as [Hl Hf]; [apply repeat_length|apply Forall_forall; intros z Hz; apply repeat_spec in Hz; lia|].
    split; [assumption|]. intros i Hi. rewrite Forall_forall in Hf. apply Hf, nth_In. lia.
  - split; [rewrite map_length; assumption|]. intros i Hi.
    rewrite (map_nth_in _ _ _ []) by lia. lia.
Qed.

(* with the exact infinity norm in place of the estimator the bound dominates the error, row by row:
   |x - x*|_i <= ( |inv(op A)| W )_i  for the weights W the code builds from the computed residual *)
Theorem ferr_exact_norm_dominates_thm notran (cols : colsQ) n (Brows : list (list Q)) x xs b eps safe1 safe2 :
  length b = n -> length cols = n -> length x = n -> length xs = n -> 0 <= eps -> 0 <= safe1 ->
  (forall i, (i < n)%nat -> sum_prod (op_terms notran cols xs i) == nth i b 0) ->
  (forall v, length v = n -> forall i, (i < n)%nat -> dot (nth i Brows []) (opv notran cols n v) == nth i v 0) ->
  let W := ferr_weights A eps safe1 safe2 (residual A notran cols x b) (denom A notran cols x b) (row_counts notran n cols) in
  forall i, (i < n)%nat -> Qabs (nth i x 0 - nth i xs 0) <= dot (map Qabs (nth i Brows [])) W.
Proof.
  intros Hb Hc Hx Hxs He Hs Hsol Hinv W.
  destruct (residual_spec A ok notran cols x b n Hb Hc Hx) as [Hlr Hr].
  destruct (denom_spec A ok notran cols x b n Hb Hc Hx) as [Hld Hd].
  destruct (row_counts_spec notran n cols Hc) as [Hlc Hcp].
  destruct (ferr_weights_ge A ok eps safe1 safe2 _ _ _ n He Hs Hlr Hld Hlc) as [HlW HW]; [|assumption|].
  { intros i Hi. rewrite (Hd i Hi). pose proof (Qabs_nonneg (nth i b z0)). pose proof (sum_absprod_nonneg (op_terms notran cols x i)). lra. }
  apply (forward_bound_thm notran cols n Brows x xs b W); try assumption.
  intros i Hi. fold W in HW. specialize (HW i Hi). rewrite (Hr i Hi) in HW.
  rewrite (nth_indep b 0 z0) by lia. rewrite (nth_indep W 0 z0) by (unfold W; lia). exact HW.
Qed.
End FerrTop.

(* ================================================================== statements used by Properties_C13.v *)
Theorem refine_residual_denominators_thm :
  forall (A : Arith Q), ArithQ_ok A ->
  forall (notran : bool) (cols : list (list (nat * Q))) (x b : list Q) (n : nat),
    length b = n -> length cols = n -> length x = n ->
    (forall i, (i < n)%nat ->
       nth i (residual A notran cols x b) (a0 A) == nth i b (a0 A) - sum_prod (op_terms notran cols x i)) /\
    (forall i, (i < n)%nat ->
       nth i (denom A notran cols x b) (a0 A) == Qabs (nth i b (a0 A)) + sum_absprod (op_terms notran cols x i)).
Proof.
  intros A ok notran cols x b n Hb Hc Hx. split.
  - exact (proj2 (residual_spec A ok notran cols x b n Hb Hc Hx)).
  - exact (proj2 (denom_spec A ok notran cols x b n Hb Hc Hx)).
Qed.

Theorem berr_formula_thm :
  forall (A : Arith Q), ArithQ_ok A -> forall (safe1 safe2 : Q), 0 <= safe1 -> 0 <= safe2 ->
  forall (work rw : list Q) (n : nat), length work = n -> length rw = n ->
    let s := berr_of A safe1 safe2 work rw in
    0 <= s /\
    (forall i, (i < n)%nat -> ~ nth i rw (a0 A) == 0 ->
               term_spec safe1 safe2 (nth i work (a0 A)) (nth i rw (a0 A)) <= s) /\
    (s == 0 \/ exists i, (i < n)%nat /\ ~ nth i rw (a0 A) == 0 /\
                         s == term_spec safe1 safe2 (nth i work (a0 A)) (nth i rw (a0 A))).
Proof. intros A ok safe1 safe2 _ H2. exact (berr_of_spec A ok safe1 safe2 H2). Qed.

(* ================================================================== non-vacuity *)
(* A = [[2,0],[1,3]] stored by columns, x = (1,1), b = (2,5): residual (0,1), denominators (4, 9), berr = 1/9 *)
Definition exA : colsQ := [[(0%nat, 2); (1%nat, 1)]; [(1%nat, 3)]].
Example ex_berr : berr_of QArith_red 0 0 (residual QArith_red true exA [1; 1] [2; 5]) (denom QArith_red true exA [1; 1] [2; 5]) == 1 # 9.
Proof. vm_compute. reflexivity. Qed.
Example ex_berr_T : berr_of QArith_red 0 0 (residual QArith_red false exA [1; 1] [2; 5]) (denom QArith_red false exA [1; 1] [2; 5]) == 1 # 4.
Proof. vm_compute. reflexivity. Qed.
(* one exact correction step solves the system: the loop stops after 1 step with berr = 0 *)
Definition ex_solve (s : unit) (r : list Q) : unit * list Q :=
  (tt, match r with [r0; r1] => [Qred (r0 / 2); Qred ((r1 - r0 / 2) / 3)] | _ => r end).
Example ex_refine : exists ro, refine_loop QArith_red refine_fuel true exA [2; 5] 0 0 0 ex_solve tt [1; 1] 0%Z 3 [] = Some ro /\
                               ro_count ro = 1%Z /\ ro_berr ro == 0 /\ Forall2 Qeq (ro_x ro) [1; 4 # 3].
Proof. eexists. split; [vm_compute; reflexivity|]. split; [reflexivity|]. split; [reflexivity|]. repeat constructor; reflexivity. Qed.
(* an exact left inverse of that A (rows of inv A) satisfies the hypothesis of ferr_exact_norm_dominates *)
Definition exB : list (list Q) := [[1 # 2; 0]; [- (1 # 6); 1 # 3]].
Example ex_left_inverse : forall v, length v = 2%nat -> forall i, (i < 2)%nat -> dot (nth i exB []) (opv true exA 2 v) == nth i v 0.
Proof.
  intros [|a [|b [|? ?]]] Hv i Hi; try discriminate.
  destruct i as [|[|i]]; [| |lia]; unfold opv, exB, exA; cbn [seq map op_terms combine row_terms col_pick fst snd Nat.eqb app sum_prod nth dot]; ring.
Qed.
Example ex_exact_solution : forall i, (i < 2)%nat -> sum_prod (op_terms true exA [1; 4 # 3] i) == nth i [2; 5] 0.
Proof. intros [|[|i]] Hi; [| |lia]; vm_compute; reflexivity. Qed.
