(* EtreeSpec.v -- quadratic/cubic executable DEFINITION of the (column) elimination tree, written from
   the text book: no union-find, no first-column trick, no postorder.
     graph of M^T M :  i ~ j  iff  columns i and j of M share a row
     elimination game: G_0 = G;  G_{k+1} = G_k + clique on the neighbours > k of k in G_k
     parent j = least i > j adjacent to j in the filled graph G_n, n when there is none.
   Graphs are `list (list bool)` (row i = adjacency of i); indices are nat. *)
From Coq Require Import ZArith List Bool Lia.
From SLU Require Import EtreeModel.
Import ListNotations.
Local Open Scope Z_scope.

(* row indices stored for column j of an NCP pattern (colbeg, colend, arow) *)
Definition col_rows (colbeg colend arow : list Z) (j : Z) : list Z :=
  match aget colbeg j, aget colend j with
  | Some s, Some e => flat_map (fun p => match aget arow p with Some r => [r] | None => [] end) (zrange s e)
  | _, _ => []
  end.

Definition memZ (x : Z) (l : list Z) : bool := existsb (Z.eqb x) l.
Definition share (c1 c2 : list Z) : bool := existsb (fun r => memZ r c2) c1.

(* graph of M^T M *)
Definition ata_graph (nc : Z) (colbeg colend arow : list Z) : list (list bool) :=
  let cols := map (col_rows colbeg colend arow) (zrange 0 nc) in
  map (fun ci => map (fun cj => share ci cj) cols) cols.

(* graph given by the strict upper triangle of a square pattern ("elements below and on the diagonal
   are ignored", sp_symetree): for i < j,  i ~ j iff M_ij is stored *)
Definition upper_graph (n : Z) (colbeg colend arow : list Z) : list (list bool) :=
  let idx := zrange 0 n in
  let cols := combine idx (map (col_rows colbeg colend arow) idx) in
  map (fun '(i, ci) => map (fun '(j, cj) => ((i <? j) && memZ i cj) || ((j <? i) && memZ j ci)) cols) cols.

Definition gget (g : list (list bool)) (i j : nat) : bool := nth j (nth i g []) false.

Fixpoint map2 {A B C : Type} (f : A -> B -> C) (l1 : list A) (l2 : list B) : list C :=
  match l1, l2 with
  | a :: t1, b :: t2 => f a b :: map2 f t1 t2
  | _, _ => []
  end.

(* the neighbours of k that are larger than k, as a mask *)
Definition hi_mask (k : nat) (row : list bool) : list bool :=
  map2 (fun j b => Nat.ltb k j && b) (seq 0 (length row)) row.

(* eliminate vertex k: its higher neighbours become pairwise adjacent *)
Definition elim_step (g : list (list bool)) (k : nat) : list (list bool) :=
  let mask := hi_mask k (nth k g []) in
  map2 (fun (sel : bool) ri => if sel then map2 orb ri mask else ri) mask g.

Definition fill_graph (g : list (list bool)) : list (list bool) :=
  fold_left elim_step (seq 0 (length g)) g.

(* least i > j with row[i], else n *)
Fixpoint first_above (row : list bool) (j i : nat) (n : Z) : Z :=
  match row with
  | [] => n
  | b :: t => if Nat.ltb j i && b then Z.of_nat i else first_above t j (S i) n
  end.

Definition etree_of_graph (g : list (list bool)) : list Z :=
  let f := fill_graph g in
  let n := Z.of_nat (length g) in
  map2 (fun j row => first_above row j 0%nat n) (seq 0 (length g)) f.

(* column elimination tree of the pattern (colbeg, colend, arow) with nc columns *)
Definition coletree_spec (colbeg colend arow : list Z) (nc : Z) : list Z :=
  etree_of_graph (ata_graph nc colbeg colend arow).

(* elimination tree of the symmetric matrix whose strict upper triangle is that of the pattern *)
Definition symetree_spec (colbeg colend arow : list Z) (n : Z) : list Z :=
  etree_of_graph (upper_graph n colbeg colend arow).
