From Coq Require Import Extraction ExtrOcamlBasic.
From SLU Require Import EtreeModel EtreeSpec.
Extraction "etree_model.ml" check_perm check_blocks perm_inverse perm_compose natural_perm ordering_code get_perm_c_model
  sp_coletree sp_symetree tree_postorder at_plus_a colorder coletree_spec symetree_spec.
