(* ReaderProofs.v -- proofs about ReaderModel.v (C20) *)
From Coq Require Import ZArith List Bool Lia ZifyBool.
From SLU Require Import ReaderModel.
Import ListNotations.
Local Open Scope Z_scope.

(* ================================================================== small list facts *)
Lemma firstn_app_exact : forall (A : Type) (a b : list A), firstn (length a) (a ++ b) = a.
Proof.
  intros A a b. rewrite firstn_app, Nat.sub_diag, firstn_all. simpl. apply app_nil_r.
Qed.

Lemma skipn_app_exact : forall (A : Type) (a b : list A), skipn (length a) (a ++ b) = b.
Proof.
  intros A a b. rewrite skipn_app, Nat.sub_diag, skipn_all. reflexivity.
Qed.

Lemma firstn_app_exact' : forall (A : Type) (n : nat) (a b : list A), n = length a -> firstn n (a ++ b) = a.
Proof. intros; subst; apply firstn_app_exact. Qed.

Lemma skipn_app_exact' : forall (A : Type) (n : nat) (a b : list A), n = length a -> skipn n (a ++ b) = b.
Proof. intros; subst; apply skipn_app_exact. Qed.

Lemma repeat_length' : forall (A : Type) (x : A) n, length (repeat x n) = n.
Proof. intros; apply repeat_length. Qed.

(* ================================================================== digits *)
Definition all_digits (l : list Z) : Prop := Forall (fun c => is_digit c = true) l.
Definition head_not_digit (l : list Z) : Prop :=
  match l with c :: _ => is_digit c = false | [] => True end.

Lemma span_digits_app : forall ds r,
  all_digits ds -> head_not_digit r -> span_digits (ds ++ r) = (ds, r).
Proof.
  induction ds as [|c ds IH]; intros r Hd Hr.
  - simpl. destruct r as [|x r']; [reflexivity|]. simpl in Hr. simpl. rewrite Hr. reflexivity.
  - inversion Hd as [|? ? Hc Hds]; subst. simpl. rewrite Hc. rewrite (IH r Hds Hr). reflexivity.
Qed.

Lemma fold_val_acc : forall l acc,
  fold_left (fun a c => a * 10 + (c - 48)) l acc
  = acc * 10 ^ Z.of_nat (length l) + fold_left (fun a c => a * 10 + (c - 48)) l 0.
Proof.
  induction l as [|c l IH]; intros acc.
  - simpl. lia.
  - cbn [fold_left length]. rewrite (IH (acc * 10 + (c - 48))), (IH (0 * 10 + (c - 48))).
    rewrite Nat2Z.inj_succ, Z.pow_succ_r by lia. ring.
Qed.

Lemma val_digits_app : forall a b,
  val_digits (a ++ b) = val_digits a * 10 ^ Z.of_nat (length b) + val_digits b.
Proof.
  intros a b. unfold val_digits. rewrite fold_left_app. apply fold_val_acc.
Qed.

Lemma val_digits_cons : forall c l,
  val_digits (c :: l) = (c - 48) * 10 ^ Z.of_nat (length l) + val_digits l.
Proof.
  intros c l. change (c :: l) with ([c] ++ l). rewrite val_digits_app. unfold val_digits at 1. cbn [fold_left]. lia.
Qed.

Lemma val_zeros : forall k, val_digits (zeros k) = 0.
Proof.
  induction k as [|k IH]; [reflexivity|].
  unfold zeros in *. cbn [repeat]. rewrite val_digits_cons, IH. lia.
Qed.

Lemma all_digits_zeros : forall k, all_digits (zeros k).
Proof. intros k. unfold all_digits, zeros. apply Forall_forall. intros x Hx. apply repeat_spec in Hx. subst. reflexivity. Qed.

Lemma all_digits_app : forall a b, all_digits a -> all_digits b -> all_digits (a ++ b).
Proof. intros a b Ha Hb. unfold all_digits. apply Forall_app. split; assumption. Qed.

Lemma val_digits_nonneg : forall l, all_digits l -> 0 <= val_digits l.
Proof.
  induction l as [|c l IH]; intros H.
  - unfold val_digits. simpl. lia.
  - inversion H as [|? ? Hc Hl]; subst. rewrite val_digits_cons. specialize (IH Hl).
    unfold is_digit in Hc. assert (0 <= 10 ^ Z.of_nat (length l)) by (apply Z.pow_nonneg; lia). nia.
Qed.

Lemma is_digit_iff : forall c, is_digit c = true <-> 48 <= c <= 57.
Proof. intros c. unfold is_digit. lia. Qed.

Lemma all_digits_one : forall c, 48 <= c <= 57 -> all_digits [c].
Proof. intros c H. constructor; [apply is_digit_iff; exact H|constructor]. Qed.

(* the digit printer *)
Lemma ddigits_spec : forall fuel n acc,
  (1 <= fuel)%nat -> 0 <= n < 2 ^ Z.of_nat fuel ->
  exists ds, ddigits fuel n acc = ds ++ acc /\ all_digits ds /\ val_digits ds = n /\ ds <> [].
Proof.
  induction fuel as [|f IH]; intros n acc Hf Hn; [lia|].
  cbn [ddigits]. destruct (n <? 10) eqn:E.
  - exists [48 + n]. repeat split.
    + apply all_digits_one. lia.
    + unfold val_digits. cbn [fold_left]. lia.
    + discriminate.
  - assert (Hn10 : 10 <= n) by lia.
    assert (Hq : 1 <= n / 10) by (apply Z.div_le_lower_bound; lia).
    assert (Hq2 : n / 10 < 2 ^ Z.of_nat f).
    { rewrite Nat2Z.inj_succ, Z.pow_succ_r in Hn by lia.
      apply Z.div_lt_upper_bound; lia. }
    assert (Hf1 : (1 <= f)%nat).
    { destruct f; [change (2 ^ Z.of_nat 0) with 1 in Hq2; lia | lia]. }
    assert (Hq3 : 0 <= n / 10 < 2 ^ Z.of_nat f) by lia.
    destruct (IH (n / 10) ((48 + n mod 10) :: acc) Hf1 Hq3) as (ds & E1 & E2 & E3 & E4).
    exists (ds ++ [48 + n mod 10]). repeat split.
    + rewrite E1, <- app_assoc. reflexivity.
    + apply all_digits_app; [assumption|]. apply all_digits_one.
      pose proof (Z.mod_pos_bound n 10 ltac:(lia)). lia.
    + rewrite val_digits_app, E3. unfold val_digits. cbn [fold_left length]. change (Z.of_nat 1) with 1. rewrite Z.pow_1_r.
      pose proof (Z.div_mod n 10 ltac:(lia)). lia.
    + destruct ds; discriminate.
Qed.

Lemma dec_digits_spec : forall n, 0 <= n ->
  all_digits (dec_digits n) /\ val_digits (dec_digits n) = n /\ dec_digits n <> [].
Proof.
  intros n Hn. unfold dec_digits.
  destruct (ddigits_spec (S (Z.to_nat (Z.log2 n))) n [] ltac:(lia)) as (ds & E1 & E2 & E3 & E4).
  - split; [lia|]. rewrite Nat2Z.inj_succ, Z2Nat.id by apply Z.log2_nonneg.
    destruct (Z.eq_dec n 0) as [->|Hz]; [simpl; lia|].
    apply Z.log2_spec. lia.
  - rewrite E1, app_nil_r. auto.
Qed.

Lemma dec_digits_all : forall n, 0 <= n -> all_digits (dec_digits n).
Proof. intros n H; apply (dec_digits_spec n H). Qed.
Lemma dec_digits_val : forall n, 0 <= n -> val_digits (dec_digits n) = n.
Proof. intros n H; apply (dec_digits_spec n H). Qed.
Lemma dec_digits_nonnil : forall n, 0 <= n -> dec_digits n <> [].
Proof. intros n H; apply (dec_digits_spec n H). Qed.

(* number of digits *)
Lemma ddigits_length : forall fuel n acc d,
  (1 <= d)%nat -> 0 <= n < 10 ^ Z.of_nat d ->
  (length (ddigits fuel n acc) <= d + length acc)%nat.
Proof.
  induction fuel as [|f IH]; intros n acc d Hd Hn.
  - simpl. lia.
  - cbn [ddigits]. destruct (n <? 10) eqn:E.
    + simpl. lia.
    + destruct d as [|d]; [lia|]. destruct d as [|d].
      { simpl in Hn. lia. }
      assert (Hq : 0 <= n / 10 < 10 ^ Z.of_nat (S d)).
      { split; [apply Z.div_pos; lia|].
        rewrite (Nat2Z.inj_succ (S d)), Z.pow_succ_r in Hn by lia.
        apply Z.div_lt_upper_bound; lia. }
      specialize (IH (n / 10) ((48 + n mod 10) :: acc) (S d) ltac:(lia) Hq).
      cbn [length] in IH. lia.
Qed.

Lemma dec_digits_length : forall n d,
  (1 <= d)%nat -> 0 <= n < 10 ^ Z.of_nat d -> (length (dec_digits n) <= d)%nat.
Proof.
  intros n d Hd Hn. unfold dec_digits.
  pose proof (ddigits_length (S (Z.to_nat (Z.log2 n))) n [] d Hd Hn) as H. cbn [length] in H. lia.
Qed.

(* ================================================================== blanks, atoi *)
Lemma skip_ws_blanks : forall k l, skip_ws (blanks k ++ l) = skip_ws l.
Proof.
  induction k as [|k IH]; intros l; [reflexivity|].
  unfold blanks in *. cbn [repeat app skip_ws]. change (is_space 32) with true. cbn iota. apply IH.
Qed.

Lemma digit_not_space : forall c, is_digit c = true -> is_space c = false.
Proof. intros c H. unfold is_digit, is_space in *. lia. Qed.

Lemma skip_ws_digit_head : forall c l, is_space c = false -> skip_ws (c :: l) = c :: l.
Proof. intros c l H. simpl. rewrite H. reflexivity. Qed.

Lemma scan_sign_digit_head : forall c l, is_digit c = true -> scan_sign (c :: l) = (false, c :: l).
Proof.
  intros c l H. unfold scan_sign.
  assert (c =? 45 = false) by (unfold is_digit in H; lia).
  assert (c =? 43 = false) by (unfold is_digit in H; lia).
  rewrite H0, H1. reflexivity.
Qed.

(* digits (non-empty), possibly after blanks, followed by a non-digit *)
Lemma scan_int_digits : forall k ds r,
  all_digits ds -> ds <> [] -> head_not_digit r ->
  scan_int (blanks k ++ ds ++ r) = (val_digits ds, r, true).
Proof.
  intros k ds r Hd Hne Hr. unfold scan_int. rewrite skip_ws_blanks.
  destruct ds as [|c ds']; [congruence|].
  inversion Hd as [|? ? Hc Hds]; subst.
  cbn [app]. rewrite skip_ws_digit_head by (apply digit_not_space; assumption).
  rewrite scan_sign_digit_head by assumption.
  change (c :: ds' ++ r) with ((c :: ds') ++ r).
  rewrite span_digits_app by assumption. reflexivity.
Qed.

Lemma atoi_buf_digits : forall k ds c r,
  all_digits ds -> ds <> [] -> is_digit c = false -> 0 <= c -> in_int (val_digits ds) = true ->
  atoi_buf (blanks k ++ ds ++ c :: r) = Ok (val_digits ds).
Proof.
  intros k ds c r Hd Hne Hc Hc0 Hin. unfold atoi_buf.
  rewrite scan_int_digits by (auto; exact Hc).
  cbn [defined_head]. assert (E : (0 <=? c) = true) by lia. rewrite E, Hin. reflexivity.
Qed.

Lemma in_int_of_bounds : forall x, 0 <= x <= INT_MAX -> in_int x = true.
Proof. intros x H. unfold in_int, INT_MAX, INT_MIN in *. lia. Qed.

Lemma atoi_buf_dec : forall k x c r,
  0 <= x <= INT_MAX -> is_digit c = false -> 0 <= c ->
  atoi_buf (blanks k ++ dec_digits x ++ c :: r) = Ok x.
Proof.
  intros k x c r Hx Hc Hc0.
  destruct (dec_digits_spec x ltac:(lia)) as (H1 & H2 & H3).
  rewrite atoi_buf_digits; auto; rewrite H2; [reflexivity|]. apply in_int_of_bounds; assumption.
Qed.

Lemma print_int_eq : forall w x, print_int w x = blanks (Z.to_nat w - length (dec_digits x)) ++ dec_digits x.
Proof. reflexivity. Qed.

Lemma atoi_buf_print_int : forall w x c r,
  0 <= x <= INT_MAX -> is_digit c = false -> 0 <= c ->
  atoi_buf (print_int w x ++ c :: r) = Ok x.
Proof.
  intros w x c r Hx Hc Hc0. rewrite print_int_eq, <- app_assoc. apply atoi_buf_dec; assumption.
Qed.

Lemma blanks_length : forall k, length (blanks k) = k.
Proof. intros; apply repeat_length. Qed.

Lemma print_int_length : forall w x,
  (length (dec_digits x) <= Z.to_nat w)%nat -> length (print_int w x) = Z.to_nat w.
Proof. intros w x H. rewrite print_int_eq, app_length, blanks_length. lia. Qed.

(* ================================================================== descriptor parsers *)
Definition defined_bytes (l : list Z) : Prop := Forall (fun c => 0 <= c) l.

Lemma find_after_skip : forall c pre r,
  defined_bytes pre -> ~ In c pre -> 0 <= c -> find_after c (pre ++ c :: r) = Ok r.
Proof.
  induction pre as [|x pre IH]; intros r Hd Hn Hc.
  - simpl. assert (E : (c <? 0) = false) by lia. rewrite E, Z.eqb_refl. reflexivity.
  - inversion Hd as [|? ? Hx Hp]; subst. simpl.
    assert (E : (x <? 0) = false) by lia. rewrite E.
    assert (E2 : (x =? c) = false). { apply Z.eqb_neq. intro; subst. apply Hn. left; reflexivity. }
    rewrite E2. apply IH; auto. intro Hin. apply Hn. right; assumption.
Qed.

Lemma find_after_head0 : forall c r, 0 <= c -> find_after c (c :: r) = Ok r.
Proof. intros c r Hc. simpl. assert (E : (c <? 0) = false) by lia. rewrite E, Z.eqb_refl. reflexivity. Qed.

Lemma find_at_skip : forall p pre c r,
  Forall (fun x => 0 <= x /\ p x = false) pre -> 0 <= c -> p c = true ->
  find_at p (pre ++ c :: r) = Ok (c :: r).
Proof.
  induction pre as [|x pre IH]; intros c r Hp Hc Hpc.
  - simpl. assert (E : (c <? 0) = false) by lia. rewrite E, Hpc. reflexivity.
  - inversion Hp as [|? ? [Hx Hpx] Hp']; subst. simpl.
    assert (E : (x <? 0) = false) by lia. rewrite E, Hpx. apply IH; auto.
Qed.

Lemma digits_props : forall (p : Z -> bool) ds,
  all_digits ds -> (forall c, is_digit c = true -> p c = false) ->
  Forall (fun x => 0 <= x /\ p x = false) ds.
Proof.
  intros p ds Hd Hp. unfold all_digits in Hd. rewrite Forall_forall in *. intros x Hx.
  specialize (Hd x Hx). split; [unfold is_digit in Hd; lia | apply Hp; assumption].
Qed.

Lemma blanks_props : forall (p : Z -> bool) k, p 32 = false -> Forall (fun x => 0 <= x /\ p x = false) (blanks k).
Proof.
  intros p k Hp. apply Forall_forall. intros x Hx. apply repeat_spec in Hx. subst. split; [lia|assumption].
Qed.

Definition ifmt_wf (f : ifmt) : Prop := 0 <= i_per f <= INT_MAX /\ 0 <= i_w f <= INT_MAX.

Lemma parse_int_format_correct : forall f tail,
  ifmt_wf f -> parse_int_format (ifmt_text f ++ tail) = Ok (i_per f, i_w f).
Proof.
  intros f tail [Hp Hw]. unfold parse_int_format, ifmt_text.
  set (L := if i_lower f then 105 else 73).
  assert (HL : is_I L = true) by (unfold L; destruct (i_lower f); reflexivity).
  assert (HLd : is_digit L = false) by (unfold L; destruct (i_lower f); reflexivity).
  assert (HL0 : 0 <= L) by (unfold L; destruct (i_lower f); lia).
  repeat rewrite <- app_assoc. cbn [app].
  rewrite find_after_head0 by lia. cbn [bind].
  rewrite atoi_buf_dec by assumption. cbn [bind].
  rewrite app_assoc.
  rewrite find_at_skip; [| |assumption|assumption].
  - cbn [bind tl].
    change (dec_digits (i_w f) ++ 41 :: tail) with (blanks 0 ++ dec_digits (i_w f) ++ 41 :: tail).
    rewrite atoi_buf_dec; [reflexivity|assumption|reflexivity|lia].
  - apply Forall_app. split.
    + apply blanks_props. reflexivity.
    + apply digits_props; [apply dec_digits_all; lia|].
      intros c Hc. unfold is_digit in Hc. unfold is_I. lia.
Qed.

(* the scanning loop of ?ParseFloatFormat over digits *)
Lemma pff_loop_digits : forall ds c r num,
  all_digits ds -> 0 <= c -> is_EDF c = true ->
  pff_loop (ds ++ c :: r) num = Ok (num, r).
Proof.
  induction ds as [|x ds IH]; intros c r num Hd Hc He.
  - simpl. assert (E : (c <? 0) = false) by lia. rewrite E, He. reflexivity.
  - inversion Hd as [|? ? Hx Hds]; subst. cbn [app pff_loop].
    assert (E : (x <? 0) = false) by (unfold is_digit in Hx; lia). rewrite E.
    assert (E2 : is_EDF x = false) by (unfold is_digit in Hx; unfold is_EDF; lia).
    assert (E3 : is_P x = false) by (unfold is_digit in Hx; unfold is_P; lia).
    rewrite E2, E3. apply IH; assumption.
Qed.

Definition ffmt_wf (f : ffmt) : Prop :=
  0 <= f_per f <= INT_MAX /\ 0 <= f_w f <= INT_MAX /\ 0 <= f_d f /\
  match f_scale f with Some s => 0 <= s <= INT_MAX | None => True end.

Lemma kind_letter_props : forall k lower,
  let c := kind_letter k lower in is_EDF c = true /\ is_digit c = false /\ 0 <= c /\ is_P c = false.
Proof. intros k lower. destruct k, lower; cbv; repeat split; congruence. Qed.

Lemma find_after_head : forall c r, 0 <= c -> find_after c (c :: r) = Ok r.
Proof. intros c r Hc. simpl. assert (E : (c <? 0) = false) by lia. rewrite E, Z.eqb_refl. reflexivity. Qed.

Lemma parse_float_format_body : forall per L w d tail,
  0 <= per <= INT_MAX -> 0 <= w <= INT_MAX -> 0 <= d ->
  is_EDF L = true -> is_digit L = false -> 0 <= L ->
  let T := dec_digits w ++ 46 :: dec_digits d ++ 41 :: tail in
  let body := dec_digits per ++ L :: T in
  (forall num, pff_loop body num = Ok (num, T)) /\ atoi_buf body = Ok per /\
  (forall num : Z,
    bind (find_at is_dot_or_rpar T) (fun _ => bind (atoi_buf T) (fun size => Ok (num, size))) = Ok (num, w)).
Proof.
  intros per L w d tail Hp Hw Hd HE HEd HE0 T body. repeat split.
  - intros num. unfold body. apply pff_loop_digits; [apply dec_digits_all; lia|assumption|assumption].
  - unfold body. change (dec_digits per ++ L :: T) with (blanks 0 ++ dec_digits per ++ L :: T).
    apply atoi_buf_dec; assumption.
  - intros num. unfold T.
    rewrite find_at_skip; [| |lia|reflexivity].
    + cbn [bind].
      change (dec_digits w ++ 46 :: ?r) with (blanks 0 ++ dec_digits w ++ 46 :: r).
      rewrite atoi_buf_dec; [reflexivity|assumption|reflexivity|lia].
    + apply digits_props; [apply dec_digits_all; lia|].
      intros c Hc. unfold is_digit in Hc. unfold is_dot_or_rpar. lia.
Qed.

Lemma parse_float_format_correct : forall f tail,
  ffmt_wf f -> parse_float_format (ffmt_text f ++ tail) = Ok (f_per f, f_w f).
Proof.
  intros f tail (Hp & Hw & Hd & Hs). unfold parse_float_format, ffmt_text.
  destruct (kind_letter_props (f_kind f) (f_lower f)) as (HE & HEd & HE0 & HEP).
  destruct (parse_float_format_body (f_per f) (kind_letter (f_kind f) (f_lower f)) (f_w f) (f_d f) tail
              Hp Hw Hd HE HEd HE0) as (Hbody & Hbody_atoi & Hfinal).
  destruct (f_scale f) as [s|] eqn:Es.
  - (* "(" s "P" body *)
    set (P := if f_lower f then 112 else 80).
    assert (HP : is_P P = true) by (unfold P; destruct (f_lower f); reflexivity).
    assert (HPd : is_digit P = false) by (unfold P; destruct (f_lower f); reflexivity).
    assert (HPE : is_EDF P = false) by (unfold P; destruct (f_lower f); reflexivity).
    assert (HP0 : 0 <= P) by (unfold P; destruct (f_lower f); lia).
    repeat rewrite <- app_assoc. cbn [app].
    set (T := dec_digits (f_w f) ++ 46 :: dec_digits (f_d f) ++ 41 :: tail) in *.
    set (body := dec_digits (f_per f) ++ kind_letter (f_kind f) (f_lower f) :: T) in *.
    rewrite find_after_head by lia. cbn [bind].
    change (dec_digits s ++ P :: body) with (blanks 0 ++ dec_digits s ++ P :: body) at 1.
    rewrite atoi_buf_dec by assumption. cbn [bind].
    (* loop: skip the digits of s, meet P, re-read num, continue in body *)
    assert (Hloop : forall num, pff_loop (dec_digits s ++ P :: body) num = Ok (f_per f, T)).
    { intros num. generalize (dec_digits_all s ltac:(lia)). generalize (dec_digits s).
      induction l as [|x l IH]; intros Hl.
      - cbn [app pff_loop]. assert (E : (P <? 0) = false) by lia. rewrite E, HPE, HP, Hbody_atoi. apply Hbody.
      - inversion Hl as [|? ? Hx Hl']; subst. cbn [app pff_loop].
        assert (E : (x <? 0) = false) by (unfold is_digit in Hx; lia). rewrite E.
        assert (E2 : is_EDF x = false) by (unfold is_digit in Hx; unfold is_EDF; lia).
        assert (E3 : is_P x = false) by (unfold is_digit in Hx; unfold is_P; lia).
        rewrite E2, E3. apply IH; assumption. }
    rewrite Hloop. cbn [bind]. apply Hfinal.
  - repeat rewrite <- app_assoc. cbn [app].
    set (T := dec_digits (f_w f) ++ 46 :: dec_digits (f_d f) ++ 41 :: tail) in *.
    set (body := dec_digits (f_per f) ++ kind_letter (f_kind f) (f_lower f) :: T) in *.
    rewrite find_after_head by lia. cbn [bind].
    rewrite Hbody_atoi. cbn [bind]. rewrite Hbody. cbn [bind]. apply Hfinal.
Qed.

(* ================================================================== field slicing never leaves the buffer *)
Lemma slice_index_bound : forall perline persize j,
  1 <= persize -> 0 <= j < perline -> perline * persize <= 80 ->
  0 <= j * persize /\ (j + 1) * persize <= 80 /\ (j + 1) * persize < BUFSZ.
Proof.
  intros perline persize j Hw Hj Hp. unfold BUFSZ. nia.
Qed.

Lemma codes_distinct :
  E_EOF <> E_OOB /\ E_HANG <> E_OOB /\ E_UNDEF <> E_OOB /\ E_RANGE <> E_OOB /\ E_SYNTAX <> E_OOB
  /\ E_ALLOC <> E_OOB /\ E_TITLE <> E_OOB /\ E_WIDTH0 <> E_OOB.
Proof. cbv. repeat split; discriminate. Qed.

Lemma err_neq_transfer : forall (A B : Type) e, @Err A e <> Err E_OOB -> @Err B e <> Err E_OOB.
Proof. intros A B e H H'. inversion H'; subst. apply H. reflexivity. Qed.

Lemma atoi_buf_no_oob : forall l, atoi_buf l <> Err E_OOB.
Proof.
  intros l. unfold atoi_buf. destruct (scan_int l) as [[v rest] got].
  destruct (defined_head rest); [destruct (in_int v)|]; cbv; discriminate.
Qed.

Lemma cstr_no_oob : forall l, cstr l <> Err E_OOB.
Proof.
  induction l as [|c l IH]; simpl; [cbv; discriminate|].
  destruct (c =? 0); [discriminate|]. destruct (c <? 0); [cbv; discriminate|].
  destruct (cstr l) as [s|e]; [discriminate|]. intro H. apply IH. exact H.
Qed.

Lemma atof_str_no_oob : forall l, atof_str l <> Err E_OOB.
Proof.
  intros l. unfold atof_str. destruct (scan_float l) as [[st d] r].
  destruct (st =? 2); [cbv; discriminate|]. destruct (st =? 1); discriminate.
Qed.

Lemma read_int_field_no_oob : forall perline persize buf j,
  1 <= persize -> perline * persize <= 80 -> 0 <= j < perline ->
  read_int_field persize buf j <> Err E_OOB.
Proof.
  intros perline persize buf j Hw Hp Hj.
  destruct (slice_index_bound perline persize j Hw Hj Hp) as (H1 & H2 & H3).
  unfold read_int_field, field_cells.
  assert (E0 : (persize =? 0) = false) by lia. rewrite E0.
  assert (E1 : ((0 <=? (j + 1) * persize) && ((j + 1) * persize <? BUFSZ) && (0 <=? j * persize)) = true).
  { unfold BUFSZ in *. rewrite !andb_true_iff. repeat split; lia. }
  rewrite E1. cbn [bind].
  pose proof (atoi_buf_no_oob (skipn (Z.to_nat (j * persize)) (buf_set (Z.to_nat ((j + 1) * persize)) 0 buf))) as Ha.
  destruct (atoi_buf _) as [item|e]; cbn [bind].
  - destruct (in_int (item - 1)); [discriminate|cbv; discriminate].
  - eapply err_neq_transfer; exact Ha.
Qed.

Lemma read_val_field_no_oob : forall perline persize buf j,
  1 <= persize -> perline * persize <= 80 -> 0 <= j < perline ->
  read_val_field persize buf j <> Err E_OOB.
Proof.
  intros perline persize buf j Hw Hp Hj.
  destruct (slice_index_bound perline persize j Hw Hj Hp) as (H1 & H2 & H3).
  unfold read_val_field.
  assert (E0 : (persize =? 0) = false) by lia. rewrite E0.
  assert (E1 : ((0 <=? (j + 1) * persize) && ((j + 1) * persize <? BUFSZ) && (0 <=? j * persize)) = true).
  { unfold BUFSZ in *. rewrite !andb_true_iff. repeat split; lia. }
  rewrite E1.
  match goal with |- bind (cstr ?l) _ <> _ => pose proof (cstr_no_oob l) as Hc; destruct (cstr l) as [str|e] end; cbn [bind].
  - pose proof (atof_str_no_oob str) as Ha. destruct (atof_str str) as [v|e]; cbn [bind]; [discriminate|].
    eapply err_neq_transfer; exact Ha.
  - eapply err_neq_transfer; exact Hc.
Qed.

Section NoOOB.
  Context {A : Type}.
  Variable rf : list Z -> Z -> res (A * list Z).
  Variable perline : Z.
  Hypothesis Hrf : forall buf j, 0 <= j < perline -> rf buf j <> Err E_OOB.

  Lemma read_fields_no_oob : forall k j buf rem,
    0 <= j -> j + Z.of_nat k <= perline -> read_fields rf k j buf rem <> Err E_OOB.
  Proof.
    induction k as [|k IH]; intros j buf rem Hj Hk; cbn [read_fields]; [discriminate|].
    destruct (rem <=? 0); [discriminate|].
    pose proof (Hrf buf j ltac:(lia)) as H0.
    destruct (rf buf j) as [[x buf1]|e]; [|eapply err_neq_transfer; exact H0].
    pose proof (IH (j + 1) buf1 (rem - 1) ltac:(lia) ltac:(lia)) as H1.
    destruct (read_fields rf k (j + 1) buf1 (rem - 1)) as [[[xs buf2] r2]|e]; [discriminate|eapply err_neq_transfer; exact H1].
  Qed.

  Lemma read_lines_no_oob : forall fuel s buf rem,
    read_lines rf fuel s buf rem perline <> Err E_OOB.
  Proof.
    induction fuel as [|f IH]; intros s buf rem; cbn [read_lines].
    - destruct (rem <=? 0); [discriminate|cbv; discriminate].
    - destruct (rem <=? 0); [discriminate|].
      destruct (perline <=? 0) eqn:Ep; [cbv; discriminate|].
      destruct s as [|c s']; [cbv; discriminate|].
      destruct (fgets buf (c :: s')) as [buf1 s1].
      pose proof (read_fields_no_oob (Z.to_nat (Z.min perline 100)) 0 buf1 rem ltac:(lia) ltac:(lia)) as H0.
      destruct (read_fields rf _ 0 buf1 rem) as [[[xs buf2] r2]|e]; [|eapply err_neq_transfer; exact H0].
      pose proof (IH s1 buf2 r2) as H1.
      destruct (read_lines rf f s1 buf2 r2 perline) as [[ys s2]|e]; [discriminate|exact H1].
  Qed.
End NoOOB.

(* T: no index outside the 100-byte line buffer for admissible formats, whatever the stream contains *)
Theorem field_slicing_total : forall s n perline persize,
  1 <= persize -> perline * persize <= 80 ->
  read_vector s n perline persize <> Err E_OOB /\ read_values s n perline persize <> Err E_OOB.
Proof.
  intros s n perline persize Hw Hp. split.
  - unfold read_vector. apply read_lines_no_oob. intros buf j Hj.
    apply (read_int_field_no_oob perline); assumption.
  - unfold read_values. apply read_lines_no_oob. intros buf j Hj.
    apply (read_val_field_no_oob perline); assumption.
Qed.

(* the bound is tight in the model: a wider line does leave the buffer *)
Example field_slicing_oob_reachable :
  read_vector (repeat 49 120 ++ [10]) 12 12 10 = Err E_OOB.
Proof. vm_compute. reflexivity. Qed.

(* ================================================================== streams and buffers *)
Lemma read_c_app : forall k a rest, length a = k -> read_c k (a ++ rest) = Ok (a, rest).
Proof.
  intros k a rest H. unfold read_c.
  assert (E : (length (a ++ rest) <? k)%nat = false).
  { apply Nat.ltb_ge. rewrite app_length. lia. }
  rewrite E. subst k. rewrite firstn_app_exact, skipn_app_exact. reflexivity.
Qed.

Lemma dump_line_app : forall a rest, ~ In 10 a -> dump_line (a ++ 10 :: rest) = Ok rest.
Proof.
  induction a as [|c a IH]; intros rest Hn; simpl.
  - reflexivity.
  - assert (E : (c =? 10) = false). { apply Z.eqb_neq. intro; subst. apply Hn. left; reflexivity. }
    rewrite E. apply IH. intro Hin. apply Hn. right; assumption.
Qed.

Lemma fgets_aux_line : forall L rest k,
  ~ In 10 L -> (length L < k)%nat -> fgets_aux k (L ++ 10 :: rest) = (L ++ [10], rest).
Proof.
  induction L as [|c L IH]; intros rest k Hn Hk.
  - destruct k; [simpl in Hk; lia|]. reflexivity.
  - destruct k; [simpl in Hk; lia|]. cbn [app fgets_aux].
    assert (E : (c =? 10) = false). { apply Z.eqb_neq. intro; subst. apply Hn. left; reflexivity. }
    rewrite E. rewrite IH; [reflexivity| |simpl in Hk; lia].
    intro Hin. apply Hn. right; assumption.
Qed.

Lemma fgets_line : forall L rest buf,
  ~ In 10 L -> (length L <= 98)%nat ->
  fgets buf (L ++ 10 :: rest) = (L ++ 10 :: 0 :: skipn (length L + 2) buf, rest).
Proof.
  intros L rest buf Hn Hl. unfold fgets. rewrite fgets_aux_line by (auto; lia).
  unfold buf_write. repeat rewrite <- app_assoc. cbn [app].
  repeat rewrite app_length. cbn [length]. reflexivity.
Qed.

Lemma buf_set_app : forall pre c post v n, n = length pre -> buf_set n v (pre ++ c :: post) = pre ++ v :: post.
Proof.
  intros pre c post v n ->. unfold buf_set.
  rewrite firstn_app_exact. f_equal. f_equal.
  rewrite skipn_app. rewrite skipn_all2 by lia.
  replace (S (length pre) - length pre)%nat with 1%nat by lia. reflexivity.
Qed.

Lemma field_cells_app : forall pre F c post j w,
  1 <= w -> 0 <= j -> Z.of_nat (length pre) = j * w -> Z.of_nat (length F) = w -> (j + 1) * w < 100 ->
  field_cells (pre ++ F ++ c :: post) j w = Ok (F ++ 0 :: post).
Proof.
  intros pre F c post j w Hw Hj Hpre HF Hb. unfold field_cells.
  assert (E0 : (w =? 0) = false) by lia. rewrite E0.
  assert (E1 : ((0 <=? (j + 1) * w) && ((j + 1) * w <? BUFSZ) && (0 <=? j * w)) = true).
  { unfold BUFSZ. rewrite !andb_true_iff. repeat split; nia. }
  rewrite E1. f_equal.
  rewrite app_assoc.
  rewrite buf_set_app by (rewrite app_length; nia).
  rewrite <- app_assoc. apply skipn_app_exact'. lia.
Qed.

(* ================================================================== a vector of fixed-width fields, generically *)
Lemma chunk_concat : forall (A : Type) fuel per (xs : list A),
  (1 <= per)%nat -> (length xs <= fuel)%nat -> concat (chunk fuel per xs) = xs.
Proof.
  induction fuel as [|f IH]; intros per xs Hp Hl.
  - destruct xs; [reflexivity|simpl in Hl; lia].
  - destruct xs as [|x xs']; [reflexivity|]. cbn [chunk concat].
    rewrite IH; [apply firstn_skipn|assumption|].
    rewrite skipn_length. cbn [length] in *. lia.
Qed.

Lemma concat_map_length : forall (A : Type) (pf : A -> list Z) (P : A -> Prop) w xs,
  (forall x, P x -> Z.of_nat (length (pf x)) = w) -> Forall P xs ->
  Z.of_nat (length (concat (map pf xs))) = Z.of_nat (length xs) * w.
Proof.
  intros A pf P w xs Hlen. induction xs as [|x xs IH]; intros HP.
  - reflexivity.
  - inversion HP as [|? ? Hx Hxs]; subst. cbn [map concat length].
    rewrite app_length, Nat2Z.inj_add, IH, (Hlen x Hx) by assumption. lia.
Qed.

Lemma concat_map_no10 : forall (A : Type) (pf : A -> list Z) (P : A -> Prop) xs,
  (forall x, P x -> ~ In 10 (pf x)) -> Forall P xs -> ~ In 10 (concat (map pf xs)).
Proof.
  intros A pf P xs Hn. induction xs as [|x xs IH]; intros HP Hin.
  - exact Hin.
  - inversion HP as [|? ? Hx Hxs]; subst. cbn [map concat] in Hin. apply in_app_or in Hin.
    destruct Hin as [Hin|Hin]; [exact (Hn x Hx Hin)|exact (IH Hxs Hin)].
Qed.

Lemma Forall_firstn : forall (A : Type) (P : A -> Prop) n l, Forall P l -> Forall P (firstn n l).
Proof.
  intros A P n. induction n as [|n IH]; intros l H; [constructor|].
  destruct l as [|x l]; [constructor|]. inversion H; subst. cbn [firstn]. constructor; auto.
Qed.

Lemma Forall_skipn : forall (A : Type) (P : A -> Prop) n l, Forall P l -> Forall P (skipn n l).
Proof.
  intros A P n. induction n as [|n IH]; intros l H; [exact H|].
  destruct l as [|x l]; [constructor|]. inversion H; subst. cbn [skipn]. auto.
Qed.

Definition print_chunks {A : Type} (pf : A -> list Z) (cs : list (list A)) : list Z :=
  concat (map (fun c => concat (map pf c) ++ [10]) cs).

Lemma print_vec_eq : forall (A : Type) (pf : A -> list Z) per xs,
  print_vec pf per xs = print_chunks pf (chunk (length xs) (Z.to_nat per) xs).
Proof. reflexivity. Qed.

Section LinesRoundtrip.
  Context {A B : Type}.
  Variables (w : Z) (pf pf' : A -> list Z) (g : A -> B) (P : A -> Prop).
  Variable rf : list Z -> Z -> res (B * list Z).
  Hypothesis Hw : 1 <= w.
  Hypothesis Hlen : forall x, P x -> Z.of_nat (length (pf x)) = w.
  Hypothesis Hlen' : forall x, P x -> length (pf' x) = length (pf x).
  Hypothesis Hnl : forall x, P x -> ~ In 10 (pf x).
  Hypothesis Hrf : forall pre x rest j,
    P x -> rest <> [] -> 0 <= j -> Z.of_nat (length pre) = j * w -> (j + 1) * w < 100 ->
    rf (pre ++ pf x ++ rest) j = Ok (g x, pre ++ pf' x ++ rest).

  Lemma read_fields_ok : forall xs pre rest k j rem,
    Forall P xs -> rest <> [] -> 0 <= j -> Z.of_nat (length pre) = j * w ->
    (j + Z.of_nat (length xs)) * w < 100 ->
    (length xs <= k)%nat -> Z.of_nat (length xs) <= rem ->
    (length xs = k \/ Z.of_nat (length xs) = rem) ->
    read_fields rf k j (pre ++ concat (map pf xs) ++ rest) rem
    = Ok (map g xs, pre ++ concat (map pf' xs) ++ rest, rem - Z.of_nat (length xs)).
  Proof.
    induction xs as [|x xs IH]; intros pre rest k j rem HP Hrest Hj Hpre Hb Hk Hrem Hstop.
    - cbn [map concat app length]. destruct k as [|k'].
      + cbn [read_fields]. do 3 f_equal. cbn. lia.
      + cbn [read_fields]. destruct Hstop as [Hs|Hs]; [discriminate|].
        cbn [length] in Hs. assert (E : (rem <=? 0) = true) by lia. rewrite E. do 3 f_equal. cbn. lia.
    - inversion HP as [|? ? Hx Hxs]; subst.
      destruct k as [|k']; [cbn [length] in Hk; lia|].
      cbn [read_fields]. cbn [length] in *.
      assert (E : (rem <=? 0) = false) by lia. rewrite E.
      cbn [map concat]. rewrite <- app_assoc.
      rewrite Hrf; [|assumption| |assumption|assumption|nia].
      2:{ destruct rest; [congruence|]. intro H0. apply app_eq_nil in H0. destruct H0; discriminate. }
      rewrite (app_assoc pre (pf' x)).
      rewrite (IH (pre ++ pf' x) rest k' (j + 1) (rem - 1)); try assumption; try lia.
      { replace (rem - 1 - Z.of_nat (length xs)) with (rem - Z.of_nat (S (length xs))) by lia.
        repeat rewrite <- app_assoc. reflexivity. }
      all: try (rewrite app_length, Hlen', Nat2Z.inj_add, Hpre, (Hlen x Hx) by assumption; lia).
      all: try (rewrite Nat2Z.inj_succ in Hb; nia).
  Qed.

  Variable per : Z.
  Hypothesis Hper : 1 <= per.
  Hypothesis Hline : per * w <= 80.

  Lemma read_lines_ok : forall fc xs fuel rest buf,
    Forall P xs -> (length xs <= fc)%nat -> (length xs <= fuel)%nat ->
    read_lines rf fuel (print_chunks pf (chunk fc (Z.to_nat per) xs) ++ rest) buf (Z.of_nat (length xs)) per
    = Ok (map g xs, rest).
  Proof.
    induction fc as [|fc IH]; intros xs fuel rest buf HP Hfc Hfuel.
    - destruct xs; [|cbn [length] in Hfc; lia]. cbn [chunk]. unfold print_chunks. cbn [map concat app length].
      destruct fuel; reflexivity.
    - destruct xs as [|x xs'].
      + cbn [chunk]. unfold print_chunks. cbn [map concat app length]. destruct fuel; reflexivity.
      + set (xs := x :: xs') in *.
        assert (Hlen1 : (1 <= length xs)%nat) by (unfold xs; cbn [length]; lia).
        destruct fuel as [|fl]; [lia|].
        change (chunk (S fc) (Z.to_nat per) xs)
          with (firstn (Z.to_nat per) xs :: chunk fc (Z.to_nat per) (skipn (Z.to_nat per) xs)).
        set (c := firstn (Z.to_nat per) xs).
        set (xr := skipn (Z.to_nat per) xs).
        unfold print_chunks. cbn [map concat]. fold (print_chunks pf (chunk fc (Z.to_nat per) xr)).
        repeat rewrite <- app_assoc. cbn [app].
        assert (HPc : Forall P c) by (apply Forall_firstn; assumption).
        assert (HPr : Forall P xr) by (apply Forall_skipn; assumption).
        assert (Hclen : length c = Nat.min (Z.to_nat per) (length xs)) by apply firstn_length.
        assert (Hrlen : length xr = (length xs - Z.to_nat per)%nat) by apply skipn_length.
        pose proof (concat_map_length A pf P w c Hlen HPc) as HL.
        pose proof (concat_map_no10 A pf P c Hnl HPc) as HN.
        set (L := concat (map pf c)) in *.
        cbn [read_lines].
        assert (E1 : (Z.of_nat (length xs) <=? 0) = false) by lia. rewrite E1.
        assert (E2 : (per <=? 0) = false) by lia. rewrite E2.
        assert (HLlen : (length L <= 80)%nat) by nia.
        destruct (L ++ 10 :: print_chunks pf (chunk fc (Z.to_nat per) xr) ++ rest) as [|h t] eqn:Es.
        { destruct L; discriminate. }
        rewrite <- Es. rewrite fgets_line by (auto; lia).
        change (L ++ 10 :: 0 :: skipn (length L + 2) buf) with ([] ++ L ++ 10 :: 0 :: skipn (length L + 2) buf).
        unfold L at 1.
        rewrite (read_fields_ok c [] (10 :: 0 :: skipn (length L + 2) buf)); try assumption; try discriminate; try lia.
        * replace (Z.of_nat (length xs) - Z.of_nat (length c)) with (Z.of_nat (length xr)) by lia.
          rewrite (IH xr fl rest); try assumption; try lia.
          { rewrite <- map_app. unfold c, xr. rewrite firstn_skipn. reflexivity. }
          all: try (rewrite Hrlen; cbn [length] in Hfc; lia).
        all: try (cbn [length]; lia).
        all: try nia.
        all: try (rewrite Hclen; lia).
        * cbn [length]. lia.
  Qed.

  (* the vector as printed, followed by anything, read with enough fuel *)
  Lemma read_lines_print_vec : forall xs rest buf,
    Forall P xs ->
    read_lines rf (S (length (print_vec pf per xs ++ rest))) (print_vec pf per xs ++ rest) buf
               (Z.of_nat (length xs)) per = Ok (map g xs, rest).
  Proof.
    intros xs rest buf HP. rewrite print_vec_eq. apply read_lines_ok; try assumption; try lia.
    rewrite <- print_vec_eq.
    (* every field has w >= 1 bytes *)
    assert (H : Z.of_nat (length xs) <= Z.of_nat (length (print_vec pf per xs))).
    { rewrite print_vec_eq.
      assert (Hgen : forall fc ys, Forall P ys -> (length ys <= fc)%nat ->
                Z.of_nat (length ys) <= Z.of_nat (length (print_chunks pf (chunk fc (Z.to_nat per) ys)))).
      { induction fc as [|fc IHf]; intros ys HPy Hy.
        - destruct ys; [cbn; lia|cbn [length] in Hy; lia].
        - destruct ys as [|y ys']; [cbn; lia|].
          change (chunk (S fc) (Z.to_nat per) (y :: ys'))
            with (firstn (Z.to_nat per) (y :: ys') :: chunk fc (Z.to_nat per) (skipn (Z.to_nat per) (y :: ys'))).
          unfold print_chunks. cbn [map concat].
          fold (print_chunks pf (chunk fc (Z.to_nat per) (skipn (Z.to_nat per) (y :: ys')))).
          repeat rewrite app_length.
          pose proof (concat_map_length A pf P w (firstn (Z.to_nat per) (y :: ys')) Hlen (Forall_firstn _ _ _ _ HPy)) as HL.
          assert (Hs : (length (skipn (Z.to_nat per) (y :: ys')) <= fc)%nat).
          { rewrite skipn_length. cbn [length] in *. lia. }
          specialize (IHf (skipn (Z.to_nat per) (y :: ys')) (Forall_skipn _ _ _ _ HPy) Hs).
          pose proof (firstn_skipn (Z.to_nat per) (y :: ys')) as Hfs.
          assert (Hl2 : length (y :: ys') = (length (firstn (Z.to_nat per) (y :: ys')) + length (skipn (Z.to_nat per) (y :: ys')))%nat).
          { rewrite <- app_length, Hfs. reflexivity. }
          rewrite Hl2. repeat rewrite Nat2Z.inj_add. cbn [length]. nia. }
      apply Hgen; [assumption|lia]. }
    rewrite app_length. lia.
  Qed.
End LinesRoundtrip.

(* ================================================================== integer vectors *)
Definition int_item_ok (w y : Z) : Prop :=
  1 <= y <= INT_MAX /\ Z.of_nat (length (dec_digits y)) <= w.

Lemma print_int_no10 : forall w y, 0 <= y -> ~ In 10 (print_int w y).
Proof.
  intros w y Hy Hin. rewrite print_int_eq in Hin. apply in_app_or in Hin. destruct Hin as [Hin|Hin].
  - apply repeat_spec in Hin. discriminate.
  - pose proof (dec_digits_all y Hy) as Hd. unfold all_digits in Hd. rewrite Forall_forall in Hd.
    specialize (Hd 10 Hin). discriminate.
Qed.

Lemma read_int_field_print : forall w pre y rest j,
  1 <= w -> int_item_ok w y -> rest <> [] -> 0 <= j -> Z.of_nat (length pre) = j * w -> (j + 1) * w < 100 ->
  read_int_field w (pre ++ print_int w y ++ rest) j = Ok (y - 1, pre ++ print_int w y ++ rest).
Proof.
  intros w pre y rest j Hw [Hy Hfit] Hrest Hj Hpre Hb.
  destruct rest as [|c post]; [congruence|].
  unfold read_int_field. rewrite field_cells_app; try assumption.
  - cbn [bind]. rewrite atoi_buf_print_int; [|lia|reflexivity|lia]. cbn [bind].
    assert (E : in_int (y - 1) = true) by (apply in_int_of_bounds; lia). rewrite E. reflexivity.
  - rewrite print_int_length; lia.
Qed.

Lemma read_vector_print : forall per w xs rest,
  1 <= per -> 1 <= w -> per * w <= 80 -> Forall (fun x => int_item_ok w (x + 1)) xs ->
  read_vector (print_vec (print_int w) per (succs xs) ++ rest) (Z.of_nat (length xs)) per w = Ok (xs, rest).
Proof.
  intros per w xs rest Hper Hw Hline HP. unfold read_vector.
  replace (Z.of_nat (length xs)) with (Z.of_nat (length (succs xs))) by (unfold succs; rewrite map_length; reflexivity).
  rewrite (read_lines_print_vec w (print_int w) (print_int w) (fun y => y - 1) (int_item_ok w)
             (read_int_field w) Hw).
  - f_equal. f_equal. unfold succs. rewrite map_map. rewrite <- (map_id xs) at 2. apply map_ext. intros a. lia.
  - intros y [Hy Hfit]. rewrite print_int_length; lia.
  - reflexivity.
  - intros y [Hy Hfit]. apply print_int_no10. lia.
  - intros pre y rest0 j HPy Hr Hj Hpre Hb. apply read_int_field_print; assumption.
  - assumption.
  - assumption.
  - unfold succs. apply Forall_forall. intros y Hy. apply in_map_iff in Hy. destruct Hy as (x & <- & Hx).
    rewrite Forall_forall in HP. apply HP. assumption.
Qed.

(* ================================================================== decimal reals *)
Definition fscale (f : ffmt) : Z := match f_scale f with Some s => s | None => 0 end.

(* the exact triple the reader extracts from the field printed for v in format f *)
Definition norm_dec (f : ffmt) (v : dec) : dec :=
  let '(neg, mant, ex) := v in
  match f_kind f with
  | FF => (neg, mant * 10 ^ (ex + f_d f), - f_d f)
  | _ =>
      let k := Z.of_nat (length (dec_digits mant)) in
      let s := fscale f in
      let total := if s =? 0 then f_d f else f_d f + 1 in
      (neg, mant * 10 ^ (total - k), (if mant =? 0 then 0 else ex + k - s) - (total - s))
  end.

(* same sign, same rational value *)
Definition dec_eqv (a b : dec) : Prop :=
  let '(na, ma, ea) := a in
  let '(nb, mb, eb) := b in
  na = nb /\ ma * 10 ^ (ea - Z.min ea eb) = mb * 10 ^ (eb - Z.min ea eb).

Definition sgn_text (neg : bool) : list Z := if neg then [45] else [].

Lemma scan_sign_sgn : forall neg c l,
  is_digit c = true -> scan_sign (sgn_text neg ++ c :: l) = (neg, c :: l).
Proof.
  intros neg c l Hc. destruct neg; cbn [sgn_text app].
  - reflexivity.
  - apply scan_sign_digit_head. assumption.
Qed.

Lemma skip_ws_sgn : forall neg c l,
  is_digit c = true -> skip_ws (sgn_text neg ++ c :: l) = sgn_text neg ++ c :: l.
Proof.
  intros neg c l Hc. destruct neg; cbn [sgn_text app].
  - reflexivity.
  - apply skip_ws_digit_head. apply digit_not_space. assumption.
Qed.

Definition esign_char (eneg : bool) : Z := if eneg then 45 else 43.

Lemma not_special_digits : forall c ip' r,
  is_digit c = true -> all_digits ip' -> head_not_digit r ->
  (match r with x :: _ => negb ((x =? 120) || (x =? 88)) | [] => true end) = true ->
  ((c =? 105) || (c =? 73) || (c =? 110) || (c =? 78) ||
   ((c =? 48) && match ip' ++ r with x :: _ => (x =? 120) || (x =? 88) | [] => false end)) = false.
Proof.
  intros c ip' r Hc Hip Hr Hx. unfold is_digit in Hc.
  assert (E1 : (c =? 105) = false) by lia. assert (E2 : (c =? 73) = false) by lia.
  assert (E3 : (c =? 110) = false) by lia. assert (E4 : (c =? 78) = false) by lia.
  rewrite E1, E2, E3, E4. cbn [orb].
  destruct ip' as [|y ip''].
  - cbn [app]. destruct r as [|x r']; [apply andb_false_r|].
    apply negb_true_iff in Hx. rewrite Hx. apply andb_false_r.
  - cbn [app]. inversion Hip as [|? ? Hy Hrest]; subst. unfold is_digit in Hy.
    assert (E5 : (y =? 120) = false) by lia. assert (E6 : (y =? 88) = false) by lia.
    rewrite E5, E6. apply andb_false_r.
Qed.

(* [blanks][-]ip.fp E[+-]ed  with ip non-empty *)
Lemma scan_float_sci : forall k neg ip fp eneg ed,
  all_digits ip -> ip <> [] -> all_digits fp -> all_digits ed -> ed <> [] ->
  scan_float (blanks k ++ sgn_text neg ++ ip ++ 46 :: fp ++ 69 :: esign_char eneg :: ed)
  = (0, (neg, val_digits (ip ++ fp), (if eneg then - val_digits ed else val_digits ed) - Z.of_nat (length fp)), []).
Proof.
  intros k neg ip fp eneg ed Hip Hipn Hfp Hed Hedn.
  destruct ip as [|c ip']; [congruence|]. inversion Hip as [|? ? Hc Hip']; subst.
  unfold scan_float. rewrite skip_ws_blanks. cbn [app].
  rewrite skip_ws_sgn, scan_sign_sgn by assumption.
  rewrite (not_special_digits c ip' (46 :: fp ++ 69 :: esign_char eneg :: ed)); try assumption; try reflexivity.
  change (c :: ip' ++ 46 :: fp ++ 69 :: esign_char eneg :: ed)
    with ((c :: ip') ++ 46 :: fp ++ 69 :: esign_char eneg :: ed).
  rewrite span_digits_app; [|assumption|reflexivity].
  change (46 =? 46) with true. cbn iota.
  rewrite span_digits_app; [|assumption|reflexivity].
  cbn [is_nil andb]. change (is_e 69) with true. cbn iota.
  assert (Es : scan_sign (esign_char eneg :: ed) = (eneg, ed)) by (destruct eneg; reflexivity).
  rewrite Es.
  rewrite <- (app_nil_r ed) at 1. rewrite span_digits_app; [|assumption|exact I].
  destruct ed as [|e0 ed']; [congruence|]. cbn [is_nil]. reflexivity.
Qed.

(* [blanks][-]ip.fp  (end of string) with ip non-empty *)
Lemma scan_float_fixed : forall k neg ip fp,
  all_digits ip -> ip <> [] -> all_digits fp ->
  scan_float (blanks k ++ sgn_text neg ++ ip ++ 46 :: fp)
  = (0, (neg, val_digits (ip ++ fp), - Z.of_nat (length fp)), []).
Proof.
  intros k neg ip fp Hip Hipn Hfp.
  destruct ip as [|c ip']; [congruence|]. inversion Hip as [|? ? Hc Hip']; subst.
  unfold scan_float. rewrite skip_ws_blanks. cbn [app].
  rewrite skip_ws_sgn, scan_sign_sgn by assumption.
  rewrite (not_special_digits c ip' (46 :: fp)); try assumption; try reflexivity.
  change (c :: ip' ++ 46 :: fp) with ((c :: ip') ++ 46 :: fp).
  rewrite span_digits_app; [|assumption|reflexivity].
  change (46 =? 46) with true. cbn iota.
  rewrite <- (app_nil_r fp) at 1. rewrite span_digits_app; [|assumption|exact I].
  cbn [is_nil andb]. reflexivity.
Qed.

Lemma cstr_app : forall F post, Forall (fun c => 0 < c) F -> cstr (F ++ 0 :: post) = Ok F.
Proof.
  induction F as [|c F IH]; intros post HF.
  - reflexivity.
  - inversion HF as [|? ? Hc HF']; subst. cbn [app cstr].
    assert (E1 : (c =? 0) = false) by lia. assert (E2 : (c <? 0) = false) by lia.
    rewrite E1, E2, IH by assumption. reflexivity.
Qed.

Lemma d2e_id : forall c, c <> 68 -> c <> 100 -> d2e c = c.
Proof. intros c H1 H2. unfold d2e. assert (E : ((c =? 68) || (c =? 100)) = false) by lia. rewrite E. reflexivity. Qed.

Lemma map_d2e_id : forall l, Forall (fun c => c <> 68 /\ c <> 100) l -> map d2e l = l.
Proof.
  induction l as [|c l IH]; intros H; [reflexivity|].
  inversion H as [|? ? [H1 H2] Hl]; subst. cbn [map]. rewrite d2e_id, IH by assumption. reflexivity.
Qed.

Lemma map_d2e_digits : forall l, all_digits l -> map d2e l = l.
Proof.
  intros l H. apply map_d2e_id. unfold all_digits in H. rewrite Forall_forall in *. intros x Hx.
  specialize (H x Hx). unfold is_digit in H. lia.
Qed.

Lemma map_d2e_blanks : forall k, map d2e (blanks k) = blanks k.
Proof. intros k. apply map_d2e_id. apply Forall_forall. intros x Hx. apply repeat_spec in Hx. subst. lia. Qed.

Lemma map_d2e_sgn : forall neg, map d2e (sgn_text neg) = sgn_text neg.
Proof. destruct neg; reflexivity. Qed.

Definition ge32 (l : list Z) : Prop := Forall (fun c => 32 <= c) l.

Lemma ge32_app : forall a b, ge32 a -> ge32 b -> ge32 (a ++ b).
Proof. intros a b Ha Hb. apply Forall_app. split; assumption. Qed.
Lemma ge32_digits : forall l, all_digits l -> ge32 l.
Proof.
  intros l H. unfold all_digits in H. unfold ge32. rewrite Forall_forall in *. intros x Hx.
  specialize (H x Hx). unfold is_digit in H. lia.
Qed.
Lemma ge32_blanks : forall k, ge32 (blanks k).
Proof. intros k. apply Forall_forall. intros x Hx. apply repeat_spec in Hx. subst. lia. Qed.
Lemma ge32_sgn : forall neg, ge32 (sgn_text neg).
Proof. destruct neg; unfold ge32, sgn_text; [constructor; [lia|constructor]|constructor]. Qed.
Lemma ge32_no10 : forall l, ge32 l -> ~ In 10 l.
Proof. intros l H Hin. unfold ge32 in H. rewrite Forall_forall in H. specialize (H 10 Hin). lia. Qed.
Lemma ge32_pos : forall l, ge32 l -> Forall (fun c => 0 < c) l.
Proof. intros l H. unfold ge32 in H. rewrite Forall_forall in *. intros x Hx. specialize (H x Hx). lia. Qed.

Lemma zeros_length : forall k, length (zeros k) = k.
Proof. intros; apply repeat_length. Qed.

(* the printed exponent *)
Lemma exp_text_shape : forall L x,
  exists ed, exp_text L x = L :: esign_char (x <? 0) :: ed /\ all_digits ed /\ ed <> [] /\ val_digits ed = Z.abs x.
Proof.
  intros L x. unfold exp_text.
  destruct (dec_digits_spec (Z.abs x) (Z.abs_nonneg x)) as (H1 & H2 & H3).
  exists (zeros (2 - length (dec_digits (Z.abs x))) ++ dec_digits (Z.abs x)). repeat split.
  - apply all_digits_app; [apply all_digits_zeros|assumption].
  - intro H. apply app_eq_nil in H. destruct H. contradiction.
  - rewrite val_digits_app, val_zeros, H2. lia.
Qed.

(* shape of an E/D field after the D->E replacement *)
Lemma print_dec_sci_shape : forall f neg mant ex,
  f_kind f <> FF -> 0 <= mant -> 0 <= f_d f ->
  (fscale f = 0 \/ 1 <= fscale f <= f_d f + 1) ->
  let k := Z.of_nat (length (dec_digits mant)) in
  let total := if fscale f =? 0 then f_d f else f_d f + 1 in
  k <= total ->
  let x := if mant =? 0 then 0 else ex + k - fscale f in
  exists ip fp ed,
    map d2e (print_dec_text f (neg, mant, ex))
      = sgn_text neg ++ ip ++ 46 :: fp ++ 69 :: esign_char (x <? 0) :: ed
    /\ all_digits ip /\ ip <> [] /\ all_digits fp /\ all_digits ed /\ ed <> []
    /\ val_digits (ip ++ fp) = mant * 10 ^ (total - k)
    /\ Z.of_nat (length fp) = total - fscale f
    /\ val_digits ed = Z.abs x.
Proof.
  intros f neg mant ex Hk Hm Hd Hs k total Hkt x.
  destruct (dec_digits_spec mant Hm) as (Hds1 & Hds2 & Hds3).
  set (ds := dec_digits mant) in *.
  set (D := ds ++ zeros (Z.to_nat total - length ds)).
  assert (HD : all_digits D) by (apply all_digits_app; [assumption|apply all_digits_zeros]).
  assert (HDlen : Z.of_nat (length D) = total).
  { unfold D. rewrite app_length, zeros_length. unfold k in Hkt. lia. }
  assert (HDval : val_digits D = mant * 10 ^ (total - k)).
  { unfold D. rewrite val_digits_app, val_zeros, zeros_length, Hds2. unfold k in *.
    replace (Z.of_nat (Z.to_nat total - length ds)) with (total - Z.of_nat (length ds)) by lia. lia. }
  set (L := kind_letter (f_kind f) false).
  assert (HL : d2e L = 69) by (unfold L; destruct (f_kind f); [reflexivity|reflexivity|congruence]).
  destruct (exp_text_shape L x) as (ed & Hex & Hed1 & Hed2 & Hed3).
  assert (Hform : forall ip fp, all_digits ip -> all_digits fp ->
     map d2e (sgn_text neg ++ ip ++ [46] ++ fp ++ exp_text L x)
     = sgn_text neg ++ ip ++ 46 :: fp ++ 69 :: esign_char (x <? 0) :: ed).
  { intros ip fp Hip Hfp. rewrite Hex. repeat rewrite map_app. cbn [map].
    rewrite map_d2e_sgn, (map_d2e_digits ip Hip), (map_d2e_digits fp Hfp), (map_d2e_digits ed Hed1), HL.
    replace (d2e 46) with 46 by reflexivity.
    replace (d2e (esign_char (x <? 0))) with (esign_char (x <? 0)) by (destruct (x <? 0); reflexivity).
    reflexivity. }
  assert (Htext : print_dec_text f (neg, mant, ex)
     = sgn_text neg ++ (if fscale f =? 0 then [48] else firstn (Z.to_nat (fscale f)) D) ++ [46]
       ++ (if fscale f =? 0 then D else skipn (Z.to_nat (fscale f)) D) ++ exp_text L x).
  { unfold print_dec_text. destruct (f_kind f) eqn:Ek; try congruence; reflexivity. }
  rewrite Htext.
  destruct (fscale f =? 0) eqn:Es.
  - exists [48], D, ed. rewrite Hform; [|apply all_digits_one; lia|assumption].
    split; [reflexivity|]. split; [apply all_digits_one; lia|]. split; [discriminate|].
    split; [assumption|]. split; [assumption|]. split; [assumption|].
    split; [change ([48] ++ D) with (48 :: D); rewrite val_digits_cons, HDval; lia|].
    split; [lia|assumption].
  - assert (Hs1 : 1 <= fscale f <= f_d f + 1) by lia.
    exists (firstn (Z.to_nat (fscale f)) D), (skipn (Z.to_nat (fscale f)) D), ed.
    rewrite Hform; [|apply Forall_firstn; assumption|apply Forall_skipn; assumption].
    split; [reflexivity|]. split; [apply Forall_firstn; assumption|].
    split.
    { intro H0. apply (f_equal (@length Z)) in H0. rewrite firstn_length in H0. cbn [length] in H0. lia. }
    split; [apply Forall_skipn; assumption|]. split; [assumption|]. split; [assumption|].
    split; [rewrite firstn_skipn; assumption|].
    split; [rewrite skipn_length; lia|assumption].
Qed.

Lemma print_dec_fix_shape : forall f neg mant ex,
  f_kind f = FF -> 0 <= mant -> 0 <= f_d f -> 0 <= ex + f_d f ->
  exists ip fp,
    print_dec_text f (neg, mant, ex) = sgn_text neg ++ ip ++ 46 :: fp
    /\ all_digits ip /\ ip <> [] /\ all_digits fp
    /\ val_digits (ip ++ fp) = mant * 10 ^ (ex + f_d f)
    /\ Z.of_nat (length fp) = f_d f.
Proof.
  intros f neg mant ex Hk Hm Hd Hex.
  set (n := mant * 10 ^ (ex + f_d f)).
  assert (Hn : 0 <= n) by (unfold n; apply Z.mul_nonneg_nonneg; [assumption|apply Z.pow_nonneg; lia]).
  assert (Hp : 0 < 10 ^ f_d f) by (apply Z.pow_pos_nonneg; lia).
  pose proof (Z.div_pos n (10 ^ f_d f) Hn Hp) as Hq.
  pose proof (Z.mod_pos_bound n (10 ^ f_d f) Hp) as Hr.
  pose proof (Z.div_mod n (10 ^ f_d f) ltac:(lia)) as Hdm.
  destruct (dec_digits_spec (n / 10 ^ f_d f) Hq) as (Hi1 & Hi2 & Hi3).
  destruct (dec_digits_spec (n mod 10 ^ f_d f) ltac:(lia)) as (Hf1 & Hf2 & Hf3).
  unfold print_dec_text. rewrite Hk. fold n.
  destruct (f_d f =? 0) eqn:Ed.
  - exists (dec_digits (n / 10 ^ f_d f)), [].
    split; [reflexivity|]. split; [assumption|]. split; [assumption|]. split; [constructor|].
    split.
    { rewrite app_nil_r, Hi2. assert (H0 : f_d f = 0) by lia. rewrite H0 in *. change (10 ^ 0) with 1 in *.
      rewrite Z.div_1_r. reflexivity. }
    cbn [length]. lia.
  - set (fds := dec_digits (n mod 10 ^ f_d f)) in *.
    assert (Hlen : (length fds <= Z.to_nat (f_d f))%nat).
    { apply dec_digits_length; [lia|]. rewrite Z2Nat.id by lia. lia. }
    exists (dec_digits (n / 10 ^ f_d f)), (zeros (Z.to_nat (f_d f) - length fds) ++ fds).
    split; [reflexivity|]. split; [assumption|]. split; [assumption|].
    split; [apply all_digits_app; [apply all_digits_zeros|assumption]|].
    split.
    { rewrite val_digits_app, Hi2. rewrite val_digits_app, val_zeros, Hf2.
      rewrite app_length, zeros_length.
      replace (Z.of_nat (Z.to_nat (f_d f) - length fds + length fds)) with (f_d f) by lia. lia. }
    rewrite app_length, zeros_length. lia.
Qed.

Lemma ge32_of_map_d2e : forall l, ge32 (map d2e l) -> ge32 l.
Proof.
  induction l as [|c l IH]; intros H; [constructor|].
  cbn [map] in H. inversion H as [|? ? Hc Hl]; subst. constructor; [|apply IH; assumption].
  unfold d2e in Hc. destruct ((c =? 68) || (c =? 100)) eqn:E; lia.
Qed.

Lemma pad_left_length : forall w t, (length t <= w)%nat -> length (pad_left w t) = w.
Proof. intros w t H. unfold pad_left. rewrite app_length, blanks_length. lia. Qed.

Lemma ffmt_ok_facts : forall f, ffmt_ok f = true ->
  1 <= f_per f /\ 1 <= f_w f /\ 0 <= f_d f /\ f_per f * f_w f <= 80 /\
  (f_kind f <> FF -> fscale f = 0 \/ 1 <= fscale f <= f_d f + 1).
Proof.
  intros f H. unfold ffmt_ok in H. repeat rewrite andb_true_iff in H.
  destruct H as [[[[[H1 H2] H3] H4] H5] H6].
  repeat split; try lia.
  intros Hk. unfold fscale. destruct (f_scale f) as [s|]; [|left; reflexivity].
  rewrite andb_true_iff in H6. destruct H6 as [H6a H6].
  destruct (f_kind f); try congruence; right; lia.
Qed.

Lemma ffmt_ok_wf : forall f, ffmt_ok f = true -> ffmt_wf f /\ (length (ffmt_text f) <= 20)%nat.
Proof.
  intros f H. unfold ffmt_ok in H. repeat rewrite andb_true_iff in H.
  destruct H as [[[[[H1 H2] H3] H4] H5] H6].
  unfold ffmt_wf, INT_MAX in *. split; [|lia].
  repeat split; try nia.
  destruct (f_scale f) as [s|]; [|exact I].
  rewrite andb_true_iff in H6. destruct H6 as [H6a H6]. destruct (f_kind f); lia.
Qed.

Lemma ifmt_ok_wf : forall f, ifmt_ok f = true ->
  ifmt_wf f /\ (length (ifmt_text f) <= 16)%nat /\ 1 <= i_per f /\ 1 <= i_w f /\ i_per f * i_w f <= 80.
Proof.
  intros f H. unfold ifmt_ok in H. repeat rewrite andb_true_iff in H.
  destruct H as [[[H1 H2] H3] H4]. unfold ifmt_wf, INT_MAX. repeat split; try nia; lia.
Qed.

Lemma atof_print_dec : forall f v, ffmt_ok f = true -> dec_fits f v = true ->
  atof_str (map d2e (print_dec f v)) = Ok (norm_dec f v)
  /\ ge32 (print_dec f v) /\ length (print_dec f v) = Z.to_nat (f_w f).
Proof.
  intros f [[neg mant] ex] Hok Hfit.
  destruct (ffmt_ok_facts f Hok) as (Hper & Hw & Hd & Hline & Hsc).
  unfold dec_fits in Hfit. repeat rewrite andb_true_iff in Hfit. destruct Hfit as [[Hm Hkind] Hlen].
  assert (Hm' : 0 <= mant) by lia.
  assert (Hlen' : (length (print_dec_text f (neg, mant, ex)) <= Z.to_nat (f_w f))%nat) by lia.
  unfold print_dec, pad_left. rewrite map_app, map_d2e_blanks.
  set (kb := (Z.to_nat (f_w f) - length (print_dec_text f (neg, mant, ex)))%nat).
  assert (Hshape : exists ip fp tl_ d,
     map d2e (print_dec_text f (neg, mant, ex)) = sgn_text neg ++ ip ++ 46 :: fp ++ tl_
     /\ all_digits ip /\ all_digits fp /\ ge32 tl_
     /\ scan_float (blanks kb ++ sgn_text neg ++ ip ++ 46 :: fp ++ tl_) = (0, d, [])
     /\ d = norm_dec f (neg, mant, ex)).
  { assert (Hcase : f_kind f <> FF \/ f_kind f = FF) by (destruct (f_kind f); [left|left|right]; congruence).
    destruct Hcase as [Hk|Hk].
    - assert (Hkind' : Z.of_nat (length (dec_digits mant)) <= (if fscale f =? 0 then f_d f else f_d f + 1)).
      { unfold fscale. destruct (f_kind f); [lia|lia|congruence]. }
      destruct (print_dec_sci_shape f neg mant ex Hk Hm' Hd (Hsc Hk) Hkind')
        as (ip & fp & ed & E1 & E2 & E3 & E4 & E5 & E6 & E7 & E8 & E9).
      eexists ip, fp, _, _. split; [exact E1|]. split; [assumption|]. split; [assumption|].
      split.
      { constructor; [lia|]. constructor; [destruct (_ <? 0); cbn; lia|]. apply ge32_digits; assumption. }
      split; [apply scan_float_sci; assumption|].
      unfold norm_dec. rewrite E7, E8, E9.
      destruct (f_kind f); [| |congruence]; f_equal; destruct (_ <? 0) eqn:Ex; lia.
    - assert (Hkind' : 0 <= ex + f_d f) by (rewrite Hk in Hkind; lia).
      destruct (print_dec_fix_shape f neg mant ex Hk Hm' Hd Hkind') as (ip & fp & E1 & E2 & E3 & E4 & E5 & E6).
      exists ip, fp, [], (neg, val_digits (ip ++ fp), - Z.of_nat (length fp)).
      split.
      { rewrite E1. repeat rewrite map_app. cbn [map]. rewrite map_d2e_sgn, (map_d2e_digits ip E2), (map_d2e_digits fp E4).
        rewrite app_nil_r. reflexivity. }
      split; [assumption|]. split; [assumption|]. split; [constructor|].
      split; [rewrite app_nil_r; apply scan_float_fixed; assumption|].
      unfold norm_dec. rewrite Hk, E5, E6. reflexivity. }
  destruct Hshape as (ip & fp & tl_ & d & E1 & E2 & E3 & E4 & E5 & E6).
  split; [|split].
  - unfold atof_str. fold kb. rewrite E1, E5. cbn. rewrite E6. reflexivity.
  - apply ge32_app; [apply ge32_blanks|]. apply ge32_of_map_d2e. rewrite E1.
    apply ge32_app; [apply ge32_sgn|]. apply ge32_app; [apply ge32_digits; assumption|].
    constructor; [lia|]. apply ge32_app; [apply ge32_digits; assumption|assumption].
  - rewrite app_length, blanks_length. lia.
Qed.

Lemma map_d2e_length : forall l, length (map d2e l) = length l.
Proof. intros; apply map_length. Qed.

Lemma skipn_app2 : forall (A : Type) (a b r : list A), skipn (length a + length b) (a ++ b ++ r) = r.
Proof. intros A a b r. rewrite app_assoc, <- app_length. apply skipn_app_exact. Qed.

Lemma read_val_field_print : forall f pre v rest j,
  ffmt_ok f = true -> dec_fits f v = true -> rest <> [] -> 0 <= j ->
  Z.of_nat (length pre) = j * f_w f -> (j + 1) * f_w f < 100 ->
  read_val_field (f_w f) (pre ++ print_dec f v ++ rest) j
  = Ok (norm_dec f v, pre ++ map d2e (print_dec f v) ++ rest).
Proof.
  intros f pre v rest j Hok Hfit Hrest Hj Hpre Hb.
  destruct (ffmt_ok_facts f Hok) as (Hper & Hw & Hd & Hline & Hsc).
  destruct (atof_print_dec f v Hok Hfit) as (Hatof & Hge & Hlen).
  destruct rest as [|c post]; [congruence|].
  set (F := print_dec f v) in *.
  unfold read_val_field.
  assert (E0 : (f_w f =? 0) = false) by lia. rewrite E0.
  assert (E1 : ((0 <=? (j + 1) * f_w f) && ((j + 1) * f_w f <? BUFSZ) && (0 <=? j * f_w f)) = true).
  { unfold BUFSZ. rewrite !andb_true_iff. repeat split; nia. }
  rewrite E1.
  replace (Z.to_nat (j * f_w f)) with (length pre) by lia.
  rewrite firstn_app_exact, skipn_app_exact.
  rewrite <- Hlen. rewrite firstn_app_exact.
  rewrite skipn_app2.
  replace (Z.to_nat ((j + 1) * f_w f)) with (length (pre ++ map d2e F)).
  2:{ rewrite app_length, map_length. nia. }
  rewrite (app_assoc pre (map d2e F)). rewrite buf_set_app by reflexivity.
  rewrite <- app_assoc. rewrite skipn_app_exact.
  rewrite cstr_app.
  2:{ apply ge32_pos. unfold ge32 in *. rewrite Forall_forall in *. intros x Hx. apply in_map_iff in Hx.
      destruct Hx as (y & <- & Hy). specialize (Hge y Hy). unfold d2e. destruct ((y =? 68) || (y =? 100)); lia. }
  cbn [bind]. rewrite Hatof. cbn [bind]. reflexivity.
Qed.

Lemma read_values_print : forall f vs rest,
  ffmt_ok f = true -> Forall (fun v => dec_fits f v = true) vs ->
  read_values (print_vec (print_dec f) (f_per f) vs ++ rest) (Z.of_nat (length vs)) (f_per f) (f_w f)
  = Ok (map (norm_dec f) vs, rest).
Proof.
  intros f vs rest Hok HP. unfold read_values.
  destruct (ffmt_ok_facts f Hok) as (Hper & Hw & Hd & Hline & Hsc).
  apply (read_lines_print_vec (f_w f) (print_dec f) (fun v => map d2e (print_dec f v)) (norm_dec f)
           (fun v => dec_fits f v = true) (read_val_field (f_w f)) Hw).
  - intros v Hv. destruct (atof_print_dec f v Hok Hv) as (_ & _ & Hl). lia.
  - intros v Hv. apply map_length.
  - intros v Hv. destruct (atof_print_dec f v Hok Hv) as (_ & Hg & _). apply ge32_no10. assumption.
  - intros pre v rest0 j Hv Hr Hj Hpre Hb. apply read_val_field_print; assumption.
  - assumption.
  - assumption.
  - assumption.
Qed.

(* ================================================================== header lines *)
Lemma skipn_add : forall (A : Type) b a (l : list A), skipn a (skipn b l) = skipn (a + b) l.
Proof.
  intros A b. induction b as [|b IH]; intros a l.
  - rewrite Nat.add_0_r. reflexivity.
  - destruct l as [|x l].
    + repeat rewrite skipn_nil. reflexivity.
    + cbn [skipn]. rewrite IH. replace (a + S b)%nat with (S (a + b)) by lia. reflexivity.
Qed.

Lemma dump_line_nl : forall r, dump_line (10 :: r) = Ok r.
Proof. reflexivity. Qed.

Definition int14_ok (x : Z) : Prop := 0 <= x <= INT_MAX /\ (length (dec_digits x) <= 14)%nat.

Lemma int_fits_14 : forall x, int_fits 14 x = true -> int14_ok x.
Proof.
  intros x H. unfold int_fits in H. repeat rewrite andb_true_iff in H. destruct H as [[H1 H2] H3].
  unfold int14_ok. split; lia.
Qed.

Lemma print_int14_length : forall x, int14_ok x -> length (print_int 14 x) = 14%nat.
Proof. intros x [_ H]. rewrite print_int_length; [reflexivity|]. change (Z.to_nat 14) with 14%nat. exact H. Qed.

Lemma header_int_term : forall buf x rest,
  int14_ok x -> (15 <= length buf)%nat ->
  header_int 14 true buf (print_int 14 x ++ rest) = Ok (x, print_int 14 x ++ 0 :: skipn 15 buf, rest).
Proof.
  intros buf x rest Hx Hb. pose proof (print_int14_length x Hx) as Hl. destruct Hx as [Hx _].
  unfold header_int. rewrite read_c_app by assumption. cbn [bind].
  unfold buf_write. rewrite Hl.
  destruct (skipn 14 buf) as [|c t] eqn:Es.
  { apply (f_equal (@length Z)) in Es. rewrite skipn_length in Es. cbn [length] in Es. lia. }
  assert (Et : t = skipn 15 buf).
  { change 15%nat with (1 + 14)%nat. rewrite <- skipn_add, Es. reflexivity. }
  rewrite buf_set_app by (symmetry; assumption).
  rewrite atoi_buf_print_int; [|assumption|reflexivity|lia]. cbn [bind]. rewrite Et. reflexivity.
Qed.

Lemma header_int_unterm : forall a t x rest,
  int14_ok x -> length a = 14%nat ->
  header_int 14 false (a ++ 0 :: t) (print_int 14 x ++ rest) = Ok (x, print_int 14 x ++ 0 :: t, rest).
Proof.
  intros a t x rest Hx Ha. pose proof (print_int14_length x Hx) as Hl. destruct Hx as [Hx _].
  unfold header_int. rewrite read_c_app by assumption. cbn [bind].
  unfold buf_write. rewrite Hl, <- Ha, skipn_app_exact.
  rewrite atoi_buf_print_int; [|assumption|reflexivity|lia]. reflexivity.
Qed.

Lemma buf_write_short : forall b a r, (length b <= length a)%nat ->
  buf_write b (a ++ r) = b ++ skipn (length b) a ++ r.
Proof.
  intros b a r H. unfold buf_write. rewrite skipn_app.
  replace (length b - length a)%nat with 0%nat by lia. reflexivity.
Qed.

Lemma pad_right_length : forall w t, (length t <= w)%nat -> length (pad_right w t) = w.
Proof. intros w t H. unfold pad_right. rewrite app_length, blanks_length. lia. Qed.

Lemma pif_buf : forall f buf, ifmt_wf f ->
  parse_int_format (buf_write (pad_right 16 (ifmt_text f)) buf) = Ok (i_per f, i_w f).
Proof.
  intros f buf H. unfold buf_write, pad_right. rewrite <- app_assoc. apply parse_int_format_correct. assumption.
Qed.

Lemma pff_buf : forall f buf, ffmt_wf f ->
  parse_float_format (buf_write (pad_right 20 (ffmt_text f)) buf) = Ok (f_per f, f_w f).
Proof.
  intros f buf H. unfold buf_write, pad_right. rewrite <- app_assoc. apply parse_float_format_correct. assumption.
Qed.

(* ================================================================== the three vectors *)
Definition no10 (l : list Z) : bool := forallb (fun c => negb (c =? 10)) l.

Lemma no10_spec : forall l, no10 l = true -> ~ In 10 l.
Proof.
  intros l H Hin. unfold no10 in H. rewrite forallb_forall in H. specialize (H 10 Hin). discriminate.
Qed.

Definition body_ok (cplx : bool) (ptr ind : ifmt) (val : ffmt) (M : csc) : bool :=
  ifmt_ok ptr && ifmt_ok ind && ffmt_ok val
  && forallb (fun x => (0 <=? x) && int_fits (i_w ptr) (x + 1)) (m_colptr M)
  && forallb (fun x => (0 <=? x) && int_fits (i_w ind) (x + 1)) (m_rowind M)
  && forallb (dec_fits val) (m_vals M)
  && (Z.of_nat (length (m_colptr M)) =? m_ncol M + 1)
  && (Z.of_nat (length (m_vals M)) =? (if cplx then 2 else 1) * m_nnz M)
  && int_fits 14 (m_nrow M) && int_fits 14 (m_ncol M) && int_fits 14 (m_nnz M)
  && (m_ncol M <? INT_MAX).

(* what the reader must return for M written with value format val *)
Definition expected_result (val : ffmt) (M : csc) : rd_result :=
  mkres (m_nrow M) (m_ncol M) (m_nnz M) (m_colptr M) (m_rowind M)
        (negb (is_nil (m_vals M))) (map (norm_dec val) (m_vals M)).

Lemma nlines_zero : forall (A : Type) per (xs : list A), nlines per xs =? 0 = is_nil xs.
Proof.
  intros A per xs. unfold nlines. destruct xs as [|x xs]; [reflexivity|]. cbn [length chunk is_nil]. lia.
Qed.

Lemma items_ok : forall w l,
  forallb (fun x => (0 <=? x) && int_fits w (x + 1)) l = true ->
  Forall (fun x => int_item_ok w (x + 1)) l.
Proof.
  intros w l H. rewrite forallb_forall in H. apply Forall_forall. intros x Hx. specialize (H x Hx).
  unfold int_fits in H. repeat rewrite andb_true_iff in H. destruct H as [H0 [[H1 H2] H3]].
  unfold int_item_ok. split; lia.
Qed.

Lemma read_body_print : forall cplx ptr ind val M tail,
  body_ok cplx ptr ind val M = true ->
  read_body cplx (print_body ptr ind val M ++ tail) (m_nrow M) (m_ncol M) (m_nnz M)
            (nlines (f_per val) (m_vals M))
            (i_per ptr) (i_w ptr) (i_per ind) (i_w ind) (f_per val) (f_w val)
  = Ok (expected_result val M).
Proof.
  intros cplx ptr ind val M tail H. unfold body_ok in H. repeat rewrite andb_true_iff in H.
  destruct H as [[[[[[[[[[[Hp Hi] Hv] Hcp] Hri] Hvs] Hlcp] Hlvs] Hnr] Hnc] Hnz] Hncm].
  destruct (ifmt_ok_wf ptr Hp) as (_ & _ & Hp1 & Hp2 & Hp3).
  destruct (ifmt_ok_wf ind Hi) as (_ & _ & Hi1 & Hi2 & Hi3).
  unfold read_body, print_body. repeat rewrite <- app_assoc.
  replace (m_ncol M + 1) with (Z.of_nat (length (m_colptr M))) by lia.
  rewrite read_vector_print; try assumption; [|apply items_ok; assumption]. cbn [bind].
  unfold m_nnz at 1. rewrite read_vector_print; try assumption; [|apply items_ok; assumption]. cbn [bind].
  rewrite nlines_zero. unfold expected_result.
  destruct (m_vals M) as [|v vs] eqn:Ev.
  - reflexivity.
  - cbn [is_nil negb]. rewrite <- Ev in *.
    replace (if cplx then 2 * m_nnz M else m_nnz M) with (Z.of_nat (length (m_vals M))) by (destruct cplx; lia).
    rewrite read_values_print; [reflexivity|assumption|].
    apply Forall_forall. rewrite forallb_forall in Hvs. assumption.
Qed.

(* ================================================================== Harwell-Boeing *)
Definition hb_ok (cplx : bool) (h : hb_opts) (M : csc) : bool :=
  body_ok cplx (h_ptr h) (h_ind h) (h_val h) M
  && (length (h_title h) =? 72)%nat && (length (h_key h) =? 8)%nat && (length (h_type h) =? 3)%nat
  && (length (h_rhsfmt h) =? 20)%nat && no10 (h_rhsline h)
  && int_fits 14 (h_rhscrd h)
  && int_fits 14 (nlines (i_per (h_ptr h)) (m_colptr M))
  && int_fits 14 (nlines (i_per (h_ind h)) (m_rowind M))
  && int_fits 14 (nlines (f_per (h_val h)) (m_vals M))
  && int_fits 14 (nlines (i_per (h_ptr h)) (m_colptr M) + nlines (i_per (h_ind h)) (m_rowind M)
                  + nlines (f_per (h_val h)) (m_vals M) + h_rhscrd h).

Lemma title_buf_length : forall t, length t = 72%nat ->
  length (buf_set 72 0 (buf_write t undef_buf)) = 100%nat.
Proof.
  intros t Ht. unfold buf_set, buf_write.
  repeat rewrite app_length. cbn [length]. rewrite firstn_length, skipn_length, app_length, skipn_length.
  change (length undef_buf) with 100%nat. lia.
Qed.

Lemma body_ok_ints : forall cplx ptr ind val M, body_ok cplx ptr ind val M = true ->
  int14_ok (m_nrow M) /\ int14_ok (m_ncol M) /\ int14_ok (m_nnz M) /\ alloc_ok (m_ncol M) (m_nnz M) = true
  /\ ifmt_ok ptr = true /\ ifmt_ok ind = true /\ ffmt_ok val = true.
Proof.
  intros cplx ptr ind val M H. unfold body_ok in H. repeat rewrite andb_true_iff in H.
  destruct H as [[[[[[[[[[[Hp Hi] Hv] Hcp] Hri] Hvs] Hlcp] Hlvs] Hnr] Hnc] Hnz] Hncm].
  pose proof (int_fits_14 _ Hnr) as H1. pose proof (int_fits_14 _ Hnc) as H2. pose proof (int_fits_14 _ Hnz) as H3.
  repeat split; try assumption; try apply H1; try apply H2; try apply H3.
  unfold alloc_ok. destruct H2 as [H2 _]. destruct H3 as [H3 _]. lia.
Qed.

Theorem read_print_roundtrip_hb : forall cplx h M tail,
  hb_ok cplx h M = true ->
  parse_hb cplx (print_hb h M ++ tail) = Ok (expected_result (h_val h) M).
Proof.
  intros cplx h M tail H. unfold hb_ok in H. repeat rewrite andb_true_iff in H.
  destruct H as [[[[[[[[[[Hbody Ht] Hk] Hty] Hrf] Hrl] Hrc] Hc1] Hc2] Hc3] Hc4].
  apply Nat.eqb_eq in Ht, Hk, Hty, Hrf.
  destruct (body_ok_ints _ _ _ _ _ Hbody) as (Inr & Inc & Inz & Halloc & Hp & Hi & Hv).
  destruct (ifmt_ok_wf _ Hp) as (Wp & Lp & _). destruct (ifmt_ok_wf _ Hi) as (Wi & Li & _).
  destruct (ffmt_ok_wf _ Hv) as (Wv & Lv).
  apply int_fits_14 in Hrc, Hc1, Hc2, Hc3, Hc4.
  unfold parse_hb, print_hb.
  set (ptrcrd := nlines (i_per (h_ptr h)) (m_colptr M)) in *.
  set (indcrd := nlines (i_per (h_ind h)) (m_rowind M)) in *.
  set (valcrd := nlines (f_per (h_val h)) (m_vals M)) in *.
  repeat rewrite <- app_assoc. cbn [app].
  (* line 1 *)
  rewrite read_c_app by assumption. cbn [bind].
  rewrite read_c_app by assumption. cbn [bind].
  rewrite dump_line_nl. cbn [bind].
  (* line 2 *)
  rewrite header_int_term; [|assumption|rewrite title_buf_length by assumption; lia]. cbn [bind].
  rewrite header_int_term; [|assumption|rewrite app_length, print_int14_length by assumption; cbn [length]; lia]. cbn [bind].
  rewrite header_int_term; [|assumption|rewrite app_length, print_int14_length by assumption; cbn [length]; lia]. cbn [bind].
  rewrite header_int_term; [|assumption|rewrite app_length, print_int14_length by assumption; cbn [length]; lia]. cbn [bind].
  rewrite header_int_term; [|assumption|rewrite app_length, print_int14_length by assumption; cbn [length]; lia]. cbn [bind].
  rewrite dump_line_nl. cbn [bind].
  (* line 3 *)
  rewrite read_c_app by assumption. cbn [bind].
  rewrite read_c_app by apply blanks_length. cbn [bind].
  rewrite buf_write_short by (rewrite blanks_length, print_int14_length by assumption; lia).
  rewrite app_assoc.
  rewrite header_int_unterm;
    [|assumption|rewrite app_length, skipn_length; repeat rewrite blanks_length; rewrite print_int14_length by assumption; reflexivity].
  cbn [bind].
  rewrite header_int_unterm; [|assumption|apply print_int14_length; assumption]. cbn [bind].
  rewrite header_int_unterm; [|assumption|apply print_int14_length; assumption]. cbn [bind].
  rewrite header_int_unterm; [|split; [unfold INT_MAX; lia|cbv; lia]|apply print_int14_length; assumption]. cbn [bind].
  rewrite dump_line_nl. cbn [bind].
  (* line 4 *)
  rewrite read_c_app by (apply pad_right_length; assumption). cbn [bind].
  rewrite pif_buf by assumption. cbn [bind].
  rewrite read_c_app by (apply pad_right_length; assumption). cbn [bind].
  rewrite pif_buf by assumption. cbn [bind].
  rewrite read_c_app by (apply pad_right_length; assumption). cbn [bind].
  rewrite pff_buf by assumption. cbn [bind].
  rewrite read_c_app by assumption. cbn [bind].
  rewrite dump_line_nl. cbn [bind].
  (* line 5 *)
  rewrite Halloc.
  destruct (h_rhscrd h =? 0) eqn:Er.
  - cbn [app bind]. apply read_body_print. assumption.
  - rewrite <- app_assoc. cbn [app]. rewrite dump_line_app by (apply no10_spec; assumption). cbn [bind].
    apply read_body_print. assumption.
Qed.

(* ================================================================== Rutherford-Boeing *)
Definition rb_ok (cplx : bool) (h : rb_opts) (M : csc) : bool :=
  body_ok cplx (b_ptr h) (b_ind h) (b_val h) M
  && (length (b_title h) <=? 98)%nat && no10 (b_title h) && (length (b_type h) =? 3)%nat
  && int_fits 14 (nlines (i_per (b_ptr h)) (m_colptr M))
  && int_fits 14 (nlines (i_per (b_ind h)) (m_rowind M))
  && int_fits 14 (nlines (f_per (b_val h)) (m_vals M))
  && int_fits 14 (nlines (i_per (b_ptr h)) (m_colptr M) + nlines (i_per (b_ind h)) (m_rowind M)
                  + nlines (f_per (b_val h)) (m_vals M)).

Theorem read_print_roundtrip_rb : forall cplx h M tail,
  rb_ok cplx h M = true ->
  parse_rb cplx (print_rb h M ++ tail) = Ok (expected_result (b_val h) M).
Proof.
  intros cplx h M tail H. unfold rb_ok in H. repeat rewrite andb_true_iff in H.
  destruct H as [[[[[[[Hbody Ht] Htn] Hty] Hc1] Hc2] Hc3] Hc4].
  apply Nat.leb_le in Ht. apply Nat.eqb_eq in Hty. apply no10_spec in Htn.
  destruct (body_ok_ints _ _ _ _ _ Hbody) as (Inr & Inc & Inz & Halloc & Hp & Hi & Hv).
  destruct (ifmt_ok_wf _ Hp) as (Wp & Lp & _). destruct (ifmt_ok_wf _ Hi) as (Wi & Li & _).
  destruct (ffmt_ok_wf _ Hv) as (Wv & Lv).
  apply int_fits_14 in Hc1, Hc2, Hc3, Hc4.
  unfold parse_rb, print_rb.
  set (ptrcrd := nlines (i_per (b_ptr h)) (m_colptr M)) in *.
  set (indcrd := nlines (i_per (b_ind h)) (m_rowind M)) in *.
  set (valcrd := nlines (f_per (b_val h)) (m_vals M)) in *.
  repeat rewrite <- app_assoc. cbn [app].
  match goal with |- match ?s with [] => _ | _ :: _ => _ end = _ => destruct s as [|c0 s0] eqn:Es end.
  { destruct (b_title h); discriminate. }
  rewrite <- Es. clear Es c0 s0.
  (* line 1 *)
  rewrite fgets_line by (auto; lia).
  set (buf0 := b_title h ++ 10 :: 0 :: skipn (length (b_title h) + 2) undef_buf).
  assert (Hlen0 : (15 <= length buf0)%nat).
  { unfold buf0. rewrite app_length. cbn [length]. rewrite skipn_length. change (length undef_buf) with 100%nat. lia. }
  (* line 2 *)
  rewrite header_int_term; [|assumption|assumption]. cbn [bind].
  rewrite header_int_term; [|assumption|rewrite app_length, print_int14_length by assumption; cbn [length]; lia]. cbn [bind].
  rewrite header_int_term; [|assumption|rewrite app_length, print_int14_length by assumption; cbn [length]; lia]. cbn [bind].
  rewrite header_int_term; [|assumption|rewrite app_length, print_int14_length by assumption; cbn [length]; lia]. cbn [bind].
  rewrite dump_line_nl. cbn [bind].
  (* line 3 *)
  rewrite read_c_app by assumption. cbn [bind].
  rewrite read_c_app by apply blanks_length. cbn [bind].
  rewrite buf_write_short by (rewrite blanks_length, print_int14_length by assumption; lia).
  rewrite app_assoc.
  rewrite header_int_unterm;
    [|assumption|rewrite app_length, skipn_length; repeat rewrite blanks_length; rewrite print_int14_length by assumption; reflexivity].
  cbn [bind].
  rewrite header_int_unterm; [|assumption|apply print_int14_length; assumption]. cbn [bind].
  rewrite header_int_unterm; [|assumption|apply print_int14_length; assumption]. cbn [bind].
  rewrite header_int_unterm; [|split; [unfold INT_MAX; lia|cbv; lia]|apply print_int14_length; assumption]. cbn [bind].
  rewrite dump_line_nl. cbn [bind].
  rewrite Halloc.
  (* line 4 *)
  rewrite read_c_app by (apply pad_right_length; assumption). cbn [bind].
  rewrite pif_buf by assumption. cbn [bind].
  rewrite read_c_app by (apply pad_right_length; assumption). cbn [bind].
  rewrite pif_buf by assumption. cbn [bind].
  rewrite read_c_app by (apply pad_right_length; assumption). cbn [bind].
  rewrite pff_buf by assumption. cbn [bind].
  rewrite dump_line_nl. cbn [bind].
  apply read_body_print. assumption.
Qed.


(* ================================================================== the value read back denotes the printed decimal *)
Lemma norm_dec_eqv : forall f v, ffmt_ok f = true -> dec_fits f v = true -> dec_eqv (norm_dec f v) v.
Proof.
  intros f [[neg mant] ex] Hok Hfit.
  destruct (ffmt_ok_facts f Hok) as (Hper & Hw & Hd & Hline & Hsc).
  unfold dec_fits in Hfit. repeat rewrite andb_true_iff in Hfit. destruct Hfit as [[Hm Hkind] Hlen].
  assert (Hcase : f_kind f <> FF \/ f_kind f = FF) by (destruct (f_kind f); [left|left|right]; congruence).
  destruct Hcase as [Hk|Hk].
  - assert (Hkind' : Z.of_nat (length (dec_digits mant)) <= (if fscale f =? 0 then f_d f else f_d f + 1)).
    { unfold fscale. destruct (f_kind f); [lia|lia|congruence]. }
    assert (Hn : norm_dec f (neg, mant, ex) =
      (neg, mant * 10 ^ ((if fscale f =? 0 then f_d f else f_d f + 1) - Z.of_nat (length (dec_digits mant))),
       (if mant =? 0 then 0 else ex + Z.of_nat (length (dec_digits mant)) - fscale f)
       - ((if fscale f =? 0 then f_d f else f_d f + 1) - fscale f))).
    { unfold norm_dec. destruct (f_kind f); [reflexivity|reflexivity|congruence]. }
    rewrite Hn. clear Hn. unfold dec_eqv. split; [reflexivity|].
    set (total := if fscale f =? 0 then f_d f else f_d f + 1) in *.
    set (k := Z.of_nat (length (dec_digits mant))) in *.
    destruct (mant =? 0) eqn:Em.
    + assert (mant = 0) by lia. subst mant. rewrite !Z.mul_0_l. reflexivity.
    + replace (Z.min (ex + k - fscale f - (total - fscale f)) ex) with (ex + k - total) by lia.
      replace (ex + k - fscale f - (total - fscale f) - (ex + k - total)) with 0 by lia.
      replace (ex - (ex + k - total)) with (total - k) by lia.
      rewrite Z.pow_0_r. ring.
  - assert (Hkind' : 0 <= ex + f_d f) by (rewrite Hk in Hkind; lia).
    unfold norm_dec. rewrite Hk. unfold dec_eqv. split; [reflexivity|].
    replace (Z.min (- f_d f) ex) with (- f_d f) by lia.
    replace (- f_d f - - f_d f) with 0 by lia.
    replace (ex - - f_d f) with (ex + f_d f) by lia.
    rewrite Z.pow_0_r. ring.
Qed.
