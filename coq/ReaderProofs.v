(* ReaderProofs.v -- proofs about ReaderModel.v (C20) *)
From Coq Require Import ZArith List Bool Lia ZifyBool.
From SLU Require Import ReaderModel.
Import ListNotations.
Local Open Scope Z_scope.

(* ================================================================== small list facts *)
Lemma firstn_app_exact : forall (A : Type) (a b : list A), firstn (length a) (a ++ b) = a.
Proof.
  intros A a b. rewrite firstn_app, Nat.sub_diag, firstn_all. simpl. apply app_nil_r.
Qed.

Lemma skipn_app_exact : forall (A : Type) (a b : list A), skipn (length a) (a ++ b) = b.
Proof.
  intros A a b. rewrite skipn_app, Nat.sub_diag, skipn_all. reflexivity.
Qed.

Lemma firstn_app_exact' : forall (A : Type) (n : nat) (a b : list A), n = length a -> firstn n (a ++ b) = a.
Proof. intros; subst; apply firstn_app_exact. Qed.

Lemma skipn_app_exact' : forall (A : Type) (n : nat) (a b : list A), n = length a -> skipn n (a ++ b) = b.
Proof. intros; subst; apply skipn_app_exact. Qed.

Lemma repeat_length' : forall (A : Type) (x : A) n, length (repeat x n) = n.
Proof. intros; apply repeat_length. Qed.

(* ================================================================== digits *)
Definition all_digits (l : list Z) : Prop := Forall (fun c => is_digit c = true) l.
Definition head_not_digit (l : list Z) : Prop :=
  match l with c :: _ => is_digit c = false | [] => True end.

Lemma span_digits_app : forall ds r,
  all_digits ds -> head_not_digit r -> span_digits (ds ++ r) = (ds, r).
Proof.
  induction ds as [|c ds IH]; intros r Hd Hr.
  - simpl. destruct r as [|x r']; [reflexivity|]. simpl in Hr. simpl. rewrite Hr. reflexivity.
  - inversion Hd as [|? ? Hc Hds]; subst. simpl. rewrite Hc. rewrite (IH r Hds Hr). reflexivity.
Qed.

Lemma fold_val_acc : forall l acc,
  fold_left (fun a c => a * 10 + (c - 48)) l acc
  = acc * 10 ^ Z.of_nat (length l) + fold_left (fun a c => a * 10 + (c - 48)) l 0.
Proof.
  induction l as [|c l IH]; intros acc.
  - simpl. lia.
  - cbn [fold_left length]. rewrite (IH (acc * 10 + (c - 48))), (IH (0 * 10 + (c - 48))).
    rewrite Nat2Z.inj_succ, Z.pow_succ_r by lia. ring.
Qed.

Lemma val_digits_app : forall a b,
  val_digits (a ++ b) = val_digits a * 10 ^ Z.of_nat (length b) + val_digits b.
Proof.
  intros a b. unfold val_digits. rewrite fold_left_app. apply fold_val_acc.
Qed.

Lemma val_digits_cons : forall c l,
  val_digits (c :: l) = (c - 48) * 10 ^ Z.of_nat (length l) + val_digits l.
Proof.
  intros c l. change (c :: l) with ([c] ++ l). rewrite val_digits_app. unfold val_digits at 1. cbn [fold_left]. lia.
Qed.

Lemma val_zeros : forall k, val_digits (zeros k) = 0.
Proof.
  induction k as [|k IH]; [reflexivity|].
  unfold zeros in *. cbn [repeat]. rewrite val_digits_cons, IH. lia.
Qed.

Lemma all_digits_zeros : forall k, all_digits (zeros k).
Proof. intros k. unfold all_digits, zeros. apply Forall_forall. intros x Hx. apply repeat_spec in Hx. subst. reflexivity. Qed.

Lemma all_digits_app : forall a b, all_digits a -> all_digits b -> all_digits (a ++ b).
Proof. intros a b Ha Hb. unfold all_digits. apply Forall_app. split; assumption. Qed.

Lemma val_digits_nonneg : forall l, all_digits l -> 0 <= val_digits l.
Proof.
  induction l as [|c l IH]; intros H.
  - unfold val_digits. simpl. lia.
  - inversion H as [|? ? Hc Hl]; subst. rewrite val_digits_cons. specialize (IH Hl).
    unfold is_digit in Hc. assert (0 <= 10 ^ Z.of_nat (length l)) by (apply Z.pow_nonneg; lia). nia.
Qed.

Lemma is_digit_iff : forall c, is_digit c = true <-> 48 <= c <= 57.
Proof. intros c. unfold is_digit. lia. Qed.

Lemma all_digits_one : forall c, 48 <= c <= 57 -> all_digits [c].
Proof. intros c H. constructor; [apply is_digit_iff; exact H|constructor]. Qed.

(* the digit printer *)
Lemma ddigits_spec : forall fuel n acc,
  (1 <= fuel)%nat -> 0 <= n < 2 ^ Z.of_nat fuel ->
  exists ds, ddigits fuel n acc = ds ++ acc /\ all_digits ds /\ val_digits ds = n /\ ds <> [].
Proof.
  induction fuel as [|f IH]; intros n acc Hf Hn; [lia|].
  cbn [ddigits]. destruct (n <? 10) eqn:E.
  - exists [48 + n]. repeat split.
    + apply all_digits_one. lia.
    + unfold val_digits. cbn [fold_left]. lia.
    + discriminate.
  - assert (Hn10 : 10 <= n) by lia.
    assert (Hq : 1 <= n / 10) by (apply Z.div_le_lower_bound; lia).
    assert (Hq2 : n / 10 < 2 ^ Z.of_nat f).
    { rewrite Nat2Z.inj_succ, Z.pow_succ_r in Hn by lia.
      apply Z.div_lt_upper_bound; lia. }
    assert (Hf1 : (1 <= f)%nat).
    { destruct f; [change (2 ^ Z.of_nat 0) with 1 in Hq2; lia | lia]. }
    assert (Hq3 : 0 <= n / 10 < 2 ^ Z.of_nat f) by lia.
    destruct (IH (n / 10) ((48 + n mod 10) :: acc) Hf1 Hq3) as (ds & E1 & E2 & E3 & E4).
    exists (ds ++ [48 + n mod 10]). repeat split.
    + rewrite E1, <- app_assoc. reflexivity.
    + apply all_digits_app; [assumption|]. apply all_digits_one.
      pose proof (Z.mod_pos_bound n 10 ltac:(lia)). lia.
    + rewrite val_digits_app, E3. unfold val_digits. cbn [fold_left length]. change (Z.of_nat 1) with 1. rewrite Z.pow_1_r.
      pose proof (Z.div_mod n 10 ltac:(lia)). lia.
    + destruct ds; discriminate.
Qed.

Lemma dec_digits_spec : forall n, 0 <= n ->
  all_digits (dec_digits n) /\ val_digits (dec_digits n) = n /\ dec_digits n <> [].
Proof.
  intros n Hn. unfold dec_digits.
  destruct (ddigits_spec (S (Z.to_nat (Z.log2 n))) n [] ltac:(lia)) as (ds & E1 & E2 & E3 & E4).
  - split; [lia|]. rewrite Nat2Z.inj_succ, Z2Nat.id by apply Z.log2_nonneg.
    destruct (Z.eq_dec n 0) as [->|Hz]; [simpl; lia|].
    apply Z.log2_spec. lia.
  - rewrite E1, app_nil_r. auto.
Qed.

Lemma dec_digits_all : forall n, 0 <= n -> all_digits (dec_digits n).
Proof. intros n H; apply (dec_digits_spec n H). Qed.
Lemma dec_digits_val : forall n, 0 <= n -> val_digits (dec_digits n) = n.
Proof. intros n H; apply (dec_digits_spec n H). Qed.
Lemma dec_digits_nonnil : forall n, 0 <= n -> dec_digits n <> [].
Proof. intros n H; apply (dec_digits_spec n H). Qed.

(* number of digits *)
Lemma ddigits_length : forall fuel n acc d,
  (1 <= d)%nat -> 0 <= n < 10 ^ Z.of_nat d ->
  (length (ddigits fuel n acc) <= d + length acc)%nat.
Proof.
  induction fuel as [|f IH]; intros n acc d Hd Hn.
  - simpl. lia.
  - cbn [ddigits]. destruct (n <? 10) eqn:E.
    + simpl. lia.
    + destruct d as [|d]; [lia|]. destruct d as [|d].
      { simpl in Hn. lia. }
      assert (Hq : 0 <= n / 10 < 10 ^ Z.of_nat (S d)).
      { split; [apply Z.div_pos; lia|].
        rewrite (Nat2Z.inj_succ (S d)), Z.pow_succ_r in Hn by lia.
        apply Z.div_lt_upper_bound; lia. }
      specialize (IH (n / 10) ((48 + n mod 10) :: acc) (S d) ltac:(lia) Hq).
      cbn [length] in IH. lia.
Qed.

Lemma dec_digits_length : forall n d,
  (1 <= d)%nat -> 0 <= n < 10 ^ Z.of_nat d -> (length (dec_digits n) <= d)%nat.
Proof.
  intros n d Hd Hn. unfold dec_digits.
  pose proof (ddigits_length (S (Z.to_nat (Z.log2 n))) n [] d Hd Hn) as H. cbn [length] in H. lia.
Qed.

(* ================================================================== blanks, atoi *)
Lemma skip_ws_blanks : forall k l, skip_ws (blanks k ++ l) = skip_ws l.
Proof.
  induction k as [|k IH]; intros l; [reflexivity|].
  unfold blanks in *. cbn [repeat app skip_ws]. change (is_space 32) with true. cbn iota. apply IH.
Qed.

Lemma digit_not_space : forall c, is_digit c = true -> is_space c = false.
Proof. intros c H. unfold is_digit, is_space in *. lia. Qed.

Lemma skip_ws_digit_head : forall c l, is_space c = false -> skip_ws (c :: l) = c :: l.
Proof. intros c l H. simpl. rewrite H. reflexivity. Qed.

Lemma scan_sign_digit_head : forall c l, is_digit c = true -> scan_sign (c :: l) = (false, c :: l).
Proof.
  intros c l H. unfold scan_sign.
  assert (c =? 45 = false) by (unfold is_digit in H; lia).
  assert (c =? 43 = false) by (unfold is_digit in H; lia).
  rewrite H0, H1. reflexivity.
Qed.

(* digits (non-empty), possibly after blanks, followed by a non-digit *)
Lemma scan_int_digits : forall k ds r,
  all_digits ds -> ds <> [] -> head_not_digit r ->
  scan_int (blanks k ++ ds ++ r) = (val_digits ds, r, true).
Proof.
  intros k ds r Hd Hne Hr. unfold scan_int. rewrite skip_ws_blanks.
  destruct ds as [|c ds']; [congruence|].
  inversion Hd as [|? ? Hc Hds]; subst.
  cbn [app]. rewrite skip_ws_digit_head by (apply digit_not_space; assumption).
  rewrite scan_sign_digit_head by assumption.
  change (c :: ds' ++ r) with ((c :: ds') ++ r).
  rewrite span_digits_app by assumption. reflexivity.
Qed.

Lemma atoi_buf_digits : forall k ds c r,
  all_digits ds -> ds <> [] -> is_digit c = false -> 0 <= c -> in_int (val_digits ds) = true ->
  atoi_buf (blanks k ++ ds ++ c :: r) = Ok (val_digits ds).
Proof.
  intros k ds c r Hd Hne Hc Hc0 Hin. unfold atoi_buf.
  rewrite scan_int_digits by (auto; exact Hc).
  cbn [defined_head]. assert (E : (0 <=? c) = true) by lia. rewrite E, Hin. reflexivity.
Qed.

Lemma in_int_of_bounds : forall x, 0 <= x <= INT_MAX -> in_int x = true.
Proof. intros x H. unfold in_int, INT_MAX, INT_MIN in *. lia. Qed.

Lemma atoi_buf_dec : forall k x c r,
  0 <= x <= INT_MAX -> is_digit c = false -> 0 <= c ->
  atoi_buf (blanks k ++ dec_digits x ++ c :: r) = Ok x.
Proof.
  intros k x c r Hx Hc Hc0.
  destruct (dec_digits_spec x ltac:(lia)) as (H1 & H2 & H3).
  rewrite atoi_buf_digits; auto; rewrite H2; [reflexivity|]. apply in_int_of_bounds; assumption.
Qed.

Lemma print_int_eq : forall w x, print_int w x = blanks (Z.to_nat w - length (dec_digits x)) ++ dec_digits x.
Proof. reflexivity. Qed.

Lemma atoi_buf_print_int : forall w x c r,
  0 <= x <= INT_MAX -> is_digit c = false -> 0 <= c ->
  atoi_buf (print_int w x ++ c :: r) = Ok x.
Proof.
  intros w x c r Hx Hc Hc0. rewrite print_int_eq, <- app_assoc. apply atoi_buf_dec; assumption.
Qed.

Lemma blanks_length : forall k, length (blanks k) = k.
Proof. intros; apply repeat_length. Qed.

Lemma print_int_length : forall w x,
  (length (dec_digits x) <= Z.to_nat w)%nat -> length (print_int w x) = Z.to_nat w.
Proof. intros w x H. rewrite print_int_eq, app_length, blanks_length. lia. Qed.

(* ================================================================== descriptor parsers *)
Definition defined_bytes (l : list Z) : Prop := Forall (fun c => 0 <= c) l.

Lemma find_after_skip : forall c pre r,
  defined_bytes pre -> ~ In c pre -> 0 <= c -> find_after c (pre ++ c :: r) = Ok r.
Proof.
  induction pre as [|x pre IH]; intros r Hd Hn Hc.
  - simpl. assert (E : (c <? 0) = false) by lia. rewrite E, Z.eqb_refl. reflexivity.
  - inversion Hd as [|? ? Hx Hp]; subst. simpl.
    assert (E : (x <? 0) = false) by lia. rewrite E.
    assert (E2 : (x =? c) = false). { apply Z.eqb_neq. intro; subst. apply Hn. left; reflexivity. }
    rewrite E2. apply IH; auto. intro Hin. apply Hn. right; assumption.
Qed.

Lemma find_after_head0 : forall c r, 0 <= c -> find_after c (c :: r) = Ok r.
Proof. intros c r Hc. simpl. assert (E : (c <? 0) = false) by lia. rewrite E, Z.eqb_refl. reflexivity. Qed.

Lemma find_at_skip : forall p pre c r,
  Forall (fun x => 0 <= x /\ p x = false) pre -> 0 <= c -> p c = true ->
  find_at p (pre ++ c :: r) = Ok (c :: r).
Proof.
  induction pre as [|x pre IH]; intros c r Hp Hc Hpc.
  - simpl. assert (E : (c <? 0) = false) by lia. rewrite E, Hpc. reflexivity.
  - inversion Hp as [|? ? [Hx Hpx] Hp']; subst. simpl.
    assert (E : (x <? 0) = false) by lia. rewrite E, Hpx. apply IH; auto.
Qed.

Lemma digits_props : forall (p : Z -> bool) ds,
  all_digits ds -> (forall c, is_digit c = true -> p c = false) ->
  Forall (fun x => 0 <= x /\ p x = false) ds.
Proof.
  intros p ds Hd Hp. unfold all_digits in Hd. rewrite Forall_forall in *. intros x Hx.
  specialize (Hd x Hx). split; [unfold is_digit in Hd; lia | apply Hp; assumption].
Qed.

Lemma blanks_props : forall (p : Z -> bool) k, p 32 = false -> Forall (fun x => 0 <= x /\ p x = false) (blanks k).
Proof.
  intros p k Hp. apply Forall_forall. intros x Hx. apply repeat_spec in Hx. subst. split; [lia|assumption].
Qed.

Definition ifmt_wf (f : ifmt) : Prop := 0 <= i_per f <= INT_MAX /\ 0 <= i_w f <= INT_MAX.

Lemma parse_int_format_correct : forall f tail,
  ifmt_wf f -> parse_int_format (ifmt_text f ++ tail) = Ok (i_per f, i_w f).
Proof.
  intros f tail [Hp Hw]. unfold parse_int_format, ifmt_text.
  set (L := if i_lower f then 105 else 73).
  assert (HL : is_I L = true) by (unfold L; destruct (i_lower f); reflexivity).
  assert (HLd : is_digit L = false) by (unfold L; destruct (i_lower f); reflexivity).
  assert (HL0 : 0 <= L) by (unfold L; destruct (i_lower f); lia).
  repeat rewrite <- app_assoc. cbn [app].
  rewrite find_after_head0 by lia. cbn [bind].
  rewrite atoi_buf_dec by assumption. cbn [bind].
  rewrite app_assoc.
  rewrite find_at_skip; [| |assumption|assumption].
  - cbn [bind tl].
    change (dec_digits (i_w f) ++ 41 :: tail) with (blanks 0 ++ dec_digits (i_w f) ++ 41 :: tail).
    rewrite atoi_buf_dec; [reflexivity|assumption|reflexivity|lia].
  - apply Forall_app. split.
    + apply blanks_props. reflexivity.
    + apply digits_props; [apply dec_digits_all; lia|].
      intros c Hc. unfold is_digit in Hc. unfold is_I. lia.
Qed.

(* the scanning loop of ?ParseFloatFormat over digits *)
Lemma pff_loop_digits : forall ds c r num,
  all_digits ds -> 0 <= c -> is_EDF c = true ->
  pff_loop (ds ++ c :: r) num = Ok (num, r).
Proof.
  induction ds as [|x ds IH]; intros c r num Hd Hc He.
  - simpl. assert (E : (c <? 0) = false) by lia. rewrite E, He. reflexivity.
  - inversion Hd as [|? ? Hx Hds]; subst. cbn [app pff_loop].
    assert (E : (x <? 0) = false) by (unfold is_digit in Hx; lia). rewrite E.
    assert (E2 : is_EDF x = false) by (unfold is_digit in Hx; unfold is_EDF; lia).
    assert (E3 : is_P x = false) by (unfold is_digit in Hx; unfold is_P; lia).
    rewrite E2, E3. apply IH; assumption.
Qed.

Definition ffmt_wf (f : ffmt) : Prop :=
  0 <= f_per f <= INT_MAX /\ 0 <= f_w f <= INT_MAX /\ 0 <= f_d f /\
  match f_scale f with Some s => 0 <= s <= INT_MAX | None => True end.

Lemma kind_letter_props : forall k lower,
  let c := kind_letter k lower in is_EDF c = true /\ is_digit c = false /\ 0 <= c /\ is_P c = false.
Proof. intros k lower. destruct k, lower; cbv; repeat split; congruence. Qed.

Lemma find_after_head : forall c r, 0 <= c -> find_after c (c :: r) = Ok r.
Proof. intros c r Hc. simpl. assert (E : (c <? 0) = false) by lia. rewrite E, Z.eqb_refl. reflexivity. Qed.

Lemma parse_float_format_body : forall per L w d tail,
  0 <= per <= INT_MAX -> 0 <= w <= INT_MAX -> 0 <= d ->
  is_EDF L = true -> is_digit L = false -> 0 <= L ->
  let T := dec_digits w ++ 46 :: dec_digits d ++ 41 :: tail in
  let body := dec_digits per ++ L :: T in
  (forall num, pff_loop body num = Ok (num, T)) /\ atoi_buf body = Ok per /\
  (forall num : Z,
    bind (find_at is_dot_or_rpar T) (fun _ => bind (atoi_buf T) (fun size => Ok (num, size))) = Ok (num, w)).
Proof.
  intros per L w d tail Hp Hw Hd HE HEd HE0 T body. repeat split.
  - intros num. unfold body. apply pff_loop_digits; [apply dec_digits_all; lia|assumption|assumption].
  - unfold body. change (dec_digits per ++ L :: T) with (blanks 0 ++ dec_digits per ++ L :: T).
    apply atoi_buf_dec; assumption.
  - intros num. unfold T.
    rewrite find_at_skip; [| |lia|reflexivity].
    + cbn [bind].
      change (dec_digits w ++ 46 :: ?r) with (blanks 0 ++ dec_digits w ++ 46 :: r).
      rewrite atoi_buf_dec; [reflexivity|assumption|reflexivity|lia].
    + apply digits_props; [apply dec_digits_all; lia|].
      intros c Hc. unfold is_digit in Hc. unfold is_dot_or_rpar. lia.
Qed.

Lemma parse_float_format_correct : forall f tail,
  ffmt_wf f -> parse_float_format (ffmt_text f ++ tail) = Ok (f_per f, f_w f).
Proof.
  intros f tail (Hp & Hw & Hd & Hs). unfold parse_float_format, ffmt_text.
  destruct (kind_letter_props (f_kind f) (f_lower f)) as (HE & HEd & HE0 & HEP).
  destruct (parse_float_format_body (f_per f) (kind_letter (f_kind f) (f_lower f)) (f_w f) (f_d f) tail
              Hp Hw Hd HE HEd HE0) as (Hbody & Hbody_atoi & Hfinal).
  destruct (f_scale f) as [s|] eqn:Es.
  - (* "(" s "P" body *)
    set (P := if f_lower f then 112 else 80).
    assert (HP : is_P P = true) by (unfold P; destruct (f_lower f); reflexivity).
    assert (HPd : is_digit P = false) by (unfold P; destruct (f_lower f); reflexivity).
    assert (HPE : is_EDF P = false) by (unfold P; destruct (f_lower f); reflexivity).
    assert (HP0 : 0 <= P) by (unfold P; destruct (f_lower f); lia).
    repeat rewrite <- app_assoc. cbn [app].
    set (T := dec_digits (f_w f) ++ 46 :: dec_digits (f_d f) ++ 41 :: tail) in *.
    set (body := dec_digits (f_per f) ++ kind_letter (f_kind f) (f_lower f) :: T) in *.
    rewrite find_after_head by lia. cbn [bind].
    change (dec_digits s ++ P :: body) with (blanks 0 ++ dec_digits s ++ P :: body) at 1.
    rewrite atoi_buf_dec by assumption. cbn [bind].
    (* loop: skip the digits of s, meet P, re-read num, continue in body *)
    assert (Hloop : forall num, pff_loop (dec_digits s ++ P :: body) num = Ok (f_per f, T)).
    { intros num. generalize (dec_digits_all s ltac:(lia)). generalize (dec_digits s).
      induction l as [|x l IH]; intros Hl.
      - cbn [app pff_loop]. assert (E : (P <? 0) = false) by lia. rewrite E, HPE, HP, Hbody_atoi. apply Hbody.
      - inversion Hl as [|? ? Hx Hl']; subst. cbn [app pff_loop].
        assert (E : (x <? 0) = false) by (unfold is_digit in Hx; lia). rewrite E.
        assert (E2 : is_EDF x = false) by (unfold is_digit in Hx; unfold is_EDF; lia).
        assert (E3 : is_P x = false) by (unfold is_digit in Hx; unfold is_P; lia).
        rewrite E2, E3. apply IH; assumption. }
    rewrite Hloop. cbn [bind]. apply Hfinal.
  - repeat rewrite <- app_assoc. cbn [app].
    set (T := dec_digits (f_w f) ++ 46 :: dec_digits (f_d f) ++ 41 :: tail) in *.
    set (body := dec_digits (f_per f) ++ kind_letter (f_kind f) (f_lower f) :: T) in *.
    rewrite find_after_head by lia. cbn [bind].
    rewrite Hbody_atoi. cbn [bind]. rewrite Hbody. cbn [bind]. apply Hfinal.
Qed.

(* ================================================================== field slicing never leaves the buffer *)
Lemma slice_index_bound : forall perline persize j,
  1 <= persize -> 0 <= j < perline -> perline * persize <= 80 ->
  0 <= j * persize /\ (j + 1) * persize <= 80 /\ (j + 1) * persize < BUFSZ.
Proof.
  intros perline persize j Hw Hj Hp. unfold BUFSZ. nia.
Qed.

Lemma codes_distinct :
  E_EOF <> E_OOB /\ E_HANG <> E_OOB /\ E_UNDEF <> E_OOB /\ E_RANGE <> E_OOB /\ E_SYNTAX <> E_OOB
  /\ E_ALLOC <> E_OOB /\ E_TITLE <> E_OOB /\ E_WIDTH0 <> E_OOB.
Proof. cbv. repeat split; discriminate. Qed.

Lemma err_neq_transfer : forall (A B : Type) e, @Err A e <> Err E_OOB -> @Err B e <> Err E_OOB.
Proof. intros A B e H H'. inversion H'; subst. apply H. reflexivity. Qed.

Lemma atoi_buf_no_oob : forall l, atoi_buf l <> Err E_OOB.
Proof.
  intros l. unfold atoi_buf. destruct (scan_int l) as [[v rest] got].
  destruct (defined_head rest); [destruct (in_int v)|]; cbv; discriminate.
Qed.

Lemma cstr_no_oob : forall l, cstr l <> Err E_OOB.
Proof.
  induction l as [|c l IH]; simpl; [cbv; discriminate|].
  destruct (c =? 0); [discriminate|]. destruct (c <? 0); [cbv; discriminate|].
  destruct (cstr l) as [s|e]; [discriminate|]. intro H. apply IH. exact H.
Qed.

Lemma atof_str_no_oob : forall l, atof_str l <> Err E_OOB.
Proof.
  intros l. unfold atof_str. destruct (scan_float l) as [[st d] r].
  destruct (st =? 2); [cbv; discriminate|]. destruct (st =? 1); discriminate.
Qed.

Lemma read_int_field_no_oob : forall perline persize buf j,
  1 <= persize -> perline * persize <= 80 -> 0 <= j < perline ->
  read_int_field persize buf j <> Err E_OOB.
Proof.
  intros perline persize buf j Hw Hp Hj.
  destruct (slice_index_bound perline persize j Hw Hj Hp) as (H1 & H2 & H3).
  unfold read_int_field, field_cells.
  assert (E0 : (persize =? 0) = false) by lia. rewrite E0.
  assert (E1 : ((0 <=? (j + 1) * persize) && ((j + 1) * persize <? BUFSZ) && (0 <=? j * persize)) = true).
  { unfold BUFSZ in *. rewrite !andb_true_iff. repeat split; lia. }
  rewrite E1. cbn [bind].
  pose proof (atoi_buf_no_oob (skipn (Z.to_nat (j * persize)) (buf_set (Z.to_nat ((j + 1) * persize)) 0 buf))) as Ha.
  destruct (atoi_buf _) as [item|e]; cbn [bind].
  - destruct (in_int (item - 1)); [discriminate|cbv; discriminate].
  - eapply err_neq_transfer; exact Ha.
Qed.

Lemma read_val_field_no_oob : forall perline persize buf j,
  1 <= persize -> perline * persize <= 80 -> 0 <= j < perline ->
  read_val_field persize buf j <> Err E_OOB.
Proof.
  intros perline persize buf j Hw Hp Hj.
  destruct (slice_index_bound perline persize j Hw Hj Hp) as (H1 & H2 & H3).
  unfold read_val_field.
  assert (E0 : (persize =? 0) = false) by lia. rewrite E0.
  assert (E1 : ((0 <=? (j + 1) * persize) && ((j + 1) * persize <? BUFSZ) && (0 <=? j * persize)) = true).
  { unfold BUFSZ in *. rewrite !andb_true_iff. repeat split; lia. }
  rewrite E1.
  match goal with |- bind (cstr ?l) _ <> _ => pose proof (cstr_no_oob l) as Hc; destruct (cstr l) as [str|e] end; cbn [bind].
  - pose proof (atof_str_no_oob str) as Ha. destruct (atof_str str) as [v|e]; cbn [bind]; [discriminate|].
    eapply err_neq_transfer; exact Ha.
  - eapply err_neq_transfer; exact Hc.
Qed.

Section NoOOB.
  Context {A : Type}.
  Variable rf : list Z -> Z -> res (A * list Z).
  Variable perline : Z.
  Hypothesis Hrf : forall buf j, 0 <= j < perline -> rf buf j <> Err E_OOB.

  Lemma read_fields_no_oob : forall k j buf rem,
    0 <= j -> j + Z.of_nat k <= perline -> read_fields rf k j buf rem <> Err E_OOB.
  Proof.
    induction k as [|k IH]; intros j buf rem Hj Hk; cbn [read_fields]; [discriminate|].
    destruct (rem <=? 0); [discriminate|].
    pose proof (Hrf buf j ltac:(lia)) as H0.
    destruct (rf buf j) as [[x buf1]|e]; [|eapply err_neq_transfer; exact H0].
    pose proof (IH (j + 1) buf1 (rem - 1) ltac:(lia) ltac:(lia)) as H1.
    destruct (read_fields rf k (j + 1) buf1 (rem - 1)) as [[[xs buf2] r2]|e]; [discriminate|eapply err_neq_transfer; exact H1].
  Qed.

  Lemma read_lines_no_oob : forall fuel s buf rem,
    read_lines rf fuel s buf rem perline <> Err E_OOB.
  Proof.
    induction fuel as [|f IH]; intros s buf rem; cbn [read_lines].
    - destruct (rem <=? 0); [discriminate|cbv; discriminate].
    - destruct (rem <=? 0); [discriminate|].
      destruct (perline <=? 0) eqn:Ep; [cbv; discriminate|].
      destruct s as [|c s']; [cbv; discriminate|].
      destruct (fgets buf (c :: s')) as [buf1 s1].
      pose proof (read_fields_no_oob (Z.to_nat (Z.min perline 100)) 0 buf1 rem ltac:(lia) ltac:(lia)) as H0.
      destruct (read_fields rf _ 0 buf1 rem) as [[[xs buf2] r2]|e]; [|eapply err_neq_transfer; exact H0].
      pose proof (IH s1 buf2 r2) as H1.
      destruct (read_lines rf f s1 buf2 r2 perline) as [[ys s2]|e]; [discriminate|exact H1].
  Qed.
End NoOOB.

(* T: no index outside the 100-byte line buffer for admissible formats, whatever the stream contains *)
Theorem field_slicing_total : forall s n perline persize,
  1 <= persize -> perline * persize <= 80 ->
  read_vector s n perline persize <> Err E_OOB /\ read_values s n perline persize <> Err E_OOB.
Proof.
  intros s n perline persize Hw Hp. split.
  - unfold read_vector. apply read_lines_no_oob. intros buf j Hj.
    apply (read_int_field_no_oob perline); assumption.
  - unfold read_values. apply read_lines_no_oob. intros buf j Hj.
    apply (read_val_field_no_oob perline); assumption.
Qed.

(* the bound is tight in the model: a wider line does leave the buffer *)
Example field_slicing_oob_reachable :
  read_vector (repeat 49 120 ++ [10]) 12 12 10 = Err E_OOB.
Proof. vm_compute. reflexivity. Qed.

(* ================================================================== streams and buffers *)
Lemma read_c_app : forall k a rest, length a = k -> read_c k (a ++ rest) = Ok (a, rest).
Proof.
  intros k a rest H. unfold read_c.
  assert (E : (length (a ++ rest) <? k)%nat = false).
  { apply Nat.ltb_ge. rewrite app_length. lia. }
  rewrite E. subst k. rewrite firstn_app_exact, skipn_app_exact. reflexivity.
Qed.

Lemma dump_line_app : forall a rest, ~ In 10 a -> dump_line (a ++ 10 :: rest) = Ok rest.
Proof.
  induction a as [|c a IH]; intros rest Hn; simpl.
  - reflexivity.
  - assert (E : (c =? 10) = false). { apply Z.eqb_neq. intro; subst. apply Hn. left; reflexivity. }
    rewrite E. apply IH. intro Hin. apply Hn. right; assumption.
Qed.

Lemma fgets_aux_line : forall L rest k,
  ~ In 10 L -> (length L < k)%nat -> fgets_aux k (L ++ 10 :: rest) = (L ++ [10], rest).
Proof.
  induction L as [|c L IH]; intros rest k Hn Hk.
  - destruct k; [simpl in Hk; lia|]. reflexivity.
  - destruct k; [simpl in Hk; lia|]. cbn [app fgets_aux].
    assert (E : (c =? 10) = false). { apply Z.eqb_neq. intro; subst. apply Hn. left; reflexivity. }
    rewrite E. rewrite IH; [reflexivity| |simpl in Hk; lia].
    intro Hin. apply Hn. right; assumption.
Qed.

Lemma fgets_line : forall L rest buf,
  ~ In 10 L -> (length L <= 98)%nat ->
  fgets buf (L ++ 10 :: rest) = (L ++ 10 :: 0 :: skipn (length L + 2) buf, rest).
Proof.
  intros L rest buf Hn Hl. unfold fgets. rewrite fgets_aux_line by (auto; lia).
  unfold buf_write. repeat rewrite <- app_assoc. cbn [app].
  repeat rewrite app_length. cbn [length]. reflexivity.
Qed.

Lemma buf_set_app : forall pre c post v n, n = length pre -> buf_set n v (pre ++ c :: post) = pre ++ v :: post.
Proof.
  intros pre c post v n ->. unfold buf_set.
  rewrite firstn_app_exact. f_equal. f_equal.
  rewrite skipn_app. rewrite skipn_all2 by lia.
  replace (S (length pre) - length pre)%nat with 1%nat by lia. reflexivity.
Qed.

Lemma field_cells_app : forall pre F c post j w,
  1 <= w -> 0 <= j -> Z.of_nat (length pre) = j * w -> Z.of_nat (length F) = w -> (j + 1) * w < 100 ->
  field_cells (pre ++ F ++ c :: post) j w = Ok (F ++ 0 :: post).
Proof.
  intros pre F c post j w Hw Hj Hpre HF Hb. unfold field_cells.
  assert (E0 : (w =? 0) = false) by lia. rewrite E0.
  assert (E1 : ((0 <=? (j + 1) * w) && ((j + 1) * w <? BUFSZ) && (0 <=? j * w)) = true).
  { unfold BUFSZ. rewrite !andb_true_iff. repeat split; nia. }
  rewrite E1. f_equal.
  rewrite app_assoc.
  rewrite buf_set_app by (rewrite app_length; nia).
  rewrite <- app_assoc. apply skipn_app_exact'. lia.
Qed.

(* ================================================================== a vector of fixed-width fields, generically *)
Lemma chunk_concat : forall (A : Type) fuel per (xs : list A),
  (1 <= per)%nat -> (length xs <= fuel)%nat -> concat (chunk fuel per xs) = xs.
Proof.
  induction fuel as [|f IH]; intros per xs Hp Hl.
  - destruct xs; [reflexivity|simpl in Hl; lia].
  - destruct xs as [|x xs']; [reflexivity|]. cbn [chunk concat].
    rewrite IH; [apply firstn_skipn|assumption|].
    rewrite skipn_length. cbn [length] in *. lia.
Qed.

Lemma concat_map_length : forall (A : Type) (pf : A -> list Z) (P : A -> Prop) w xs,
  (forall x, P x -> Z.of_nat (length (pf x)) = w) -> Forall P xs ->
  Z.of_nat (length (concat (map pf xs))) = Z.of_nat (length xs) * w.
Proof.
  intros A pf P w xs Hlen. induction xs as [|x xs IH]; intros HP.
  - reflexivity.
  - inversion HP as [|? ? Hx Hxs]; subst. cbn [map concat length].
    rewrite app_length, Nat2Z.inj_add, IH, (Hlen x Hx) by assumption. lia.
Qed.

Lemma concat_map_no10 : forall (A : Type) (pf : A -> list Z) (P : A -> Prop) xs,
  (forall x, P x -> ~ In 10 (pf x)) -> Forall P xs -> ~ In 10 (concat (map pf xs)).
Proof.
  intros A pf P xs Hn. induction xs as [|x xs IH]; intros HP Hin.
  - exact Hin.
  - inversion HP as [|? ? Hx Hxs]; subst. cbn [map concat] in Hin. apply in_app_or in Hin.
    destruct Hin as [Hin|Hin]; [exact (Hn x Hx Hin)|exact (IH Hxs Hin)].
Qed.

Lemma Forall_firstn : forall (A : Type) (P : A -> Prop) n l, Forall P l -> Forall P (firstn n l).
Proof.
  intros A P n. induction n as [|n IH]; intros l H; [constructor|].
  destruct l as [|x l]; [constructor|]. inversion H; subst. cbn [firstn]. constructor; auto.
Qed.

Lemma Forall_skipn : forall (A : Type) (P : A -> Prop) n l, Forall P l -> Forall P (skipn n l).
Proof.
  intros A P n. induction n as [|n IH]; intros l H; [exact H|].
  destruct l as [|x l]; [constructor|]. inversion H; subst. cbn [skipn]. auto.
Qed.

Definition print_chunks {A : Type} (pf : A -> list Z) (cs : list (list A)) : list Z :=
  concat (map (fun c => concat (map pf c) ++ [10]) cs).

Lemma print_vec_eq : forall (A : Type) (pf : A -> list Z) per xs,
  print_vec pf per xs = print_chunks pf (chunk (length xs) (Z.to_nat per) xs).
Proof. reflexivity. Qed.

Section LinesRoundtrip.
  Context {A B : Type}.
  Variables (w : Z) (pf pf' : A -> list Z) (g : A -> B) (P : A -> Prop).
  Variable rf : list Z -> Z -> res (B * list Z).
  Hypothesis Hw : 1 <= w.
  Hypothesis Hlen : forall x, P x -> Z.of_nat (length (pf x)) = w.
  Hypothesis Hlen' : forall x, P x -> length (pf' x) = length (pf x).
  Hypothesis Hnl : forall x, P x -> ~ In 10 (pf x).
  Hypothesis Hrf : forall pre x rest j,
    P x -> rest <> [] -> 0 <= j -> Z.of_nat (length pre) = j * w -> (j + 1) * w < 100 ->
    rf (pre ++ pf x ++ rest) j = Ok (g x, pre ++ pf' x ++ rest).

  Lemma read_fields_ok : forall xs pre rest k j rem,
    Forall P xs -> rest <> [] -> 0 <= j -> Z.of_nat (length pre) = j * w ->
    (j + Z.of_nat (length xs)) * w < 100 ->
    (length xs <= k)%nat -> Z.of_nat (length xs) <= rem ->
    (length xs = k \/ Z.of_nat (length xs) = rem) ->
    read_fields rf k j (pre ++ concat (map pf xs) ++ rest) rem
    = Ok (map g xs, pre ++ concat (map pf' xs) ++ rest, rem - Z.of_nat (length xs)).
  Proof.
    induction xs as [|x xs IH]; intros pre rest k j rem HP Hrest Hj Hpre Hb Hk Hrem Hstop.
    - cbn [map concat app length]. destruct k as [|k'].
      + cbn [read_fields]. do 3 f_equal. cbn. lia.
      + cbn [read_fields]. destruct Hstop as [Hs|Hs]; [discriminate|].
        cbn [length] in Hs. assert (E : (rem <=? 0) = true) by lia. rewrite E. do 3 f_equal. cbn. lia.
    - inversion HP as [|? ? Hx Hxs]; subst.
      destruct k as [|k']; [cbn [length] in Hk; lia|].
      cbn [read_fields]. cbn [length] in *.
      assert (E : (rem <=? 0) = false) by lia. rewrite E.
      cbn [map concat]. rewrite <- app_assoc.
      rewrite Hrf; [|assumption| |assumption|assumption|nia].
      2:{ destruct rest; [congruence|]. intro H0. apply app_eq_nil in H0. destruct H0; discriminate. }
      rewrite (app_assoc pre (pf' x)).
      rewrite (IH (pre ++ pf' x) rest k' (j + 1) (rem - 1)); try assumption; try lia.
      { replace (rem - 1 - Z.of_nat (length xs)) with (rem - Z.of_nat (S (length xs))) by lia.
        repeat rewrite <- app_assoc. reflexivity. }
      all: try (rewrite app_length, Hlen', Nat2Z.inj_add, Hpre, (Hlen x Hx) by assumption; lia).
      all: try (rewrite Nat2Z.inj_succ in Hb; nia).
  Qed.

  Variable per : Z.
  Hypothesis Hper : 1 <= per.
  Hypothesis Hline : per * w <= 80.

  Lemma read_lines_ok : forall fc xs fuel rest buf,
    Forall P xs -> (length xs <= fc)%nat -> (length xs <= fuel)%nat ->
    read_lines rf fuel (print_chunks pf (chunk fc (Z.to_nat per) xs) ++ rest) buf (Z.of_nat (length xs)) per
    = Ok (map g xs, rest).
  Proof.
    induction fc as [|fc IH]; intros xs fuel rest buf HP Hfc Hfuel.
    - destruct xs; [|cbn [length] in Hfc; lia]. cbn [chunk]. unfold print_chunks. cbn [map concat app length].
      destruct fuel; reflexivity.
    - destruct xs as [|x xs'].
      + cbn [chunk]. unfold print_chunks. cbn [map concat app length]. destruct fuel; reflexivity.
      + set (xs := x :: xs') in *.
        assert (Hlen1 : (1 <= length xs)%nat) by (unfold xs; cbn [length]; lia).
        destruct fuel as [|fl]; [lia|].
        change (chunk (S fc) (Z.to_nat per) xs)
          with (firstn (Z.to_nat per) xs :: chunk fc (Z.to_nat per) (skipn (Z.to_nat per) xs)).
        set (c := firstn (Z.to_nat per) xs).
        set (xr := skipn (Z.to_nat per) xs).
        unfold print_chunks. cbn [map concat]. fold (print_chunks pf (chunk fc (Z.to_nat per) xr)).
        repeat rewrite <- app_assoc. cbn [app].
        assert (HPc : Forall P c) by (apply Forall_firstn; assumption).
        assert (HPr : Forall P xr) by (apply Forall_skipn; assumption).
        assert (Hclen : length c = Nat.min (Z.to_nat per) (length xs)) by apply firstn_length.
        assert (Hrlen : length xr = (length xs - Z.to_nat per)%nat) by apply skipn_length.
        pose proof (concat_map_length A pf P w c Hlen HPc) as HL.
        pose proof (concat_map_no10 A pf P c Hnl HPc) as HN.
        set (L := concat (map pf c)) in *.
        cbn [read_lines].
        assert (E1 : (Z.of_nat (length xs) <=? 0) = false) by lia. rewrite E1.
        assert (E2 : (per <=? 0) = false) by lia. rewrite E2.
        assert (HLlen : (length L <= 80)%nat) by nia.
        destruct (L ++ 10 :: print_chunks pf (chunk fc (Z.to_nat per) xr) ++ rest) as [|h t] eqn:Es.
        { destruct L; discriminate. }
        rewrite <- Es. rewrite fgets_line by (auto; lia).
        change (L ++ 10 :: 0 :: skipn (length L + 2) buf) with ([] ++ L ++ 10 :: 0 :: skipn (length L + 2) buf).
        unfold L at 1.
        rewrite (read_fields_ok c [] (10 :: 0 :: skipn (length L + 2) buf)); try assumption; try discriminate; try lia.
        * replace (Z.of_nat (length xs) - Z.of_nat (length c)) with (Z.of_nat (length xr)) by lia.
          rewrite (IH xr fl rest); try assumption; try lia.
          { rewrite <- map_app. unfold c, xr. rewrite firstn_skipn. reflexivity. }
          all: try (rewrite Hrlen; cbn [length] in Hfc; lia).
        all: try (cbn [length]; lia).
        all: try nia.
        all: try (rewrite Hclen; lia).
        * cbn [length]. lia.
  Qed.

  (* the vector as printed, followed by anything, read with enough fuel *)
  Lemma read_lines_print_vec : forall xs rest buf,
    Forall P xs ->
    read_lines rf (S (length (print_vec pf per xs ++ rest))) (print_vec pf per xs ++ rest) buf
               (Z.of_nat (length xs)) per = Ok (map g xs, rest).
  Proof.
    intros xs rest buf HP. rewrite print_vec_eq. apply read_lines_ok; try assumption; try lia.
    rewrite <- print_vec_eq.
    (* every field has w >= 1 bytes *)
    assert (H : Z.of_nat (length xs) <= Z.of_nat (length (print_vec pf per xs))).
    { rewrite print_vec_eq.
      assert (Hgen : forall fc ys, Forall P ys -> (length ys <= fc)%nat ->
                Z.of_nat (length ys) <= Z.of_nat (length (print_chunks pf (chunk fc (Z.to_nat per) ys)))).
      { induction fc as [|fc IHf]; intros ys HPy Hy.
        - destruct ys; [cbn; lia|cbn [length] in Hy; lia].
        - destruct ys as [|y ys']; [cbn; lia|].
          change (chunk (S fc) (Z.to_nat per) (y :: ys'))
            with (firstn (Z.to_nat per) (y :: ys') :: chunk fc (Z.to_nat per) (skipn (Z.to_nat per) (y :: ys'))).
          unfold print_chunks. cbn [map concat].
          fold (print_chunks pf (chunk fc (Z.to_nat per) (skipn (Z.to_nat per) (y :: ys')))).
          repeat rewrite app_length.
          pose proof (concat_map_length A pf P w (firstn (Z.to_nat per) (y :: ys')) Hlen (Forall_firstn _ _ _ _ HPy)) as HL.
          assert (Hs : (length (skipn (Z.to_nat per) (y :: ys')) <= fc)%nat).
          { rewrite skipn_length. cbn [length] in *. lia. }
          specialize (IHf (skipn (Z.to_nat per) (y :: ys')) (Forall_skipn _ _ _ _ HPy) Hs).
          pose proof (firstn_skipn (Z.to_nat per) (y :: ys')) as Hfs.
          assert (Hl2 : length (y :: ys') = (length (firstn (Z.to_nat per) (y :: ys')) + length (skipn (Z.to_nat per) (y :: ys')))%nat).
          { rewrite <- app_length, Hfs. reflexivity. }
          rewrite Hl2. repeat rewrite Nat2Z.inj_add. cbn [length]. nia. }
      apply Hgen; [assumption|lia]. }
    rewrite app_length. lia.
  Qed.
End LinesRoundtrip.

(* ================================================================== integer vectors *)
Definition int_item_ok (w y : Z) : Prop :=
  1 <= y <= INT_MAX /\ Z.of_nat (length (dec_digits y)) <= w.

Lemma print_int_no10 : forall w y, 0 <= y -> ~ In 10 (print_int w y).
Proof.
  intros w y Hy Hin. rewrite print_int_eq in Hin. apply in_app_or in Hin. destruct Hin as [Hin|Hin].
  - apply repeat_spec in Hin. discriminate.
  - pose proof (dec_digits_all y Hy) as Hd. unfold all_digits in Hd. rewrite Forall_forall in Hd.
    specialize (Hd 10 Hin). discriminate.
Qed.

Lemma read_int_field_print : forall w pre y rest j,
  1 <= w -> int_item_ok w y -> rest <> [] -> 0 <= j -> Z.of_nat (length pre) = j * w -> (j + 1) * w < 100 ->
  read_int_field w (pre ++ print_int w y ++ rest) j = Ok (y - 1, pre ++ print_int w y ++ rest).
Proof.
  intros w pre y rest j Hw [Hy Hfit] Hrest Hj Hpre Hb.
  destruct rest as [|c post]; [congruence|].
  unfold read_int_field. rewrite field_cells_app; try assumption.
  - cbn [bind]. rewrite atoi_buf_print_int; [|lia|reflexivity|lia]. cbn [bind].
    assert (E : in_int (y - 1) = true) by (apply in_int_of_bounds; lia). rewrite E. reflexivity.
  - rewrite print_int_length; lia.
Qed.

Lemma read_vector_print : forall per w xs rest,
  1 <= per -> 1 <= w -> per * w <= 80 -> Forall (fun x => int_item_ok w (x + 1)) xs ->
  read_vector (print_vec (print_int w) per (succs xs) ++ rest) (Z.of_nat (length xs)) per w = Ok (xs, rest).
Proof.
  intros per w xs rest Hper Hw Hline HP. unfold read_vector.
  replace (Z.of_nat (length xs)) with (Z.of_nat (length (succs xs))) by (unfold succs; rewrite map_length; reflexivity).
  rewrite (read_lines_print_vec w (print_int w) (print_int w) (fun y => y - 1) (int_item_ok w)
             (read_int_field w) Hw).
  - f_equal. f_equal. unfold succs. rewrite map_map. rewrite <- (map_id xs) at 2. apply map_ext. intros a. lia.
  - intros y [Hy Hfit]. rewrite print_int_length; lia.
  - reflexivity.
  - intros y [Hy Hfit]. apply print_int_no10. lia.
  - intros pre y rest0 j HPy Hr Hj Hpre Hb. apply read_int_field_print; assumption.
  - assumption.
  - assumption.
  - unfold succs. apply Forall_forall. intros y Hy. apply in_map_iff in Hy. destruct Hy as (x & <- & Hx).
    rewrite Forall_forall in HP. apply HP. assumption.
Qed.

(* ================================================================== decimal reals *)
Definition fscale (f : ffmt) : Z := match f_scale f with Some s => s | None => 0 end.

(* the exact triple the reader extracts from the field printed for v in format f *)
Definition norm_dec (f : ffmt) (v : dec) : dec :=
  let '(neg, mant, ex) := v in
  match f_kind f with
  | FF => (neg, mant * 10 ^ (ex + f_d f), - f_d f)
  | _ =>
      let k := Z.of_nat (length (dec_digits mant)) in
      let s := fscale f in
      let total := if s =? 0 then f_d f else f_d f + 1 in
      (neg, mant * 10 ^ (total - k), (if mant =? 0 then 0 else ex + k - s) - (total - s))
  end.

(* same sign, same rational value *)
Definition dec_eqv (a b : dec) : Prop :=
  let '(na, ma, ea) := a in
  let '(nb, mb, eb) := b in
  na = nb /\ ma * 10 ^ (ea - Z.min ea eb) = mb * 10 ^ (eb - Z.min ea eb).

Lemma sign_not_space : forall (neg : bool) l,
  skip_ws ((if neg then [45] else []) ++ l) = (if neg then [45] else []) ++ skip_ws l \/ True.
Proof. intros; right; exact I. Qed.

Definition sgn_text (neg : bool) : list Z := if neg then [45] else [].

Lemma scan_sign_sgn : forall neg c l,
  is_digit c = true -> scan_sign (sgn_text neg ++ c :: l) = (neg, c :: l).
Proof.
  intros neg c l Hc. destruct neg; cbn [sgn_text app].
  - reflexivity.
  - apply scan_sign_digit_head. assumption.
Qed.

Lemma skip_ws_sgn : forall neg c l,
  is_digit c = true -> skip_ws (sgn_text neg ++ c :: l) = sgn_text neg ++ c :: l.
Proof.
  intros neg c l Hc. destruct neg; cbn [sgn_text app].
  - reflexivity.
  - apply skip_ws_digit_head. apply digit_not_space. assumption.
Qed.

Definition esign_char (eneg : bool) : Z := if eneg then 45 else 43.

Lemma not_special_digits : forall c ip' r,
  is_digit c = true -> all_digits ip' -> head_not_digit r ->
  (match r with x :: _ => negb ((x =? 120) || (x =? 88)) | [] => true end) = true ->
  ((c =? 105) || (c =? 73) || (c =? 110) || (c =? 78) ||
   ((c =? 48) && match ip' ++ r with x :: _ => (x =? 120) || (x =? 88) | [] => false end)) = false.
Proof.
  intros c ip' r Hc Hip Hr Hx. unfold is_digit in Hc.
  assert (E1 : (c =? 105) = false) by lia. assert (E2 : (c =? 73) = false) by lia.
  assert (E3 : (c =? 110) = false) by lia. assert (E4 : (c =? 78) = false) by lia.
  rewrite E1, E2, E3, E4. cbn [orb].
  destruct ip' as [|y ip''].
  - cbn [app]. destruct r as [|x r']; [apply andb_false_r|].
    apply negb_true_iff in Hx. rewrite Hx. apply andb_false_r.
  - cbn [app]. inversion Hip as [|? ? Hy Hrest]; subst. unfold is_digit in Hy.
    assert (E5 : (y =? 120) = false) by lia. assert (E6 : (y =? 88) = false) by lia.
    rewrite E5, E6. apply andb_false_r.
Qed.

(* [blanks][-]ip.fp E[+-]ed  with ip non-empty *)
Lemma scan_float_sci : forall k neg ip fp eneg ed,
  all_digits ip -> ip <> [] -> all_digits fp -> all_digits ed -> ed <> [] ->
  scan_float (blanks k ++ sgn_text neg ++ ip ++ 46 :: fp ++ 69 :: esign_char eneg :: ed)
  = (0, (neg, val_digits (ip ++ fp), (if eneg then - val_digits ed else val_digits ed) - Z.of_nat (length fp)), []).
Proof.
  intros k neg ip fp eneg ed Hip Hipn Hfp Hed Hedn.
  destruct ip as [|c ip']; [congruence|]. inversion Hip as [|? ? Hc Hip']; subst.
  unfold scan_float. rewrite skip_ws_blanks. cbn [app].
  rewrite skip_ws_sgn, scan_sign_sgn by assumption.
  rewrite (not_special_digits c ip' (46 :: fp ++ 69 :: esign_char eneg :: ed)); try assumption; try reflexivity.
  change (c :: ip' ++ 46 :: fp ++ 69 :: esign_char eneg :: ed)
    with ((c :: ip') ++ 46 :: fp ++ 69 :: esign_char eneg :: ed).
  rewrite span_digits_app; [|assumption|reflexivity].
  change (46 =? 46) with true. cbn iota.
  rewrite span_digits_app; [|assumption|reflexivity].
  cbn [is_nil andb]. change (is_e 69) with true. cbn iota.
  assert (Es : scan_sign (esign_char eneg :: ed) = (eneg, ed)) by (destruct eneg; reflexivity).
  rewrite Es.
  rewrite <- (app_nil_r ed) at 1. rewrite span_digits_app; [|assumption|exact I].
  destruct ed as [|e0 ed']; [congruence|]. cbn [is_nil]. reflexivity.
Qed.

(* [blanks][-]ip.fp  (end of string) with ip non-empty *)
Lemma scan_float_fixed : forall k neg ip fp,
  all_digits ip -> ip <> [] -> all_digits fp ->
  scan_float (blanks k ++ sgn_text neg ++ ip ++ 46 :: fp)
  = (0, (neg, val_digits (ip ++ fp), - Z.of_nat (length fp)), []).
Proof.
  intros k neg ip fp Hip Hipn Hfp.
  destruct ip as [|c ip']; [congruence|]. inversion Hip as [|? ? Hc Hip']; subst.
  unfold scan_float. rewrite skip_ws_blanks. cbn [app].
  rewrite skip_ws_sgn, scan_sign_sgn by assumption.
  rewrite (not_special_digits c ip' (46 :: fp)); try assumption; try reflexivity.
  change (c :: ip' ++ 46 :: fp) with ((c :: ip') ++ 46 :: fp).
  rewrite span_digits_app; [|assumption|reflexivity].
  change (46 =? 46) with true. cbn iota.
  rewrite <- (app_nil_r fp) at 1. rewrite span_digits_app; [|assumption|exact I].
  cbn [is_nil andb]. reflexivity.
Qed.

Lemma cstr_app : forall F post, Forall (fun c => 0 < c) F -> cstr (F ++ 0 :: post) = Ok F.
Proof.
  induction F as [|c F IH]; intros post HF.
  - reflexivity.
  - inversion HF as [|? ? Hc HF']; subst. cbn [app cstr].
    assert (E1 : (c =? 0) = false) by lia. assert (E2 : (c <? 0) = false) by lia.
    rewrite E1, E2, IH by assumption. reflexivity.
Qed.

Lemma d2e_id : forall c, c <> 68 -> c <> 100 -> d2e c = c.
Proof. intros c H1 H2. unfold d2e. assert (E : ((c =? 68) || (c =? 100)) = false) by lia. rewrite E. reflexivity. Qed.

Lemma map_d2e_id : forall l, Forall (fun c => c <> 68 /\ c <> 100) l -> map d2e l = l.
Proof.
  induction l as [|c l IH]; intros H; [reflexivity|].
  inversion H as [|? ? [H1 H2] Hl]; subst. cbn [map]. rewrite d2e_id, IH by assumption. reflexivity.
Qed.

Lemma map_d2e_digits : forall l, all_digits l -> map d2e l = l.
Proof.
  intros l H. apply map_d2e_id. unfold all_digits in H. rewrite Forall_forall in *. intros x Hx.
  specialize (H x Hx). unfold is_digit in H. lia.
Qed.

Lemma map_d2e_blanks : forall k, map d2e (blanks k) = blanks k.
Proof. intros k. apply map_d2e_id. apply Forall_forall. intros x Hx. apply repeat_spec in Hx. subst. lia. Qed.

Lemma map_d2e_sgn : forall neg, map d2e (sgn_text neg) = sgn_text neg.
Proof. destruct neg; reflexivity. Qed.

Definition ge32 (l : list Z) : Prop := Forall (fun c => 32 <= c) l.

Lemma ge32_app : forall a b, ge32 a -> ge32 b -> ge32 (a ++ b).
Proof. intros a b Ha Hb. apply Forall_app. split; assumption. Qed.
Lemma ge32_digits : forall l, all_digits l -> ge32 l.
Proof.
  intros l H. unfold all_digits in H. unfold ge32. rewrite Forall_forall in *. intros x Hx.
  specialize (H x Hx). unfold is_digit in H. lia.
Qed.
Lemma ge32_blanks : forall k, ge32 (blanks k).
Proof. intros k. apply Forall_forall. intros x Hx. apply repeat_spec in Hx. subst. lia. Qed.
Lemma ge32_sgn : forall neg, ge32 (sgn_text neg).
Proof. destruct neg; unfold ge32, sgn_text; [constructor; [lia|constructor]|constructor]. Qed.
Lemma ge32_no10 : forall l, ge32 l -> ~ In 10 l.
Proof. intros l H Hin. unfold ge32 in H. rewrite Forall_forall in H. specialize (H 10 Hin). lia. Qed.
Lemma ge32_pos : forall l, ge32 l -> Forall (fun c => 0 < c) l.
Proof. intros l H. unfold ge32 in H. rewrite Forall_forall in *. intros x Hx. specialize (H x Hx). lia. Qed.

Lemma zeros_length : forall k, length (zeros k) = k.
Proof. intros; apply repeat_length. Qed.

(* the printed exponent *)
Lemma exp_text_shape : forall L x,
  exists ed, exp_text L x = L :: esign_char (x <? 0) :: ed /\ all_digits ed /\ ed <> [] /\ val_digits ed = Z.abs x.
Proof.
  intros L x. unfold exp_text.
  destruct (dec_digits_spec (Z.abs x) (Z.abs_nonneg x)) as (H1 & H2 & H3).
  exists (zeros (2 - length (dec_digits (Z.abs x))) ++ dec_digits (Z.abs x)). repeat split.
  - apply all_digits_app; [apply all_digits_zeros|assumption].
  - intro H. apply app_eq_nil in H. destruct H. contradiction.
  - rewrite val_digits_app, val_zeros, H2. lia.
Qed.

(* shape of an E/D field after the D->E replacement *)
Lemma print_dec_sci_shape : forall f neg mant ex,
  f_kind f <> FF -> 0 <= mant -> 0 <= f_d f ->
  (fscale f = 0 \/ 1 <= fscale f <= f_d f + 1) ->
  let k := Z.of_nat (length (dec_digits mant)) in
  let total := if fscale f =? 0 then f_d f else f_d f + 1 in
  k <= total ->
  let x := if mant =? 0 then 0 else ex + k - fscale f in
  exists ip fp ed,
    map d2e (print_dec_text f (neg, mant, ex))
      = sgn_text neg ++ ip ++ 46 :: fp ++ 69 :: esign_char (x <? 0) :: ed
    /\ all_digits ip /\ ip <> [] /\ all_digits fp /\ all_digits ed /\ ed <> []
    /\ val_digits (ip ++ fp) = mant * 10 ^ (total - k)
    /\ Z.of_nat (length fp) = total - fscale f
    /\ val_digits ed = Z.abs x.
Proof.
  intros f neg mant ex Hk Hm Hd Hs k total Hkt x.
  destruct (dec_digits_spec mant Hm) as (Hds1 & Hds2 & Hds3).
  set (ds := dec_digits mant) in *.
  set (D := ds ++ zeros (Z.to_nat total - length ds)).
  assert (HD : all_digits D) by (apply all_digits_app; [assumption|apply all_digits_zeros]).
  assert (HDlen : Z.of_nat (length D) = total).
  { unfold D. rewrite app_length, zeros_length. unfold k in Hkt. lia. }
  assert (HDval : val_digits D = mant * 10 ^ (total - k)).
  { unfold D. rewrite val_digits_app, val_zeros, zeros_length, Hds2. unfold k in *.
    replace (Z.of_nat (Z.to_nat total - length ds)) with (total - Z.of_nat (length ds)) by lia. lia. }
  set (L := kind_letter (f_kind f) false).
  assert (HL : d2e L = 69) by (unfold L; destruct (f_kind f); [reflexivity|reflexivity|congruence]).
  destruct (exp_text_shape L x) as (ed & Hex & Hed1 & Hed2 & Hed3).
  assert (Hform : forall ip fp, all_digits ip -> all_digits fp ->
     map d2e (sgn_text neg ++ ip ++ [46] ++ fp ++ exp_text L x)
     = sgn_text neg ++ ip ++ 46 :: fp ++ 69 :: esign_char (x <? 0) :: ed).
  { intros ip fp Hip Hfp. rewrite Hex. repeat rewrite map_app. cbn [map].
    rewrite map_d2e_sgn, (map_d2e_digits ip Hip), (map_d2e_digits fp Hfp), (map_d2e_digits ed Hed1), HL.
    replace (d2e 46) with 46 by reflexivity.
    replace (d2e (esign_char (x <? 0))) with (esign_char (x <? 0)) by (destruct (x <? 0); reflexivity).
    reflexivity. }
  assert (Htext : print_dec_text f (neg, mant, ex)
     = sgn_text neg ++ (if fscale f =? 0 then [48] else firstn (Z.to_nat (fscale f)) D) ++ [46]
       ++ (if fscale f =? 0 then D else skipn (Z.to_nat (fscale f)) D) ++ exp_text L x).
  { unfold print_dec_text. destruct (f_kind f) eqn:Ek; try congruence; reflexivity. }
  rewrite Htext.
  destruct (fscale f =? 0) eqn:Es.
  - exists [48], D, ed. rewrite Hform; [|apply all_digits_one; lia|assumption].
    repeat split; try assumption; try discriminate.
    + apply all_digits_one; lia.
    + change ([48] ++ D) with (48 :: D). rewrite val_digits_cons, HDval. lia.
    + lia.
  - assert (Hs1 : 1 <= fscale f <= f_d f + 1) by lia.
    exists (firstn (Z.to_nat (fscale f)) D), (skipn (Z.to_nat (fscale f)) D), ed.
    rewrite Hform; [|apply Forall_firstn; assumption|apply Forall_skipn; assumption].
    repeat split; try assumption.
    + apply Forall_firstn; assumption.
    + intro H0. apply (f_equal (@length Z)) in H0. rewrite firstn_length in H0. cbn [length] in H0. lia.
    + apply Forall_skipn; assumption.
    + rewrite firstn_skipn. assumption.
    + rewrite skipn_length. lia.
Qed.

Lemma print_dec_fix_shape : forall f neg mant ex,
  f_kind f = FF -> 0 <= mant -> 0 <= f_d f -> 0 <= ex + f_d f ->
  exists ip fp,
    print_dec_text f (neg, mant, ex) = sgn_text neg ++ ip ++ 46 :: fp
    /\ all_digits ip /\ ip <> [] /\ all_digits fp
    /\ val_digits (ip ++ fp) = mant * 10 ^ (ex + f_d f)
    /\ Z.of_nat (length fp) = f_d f.
Proof.
  intros f neg mant ex Hk Hm Hd Hex.
  set (n := mant * 10 ^ (ex + f_d f)).
  assert (Hn : 0 <= n) by (unfold n; apply Z.mul_nonneg_nonneg; [assumption|apply Z.pow_nonneg; lia]).
  assert (Hp : 0 < 10 ^ f_d f) by (apply Z.pow_pos_nonneg; lia).
  pose proof (Z.div_pos n (10 ^ f_d f) Hn Hp) as Hq.
  pose proof (Z.mod_pos_bound n (10 ^ f_d f) Hp) as Hr.
  pose proof (Z.div_mod n (10 ^ f_d f) ltac:(lia)) as Hdm.
  destruct (dec_digits_spec (n / 10 ^ f_d f) Hq) as (Hi1 & Hi2 & Hi3).
  destruct (dec_digits_spec (n mod 10 ^ f_d f) ltac:(lia)) as (Hf1 & Hf2 & Hf3).
  unfold print_dec_text. rewrite Hk. fold n.
  destruct (f_d f =? 0) eqn:Ed.
  - exists (dec_digits (n / 10 ^ f_d f)), []. repeat split; try assumption; try constructor.
    + rewrite app_nil_r, Hi2. assert (f_d f = 0) by lia. rewrite H in *. change (10 ^ 0) with 1 in *.
      rewrite Z.div_1_r. reflexivity.
    + cbn [length]. lia.
  - set (fds := dec_digits (n mod 10 ^ f_d f)) in *.
    assert (Hlen : (length fds <= Z.to_nat (f_d f))%nat).
    { apply dec_digits_length; [lia|]. rewrite Z2Nat.id by lia. lia. }
    exists (dec_digits (n / 10 ^ f_d f)), (zeros (Z.to_nat (f_d f) - length fds) ++ fds).
    repeat split; try assumption.
    + apply all_digits_app; [apply all_digits_zeros|assumption].
    + rewrite val_digits_app, Hi2. rewrite val_digits_app, val_zeros, Hf2.
      rewrite app_length, zeros_length.
      replace (Z.of_nat (Z.to_nat (f_d f) - length fds + length fds)) with (f_d f) by lia. lia.
    + rewrite app_length, zeros_length. lia.
Qed.
