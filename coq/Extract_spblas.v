(* extraction of the exact-rational (Qc) instance of the sparse BLAS model -- check C19 *)
Require Import Extraction ExtrOcamlBasic.
From SLU Require Import SpblasModel.
Extraction "spblas_model.ml" ArQ sp_gemv sp_gemm sp_trsv create_scp create_ncp mkCsc langs cr2cc.
