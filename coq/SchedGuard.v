(* SchedGuard.v -- index safety of the scheduler (C05, scheduler part): in every reachable state, every array access one call
   of pxgstrf_scheduler performs is in range.  sched_guard (SchedModel.v) re-runs the call and checks every index against the
   length of the array it is used on (pan_status[], fb_cols[], etree[] have n+1 / n+1 / n entries, the queue n, spin_locks n):
     queue[head]            0 <= head < n           (dequeue loop)
     STATE(jcol) after it   0 <= jcol <= n
     DADPANEL(jcol)         0 <= jcol + size - 1 < n
     queue[tail] = dad      0 <= tail < n           (enqueue of the pipelined parent)
     fb_cols[jcol], climb   0 <= bcol <= n, and every DADPANEL taken on the way
   Theorem sched_guard_reachable: the guard holds whenever a thread of a reachable state calls the scheduler. *)
From Coq Require Import ZArith List Bool Lia.
From SLU Require Import Consts SchedModel SchedBase SchedInv SchedSteps SchedCall1 SchedCall2 SchedCall3 SchedProofs.
Import ListNotations.
Local Open Scope Z_scope.

Lemma deq_guard_ok : forall (fuel : nat) a,
  0 <= qhead a <= qtail a -> qcount a = qtail a - qhead a -> qtail a <= sn a ->
  (forall i, 0 <= i < qtail a -> 0 <= nthZ (q a) i < sn a) ->
  (Z.to_nat (qcount a) < fuel)%nat -> deq_guard fuel a = true.
Proof.
  induction fuel as [|f IH]; intros a Hh Hc Ht Hq Hf; [lia|].
  cbn [deq_guard]. destruct (qcount a <=? 0) eqn:E; [reflexivity|]. apply Z.leb_gt in E.
  assert (Hin : inb (qhead a) (sn a) = true) by (apply inb_true; lia). rewrite Hin. cbn [andb].
  pose proof (Hq (qhead a) ltac:(lia)) as Hj.
  assert (Hin2 : inb (nthZ (q a) (qhead a)) (sn a + 1) = true) by (apply inb_true; lia). rewrite Hin2. cbn [andb].
  match goal with |- (if ?c then _ else _) = _ => destruct c end; [reflexivity|].
  apply IH; destruct a; cbn in *; try lia. exact Hq.
Qed.

Lemma climb_guard_ok a : WF a -> st a (sn a) = c_UNREADY ->
  forall (fuel : nat) b, (lead a b = true \/ b = sn a) -> (Z.to_nat (sn a - b) < fuel)%nat -> climb_guard fuel a b = true.
Proof.
  intros W Hn. induction fuel as [|f IH]; intros b Hb Hf; [lia|].
  cbn [climb_guard].
  assert (Hr : 0 <= b <= sn a).
  { destruct Hb as [L| ->]; [apply lead_range in L; lia | pose proof (wf_n _ W); lia]. }
  assert (Hin : inb b (sn a + 1) = true) by (apply inb_true; lia). rewrite Hin. cbn [andb].
  destruct (st a b =? c_DONE) eqn:E; [|reflexivity]. apply Z.eqb_eq in E.
  destruct Hb as [L| ->]; [|rewrite Hn in E; cs; lia].
  pose proof (wf_dad _ W b L) as D. pose proof (lead_range _ _ L) as [Rb Sb]. pose proof (wf_fit _ W b L) as F.
  assert (Hin2 : inb (b + sz a b - 1) (sn a) = true) by (apply inb_true; lia). rewrite Hin2. cbn [andb].
  apply IH; [|lia].
  destruct (Z_lt_dec (dadpanel a b) (sn a)) as [Hl|]; [left; now apply W | right; lia].
Qed.

(* the queue part of the (weakened) invariant gives what deq_guard needs *)
Lemma queue_facts g e : InvX g e ->
  0 <= qhead (gs g) <= qtail (gs g) /\ qcount (gs g) = qtail (gs g) - qhead (gs g) /\ qtail (gs g) <= sn (gs g) /\
  (forall i, 0 <= i < qtail (gs g) -> 0 <= nthZ (q (gs g)) i < sn (gs g)).
Proof.
  intros HX. destruct (ix_queue _ _ HX) as (A & B & C & _ & D & _).
  repeat split; try lia. - apply (lead_range _ _ (proj1 (D i H))). - apply (lead_range _ _ (proj1 (D i H))).
Qed.

Lemma deq_guard_invx a th e : InvX (mkG a th) e -> deq_guard (fuel_of a) a = true.
Proof.
  intros HX. destruct (queue_facts _ _ HX) as (A & B & C & D). cbn [gs] in *.
  apply deq_guard_ok; auto. unfold fuel_of. pose proof (wf_n _ (ix_wf _ _ HX)). cbn [gs] in *. lia.
Qed.

(* taking panel j: all accesses in range *)
Lemma take_guard_ok a th1 t j :
  InvX (mkG a th1) j -> 0 <= t < tlen th1 -> thr_get th1 t = (M_READY, c_EMPTY) ->
  lead a j = true -> c_BUSY < st a j -> (st a j <= c_CANPIPE \/ uk a j = 0) -> take_guard a j = true.
Proof.
  intros HX Ht Hg L S C.
  pose proof (ix_wf _ _ HX) as W. cbn [gs] in W.
  pose proof (lead_range _ _ L) as [Rj Sj]. pose proof (wf_fit _ W j L) as F. pose proof (wf_dad _ W j L) as D.
  destruct (inv_take a th1 t j HX Ht Hg L S C) as [IT _].
  destruct (take_proj a j) as (FSt & _ & _ & _ & _ & Pqt & _). cbv zeta in FSt, Pqt. destruct FSt as (Esn & _).
  destruct (queue_facts _ _ HX) as (Qh & _ & Qt & _). cbn [gs] in Qh, Qt.
  destruct (ix_len _ _ HX) as (Lp & _ & Lfb & _). cbn [gs] in Lp, Lfb.
  destruct (ix_states _ _ HX) as [Hroot _]. cbn [gs] in Hroot.
  unfold take_guard.
  assert (E1 : inb j (sn a) = true) by (apply inb_true; lia). rewrite E1. cbn [andb].
  assert (E2 : (1 <=? sz a j) = true) by (apply Z.leb_le; lia). rewrite E2. cbn [andb].
  assert (E3 : (j + sz a j <=? sn a) = true) by (apply Z.leb_le; lia). rewrite E3. cbn [andb].
  assert (E4 : inb (dadpanel a j) (sn a + 1) = true) by (apply inb_true; lia). rewrite E4. cbn [andb].
  change ((dadpanel a j <? sn a) && (uk a (dadpanel a j) =? 1)) with (tcond a j).
  assert (E5 : (if tcond a j then inb (qtail a) (sn a) else true) = true).
  { destruct (tcond a j) eqn:Tc; [|reflexivity]. apply inb_true.
    pose proof (inv_queue _ IT) as (_ & _ & Q3 & _). cbn [gs] in Q3. rewrite Pqt, ?Tc, Esn in Q3. lia. }
  rewrite E5. cbn [andb].
  pose proof (ix_fb0 _ _ HX j L) as Fb. cbn [gs] in Fb.
  assert (E6 : inb (nthZ (fb a) j) (sn a + 1) = true).
  { apply inb_true. destruct Fb as [Lf|Ef]; [apply lead_range in Lf; lia | pose proof (wf_n _ W); lia]. }
  rewrite E6. cbn [andb].
  (* the climb runs in a state that differs from a in pstate only, with the dummy root still UNREADY *)
  set (s4 := if tcond a j then set_pstate a (updZ (updZ (pstate a) j c_BUSY) (dadpanel a j) c_CANPIPE)
             else set_pstate a (updZ (pstate a) j c_BUSY)).
  assert (W4 : WF s4) by (unfold s4; destruct (tcond a j); destruct W; constructor; assumption).
  assert (R4 : st s4 (sn s4) = c_UNREADY).
  { unfold s4. destruct (tcond a j) eqn:Tc; unfold st; cbn.
    - unfold tcond in Tc. apply andb_true_iff in Tc. destruct Tc as [Tc _]. apply Z.ltb_lt in Tc.
      rewrite nthZ_updZ_other by lia. rewrite nthZ_updZ_other by lia. exact Hroot.
    - rewrite nthZ_updZ_other by lia. exact Hroot. }
  assert (Fb4 : lead s4 (nthZ (fb a) j) = true \/ nthZ (fb a) j = sn s4) by (unfold s4; destruct (tcond a j); exact Fb).
  assert (Hfuel : (Z.to_nat (sn s4 - nthZ (fb a) j) < fuel_of a)%nat).
  { unfold fuel_of. apply inb_true in E6. replace (sn s4) with (sn a) by (unfold s4; destruct (tcond a j); reflexivity). lia. }
  exact (climb_guard_ok s4 W4 R4 (fuel_of a) (nthZ (fb a) j) Fb4 Hfuel).
Qed.

Section CALLG.
Variable s : sstate.
Variable th : list (Z * Z).
Variables t x : Z.
Hypothesis HI : Inv (mkG s th).
Hypothesis Ht : 0 <= t < tlen th.
Hypothesis Hget : thr_get th t = (M_READY, x).

(* dequeue + take, from a state satisfying the weakened invariant with an exempt panel that is not a lead *)
Lemma tail_guard a th1 : InvX (mkG a th1) (-5) -> 0 <= t < tlen th1 -> thr_get th1 t = (M_READY, c_EMPTY) ->
  deq_guard (fuel_of a) a = true /\
  (let '(a', j0) := deq (fuel_of a) a in
   if j0 =? c_EMPTY then true else if j0 =? ERR then false else take_guard a' j0) = true.
Proof.
  intros HX Ht1 Hg1. split; [exact (deq_guard_invx _ _ _ HX)|].
  assert (L5 : lead a (-5) = false) by (unfold lead; replace (inb (-5) (sn a)) with false; [reflexivity | symmetry; apply not_true_is_false; rewrite inb_true; lia]).
  destruct (invx_deq a th1 (-5) HX L5) as (h' & j & Ed & HX' & Hj & _).
  rewrite Ed. destruct Hj as [->|(Lj & Sj & Cj & _)]; [now rewrite Z.eqb_refl|].
  pose proof (lead_range _ _ Lj) as [Rj _].
  assert (E1 : (j =? c_EMPTY) = false) by (apply Z.eqb_neq; cs; lia).
  assert (E2 : (j =? ERR) = false) by (apply Z.eqb_neq; cs; lia).
  rewrite E1, E2.
  apply (take_guard_ok _ th1 t j HX' Ht1 Hg1); [exact Lj | exact Sj | left; exact Cj].
Qed.

Theorem sched_guard_call : sched_guard s x = true.
Proof.
  unfold sched_guard, choose_guard, sched_choose.
  destruct (x =? c_EMPTY) eqn:Ex.
  - apply Z.eqb_eq in Ex. subst x.
    pose proof (inv_weaken _ (-5) HI) as HX.
    destruct (tail_guard s th HX Ht Hget) as [G1 G2]. rewrite G1. cbn [andb]. exact G2.
  - apply Z.eqb_neq in Ex.
    set (d0 := dadpanel s x) in *. set (du := uk s d0 - 1) in *.
    set (s1 := set_pukids s (updZ (pukids s) d0 du)) in *.
    set (th1 := thr_upd th t (M_READY, c_EMPTY)).
    pose proof (invx_report s th t x HI Ht Hget Ex) as HXr. fold d0 du s1 th1 in HXr.
    assert (Ht1 : 0 <= t < tlen th1) by (unfold th1; now rewrite tlen_upd).
    assert (Hg1 : thr_get th1 t = (M_READY, c_EMPTY)) by (unfold th1; rewrite thr_get_upd by exact Ht; now rewrite Z.eqb_refl).
    pose proof (rep_x s th t x HI Ht Hget Ex) as [Lx _]. pose proof (lead_range _ _ Lx) as [Rx Sx].
    pose proof (inv_wf _ HI) as W. cbn [gs] in W.
    pose proof (wf_fit _ W x Lx) as Fx. pose proof (wf_dad _ W x Lx) as Dx. fold d0 in Dx.
    assert (E1 : inb x (sn s) = true) by (apply inb_true; lia). rewrite E1. cbn [andb].
    assert (E2 : inb (x + sz s x - 1) (sn s) = true) by (apply inb_true; lia). rewrite E2. cbn [andb].
    assert (E3 : inb d0 (sn s + 1) = true) by (apply inb_true; lia). rewrite E3. cbn [andb].
    destruct ((du =? 0) && (c_BUSY <? st s1 d0)) eqn:Edad.
    + (* the parent is taken directly *)
      cbn [andb].
      assert (Hex : rep_exempt s x = d0) by (unfold rep_exempt; fold d0 du; change (st s d0) with (st s1 d0); now rewrite Edad).
      assert (Hne5 : rep_exempt s x <> -5) by (rewrite Hex; lia).
      destruct (rep_exempt_lt s th t x HI Ht Hget Ex Hne5) as (_ & Hdu & Sd & Hdn). fold d0 du in Hdu, Sd, Hdn.
      assert (Ld : lead s d0 = true) by (apply (wf_dadlead _ W x Lx); fold d0; lia).
      assert (F1 : (d0 =? c_EMPTY) = false) by (apply Z.eqb_neq; apply lead_range in Ld; cs; lia).
      assert (F2 : (d0 =? ERR) = false) by (apply Z.eqb_neq; apply lead_range in Ld; cs; lia).
      rewrite F1, F2. rewrite Hex in HXr.
      assert (Cj : st s1 d0 <= c_CANPIPE \/ uk s1 d0 = 0).
      { right. rewrite (rep_uk s th t x HI Ht Hget Ex). fold d0. rewrite Z.eqb_refl. exact Hdu. }
      exact (take_guard_ok s1 th1 t d0 HXr Ht1 Hg1 Ld Sd Cj).
    + assert (Hex : rep_exempt s x = -5) by (unfold rep_exempt; fold d0 du; change (st s d0) with (st s1 d0); now rewrite Edad).
      rewrite Hex in HXr.
      destruct (tail_guard s1 th1 HXr Ht1 Hg1) as [G1 G2].
      change (fuel_of s) with (fuel_of s1). rewrite G1. cbn [andb]. exact G2.
Qed.

End CALLG.

(* in every reachable state, for every thread about to call the scheduler, all array accesses of that call are in range *)
Theorem sched_guard_reachable s0 P g t cur :
  reachable s0 P g -> 0 <= t < tlen (thr g) -> thr_get (thr g) t = (M_READY, cur) -> sched_guard (gs g) cur = true.
Proof.
  intros R Ht G. pose proof (reachable_inv s0 P g R) as HI. destruct g as [s th]. cbn [gs thr] in *.
  exact (sched_guard_call s th t cur HI Ht G).
Qed.
