(* Properties_C03.v -- property theorems for C03 at the level of the scheduler protocol.
   Only statements, each closed by `exact` of a lemma of SchedPipe.v / SchedProofs.v, and Print Assumptions. *)
From Coq Require Import ZArith List.
From SLU Require Import Consts SchedModel SchedInv SchedProofs SchedPipe.
From SLU Require ColRelease.
Local Open Scope Z_scope.

(* Whenever the scheduler hands panel j to a thread with farthest-busy column b (any forest accepted by check_init,
   any number of threads, any interleaving of scheduler calls / panel completions): in the state the thread then
   works in, b is a descendant-or-self panel of j that is not DONE and whose children are all DONE; every proper
   descendant panel of j is DONE or BUSY; and the descendants that are not DONE are exactly the ancestors of b below
   j -- one chain of still-busy descendants, whose bottom is b. *)
Theorem c03_pipeline_handout : forall s0 P g t cur s' j b,
  reachable s0 P g -> 0 <= t < tlen (thr g) -> thr_get (thr g) t = (M_READY, cur) ->
  sched (gs g) cur = (s', j, b) -> j <> c_EMPTY ->
  anc s' b j /\ st s' b <> c_DONE /\ (forall c, kid s' b c = true -> st s' c = c_DONE) /\
  forall x, anc s' x j -> x <> j -> st s' x <= c_BUSY /\ (st s' x <> c_DONE -> anc s' b x).
Proof. exact pipeline_handout. Qed.
Print Assumptions c03_pipeline_handout.

(* a DONE panel has only DONE descendants: a finished panel never has an unfinished column below it, so an update
   taken from a DONE supernode uses final data *)
Theorem c03_done_closed : forall s0 P g x p, reachable s0 P g -> anc (gs g) x p -> lead (gs g) p = true ->
  st (gs g) p = c_DONE -> st (gs g) x = c_DONE.
Proof. exact done_closed. Qed.
Print Assumptions c03_done_closed.

(* each panel (hence each column) is worked on by at most one thread, once *)
Theorem c03_each_panel_at_most_once : forall s0 P ls, check_init s0 = true -> NoDup (gtaken (ginit s0 P) ls).
Proof. exact each_panel_at_most_once. Qed.
Print Assumptions c03_each_panel_at_most_once.

(* waits only go down the elimination tree: among the working threads one can always finish *)
Theorem c03_waits_go_down : forall s0 P g, reachable s0 P g ->
  (exists t, 0 <= t < tlen (thr g) /\ fst (thr_get (thr g) t) = M_WORK) ->
  exists t, 0 <= t < tlen (thr g) /\ gstep g (LFinish t) <> None.
Proof. intros s0 P g R. exact (some_worker_can_finish g (reachable_inv s0 P g R)). Qed.
Print Assumptions c03_waits_go_down.

From SLU Require Import SchedBusy.

(* column level: whenever the scheduler hands panel j with bcol b to a worker, the busy snapshot the worker takes
   (pxgstrf_mark_busy_descends) contains every column of every proper descendant panel of j that is not DONE; fsup is the
   first column of the supernode containing b-1 as read from the (changing) supernode table -- any value does.
   forestb / chainb / postb are decidable conditions on the static image (etree, panel sizes and types), evaluated on
   ParallelInit's image of every real run by the correspondence. *)
Theorem c03_busy_columns_marked : forall s0 P g t cur s' j b fsup x c,
  reachable s0 P g -> 0 <= t < tlen (thr g) -> thr_get (thr g) t = (M_READY, cur) ->
  sched (gs g) cur = (s', j, b) -> j <> c_EMPTY ->
  forestb s0 = true -> chainb s0 = true -> postb s0 = true ->
  anc s' x j -> x <> j -> st s' x <> c_DONE -> x <= c < x + sz s' x ->
  In c (mark_busy s' j b fsup).
Proof. exact busy_columns_marked. Qed.
Print Assumptions c03_busy_columns_marked.

(* the static conditions hold on ParallelInit's image of a forest with a relaxed supernode that is not a path (0,1 -> 2),
   a pipelined chain above it and a second tree *)
Example c03_static_conditions_example :
  let s := parallel_init 8 (2 :: 2 :: 3 :: 4 :: 5 :: 8 :: 7 :: 8 :: nil) 1 3 in
  check_init s = true /\ forestb s = true /\ chainb s = true /\ postb s = true /\ mark_busy s 3 0 0 = (0 :: 1 :: 2 :: nil).
Proof. vm_compute. repeat split; reflexivity. Qed.

From SLU Require Import BusyGen BusyTie.

(* The routine pxgstrf_mark_busy_descends AS THE C SOURCE HAS IT NOW (BusyGen.v: re-translated from SRC/pxgstrf_mark_busy_descends.c on
   every run by tools/gen_trans.py) is the model: on the etree / panel types / panel sizes of any scheduler state s whose forest
   climbs (forestb), for any supernode table xsup / supno, any array lbusy and bcol >= 0, it ends within n+1 units of fuel with
     lbusy' = lbusy after `lbusy[k] := jcol` for every k of SchedBusy.mark_busy s jcol bcol fsup, in the model's order (mark_all),
     *bcol  = the first column of the farthest busy supernode (bcol_out),
   where fsup = xsup[supno[bcol-1]] (fsup_of) is the value the model leaves open.  BusyTie.mark_all_spec / mark_all_length read the
   array equation entry by entry: exactly the listed columns are set to jcol, every other entry and the length are unchanged. *)
Theorem c03_source_mark_busy_is_model : forall s jcol bcol xsup supno lbusy fuel,
  forestb s = true -> jcol <= sn s -> 0 <= bcol -> 0 <= sz s bcol -> (Z.to_nat (sn s) < fuel)%nat ->
  gen_pxgstrf_mark_busy_descends jcol (etree s) (ptype s) (psize s) xsup supno bcol lbusy fuel =
  Some (mark_all jcol (mark_busy s jcol bcol (fsup_of xsup supno bcol)) lbusy, bcol_out s jcol bcol (fsup_of xsup supno bcol)).
Proof. exact mark_busy_tie. Qed.
Print Assumptions c03_source_mark_busy_is_model.

(* c03_busy_columns_marked for the translated routine: whenever the scheduler hands panel j with bcol b to a worker, the translated
   routine run on the worker's n-entry array lbusy (any contents; any supernode table) returns, and afterwards lbusy[c] = j for
   every column c of every proper descendant panel x of j that is not DONE. *)
Theorem c03_source_busy_columns_marked : forall s0 P g t cur s' j b xsup supno lbusy fuel x c,
  reachable s0 P g -> 0 <= t < tlen (thr g) -> thr_get (thr g) t = (M_READY, cur) ->
  sched (gs g) cur = (s', j, b) -> j <> c_EMPTY ->
  forestb s0 = true -> chainb s0 = true -> postb s0 = true ->
  lenZ lbusy = sn s' -> (Z.to_nat (sn s') < fuel)%nat ->
  anc s' x j -> x <> j -> st s' x <> c_DONE -> x <= c < x + sz s' x ->
  exists lbusy' bcol',
    gen_pxgstrf_mark_busy_descends j (etree s') (ptype s') (psize s') xsup supno b lbusy fuel = Some (lbusy', bcol') /\
    nthZ lbusy' c = j.
Proof. exact source_busy_columns_marked. Qed.
Print Assumptions c03_source_busy_columns_marked.

(* the translated routine run on the example forest above: panel 3, bcol 0 (a relaxed supernode of 3 columns) *)
Example c03_source_mark_busy_example :
  let s := parallel_init 8 (2 :: 2 :: 3 :: 4 :: 5 :: 8 :: 7 :: 8 :: nil) 1 3 in
  gen_pxgstrf_mark_busy_descends 3 (etree s) (ptype s) (psize s) nil nil 0 (repeat (-1) 8) 9 =
  Some (3 :: 3 :: 3 :: -1 :: -1 :: -1 :: -1 :: -1 :: nil, 0).
Proof. vm_compute. reflexivity. Qed.

(* Column level: the release protocol of the thread loop (ColRelease.v).  Operations: the scheduler hands out the columns of a
   panel (flag set), pivotL / factor_snode makes a column final, the owner clears the flag -- guarded by finality, the order of
   the statements in p?gstrf_thread that the hook audit of checks/c03.py re-reads from the current source on every run --,
   and a panel update consumes a handed-out column whose flag it saw clear.  For every sequence of these operations, of any
   length, by any number of owners and readers: every column consumed was final when it was consumed. *)
Theorem c03_consumed_columns_are_final : forall os s',
  ColRelease.crun true ColRelease.cinit os = Some s' -> List.Forall (fun p => snd p = true) (ColRelease.rd s').
Proof. exact ColRelease.reads_are_final. Qed.
Print Assumptions c03_consumed_columns_are_final.

(* the guard is needed: with the flag cleared before the column is final (the order seeded change C03h introduced) a
   three-operation execution consumes a column that is not final *)
Theorem c03_release_before_final_refuted :
  exists os s', ColRelease.crun false ColRelease.cinit os = Some s' /\ ~ List.Forall (fun p => snd p = true) (ColRelease.rd s').
Proof. exact ColRelease.unguarded_release_refuted. Qed.
Print Assumptions c03_release_before_final_refuted.
