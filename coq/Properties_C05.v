(* Properties_C05.v -- property theorems for C05.  Only statements closed by `exact`, and Print Assumptions. *)
From Coq Require Import ZArith List.
From SLU Require Import SchedModel SchedInv SchedProofs AllocModel AllocProofs.
Import ListNotations.
Local Open Scope Z_scope.

(* the locked bump allocators (U values, U subscripts, L subscripts): every block handed out lies inside the array,
   blocks are consecutive (hence pairwise disjoint), and a request that does not fit takes the abort path *)
Theorem c05_bump_safe : forall reqs next maxv l, 0 <= next -> (forall r, In r reqs -> 0 <= r) ->
  bump_all next maxv reqs = Some l -> blocks_ok next maxv l /\ consecutive next l /\ length l = length reqs.
Proof. exact bump_safe. Qed.
Print Assumptions c05_bump_safe.

Theorem c05_bump_disjoint : forall l start, consecutive start l -> (forall b, In b l -> fst b <= snd b) ->
  ForallOrdPairs (fun a b => snd a <= fst b) l.
Proof. exact consecutive_disjoint. Qed.
Print Assumptions c05_bump_disjoint.

Theorem c05_bump_abort_when_full : forall next maxv num, maxv < next + num -> bump next maxv num = None.
Proof. exact bump_abort_when_full. Qed.
Print Assumptions c05_bump_abort_when_full.

(* an H-supernode slot of w columns x `rows` rows suffices for at most w column allocations of at most `rows` entries
   each (the unchecked Glu_alloc(LUSUP) stays inside its slot) -- PARTIAL: that the predicted count `rows` dominates
   the actual column length for every pivot sequence (George-Ng row-merge bound) is monitored per run, not proved *)
Theorem c05_lusup_slot_suffices_partial : forall start w rows reqs, 0 <= w -> 0 <= rows ->
  Z.of_nat (length reqs) <= w -> (forall r, In r reqs -> 0 <= r <= rows) ->
  forall l, bump_all start (start + w * rows) reqs = Some l \/ True ->
  exists l', bump_all start (start + w * rows) reqs = Some l' /\ blocks_ok start (start + w * rows) l'.
Proof. exact lusup_slot_suffices. Qed.
Print Assumptions c05_lusup_slot_suffices_partial.

(* a storage image accepted by the executable checker has non-decreasing slot starts *)
Theorem c05_check_slots_sound : forall n m, check_slots n m = true ->
  forall a b, 0 <= a <= b -> b < n -> 0 <= nthZ m a -> 0 <= nthZ m b -> 0 <= nthZ m a <= nthZ m b.
Proof. exact check_slots_sound. Qed.
Print Assumptions c05_check_slots_sound.

(* the task queue never outgrows its n slots (scheduler arrays are part of "memory it owns") *)
Theorem c05_queue_bounds : forall s0 P g, reachable s0 P g ->
  0 <= qhead (gs g) <= qtail (gs g) /\ qtail (gs g) <= sn (gs g) /\ qcount (gs g) = qtail (gs g) - qhead (gs g).
Proof. exact queue_bounds. Qed.
Print Assumptions c05_queue_bounds.

From SLU Require Import SchedModel SchedProofs SchedGuard.

(* the scheduler's own arrays (pan_status[n+1], fb_cols[n+1], etree[n], the task queue[n], spin_locks[n]): in every reachable
   state, for every thread about to call pxgstrf_scheduler, every index the call uses is inside its array (sched_guard re-runs
   the call checking each access: queue[head], STATE(jcol), DADPANEL(jcol), queue[tail] = dad, fb_cols[jcol] and every step of
   the climb over DONE panels) *)
Theorem c05_scheduler_index_safe : forall s0 P g t cur,
  reachable s0 P g -> (0 <= t < tlen (thr g))%Z -> thr_get (thr g) t = (M_READY, cur) -> sched_guard (gs g) cur = true.
Proof. exact sched_guard_reachable. Qed.
Print Assumptions c05_scheduler_index_safe.

From SLU Require Import SymFill GeorgeNg RowMergeExec.

(* the predicted bound dominates L for WHATEVER pivots are chosen (George & Ng 1985, on patterns of any size):
   pelim piv n P = the pattern of L+U after partial pivoting with the row choices piv (any admissible sequence);
   rowmerge n n P = the row-merge (Householder) pattern, whose column counts are what qrnzcnt predicts (tied per run);
   elim n (ata n P) = the symbolic Cholesky factor of A^T A.  With a zero-free diagonal every column of L has at most as many
   entries as the row-merge pattern, which in turn is inside the Cholesky bound *)
Theorem c05_colcount_dominated : forall n (P : pat) (piv : nat -> nat),
  zero_free_diag n P -> admissible n piv P ->
  forall j, (j < n)%nat ->
  (lcount n (pelim piv n P) j <= lcount n (rowmerge n n P) j)%nat /\
  (lcount n (rowmerge n n P) j <= lcount n (elim n (ata n P)) j)%nat.
Proof. exact george_ng_colcount. Qed.
Print Assumptions c05_colcount_dominated.

(* the U part needs no hypothesis on the diagonal: every entry of U lies in the Cholesky factor of A^T A *)
Theorem c05_U_within_cholesky_of_ata : forall n (P : pat) (piv : nat -> nat),
  admissible n piv P ->
  forall i j, (i < n)%nat -> (i <= j)%nat -> pelim piv n P i j = true -> elim n (ata n P) i j = true.
Proof. exact george_ng_U. Qed.
Print Assumptions c05_U_within_cholesky_of_ata.

(* the executable column counts used in the correspondence are those of the row-merge pattern *)
Theorem c05_rowmerge_counts_executable : forall n ents j, (j < n)%nat ->
  nth j (rm_colcounts n ents) 0%nat = lcount n (rowmerge n n (tab n (pat_of ents))) j.
Proof. exact rm_colcounts_spec. Qed.
Print Assumptions c05_rowmerge_counts_executable.
