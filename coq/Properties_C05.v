(* Properties_C05.v -- property theorems for C05.  Only statements closed by `exact`, and Print Assumptions. *)
From Coq Require Import ZArith List.
From SLU Require Import SchedModel SchedInv SchedProofs AllocModel AllocProofs.
Import ListNotations.
Local Open Scope Z_scope.

(* the locked bump allocators (U values, U subscripts, L subscripts): every block handed out lies inside the array,
   blocks are consecutive (hence pairwise disjoint), and a request that does not fit takes the abort path *)
Theorem c05_bump_safe : forall reqs next maxv l, 0 <= next -> (forall r, In r reqs -> 0 <= r) ->
  bump_all next maxv reqs = Some l -> blocks_ok next maxv l /\ consecutive next l /\ length l = length reqs.
Proof. exact bump_safe. Qed.
Print Assumptions c05_bump_safe.

Theorem c05_bump_disjoint : forall l start, consecutive start l -> (forall b, In b l -> fst b <= snd b) ->
  ForallOrdPairs (fun a b => snd a <= fst b) l.
Proof. exact consecutive_disjoint. Qed.
Print Assumptions c05_bump_disjoint.

Theorem c05_bump_abort_when_full : forall next maxv num, maxv < next + num -> bump next maxv num = None.
Proof. exact bump_abort_when_full. Qed.
Print Assumptions c05_bump_abort_when_full.

(* an H-supernode slot of w columns x `rows` rows suffices for at most w column allocations of at most `rows` entries
   each (the unchecked Glu_alloc(LUSUP) stays inside its slot) -- PARTIAL: that the predicted count `rows` dominates
   the actual column length for every pivot sequence (George-Ng row-merge bound) is monitored per run, not proved *)
Theorem c05_lusup_slot_suffices_partial : forall start w rows reqs, 0 <= w -> 0 <= rows ->
  Z.of_nat (length reqs) <= w -> (forall r, In r reqs -> 0 <= r <= rows) ->
  forall l, bump_all start (start + w * rows) reqs = Some l \/ True ->
  exists l', bump_all start (start + w * rows) reqs = Some l' /\ blocks_ok start (start + w * rows) l'.
Proof. exact lusup_slot_suffices. Qed.
Print Assumptions c05_lusup_slot_suffices_partial.

(* a storage image accepted by the executable checker has non-decreasing slot starts *)
Theorem c05_check_slots_sound : forall n m, check_slots n m = true ->
  forall a b, 0 <= a <= b -> b < n -> 0 <= nthZ m a -> 0 <= nthZ m b -> 0 <= nthZ m a <= nthZ m b.
Proof. exact check_slots_sound. Qed.
Print Assumptions c05_check_slots_sound.

(* the task queue never outgrows its n slots (scheduler arrays are part of "memory it owns") *)
Theorem c05_queue_bounds : forall s0 P g, reachable s0 P g ->
  0 <= qhead (gs g) <= qtail (gs g) /\ qtail (gs g) <= sn (gs g) /\ qcount (gs g) = qtail (gs g) - qhead (gs g).
Proof. exact queue_bounds. Qed.
Print Assumptions c05_queue_bounds.

From SLU Require Import SchedModel SchedProofs SchedGuard.

(* the scheduler's own arrays (pan_status[n+1], fb_cols[n+1], etree[n], the task queue[n], spin_locks[n]): in every reachable
   state, for every thread about to call pxgstrf_scheduler, every index the call uses is inside its array (sched_guard re-runs
   the call checking each access: queue[head], STATE(jcol), DADPANEL(jcol), queue[tail] = dad, fb_cols[jcol] and every step of
   the climb over DONE panels) *)
Theorem c05_scheduler_index_safe : forall s0 P g t cur,
  reachable s0 P g -> (0 <= t < tlen (thr g))%Z -> thr_get (thr g) t = (M_READY, cur) -> sched_guard (gs g) cur = true.
Proof. exact sched_guard_reachable. Qed.
Print Assumptions c05_scheduler_index_safe.

From SLU Require Import SymFill GeorgeNg RowMergeExec.

(* the predicted bound dominates L for WHATEVER pivots are chosen (George & Ng 1985, on patterns of any size):
   pelim piv n P = the pattern of L+U after partial pivoting with the row choices piv (any admissible sequence);
   rowmerge n n P = the row-merge (Householder) pattern, whose column counts are what qrnzcnt predicts (tied per run);
   elim n (ata n P) = the symbolic Cholesky factor of A^T A.  With a zero-free diagonal every column of L has at most as many
   entries as the row-merge pattern, which in turn is inside the Cholesky bound *)
Theorem c05_colcount_dominated : forall n (P : pat) (piv : nat -> nat),
  zero_free_diag n P -> admissible n piv P ->
  forall j, (j < n)%nat ->
  (lcount n (pelim piv n P) j <= lcount n (rowmerge n n P) j)%nat /\
  (lcount n (rowmerge n n P) j <= lcount n (elim n (ata n P)) j)%nat.
Proof. exact george_ng_colcount. Qed.
Print Assumptions c05_colcount_dominated.

(* the U part needs no hypothesis on the diagonal: every entry of U lies in the Cholesky factor of A^T A *)
Theorem c05_U_within_cholesky_of_ata : forall n (P : pat) (piv : nat -> nat),
  admissible n piv P ->
  forall i j, (i < n)%nat -> (i <= j)%nat -> pelim piv n P i j = true -> elim n (ata n P) i j = true.
Proof. exact george_ng_U. Qed.
Print Assumptions c05_U_within_cholesky_of_ata.

(* the executable column counts used in the correspondence are those of the row-merge pattern *)
Theorem c05_rowmerge_counts_executable : forall n ents j, (j < n)%nat ->
  nth j (rm_colcounts n ents) 0%nat = lcount n (rowmerge n n (tab n (pat_of ents))) j.
Proof. exact rm_colcounts_spec. Qed.
Print Assumptions c05_rowmerge_counts_executable.

From SLU Require Import WorkLayout Consts.
Local Open Scope Z_scope.

(* the per-thread work arrays suffice.  Every c_* definition below is TRANSLATED from the current source by tools/gen_consts.py
   (pxgstrf_SetIWork, p?gstrf_WorkInit, NUM_TEMPV, p?gstrf_SetRWork, p?gstrf_bmod2D), so this is re-proved against what the
   code says now: the seven pieces of the integer array (documented lengths n, n, 2n, wn, wn, NO_MARKER n, n) are disjoint and
   inside the WorkInit allocation of every precision *)
Theorem c05_iwork_pieces_disjoint_in_range : forall n w, 0 <= n -> 1 <= w ->
  let offs := iw_offsets n w in let lens := iw_lengths n w in
  (forall i, (i < 7)%nat -> 0 <= nth i offs 0 /\ nth i offs 0 + nth i lens 0 <= c_work_isize_d n w
                            /\ nth i offs 0 + nth i lens 0 <= c_work_isize_s n w
                            /\ nth i offs 0 + nth i lens 0 <= c_work_isize_c n w
                            /\ nth i offs 0 + nth i lens 0 <= c_work_isize_z n w) /\
  (forall i j, (i < j)%nat -> (j < 7)%nat -> nth i offs 0 + nth i lens 0 <= nth j offs 0) /\
  c_iw_fill_repfnz n w <= nth 3 lens 0.
Proof. exact iwork_pieces_disjoint_in_range. Qed.
Print Assumptions c05_iwork_pieces_disjoint_in_range.

(* dense[] and tempv[] are disjoint and inside the real work array; tempv[] is long enough for the 1-D update and for every
   column of a panel in the 2-D update (stride = maxsuper + rowblk), in all four precisions *)
Theorem c05_rwork_suffices :
  rwork_ok c_num_tempv_s c_work_dsize_s c_rw_tempv_s c_rw_fill_dense_s c_rw_fill_tempv_s c_bmod2d_lda_s c_bmod2d_mv_s /\
  rwork_ok c_num_tempv_d c_work_dsize_d c_rw_tempv_d c_rw_fill_dense_d c_rw_fill_tempv_d c_bmod2d_lda_d c_bmod2d_mv_d /\
  rwork_ok c_num_tempv_c c_work_dsize_c c_rw_tempv_c c_rw_fill_dense_c c_rw_fill_tempv_c c_bmod2d_lda_c c_bmod2d_mv_c /\
  rwork_ok c_num_tempv_z c_work_dsize_z c_rw_tempv_z c_rw_fill_dense_z c_rw_fill_tempv_z c_bmod2d_lda_z c_bmod2d_mv_z /\
  (c_bmod2d_stride_is_lda_s && c_bmod2d_stride_is_lda_d && c_bmod2d_stride_is_lda_c && c_bmod2d_stride_is_lda_z)%bool = true.
Proof. exact (conj rwork_ok_s (conj rwork_ok_d (conj rwork_ok_c (conj rwork_ok_z bmod2d_strides_are_lda)))). Qed.
Print Assumptions c05_rwork_suffices.

From SLU Require Import C2GalLib AllocGen AllocTie.

(* the bump allocator of the factor storage AS THE SOURCE SAYS NOW: gen_Glu_alloc is re-translated from Glu_alloc of SRC/pmemory.c on
   every run (tools/gen_trans.py, AllocGen.v; the translator also checks that nextu / nextl / nextlu are only touched under
   lu_locks[ULOCK] / [LLOCK] / [LULOCK] and that every return happens with no lock held).  For every argument it computes the model's
   bump of its storage type: UCOL and USUB share nextu / nzumax, LSUB has nextl / nzlmax; the old next-pointer comes back through
   *prev_next, the new one is stored, the XPAND_HINT abort is taken exactly when bump reports exhaustion, nothing else changes;
   LUSUP is the unchecked lusup_alloc on the slot pointer map_in_sup[fsupc]; any other mem_type does nothing *)
Theorem c05_source_alloc_is_model : forall pnum jcol num mt prev0 m nextlu nextu nextl nzlumax nzumax nzlmax,
  let run := gen_Glu_alloc pnum jcol num mt prev0 m nextlu nextu nextl nzlumax nzumax nzlmax in
  (class_of mt = SC_U ->
     run = match bump nextu nzumax num with
           | None => Aborted
           | Some (p, nx) => Returned (0, p, m, (nextlu, nx, nextl, nzlumax, nzumax, nzlmax))
           end) /\
  (class_of mt = SC_L ->
     run = match bump nextl nzlmax num with
           | None => Aborted
           | Some (p, nx) => Returned (0, p, m, (nextlu, nextu, nx, nzlumax, nzumax, nzlmax))
           end) /\
  (class_of mt = SC_LUSUP ->
     run = let f := lusup_leader m jcol in
           Returned (0, fst (lusup_alloc (m f) num), zupd m f (snd (lusup_alloc (m f) num)),
                     (nextlu, nextu, nextl, nzlumax, nzumax, nzlmax))) /\
  (class_of mt = SC_none -> run = Returned (0, prev0, m, (nextlu, nextu, nextl, nzlumax, nzumax, nzlmax))).
Proof. exact source_alloc_is_model. Qed.
Print Assumptions c05_source_alloc_is_model.

(* the classes are inhabited by the values of the enumeration MemType that pmemory.c sees *)
Theorem c05_source_alloc_classes :
  class_of gen_UCOL = SC_U /\ class_of gen_USUB = SC_U /\ class_of gen_LSUB = SC_L /\ class_of gen_LUSUP = SC_LUSUP.
Proof. exact (conj class_UCOL (conj class_USUB (conj class_LSUB class_LUSUP))). Qed.
Print Assumptions c05_source_alloc_classes.

(* c05_bump_safe + c05_bump_disjoint for the translated function: run it over any interleaving of requests (mem_type, jcol, num);
   when the run returns, the blocks of one locked storage type (k = SC_U: UCOL and USUB together, k = SC_L: LSUB) lie inside
   [next, max] of that type, are consecutive, pairwise disjoint, and there is one per request of that type *)
Theorem c05_source_alloc_blocks_safe : forall k, k = SC_U \/ k = SC_L ->
  forall reqs pnum prev0 m c l fin,
  0 <= next_of k c -> (forall r, In r (reqs_of k reqs) -> 0 <= r) ->
  src_run pnum prev0 m c reqs = Returned (l, fin) ->
  AllocProofs.blocks_ok (next_of k c) (max_of k c) (blocks_of k l) /\ AllocProofs.consecutive (next_of k c) (blocks_of k l) /\
  ForallOrdPairs (fun a b => snd a <= fst b) (blocks_of k l) /\ length (blocks_of k l) = length (reqs_of k reqs).
Proof. exact src_run_blocks_safe. Qed.
Print Assumptions c05_source_alloc_blocks_safe.

(* c05_bump_abort_when_full for the translated function: the abort path is taken exactly when the model reports exhaustion *)
Theorem c05_source_alloc_abort_iff : forall pnum jcol num mt prev0 m nextlu nextu nextl nzlumax nzumax nzlmax,
  gen_Glu_alloc pnum jcol num mt prev0 m nextlu nextu nextl nzlumax nzumax nzlmax = Aborted <->
  (class_of mt = SC_U /\ bump nextu nzumax num = None) \/ (class_of mt = SC_L /\ bump nextl nzlmax num = None).
Proof. exact src_alloc_abort_iff. Qed.
Print Assumptions c05_source_alloc_abort_iff.

(* DynamicSetMap (dynamic L-supernode storage), re-translated the same way: the model's bump on nextlu / nzlumax under LULOCK,
   the old next-pointer stored in map_in_sup[jcol] *)
Theorem c05_source_dynamic_setmap_is_model : forall pnum jcol num m nextlu nextu nextl nzlumax nzumax nzlmax,
  gen_DynamicSetMap pnum jcol num m nextlu nextu nextl nzlumax nzumax nzlmax
  = match bump nextlu nzlumax num with
    | None => Aborted
    | Some (p, nx) => Returned (0, zupd m jcol p, (nx, nextu, nextl, nzlumax, nzumax, nzlmax))
    end.
Proof. exact source_dynamic_setmap_is_model. Qed.
Print Assumptions c05_source_dynamic_setmap_is_model.

From SLU Require PresetMapGen SchedInitTie PresetMapTie.
(* ?PresetMap (SRC/p[dscz]memory.c), RE-TRANSLATED from the current source on every run (PresetMapGen.v, tools/gen_trans_pm.py): the
   routine that lays out the storage of the L supernodes computes exactly the model's image preset_map (static scheme:
   getenv("SuperLU_DYNAMIC_SNODE_STORE") == NULL), for every input that satisfies the stated hypotheses (see PresetMapTie.v);
   the s / c / z twins are the same Gallina term as the d routine *)
Theorem c05_source_presetmap_is_model : forall n colbeg colend rowind rfcol rsize rlx colcnt sb nextlu maxsuper junk k0 fuel,
  0 <= n -> 1 <= maxsuper -> PresetMapTie.sb_ok n sb -> PresetMapTie.rows_ok n colbeg colend rowind ->
  SchedInitTie.rlx_at rfcol rsize n 1 rlx -> PresetMapTie.rlx_ok n rlx -> (Z.to_nat n < fuel)%nat ->
  PresetMapGen.gen_dPresetMap n colbeg colend rowind rfcol rsize colcnt sb nextlu maxsuper C2GalLib.pnull junk k0 fuel =
  Some (fst (preset_map n colbeg colend rowind rlx colcnt sb maxsuper), nextlu,
        snd (preset_map n colbeg colend rowind rlx colcnt sb maxsuper), Consts.c_NO,
        snd (preset_loop (Z.to_nat n + 1) n colbeg colend rowind rlx colcnt (split_super n sb maxsuper) 0 0
               (repeat 0 (Z.to_nat (n + 1))))).
Proof. exact PresetMapTie.presetmap_tie_static. Qed.
Print Assumptions c05_source_presetmap_is_model.

(* the same for the dynamic scheme (the environment variable is set): map_in_sup and Glu->nextlu are preset_map_dyn *)
Theorem c05_source_presetmap_dyn_is_model : forall n colbeg colend rowind rfcol rsize rlx colcnt sb nextlu maxsuper off junk k0 fuel,
  0 <= n -> 1 <= maxsuper -> PresetMapTie.sb_ok n sb -> PresetMapTie.rows_ok n colbeg colend rowind ->
  SchedInitTie.rlx_at rfcol rsize n 1 rlx -> PresetMapTie.rlx_ok n rlx -> (Z.to_nat n < fuel)%nat ->
  PresetMapGen.gen_dPresetMap n colbeg colend rowind rfcol rsize colcnt sb nextlu maxsuper (Some off) junk k0 fuel =
  Some (fst (preset_map_dyn n colbeg colend rowind rlx colcnt sb maxsuper),
        snd (preset_map_dyn n colbeg colend rowind rlx colcnt sb maxsuper),
        split_super n sb maxsuper, Consts.c_YES,
        snd (preset_map_dyn n colbeg colend rowind rlx colcnt sb maxsuper)).
Proof. exact PresetMapTie.presetmap_tie_dyn. Qed.
Print Assumptions c05_source_presetmap_dyn_is_model.

(* c05_check_slots_sound for the translated function: when the executable checker accepts the MODEL's image, the map_in_sup[]
   that the translated C routine returns has non-decreasing slot starts *)
Theorem c05_source_presetmap_slots_sound : forall n colbeg colend rowind rfcol rsize rlx colcnt sb nextlu maxsuper junk k0 fuel m nl sb' d tot,
  0 <= n -> 1 <= maxsuper -> PresetMapTie.sb_ok n sb -> PresetMapTie.rows_ok n colbeg colend rowind ->
  SchedInitTie.rlx_at rfcol rsize n 1 rlx -> PresetMapTie.rlx_ok n rlx -> (Z.to_nat n < fuel)%nat ->
  check_slots n (fst (preset_map n colbeg colend rowind rlx colcnt sb maxsuper)) = true ->
  PresetMapGen.gen_dPresetMap n colbeg colend rowind rfcol rsize colcnt sb nextlu maxsuper C2GalLib.pnull junk k0 fuel = Some (m, nl, sb', d, tot) ->
  forall a b, 0 <= a <= b -> b < n -> 0 <= nthZ m a -> 0 <= nthZ m b -> 0 <= nthZ m a <= nthZ m b.
Proof. exact PresetMapTie.presetmap_slots_sound. Qed.
Print Assumptions c05_source_presetmap_slots_sound.
