(* C17 -- proofs about the resource ledger (LedgerModel.v). *)
Require Import ZArith List Bool PeanoNat Lia Permutation.
From SLU Require Import LedgerModel.
Import ListNotations.
Local Open Scope Z_scope.

Lemma memb_In : forall id l, memb id l = true <-> In id l.
Proof.
  intros id l. unfold memb. rewrite existsb_exists. split.
  - intros [x [Hin Heq]]. apply Nat.eqb_eq in Heq. subst. assumption.
  - intros H. exists id. split; [assumption|apply Nat.eqb_refl].
Qed.

Lemma memb_false : forall id l, memb id l = false <-> ~ In id l.
Proof.
  intros id l. rewrite <- memb_In. destruct (memb id l).
  - split; [discriminate|]. intros H; exfalso; apply H; reflexivity.
  - split; [intros _ H; discriminate|reflexivity].
Qed.

Lemma subsetb_spec : forall a b, subsetb a b = true <-> (forall x, In x a -> In x b).
Proof.
  intros a b. unfold subsetb. rewrite forallb_forall. split; intros H x Hx.
  - apply memb_In. apply H. assumption.
  - apply memb_In. apply H. assumption.
Qed.

(* ------------------------------------------------------------------ *)
(* soundness and completeness of the executable check *)

Lemma check_balanced_from_spec : forall st ret h,
  check_balanced_from st ret h = true <-> balanced_from st ret h.
Proof.
  intros st ret h. unfold check_balanced_from, balanced_from. destruct (run st h) as [st'|] eqn:E.
  - rewrite !andb_true_iff, !subsetb_spec, !Z.eqb_eq. split.
    + intros [[[H1 H2] H3] H4]. exists st'. split; [reflexivity|]. split; [|auto].
      intros id. split; intros Hin.
      * apply in_app_or. apply H1. assumption.
      * apply H2. apply in_or_app. assumption.
    + intros [st2 [Heq [Hl [Ht Hh]]]]. inversion Heq; subst st2. repeat split; auto.
      * intros x Hx. apply in_or_app. apply Hl. assumption.
      * intros x Hx. apply Hl. apply in_app_or. assumption.
  - split; [discriminate|]. intros [st' [H _]]. discriminate.
Qed.

Lemma check_balanced_spec : forall ret h, check_balanced ret h = true <-> balanced ret h.
Proof. intros. apply check_balanced_from_spec. Qed.

(* ------------------------------------------------------------------ *)
(* the ledger keeps identifiers distinct *)

Lemma step_nodup : forall st e st', step st e = Some st' -> NoDup (live st) -> NoDup (live st').
Proof.
  intros st e st' H Hnd. destruct e; simpl in H.
  - destruct (memb id (live st)) eqn:E; [discriminate|]. inversion H; subst; simpl.
    constructor; [apply memb_false; assumption|assumption].
  - destruct (memb id (live st)); [|discriminate]. inversion H; subst; simpl.
    clear H. induction Hnd as [|x l Hx Hl IH]; simpl; [constructor|].
    destruct (Nat.eq_dec id x); [assumption|]. constructor; [|assumption].
    intros Hin. apply Hx. apply in_remove in Hin. tauto.
  - inversion H; subst; assumption.
  - destruct (threads st <=? 0); [discriminate|]. inversion H; subst; assumption.
  - inversion H; subst; assumption.
  - destruct (handles st <=? 0); [discriminate|]. inversion H; subst; assumption.
Qed.

Lemma run_nodup : forall h st st', run st h = Some st' -> NoDup (live st) -> NoDup (live st').
Proof.
  induction h as [|e t IH]; simpl; intros st st' H Hnd.
  - inversion H; subst; assumption.
  - destruct (step st e) as [s1|] eqn:E; [|discriminate]. eapply IH; [eassumption|]. eapply step_nodup; eassumption.
Qed.

(* freeing a duplicate-free list of live identifiers removes exactly them *)
Lemma run_frees : forall l st,
  NoDup l -> (forall id, In id l -> In id (live st)) ->
  exists st', run st (map Free l) = Some st' /\
              (forall id, In id (live st') <-> In id (live st) /\ ~ In id l) /\
              threads st' = threads st /\ handles st' = handles st.
Proof.
  induction l as [|x l IH]; intros st Hnd Hin; simpl.
  - exists st. repeat split; auto; tauto.
  - inversion Hnd as [|? ? Hx Hl]; subst.
    assert (Hm : memb x (live st) = true) by (apply memb_In; apply Hin; left; reflexivity).
    rewrite Hm.
    set (s1 := mkL (remove Nat.eq_dec x (live st)) (threads st) (handles st)).
    destruct (IH s1 Hl) as (st' & Hr & Hlive & Ht & Hh).
    + intros id Hid. simpl. apply in_in_remove; [|apply Hin; right; assumption].
      intros ->. contradiction.
    + exists st'. split; [assumption|]. split; [|auto].
      intros id. rewrite Hlive. simpl. split.
      * intros [Hr1 Hn]. apply in_remove in Hr1. destruct Hr1 as [Hr1 Hne]. split; [assumption|].
        intros [Heq|Hin']; [congruence|contradiction].
      * intros [Hl1 Hn]. split; [|tauto]. apply in_in_remove; [|assumption]. intros ->. apply Hn. left; reflexivity.
Qed.

(* a balanced call followed by the caller's destroy gives back the live set of before *)
Lemma call_then_destroy : forall st ret h,
  NoDup (live st) -> balanced_from st ret h ->
  exists st' st'', run st h = Some st' /\ run st' (destroy_events st ret) = Some st'' /\
                   NoDup (live st'') /\ (forall id, In id (live st'') <-> In id (live st)) /\
                   threads st'' = threads st /\ handles st'' = handles st.
Proof.
  intros st ret h Hnd (st' & Hrun & Hlive & Ht & Hh).
  unfold destroy_events.
  set (D := nodup Nat.eq_dec (filter (fun id => negb (memb id (live st))) ret)).
  assert (HD : forall id, In id D <-> In id ret /\ ~ In id (live st)).
  { intros id. unfold D. rewrite nodup_In, filter_In, negb_true_iff, memb_false. tauto. }
  destruct (run_frees D st') as (st'' & Hr2 & Hl2 & Ht2 & Hh2).
  - apply NoDup_nodup.
  - intros id Hid. apply Hlive. right. apply HD. assumption.
  - exists st', st''. split; [assumption|]. split; [assumption|].
    split; [eapply run_nodup; [eassumption|eapply run_nodup; eassumption]|].
    split; [|split; congruence].
    intros id. rewrite Hl2, Hlive, HD. split.
    + intros [[H|H] Hn]; [assumption|]. destruct (in_dec Nat.eq_dec id (live st)); [assumption|]. exfalso; apply Hn; auto.
    + intros H. split; [left; assumption|]. intros [_ Hn]. contradiction.
Qed.

Lemma live_bytes_perm : forall (sz : nat -> Z) (l1 l2 : list nat), Permutation l1 l2 ->
  fold_right (fun id acc => sz id + acc) 0 l1 = fold_right (fun id acc => sz id + acc) 0 l2.
Proof. intros sz l1 l2 H. induction H; simpl; lia. Qed.

(* ------------------------------------------------------------------ *)
(* composition: any number of balanced calls, each followed by the destroy of what it handed back, ends with
   the live set (as a multiset of identifiers), the thread count and the handle count of the beginning *)
Lemma balanced_compose_lemma : forall calls st,
  NoDup (live st) -> all_balanced st calls ->
  exists st', run_calls st calls = Some st' /\ Permutation (live st') (live st) /\
              threads st' = threads st /\ handles st' = handles st /\
              forall sz, live_bytes sz st' = live_bytes sz st.
Proof.
  induction calls as [|[h ret] t IH]; intros st Hnd Hall; simpl.
  - exists st. repeat split; auto.
  - destruct Hall as [Hb Hrest].
    destruct (call_then_destroy st ret h Hnd Hb) as (st1 & st2 & H1 & H2 & Hnd2 & Hl2 & Ht2 & Hh2).
    rewrite H1, H2.
    destruct (IH st2 Hnd2 (Hrest _ _ H1 H2)) as (st' & Hr & Hp & Ht & Hh & Hb').
    assert (Hp2 : Permutation (live st2) (live st)) by (apply NoDup_Permutation; assumption).
    exists st'. split; [assumption|]. split; [eapply Permutation_trans; eassumption|].
    split; [congruence|]. split; [congruence|].
    intros sz. rewrite Hb'. unfold live_bytes. apply live_bytes_perm. assumption.
Qed.

(* repetition: the same balanced call k times *)
Fixpoint repeat_calls (k : nat) (c : history * list nat) : list (history * list nat) :=
  match k with O => [] | S k' => c :: repeat_calls k' c end.

(* a call that is balanced whenever it starts from (a state equivalent to) st can be repeated any number of
   times: every repetition is balanced, so the composition theorem applies *)
Definition equiv_state (s st : lstate) : Prop :=
  NoDup (live s) /\ (forall id, In id (live s) <-> In id (live st)) /\ threads s = threads st /\ handles s = handles st.

Lemma repeat_all_balanced : forall k h ret st s,
  (forall s', equiv_state s' st -> balanced_from s' ret h) -> equiv_state s st ->
  all_balanced s (repeat_calls k (h, ret)).
Proof.
  induction k as [|k IH]; intros h ret st s Hb Heq; simpl; [exact I|].
  split; [apply Hb; assumption|].
  intros st' st'' H1 H2.
  destruct Heq as (Hnd & Hl & Ht & Hh).
  destruct (call_then_destroy s ret h Hnd (Hb s (conj Hnd (conj Hl (conj Ht Hh))))) as (t1 & t2 & E1 & E2 & Hnd2 & Hl2 & Ht2 & Hh2).
  rewrite H1 in E1. inversion E1; subst t1. rewrite H2 in E2. inversion E2; subst t2.
  apply (IH h ret st st''); [assumption|].
  unfold equiv_state. split; [assumption|]. split; [|split; congruence].
  intros id. rewrite Hl2. apply Hl.
Qed.

Lemma repetition_lemma : forall k h ret st sz,
  NoDup (live st) -> (forall s', equiv_state s' st -> balanced_from s' ret h) ->
  exists st', run_calls st (repeat_calls k (h, ret)) = Some st' /\
              live_bytes sz st' = live_bytes sz st /\ length (live st') = length (live st) /\
              threads st' = threads st /\ handles st' = handles st.
Proof.
  intros k h ret st sz Hnd Hb.
  assert (Heq : equiv_state st st) by (unfold equiv_state; repeat split; auto).
  destruct (balanced_compose_lemma (repeat_calls k (h, ret)) st Hnd (repeat_all_balanced k h ret st st Hb Heq))
    as (st' & Hr & Hp & Ht & Hh & Hbytes).
  exists st'. split; [assumption|]. split; [apply Hbytes|]. split; [apply Permutation_length; assumption|]. auto.
Qed.

(* ------------------------------------------------------------------ *)
(* non-vacuity and a refutation-style example: an early return that forgets one block is not balanced *)
Local Open Scope nat_scope.
Example balanced_example :
  check_balanced [3; 4] [Alloc 1 40%Z; Alloc 2 8%Z; ThreadStart; Alloc 3 100%Z; Alloc 4 16%Z; ThreadEnd; Free 2; Free 1] = true.
Proof. reflexivity. Qed.

Example leak_example :
  check_balanced [3; 4] [Alloc 1 40%Z; Alloc 2 8%Z; Alloc 3 100%Z; Alloc 4 16%Z; Free 2] = false /\
  check_balanced [3] [Alloc 3 100%Z; Free 3] = false /\          (* dangling: a returned block was freed *)
  check_balanced [] [Alloc 1 8%Z; Free 1; Free 1] = false /\     (* double free *)
  check_balanced [] [ThreadStart] = false.                      (* a thread outlives the call *)
Proof. repeat split; reflexivity. Qed.

Example compose_example :
  run_calls (mkL [7] 0%Z 0%Z) (repeat_calls 3 ([Alloc 1 40%Z; ThreadStart; Alloc 2 8%Z; ThreadEnd; Free 1], [2]))
  = Some (mkL [7] 0%Z 0%Z).
Proof. reflexivity. Qed.
