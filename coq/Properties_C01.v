(* Properties_C01.v -- property theorems for C01.  Only statements closed by `exact`, and Print Assumptions. *)
From Coq Require Import Reals List.
From SLU Require Import NumBase NumSum NumLU.
Local Open Scope R_scope.

(* factorization part (shared with C02): |Pr A Pc - L U| <= gamma(n)|L||U| for any summation order *)
Theorem c01_lu_backward : forall u, 0 <= u -> u < 1 -> forall n B L U, lu_rel u n B L U -> INR n * u < 1 ->
  forall i j, (i < n)%nat -> (j < n)%nat ->
    Rabs (B i j - bigsum (fun k => L i k * U k j) n) <= gamma u n * bigsum (fun k => Rabs (L i k) * Rabs (U k j)) n.
Proof. exact lu_backward. Qed.
Print Assumptions c01_lu_backward.

From SLU Require Import NumSolve.

(* forward and back substitution in any summation order are backward stable, row-wise gamma(n) *)
Theorem c01_lsolve_backward : forall u, 0 <= u -> u < 1 -> forall n L b y,
  lsolve_rel u n L b y -> (forall i, (i < n)%nat -> L i i = 1) -> (forall i j, (i < j)%nat -> L i j = 0) -> INR n * u < 1 ->
  exists dL : mat, (forall i j, (i < n)%nat -> (j < n)%nat -> Rabs (dL i j) <= gamma u n * Rabs (L i j)) /\
                   forall i, (i < n)%nat -> b i = bigsum (fun k => (L i k + dL i k) * y k) n.
Proof. exact lsolve_backward. Qed.
Print Assumptions c01_lsolve_backward.

Theorem c01_usolve_backward : forall u, 0 <= u -> u < 1 -> forall n U y x,
  usolve_rel u n U y x -> (forall i j, (j < i)%nat -> U i j = 0) -> INR n * u < 1 ->
  exists dU : mat, (forall i j, (i < n)%nat -> (j < n)%nat -> Rabs (dU i j) <= gamma u n * Rabs (U i j)) /\
                   forall i, (i < n)%nat -> y i = bigsum (fun k => (U i k + dU i k) * x k) n.
Proof. exact usolve_backward. Qed.
Print Assumptions c01_usolve_backward.

(* the whole solve (B = Pr*A*Pc, c = Pr*b, x = Pc^T*X), any summation order in the factorization and in both
   substitutions: |c - B x| <= gamma(3n) |L||U||x| componentwise -- the bound of the property, in permuted numbering *)
Theorem c01_solve_backward : forall u, 0 <= u -> u < 1 -> forall n B L U c y x,
  lu_rel u n B L U -> lsolve_rel u n L c y -> usolve_rel u n U y x -> INR (3 * n) * u < 1 ->
  forall i, (i < n)%nat ->
    Rabs (c i - bigsum (fun j => B i j * x j) n)
    <= gamma u (3 * n) * bigsum (fun j => bigsum (fun k => Rabs (L i k) * Rabs (U k j)) n * Rabs (x j)) n.
Proof. exact solve_backward. Qed.
Print Assumptions c01_solve_backward.

From SLU Require Import NumPerm.

(* the same bound in the USER's numbering: perm_r / perm_c as returned (B (pr i) (pc j) = A i j, c (pr i) = b i, X j = x (pc j)) *)
Theorem c01_gssv_backward : forall u, 0 <= u -> u < 1 -> forall n (A : mat) (b X : nat -> R) (pr pc : nat -> nat) B L U c y x,
  perm_on n pr -> perm_on n pc ->
  (forall i j, (i < n)%nat -> (j < n)%nat -> B (pr i) (pc j) = A i j) ->
  (forall i, (i < n)%nat -> c (pr i) = b i) ->
  (forall j, (j < n)%nat -> X j = x (pc j)) ->
  lu_rel u n B L U -> lsolve_rel u n L c y -> usolve_rel u n U y x -> INR (3 * n) * u < 1 ->
  forall i, (i < n)%nat ->
    Rabs (b i - bigsum (fun j => A i j * X j) n)
    <= gamma u (3 * n) * bigsum (fun j => bigsum (fun k => Rabs (L (pr i) k) * Rabs (U k (pc j))) n * Rabs (X j)) n.
Proof. exact gssv_backward. Qed.
Print Assumptions c01_gssv_backward.

From SLU Require Import NumTrans.

(* the transposed solve (trans = TRANS, and CONJ on real data): forward substitution with U^T (division by the diagonal),
   back substitution with the unit upper triangular L^T, any summation order:  |c - B^T x| <= gamma(3n) |U^T||L^T||x| *)
Theorem c01_solve_backward_trans : forall u, 0 <= u -> u < 1 -> forall n B L U c z x,
  lu_rel u n B L U -> lsolved_rel u n (fun i k => U k i) c z -> uusolve_rel u n (fun i k => L k i) z x -> INR (3 * n) * u < 1 ->
  forall i, (i < n)%nat ->
    Rabs (c i - bigsum (fun j => B j i * x j) n)
    <= gamma u (3 * n) * bigsum (fun j => bigsum (fun k => Rabs (U k i) * Rabs (L j k)) n * Rabs (x j)) n.
Proof. exact solve_backward_trans. Qed.
Print Assumptions c01_solve_backward_trans.
