(* Properties_C01.v -- property theorems for C01.  Only statements closed by `exact`, and Print Assumptions. *)
From Coq Require Import Reals List.
From SLU Require Import NumBase NumSum NumLU.
Local Open Scope R_scope.

(* factorization part (shared with C02): |Pr A Pc - L U| <= gamma(n)|L||U| for any summation order *)
Theorem c01_lu_backward : forall u, 0 <= u -> u < 1 -> forall n B L U, lu_rel u n B L U -> INR n * u < 1 ->
  forall i j, (i < n)%nat -> (j < n)%nat ->
    Rabs (B i j - bigsum (fun k => L i k * U k j) n) <= gamma u n * bigsum (fun k => Rabs (L i k) * Rabs (U k j)) n.
Proof. exact lu_backward. Qed.
Print Assumptions c01_lu_backward.
