(* RowMergeExec.v -- executable (tabulated) version of George & Ng's row-merge scheme of GeorgeNg.v, for the correspondence:
   its column counts are what qrnzcnt predicts (colcnt_h) for a matrix with zero-free diagonal, and by george_ng_colcount
   they dominate the column counts of L for every admissible pivot sequence. *)
From Coq Require Import Arith Bool List Lia.
From SLU Require Import SymFill GeorgeNg.
Import ListNotations.

Fixpoint rowmergeT (n k : nat) (P : pat) : pat :=
  match k with O => tab n P | S k' => tab n (rmstep n k' (rowmergeT n k' P)) end.

Lemma existsb_ext' {A} (f g : A -> bool) l : (forall x, In x l -> f x = g x) -> existsb f l = existsb g l.
Proof. induction l as [|a l IH]; intros H; cbn; [reflexivity|]. rewrite (H a (or_introl eq_refl)), IH; auto. intros x Hx. apply H. now right. Qed.

Lemma rowmergeT_eq n k P : k <= n -> forall i j, i < n -> j < n -> rowmergeT n k P i j = rowmerge n k P i j.
Proof.
  induction k as [|k IH]; intros Hk i j Hi Hj; cbn [rowmergeT rowmerge]; rewrite tab_eq by assumption; [reflexivity|].
  assert (Hkn : k < n) by lia. unfold rmstep.
  rewrite !IH by (try assumption; lia).
  f_equal. f_equal. apply existsb_ext'. intros r Hr. apply in_seq in Hr.
  rewrite !IH by (try assumption; lia). reflexivity.
Qed.

Definition rm_colcounts (n : nat) (ents : list (nat * nat)) : list nat :=
  let F := rowmergeT n n (tab n (pat_of ents)) in map (fun j => lcount n F j) (seq 0 n).

Lemma rm_colcounts_spec n ents j : j < n ->
  nth j (rm_colcounts n ents) 0 = lcount n (rowmerge n n (tab n (pat_of ents))) j.
Proof.
  intros Hj. unfold rm_colcounts.
  rewrite (nth_indep _ 0 (lcount n (rowmergeT n n (tab n (pat_of ents))) 0)) by (rewrite map_length, seq_length; exact Hj).
  rewrite (map_nth (fun j0 => lcount n (rowmergeT n n (tab n (pat_of ents))) j0)), seq_nth by exact Hj. cbn [plus].
  unfold lcount. apply count_from_ext. intros i Hi. apply rowmergeT_eq; lia.
Qed.

Example rm_colcounts_ex : rm_colcounts 3 [(0,0);(1,1);(2,2);(1,0);(0,2)] = [2; 1; 1].
Proof. vm_compute. reflexivity. Qed.
