(* ReaderQProofs.v -- the decimals of the reader model as rationals (C20) *)
From Coq Require Import ZArith List Bool Lia QArith Qpower.
From SLU Require Import ReaderModel ReaderProofs.
Import ListNotations.

(* the rational number denoted by (neg, mant, e10) *)
Definition dec_to_Q (v : dec) : Q :=
  let '(neg, m, e) := v in
  (if neg then - (1 # 1) else (1 # 1)) * inject_Z m * (inject_Z 10) ^ e.

Lemma ten_nonzero : ~ inject_Z 10 == 0.
Proof. intro H. discriminate H. Qed.

Lemma scale_split : forall (m e mn : Z), (mn <= e)%Z ->
  inject_Z m * (inject_Z 10) ^ e == inject_Z (m * 10 ^ (e - mn))%Z * (inject_Z 10) ^ mn.
Proof.
  intros m e mn H.
  replace e with ((e - mn) + mn)%Z at 1 by lia.
  rewrite Qpower_plus by apply ten_nonzero.
  rewrite inject_Z_mult. rewrite Zpower_Qpower by lia. ring.
Qed.

Lemma dec_eqv_Q : forall a b, dec_eqv a b -> dec_to_Q a == dec_to_Q b.
Proof.
  intros [[na ma] ea] [[nb mb] eb] [Hs Hv]. subst nb. unfold dec_to_Q.
  rewrite <- !Qmult_assoc.
  rewrite (scale_split ma ea (Z.min ea eb)) by lia.
  rewrite (scale_split mb eb (Z.min ea eb)) by lia.
  rewrite Hv. reflexivity.
Qed.

(* the full statement about binary values needs the C library's decimal->binary conversion to be
   correctly rounded; it is a runtime fact about libc (checked on every value by checks/c20.py),
   stated here with the conversion and the rounding as arguments *)
Definition values_rounded_full (rnd : Q -> Q) (c_atof : list Z -> Q) : Prop :=
  forall f v, ffmt_ok f = true -> dec_fits f v = true ->
  c_atof (map d2e (print_dec f v)) == rnd (dec_to_Q v).

(* P: every value the reader model returns for a printed field denotes exactly the printed decimal *)
Theorem values_read_back_exact_partial : forall f vs,
  ffmt_ok f = true -> Forall (fun v => dec_fits f v = true) vs ->
  Forall2 (fun r v => dec_to_Q r == dec_to_Q v) (map (norm_dec f) vs) vs.
Proof.
  intros f vs Hok. induction vs as [|v vs IH]; intros H; [constructor|].
  inversion H as [|? ? Hv Hvs]; subst. cbn [map]. constructor; [|apply IH; assumption].
  apply dec_eqv_Q. apply norm_dec_eqv; assumption.
Qed.
