(* PivotProofs.v -- properties of the pivot choice (C02: multiplier bound, diagonal preference, pivot reuse; C06: singular) *)
From Coq Require Import ZArith List Bool Lia.
From SLU Require Import PivotModel.
Import ListNotations.
Local Open Scope Z_scope.

Definition nonneg (c : list (Z * Z)) : Prop := forall x, In x c -> 0 <= snd x.

Lemma maxmag_ge c : nonneg c -> forall x, In x c -> snd x <= maxmag c.
Proof.
  induction c as [|[r m] t IH]; intros Hn x Hx; [inversion Hx|]. cbn [maxmag].
  destruct Hx as [<-|Hx]; cbn [snd]; [lia|]. assert (nonneg t) by (intros y Hy; apply Hn; now right).
  specialize (IH H x Hx). lia.
Qed.

Lemma maxmag_nonneg c : 0 <= maxmag c.
Proof. induction c as [|[r m] t IH]; cbn [maxmag]; lia. Qed.

(* characterisation of the search loop *)
Lemma scan_spec c : forall i usepr oldrow diagind pm pp op dg pm' pp' op' dg', 0 <= pm ->
  scan c i usepr oldrow diagind pm pp op dg = (pm', pp', op', dg') ->
  pm' = Z.max pm (maxmag c) /\
  (pm < pm' -> (i <= pp' < i + length c)%nat /\ mag_at c (pp' - i) = pm') /\
  (pm' <= pm -> pp' = pp) /\
  (match dg' with
   | Some d => dg' = dg \/ ((i <= d < i + length c)%nat /\ row_at c (d - i) = diagind)
   | None => dg = None /\ forall x, In x c -> fst x <> diagind end) /\
  (op' = op \/ (usepr = true /\ exists k, op' = Some k /\ (i <= k < i + length c)%nat /\ row_at c (k - i) = oldrow)) /\
  (usepr = true -> (forall x, In x c -> fst x <> oldrow) -> op' = op) /\
  (usepr = true -> (exists x, In x c /\ fst x = oldrow) -> exists k, op' = Some k /\ (i <= k < i + length c)%nat /\ row_at c (k - i) = oldrow).
Proof.
  induction c as [|[row mag] r IH]; intros i usepr oldrow diagind pm pp op dg pm' pp' op' dg' Hpm H; cbn [scan] in H.
  - inversion H; subst. cbn [maxmag length]. split; [lia|]. split; [lia|]. split; [auto|]. split; [|split; [now left | split; [auto|]]].
    + destruct dg'; [now left|]. split; [reflexivity|]. intros x Hx. inversion Hx.
    + intros _ (x & Hx & _). inversion Hx.
  - destruct (pm <? mag) eqn:E.
    + apply Z.ltb_lt in E. apply IH in H; [|lia]. destruct H as (A & B & C & D & F & G & K). cbn [maxmag length].
      split; [lia|]. split; [|split; [|split; [|split; [|split]]]].
      * intros Hlt. destruct (Z_lt_dec mag pm') as [Hl|Hl].
        -- destruct (B Hl) as [B1 B2]. split; [lia|]. unfold mag_at in *.
           replace (pp' - i)%nat with (S (pp' - S i))%nat by lia. exact B2.
        -- rewrite (C ltac:(lia)). split; [lia|]. unfold mag_at. replace (i - i)%nat with 0%nat by lia. cbn. lia.
      * intros Hle. lia.
      * destruct dg' as [d|].
        -- destruct D as [D|[D1 D2]].
           ++ destruct (row =? diagind) eqn:Er; [|now left]. right. inversion D; subst.
              split; [lia|]. unfold row_at. replace (i - i)%nat with 0%nat by lia. cbn. now apply Z.eqb_eq.
           ++ right. split; [lia|]. unfold row_at in *. replace (d - i)%nat with (S (d - S i))%nat by lia. exact D2.
        -- destruct D as [D1 D2]. destruct (row =? diagind) eqn:Er; [discriminate|]. split; auto.
           intros x [<-|Hx]; [cbn; now apply Z.eqb_neq | now apply D2].
      * destruct F as [F|(F1 & k & F0 & F2 & F3)].
        -- destruct (usepr && (row =? oldrow)) eqn:Eu; [|now left]. right. apply andb_true_iff in Eu. destruct Eu as [Eu1 Eu2].
           split; auto. exists i. split; auto. split; [lia|]. unfold row_at. replace (i - i)%nat with 0%nat by lia. cbn. now apply Z.eqb_eq.
        -- right. split; auto. exists k. split; auto. split; [lia|]. unfold row_at in *. replace (k - i)%nat with (S (k - S i))%nat by lia. exact F3.
      * intros Hu Hall. rewrite (G Hu) by (intros x Hx; apply Hall; now right).
        rewrite Hu. cbn [andb]. destruct (row =? oldrow) eqn:Er; auto. apply Z.eqb_eq in Er. exfalso. apply (Hall (row, mag)); [now left | exact Er].
      * intros Hu (x & Hx & Ex). destruct (Z.eq_dec row oldrow) as [Er|Er].
        -- (* the head matches: either a later candidate overrides it (K) or the index i is kept (G) *)
           destruct (existsb (fun y => fst y =? oldrow) r) eqn:Ee.
           ++ apply existsb_exists in Ee. destruct Ee as (y & Hy & Ey). apply Z.eqb_eq in Ey.
              destruct (K Hu (ex_intro _ y (conj Hy Ey))) as (k & K0 & K1 & K2). exists k. split; auto. split; [lia|].
              unfold row_at in *. replace (k - i)%nat with (S (k - S i))%nat by lia. exact K2.
           ++ assert (Hnone : forall y, In y r -> fst y <> oldrow).
              { intros y Hy Ey. rewrite <- not_true_iff_false in Ee. apply Ee. apply existsb_exists. exists y. split; auto. now apply Z.eqb_eq. }
              rewrite (G Hu Hnone). rewrite Hu. cbn [andb]. apply Z.eqb_eq in Er. rewrite Er.
              exists i. split; auto. split; [lia|]. unfold row_at. rewrite Nat.sub_diag. cbn. now apply Z.eqb_eq.
        -- destruct Hx as [<-|Hx]; [cbn in Ex; congruence|].
           destruct (K Hu (ex_intro _ x (conj Hx Ex))) as (k & K0 & K1 & K2). exists k. split; auto. split; [lia|].
           unfold row_at in *. replace (k - i)%nat with (S (k - S i))%nat by lia. exact K2.
    + apply Z.ltb_ge in E. apply IH in H; [|lia]. destruct H as (A & B & C & D & F & G & K). cbn [maxmag length].
      split; [lia|]. split; [|split; [|split; [|split; [|split]]]].
      * intros Hlt. destruct (B Hlt) as [B1 B2]. split; [lia|]. unfold mag_at in *.
        replace (pp' - i)%nat with (S (pp' - S i))%nat by lia. exact B2.
      * intros Hle. apply C. lia.
      * destruct dg' as [d|].
        -- destruct D as [D|[D1 D2]].
           ++ destruct (row =? diagind) eqn:Er; [|now left]. right. inversion D; subst.
              split; [lia|]. unfold row_at. replace (i - i)%nat with 0%nat by lia. cbn. now apply Z.eqb_eq.
           ++ right. split; [lia|]. unfold row_at in *. replace (d - i)%nat with (S (d - S i))%nat by lia. exact D2.
        -- destruct D as [D1 D2]. destruct (row =? diagind) eqn:Er; [discriminate|]. split; auto.
           intros x [<-|Hx]; [cbn; now apply Z.eqb_neq | now apply D2].
      * destruct F as [F|(F1 & k & F0 & F2 & F3)].
        -- destruct (usepr && (row =? oldrow)) eqn:Eu; [|now left]. right. apply andb_true_iff in Eu. destruct Eu as [Eu1 Eu2].
           split; auto. exists i. split; auto. split; [lia|]. unfold row_at. replace (i - i)%nat with 0%nat by lia. cbn. now apply Z.eqb_eq.
        -- right. split; auto. exists k. split; auto. split; [lia|]. unfold row_at in *. replace (k - i)%nat with (S (k - S i))%nat by lia. exact F3.
      * intros Hu Hall. rewrite (G Hu) by (intros x Hx; apply Hall; now right).
        rewrite Hu. cbn [andb]. destruct (row =? oldrow) eqn:Er; auto. apply Z.eqb_eq in Er. exfalso. apply (Hall (row, mag)); [now left | exact Er].
      * intros Hu (x & Hx & Ex). destruct (Z.eq_dec row oldrow) as [Er|Er].
        -- (* the head matches: either a later candidate overrides it (K) or the index i is kept (G) *)
           destruct (existsb (fun y => fst y =? oldrow) r) eqn:Ee.
           ++ apply existsb_exists in Ee. destruct Ee as (y & Hy & Ey). apply Z.eqb_eq in Ey.
              destruct (K Hu (ex_intro _ y (conj Hy Ey))) as (k & K0 & K1 & K2). exists k. split; auto. split; [lia|].
              unfold row_at in *. replace (k - i)%nat with (S (k - S i))%nat by lia. exact K2.
           ++ assert (Hnone : forall y, In y r -> fst y <> oldrow).
              { intros y Hy Ey. rewrite <- not_true_iff_false in Ee. apply Ee. apply existsb_exists. exists y. split; auto. now apply Z.eqb_eq. }
              rewrite (G Hu Hnone). rewrite Hu. cbn [andb]. apply Z.eqb_eq in Er. rewrite Er.
              exists i. split; auto. split; [lia|]. unfold row_at. rewrite Nat.sub_diag. cbn. now apply Z.eqb_eq.
        -- destruct Hx as [<-|Hx]; [cbn in Ex; congruence|].
           destruct (K Hu (ex_intro _ x (conj Hx Ex))) as (k & K0 & K1 & K2). exists k. split; auto. split; [lia|].
           unfold row_at in *. replace (k - i)%nat with (S (k - S i))%nat by lia. exact K2.
Qed.

Lemma nonneg_mag_at c i : nonneg c -> 0 <= mag_at c i.
Proof.
  intros Hn. unfold mag_at. destruct (Nat.lt_ge_cases i (length c)) as [Hl|Hl].
  - apply Hn. now apply nth_In.
  - rewrite nth_overflow by lia. cbn. lia.
Qed.

Lemma mag_at_le_max c i : nonneg c -> mag_at c i <= maxmag c.
Proof.
  intros Hn. unfold mag_at. destruct (Nat.lt_ge_cases i (length c)) as [Hl|Hl].
  - apply maxmag_ge; auto. now apply nth_In.
  - rewrite nth_overflow by lia. cbn. apply maxmag_nonneg.
Qed.

Lemma NoDup_row_at c i k : NoDup (map fst c) -> (i < length c)%nat -> (k < length c)%nat -> row_at c i = row_at c k -> i = k.
Proof.
  intros ND Hi Hk E. unfold row_at in E.
  rewrite <- !(map_nth fst) in E. cbn [fst] in E.
  eapply (proj1 (NoDup_nth (map fst c) EMPTYZ) ND); rewrite ?map_length; eauto.
Qed.

Section PIV.
Variable c : list (Z * Z).
Variable usepr : bool.
Variables oldrow diagind thr : Z.
Hypothesis Hn : nonneg c.
Let r := pivotL c usepr oldrow diagind thr.

Lemma piv_cases :
  exists pm pp op dg, scan c 0 usepr oldrow diagind 0 0%nat None None = (pm, pp, op, dg) /\
    pm = maxmag c /\ (0 < pm -> (pp < length c)%nat /\ mag_at c pp = pm) /\ (pm <= 0 -> pp = 0%nat) /\
    (match dg with Some d => (d < length c)%nat /\ row_at c d = diagind | None => forall x, In x c -> fst x <> diagind end) /\
    (op = None \/ (usepr = true /\ exists k, op = Some k /\ (k < length c)%nat /\ row_at c k = oldrow)) /\
    (usepr = true -> (forall x, In x c -> fst x <> oldrow) -> op = None) /\
    (usepr = true -> (exists x, In x c /\ fst x = oldrow) -> exists k, op = Some k /\ (k < length c)%nat /\ row_at c k = oldrow).
Proof.
  destruct (scan c 0 usepr oldrow diagind 0 0%nat None None) as [[[pm pp] op] dg] eqn:Es.
  exists pm, pp, op, dg. split; auto.
  apply scan_spec in Es; [|lia]. destruct Es as (A & B & C & D & F & G & K).
  pose proof (maxmag_nonneg c). split; [lia|]. split; [|split; [|split; [|split; [|split]]]].
  - intros Hp. destruct (B Hp) as [B1 B2]. split; [lia|]. now rewrite Nat.sub_0_r in B2.
  - auto.
  - destruct dg as [d|].
    + destruct D as [D|[D1 D2]]; [discriminate|]. split; [lia|]. now rewrite Nat.sub_0_r in D2.
    + now destruct D.
  - destruct F as [F|(F1 & k & F0 & F2 & F3)]; [now left | right]. split; auto. exists k. split; auto. split; [lia|]. now rewrite Nat.sub_0_r in F3.
  - exact G.
  - intros Hu Hex. destruct (K Hu Hex) as (k & K0 & K1 & K2). exists k. split; auto. split; [lia|]. now rewrite Nat.sub_0_r in K2.
Qed.

(* C06: the column is reported singular exactly when every candidate is exactly zero *)
Theorem piv_singular_iff : pr_singular r = true <-> maxmag c = 0.
Proof.
  unfold r, pivotL. destruct piv_cases as (pm & pp & op & dg & Es & Hpm & _). rewrite Es.
  destruct (pm =? 0) eqn:E.
  - cbn. apply Z.eqb_eq in E. split; auto. intros _. congruence.
  - apply Z.eqb_neq in E.
    assert (pr_singular
     (let '(pivptr1, usepr1) := if usepr then match op with Some o => if negb (mag_at c o =? 0) && (thr <=? mag_at c o) then (o, true) else (pp, false) | None => (pp, false) end else (pp, false) in
      if usepr1 then mkPR pivptr1 oldrow true false
      else mkPR (match dg with Some d => if negb (mag_at c d =? 0) && (thr <=? mag_at c d) then d else pivptr1 | None => pivptr1 end)
                (row_at c (match dg with Some d => if negb (mag_at c d =? 0) && (thr <=? mag_at c d) then d else pivptr1 | None => pivptr1 end)) false false) = false).
    { destruct usepr; [destruct op as [o|]; [destruct (negb _ && _)|]|]; destruct dg; cbn; try reflexivity; destruct (negb _ && _); reflexivity. }
    rewrite H. split; [discriminate | intros; congruence].
Qed.

(* the chosen pivot: meets the threshold, is nonzero, and is a real candidate *)
Theorem piv_threshold : pr_singular r = false -> thr <= maxmag c ->
  (pr_ptr r < length c)%nat /\ thr <= mag_at c (pr_ptr r) /\ 0 < mag_at c (pr_ptr r).
Proof.
  intros Hs Ht. assert (Hmax : maxmag c <> 0) by (intros E; apply piv_singular_iff in E; congruence).
  unfold r, pivotL in *. destruct piv_cases as (pm & pp & op & dg & Es & Hpm & Hpp & _ & Hdg & Hop & _ & _). rewrite Es in *.
  pose proof (maxmag_nonneg c). assert (E0 : pm =? 0 = false) by (apply Z.eqb_neq; lia). rewrite E0 in *.
  destruct (Hpp ltac:(lia)) as [Lpp Mpp].
  assert (Hargmax : (pp < length c)%nat /\ thr <= mag_at c pp /\ 0 < mag_at c pp) by (rewrite Mpp; repeat split; auto; lia).
  assert (Hgood : forall k, (k < length c)%nat -> negb (mag_at c k =? 0) && (thr <=? mag_at c k) = true ->
                   (k < length c)%nat /\ thr <= mag_at c k /\ 0 < mag_at c k).
  { intros k Lk E. apply andb_true_iff in E. destruct E as [E1 E2]. apply negb_true_iff in E1. apply Z.eqb_neq in E1.
    apply Z.leb_le in E2. pose proof (nonneg_mag_at c k Hn). repeat split; auto. lia. }
  assert (Hop' : forall o, op = Some o -> (o < length c)%nat).
  { intros o E. destruct Hop as [Hop|(_ & k & Hk & L & _)]; [congruence|]. rewrite E in Hk. inversion Hk; subst. exact L. }
  destruct usepr; [destruct op as [o|]; [destruct (negb (mag_at c o =? 0) && (thr <=? mag_at c o)) eqn:Eo|]|].
  all: try (destruct dg as [d|]; [destruct Hdg as [Ld _]; destruct (negb (mag_at c d =? 0) && (thr <=? mag_at c d)) eqn:Ed|]).
  all: cbn [pr_ptr]; auto.
Qed.

(* C02: every multiplier |x_i| / |x_p| is at most 1/u when thresh = u * pivmax (exact product), 0 < u = un/ud *)
Theorem piv_multiplier_bound (un ud : Z) : pr_singular r = false -> 0 < un -> 0 < ud ->
  thr * ud = un * maxmag c -> un <= ud ->
  forall x, In x c -> un * snd x <= ud * mag_at c (pr_ptr r).
Proof.
  intros Hs Hun Hud Hthr Hle x Hx. pose proof (maxmag_nonneg c).
  assert (Ht : thr <= maxmag c) by nia.
  destruct (piv_threshold Hs Ht) as (_ & T & _).
  pose proof (maxmag_ge c Hn x Hx). nia.
Qed.

(* C02: without pivot reuse the diagonal entry is chosen whenever it is nonzero and meets the threshold *)
Theorem piv_prefers_diagonal d : usepr = false -> NoDup (map fst c) -> pr_singular r = false ->
  (d < length c)%nat -> row_at c d = diagind -> mag_at c d <> 0 -> thr <= mag_at c d ->
  pr_ptr r = d /\ pr_row r = diagind /\ pr_usepr r = false.
Proof.
  intros Hu ND Hs Ld Rd Md Td. assert (Hmax : maxmag c <> 0) by (intros E; apply piv_singular_iff in E; congruence).
  unfold r, pivotL in *. destruct piv_cases as (pm & pp & op & dg & Es & Hpm & _ & _ & Hdg & _ & _ & _). rewrite Es in *.
  assert (E0 : pm =? 0 = false) by (apply Z.eqb_neq; lia). rewrite E0 in *. subst usepr.
  destruct dg as [d'|].
  - destruct Hdg as [Ld' Rd']. assert (d' = d) by (apply (NoDup_row_at c); auto; congruence). subst d'.
    assert (E : negb (mag_at c d =? 0) && (thr <=? mag_at c d) = true).
    { apply andb_true_iff. split; [apply negb_true_iff; now apply Z.eqb_neq | now apply Z.leb_le]. }
    rewrite E. cbn. auto.
  - exfalso. apply (Hdg (nth d c (EMPTYZ, 0))); [now apply nth_In | exact Rd].
Qed.

(* C08: with pivot reuse the old pivot row is kept when it is a candidate, nonzero and meets the threshold *)
Theorem piv_usepr_kept o : usepr = true -> NoDup (map fst c) -> pr_singular r = false ->
  (o < length c)%nat -> row_at c o = oldrow -> mag_at c o <> 0 -> thr <= mag_at c o ->
  pr_ptr r = o /\ pr_row r = oldrow /\ pr_usepr r = true.
Proof.
  intros Hu ND Hs Lo Ro Mo To. assert (Hmax : maxmag c <> 0) by (intros E; apply piv_singular_iff in E; congruence).
  unfold r, pivotL in *. destruct piv_cases as (pm & pp & op & dg & Es & Hpm & _ & _ & _ & _ & _ & Hk). rewrite Es in *.
  assert (E0 : pm =? 0 = false) by (apply Z.eqb_neq; lia). rewrite E0 in *.
  destruct (Hk Hu) as (k & Hop & Lop & Rop).
  { exists (nth o c (EMPTYZ, 0)). split; [now apply nth_In | exact Ro]. }
  assert (k = o) by (apply (NoDup_row_at c); auto; congruence). subst k op. rewrite Hu in *.
  assert (E : negb (mag_at c o =? 0) && (thr <=? mag_at c o) = true).
  { apply andb_true_iff. split; [apply negb_true_iff; now apply Z.eqb_neq | now apply Z.leb_le]. }
  rewrite E. cbn. auto.
Qed.

(* ... and is given up otherwise: the old pivot is only kept if the tested candidate is nonzero and meets the threshold *)
Theorem piv_usepr_dropped : pr_usepr r = true ->
  usepr = true /\ pr_row r = oldrow /\ mag_at c (pr_ptr r) <> 0 /\ thr <= mag_at c (pr_ptr r).
Proof.
  unfold r, pivotL. destruct piv_cases as (pm & pp & op & dg & Es & _). rewrite Es.
  destruct (pm =? 0); [cbn; discriminate|].
  destruct usepr; [|destruct dg as [d|]; [destruct (negb _ && _)|]; cbn; discriminate].
  destruct op as [o|]; [|destruct dg as [d|]; [destruct (negb _ && _)|]; cbn; discriminate].
  destruct (negb (mag_at c o =? 0) && (thr <=? mag_at c o)) eqn:E.
  - cbn. intros _. apply andb_true_iff in E. destruct E as [E1 E2]. apply negb_true_iff in E1. apply Z.eqb_neq in E1.
    apply Z.leb_le in E2. auto.
  - destruct dg as [d|]; [destruct (negb _ && _)|]; cbn; discriminate.
Qed.

(* the requested pivot row must be a candidate: a structurally absent old pivot is never "kept" *)
Theorem piv_usepr_absent : usepr = true -> (forall x, In x c -> fst x <> oldrow) -> pr_usepr r = false.
Proof.
  intros Hu Habs. unfold r, pivotL. destruct piv_cases as (pm & pp & op & dg & Es & _ & _ & _ & _ & _ & Hnone & _). rewrite Es.
  destruct (pm =? 0); [reflexivity|]. rewrite (Hnone Hu Habs), Hu.
  destruct dg as [d|]; [destruct (negb _ && _)|]; reflexivity.
Qed.
End PIV.

(* C06 (after the repair of finding F2): in the singular case the recorded row is a candidate row, or the diagonal
   row when the column has no candidate at all -- no subscript is read outside the column's list *)
Theorem piv_singular_row c usepr oldrow diagind thr :
  let r := pivotL c usepr oldrow diagind thr in
  pr_singular r = true ->
  (c <> [] -> (pr_ptr r < length c)%nat /\ pr_row r = row_at c (pr_ptr r)) /\ (c = [] -> pr_row r = diagind).
Proof.
  cbn zeta. unfold pivotL.
  destruct (scan c 0 usepr oldrow diagind 0 0%nat None None) as [[[pm pp] op] dg] eqn:Es.
  pose proof Es as Es'. apply scan_spec in Es'; [|lia]. destruct Es' as (A & B & C & _).
  destruct (pm =? 0) eqn:E.
  - cbn [pr_singular pr_ptr pr_row]. intros _. apply Z.eqb_eq in E. rewrite (C ltac:(lia)). split.
    + intros Hne. destruct c as [|x t]; [congruence|]. cbn [length]. split; [lia|]. reflexivity.
    + intros ->. reflexivity.
  - intros H. exfalso. revert H.
    destruct usepr; [destruct op as [o|]; [destruct (negb _ && _)|]|]; destruct dg as [d|]; cbn; try discriminate;
      destruct (negb _ && _); cbn; discriminate.
Qed.

(* non-vacuity: a column where the diagonal is not the largest entry but meets the threshold u = 1/2 *)
Example piv_example :
  let c := [(7, 3); (2, 10); (5, 6)] in
  pivotL c false 0 5 5 = mkPR 2 5 false false /\ pivotL c false 0 5 7 = mkPR 1 2 false false /\
  pivotL c true 7 5 3 = mkPR 0 7 true false /\ pivotL c true 7 5 5 = mkPR 2 5 false false.
Proof. vm_compute. repeat split; reflexivity. Qed.
