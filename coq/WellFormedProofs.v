(* WellFormedProofs.v -- proofs about WellFormedModel.v (property C09) *)
Require Import List ZArith Bool Lia.
From SLU Require Import WellFormedModel.
Import ListNotations.
Local Open Scope Z_scope.

(* ------------------------------------------------------------------------------------------------ *)
(* reflection of the checker                                                                        *)
Lemma zrange_In : forall lo hi i, In i (zrange lo hi) <-> lo <= i < hi.
Proof.
  intros lo hi i. unfold zrange. rewrite in_map_iff. split.
  - intros (k & Hk & Hin). apply in_seq in Hin. lia.
  - intros H. exists (Z.to_nat (i - lo)). split. lia. apply in_seq. lia.
Qed.

Lemma ballZ_reflect : forall (P : Z -> Prop) (p : Z -> bool) m,
  (forall i, 0 <= i < m -> (p i = true <-> P i)) -> (ballZ m p = true <-> bounded P m).
Proof.
  intros P p m H. unfold ballZ, bounded. rewrite forallb_forall. split.
  - intros Hb i Hi. apply (H i Hi). apply Hb. apply zrange_In. lia.
  - intros HP i Hi. apply zrange_In in Hi. apply (H i ltac:(lia)). apply HP. lia.
Qed.

Lemma and_refl : forall a b A B, (a = true <-> A) -> (b = true <-> B) -> (a && b = true <-> A /\ B).
Proof. intros. rewrite andb_true_iff. tauto. Qed.
Lemma or_refl : forall a b A B, (a = true <-> A) -> (b = true <-> B) -> (a || b = true <-> A \/ B).
Proof. intros. rewrite orb_true_iff. tauto. Qed.

Lemma nodupb_spec : forall l, nodupb l = true <-> NoDup l.
Proof.
  induction l as [|h t IH]; simpl.
  - split; auto. constructor.
  - rewrite andb_true_iff, negb_true_iff, IH. split.
    + intros [Hn Ht]. constructor; auto. intros Hin.
      assert (existsb (Z.eqb h) t = true) by (apply existsb_exists; exists h; split; auto; apply Z.eqb_refl). congruence.
    + intros Hnd. inversion Hnd; subst. split; auto.
      destruct (existsb (Z.eqb h) t) eqn:E; auto. apply existsb_exists in E. destruct E as (x & Hx & Hex).
      apply Z.eqb_eq in Hex. subst. contradiction.
Qed.

Ltac refl :=
  repeat first
    [ apply and_refl | apply or_refl | apply Z.leb_le | apply Z.ltb_lt | apply Z.eqb_eq | apply nodupb_spec
    | (apply ballZ_reflect; intros) ].

Lemma disjointb_spec : forall b1 e1 b2 e2, disjointb b1 e1 b2 e2 = true <-> disjoint b1 e1 b2 e2.
Proof. intros. unfold disjointb, disjoint. refl. Qed.

Lemma is_permb_spec : forall n p, is_permb n p = true <-> is_perm n p.
Proof. intros. unfold is_permb, is_perm. refl. Qed.

Lemma andl_reflect : forall (bs : list bool) (Ps : list Prop),
  Forall2 (fun b P => b = true <-> P) bs Ps -> (forallb (fun b => b) bs = true <-> andl Ps).
Proof.
  induction 1 as [|b P bs Ps HbP HF IH]; simpl.
  - tauto.
  - rewrite andb_true_iff. destruct HbP as [H1 H2]. destruct IH as [H3 H4].
    split; intros [Ha Hb]; split; auto.
Qed.

(* the checker decides the predicate *)
Theorem check_wf_sound_complete : forall n L U perm_r perm_c,
  check_wf_LU n L U perm_r perm_c = true <-> wf_LU n L U perm_r perm_c.
Proof.
  intros. unfold check_wf_LU, wf_LU. apply andl_reflect. unfold check_clauses, wf_clauses.
  repeat (apply Forall2_cons); try apply Forall2_nil;
    try apply is_permb_spec;
    refl; try apply disjointb_spec.
Qed.

Lemma andl_In : forall Ps P, andl Ps -> In P Ps -> P.
Proof. induction Ps as [|Q t IH]; simpl; intros P H Hin; [contradiction|]. destruct H as [HQ Ht]. destruct Hin as [<-|Hin]; [exact HQ | apply IH; auto]. Qed.

(* ------------------------------------------------------------------------------------------------ *)
(* arrays                                                                                           *)
Lemma updn_length : forall v i a, length (updn v i a) = length v.
Proof. induction v as [|h t IH]; intros [|i] a; simpl; auto. Qed.
Lemma nth_updn_same : forall v i a d, (i < length v)%nat -> nth i (updn v i a) d = a.
Proof. induction v as [|h t IH]; intros [|i] a d Hi; simpl in *; try lia; auto. apply IH; lia. Qed.
Lemma nth_updn_other : forall v i j a d, i <> j -> nth j (updn v i a) d = nth j v d.
Proof. induction v as [|h t IH]; intros [|i] [|j] a d Hij; simpl; auto; try lia. Qed.

Lemma zlen_zupd : forall v i a, zlen (zupd v i a) = zlen v.
Proof. intros. unfold zupd, zlen. destruct (i <? 0); auto. rewrite updn_length. reflexivity. Qed.
Lemma zn_zupd_same : forall v i a, 0 <= i < zlen v -> zn (zupd v i a) i = a.
Proof.
  intros v i a Hi. unfold zn, zupd, zlen in *. destruct (Z.ltb_spec i 0); [lia|]. apply nth_updn_same. lia.
Qed.
Lemma zn_zupd_other : forall v i j a, i <> j -> zn (zupd v i a) j = zn v j.
Proof.
  intros v i j a Hij. unfold zn, zupd. destruct (Z.ltb_spec j 0); auto. destruct (Z.ltb_spec i 0); auto.
  apply nth_updn_other. lia.
Qed.

Lemma fold_left_map : forall (A B C : Type) (f : A -> B -> A) (g : C -> B) l a,
  fold_left f (map g l) a = fold_left (fun a c => f a (g c)) l a.
Proof. induction l as [|h t IH]; intros a; simpl; auto. Qed.

(* ------------------------------------------------------------------------------------------------ *)
(* fixupL                                                                                           *)

(* the copy loop of one supernode: lsub[o+k] = perm_r[lsub[b+k]], k = 0 .. e-b-1, reading ahead of writing (o <= b) *)
Lemma copy_loop : forall perm_r (m : nat) lsub b o,
  0 <= o <= b -> b + Z.of_nat m <= zlen lsub ->
  let res := fold_left (fun ln j => let '(ls, nl) := ln in (zupd ls nl (zn perm_r (zn ls j)), nl + 1))
                       (zrange b (b + Z.of_nat m)) (lsub, o) in
  snd res = o + Z.of_nat m /\ zlen (fst res) = zlen lsub /\
  forall p, zn (fst res) p = if (o <=? p) && (p <? o + Z.of_nat m) then zn perm_r (zn lsub (b + (p - o))) else zn lsub p.
Proof.
  intros perm_r. induction m as [|m IH]; intros lsub b o Ho Hlen; cbv zeta.
  - unfold zrange. replace (b + Z.of_nat 0 - b) with 0 by lia. simpl. split; [lia|]. split; auto.
    intros p. destruct (Z.leb_spec o p); destruct (Z.ltb_spec p (o + 0)); simpl; auto; lia.
  - unfold zrange in *. replace (b + Z.of_nat (S m) - b) with (Z.of_nat (S m)) by lia.
    rewrite Nat2Z.id. rewrite seq_S, map_app, fold_left_app. simpl.
    specialize (IH lsub b o Ho ltac:(lia)). cbv zeta in IH.
    replace (b + Z.of_nat m - b) with (Z.of_nat m) in IH by lia. rewrite Nat2Z.id in IH.
    destruct (fold_left _ (map (fun k => b + Z.of_nat k) (seq 0 m)) (lsub, o)) as [ls nl]. simpl in *.
    destruct IH as (Hnl & Hl & Hp). subst nl.
    split; [lia|]. split. { rewrite zlen_zupd; auto. }
    intros p. destruct (Z.eq_dec p (o + Z.of_nat m)) as [->|Hne].
    + rewrite zn_zupd_same by lia. rewrite (Hp (b + Z.of_nat m)).
      destruct (Z.ltb_spec (b + Z.of_nat m) (o + Z.of_nat m)); [lia|]. rewrite andb_false_r.
      destruct (Z.leb_spec o (o + Z.of_nat m)); [|lia]. destruct (Z.ltb_spec (o + Z.of_nat m) (o + Z.pos (Pos.of_succ_nat m))); [|lia].
      simpl. f_equal. f_equal. lia.
    + rewrite zn_zupd_other by lia. rewrite Hp.
      destruct (Z.leb_spec o p); simpl; auto.
      destruct (Z.ltb_spec p (o + Z.of_nat m)); destruct (Z.ltb_spec p (o + Z.pos (Pos.of_succ_nat m))); auto; lia.
Qed.

Section FixupL.
Variables (perm_r lsub0 xl0 xe0 : list Z).

Definition rlen (f : Z) : Z := zn xe0 f - zn xl0 f.

(* the subscript regions of the supernodes in fsl are stored in this order, disjoint, inside lsub, from position lo on *)
Fixpoint ordered (lo : Z) (fsl : list Z) : Prop :=
  match fsl with
  | [] => True
  | f :: rest => lo <= zn xl0 f /\ zn xl0 f <= zn xe0 f /\ zn xe0 f <= zlen lsub0 /\ ordered (zn xe0 f) rest
  end.

(* what fixupL must deliver: supernode f owns [o, o+len), holding its original list mapped through perm_r *)
Fixpoint fix_spec (fsl : list Z) (o : Z) (lsub' xl' xe' : list Z) : Prop :=
  match fsl with
  | [] => True
  | f :: rest =>
      zn xl' f = o /\ zn xe' f = o + rlen f /\
      (forall t, 0 <= t < rlen f -> zn lsub' (o + t) = zn perm_r (zn lsub0 (zn xl0 f + t))) /\
      fix_spec rest (o + rlen f) lsub' xl' xe'
  end.

Definition total (fsl : list Z) : Z := fold_left (fun a f => a + rlen f) fsl 0.

Lemma ordered_rlen_nonneg : forall fsl lo, ordered lo fsl -> forall g, In g fsl -> 0 <= rlen g.
Proof.
  induction fsl as [|f r IH]; intros lo H g Hg; simpl in *. contradiction.
  destruct H as (A1 & A2 & A3 & A4). destruct Hg as [<-|Hg]. unfold rlen. lia. eapply IH; eauto.
Qed.

Lemma fix_spec_frame : forall fsl o l1 x1 e1 l2 x2 e2,
  (forall p, o <= p -> zn l2 p = zn l1 p) ->
  (forall f, In f fsl -> zn x2 f = zn x1 f /\ zn e2 f = zn e1 f) ->
  (forall f, In f fsl -> 0 <= rlen f) ->
  fix_spec fsl o l1 x1 e1 -> fix_spec fsl o l2 x2 e2.
Proof.
  induction fsl as [|f rest IH]; intros o l1 x1 e1 l2 x2 e2 Hl Hx Hnn H; simpl in *; auto.
  destruct H as (H1 & H2 & H3 & H4). destruct (Hx f (or_introl eq_refl)) as [E1 E2].
  split; [congruence|]. split; [congruence|]. split.
  - intros t Ht. rewrite Hl by lia. auto.
  - apply (IH _ l1 x1 e1); auto. intros p Hp. apply Hl. specialize (Hnn f (or_introl eq_refl)). lia.
Qed.

Lemma fixupL_loop_correct : forall fsl lsub xl xe nextl lo,
  NoDup fsl ->
  (forall f, In f fsl -> 0 <= f < zlen xl /\ f < zlen xe) ->
  ordered lo fsl ->
  0 <= nextl <= lo ->
  zlen lsub = zlen lsub0 ->
  (forall p, lo <= p -> zn lsub p = zn lsub0 p) ->
  (forall f, In f fsl -> zn xl f = zn xl0 f /\ zn xe f = zn xe0 f) ->
  let '(lsub', xl', xe', nextl') := fold_left (fixupL_sn perm_r) fsl (lsub, xl, xe, nextl) in
  nextl' = fold_left (fun a f => a + rlen f) fsl nextl /\
  zlen lsub' = zlen lsub /\ zlen xl' = zlen xl /\ zlen xe' = zlen xe /\
  (forall p, p < nextl -> zn lsub' p = zn lsub p) /\
  (forall p, nextl' <= p -> zn lsub' p = zn lsub p) /\
  (forall g, ~ In g fsl -> zn xl' g = zn xl g /\ zn xe' g = zn xe g) /\
  fix_spec fsl nextl lsub' xl' xe'.
Proof.
  induction fsl as [|f rest IH]; intros lsub xl xe nextl lo Hnd Hin Hord Hnl Hlen Hun Hx.
  - simpl. repeat split; auto.
  - change (fold_left (fixupL_sn perm_r) (f :: rest) (lsub, xl, xe, nextl))
      with (fold_left (fixupL_sn perm_r) rest (fixupL_sn perm_r (lsub, xl, xe, nextl) f)).
    inversion Hnd as [|? ? Hnotin Hnd']; subst.
    simpl in Hord. destruct Hord as (O1 & O2 & O3 & O4).
    destruct (Hx f (or_introl eq_refl)) as [Ex Ee]. destruct (Hin f (or_introl eq_refl)) as [Hf1 Hf2].
    (* one supernode *)
    unfold fixupL_sn at 2. cbv beta iota zeta. rewrite Ex, Ee.
    set (m := Z.to_nat (zn xe0 f - zn xl0 f)).
    pose proof (copy_loop perm_r m lsub (zn xl0 f) nextl ltac:(lia) ltac:(unfold m; lia)) as Hc. cbv zeta in Hc.
    replace (zn xl0 f + Z.of_nat m) with (zn xe0 f) in Hc by (unfold m; lia).
    destruct (fold_left _ (zrange (zn xl0 f) (zn xe0 f)) (lsub, nextl)) as [ls1 nl1]. simpl in Hc.
    destruct Hc as (Hnl1 & Hl1 & Hp1). cbv beta iota zeta.
    assert (Hm : Z.of_nat m = rlen f) by (unfold m, rlen; lia).
    (* the rest of the loop *)
    specialize (IH ls1 (zupd xl f nextl) (zupd xe f nl1) nl1 (zn xe0 f) Hnd').
    assert (Hstep : let '(lsub', xl', xe', nextl') := fold_left (fixupL_sn perm_r) rest (ls1, zupd xl f nextl, zupd xe f nl1, nl1) in
              nextl' = fold_left (fun a f => a + rlen f) rest nl1 /\
              zlen lsub' = zlen ls1 /\ zlen xl' = zlen (zupd xl f nextl) /\ zlen xe' = zlen (zupd xe f nl1) /\
              (forall p, p < nl1 -> zn lsub' p = zn ls1 p) /\
              (forall p, nextl' <= p -> zn lsub' p = zn ls1 p) /\
              (forall g, ~ In g rest -> zn xl' g = zn (zupd xl f nextl) g /\ zn xe' g = zn (zupd xe f nl1) g) /\
              fix_spec rest nl1 lsub' xl' xe').
    { apply IH.
      - intros g Hg. rewrite !zlen_zupd. apply Hin. right; auto.
      - exact O4.
      - lia.
      - congruence.
      - intros p Hp. rewrite Hp1. destruct (Z.ltb_spec p (nextl + Z.of_nat m)); [lia|]. rewrite andb_false_r. apply Hun. lia.
      - intros g Hg. assert (g <> f) by (intros ->; contradiction).
        rewrite !zn_zupd_other by auto. apply Hx. right; auto. }
    destruct (fold_left (fixupL_sn perm_r) rest (ls1, zupd xl f nextl, zupd xe f nl1, nl1)) as [[[lsF xlF] xeF] nlF].
    destruct Hstep as (S1 & S2 & S3 & S4 & S5 & S6 & S7 & S8).
    assert (Hmono : forall l a, (forall g, In g l -> 0 <= rlen g) -> a <= fold_left (fun a f => a + rlen f) l a).
    { induction l as [|g l IHl]; intros a Hg; simpl. lia.
      eapply Z.le_trans; [|apply IHl]. specialize (Hg g (or_introl eq_refl)). lia. intros; apply Hg; right; auto. }
    assert (Hrest_nn : forall g, In g rest -> 0 <= rlen g) by (apply (ordered_rlen_nonneg rest (zn xe0 f)); exact O4).
    assert (Hnl1F : nl1 <= nlF) by (rewrite S1; apply Hmono; auto).
    rewrite !zlen_zupd in *.
    split. { rewrite S1. simpl. rewrite Hnl1, Hm. reflexivity. }
    split; [congruence|]. split; [congruence|]. split; [congruence|].
    split. { intros p Hp. rewrite S5 by lia. rewrite Hp1. destruct (Z.leb_spec nextl p); [lia|]. reflexivity. }
    split. { intros p Hp. rewrite S6 by lia. rewrite Hp1. destruct (Z.ltb_spec p (nextl + Z.of_nat m)); [lia|]. rewrite andb_false_r. reflexivity. }
    split. { intros g Hg. destruct (S7 g) as [G1 G2]. { intros Hr. apply Hg. right; auto. }
             assert (g <> f) by (intros ->; apply Hg; left; auto).
             rewrite G1, G2, !zn_zupd_other by auto. auto. }
    simpl. destruct (S7 f Hnotin) as [F1 F2].
    split. { rewrite F1. apply zn_zupd_same. lia. }
    split. { rewrite F2. rewrite zn_zupd_same by lia. lia. }
    split. { intros t Ht. rewrite S5 by lia. rewrite Hp1.
             destruct (Z.leb_spec nextl (nextl + t)); [|lia]. destruct (Z.ltb_spec (nextl + t) (nextl + Z.of_nat m)); [|lia].
             simpl. f_equal. rewrite <- (Hun (zn xl0 f + t)) by lia. f_equal. lia. }
    rewrite <- Hm, <- Hnl1. exact S8.
Qed.

(* fixupL_correct_if_ordered: if the per-supernode subscript regions are disjoint and stored in supernode-number order, the
   in-place compaction returns, for every supernode, exactly its list mapped through perm_r, in consecutive (hence disjoint)
   extents starting at 0, and leaves the number of used entries in nextl *)
Theorem fixupL_loop_correct_if_ordered : forall fsl,
  NoDup fsl ->
  (forall f, In f fsl -> 0 <= f < zlen xl0 /\ f < zlen xe0) ->
  ordered 0 fsl ->
  let '(lsub', xl', xe', nextl') := fold_left (fixupL_sn perm_r) fsl (lsub0, xl0, xe0, 0) in
  nextl' = total fsl /\ fix_spec fsl 0 lsub' xl' xe' /\
  (forall g, ~ In g fsl -> zn xl' g = zn xl0 g /\ zn xe' g = zn xe0 g) /\
  (forall p, nextl' <= p -> zn lsub' p = zn lsub0 p) /\
  zlen lsub' = zlen lsub0 /\ zlen xl' = zlen xl0 /\ zlen xe' = zlen xe0.
Proof.
  intros fsl Hnd Hin Hord.
  pose proof (fixupL_loop_correct fsl lsub0 xl0 xe0 0 0 Hnd Hin Hord ltac:(lia) eq_refl ltac:(auto) ltac:(auto)) as H.
  destruct (fold_left (fixupL_sn perm_r) fsl (lsub0, xl0, xe0, 0)) as [[[lsF xlF] xeF] nlF].
  destruct H as (H1 & L1 & L2 & L3 & _ & H6 & H7 & H8). unfold total. repeat split; auto; apply H7; auto.
Qed.
End FixupL.

(* the compaction in supernode-number order (the code before the repair of F1) is correct under the ordering hypothesis *)
Theorem fixupL_correct_if_ordered : forall n perm_r G,
  1 < n ->
  let nsuper := zn (g_supno G) n in
  let fsl := map (zn (g_xsup G)) (zrange 0 (nsuper + 1)) in
  NoDup fsl ->
  (forall f, In f fsl -> 0 <= f < zlen (g_xlsub G) /\ f < zlen (g_xlsub_end G)) ->
  ordered (g_lsub G) (g_xlsub G) (g_xlsub_end G) 0 fsl ->
  ~ In n fsl -> 0 <= n < zlen (g_xlsub G) ->
  let '(lsub', xl', xe') := fixupL_number_order n perm_r G in
  fix_spec perm_r (g_lsub G) (g_xlsub G) (g_xlsub_end G) fsl 0 lsub' xl' xe' /\
  zn xl' n = total (g_xlsub G) (g_xlsub_end G) fsl.
Proof.
  intros n perm_r G Hn nsuper fsl Hnd Hin Hord Hnn Hnr. unfold fixupL_number_order.
  destruct (Z.leb_spec n 1) as [Hle|_]; [lia|]. fold nsuper.
  rewrite <- (fold_left_map _ _ _ (fixupL_sn perm_r) (zn (g_xsup G))). fold fsl.
  pose proof (fixupL_loop_correct_if_ordered perm_r (g_lsub G) (g_xlsub G) (g_xlsub_end G) fsl Hnd Hin Hord) as H.
  destruct (fold_left (fixupL_sn perm_r) fsl (g_lsub G, g_xlsub G, g_xlsub_end G, 0)) as [[[lsF xlF] xeF] nlF].
  destruct H as (H1 & H2 & H3 & H4 & L1 & L2 & L3). split.
  - apply (fix_spec_frame perm_r (g_lsub G) (g_xlsub G) (g_xlsub_end G) fsl 0 lsF xlF xeF); auto.
    + intros f Hf. split; auto. apply zn_zupd_other. intros ->. contradiction.
    + apply (ordered_rlen_nonneg (g_lsub G) (g_xlsub G) (g_xlsub_end G) fsl 0). exact Hord.
  - rewrite zn_zupd_same by lia. exact H1.
Qed.

(* ------------------------------------------------------------------------------------------------ *)
(* ------------------------------------------------------------------------------------------------ *)
(* the insertion sort delivers the supernodes in storage order                                       *)
Require Import Sorting.Permutation Sorting.Sorted.

Section Sort.
Variable key : Z -> Z.
Definition desc (a b : Z) : Prop := key b <= key a.
Definition asc (a b : Z) : Prop := key a <= key b.

Lemma ins_rev_perm : forall k r, Permutation (k :: r) (ins_rev key k r).
Proof.
  induction r as [|h t IH]; simpl; auto. destruct (key k <? key h); auto.
  eapply perm_trans; [apply perm_swap|]. apply perm_skip. exact IH.
Qed.

Lemma ins_rev_sorted : forall k r, StronglySorted desc r -> StronglySorted desc (ins_rev key k r).
Proof.
  induction r as [|h t IH]; intros Hs; simpl.
  - constructor; constructor.
  - inversion Hs as [|? ? Ht Hall]; subst. destruct (Z.ltb_spec (key k) (key h)).
    + constructor; auto. apply Forall_forall. intros x Hx.
      apply (Permutation_in _ (Permutation_sym (ins_rev_perm k t))) in Hx. destruct Hx as [<-|Hx].
      * unfold desc. lia.
      * rewrite Forall_forall in Hall. auto.
    + constructor; auto. constructor.
      * unfold desc. lia.
      * rewrite Forall_forall in *. intros x Hx. specialize (Hall x Hx). unfold desc in *. lia.
Qed.

Lemma StronglySorted_rev_desc : forall r, StronglySorted desc r -> StronglySorted asc (rev r).
Proof.
  induction r as [|h t IH]; intros Hs; simpl. constructor.
  inversion Hs as [|? ? Ht Hall]; subst. specialize (IH Ht).
  assert (Happ : forall l1 l2, StronglySorted asc l1 -> StronglySorted asc l2 ->
                   (forall a b, In a l1 -> In b l2 -> asc a b) -> StronglySorted asc (l1 ++ l2)).
  { induction l1 as [|a l1 IH1]; intros l2 H1 H2 H12; simpl; auto.
    inversion H1 as [|? ? H1t H1all]; subst. constructor.
    - apply IH1; auto. intros; apply H12; simpl; auto.
    - apply Forall_forall. intros x Hx. apply in_app_or in Hx. destruct Hx as [Hx|Hx].
      + rewrite Forall_forall in H1all. auto.
      + apply H12; simpl; auto. }
  apply Happ; auto.
  - constructor; constructor.
  - intros a b Ha Hb. destruct Hb as [<-|[]]. apply in_rev in Ha. rewrite Forall_forall in Hall. apply (Hall a Ha).
Qed.

Lemma storage_order_spec : forall nsuper,
  Permutation (zrange 0 (nsuper + 1)) (storage_order key nsuper) /\ StronglySorted asc (storage_order key nsuper).
Proof.
  intros nsuper. unfold storage_order.
  assert (H : forall l r, StronglySorted desc r ->
             Permutation (rev l ++ r) (fold_left (fun r k => ins_rev key k r) l r) /\
             StronglySorted desc (fold_left (fun r k => ins_rev key k r) l r)).
  { induction l as [|a l IH]; intros r Hr; simpl; auto.
    destruct (IH (ins_rev key a r) (ins_rev_sorted a r Hr)) as [P S]. split; auto.
    eapply perm_trans; [|exact P]. rewrite <- app_assoc. apply Permutation_app_head. simpl. apply ins_rev_perm. }
  destruct (H (zrange 0 (nsuper + 1)) [] ltac:(constructor)) as [P S]. rewrite app_nil_r in P. split.
  - eapply perm_trans; [apply Permutation_rev|]. eapply perm_trans; [exact P|]. apply Permutation_rev.
  - apply StronglySorted_rev_desc. exact S.
Qed.
End Sort.

Lemma NoDup_map_inj_in : forall (f : Z -> Z) l, (forall a b, In a l -> In b l -> f a = f b -> a = b) -> NoDup l -> NoDup (map f l).
Proof.
  induction l as [|a l IH]; intros Hinj Hnd; simpl. constructor.
  inversion Hnd; subst. constructor.
  - intros Hin. apply in_map_iff in Hin. destruct Hin as (b & Hb & Hbl).
    assert (b = a) by (apply Hinj; simpl; auto). subst. contradiction.
  - apply IH; auto. intros x y Hx Hy. apply Hinj; simpl; auto.
Qed.

Lemma StronglySorted_map : forall (f : Z -> Z) (R : Z -> Z -> Prop) l,
  StronglySorted (fun a b => R (f a) (f b)) l -> StronglySorted R (map f l).
Proof.
  induction l as [|a l IH]; intros H; simpl. constructor.
  inversion H as [|? ? Hs Hall]; subst. constructor; auto.
  rewrite Forall_forall in *. intros y Hy. apply in_map_iff in Hy. destruct Hy as (x & <- & Hx). auto.
Qed.

(* sorted by start position + pairwise disjoint + non-empty regions = stored in this order *)
Lemma sorted_disjoint_ordered : forall lsub0 xl0 xe0 fsl lo,
  StronglySorted (fun a b => zn xl0 a <= zn xl0 b) fsl ->
  (forall f, In f fsl -> lo <= zn xl0 f /\ zn xl0 f < zn xe0 f /\ zn xe0 f <= zlen lsub0) ->
  (forall f g, In f fsl -> In g fsl -> f = g \/ disjoint (zn xl0 f) (zn xe0 f) (zn xl0 g) (zn xe0 g)) ->
  NoDup fsl ->
  ordered lsub0 xl0 xe0 lo fsl.
Proof.
  intros lsub0 xl0 xe0. induction fsl as [|f rest IH]; intros lo Hs Hr Hd Hnd; simpl; auto.
  inversion Hs as [|? ? Hst Hall]; subst. inversion Hnd as [|? ? Hnotin Hnd']; subst.
  destruct (Hr f (or_introl eq_refl)) as (R1 & R2 & R3).
  split; [lia|]. split; [lia|]. split; [lia|].
  apply IH; auto.
  - intros g Hg. destruct (Hr g (or_intror Hg)) as (G1 & G2 & G3). split; [|auto].
    rewrite Forall_forall in Hall. specialize (Hall g Hg). simpl in Hall.
    destruct (Hd f g (or_introl eq_refl) (or_intror Hg)) as [->|D]; [contradiction|].
    unfold disjoint in D. lia.
  - intros a b Ha Hb. apply Hd; right; auto.
Qed.

(* fixupL_correct (no ordering hypothesis): the subscript regions only have to be pairwise disjoint, non-empty and inside lsub;
   every supernode then owns exactly its original list mapped through perm_r, in consecutive extents taken in storage order *)
Theorem fixupL_correct : forall n perm_r G,
  1 < n ->
  let nsuper := zn (g_supno G) n in
  let xs := zn (g_xsup G) in
  let fsl := map xs (storage_order (fun k => zn (g_xlsub G) (xs k)) nsuper) in
  (forall s t, 0 <= s <= nsuper -> 0 <= t <= nsuper -> xs s = xs t -> s = t) ->
  (forall s, 0 <= s <= nsuper -> 0 <= xs s < zlen (g_xlsub G) /\ xs s < zlen (g_xlsub_end G) /\ xs s <> n) ->
  (forall s, 0 <= s <= nsuper -> 0 <= zn (g_xlsub G) (xs s) /\ zn (g_xlsub G) (xs s) < zn (g_xlsub_end G) (xs s)
                                 /\ zn (g_xlsub_end G) (xs s) <= zlen (g_lsub G)) ->
  (forall s t, 0 <= s <= nsuper -> 0 <= t <= nsuper -> s = t \/
     disjoint (zn (g_xlsub G) (xs s)) (zn (g_xlsub_end G) (xs s)) (zn (g_xlsub G) (xs t)) (zn (g_xlsub_end G) (xs t))) ->
  0 <= n < zlen (g_xlsub G) ->
  let '(lsub', xl', xe') := fixupL n perm_r G in
  fix_spec perm_r (g_lsub G) (g_xlsub G) (g_xlsub_end G) fsl 0 lsub' xl' xe' /\
  zn xl' n = total (g_xlsub G) (g_xlsub_end G) fsl /\
  (forall s, 0 <= s <= nsuper -> In (xs s) fsl).
Proof.
  intros n perm_r G Hn nsuper xs fsl Hinj Hidx Hreg Hdis Hnr.
  destruct (storage_order_spec (fun k => zn (g_xlsub G) (xs k)) nsuper) as [Hperm Hsort].
  set (ord := storage_order (fun k => zn (g_xlsub G) (xs k)) nsuper) in *.
  assert (Hord_in : forall k, In k ord <-> 0 <= k <= nsuper).
  { intros k. split; intros H.
    - apply (Permutation_in _ (Permutation_sym Hperm)) in H. apply zrange_In in H. lia.
    - apply (Permutation_in _ Hperm). apply zrange_In. lia. }
  assert (Hnd_ord : NoDup ord).
  { apply (Permutation_NoDup Hperm). unfold zrange. apply FinFun.Injective_map_NoDup. intros a b; lia. apply seq_NoDup. }
  assert (Hfsl_in : forall f, In f fsl <-> exists s, 0 <= s <= nsuper /\ f = xs s).
  { intros f. unfold fsl. rewrite in_map_iff. split.
    - intros (k & <- & Hk). exists k. split; auto. apply Hord_in; auto.
    - intros (k & Hk & ->). exists k. split; auto. apply Hord_in; auto. }
  assert (Hnd : NoDup fsl).
  { unfold fsl. apply NoDup_map_inj_in; auto. intros a b Ha Hb. apply Hinj; apply Hord_in; auto. }
  assert (Hin : forall f, In f fsl -> 0 <= f < zlen (g_xlsub G) /\ f < zlen (g_xlsub_end G)).
  { intros f Hf. apply Hfsl_in in Hf. destruct Hf as (k & Hk & ->). destruct (Hidx k Hk) as (A & B & C). auto. }
  assert (Hnn : ~ In n fsl).
  { intros Hf. apply Hfsl_in in Hf. destruct Hf as (k & Hk & E). destruct (Hidx k Hk) as (A & B & C). congruence. }
  assert (Hord : ordered (g_lsub G) (g_xlsub G) (g_xlsub_end G) 0 fsl).
  { apply sorted_disjoint_ordered; auto.
    - unfold fsl. apply StronglySorted_map. exact Hsort.
    - intros f Hf. apply Hfsl_in in Hf. destruct Hf as (k & Hk & ->). apply Hreg; auto.
    - intros f g Hf Hg. apply Hfsl_in in Hf, Hg. destruct Hf as (k & Hk & ->). destruct Hg as (k' & Hk' & ->).
      destruct (Hdis k k' Hk Hk') as [->|D]; auto. }
  unfold fixupL. destruct (Z.leb_spec n 1) as [Hle|_]; [lia|]. fold nsuper. fold xs. fold ord.
  change (fun (st : list Z * list Z * list Z * Z) (i : Z) => fixupL_sn perm_r st (zn (g_xsup G) i))
    with (fun (st : list Z * list Z * list Z * Z) (i : Z) => fixupL_sn perm_r st (xs i)).
  rewrite <- (fold_left_map _ _ _ (fixupL_sn perm_r) xs). fold fsl.
  pose proof (fixupL_loop_correct_if_ordered perm_r (g_lsub G) (g_xlsub G) (g_xlsub_end G) fsl Hnd Hin Hord) as H.
  destruct (fold_left (fixupL_sn perm_r) fsl (g_lsub G, g_xlsub G, g_xlsub_end G, 0)) as [[[lsF xlF] xeF] nlF].
  destruct H as (H1 & H2 & H3 & H4 & L1 & L2 & L3). split; [|split].
  - apply (fix_spec_frame perm_r (g_lsub G) (g_xlsub G) (g_xlsub_end G) fsl 0 lsF xlF xeF); auto.
    + intros f Hf. split; auto. apply zn_zupd_other. intros ->. contradiction.
    + apply (ordered_rlen_nonneg (g_lsub G) (g_xlsub G) (g_xlsub_end G) fsl 0). exact Hord.
  - rewrite zn_zupd_same by lia. exact H1.
  - intros k Hk. apply Hfsl_in. exists k. auto.
Qed.

(* F1: when the storage order of the subscript lists differs from the supernode-number order (the numbers come from
   NewNsuper under NSUPER_LOCK, the storage from Glu_alloc(LSUB) under LLOCK) a compaction in NUMBER order -- the code before
   the repair -- overwrites a list that has not been read yet.  Three single-column supernodes 0,1,2 whose lists are stored
   in the order 1,0,2:                                                                                                  *)
Definition f1_G : glu :=
  mkGlu [0; 1; 2] [1; 2; 3] [0; 1; 2; 2]
        [1; 2;  0; 2;  2; 0]         (* lsub: list of supernode 1 = {1,2} at 0..1, of supernode 0 = {0,2} at 2..3, of supernode 2 at 4..5 *)
        [2; 0; 4; 0] [4; 2; 6] 0.
Definition f1_perm : list Z := [0; 1; 2].

Theorem fixupL_number_order_refuted :
  exists n perm_r G,
    (* the three regions are disjoint and inside lsub -- only their order differs from the supernode numbers *)
    (forall s t, In s [0; 1; 2] -> In t [0; 1; 2] -> s = t \/
       disjoint (zn (g_xlsub G) s) (zn (g_xlsub_end G) s) (zn (g_xlsub G) t) (zn (g_xlsub_end G) t)) /\
    (let '(lsub', xl', xe') := fixupL_number_order n perm_r G in
     (* supernode 1's list after the number-order compaction is not its original list mapped through perm_r *)
     exists t, 0 <= t < zn (g_xlsub_end G) 1 - zn (g_xlsub G) 1 /\
               zn lsub' (zn xl' 1 + t) <> zn perm_r (zn (g_lsub G) (zn (g_xlsub G) 1 + t))) /\
    (* while the storage-order compaction that is in the tree keeps every list *)
    (let '(lsub', xl', xe') := fixupL n perm_r G in
     forall s t, In s [0; 1; 2] -> In t [0; 1] ->
                 zn lsub' (zn xl' s + t) = zn perm_r (zn (g_lsub G) (zn (g_xlsub G) s + t))).
Proof.
  exists 3, f1_perm, f1_G. split; [|split].
  - intros s t Hs Ht. simpl in Hs, Ht.
    destruct Hs as [<-|[<-|[<-|[]]]]; destruct Ht as [<-|[<-|[<-|[]]]]; auto; right; vm_compute; intuition congruence.
  - vm_compute. exists 0. split; [split; congruence|]. congruence.
  - intros s t Hs Ht. simpl in Hs, Ht.
    destruct Hs as [<-|[<-|[<-|[]]]]; destruct Ht as [<-|[<-|[]]]; vm_compute; reflexivity.
Qed.

(* ------------------------------------------------------------------------------------------------ *)
(* consequences of wf_LU                                                                             *)
Section Consequences.
Variables (n : Z) (L : scpZ) (U : ncpZ) (perm_r perm_c : list Z).
Hypothesis WF : wf_LU n L U perm_r perm_c.

Tactic Notation "clause" integer(k) := let H := fresh in pose proof WF as H; unfold wf_LU, wf_clauses in H; simpl andl in H; do k (destruct H as [_ H]); destruct H as [H _]; exact H.

Lemma wf_ranges : bounded (fun s => (0 <= fst_col L s /\ fst_col L s < end_col L s) /\ end_col L s <= n) (ns L).
Proof. clause 9. Qed.
Lemma wf_c2s : bounded (fun j => (0 <= sup_of L j /\ sup_of L j < ns L) /\ (fst_col L (sup_of L j) <= j /\ j < end_col L (sup_of L j))) n.
Proof. clause 10. Qed.
Lemma wf_s2c : bounded (fun s => bounded (fun c => sup_of L (fst_col L s + c) = s) (width L s)) (ns L).
Proof. clause 11. Qed.

(* the supernodes partition the columns: every column lies in exactly one supernode range *)
Theorem supernodes_partition : forall j, 0 <= j < n ->
  exists s, 0 <= s < ns L /\ fst_col L s <= j < end_col L s /\
            forall t, 0 <= t < ns L -> fst_col L t <= j < end_col L t -> t = s.
Proof.
  intros j Hj. destruct (wf_c2s j Hj) as [Hs Hr]. exists (sup_of L j). split; [lia|]. split; [lia|].
  intros t Ht Hjt. pose proof (wf_s2c t Ht (j - fst_col L t) ltac:(unfold width; lia)) as H. simpl in H.
  replace (fst_col L t + (j - fst_col L t)) with j in H by lia. auto.
Qed.
End Consequences.

(* a permutation array in the sense of wf_LU is onto 0..n-1 *)
Theorem is_perm_onto : forall n p, is_perm n p -> forall k, 0 <= k < n -> In k p.
Proof.
  intros n p (Hlen & Hrange & Hnd) k Hk.
  assert (Hincl : incl p (zrange 0 n)).
  { intros x Hx. apply zrange_In. apply In_nth with (d := OOB) in Hx. destruct Hx as (i & Hi & Hx).
    specialize (Hrange (Z.of_nat i) ltac:(unfold zlen in Hlen; lia)). simpl in Hrange.
    unfold zn in Hrange. destruct (Z.ltb_spec (Z.of_nat i) 0); [lia|]. rewrite Nat2Z.id, Hx in Hrange. lia. }
  assert (Hlen2 : length (zrange 0 n) = length p).
  { unfold zrange. rewrite map_length, seq_length. unfold zlen in Hlen. lia. }
  assert (Hincl2 : incl (zrange 0 n) p).
  { apply NoDup_length_incl; auto. lia. }
  apply Hincl2. apply zrange_In. lia.
Qed.

(* ------------------------------------------------------------------------------------------------ *)
(* non-vacuity: the factor structure of a 3x3 matrix with supernodes {0,1} and {2} is well formed    *)
Definition exL : scpZ :=
  mkScpZ 6 1 7 [0; 3; 6] [3; 6; 7] [0; 1; 2; 2] [0; 0; 3] [3; 0; 4] [0; 0; 1; 1] [0; 2] [2; 3].
Definition exU : ncpZ := mkNcpZ 6 [0; 1] [0; 0; 0] [0; 0; 2].
Example ex_wf : wf_LU 3 exL exU [1; 0; 2] [2; 0; 1].
Proof. apply check_wf_sound_complete. vm_compute. reflexivity. Qed.
(* and the checker rejects structures violating single clauses *)
Example ex_not_wf_perm : ~ wf_LU 3 exL exU [1; 1; 2] [2; 0; 1].
Proof. intros H. apply check_wf_sound_complete in H. vm_compute in H. discriminate. Qed.
Example ex_not_wf_rows : ~ wf_LU 3 (mkScpZ 6 1 7 [0; 3; 6] [3; 6; 7] [0; 2; 1; 2] [0; 0; 3] [3; 0; 4] [0; 0; 1; 1] [0; 2] [2; 3]) exU [1; 0; 2] [2; 0; 1].
Proof. intros H. apply check_wf_sound_complete in H. vm_compute in H. discriminate. Qed.

(* the ordered hypothesis of fixupL_correct_if_ordered is met by a concrete image and the result is as specified *)
Definition ok_G : glu :=
  mkGlu [0; 1; 2] [1; 2; 3] [0; 1; 2; 2] [0; 2; 9;  1; 2;  2; 9] [0; 3; 5; 0] [2; 5; 6] 0.
Example ex_ordered : ordered (g_lsub ok_G) (g_xlsub ok_G) (g_xlsub_end ok_G) 0 (map (zn (g_xsup ok_G)) (zrange 0 3)).
Proof. vm_compute. repeat split; congruence. Qed.
Example ex_fixupL : fixupL 3 [2; 0; 1] ok_G = ([2; 1; 0; 1; 1; 2; 9], [0; 2; 4; 5], [2; 4; 5]).
Proof. vm_compute. reflexivity. Qed.

Lemma wf_LU_nonvacuous :
  wf_LU 3 exL exU [1; 0; 2] [2; 0; 1] /\ ~ wf_LU 3 exL exU [1; 1; 2] [2; 0; 1] /\
  ordered (g_lsub ok_G) (g_xlsub ok_G) (g_xlsub_end ok_G) 0 (map (zn (g_xsup ok_G)) (zrange 0 3)) /\
  fixupL 3 [2; 0; 1] ok_G = ([2; 1; 0; 1; 1; 2; 9], [0; 2; 4; 5], [2; 4; 5]).
Proof. split. exact ex_wf. split. exact ex_not_wf_perm. split. exact ex_ordered. exact ex_fixupL. Qed.
