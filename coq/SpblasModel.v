(* SpblasModel.v -- executable model of the sparse BLAS kernels and format utilities of SuperLU_MT
   (property C19).  Definitions only; proofs are in SpblasProofs.v.

   Anchors (d precision; the s/c/z twins are generated from the same template):
     SRC/dsp_blas2.c   sp_dtrsv, sp_dgemv          SRC/dsp_blas3.c  sp_dgemm
     SRC/dmyblas2.c    dlsolve, dusolve, dmatvec   SRC/dlangs.c     dlangs
     SRC/pdutil.c      dCompRow_to_CompCol, dCopy_CompCol_Matrix, dCreate_CompCol_Permuted,
                       dCreate_SuperNode_Permuted
     CBLAS/dtrsv.c     the two transposed, unit-stride cases sp_dtrsv calls in every build flavour

   The kernels are written ONCE over an abstract arithmetic [arith] (a Section variable) and are
   instantiated below with (i) Coq's primitive binary64 floats -- evaluated by vm_compute and compared
   bit for bit with the C code -- and (ii) Qc (canonical rationals, Leibniz equality) -- extracted, and
   the carrier of the non-vacuity examples of the exact-arithmetic theorems.

   Arrays are lists; C pointers into an array are (list, offset) pairs.  Every floating point
   expression keeps the operand order and association of the C source (-ffp-contract=off). *)
Require Import List ZArith Bool Arith Lia.
Require Import Floats QArith Qcanon.
Import ListNotations.
Local Open Scope nat_scope.

(* ------------------------------------------------------------------------------------------------ *)
(* generic array helpers                                                                            *)

Fixpoint upd {A : Type} (v : list A) (i : nat) (a : A) : list A :=
  match v, i with
  | [], _ => []
  | _ :: t, O => a :: t
  | h :: t, S k => h :: upd t k a
  end.

Definition nget (v : list nat) (i : nat) : nat := nth i v 0.

Record arith : Type := mkArith {
  T    : Type;
  zero : T;
  one  : T;
  add  : T -> T -> T;
  sub  : T -> T -> T;
  mul  : T -> T -> T;
  div  : T -> T -> T;
  abs  : T -> T;
  eqb  : T -> T -> bool;      (* C  a == b *)
  ltb  : T -> T -> bool       (* C  a <  b *)
}.

(* first letter of a char* option argument after lsame_'s case folding *)
Inductive tchar := cN | cT | cC | cL | cU | cM | cO | c1 | cI | cF | cE | cX.
Definition tchar_eqb (a b : tchar) : bool :=
  match a, b with
  | cN, cN | cT, cT | cC, cC | cL, cL | cU, cU | cM, cM | cO, cO | c1, c1 | cI, cI | cF, cF | cE, cE | cX, cX => true
  | _, _ => false
  end.

Section Arith.
Variable Ar : arith.
Notation Tt := (T Ar).
Notation z0 := (zero Ar).
Notation o1 := (one Ar).
Infix "+!" := (add Ar) (at level 50, left associativity).
Infix "-!" := (sub Ar) (at level 50, left associativity).
Infix "*!" := (mul Ar) (at level 40, left associativity).
Infix "/!" := (div Ar) (at level 40, left associativity).

Definition getn (v : list Tt) (i : nat) : Tt := nth i v z0.
(* access through a signed index (strided vectors): a negative index is outside every array *)
Definition getz (v : list Tt) (i : Z) : Tt := if (i <? 0)%Z then z0 else getn v (Z.to_nat i).
Definition updz (v : list Tt) (i : Z) (a : Tt) : list Tt := if (i <? 0)%Z then v else upd v (Z.to_nat i) a.
(* SUPERLU_MAX(a,b) = ((a) > (b) ? (a) : (b)) *)
Definition maxT (a b : Tt) : Tt := if ltb Ar b a then a else b.

(* ------------------------------------------------------------------------------------------------ *)
(* dense kernels of SRC/dmyblas2.c.  M is a column-major array, [Mat M mo ldm r c] = M[mo + r + c*ldm] *)

Definition Mat (M : list Tt) (mo ldm r c : nat) : Tt := getn M (mo + r + c * ldm)%nat.

(* ---- dlsolve: unit lower triangular solve, 8/4/2-column unrolling.
   One block of width w starting at column fc:
     x_0 = rhs[fc];  x_t = rhs[fc+t] - x_0*M(fc+t,fc) - ... - x_{t-1}*M(fc+t,fc+t-1)      (t < w)
     rhs[k] = rhs[k] - x_0*M(k,fc) - ... - x_{w-1}*M(k,fc+w-1)                             (fc+w <= k < ncol)
   every right hand side is parsed left to right exactly as in the C source. *)
Definition lsolve_elim (M : list Tt) (mo ldm fc : nat) (xs : list Tt) (row : nat) (r0 : Tt) (cnt : nat) : Tt :=
  fold_left (fun acc c => acc -! getn xs c *! Mat M mo ldm row (fc + c)) (seq 0 cnt) r0.

Fixpoint lsolve_xs (M : list Tt) (mo ldm fc : nat) (rhs : list Tt) (ro : nat) (t : nat) : list Tt :=
  match t with
  | O => []
  | S t' => let xs := lsolve_xs M mo ldm fc rhs ro t' in
            xs ++ [lsolve_elim M mo ldm fc xs (fc + t') (getn rhs (ro + fc + t')) t']
  end.

Definition lsolve_block (w : nat) (M : list Tt) (mo ldm ncol fc : nat) (rhs : list Tt) (ro : nat) : list Tt :=
  let xs := lsolve_xs M mo ldm fc rhs ro w in
  let rhs1 := fold_left (fun r t => upd r (ro + fc + t) (getn xs t)) (seq 1 (w - 1)) rhs in
  fold_left (fun r k => upd r (ro + k) (lsolve_elim M mo ldm fc xs k (getn r (ro + k)) w))
            (seq (fc + w) (ncol - (fc + w))) rhs1.

(* the three loops of dlsolve; [fuel] bounds the number of blocks (ncol suffices) *)
Fixpoint lsolve_loop8 (fuel : nat) (M : list Tt) (mo ldm ncol fc : nat) (rhs : list Tt) (ro : nat) : nat * list Tt :=
  match fuel with
  | O => (fc, rhs)
  | S f => if (fc + 7 <? ncol)%nat
           then lsolve_loop8 f M mo ldm ncol (fc + 8) (lsolve_block 8 M mo ldm ncol fc rhs ro) ro
           else (fc, rhs)
  end.
Fixpoint lsolve_loop4 (fuel : nat) (M : list Tt) (mo ldm ncol fc : nat) (rhs : list Tt) (ro : nat) : nat * list Tt :=
  match fuel with
  | O => (fc, rhs)
  | S f => if (fc + 3 <? ncol)%nat
           then lsolve_loop4 f M mo ldm ncol (fc + 4) (lsolve_block 4 M mo ldm ncol fc rhs ro) ro
           else (fc, rhs)
  end.
Definition lsolve (ldm ncol : nat) (M : list Tt) (mo : nat) (rhs : list Tt) (ro : nat) : list Tt :=
  let '(fc1, r1) := lsolve_loop8 ncol M mo ldm ncol 0 rhs ro in
  let '(fc2, r2) := lsolve_loop4 ncol M mo ldm ncol fc1 r1 ro in
  if (fc2 + 1 <? ncol)%nat then lsolve_block 2 M mo ldm ncol fc2 r2 ro else r2.

(* ---- dusolve: upper triangular solve with diagonal, column oriented, no unrolling *)
Definition usolve_col (ldm : nat) (M : list Tt) (mo : nat) (rhs : list Tt) (ro : nat) (jcol : nat) : list Tt :=
  let xj := getn rhs (ro + jcol) /! Mat M mo ldm jcol jcol in
  let rhs1 := upd rhs (ro + jcol) xj in
  fold_left (fun r irow => upd r (ro + irow) (getn r (ro + irow) -! xj *! Mat M mo ldm irow jcol))
            (seq 0 jcol) rhs1.
Definition usolve (ldm ncol : nat) (M : list Tt) (mo : nat) (rhs : list Tt) (ro : nat) : list Tt :=
  fold_left (fun r j => usolve_col ldm M mo r ro (ncol - 1 - j)) (seq 0 ncol) rhs.

(* ---- dmatvec: Mxvec += M * vec, 8/4/1-column unrolling:
     Mxvec[k] += vi0*M(k,fc) + vi1*M(k,fc+1) + ...      i.e.  Mxvec[k] + ((vi0*m0 + vi1*m1) + ...)   *)
Definition matvec_row (w : nat) (M : list Tt) (mo ldm fc : nat) (vec : list Tt) (vo : nat) (k : nat) : Tt :=
  fold_left (fun s c => s +! getn vec (vo + fc + c) *! Mat M mo ldm k (fc + c)) (seq 1 (w - 1))
            (getn vec (vo + fc) *! Mat M mo ldm k fc).
Definition matvec_block (w : nat) (M : list Tt) (mo ldm nrow fc : nat) (vec : list Tt) (vo : nat)
           (Mx : list Tt) (xo : nat) : list Tt :=
  fold_left (fun r k => upd r (xo + k) (getn r (xo + k) +! matvec_row w M mo ldm fc vec vo k)) (seq 0 nrow) Mx.
Fixpoint matvec_loop (w : nat) (fuel : nat) (M : list Tt) (mo ldm nrow ncol fc : nat) (vec : list Tt) (vo : nat)
         (Mx : list Tt) (xo : nat) : nat * list Tt :=
  match fuel with
  | O => (fc, Mx)
  | S f => if (fc + (w - 1) <? ncol)%nat
           then matvec_loop w f M mo ldm nrow ncol (fc + w) vec vo (matvec_block w M mo ldm nrow fc vec vo Mx xo) xo
           else (fc, Mx)
  end.
Definition matvec (ldm nrow ncol : nat) (M : list Tt) (mo : nat) (vec : list Tt) (vo : nat)
           (Mx : list Tt) (xo : nat) : list Tt :=
  let '(fc1, r1) := matvec_loop 8 ncol M mo ldm nrow ncol 0 vec vo Mx xo in
  let '(fc2, r2) := matvec_loop 4 ncol M mo ldm nrow ncol fc1 vec vo r1 xo in
  snd (matvec_loop 1 ncol M mo ldm nrow ncol fc2 vec vo r2 xo).

(* ---- CBLAS/dtrsv.c, the two cases reached from sp_dtrsv (incx = 1), 0-based.
   dtrsv_ returns after xerbla_ without touching x when lda < max(1,n). *)
(* uplo='L', trans='T', diag='U':  for j=n-1..0: temp=x[j]; for i=n-1..j+1: temp -= A(i,j)*x[i]; x[j]=temp *)
Definition dtrsv_LTU (n : nat) (A : list Tt) (ao lda : nat) (x : list Tt) (xo : nat) : list Tt :=
  if (lda <? Nat.max 1 n)%nat then x else
  fold_left (fun x jj => let j := (n - 1 - jj)%nat in
     let temp := fold_left (fun t ii => let i := (n - 1 - ii)%nat in t -! Mat A ao lda i j *! getn x (xo + i))
                           (seq 0 (n - 1 - j)) (getn x (xo + j)) in
     upd x (xo + j) temp) (seq 0 n) x.
(* uplo='U', trans='T', diag='N':  for j=0..n-1: temp=x[j]; for i=0..j-1: temp -= A(i,j)*x[i]; temp /= A(j,j); x[j]=temp *)
Definition dtrsv_UTN (n : nat) (A : list Tt) (ao lda : nat) (x : list Tt) (xo : nat) : list Tt :=
  if (lda <? Nat.max 1 n)%nat then x else
  fold_left (fun x j =>
     let temp := fold_left (fun t i => t -! Mat A ao lda i j *! getn x (xo + i)) (seq 0 j) (getn x (xo + j)) in
     upd x (xo + j) (temp /! Mat A ao lda j j)) (seq 0 n) x.

(* ------------------------------------------------------------------------------------------------ *)
(* storage formats (SRC/supermatrix.h)                                                              *)

(* NCformat (compressed columns); nrow/ncol are the int_t fields of SuperMatrix, hence Z *)
Record csc : Type := mkCsc {
  a_nrow : Z; a_ncol : Z;
  a_colptr : list nat; a_rowind : list nat; a_val : list Tt }.

(* SCPformat: supernodal L (unit diagonal; the diagonal block also holds U's block) *)
Record scp : Type := mkScp {
  l_nrow : Z; l_ncol : Z; l_nsuper : Z;
  l_val : list Tt; l_nzbeg : list nat; l_nzend : list nat;
  l_rowind : list nat; l_ribeg : list nat; l_riend : list nat;
  l_col2sup : list nat; l_supbeg : list nat; l_supend : list nat }.

(* NCPformat: U outside the supernodal diagonal blocks *)
Record ncp : Type := mkNcp {
  u_nrow : Z; u_ncol : Z;
  u_val : list Tt; u_rowind : list nat; u_colbeg : list nat; u_colend : list nat }.

(* ------------------------------------------------------------------------------------------------ *)
(* sp_dgemv (SRC/dsp_blas2.c:305-484)                                                               *)

Inductive gemv_out : Type :=
| G_ok (y : list Tt)
| G_xerbla (info : Z) (y : list Tt)      (* xerbla_ prints, the routine returns, y untouched *)
| G_abort (y : list Tt).                 (* SUPERLU_ABORT("Not implemented."); y as left behind *)

(* "First form y := beta*y": leny elements starting at iy0 with stride incy *)
Definition scal_loop (beta : Tt) (leny : nat) (iy0 incy : Z) (y : list Tt) : list Tt :=
  fold_left (fun y i => let iy := (iy0 + Z.of_nat i * incy)%Z in
                        updz y iy (if eqb Ar beta z0 then z0 else beta *! getz y iy))
            (seq 0 leny) y.

(* column j of  y := alpha*A*x + y  (incy = 1) *)
Definition gemv_colN (alpha : Tt) (A : csc) (x : list Tt) (xo kx incx : Z) (yo : Z) (y : list Tt) (j : nat) : list Tt :=
  let xj := getz x (xo + (kx + Z.of_nat j * incx))%Z in
  if eqb Ar xj z0 then y else
  let temp := alpha *! xj in
  let lo := nget (a_colptr A) j in
  let hi := nget (a_colptr A) (S j) in
  fold_left (fun y i => let irow := (yo + Z.of_nat (nget (a_rowind A) i))%Z in
                        updz y irow (getz y irow +! temp *! getn (a_val A) i))
            (seq lo (hi - lo)) y.

(* column j of  y := alpha*A'*x + y  (incx = 1) *)
Definition gemv_colT (alpha : Tt) (A : csc) (x : list Tt) (xo : Z) (yo ky incy : Z) (y : list Tt) (j : nat) : list Tt :=
  let lo := nget (a_colptr A) j in
  let hi := nget (a_colptr A) (S j) in
  let temp := fold_left (fun t i => t +! getn (a_val A) i *! getz x (xo + Z.of_nat (nget (a_rowind A) i))%Z)
                        (seq lo (hi - lo)) z0 in
  let jy := (yo + (ky + Z.of_nat j * incy))%Z in
  updz y jy (getz y jy +! alpha *! temp).

Definition sp_gemv (tr : tchar) (alpha : Tt) (A : csc) (x : list Tt) (xo incx : Z)
           (beta : Tt) (y : list Tt) (yo incy : Z) : gemv_out :=
  let notran := tchar_eqb tr cN in
  if negb notran && negb (tchar_eqb tr cT) && negb (tchar_eqb tr cC) then G_xerbla 1 y
  else if ((a_nrow A <? 0) || (a_ncol A <? 0))%Z then G_xerbla 3 y
  else if (incx =? 0)%Z then G_xerbla 5 y
  else if (incy =? 0)%Z then G_xerbla 8 y
  else if ((a_nrow A =? 0)%Z || (a_ncol A =? 0)%Z || (eqb Ar alpha z0 && eqb Ar beta o1)) then G_ok y
  else
    let lenx := if notran then a_ncol A else a_nrow A in
    let leny := if notran then a_nrow A else a_ncol A in
    let kx := (if 0 <? incx then 0 else - (lenx - 1) * incx)%Z in
    let ky := (if 0 <? incy then 0 else - (leny - 1) * incy)%Z in
    let y1 := if eqb Ar beta o1 then y
              else if (incy =? 1)%Z then scal_loop beta (Z.to_nat leny) yo 1 y
              else scal_loop beta (Z.to_nat leny) (yo + ky) incy y in
    if eqb Ar alpha z0 then G_ok y1
    else if notran then
      if (incy =? 1)%Z
      then G_ok (fold_left (gemv_colN alpha A x xo kx incx yo) (seq 0 (Z.to_nat (a_ncol A))) y1)
      else G_abort y1
    else
      if (incx =? 1)%Z
      then G_ok (fold_left (gemv_colT alpha A x xo yo ky incy) (seq 0 (Z.to_nat (a_ncol A))) y1)
      else G_abort y1.

(* sp_dgemm (SRC/dsp_blas3.c): n calls of sp_dgemv on the columns of b and c; m and k are ignored,
   the return values of sp_dgemv too (an xerbla_ in the first call repeats in all the others) *)
Definition gemv_y (o : gemv_out) : list Tt :=
  match o with G_ok y => y | G_xerbla _ y => y | G_abort y => y end.
Definition sp_gemm (tr : tchar) (n : nat) (alpha : Tt) (A : csc) (b : list Tt) (ldb : Z)
           (beta : Tt) (c : list Tt) (ldc : Z) : list Tt :=
  fold_left (fun c j => gemv_y (sp_gemv tr alpha A b (ldb * Z.of_nat j) 1 beta c (ldc * Z.of_nat j) 1))
            (seq 0 n) c.

(* ------------------------------------------------------------------------------------------------ *)
(* sp_dtrsv (SRC/dsp_blas2.c:35-302), non-vendor build (dlsolve/dusolve/dmatvec; the transposed
   solves call CBLAS dtrsv_ in every build)                                                         *)

Inductive trsv_out : Type :=
| S_ok (x : list Tt)
| S_xerbla (info : Z) (x : list Tt).

Section Trsv.
Variables (L : scp) (U : ncp).

Definition sn_fsupc (k : nat) := nget (l_supbeg L) k.
Definition sn_istart (k : nat) := nget (l_ribeg L) (sn_fsupc k).
Definition sn_nsupr (k : nat) := (nget (l_riend L) (sn_fsupc k) - sn_istart k)%nat.
Definition sn_nsupc (k : nat) := (nget (l_supend L) k - sn_fsupc k)%nat.
Definition sn_luptr (k : nat) := nget (l_nzbeg L) (sn_fsupc k).

(* x[irow] -= x[jcol] * Uval[i]  for the stored entries of column jcol of U *)
Definition ucol_scatter (x : list Tt) (jcol : nat) : list Tt :=
  let lo := nget (u_colbeg U) jcol in
  let hi := nget (u_colend U) jcol in
  fold_left (fun x i => let irow := nget (u_rowind U) i in
                        upd x irow (getn x irow -! getn x jcol *! getn (u_val U) i)) (seq lo (hi - lo)) x.
(* x[jcol] -= x[irow] * Uval[i] *)
Definition ucol_gather (x : list Tt) (jcol : nat) : list Tt :=
  let lo := nget (u_colbeg U) jcol in
  let hi := nget (u_colend U) jcol in
  fold_left (fun x i => let irow := nget (u_rowind U) i in
                        upd x jcol (getn x jcol -! getn x irow *! getn (u_val U) i)) (seq lo (hi - lo)) x.

(* x := inv(L) x, supernode k *)
Definition trsv_LN_sn (xw : list Tt * list Tt) (k : nat) : list Tt * list Tt :=
  let '(x, work) := xw in
  let fsupc := sn_fsupc k in let istart := sn_istart k in
  let nsupr := sn_nsupr k in let nsupc := sn_nsupc k in let luptr := sn_luptr k in
  let nrow := (nsupr - nsupc)%nat in
  if (nsupc =? 1)%nat then
    (fold_left (fun x t => let irow := nget (l_rowind L) (istart + 1 + t) in
                           upd x irow (getn x irow -! getn x fsupc *! getn (l_val L) (luptr + 1 + t)))
               (seq 0 (nget (l_riend L) fsupc - (istart + 1))) x, work)
  else
    let x1 := lsolve nsupr nsupc (l_val L) luptr x fsupc in
    let w1 := matvec nsupr (nsupr - nsupc) nsupc (l_val L) (luptr + nsupc) x1 fsupc work 0 in
    fold_left (fun xw i => let '(x, w) := xw in
                           let irow := nget (l_rowind L) (istart + nsupc + i) in
                           (upd x irow (getn x irow -! getn w i), upd w i z0))
              (seq 0 nrow) (x1, w1).

(* x := inv(U) x, supernode k (visited from nsuper down to 0) *)
Definition trsv_UN_sn (x : list Tt) (k : nat) : list Tt :=
  let fsupc := sn_fsupc k in
  let nsupr := sn_nsupr k in let nsupc := sn_nsupc k in let luptr := sn_luptr k in
  if (nsupc =? 1)%nat then
    let x1 := upd x fsupc (getn x fsupc /! getn (l_val L) luptr) in
    ucol_scatter x1 fsupc
  else
    let x1 := usolve nsupr nsupc (l_val L) luptr x fsupc in
    fold_left ucol_scatter (seq fsupc nsupc) x1.

(* x := inv(L') x, supernode k (from nsuper down to 0) *)
Definition trsv_LT_sn (x : list Tt) (k : nat) : list Tt :=
  let fsupc := sn_fsupc k in let istart := sn_istart k in
  let nsupr := sn_nsupr k in let nsupc := sn_nsupc k in let luptr := sn_luptr k in
  let x1 := fold_left (fun x jcol =>
              let lo := (nget (l_nzbeg L) jcol + nsupc)%nat in
              let hi := nget (l_nzend L) jcol in
              fold_left (fun x t => let irow := nget (l_rowind L) (istart + nsupc + t) in
                                    upd x jcol (getn x jcol -! getn x irow *! getn (l_val L) (lo + t)))
                        (seq 0 (hi - lo)) x)
            (seq fsupc (nget (l_supend L) k - fsupc)) x in
  if (1 <? nsupc)%nat then dtrsv_LTU nsupc (l_val L) luptr nsupr x1 fsupc else x1.

(* x := inv(U') x, supernode k (from 0 up to nsuper) *)
Definition trsv_UT_sn (x : list Tt) (k : nat) : list Tt :=
  let fsupc := sn_fsupc k in
  let nsupr := sn_nsupr k in let nsupc := sn_nsupc k in let luptr := sn_luptr k in
  let x1 := fold_left ucol_gather (seq fsupc nsupc) x in
  if (nsupc =? 1)%nat then upd x1 fsupc (getn x1 fsupc /! getn (l_val L) luptr)
  else dtrsv_UTN nsupc (l_val L) luptr nsupr x1 fsupc.

Definition sp_trsv (uplo trans diag : tchar) (x : list Tt) : trsv_out :=
  if negb (tchar_eqb uplo cL) && negb (tchar_eqb uplo cU) then S_xerbla 1 x
  else if negb (tchar_eqb trans cN) && negb (tchar_eqb trans cT) then S_xerbla 2 x
  else if negb (tchar_eqb diag cU) && negb (tchar_eqb diag cN) then S_xerbla 3 x
  else if (negb (l_nrow L =? l_ncol L) || (l_nrow L <? 0))%Z then S_xerbla 4 x
  else if (negb (u_nrow U =? u_ncol U) || (u_nrow U <? 0))%Z then S_xerbla 5 x
  else
    let ns := Z.to_nat (l_nsuper L + 1) in            (* supernodes 0..nsuper *)
    let work := repeat z0 (Z.to_nat (l_nrow L)) in     (* doubleCalloc(L->nrow) *)
    if tchar_eqb trans cN then
      if tchar_eqb uplo cL then
        if (l_nrow L =? 0)%Z then S_ok x
        else S_ok (fst (fold_left trsv_LN_sn (seq 0 ns) (x, work)))
      else
        if (u_nrow U =? 0)%Z then S_ok x
        else S_ok (fold_left trsv_UN_sn (rev (seq 0 ns)) x)
    else
      if tchar_eqb uplo cL then
        if (l_nrow L =? 0)%Z then S_ok x
        else S_ok (fold_left trsv_LT_sn (rev (seq 0 ns)) x)
      else
        if (u_nrow U =? 0)%Z then S_ok x
        else S_ok (fold_left trsv_UT_sn (seq 0 ns) x).
End Trsv.

(* ------------------------------------------------------------------------------------------------ *)
(* dlangs (SRC/dlangs.c)                                                                            *)

Inductive langs_out : Type :=
| N_val (v : Tt)
| N_abort_notimpl           (* norm = 'F' / 'E':  SUPERLU_ABORT("Not implemented.") *)
| N_abort_illegal.          (* SUPERLU_ABORT("Illegal norm specified.") *)

Definition col_range (A : csc) (j : nat) : list nat :=
  let lo := nget (a_colptr A) j in seq lo (nget (a_colptr A) (S j) - lo).

Definition langs (norm : tchar) (A : csc) : langs_out :=
  let ncol := Z.to_nat (a_ncol A) in
  let nrow := Z.to_nat (a_nrow A) in
  if (Z.min (a_nrow A) (a_ncol A) =? 0)%Z then N_val z0
  else if tchar_eqb norm cM then
    N_val (fold_left (fun v j => fold_left (fun v i => maxT v (abs Ar (getn (a_val A) i))) (col_range A j) v)
                     (seq 0 ncol) z0)
  else if tchar_eqb norm cO || tchar_eqb norm c1 then
    N_val (fold_left (fun v j =>
             let sum := fold_left (fun s i => s +! abs Ar (getn (a_val A) i)) (col_range A j) z0 in
             maxT v sum) (seq 0 ncol) z0)
  else if tchar_eqb norm cI then
    let rwork := fold_left (fun rw j =>
                   fold_left (fun rw i => let irow := nget (a_rowind A) i in
                                          upd rw irow (getn rw irow +! abs Ar (getn (a_val A) i)))
                             (col_range A j) rw) (seq 0 ncol) (repeat z0 nrow) in
    N_val (fold_left (fun v i => maxT v (getn rwork i)) (seq 0 nrow) z0)
  else if tchar_eqb norm cF || tchar_eqb norm cE then N_abort_notimpl
  else N_abort_illegal.

(* ------------------------------------------------------------------------------------------------ *)
(* dCompRow_to_CompCol (SRC/pdutil.c:85-120)                                                        *)

Definition row_range (rowptr : list nat) (i : nat) : list nat :=
  let lo := nget rowptr i in seq lo (nget rowptr (S i) - lo).

Definition cr2cc_count (m n : nat) (colind rowptr : list nat) : list nat :=
  fold_left (fun mk i => fold_left (fun mk j => let c := nget colind j in upd mk c (S (nget mk c)))
                                   (row_range rowptr i) mk) (seq 0 m) (repeat 0%nat n).

(* colptr[0]=0; colptr[j+1]=colptr[j]+marker[j]; marker[j]=colptr[j] *)
Definition cr2cc_ptr (n : nat) (marker : list nat) : list nat * list nat :=
  fold_left (fun cm j => let '(cp, mk) := cm in
                         let cp' := upd cp (S j) (nget cp j + nget mk j)%nat in
                         (cp', upd mk j (nget cp' j)))
            (seq 0 n) (repeat 0%nat (S n), marker).

Definition cr2cc (m n nnz : nat) (a : list Tt) (colind rowptr : list nat)
  : list Tt * list nat * list nat :=
  let marker := cr2cc_count m n colind rowptr in
  let '(colptr, marker1) := cr2cc_ptr n marker in
  let '(at_, rowind, _) :=
    fold_left (fun st i =>
      fold_left (fun st j => let '(at_, ri, mk) := st in
                   let col := nget colind j in
                   let relpos := nget mk col in
                   (upd at_ relpos (getn a j), upd ri relpos i, upd mk col (S relpos)))
                (row_range rowptr i) st)
      (seq 0 m) (repeat z0 nnz, repeat 0%nat nnz, marker1) in
  (at_, rowind, colptr).

(* dCopy_CompCol_Matrix: copies nnz values / row indices and ncol+1 column pointers into B's arrays *)
Fixpoint copy_prefix {A : Type} (n : nat) (src dst : list A) : list A :=
  match n, src, dst with
  | S k, s :: src', _ :: dst' => s :: copy_prefix k src' dst'
  | _, _, _ => dst
  end.
Definition copy_csc (nnz : nat) (A B : csc) : csc :=
  mkCsc (a_nrow A) (a_ncol A)
        (copy_prefix (S (Z.to_nat (a_ncol A))) (a_colptr A) (a_colptr B))
        (copy_prefix nnz (a_rowind A) (a_rowind B))
        (copy_prefix nnz (a_val A) (a_val B)).

(* dCreate_CompCol_Permuted / dCreate_SuperNode_Permuted only wrap the caller's arrays; the latter
   reads nsuper from col_to_sup[n] *)
Definition create_ncp (m n : Z) (nzval : list Tt) (rowind colbeg colend : list nat) : ncp :=
  mkNcp m n nzval rowind colbeg colend.
Definition create_scp (m n : Z) (nzval : list Tt) (nzbeg nzend rowind ribeg riend col2sup supbeg supend : list nat) : scp :=
  mkScp m n (Z.of_nat (nget col2sup (Z.to_nat n))) nzval nzbeg nzend rowind ribeg riend col2sup supbeg supend.
(* the NCP view of an NC matrix whose columns are taken in the order  perm  (sp_colorder's
   colbeg[perm_c[i]] = colptr[i], colend[perm_c[i]] = colptr[i+1]) *)
Definition ncp_of_csc (A : csc) (perm : list nat) : ncp :=
  let n := Z.to_nat (a_ncol A) in
  let '(cb, ce) := fold_left (fun be i => let '(cb, ce) := be in
                     (upd cb (nget perm i) (nget (a_colptr A) i), upd ce (nget perm i) (nget (a_colptr A) (S i))))
                   (seq 0 n) (repeat 0%nat n, repeat 0%nat n) in
  mkNcp (a_nrow A) (a_ncol A) (a_val A) (a_rowind A) cb ce.

End Arith.

Arguments G_ok {Ar}. Arguments G_xerbla {Ar}. Arguments G_abort {Ar}.
Arguments S_ok {Ar}. Arguments S_xerbla {Ar}.
Arguments N_val {Ar}. Arguments N_abort_notimpl {Ar}. Arguments N_abort_illegal {Ar}.

(* ------------------------------------------------------------------------------------------------ *)
(* instances                                                                                        *)

(* binary64: C double with -ffp-contract=off on x86-64/SSE2.  fabs = PrimFloat.abs; == and < are the
   IEEE comparisons (false on NaN, -0 == +0). *)
Definition ArF : arith :=
  mkArith float 0%float 1%float PrimFloat.add PrimFloat.sub PrimFloat.mul PrimFloat.div
          PrimFloat.abs PrimFloat.eqb PrimFloat.ltb.

(* exact rationals in canonical form: Leibniz equality, field *)
Definition Qc_abs (a : Qc) : Qc := if Qle_bool (this a) 0%Q then Qcopp a else a.
Definition Qc_eqb (a b : Qc) : bool := Qeq_bool (this a) (this b).
Definition Qc_ltb (a b : Qc) : bool := negb (Qle_bool (this b) (this a)).
Definition ArQ : arith :=
  mkArith Qc (Q2Qc 0%Q) (Q2Qc 1%Q) Qcplus Qcminus Qcmult Qcdiv Qc_abs Qc_eqb Qc_ltb.
