(* PivotTie.v (property C02): the pivot search and pivot policy RE-TRANSLATED from the current C source of p?gstrf_pivotL
   (PivotGen.v, generated on every run by tools/gen_trans.py) compute exactly what the hand-written model PivotModel.pivotL
   computes.  Hence every theorem of PivotProofs.v / Properties_C02.v about the model is a theorem about what the source
   says now.

   Representation.  The C code keeps subscripts into the supernode (nsupc <= isub < nsupr) and EMPTY = -1 for "not found";
   the model keeps positions in the candidate list (nat, relative to nsupc) and option.  [enc] / [encst] / [encres] map the
   model's values to the C values.  The loop state is listed in declaration order (pivptr, old_pivptr, diag, pivmax). *)
From Coq Require Import ZArith List Bool Lia ZifyBool.
From SLU Require Import Consts C2GalLib PivotModel PivotProofs ArgCheckModel PivotGen.
Import ListNotations.
Local Open Scope Z_scope.

Definition mstate := (Z * nat * option nat * option nat)%type.     (* pivmax, pivptr, old_pivptr, diag as in PivotModel.scan *)

Definition enc (n : Z) (o : option nat) : Z := match o with Some k => n + Z.of_nat k | None => -1 end.

Definition encst (n : Z) (s : mstate) : Z * Z * Z * Z :=
  let '(pm, pp, op, dg) := s in (n + Z.of_nat pp, enc n op, enc n dg, pm).

(* (returned early, value returned, pivptr, *pivrow, *usepr) *)
Definition encres (jcol n : Z) (r : pivres) : bool * Z * Z * Z * Z :=
  (pr_singular r, (if pr_singular r then jcol + 1 else 0), n + Z.of_nat (pr_ptr r), pr_row r, (if pr_usepr r then c_YES else c_NO)).

(* one step of PivotModel.scan *)
Definition mstep (usepr : bool) (oldrow diagind : Z) (i : nat) (x : Z * Z) (s : mstate) : mstate :=
  let '(pm, pp, op, dg) := s in
  let '(pm', pp') := if pm <? snd x then (snd x, i) else (pm, pp) in
  (pm', pp', (if usepr && (fst x =? oldrow) then Some i else op), (if fst x =? diagind then Some i else dg)).

Definition scan_t (c : list (Z * Z)) (i : nat) (usepr : bool) (oldrow diagind : Z) (s : mstate) : mstate :=
  let '(pm, pp, op, dg) := s in scan c i usepr oldrow diagind pm pp op dg.

Lemma scan_t_cons x r i u o d s : scan_t (x :: r) i u o d s = scan_t r (S i) u o d (mstep u o d i x s).
Proof.
  destruct s as [[[pm pp] op] dg]. destruct x as [row mag]. unfold scan_t, mstep. cbn [scan fst snd].
  destruct (pm <? mag); reflexivity.
Qed.

(* without pivot reuse the search does not look at the old pivot row *)
Lemma scan_usepr_false c : forall i o1 o2 d pm pp op dg, scan c i false o1 d pm pp op dg = scan c i false o2 d pm pp op dg.
Proof. induction c as [|[row mag] r IH]; intros; cbn [scan andb]; [reflexivity | destruct (pm <? mag); apply IH]. Qed.

(* ---- the loop: fold_left over zrange against scan, for ANY body that makes one model step ---- *)
Lemma loop_tie_gen (B : Z * Z * Z * Z -> Z -> Z * Z * Z * Z) n u o d : forall c i s,
  (forall k s', (k < length c)%nat ->
     B (encst n s') (n + Z.of_nat (i + k)) = encst n (mstep u o d (i + k) (nth k c (EMPTYZ, 0)) s')) ->
  fold_left B (zrange (n + Z.of_nat i) (n + Z.of_nat i + Z.of_nat (length c))) (encst n s) = encst n (scan_t c i u o d s).
Proof.
  induction c as [|x r IH]; intros i s Hb.
  - cbn [length]. rewrite zrange_nil by lia. destruct s as [[[pm pp] op] dg]. reflexivity.
  - cbn [length]. rewrite zrange_of_nat. cbn [fold_left].
    pose proof (Hb 0%nat s ltac:(cbn [length]; lia)) as H0. rewrite Nat.add_0_r in H0. cbn [nth] in H0. rewrite H0.
    replace (n + Z.of_nat i + 1) with (n + Z.of_nat (S i)) by lia.
    rewrite IH.
    + now rewrite scan_t_cons.
    + intros k s' Hk. replace (S i + k)%nat with (i + S k)%nat by lia. apply (Hb (S k)). cbn [length]. lia.
Qed.

Lemma loop_tie (B : Z * Z * Z * Z -> Z -> Z * Z * Z * Z) n u o d c nsupr st0 :
  nsupr = n + Z.of_nat (length c) ->
  st0 = encst n (0, 0%nat, None, None) ->
  (forall k s', (k < length c)%nat -> B (encst n s') (n + Z.of_nat k) = encst n (mstep u o d k (nth k c (EMPTYZ, 0)) s')) ->
  fold_left B (zrange n nsupr) st0 = encst n (scan c 0 u o d 0 0%nat None None).
Proof.
  intros -> -> Hb. pose proof (loop_tie_gen B n u o d c 0%nat (0, 0%nat, None, None)) as H.
  cbn [Z.of_nat Nat.add] in H. rewrite Z.add_0_r in H. apply H. exact Hb.
Qed.

(* ---- shared tactics ----
   Both sides are nests of if / let over the same atoms.  [walk] splits, innermost first, every test that is not itself built
   from tests, on either side, closes a branch as soon as its tests contradict each other (lia with ZifyBool reads the boolean
   equations), and compares the two values componentwise at the leaves.  Harmless rewrites of the source (operands of a
   comparison or of && swapped, a test repeated, a local renamed, statements of the loop body reordered) leave the same
   leaves; a changed decision leaves a leaf whose two sides differ, and the proof fails there. *)
Ltac split_pairs := repeat match goal with |- (_, _) = (_, _) => apply f_equal2 end.
Ltac leaf := unfold encres, c_YES, c_NO; cbn [pr_singular pr_ptr pr_row pr_usepr]; split_pairs; first [ reflexivity | lia ].
Ltac walk_step :=
  match goal with
  | |- context [if ?c then _ else _] =>
      lazymatch c with context [if _ then _ else _] => fail | _ => idtac end;
      let H := fresh "Htest" in destruct c eqn:H; cbn [encst enc encres pr_singular pr_ptr pr_row pr_usepr fst snd]
  end.
Ltac walk := repeat (first [ solve [exfalso; lia] | walk_step ]); leaf.

(* the loop body makes one model step *)
Ltac body_tie loop :=
  intros n u pv dgi row mag k [r m] [[[pm pp] op] dg] Hr Hm; cbn [fst snd] in Hr, Hm;
  unfold loop, mstep; cbn [encst fst snd]; rewrite ?Hr, ?Hm; unfold c_YES, c_NO; walk.

(* the whole slice *)
Ltac pivot_tie gen body_lemma :=
  intros jcol n nsupr usepr pivrow0 oldrow diagind row mag thr c Hn Hnr Hu Hrow Hmag;
  unfold gen; cbv beta zeta;
  (* 1. the search loop *)
  match goal with
  | |- context [fold_left ?B (zrange n nsupr) ?init] =>
      let H := fresh "Hloop" in
      eassert (H : fold_left B (zrange n nsupr) init = _) by
        (eapply (loop_tie B n _ _ _ c);
         [ exact Hnr
         | cbn [encst enc]; split_pairs; first [ reflexivity | lia ]
         | intros k s' Hk; apply body_lemma; [ apply Hrow; exact Hk | apply Hmag; exact Hk ] ]);
      rewrite H; clear H
  end;
  (* 2. with *usepr == YES the row looked for is inv_perm_r[jcol]; otherwise the search ignores it *)
  destruct (usepr =? c_YES) eqn:Hyes; cbn beta iota;
  [ | rewrite (scan_usepr_false c 0 _ oldrow) ];
  (* 3. what the search found, with the bounds that make the lookups legitimate *)
  unfold pivotL;
  destruct (scan c 0 _ oldrow diagind 0 0%nat None None) as [[[pm pp] op] dg] eqn:Es;
  (apply scan_spec in Es; [ | lia ]);
  destruct Es as (Hpm & Hargmax & Hnomax & Hdg & Hop & _);
  pose proof (maxmag_nonneg c) as Hmax0;
  unfold c_YES, c_NO in *;
  (destruct op as [o|];
   [ assert (Ho : (o < length c)%nat) by
       (destruct Hop as [Hop | (_ & k' & Hk1 & Hk2 & _)]; [ discriminate | inversion Hk1; lia ]);
     pose proof (Hrow o Ho) as Hrow_o; pose proof (Hmag o Ho) as Hmag_o | ]);
  (destruct dg as [d|];
   [ assert (Hd : (d < length c)%nat) by (destruct Hdg as [Hdg | [Hdg _]]; [ discriminate | lia ]);
     pose proof (Hrow d Hd) as Hrow_d; pose proof (Hmag d Hd) as Hmag_d | ]);
  clear Hop Hdg;
  (destruct (Nat.lt_ge_cases pp (length c)) as [Hpp | Hpp];
   [ pose proof (Hrow pp Hpp) as Hrow_pp; pose proof (Hmag pp Hpp) as Hmag_pp | ]);
  cbn [encst enc];
  (* 4. singular test and policy *)
  walk.

(* ---- the loop bodies, per precision ---- *)
Lemma body_s : forall n u pv dgi row mag k x s, row (n + Z.of_nat k) = fst x -> mag (n + Z.of_nat k) = snd x ->
  gen_psgstrf_pivotL_loop1 u row mag pv dgi (encst n s) (n + Z.of_nat k) = encst n (mstep (u =? c_YES) pv dgi k x s).
Proof. body_tie gen_psgstrf_pivotL_loop1. Qed.
Lemma body_d : forall n u pv dgi row mag k x s, row (n + Z.of_nat k) = fst x -> mag (n + Z.of_nat k) = snd x ->
  gen_pdgstrf_pivotL_loop1 u row mag pv dgi (encst n s) (n + Z.of_nat k) = encst n (mstep (u =? c_YES) pv dgi k x s).
Proof. body_tie gen_pdgstrf_pivotL_loop1. Qed.
Lemma body_c : forall n u pv dgi row mag k x s, row (n + Z.of_nat k) = fst x -> mag (n + Z.of_nat k) = snd x ->
  gen_pcgstrf_pivotL_loop1 u row mag pv dgi (encst n s) (n + Z.of_nat k) = encst n (mstep (u =? c_YES) pv dgi k x s).
Proof. body_tie gen_pcgstrf_pivotL_loop1. Qed.
Lemma body_z : forall n u pv dgi row mag k x s, row (n + Z.of_nat k) = fst x -> mag (n + Z.of_nat k) = snd x ->
  gen_pzgstrf_pivotL_loop1 u row mag pv dgi (encst n s) (n + Z.of_nat k) = encst n (mstep (u =? c_YES) pv dgi k x s).
Proof. body_tie gen_pzgstrf_pivotL_loop1. Qed.

(* ---- the tie theorems, per precision ----
   c is the candidate list of the model, placed at offset nsupc of the supernode: row / mag agree with c on nsupc .. nsupr-1
   (their values elsewhere are arbitrary).  Hypotheses really used: nsupc >= 0 (a subscript is never mistaken for EMPTY = -1,
   and `diag >= 0` means "found"); *usepr is YES or NO (the type yes_no_t); no sign condition on the magnitudes. *)
Definition pivot_tie_statement (gen : Z -> Z -> Z -> Z -> Z -> Z -> Z -> (Z -> Z) -> (Z -> Z) -> Z -> bool * Z * Z * Z * Z) : Prop :=
  forall jcol nsupc nsupr usepr pivrow0 oldrow diagind row mag thr (c : list (Z * Z)),
    0 <= nsupc -> nsupr = nsupc + Z.of_nat (length c) -> usepr = c_YES \/ usepr = c_NO ->
    (forall k, (k < length c)%nat -> row (nsupc + Z.of_nat k) = row_at c k) ->
    (forall k, (k < length c)%nat -> mag (nsupc + Z.of_nat k) = mag_at c k) ->
    gen jcol nsupc nsupr usepr pivrow0 oldrow diagind row mag thr
    = encres jcol nsupc (pivotL c (usepr =? c_YES) oldrow diagind thr).

Theorem tie_psgstrf_pivotL : pivot_tie_statement gen_psgstrf_pivotL.
Proof. unfold pivot_tie_statement. pivot_tie gen_psgstrf_pivotL body_s. Qed.
Theorem tie_pdgstrf_pivotL : pivot_tie_statement gen_pdgstrf_pivotL.
Proof. unfold pivot_tie_statement. pivot_tie gen_pdgstrf_pivotL body_d. Qed.
Theorem tie_pcgstrf_pivotL : pivot_tie_statement gen_pcgstrf_pivotL.
Proof. unfold pivot_tie_statement. pivot_tie gen_pcgstrf_pivotL body_c. Qed.
Theorem tie_pzgstrf_pivotL : pivot_tie_statement gen_pzgstrf_pivotL.
Proof. unfold pivot_tie_statement. pivot_tie gen_pzgstrf_pivotL body_z. Qed.

(* ---- the source, per precision ---- *)
Definition src_pivotL (p : prec) : Z -> Z -> Z -> Z -> Z -> Z -> Z -> (Z -> Z) -> (Z -> Z) -> Z -> bool * Z * Z * Z * Z :=
  match p with PS => gen_psgstrf_pivotL | PD => gen_pdgstrf_pivotL | PC => gen_pcgstrf_pivotL | PZ => gen_pzgstrf_pivotL end.

Theorem src_pivot_is_model : forall p, pivot_tie_statement (src_pivotL p).
Proof.
  intros []; cbn [src_pivotL];
    [ exact tie_psgstrf_pivotL | exact tie_pdgstrf_pivotL | exact tie_pcgstrf_pivotL | exact tie_pzgstrf_pivotL ].
Qed.

(* field by field *)
Definition res_returned (g : bool * Z * Z * Z * Z) : bool := let '(a, _, _, _, _) := g in a.
Definition res_info (g : bool * Z * Z * Z * Z) : Z := let '(_, a, _, _, _) := g in a.
Definition res_ptr (g : bool * Z * Z * Z * Z) : Z := let '(_, _, a, _, _) := g in a.
Definition res_row (g : bool * Z * Z * Z * Z) : Z := let '(_, _, _, a, _) := g in a.
Definition res_usepr (g : bool * Z * Z * Z * Z) : Z := let '(_, _, _, _, a) := g in a.

Theorem src_pivot_fields : forall p jcol nsupc nsupr usepr pivrow0 oldrow diagind row mag thr (c : list (Z * Z)),
  0 <= nsupc -> nsupr = nsupc + Z.of_nat (length c) -> usepr = c_YES \/ usepr = c_NO ->
  (forall k, (k < length c)%nat -> row (nsupc + Z.of_nat k) = row_at c k) ->
  (forall k, (k < length c)%nat -> mag (nsupc + Z.of_nat k) = mag_at c k) ->
  let g := src_pivotL p jcol nsupc nsupr usepr pivrow0 oldrow diagind row mag thr in
  let r := pivotL c (usepr =? c_YES) oldrow diagind thr in
  res_returned g = pr_singular r /\
  res_info g = (if pr_singular r then jcol + 1 else 0) /\
  res_ptr g = nsupc + Z.of_nat (pr_ptr r) /\
  res_row g = pr_row r /\
  res_usepr g = (if pr_usepr r then c_YES else c_NO).
Proof.
  intros p jcol nsupc nsupr usepr pivrow0 oldrow diagind row mag thr c Hn Hnr Hu Hrow Hmag g r.
  unfold g. rewrite (src_pivot_is_model p jcol nsupc nsupr usepr pivrow0 oldrow diagind row mag thr c Hn Hnr Hu Hrow Hmag).
  fold r. unfold encres. cbn [res_returned res_info res_ptr res_row res_usepr]. repeat split; reflexivity.
Qed.

(* the candidate list placed at offset nsupc: row / mag are lookups into c *)
Definition row_of (nsupc : Z) (c : list (Z * Z)) (i : Z) : Z := row_at c (Z.to_nat (i - nsupc)).
Definition mag_of (nsupc : Z) (c : list (Z * Z)) (i : Z) : Z := mag_at c (Z.to_nat (i - nsupc)).

Theorem src_pivot_lookup : forall p jcol nsupc usepr pivrow0 oldrow diagind thr (c : list (Z * Z)),
  0 <= nsupc -> usepr = c_YES \/ usepr = c_NO ->
  src_pivotL p jcol nsupc (nsupc + Z.of_nat (length c)) usepr pivrow0 oldrow diagind (row_of nsupc c) (mag_of nsupc c) thr
  = encres jcol nsupc (pivotL c (usepr =? c_YES) oldrow diagind thr).
Proof.
  intros p jcol nsupc usepr pivrow0 oldrow diagind thr c Hn Hu.
  apply (src_pivot_is_model p); [ exact Hn | reflexivity | exact Hu | | ];
    intros k Hk; unfold row_of, mag_of; f_equal; lia.
Qed.

(* model theorems restated for the source: the early return of the singular branch is taken exactly when every candidate is
   exactly zero, and the value returned is jcol + 1 *)
Theorem src_singular_iff_all_zero : forall p jcol nsupc nsupr usepr pivrow0 oldrow diagind row mag thr (c : list (Z * Z)),
  0 <= nsupc -> nsupr = nsupc + Z.of_nat (length c) -> usepr = c_YES \/ usepr = c_NO ->
  (forall k, (k < length c)%nat -> row (nsupc + Z.of_nat k) = row_at c k) ->
  (forall k, (k < length c)%nat -> mag (nsupc + Z.of_nat k) = mag_at c k) ->
  let g := src_pivotL p jcol nsupc nsupr usepr pivrow0 oldrow diagind row mag thr in
  (res_returned g = true <-> maxmag c = 0) /\ (res_returned g = true -> res_info g = jcol + 1) /\ (res_returned g = false -> res_info g = 0).
Proof.
  intros p jcol nsupc nsupr usepr pivrow0 oldrow diagind row mag thr c Hn Hnr Hu Hrow Hmag g.
  destruct (src_pivot_fields p jcol nsupc nsupr usepr pivrow0 oldrow diagind row mag thr c Hn Hnr Hu Hrow Hmag) as (F1 & F2 & _).
  fold g in F1, F2. rewrite F1, F2. split; [ apply piv_singular_iff | ].
  split; intros ->; reflexivity.
Qed.

(* ... and when the slice runs to its end the pivot it chose is a candidate of the column, is nonzero and meets the threshold *)
Theorem src_pivot_threshold : forall p jcol nsupc nsupr usepr pivrow0 oldrow diagind row mag thr (c : list (Z * Z)),
  0 <= nsupc -> nsupr = nsupc + Z.of_nat (length c) -> usepr = c_YES \/ usepr = c_NO ->
  (forall k, (k < length c)%nat -> row (nsupc + Z.of_nat k) = row_at c k) ->
  (forall k, (k < length c)%nat -> mag (nsupc + Z.of_nat k) = mag_at c k) ->
  nonneg c -> thr <= maxmag c ->
  let g := src_pivotL p jcol nsupc nsupr usepr pivrow0 oldrow diagind row mag thr in
  res_returned g = false ->
  nsupc <= res_ptr g < nsupr /\ thr <= mag (res_ptr g) /\ 0 < mag (res_ptr g).
Proof.
  intros p jcol nsupc nsupr usepr pivrow0 oldrow diagind row mag thr c Hn Hnr Hu Hrow Hmag Hnn Hthr g Hret.
  destruct (src_pivot_fields p jcol nsupc nsupr usepr pivrow0 oldrow diagind row mag thr c Hn Hnr Hu Hrow Hmag) as (F1 & _ & F3 & _).
  fold g in F1, F3. rewrite F1 in Hret.
  destruct (piv_threshold c (usepr =? c_YES) oldrow diagind thr Hnn Hret Hthr) as (T1 & T2 & T3).
  rewrite F3, (Hmag _ T1). repeat split; try lia; assumption.
Qed.

(* every multiplier |x_i| / |x_p| of the column is at most 1/u when thresh = u * pivmax, 0 < u = un/ud <= 1 *)
Theorem src_multiplier_bound : forall p jcol nsupc nsupr usepr pivrow0 oldrow diagind row mag thr (c : list (Z * Z)),
  0 <= nsupc -> nsupr = nsupc + Z.of_nat (length c) -> usepr = c_YES \/ usepr = c_NO ->
  (forall k, (k < length c)%nat -> row (nsupc + Z.of_nat k) = row_at c k) ->
  (forall k, (k < length c)%nat -> mag (nsupc + Z.of_nat k) = mag_at c k) ->
  nonneg c -> forall un ud, 0 < un -> 0 < ud -> thr * ud = un * maxmag c -> un <= ud ->
  let g := src_pivotL p jcol nsupc nsupr usepr pivrow0 oldrow diagind row mag thr in
  res_returned g = false ->
  forall i, nsupc <= i < nsupr -> un * mag i <= ud * mag (res_ptr g).
Proof.
  intros p jcol nsupc nsupr usepr pivrow0 oldrow diagind row mag thr c Hn Hnr Hu Hrow Hmag Hnn un ud Hun Hud Hthr Hle g Hret i Hi.
  destruct (src_pivot_fields p jcol nsupc nsupr usepr pivrow0 oldrow diagind row mag thr c Hn Hnr Hu Hrow Hmag) as (F1 & _ & F3 & _).
  fold g in F1, F3. rewrite F1 in Hret.
  assert (Ht : thr <= maxmag c) by (pose proof (maxmag_nonneg c); nia).
  destruct (piv_threshold c (usepr =? c_YES) oldrow diagind thr Hnn Hret Ht) as (T1 & _ & _).
  rewrite F3, (Hmag _ T1).
  assert (Hk : (Z.to_nat (i - nsupc) < length c)%nat) by lia.
  replace i with (nsupc + Z.of_nat (Z.to_nat (i - nsupc))) by lia. rewrite (Hmag _ Hk).
  apply (piv_multiplier_bound c (usepr =? c_YES) oldrow diagind thr Hnn un ud Hret Hun Hud Hthr Hle).
  unfold mag_at. apply nth_In. exact Hk.
Qed.

(* ---- non-vacuity: the d-precision source on a column of three candidates at offset 4 of its supernode, column 9;
   the diagonal row 5 is not the largest entry but meets the threshold 5; with reuse of row 7 requested and threshold 3 the
   old row is kept; an all-zero column and a column without candidates return 10 early.  The hypotheses of the tie theorem
   hold for these inputs (src_pivot_lookup). ---- *)
Example pivot_tie_example :
  let c := [(7, 3); (2, 10); (5, 6)] in
  gen_pdgstrf_pivotL 9 4 7 c_NO 99 0 5 (row_of 4 c) (mag_of 4 c) 5 = (false, 0, 6, 5, c_NO) /\
  gen_pdgstrf_pivotL 9 4 7 c_NO 99 0 5 (row_of 4 c) (mag_of 4 c) 7 = (false, 0, 5, 2, c_NO) /\
  gen_pdgstrf_pivotL 9 4 7 c_YES 99 7 5 (row_of 4 c) (mag_of 4 c) 3 = (false, 0, 4, 7, c_YES) /\
  gen_pdgstrf_pivotL 9 4 7 c_YES 99 7 5 (row_of 4 c) (mag_of 4 c) 5 = (false, 0, 6, 5, c_NO) /\
  gen_pzgstrf_pivotL 9 4 6 c_YES 99 7 5 (row_of 4 [(7, 0); (2, 0)]) (mag_of 4 [(7, 0); (2, 0)]) 0 = (true, 10, 4, 7, c_NO) /\
  gen_pcgstrf_pivotL 9 4 4 c_NO 99 7 5 (row_of 4 []) (mag_of 4 []) 0 = (true, 10, 4, 5, c_NO) /\
  encres 9 4 (pivotL c false 0 5 5) = (false, 0, 6, 5, c_NO) /\
  (0 <= 4 /\ 7 = 4 + Z.of_nat (length c) /\ (c_NO = c_YES \/ c_NO = c_NO) /\
   (forall k, (k < length c)%nat -> row_of 4 c (4 + Z.of_nat k) = row_at c k) /\
   (forall k, (k < length c)%nat -> mag_of 4 c (4 + Z.of_nat k) = mag_at c k)).
Proof.
  cbv zeta. repeat split; try (vm_compute; reflexivity); try lia; intros k Hk; unfold row_of, mag_of; f_equal; lia.
Qed.

Print Assumptions src_pivot_is_model.
Print Assumptions src_pivot_fields.
Print Assumptions src_pivot_lookup.
Print Assumptions src_singular_iff_all_zero.
Print Assumptions src_pivot_threshold.
Print Assumptions src_multiplier_bound.
