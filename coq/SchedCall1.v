(* SchedCall1.v -- one scheduler call, part 1: report of the finished panel and the dequeue loop *)
From Coq Require Import ZArith List Bool Lia.
From SLU Require Import Consts SchedModel SchedBase SchedInv SchedSteps.
Import ListNotations.
Local Open Scope Z_scope.

Ltac invx_unf := unfold I_len, I_states, I_threads, I_ukids, I_J, I_D, I_queue, I_queue_x, I_ready, I_ready_x, I_tasks, I_root, I_fb0 in *;
                 cbn [gs thr] in *.
Ltac use_invx HX :=
  pose proof (ix_wf _ _ HX) as IWF; pose proof (ix_len _ _ HX) as ILEN; pose proof (ix_states _ _ HX) as ISTATES;
  pose proof (ix_threads _ _ HX) as ITHREADS; pose proof (ix_ukids _ _ HX) as IUKIDS; pose proof (ix_J _ _ HX) as IJ;
  pose proof (ix_D _ _ HX) as ID; pose proof (ix_queue _ _ HX) as IQUEUE; pose proof (ix_ready _ _ HX) as IREADY;
  pose proof (ix_tasks _ _ HX) as ITASKS; pose proof (ix_root _ _ HX) as IROOT; pose proof (ix_fb0 _ _ HX) as IFB0;
  invx_unf.

Lemma inv_weaken g e : Inv g -> InvX g e.
Proof.
  intros HI. use_inv HI. constructor; invx_unf; auto.
  all: try (destruct IQUEUE as (A & B & C & D & E & F); repeat split; auto; try lia; try apply E; auto; fail).
  all: try (intros p _; apply IREADY).
Qed.

Lemma invx_strengthen g e : InvX g e -> lead (gs g) e = false -> Inv g.
Proof.
  intros HX Le. use_invx HX. constructor; invx_unf; auto.
  - destruct IQUEUE as (A & B & C & D & E & F). repeat split; auto; try lia; try apply E; auto.
    intros p Lp Sp. apply F; auto. intros ->. congruence.
  - intros p Lp. apply IREADY; auto. intros ->. congruence.
Qed.

(* ---------------- the dequeue loop ---------------- *)
Definition Qok (a : sstate) : Prop := 0 <= qhead a <= qtail a /\ qcount a = qtail a - qhead a.

Lemma deq_spec fuel : forall a, Qok a -> (Z.to_nat (qcount a) < fuel)%nat ->
  exists h' j, deq fuel a = (set_queue a (q a) h' (qtail a) (qtail a - h'), j) /\
    qhead a <= h' <= qtail a /\
    (j = c_EMPTY -> h' = qtail a /\ forall i, qhead a <= i < h' -> st a (nthZ (q a) i) < c_CANGO) /\
    (j <> c_EMPTY -> qhead a < h' /\ j = nthZ (q a) (h' - 1) /\ c_CANGO <= st a j /\
                     forall i, qhead a <= i < h' - 1 -> st a (nthZ (q a) i) < c_CANGO).
Proof.
  induction fuel as [|f IH]; intros a (Hh & Hc) Hf; [lia|].
  cbn [deq]. destruct (qcount a <=? 0) eqn:E.
  - apply Z.leb_le in E. exists (qhead a), c_EMPTY. assert (qhead a = qtail a) by lia.
    split. { f_equal. destruct a; unfold set_queue; cbn in *. f_equal; lia. }
    split; [lia|]. split; [intros _; split; [lia | intros; lia] | intros; congruence].
  - apply Z.leb_gt in E.
    set (a1 := set_queue a (q a) (qhead a + 1) (qtail a) (qcount a - 1)).
    assert (Hst : forall p, st a1 p = st a p) by reflexivity.
    rewrite Hst. destruct (c_CANGO <=? st a (nthZ (q a) (qhead a))) eqn:E2.
    + apply Z.leb_le in E2. exists (qhead a + 1), (nthZ (q a) (qhead a)).
      split. { f_equal. unfold a1. f_equal. lia. }
      split; [lia|]. split.
      * intros He. exfalso. rewrite He in E2.
        (* st a (-1) = 0 < CANGO *) unfold st, nthZ in E2. cs. cbn in E2. lia.
      * intros _. split; [lia|]. replace (qhead a + 1 - 1) with (qhead a) by lia. split; auto. split; auto. intros; lia.
    + apply Z.leb_gt in E2.
      assert (Q1 : Qok a1) by (unfold Qok, a1; cbn; lia).
      assert (F1 : (Z.to_nat (qcount a1) < f)%nat) by (unfold a1; cbn; lia).
      destruct (IH a1 Q1 F1) as (h' & j & D & R & A & B).
      exists h', j. unfold a1 in *. cbn [q qhead qtail qcount set_queue] in *.
      split. { rewrite D. reflexivity. }
      split; [lia|]. split.
      * intros He. destruct (A He) as [A1 A2]. split; auto. intros i Hi.
        destruct (Z.eq_dec i (qhead a)) as [->|Hne]; auto. apply A2; lia.
      * intros Hn. destruct (B Hn) as (B1 & B2 & B3 & B4). split; [lia|]. split; auto. split; auto.
        intros i Hi. destruct (Z.eq_dec i (qhead a)) as [->|Hne]; auto. apply B4; lia.
Qed.

(* ---------------- report ---------------- *)
Section REPORT.
Variable s : sstate.
Variable th : list (Z * Z).
Variables t x : Z.
Hypothesis HI : Inv (mkG s th).
Hypothesis Ht : 0 <= t < tlen th.
Hypothesis Hget : thr_get th t = (M_READY, x).
Hypothesis Hx : x <> c_EMPTY.

Let d0 := dadpanel s x.
Let du := uk s d0 - 1.
Let s1 := set_pukids s (updZ (pukids s) d0 du).
Let th1 := thr_upd th t (M_READY, c_EMPTY).

Lemma rep_x : lead s x = true /\ st s x = c_DONE.
Proof.
  use_inv HI. destruct ITHREADS as (A & _ & _). specialize (A t Ht). rewrite Hget in A.
  destruct A as (_ & _ & A3). destruct A3 as [A3|A3]; [cs; lia | congruence | exact A3].
Qed.

Lemma rep_d0 : x < d0 <= sn s /\ kid s d0 x = true.
Proof.
  use_inv HI. destruct rep_x as [L _]. split; [now apply IWF|]. apply kid_iff; auto.
Qed.

Lemma rep_static : same_static s s1.
Proof. repeat split. Qed.

Lemma rep_get t0 : thr_get th1 t0 = if t0 =? t then (M_READY, c_EMPTY) else thr_get th t0.
Proof. unfold th1. now rewrite thr_get_upd. Qed.

Lemma rep_heldb c : 0 <= c -> heldb th1 c = if c =? x then false else heldb th c.
Proof.
  intros Hc. use_inv HI. destruct ITHREADS as (_ & B & _).
  destruct (c =? x) eqn:E.
  - apply Z.eqb_eq in E; subst c. apply heldb_false_iff. intros t0 H0. unfold th1 in H0. rewrite tlen_upd in H0.
    rewrite rep_get. destruct (t0 =? t) eqn:E2; [cbn; cs; lia|].
    apply Z.eqb_neq in E2. intros G. specialize (B t0 t H0 Ht E2). rewrite Hget in B. cbn in B. rewrite G in B.
    specialize (B eq_refl). congruence.
  - apply Z.eqb_neq in E. destruct (heldb th c) eqn:Eh.
    + apply heldb_iff in Eh. destruct Eh as (t0 & H0 & G). apply heldb_iff. exists t0. unfold th1. rewrite tlen_upd. split; auto.
      fold th1. rewrite rep_get. destruct (t0 =? t) eqn:E2; auto. apply Z.eqb_eq in E2; subst t0. rewrite Hget in G. cbn in G. congruence.
    + rewrite heldb_false_iff in *. intros t0 H0. unfold th1 in H0. rewrite tlen_upd in H0. rewrite rep_get.
      destruct (t0 =? t); [cbn; cs; lia | now apply Eh].
Qed.

Lemma rep_uk p : uk s1 p = if p =? d0 then du else uk s p.
Proof.
  use_inv HI. unfold uk, s1. cbn [pukids set_pukids]. apply nthZ_updZ.
  destruct ILEN as (_ & A & _). rewrite A. destruct rep_d0 as [R _]. destruct rep_x as [L _]. apply lead_range in L. lia.
Qed.

Lemma rep_ukspec p : lead s p = true \/ p = sn s -> uk s1 p = ukspec s1 th1 p.
Proof.
  intros Hp. use_inv HI. destruct rep_x as [Lx Dx]. destruct rep_d0 as [Rd Kx].
  pose proof (lead_range _ _ Lx) as [Rx _].
  rewrite rep_uk. unfold ukspec. replace (sn s1) with (sn s) by reflexivity.
  assert (Hun : forall c, 0 <= c -> unrep s1 th1 c = if c =? x then false else unrep s th c).
  { intros c Hc. unfold unrep. rewrite rep_heldb by auto. replace (st s1 c) with (st s c) by reflexivity.
    destruct (c =? x) eqn:E; auto. apply Z.eqb_eq in E; subst. rewrite Dx. cs. reflexivity. }
  destruct (p =? d0) eqn:E.
  - apply Z.eqb_eq in E; subst p. unfold du. rewrite (IUKIDS d0 Hp). unfold ukspec.
    symmetry. apply countb_remove with (x := x).
    + apply NoDup_cols.
    + apply in_cols; lia.
    + rewrite Kx. unfold unrep. assert (Hh : heldb th x = true) by (apply heldb_iff; exists t; split; auto; now rewrite Hget).
      rewrite Hh. now rewrite orb_true_r.
    + rewrite (fr_kid _ _ rep_static), Kx, Hun by lia. now rewrite Z.eqb_refl.
    + intros y Hy. rewrite (fr_kid _ _ rep_static).
      destruct (Z_lt_dec y 0) as [Hneg|Hnn].
      * unfold kid, lead, inb. assert (E0 : 0 <=? y = false) by (apply Z.leb_gt; lia). now rewrite E0.
      * rewrite Hun by lia. assert (E2 : y =? x = false) by (apply Z.eqb_neq; auto). now rewrite E2.
  - apply Z.eqb_neq in E. rewrite (IUKIDS p Hp). unfold ukspec. apply countb_ext. intros c Hc. apply in_cols in Hc.
    rewrite (fr_kid _ _ rep_static), Hun by lia.
    destruct (c =? x) eqn:E2; auto. apply Z.eqb_eq in E2; subst c.
    assert (Kp : kid s p x = false).
    { destruct (kid s p x) eqn:K; auto. apply kid_iff in K. destruct K as [_ K]. fold d0 in K. congruence. }
    now rewrite Kp.
Qed.

(* the dummy root keeps at least two unreported children while some thread is about to report one *)
Lemma rep_root_two : d0 = sn s -> 2 <= uk s d0.
Proof.
  intros Hd. use_inv HI. destruct rep_x as [Lx Dx]. destruct rep_d0 as [Rd Kx].
  pose proof (lead_range _ _ Lx) as [Rx _].
  rewrite (IUKIDS d0 (or_intror Hd)). unfold ukspec.
  assert (Hux : unrep s th x = true).
  { unfold unrep. assert (Hh : heldb th x = true) by (apply heldb_iff; exists t; split; auto; now rewrite Hget).
    rewrite Hh. now rewrite orb_true_r. }
  destruct IROOT as [R1 R2]. destruct (Z_lt_dec 0 (tasks s)) as [Hpos|Hz].
  - destruct (R1 Hpos) as (r & Kr & Sr). rewrite <- Hd in Kr.
    pose proof (proj1 (kid_iff _ _ _) Kr) as [Lr _]. apply lead_range in Lr.
    apply countb_two with (x := x) (y := r); try apply NoDup_cols; try (apply in_cols; lia).
    + intros ->. rewrite Dx in Sr. cs; lia.
    + now rewrite Kx, Hux.
    + rewrite Kr. unfold unrep. assert (E : c_BUSY <? st s r = true) by (apply Z.ltb_lt; lia). now rewrite E.
  - destruct (R2 ltac:(lia)) as (r & t0 & Kr & H0 & G1 & G2). rewrite <- Hd in Kr.
    pose proof (proj1 (kid_iff _ _ _) Kr) as [Lr _]. apply lead_range in Lr.
    destruct ITHREADS as (_ & B & _).
    apply countb_two with (x := x) (y := r); try apply NoDup_cols; try (apply in_cols; lia).
    + intros <-. assert (t0 <> t) by (intros ->; rewrite Hget in G2; cbn in G2; cs; lia).
      specialize (B t0 t H0 Ht H). rewrite Hget, G1 in B. cbn in B. specialize (B eq_refl). cs; lia.
    + now rewrite Kx, Hux.
    + rewrite Kr. unfold unrep. assert (Hh : heldb th r = true) by (apply heldb_iff; exists t0; split; auto).
      rewrite Hh. now rewrite orb_true_r.
Qed.

Definition rep_exempt : Z := if (du =? 0) && (c_BUSY <? st s d0) then d0 else -5.

Lemma rep_exempt_lt : rep_exempt <> -5 -> rep_exempt = d0 /\ du = 0 /\ c_BUSY < st s d0 /\ d0 < sn s.
Proof.
  unfold rep_exempt. destruct ((du =? 0) && (c_BUSY <? st s d0)) eqn:E; [|congruence].
  intros _. apply andb_true_iff in E. destruct E as [E1 E2]. apply Z.eqb_eq in E1. apply Z.ltb_lt in E2.
  repeat split; auto. destruct rep_d0 as [R _]. destruct (Z.eq_dec d0 (sn s)) as [Hd|]; [|lia].
  pose proof (rep_root_two Hd). unfold du in E1. lia.
Qed.

Theorem invx_report : InvX (mkG s1 th1) rep_exempt.
Proof.
  pose proof rep_static as FS. destruct rep_x as [Lx Dx]. destruct rep_d0 as [Rd Kx].
  pose proof (lead_range _ _ Lx) as [Rx _].
  use_inv HI.
  constructor; invx_unf.
  - eapply fr_WF; eauto.
  - destruct ILEN as (A & B & C & D & E). unfold s1. cbn. rewrite lenZ_updZ. auto.
  - exact ISTATES.
  - destruct ITHREADS as (A & B & C). split; [|split].
    + intros t0 H0. unfold th1 in H0. rewrite tlen_upd in H0. rewrite rep_get.
      destruct (t0 =? t); [|now apply A]. cs. split; [lia|]. split; [lia|]. intros _. now left.
    + intros t1 t2 H1 H2 Hne. unfold th1 in H1, H2. rewrite tlen_upd in H1, H2. rewrite !rep_get.
      destruct (t1 =? t) eqn:E1; [auto|]. destruct (t2 =? t) eqn:E2; [cbn; auto|]. now apply B.
    + intros p Lp Bp. destruct (C p Lp Bp) as (t0 & H0 & G). exists t0. unfold th1. rewrite tlen_upd. split; auto.
      fold th1. rewrite rep_get. destruct (t0 =? t) eqn:E; auto. apply Z.eqb_eq in E; subst t0. rewrite Hget in G. cs. discriminate G.
  - intros p Hp. apply rep_ukspec. exact Hp.
  - exact IJ.
  - exact ID.
  - destruct IQUEUE as (A & B & C & D & E & F).
    change (qhead s1) with (qhead s); change (qtail s1) with (qtail s); change (qcount s1) with (qcount s);
    change (q s1) with (q s); change (sn s1) with (sn s).
    split; [lia|]. split; [lia|]. split; [lia|]. split; [exact D|]. split; [exact E|].
    intros p _ Lp Sp. now apply F.
  - intros p Hne Lp Rp Sp. rewrite rep_uk. destruct (p =? d0) eqn:E; [|now apply IREADY].
    apply Z.eqb_eq in E; subst p. specialize (IREADY d0 Lp Rp Sp).
    unfold rep_exempt in Hne. replace (st s1 d0) with (st s d0) in Sp by reflexivity.
    assert (E2 : c_BUSY <? st s d0 = true) by (apply Z.ltb_lt; lia). rewrite E2, andb_true_r in Hne.
    destruct (du =? 0) eqn:E3; [congruence|]. apply Z.eqb_neq in E3. unfold du in *. lia.
  - exact ITASKS.
  - destruct IROOT as [R1 R2]. split; auto. intros Hz. destruct (R2 Hz) as (r & t0 & K & H0 & G1 & G2).
    exists r, t0. unfold th1. rewrite tlen_upd. fold th1. rewrite rep_get.
    destruct (t0 =? t) eqn:E; [|auto]. apply Z.eqb_eq in E; subst t0. rewrite Hget in G2. cbn in G2. cs. lia.
  - exact IFB0.
Qed.
End REPORT.
