(* SchedInitTie.v (properties C03 / C04): the INITIAL state of the panel scheduler RE-TRANSLATED from the current C source
   (SchedInitGen.v, generated on every run by tools/gen_trans.py from SRC/pxgstrf_relax_snode.c and from queue_init,
   EnqueueRelaxSnode, ParallelInit of SRC/pxgstrf_synch.c) is exactly what the hand-written model computes:
     gen_pxgstrf_relax_snode  =  SchedModel.relax_snode    (the list of relaxed supernodes, stored in the array pxgstrf_relax[])
     gen_ParallelInit         =  SchedModel.parallel_init  (every field of the sstate)
   Hypotheses (all of them are needed, see the comments at the theorems):
     0 <= n (relax_snode) / 1 <= n (ParallelInit: queue_init fails and the routine ABORTS for n < 1);
     etree_ok n et : forall j, 0 <= j < n -> j < et[j] <= n   (a forest in which every parent has a larger number and n is the
                     virtual root: what sp_coletree + postorder produce; without it the climbing loop of pxgstrf_relax_snode
                     need not terminate and the model's fuel cuts it off);
     1 <= panel_size (with panel_size <= 0 nothing else goes wrong, but `panel_size / 2` of C rounds towards 0, Z./ does not);
     the caller's array pxgstrf_relax[] has n + 2 entries (as allocated in p?gstrf_init);
     fuel >= n + 2   (the same bound as SchedModel.fuel_of);
     junk = 0        (MODELLING CHOICE: the model takes the indeterminate contents of malloc'ed memory to be 0.  The entries
                      concerned -- pan_status[j].state and fb_cols[j] of NON-leading columns j, pan_status[n].type, queue slots
                      past the relaxed supernodes -- are never written by ParallelInit). *)
From Coq Require Import ZArith List Bool Lia ZifyBool.
From SLU Require Import Consts C2GalLib SchedModel SchedBase SchedInitGen.
Import ListNotations.
Local Open Scope Z_scope.

Definition etree_ok (n : Z) (et : list Z) : Prop := forall j, 0 <= j < n -> j < nthZ et j <= n.
Definition lenp (l : list (Z * Z)) : Z := Z.of_nat (length l).

Ltac leaf := first [ reflexivity | solve [ c2g_split; first [ reflexivity | lia | f_equal; lia ] ] ].
(* the tests of the TRANSLATED side are decided from the facts in the context (the model's tests, destructed with an equation):
   `k == fcol` for `fcol == k`, `1 < u` for `u > 1`, `d == 0 && t` for `!d` around `if (t)` .. leave the same decisions *)
Ltac decide_ifs :=
  repeat (match goal with
          | |- context [if ?c then _ else _] =>
              first [ replace c with true by lia | replace c with false by lia ]
          end; cbv beta iota).

(* ====================================================================================================================== *)
(* pxgstrf_relax_snode                                                                                                      *)

(* for (j = 0; j < n; j++) { parent = etree[j]; desc[parent] += desc[j] + 1; } *)
Lemma desc_tie_nat : forall et cnt j d,
  fold_left (gen_pxgstrf_relax_snode_loop1 et) (zrange (Z.of_nat j) (Z.of_nat j + Z.of_nat cnt)) d = desc_loop et j cnt d.
Proof.
  intros et. induction cnt as [|c IH]; intros j d.
  - rewrite zrange_nil by lia. reflexivity.
  - rewrite zrange_of_nat. cbn [fold_left desc_loop].
    replace (Z.of_nat j + 1) with (Z.of_nat (S j)) by lia. rewrite IH.
    assert (Hb : gen_pxgstrf_relax_snode_loop1 et d (Z.of_nat j) =
                 updZ d (nthZ et (Z.of_nat j)) (nthZ d (nthZ et (Z.of_nat j)) + nthZ d (Z.of_nat j) + 1))
      by (unfold gen_pxgstrf_relax_snode_loop1; cbv beta zeta; first [reflexivity | f_equal; lia]).
    rewrite Hb. reflexivity.
Qed.

Lemma desc_tie : forall n et, 0 <= n ->
  fold_left (gen_pxgstrf_relax_snode_loop1 et) (zrange 0 n) (repeat 0 (Z.to_nat (n + 1))) = desc_of n et.
Proof.
  intros n et Hn. unfold desc_of. rewrite <- (desc_tie_nat et (Z.to_nat n) 0).
  do 2 f_equal. lia.
Qed.

(* while ( parent != n && desc[parent] < relax ) { j = parent; parent = etree[j]; } *)
Lemma climb_range : forall n relax et d, etree_ok n et -> forall f j, 0 <= j < n ->
  j <= relax_climb f n relax et d j < n.
Proof.
  intros n relax et d Hok. induction f as [|f IH]; intros j Hj; cbn [relax_climb]; [lia|].
  destruct (negb (nthZ et j =? n) && (nthZ d (nthZ et j) <? relax)) eqn:Hc; [|lia].
  pose proof (Hok j Hj) as Hp. assert (Hpn : nthZ et j <> n) by lia.
  pose proof (IH (nthZ et j) ltac:(lia)) as Hr. lia.
Qed.

Lemma climb_tie : forall n relax et d, etree_ok n et -> forall f j f', 0 <= j < n ->
  n - j <= Z.of_nat f -> n - j < Z.of_nat f' ->
  gen_pxgstrf_relax_snode_while1 f' n et relax d (j, nthZ et j) =
  Some (relax_climb f n relax et d j, nthZ et (relax_climb f n relax et d j)).
Proof.
  intros n relax et d Hok. induction f as [|f IH]; intros j f' Hj Hf Hf'; [lia|].
  destruct f' as [|f']; [lia|].
  cbn [relax_climb gen_pxgstrf_relax_snode_while1]. cbv beta iota zeta.
  destruct (negb (nthZ et j =? n) && (nthZ d (nthZ et j) <? relax)) eqn:Hc; decide_ifs; [|reflexivity].
  pose proof (Hok j Hj) as Hp. assert (Hpn : nthZ et j <> n) by lia.
  apply IH; lia.
Qed.

(* while ( desc[j] != 0 && j < n ) j++; *)
Lemma leaf_range : forall n d f j, j <= n -> j <= relax_leaf f n d j <= n.
Proof.
  intros n d. induction f as [|f IH]; intros j Hj; cbn [relax_leaf]; [lia|].
  destruct (negb (nthZ d j =? 0) && (j <? n)) eqn:Hc; [|lia].
  pose proof (IH (j + 1) ltac:(lia)) as Hr. lia.
Qed.

Lemma leaf_tie : forall n d f j f', j <= n -> n - j < Z.of_nat f -> n - j < Z.of_nat f' ->
  gen_pxgstrf_relax_snode_while2 f' n d j = Some (relax_leaf f n d j).
Proof.
  intros n d. induction f as [|f IH]; intros j f' Hj Hf Hf'; [lia|].
  destruct f' as [|f']; [lia|].
  cbn [relax_leaf gen_pxgstrf_relax_snode_while2]. cbv beta iota zeta.
  destruct (negb (nthZ d j =? 0) && (j <? n)) eqn:Hc; decide_ifs; [|reflexivity].
  apply IH; lia.
Qed.

(* the array pxgstrf_relax[] : entry rs holds the rs-th relaxed supernode (rs = 1 ..) *)
Fixpoint put_relax (l : list (Z * Z)) (rs : Z) (fc szs : list Z) : list Z * list Z :=
  match l with
  | [] => (fc, szs)
  | (f, s) :: t => put_relax t (rs + 1) (updZ fc rs f) (updZ szs rs s)
  end.

(* pxgstrf_relax[rs].fcol = n (sentinel);  pxgstrf_relax[0].size = number of relaxed supernodes *)
Definition enc_relax (n : Z) (l : list (Z * Z)) (fc szs : list Z) : list Z * list Z :=
  (updZ (fst (put_relax l 1 fc szs)) (1 + lenp l) n, updZ (snd (put_relax l 1 fc szs)) 0 (lenp l)).

(* for (j = 0; j < n; ) { parent = etree[j]; fcol = j; <climb>; relax[rs].fcol = fcol; relax[rs].size = j - fcol + 1;
                           j++; rs++; <next leaf> } *)
Lemma relax_loop_tie : forall n relax et d, etree_ok n et -> 0 <= n -> forall f j rs fc szs f', 0 <= j <= n ->
  n - j < Z.of_nat f -> n - j + 1 < Z.of_nat f' ->
  gen_pxgstrf_relax_snode_while3 f' n et relax d (j, rs, fc, szs) =
  Some (n, rs + lenp (relax_loop f n relax et d j),
        fst (put_relax (relax_loop f n relax et d j) rs fc szs), snd (put_relax (relax_loop f n relax et d j) rs fc szs)).
Proof.
  intros n relax et d Hok Hn. induction f as [|f IH]; intros j rs fc szs f' Hj Hf Hf'; [lia|].
  destruct f' as [|f']; [lia|].
  cbn [relax_loop gen_pxgstrf_relax_snode_while3]. cbv beta iota zeta.
  destruct (j <? n) eqn:Hjn; decide_ifs.
  - assert (Hj' : 0 <= j < n) by lia.
    rewrite (climb_tie n relax et d Hok (Z.to_nat n) j (S f') Hj') by lia.
    pose proof (climb_range n relax et d Hok (Z.to_nat n) j Hj') as Hcr.
    set (last := relax_climb (Z.to_nat n) n relax et d j) in *.
    cbv beta iota zeta.
    rewrite (leaf_tie n d (Z.to_nat n + 1) (last + 1) (S f')) by lia.
    pose proof (leaf_range n d (Z.to_nat n + 1) (last + 1) ltac:(lia)) as Hlr.
    set (nj := relax_leaf (Z.to_nat n + 1) n d (last + 1)) in *.
    cbv beta iota zeta.
    match goal with |- gen_pxgstrf_relax_snode_while3 _ _ _ _ _ ?X = _ =>
      replace X with (nj, rs + 1, updZ fc rs j, updZ szs rs (last - j + 1)) by leaf end.
    rewrite (IH nj (rs + 1) (updZ fc rs j) (updZ szs rs (last - j + 1)) f') by lia.
    cbn [put_relax length]. unfold lenp. cbn [length]. leaf.
  - assert (j = n) by lia. subst j. cbn [put_relax fst snd]. unfold lenp. cbn [length]. leaf.
Qed.

(* THE TIE for pxgstrf_relax_snode.  For every n >= 0, every etree with etree_ok, every relax, every content of the caller's
   array and fuel >= n + 2 the translated routine does not run out of fuel and leaves in pxgstrf_relax[] exactly the list the
   model computes: entry rs = 1 .. m the rs-th (first column, size), entry m+1 the sentinel first column n, entry 0 the count m. *)
Theorem relax_snode_tie : forall n et relax fc szs fuel, 0 <= n -> etree_ok n et -> (Z.to_nat n + 2 <= fuel)%nat ->
  gen_pxgstrf_relax_snode n et relax fc szs fuel = Some (enc_relax n (relax_snode n et relax) fc szs).
Proof.
  intros n et relax fc szs fuel Hn Hok Hf. unfold gen_pxgstrf_relax_snode. cbv beta zeta.
  rewrite (desc_tie n et Hn).
  rewrite (relax_loop_tie n relax et (desc_of n et) Hok Hn (Z.to_nat n + 1) 0 1 fc szs fuel) by lia.
  unfold enc_relax, relax_snode. leaf.
Qed.

(* ---------------------------------------------------------------------------------------------------------------------- *)
(* what the model's list looks like: every size is >= 1 and there are at most n - j supernodes from column j on *)
Lemma relax_loop_ok : forall n relax et d, etree_ok n et -> forall f j, 0 <= j <= n ->
  Forall (fun p => 1 <= snd p) (relax_loop f n relax et d j) /\ lenp (relax_loop f n relax et d j) <= n - j.
Proof.
  intros n relax et d Hok. induction f as [|f IH]; intros j Hj; cbn [relax_loop].
  - split; [constructor | unfold lenp; cbn [length]; lia].
  - destruct (j <? n) eqn:Hjn; [| split; [constructor | unfold lenp; cbn [length]; lia]].
    pose proof (climb_range n relax et d Hok (Z.to_nat n) j ltac:(lia)) as Hcr.
    set (last := relax_climb (Z.to_nat n) n relax et d j) in *.
    pose proof (leaf_range n d (Z.to_nat n + 1) (last + 1) ltac:(lia)) as Hlr.
    set (nj := relax_leaf (Z.to_nat n + 1) n d (last + 1)) in *.
    destruct (IH nj ltac:(lia)) as [H1 H2]. split.
    + constructor; [cbn [snd]; lia | exact H1].
    + unfold lenp in *. cbn [length]. lia.
Qed.

Lemma relax_snode_ok : forall n et relax, 0 <= n -> etree_ok n et ->
  Forall (fun p => 1 <= snd p) (relax_snode n et relax) /\ lenp (relax_snode n et relax) <= n.
Proof.
  intros n et relax Hn Hok. unfold relax_snode.
  destruct (relax_loop_ok n relax et (desc_of n et) Hok (Z.to_nat n + 1) 0 ltac:(lia)) as [H1 H2]. split; [exact H1 | lia].
Qed.

(* reading the array back: from entry rs on it holds the list rl followed by the sentinel n *)
Fixpoint rlx_at (rfcol rsize : list Z) (n rs : Z) (rl : list (Z * Z)) : Prop :=
  match rl with
  | [] => nthZ rfcol rs = n
  | (fc, s) :: t => nthZ rfcol rs = fc /\ nthZ rsize rs = s /\ rlx_at rfcol rsize n (rs + 1) t
  end.

Lemma put_relax_below : forall l rs fc szs i, i < rs ->
  nthZ (fst (put_relax l rs fc szs)) i = nthZ fc i /\ nthZ (snd (put_relax l rs fc szs)) i = nthZ szs i.
Proof.
  induction l as [|[f s] t IH]; intros rs fc szs i Hi; cbn [put_relax fst snd]; [split; reflexivity|].
  destruct (IH (rs + 1) (updZ fc rs f) (updZ szs rs s) i ltac:(lia)) as [H1 H2].
  rewrite H1, H2, !nthZ_updZ_other by lia. split; reflexivity.
Qed.

Lemma put_relax_len : forall l rs fc szs,
  lenZ (fst (put_relax l rs fc szs)) = lenZ fc /\ lenZ (snd (put_relax l rs fc szs)) = lenZ szs.
Proof.
  induction l as [|[f s] t IH]; intros rs fc szs; cbn [put_relax fst snd]; [split; reflexivity|].
  destruct (IH (rs + 1) (updZ fc rs f) (updZ szs rs s)) as [H1 H2]. rewrite H1, H2, !lenZ_updZ. split; reflexivity.
Qed.

Lemma put_relax_at : forall n m l rs fc szs, 1 <= rs -> rs + lenp l < lenZ fc -> rs + lenp l <= lenZ szs ->
  rlx_at (updZ (fst (put_relax l rs fc szs)) (rs + lenp l) n) (updZ (snd (put_relax l rs fc szs)) 0 m) n rs l.
Proof.
  intros n m. induction l as [|[f s] t IH]; intros rs fc szs Hrs Hfc Hsz.
  - cbn [put_relax fst snd rlx_at]. unfold lenp in *. cbn [length] in *. replace (rs + Z.of_nat 0) with rs by lia.
    apply nthZ_updZ_same. lia.
  - cbn [rlx_at put_relax].
    assert (Hl : lenp ((f, s) :: t) = 1 + lenp t) by (unfold lenp; cbn [length]; lia).
    rewrite Hl in *. replace (rs + (1 + lenp t)) with (rs + 1 + lenp t) by lia.
    destruct (put_relax_below t (rs + 1) (updZ fc rs f) (updZ szs rs s) rs ltac:(lia)) as [H1 H2].
    assert (Hp : 0 <= lenp t) by (unfold lenp; lia).
    split; [|split].
    + rewrite nthZ_updZ_other by lia. rewrite H1. apply nthZ_updZ_same. lia.
    + rewrite nthZ_updZ_other by lia. rewrite H2. apply nthZ_updZ_same. lia.
    + apply IH; rewrite ?lenZ_updZ; lia.
Qed.

Lemma enc_relax_at : forall n l fc szs, lenp l <= n -> lenZ fc = n + 2 -> lenZ szs = n + 2 ->
  rlx_at (fst (enc_relax n l fc szs)) (snd (enc_relax n l fc szs)) n 1 l /\ nthZ (snd (enc_relax n l fc szs)) 0 = lenp l.
Proof.
  intros n l fc szs Hl Hfc Hsz. unfold enc_relax. cbn [fst snd]. split.
  - apply put_relax_at; lia.
  - destruct (put_relax_len l 1 fc szs) as [_ H2]. apply nthZ_updZ_same. rewrite H2. unfold lenp in *. lia.
Qed.

(* ====================================================================================================================== *)
(* ParallelInit                                                                                                             *)
Definition b2z (b : bool) : Z := if b then 1 else 0.

Lemma min_if : forall a b, (if a <? b then a else b) = Z.min a b.
Proof. intros a b. destruct (a <? b) eqn:E; lia. Qed.

Lemma upd_nat_repeat0 : forall m i, upd_nat (repeat 0 m) i 0 = repeat 0 m.
Proof. induction m as [|m IH]; intros [|i]; cbn [repeat upd_nat]; try reflexivity. now rewrite IH. Qed.

Lemma updZ_repeat0 : forall m i, updZ (repeat 0 m) i 0 = repeat 0 m.
Proof. intros m i. unfold updZ. destruct (i <? 0); [reflexivity | apply upd_nat_repeat0]. Qed.

(* for (i = 0; i <= n; ++i) pan_status[i].ukids = 0; *)
Lemma zero_tie : forall m c j, fold_left gen_ParallelInit_loop1 (zrange j (j + Z.of_nat c)) (repeat 0 m) = repeat 0 m.
Proof.
  intros m. induction c as [|c IH]; intros j.
  - rewrite zrange_nil by lia. reflexivity.
  - rewrite zrange_of_nat. cbn [fold_left]. unfold gen_ParallelInit_loop1 at 2. cbv beta zeta.
    rewrite updZ_repeat0. apply IH.
Qed.

(* for (i = 0; i < n; ++i) { dad = etree[i]; ++pan_status[dad].ukids; } *)
Lemma kids_tie_nat : forall et cnt j uk,
  fold_left (gen_ParallelInit_loop2 et) (zrange (Z.of_nat j) (Z.of_nat j + Z.of_nat cnt)) uk = count_kids et j cnt uk.
Proof.
  intros et. induction cnt as [|c IH]; intros j uk.
  - rewrite zrange_nil by lia. reflexivity.
  - rewrite zrange_of_nat. cbn [fold_left count_kids].
    replace (Z.of_nat j + 1) with (Z.of_nat (S j)) by lia. rewrite IH.
    assert (Hb : gen_ParallelInit_loop2 et uk (Z.of_nat j) =
                 updZ uk (nthZ et (Z.of_nat j)) (nthZ uk (nthZ et (Z.of_nat j)) + 1))
      by (unfold gen_ParallelInit_loop2; cbv beta zeta; first [reflexivity | f_equal; lia]).
    rewrite Hb. reflexivity.
Qed.

Lemma zero_tie0 : forall n, 0 <= n ->
  fold_left gen_ParallelInit_loop1 (zrange 0 (n + 1)) (repeat 0 (Z.to_nat (n + 1))) = repeat 0 (Z.to_nat (n + 1)).
Proof.
  intros n Hn. pose proof (zero_tie (Z.to_nat (n + 1)) (Z.to_nat (n + 1)) 0) as H.
  replace (0 + Z.of_nat (Z.to_nat (n + 1))) with (n + 1) in H by lia. exact H.
Qed.

Lemma kids_tie : forall n et uk, 0 <= n ->
  fold_left (gen_ParallelInit_loop2 et) (zrange 0 n) uk = count_kids et 0 (Z.to_nat n) uk.
Proof.
  intros n et uk Hn. pose proof (kids_tie_nat et (Z.to_nat n) 0 uk) as H. cbn [Z.of_nat] in H.
  replace (0 + Z.of_nat (Z.to_nat n)) with n in H by lia. exact H.
Qed.

(* for (k = i + 1; k < SUPERLU_MIN(i + panel_size, n); ++k) if ( k == relax[rs].fcol ) { w = k - i; break; }
   if ( k == n ) w = n - i; *)
Lemma scan_tie : forall n rfcol psz i rs f k w f',
  Z.min (i + psz) n - k <= Z.of_nat f -> Z.min (i + psz) n - k < Z.of_nat f' -> (0 < f')%nat ->
  exists w' k', gen_ParallelInit_while1 f' n rfcol psz i rs (w, k) = Some (w', k') /\
                (if k' =? n then n - i else w') = scan_relax f k (Z.min (i + psz) n) i n w (nthZ rfcol rs).
Proof.
  intros n rfcol psz i rs. induction f as [|f IH]; intros k w f' Hf Hf' Hp; (destruct f' as [|f']; [lia|]);
    cbn [scan_relax gen_ParallelInit_while1]; cbv beta iota zeta; rewrite ?min_if.
  - destruct (k <? Z.min (i + psz) n) eqn:Hk; [lia|]. decide_ifs. exists w, k. split; reflexivity.
  - destruct (k <? Z.min (i + psz) n) eqn:Hk; decide_ifs; [| exists w, k; split; reflexivity].
    destruct (k =? nthZ rfcol rs) eqn:Hr; decide_ifs.
    + eexists _, k. split; [reflexivity|]. destruct (k =? n) eqn:Hkn; lia.
    + apply IH; lia.
Qed.

Lemma scan_le : forall n psz i rsf f k, i < k <= Z.min (i + psz) n -> Z.min (i + psz) n - k <= Z.of_nat f ->
  scan_relax f k (Z.min (i + psz) n) i n psz rsf <= n - i.
Proof.
  intros n psz i rsf. induction f as [|f IH]; intros k Hk Hf; cbn [scan_relax].
  - destruct (k =? n) eqn:Hkn; lia.
  - destruct (k <? Z.min (i + psz) n) eqn:Hlt.
    + destruct (k =? rsf) eqn:Hr; [lia | apply IH; lia].
    + destruct (k =? n) eqn:Hkn; lia.
Qed.

(* for (j = i+1; j < i + w; ++j) if ( pan_status[j].ukids > 1 ) break; *)
Lemma branch_tie : forall i uk w f j f', i + w - j <= Z.of_nat f -> i + w - j < Z.of_nat f' -> (0 < f')%nat ->
  gen_ParallelInit_while2 f' i uk w j = Some (scan_branch f j (i + w) uk).
Proof.
  intros i uk w. induction f as [|f IH]; intros j f' Hf Hf' Hp; (destruct f' as [|f']; [lia|]);
    cbn [scan_branch gen_ParallelInit_while2]; cbv beta iota zeta.
  - destruct (j <? i + w) eqn:Hj; [lia |]. decide_ifs. reflexivity.
  - destruct (j <? i + w) eqn:Hj; decide_ifs; [| reflexivity].
    destruct (1 <? nthZ uk j) eqn:Hu; decide_ifs; [reflexivity|]. apply IH; lia.
Qed.

Lemma branch_ge : forall uk lim f j, j <= scan_branch f j lim uk.
Proof.
  intros uk lim. induction f as [|f IH]; intros j; cbn [scan_branch]; [lia|].
  destruct (j <? lim); [|lia]. destruct (1 <? nthZ uk j); [lia|]. pose proof (IH (j + 1)) as Hrec. lia.
Qed.

(* ukids = k = 0; for (j = i; j < i + w; ++j) { pan_status[j].size = k--; pan_status[j].type = panel_type;
                                                 ukids += pan_status[j].ukids; } *)
Lemma fill_tie : forall uk t c j k tp szs acc,
  fold_left (gen_ParallelInit_loop3 uk t) (zrange j (j + Z.of_nat c)) (acc, k, tp, szs) =
  (snd (fill_panel c j k t tp szs uk acc), k - Z.of_nat c,
   fst (fst (fill_panel c j k t tp szs uk acc)), snd (fst (fill_panel c j k t tp szs uk acc))).
Proof.
  intros uk t. induction c as [|c IH]; intros j k tp szs acc.
  - rewrite zrange_nil by lia. cbn [fold_left fill_panel fst snd]. leaf.
  - rewrite zrange_of_nat. cbn [fold_left fill_panel].
    unfold gen_ParallelInit_loop3 at 2. cbv beta iota zeta. rewrite IH. leaf.
Qed.

(* ---------------------------------------------------------------------------------------------------------------------- *)
(* the panel loop  for (i = 0; i < n; ) { .. i += w; }  : the state of the translated loop as a function of the model's *)
Definition enc_pi (a : pinit) (w i rs : Z) :=
  (w, i, rs, b2z (pi_split a), pi_tp a, pi_st a, pi_sz a, pi_uk a, pi_fb a, pi_tasks a, pi_splits a).

Definition hd_fcol (n : Z) (rl : list (Z * Z)) : Z := match rl with (fc, _) :: _ => fc | [] => n end.

(* one iteration of the model's loop, relaxed supernode of size s at column i ... *)
Definition rel_step (s i : Z) (a : pinit) : pinit :=
  let r := fill_panel (Z.to_nat s) i 0 c_RELAXED_SNODE (pi_tp a) (pi_sz a) (pi_uk a) 0 in
  mkPI (fst (fst r)) (updZ (pi_st a) i c_CANGO) (updZ (snd (fst r)) i s) (updZ (pi_uk a) i (snd r - (s - 1)))
       (updZ (pi_fb a) i i) (pi_tasks a) (pi_splits a) (pi_split a).

(* ... and regular panel at column i (rsf = first column of the next relaxed supernode): its width and the new state *)
Definition reg_w (n psz wtop rsf i : Z) (a : pinit) : Z :=
  let w0 := scan_relax (Z.to_nat psz) (i + 1) (Z.min (i + psz) n) i n psz rsf in
  let ds := pi_split a || (n - i <? psz * 12) in
  let w1 := if ds && (wtop <? w0) then wtop else w0 in
  scan_branch (Z.to_nat w1) (i + 1) (i + w1) (pi_uk a) - i.

Definition reg_step (n psz wtop rsf i : Z) (a : pinit) : pinit :=
  let w0 := scan_relax (Z.to_nat psz) (i + 1) (Z.min (i + psz) n) i n psz rsf in
  let ds := pi_split a || (n - i <? psz * 12) in
  let sp := if ds && (wtop <? w0) then pi_splits a + 1 else pi_splits a in
  let w2 := reg_w n psz wtop rsf i a in
  let r := fill_panel (Z.to_nat w2) i 0 c_REGULAR_PANEL (pi_tp a) (pi_sz a) (pi_uk a) 0 in
  mkPI (fst (fst r)) (updZ (pi_st a) i c_UNREADY) (updZ (snd (fst r)) i w2) (updZ (pi_uk a) i (snd r - (w2 - 1)))
       (updZ (pi_fb a) i i) (pi_tasks a + 1) sp ds.

Lemma reg_w_ge : forall n psz wtop rsf i a, 1 <= reg_w n psz wtop rsf i a.
Proof.
  intros n psz wtop rsf i a. unfold reg_w. cbv zeta.
  match goal with |- 1 <= scan_branch ?f ?j ?lim ?uk - i => pose proof (branch_ge uk lim f j) as Hge end. lia.
Qed.

Lemma panel_loop_rel : forall f n psz wtop fc s t i a, (i <? n) = true -> (fc =? i) = true ->
  panel_loop (S f) n psz wtop ((fc, s) :: t) i a = panel_loop f n psz wtop t (i + s) (rel_step s i a).
Proof.
  intros f n psz wtop fc s t i a Hin Hfc. cbn [panel_loop]. rewrite Hin. cbv beta iota zeta. rewrite Hfc. cbv beta iota zeta.
  unfold rel_step. cbv zeta. cbn [tl].
  destruct (fill_panel (Z.to_nat s) i 0 c_RELAXED_SNODE (pi_tp a) (pi_sz a) (pi_uk a) 0) as [[tp' sz'] u].
  reflexivity.
Qed.

Lemma panel_loop_reg : forall f n psz wtop rl i a, (i <? n) = true -> (hd_fcol n rl =? i) = false ->
  panel_loop (S f) n psz wtop rl i a =
  panel_loop f n psz wtop rl (i + reg_w n psz wtop (hd_fcol n rl) i a) (reg_step n psz wtop (hd_fcol n rl) i a).
Proof.
  intros f n psz wtop rl i a Hin Hfc. cbn [panel_loop]. rewrite Hin. unfold hd_fcol in *. cbv beta zeta. rewrite Hfc.
  unfold reg_step, reg_w. cbv beta zeta.
  match goal with |- context [if ?c then (wtop, ?x) else ?y] => destruct c end; cbv beta iota zeta;
    match goal with |- context [fill_panel ?a1 ?a2 ?a3 ?a4 ?a5 ?a6 ?a7 ?a8] =>
      destruct (fill_panel a1 a2 a3 a4 a5 a6 a7 a8) as [[tp' sz'] u] end; reflexivity.
Qed.

Lemma ds_eq : forall b t : bool, (if negb (negb (b2z b =? 0)) then (if t then 1 else b2z b) else b2z b) = b2z (b || t).
Proof. intros [|] [|]; reflexivity. Qed.
Lemma nz_b2z : forall b : bool, negb (b2z b =? 0) = b.
Proof. intros [|]; reflexivity. Qed.

Lemma gen_step_rel : forall n rfcol rsize psz wtop f' w i rs a s,
  (i <? n) = true -> (nthZ rfcol rs =? i) = true -> nthZ rsize rs = s -> 1 <= s ->
  gen_ParallelInit_while3 (S f') n rfcol rsize psz wtop 12 (enc_pi a w i rs) =
  gen_ParallelInit_while3 f' n rfcol rsize psz wtop 12 (enc_pi (rel_step s i a) s (i + s) (rs + 1)).
Proof.
  intros n rfcol rsize psz wtop f' w i rs a s Hin Hfc Hs Hs1.
  cbn [gen_ParallelInit_while3]. unfold enc_pi at 1. cbv beta iota zeta. decide_ifs. rewrite Hs.
  pose proof (fill_tie (pi_uk a) c_RELAXED_SNODE (Z.to_nat s) i 0 (pi_tp a) (pi_sz a) 0) as Hfill.
  rewrite Z2Nat.id in Hfill by lia. rewrite Hfill. cbv beta iota zeta.
  unfold enc_pi, rel_step. cbv zeta. cbn [pi_tp pi_st pi_sz pi_uk pi_fb pi_tasks pi_splits pi_split].
  first [reflexivity | f_equal; leaf].
Qed.

Lemma gen_step_reg : forall n rfcol rsize psz wtop f' w i rs a,
  (i <? n) = true -> (nthZ rfcol rs =? i) = false -> 1 <= psz -> 0 <= i -> n - i + 1 < Z.of_nat (S f') ->
  gen_ParallelInit_while3 (S f') n rfcol rsize psz wtop 12 (enc_pi a w i rs) =
  gen_ParallelInit_while3 f' n rfcol rsize psz wtop 12
    (enc_pi (reg_step n psz wtop (nthZ rfcol rs) i a) (reg_w n psz wtop (nthZ rfcol rs) i a)
            (i + reg_w n psz wtop (nthZ rfcol rs) i a) rs).
Proof.
  intros n rfcol rsize psz wtop f' w i rs a Hin Hfc Hpsz Hi Hf'.
  cbn [gen_ParallelInit_while3]. unfold enc_pi at 1. cbv beta iota zeta. decide_ifs.
  destruct (scan_tie n rfcol psz i rs (Z.to_nat psz) (i + 1) psz (S f')) as (w' & k' & E1 & E2); [lia | lia | lia |].
  rewrite E1. cbv beta iota zeta.
  pose proof (scan_le n psz i (nthZ rfcol rs) (Z.to_nat psz) (i + 1) ltac:(lia) ltac:(lia)) as Hw0.
  unfold reg_step, reg_w. cbv zeta.
  set (w0 := scan_relax (Z.to_nat psz) (i + 1) (Z.min (i + psz) n) i n psz (nthZ rfcol rs)) in *.
  (* `if ( k == n ) w = n - i;` : the value of w after it is the model's w0 *)
  destruct (k' =? n) eqn:Hkn; clearbody w0; subst w0; decide_ifs;
  (* the three tests of the splitting rule, case by case *)
  destruct (pi_split a) eqn:Hsplit; destruct (n - i <? psz * 12) eqn:Htest;
  try (match goal with |- context [wtop <? ?W] => destruct (wtop <? W) eqn:Hwt end);
  cbn [b2z orb andb]; decide_ifs;
  match goal with |- context [gen_ParallelInit_while2 _ _ _ ?w1 _] =>
    rewrite (branch_tie i (pi_uk a) w1 (Z.to_nat w1) (i + 1) (S f')) by lia; cbv beta iota zeta;
    pose proof (branch_ge (pi_uk a) (i + w1) (Z.to_nat w1) (i + 1)) as Hge;
    set (w2 := scan_branch (Z.to_nat w1) (i + 1) (i + w1) (pi_uk a) - i) in *;
    pose proof (fill_tie (pi_uk a) c_REGULAR_PANEL (Z.to_nat w2) i 0 (pi_tp a) (pi_sz a) 0) as Hfill;
    rewrite Z2Nat.id in Hfill by lia; rewrite Hfill; cbv beta iota zeta;
    unfold enc_pi; cbn [pi_tp pi_st pi_sz pi_uk pi_fb pi_tasks pi_splits pi_split b2z]; first [reflexivity | f_equal; leaf]
  end.
Qed.

Lemma panel_tie : forall n rfcol rsize psz wtop, 1 <= psz ->
  forall f i rl rs a w f', 0 <= i -> rlx_at rfcol rsize n rs rl -> Forall (fun p => 1 <= snd p) rl ->
  n - i <= Z.of_nat f -> n - i + 1 < Z.of_nat f' -> (0 < f')%nat ->
  exists w' i' rs', gen_ParallelInit_while3 f' n rfcol rsize psz wtop 12 (enc_pi a w i rs) =
                    Some (enc_pi (panel_loop f n psz wtop rl i a) w' i' rs').
Proof.
  intros n rfcol rsize psz wtop Hpsz. induction f as [|f IH]; intros i rl rs a w f' Hi Hrl Hall Hf Hf' Hp;
    (destruct f' as [|f']; [lia|]).
  - cbn [panel_loop gen_ParallelInit_while3]. unfold enc_pi at 1. cbv beta iota zeta.
    destruct (i <? n) eqn:Hin; [lia|]. decide_ifs. exists w, i, rs. reflexivity.
  - destruct (i <? n) eqn:Hin.
    2: { cbn [panel_loop gen_ParallelInit_while3]. rewrite ?Hin. unfold enc_pi at 1. cbv beta iota zeta. decide_ifs.
         exists w, i, rs. reflexivity. }
    destruct rl as [|[fc s] t].
    + (* no relaxed supernode left: the sentinel n *)
      pose proof Hrl as Hrl0. cbn [rlx_at] in Hrl0.
      rewrite (gen_step_reg n rfcol rsize psz wtop f' w i rs a Hin) by lia.
      rewrite (panel_loop_reg f n psz wtop [] i a Hin) by (cbn [hd_fcol]; lia).
      cbn [hd_fcol]. rewrite Hrl0.
      pose proof (reg_w_ge n psz wtop n i a) as Hw.
      apply IH; [lia | exact Hrl | exact Hall | lia | lia | lia].
    + pose proof Hrl as Hrl0. cbn [rlx_at] in Hrl0. destruct Hrl0 as (H1 & H2 & H3).
      destruct (fc =? i) eqn:Hfc.
      * (* a relaxed supernode starts at column i *)
        assert (Hs : 1 <= s) by (inversion Hall as [|x l Hx Hl]; exact Hx).
        rewrite (gen_step_rel n rfcol rsize psz wtop f' w i rs a s Hin) by (rewrite ?H1; auto).
        rewrite (panel_loop_rel f n psz wtop fc s t i a Hin Hfc).
        apply IH; [lia | exact H3 | inversion Hall as [|x l Hx Hl]; exact Hl | lia | lia | lia].
      * rewrite (gen_step_reg n rfcol rsize psz wtop f' w i rs a Hin) by (rewrite ?H1; lia).
        rewrite (panel_loop_reg f n psz wtop ((fc, s) :: t) i a Hin) by (cbn [hd_fcol]; exact Hfc).
        cbn [hd_fcol]. rewrite H1.
        pose proof (reg_w_ge n psz wtop fc i a) as Hw.
        apply IH; [lia | exact Hrl | exact Hall | lia | lia | lia].
Qed.

(* ---------------------------------------------------------------------------------------------------------------------- *)
(* EnqueueRelaxSnode:  m = relax[0].size; for (rs = 1; rs <= m; ++rs) { j = relax[rs].fcol; queue[tail++] = j; count++;
                                                                         ++tasks_remain; }                                  *)
Fixpoint putq (l : list Z) (t : Z) (qu : list Z) : list Z :=
  match l with [] => qu | x :: r => putq r (t + 1) (updZ qu t x) end.

Lemma enq_tie : forall rfcol rsize n rl rs qu tl ct tk, rlx_at rfcol rsize n rs rl ->
  fold_left (gen_EnqueueRelaxSnode_loop1 rfcol) (zrange rs (rs + lenp rl)) (qu, tl, ct, tk) =
  (putq (map fst rl) tl qu, tl + lenp rl, ct + lenp rl, tk + lenp rl).
Proof.
  intros rfcol rsize n. induction rl as [|[fc s] t IH]; intros rs qu tl ct tk Hrl.
  - unfold lenp. cbn [length map putq]. rewrite zrange_nil by lia. cbn [fold_left]. leaf.
  - cbn [rlx_at] in Hrl. destruct Hrl as (H1 & _ & H3).
    unfold lenp. cbn [length]. rewrite zrange_of_nat. cbn [fold_left map fst putq].
    unfold gen_EnqueueRelaxSnode_loop1 at 2. cbv beta iota zeta. rewrite H1.
    fold (lenp t). rewrite (IH (rs + 1) _ _ _ _ H3). unfold lenp. leaf.
Qed.

Lemma upd_nat_app_mid : forall (pre : list Z) y r x, upd_nat (pre ++ y :: r) (length pre) x = pre ++ x :: r.
Proof. induction pre as [|h p IH]; intros y r x; cbn [app length upd_nat]; [reflexivity | now rewrite IH]. Qed.

Lemma putq_repeat : forall l pre c, (length l <= c)%nat ->
  putq l (Z.of_nat (length pre)) (pre ++ repeat 0 c) = pre ++ l ++ repeat 0 (c - length l).
Proof.
  induction l as [|x r IH]; intros pre c Hc; cbn [putq length app].
  - now rewrite Nat.sub_0_r.
  - cbn [length] in Hc. destruct c as [|c]; [lia|]. cbn [repeat].
    unfold updZ. destruct (Z.of_nat (length pre) <? 0) eqn:E; [lia|]. rewrite Nat2Z.id, upd_nat_app_mid.
    replace (pre ++ x :: repeat 0 c) with ((pre ++ [x]) ++ repeat 0 c) by (rewrite <- app_assoc; reflexivity).
    replace (Z.of_nat (length pre) + 1) with (Z.of_nat (length (pre ++ [x]))) by (rewrite app_length; cbn [length]; lia).
    rewrite IH by lia. rewrite <- app_assoc. cbn [app Nat.sub]. reflexivity.
Qed.

(* ---------------------------------------------------------------------------------------------------------------------- *)
(* the model's initial state as a function of the list of relaxed supernodes *)
Definition parallel_init_from (n : Z) (et : list Z) (psz : Z) (rlx : list (Z * Z)) : sstate :=
  let np1 := Z.to_nat (n + 1) in
  let uk0 := count_kids et 0 (Z.to_nat n) (repeat 0 np1) in
  let wtop := if psz / 2 =? 0 then 1 else psz / 2 in
  let a := panel_loop (Z.to_nat n) n psz wtop rlx 0
             (mkPI (repeat 0 np1) (repeat 0 np1) (repeat 0 np1) uk0 (repeat 0 np1) 0 0 false) in
  let m := Z.of_nat (length rlx) in
  mkS n et (pi_tp a) (updZ (pi_st a) n c_UNREADY) (updZ (pi_sz a) n 1) (pi_uk a) (pi_fb a)
      (map fst rlx ++ repeat 0 (Z.to_nat (n - m))) 0 m m
      (pi_tasks a + m) (pi_splits a) (repeat 0 (Z.to_nat n)).

Lemma parallel_init_eq : forall n et psz relax,
  parallel_init n et psz relax = parallel_init_from n et psz (relax_snode n et relax).
Proof. reflexivity. Qed.

(* every field of the sstate that ParallelInit writes, in the order of the generated result *)
Definition enc_state (s : sstate) :=
  (ptype s, pstate s, psize s, pukids s, fb s, q s, qhead s, qtail s, qcount s, tasks s, nsplits s, spin s).

(* ParallelInit on the array that holds the list rlx.  1 <= n: for n < 1 queue_init fails and ParallelInit ABORTS
   (gen_ParallelInit = Some Aborted), while the model returns a state. *)
Theorem parallel_init_tie_from : forall n et psz relax rlx rfcol rsize q0 h0 t0 c0 fuel,
  1 <= n -> 1 <= psz -> rlx_at rfcol rsize n 1 rlx -> nthZ rsize 0 = lenp rlx ->
  Forall (fun p => 1 <= snd p) rlx -> lenp rlx <= n -> (Z.to_nat n + 2 <= fuel)%nat ->
  gen_ParallelInit n et psz relax rfcol rsize q0 h0 t0 c0 0 fuel =
  Some (Returned (enc_state (parallel_init_from n et psz rlx))).
Proof.
  intros n et psz relax rlx rfcol rsize q0 h0 t0 c0 fuel Hn Hpsz Hrl Hm Hall Hlen Hf.
  unfold gen_ParallelInit, gen_queue_init. cbv beta zeta.
  destruct (n <? 1) eqn:Hn1; [lia|]. cbv beta iota zeta. cbn [Z.eqb negb].
  rewrite (zero_tie0 n) by lia. rewrite (kids_tie n et) by lia.
  rewrite Z.quot_div_nonneg by lia.
  set (np1 := Z.to_nat (n + 1)). set (uk0 := count_kids et 0 (Z.to_nat n) (repeat 0 np1)).
  set (wtop := if psz / 2 =? 0 then 1 else psz / 2).
  set (a0 := mkPI (repeat 0 np1) (repeat 0 np1) (repeat 0 np1) uk0 (repeat 0 np1) 0 0 false).
  destruct (panel_tie n rfcol rsize psz wtop Hpsz (Z.to_nat n) 0 rlx 1 a0 ((if psz >? relax then psz else relax) + 1) fuel
              ltac:(lia) Hrl Hall ltac:(lia) ltac:(lia) ltac:(lia)) as (w' & i' & rs' & E).
  unfold enc_pi in E. unfold a0 at 1 2 3 4 5 6 7 8 in E. cbn [pi_tp pi_st pi_sz pi_uk pi_fb pi_tasks pi_splits pi_split b2z] in E.
  rewrite E. cbv beta iota zeta.
  unfold gen_EnqueueRelaxSnode. cbv beta zeta. rewrite Hm.
  replace (lenp rlx + 1) with (1 + lenp rlx) by lia. rewrite (enq_tie rfcol rsize n rlx 1 _ _ _ _ Hrl). cbv beta iota zeta.
  unfold enc_state, parallel_init_from. cbv zeta. fold np1 uk0 wtop a0.
  cbn [ptype pstate psize pukids fb q qhead qtail qcount tasks nsplits spin].
  pose proof (putq_repeat (map fst rlx) [] (Z.to_nat n)) as Hq. cbn [app length Z.of_nat] in Hq.
  rewrite Hq by (rewrite map_length; unfold lenp in Hlen; lia). rewrite map_length.
  do 2 f_equal. unfold lenp. c2g_split; try reflexivity; try lia.
  do 2 f_equal. lia.
Qed.

(* THE TIE for ParallelInit, on the array that the translated pxgstrf_relax_snode leaves (relax_snode_tie): every field of the
   model's initial state.  fc0 / sz0 : the caller's array pxgstrf_relax[] (n + 2 entries, any contents); q0 h0 t0 c0 : the
   fields of pxgstrf_shared->taskq on entry (any values: queue_init overwrites them). *)
Theorem parallel_init_tie : forall n et psz relax fc0 sz0 q0 h0 t0 c0 fuel,
  1 <= n -> etree_ok n et -> 1 <= psz -> lenZ fc0 = n + 2 -> lenZ sz0 = n + 2 -> (Z.to_nat n + 2 <= fuel)%nat ->
  gen_ParallelInit n et psz relax (fst (enc_relax n (relax_snode n et relax) fc0 sz0))
                   (snd (enc_relax n (relax_snode n et relax) fc0 sz0)) q0 h0 t0 c0 0 fuel =
  Some (Returned (enc_state (parallel_init n et psz relax))).
Proof.
  intros n et psz relax fc0 sz0 q0 h0 t0 c0 fuel Hn Hok Hpsz Hfc Hsz Hf.
  destruct (relax_snode_ok n et relax ltac:(lia) Hok) as [Hall Hlen].
  destruct (enc_relax_at n (relax_snode n et relax) fc0 sz0 Hlen Hfc Hsz) as [Hat Hm].
  rewrite parallel_init_eq. apply parallel_init_tie_from; assumption.
Qed.

(* the two routines in the order of p?gstrf_thread_init.c: pxgstrf_relax_snode, then ParallelInit on the array it filled; the
   result packed into a model state (n and etree are inputs that neither routine writes) *)
Definition gen_init (n : Z) (et : list Z) (psz relax : Z) (fc0 sz0 q0 : list Z) (h0 t0 c0 : Z) (fuel : nat) : option sstate :=
  match gen_pxgstrf_relax_snode n et relax fc0 sz0 fuel with
  | Some (rf, rsz) =>
      match gen_ParallelInit n et psz relax rf rsz q0 h0 t0 c0 0 fuel with
      | Some (Returned (tp, stt, szs, uk, fbc, qu, hd, tl, ct, tk, ns, sp)) =>
          Some (mkS n et tp stt szs uk fbc qu hd tl ct tk ns sp)
      | _ => None
      end
  | None => None
  end.

Theorem init_tie : forall n et psz relax fc0 sz0 q0 h0 t0 c0 fuel,
  1 <= n -> etree_ok n et -> 1 <= psz -> lenZ fc0 = n + 2 -> lenZ sz0 = n + 2 -> (Z.to_nat n + 2 <= fuel)%nat ->
  gen_init n et psz relax fc0 sz0 q0 h0 t0 c0 fuel = Some (parallel_init n et psz relax).
Proof.
  intros n et psz relax fc0 sz0 q0 h0 t0 c0 fuel Hn Hok Hpsz Hfc Hsz Hf. unfold gen_init.
  rewrite (relax_snode_tie n et relax fc0 sz0 fuel ltac:(lia) Hok Hf).
  rewrite (surjective_pairing (enc_relax n (relax_snode n et relax) fc0 sz0)).
  rewrite (parallel_init_tie n et psz relax fc0 sz0 q0 h0 t0 c0 fuel Hn Hok Hpsz Hfc Hsz Hf).
  unfold enc_state. rewrite parallel_init_eq. unfold parallel_init_from. cbv zeta.
  cbn [ptype pstate psize pukids fb q qhead qtail qcount tasks nsplits spin]. reflexivity.
Qed.

(* for n = 0 the C routine aborts (queue_init returns -1), whatever the other arguments *)
Theorem parallel_init_aborts_n0 : forall et psz relax rfcol rsize q0 h0 t0 c0 junk fuel,
  gen_ParallelInit 0 et psz relax rfcol rsize q0 h0 t0 c0 junk fuel = Some Aborted.
Proof. intros et psz relax rfcol rsize q0 h0 t0 c0 junk fuel. reflexivity. Qed.

(* ====================================================================================================================== *)
(* a run of the thread protocol in which every scheduler call is a call of the TRANSLATED scheduler (SchedGen.v through
   SchedTie.gen_sched_state, with the fuel fuel_of = n + 2 and *bcol = 0 on entry); the other two steps (the worker finishes
   its panel, the loop test `tasks_remain > 0`) are the model's: they are not part of the translated sources *)
From SLU Require Import SchedGen SchedTie SchedInv SchedProofs SchedGuard SchedFair.

Definition src_step (g : gstate) (l : label) : option gstate :=
  match l with
  | LCall t =>
      let '(m, cur) := thr_get (thr g) t in
      if inb t (Z.of_nat (length (thr g))) && (m =? M_READY)
      then match gen_sched_state (gs g) cur 0 (fuel_of (gs g)) with
           | Some (s', j, _) => Some (mkG s' (thr_upd (thr g) t (if j =? c_EMPTY then M_TEST else M_WORK, j)))
           | None => None
           end
      else None
  | _ => gstep g l
  end.

Fixpoint src_run (g : gstate) (ls : list label) : option gstate :=
  match ls with
  | [] => Some g
  | l :: r => match src_step g l with Some g' => src_run g' r | None => None end
  end.

Lemma src_step_is_gstep : forall s0 P g l, reachable s0 P g -> src_step g l = gstep g l.
Proof.
  intros s0 P g l R. destruct l as [t|t|t]; try reflexivity.
  cbn [src_step gstep]. destruct (thr_get (thr g) t) as [m cur] eqn:G.
  destruct (inb t (Z.of_nat (length (thr g))) && (m =? M_READY)) eqn:Hc; [|reflexivity].
  apply andb_true_iff in Hc as [Ht Hm]. apply inb_true in Ht. apply Z.eqb_eq in Hm. subst m.
  rewrite (sched_tie_reachable s0 P g t cur 0 (fuel_of (gs g)) R ltac:(unfold tlen; lia) G (le_n _)).
  destruct (sched (gs g) cur) as [[s' j] b]. reflexivity.
Qed.

Lemma reachable_step : forall s0 P g l g', reachable s0 P g -> gstep g l = Some g' -> reachable s0 P g'.
Proof.
  intros s0 P g l g' [Hc (ls & Hr)] Hs. split; [exact Hc|]. exists (ls ++ [l]).
  apply (grun_app ls _ g [l] g' Hr). cbn [grun]. rewrite Hs. reflexivity.
Qed.

Theorem src_run_is_grun : forall s0 P ls g, reachable s0 P g -> src_run g ls = grun g ls.
Proof.
  intros s0 P. induction ls as [|l r IH]; intros g R; cbn [src_run grun]; [reflexivity|].
  rewrite (src_step_is_gstep s0 P g l R). destruct (gstep g l) as [g'|] eqn:Hs; [|reflexivity].
  apply IH. exact (reachable_step s0 P g l g' R Hs).
Qed.

(* THE COROLLARY.  Translated init, then any interleaving of P threads whose scheduler calls are calls of the translated
   scheduler: the initial state is the model's parallel_init, the run is a run of the model (same result, step by step), and
   every state it reaches is a reachable state of the model started from parallel_init (so every C03 / C04 theorem applies).
   check_init is the executable admission test of the model's theorems (SchedInv.v). *)
Theorem source_init_run_in_model : forall n et psz relax fc0 sz0 q0 h0 t0 c0 fuel s0 P ls,
  1 <= n -> etree_ok n et -> 1 <= psz -> lenZ fc0 = n + 2 -> lenZ sz0 = n + 2 -> (Z.to_nat n + 2 <= fuel)%nat ->
  gen_init n et psz relax fc0 sz0 q0 h0 t0 c0 fuel = Some s0 -> check_init s0 = true ->
  s0 = parallel_init n et psz relax /\
  src_run (ginit s0 P) ls = grun (ginit s0 P) ls /\
  forall g, src_run (ginit s0 P) ls = Some g -> reachable (parallel_init n et psz relax) P g.
Proof.
  intros n et psz relax fc0 sz0 q0 h0 t0 c0 fuel s0 P ls Hn Hok Hpsz Hfc Hsz Hf E Hc.
  rewrite (init_tie n et psz relax fc0 sz0 q0 h0 t0 c0 fuel Hn Hok Hpsz Hfc Hsz Hf) in E. injection E as E. subst s0.
  assert (R0 : reachable (parallel_init n et psz relax) P (ginit (parallel_init n et psz relax) P))
    by (split; [exact Hc | exists []; reflexivity]).
  split; [reflexivity|]. split; [exact (src_run_is_grun _ P ls _ R0)|].
  intros g Hr. rewrite (src_run_is_grun _ P ls _ R0) in Hr. split; [exact Hc | exists ls; exact Hr].
Qed.

(* a concrete instance (not vacuous): the forest of SchedProofs.ex_init (9 columns, two branches meeting at column 5),
   panel_size 2, relax 1; the caller's arrays and the queue fields hold arbitrary values on entry *)
Example ex_gen_init :
  gen_init 9 ex_forest 2 1 (repeat 7 11) (repeat 9 11) [3; 3] 4 5 6 11 = Some ex_init /\ check_init ex_init = true.
Proof. split; vm_compute; reflexivity. Qed.
