(* Properties_C16.v -- property theorems for C16.  Only statements closed by `exact`, and Print Assumptions. *)
From Coq Require Import ZArith List.
From SLU Require Import PivotModel PivotProofs SymModel AllocModel AllocProofs.
Import ListNotations.
Local Open Scope Z_scope.

(* threshold 0, no pivot reuse: the original diagonal entry is the pivot whenever it is nonzero *)
Theorem c16_diag_pivot_at_zero_threshold : forall c oldrow diagind d,
  nonneg c -> NoDup (map fst c) -> (d < length c)%nat -> row_at c d = diagind -> mag_at c d <> 0 ->
  let r := pivotL c false oldrow diagind 0 in
  pr_singular r = false /\ pr_row r = diagind /\ pr_ptr r = d.
Proof. exact diag_pivot_at_zero_threshold. Qed.
Print Assumptions c16_diag_pivot_at_zero_threshold.

(* consequently the row permutation equals the column permutation *)
Theorem c16_perm_r_equals_perm_c : forall n (perm_c perm_r inv_perm_c : Z -> Z),
  (forall i, 0 <= i < n -> 0 <= perm_c i < n /\ inv_perm_c (perm_c i) = i) ->
  (forall j, 0 <= j < n -> perm_r (inv_perm_c j) = j) ->
  forall i, 0 <= i < n -> perm_r i = perm_c i.
Proof. exact perm_r_equals_perm_c. Qed.
Print Assumptions c16_perm_r_equals_perm_c.

(* storage: a slot sized with the symmetric (Cholesky of A^T+A) prediction suffices as long as the prediction dominates
   the actual column lengths -- PARTIAL, as in C05: the domination itself is monitored per run *)
Theorem c16_slot_suffices_partial : forall start w rows reqs, 0 <= w -> 0 <= rows ->
  Z.of_nat (length reqs) <= w -> (forall r, In r reqs -> 0 <= r <= rows) ->
  forall l, bump_all start (start + w * rows) reqs = Some l \/ True ->
  exists l', bump_all start (start + w * rows) reqs = Some l' /\ blocks_ok start (start + w * rows) l'.
Proof. exact lusup_slot_suffices. Qed.
Print Assumptions c16_slot_suffices_partial.

From SLU Require Import SymFill.

(* with diagonal pivots (no row interchange) the fill of the matrix stays inside the fill of A^T + A at every stage of the
   elimination: monotonicity of the elimination step, induction on the number of eliminated columns (any n, any pattern) *)
Theorem c16_fill_within_symmetric : forall k (P : pat) i j, elim k P i j = true -> elim k (symm P) i j = true.
Proof. exact fill_within_symmetric. Qed.
Print Assumptions c16_fill_within_symmetric.

(* hence every column of L has at most as many entries as the symmetric (Cholesky of A^T + A) prediction *)
Theorem c16_column_counts_dominated : forall n (P : pat) j, (lcount n (elim n P) j <= lcount n (elim n (symm P)) j)%nat.
Proof. exact lcount_le. Qed.
Print Assumptions c16_column_counts_dominated.

(* the executable (tabulated) column counts used in the correspondence are those of the abstract elimination *)
Theorem c16_executable_counts : forall n (P : pat) j, (j < n)%nat -> lcountT n P j = lcount n (elim n P) j.
Proof. exact lcountT_eq. Qed.
Print Assumptions c16_executable_counts.

From Coq Require Import Reals.
From SLU Require Import DiagDom.

(* the hypothesis "the diagonal entries stay nonzero during elimination" holds for EVERY column diagonally dominant matrix
   (exact arithmetic): the Schur complement of a column diagonally dominant trailing block is column diagonally dominant *)
Theorem c16_dominance_preserved : forall n k (A : rmat), (k < n)%nat -> cdd n k A -> cdd n (S k) (gstep k A).
Proof. exact gstep_cdd. Qed.
Print Assumptions c16_dominance_preserved.

Theorem c16_pivots_nonzero : forall n (A : rmat), cdd n 0 A -> forall k, (k < n)%nat -> (gelim k A k k <> 0)%R.
Proof. exact diag_dominant_pivots_nonzero. Qed.
Print Assumptions c16_pivots_nonzero.

(* ... and for every ROW diagonally dominant matrix (one elimination step commutes with transposition).  Here the diagonal
   need not be the largest entry of its column (rdd_not_column_max): it is the pivot rule's diagonal preference at threshold 0,
   not the magnitude test, that keeps perm_r = perm_c on such inputs (generator "rowdom" of the check) *)
Theorem c16_row_dominance_preserved : forall n k (A : rmat), (k < n)%nat -> rdd n k A -> rdd n (S k) (gstep k A).
Proof. exact gstep_rdd. Qed.
Print Assumptions c16_row_dominance_preserved.

Theorem c16_row_dominant_pivots_nonzero : forall n (A : rmat), rdd n 0 A -> forall k, (k < n)%nat -> (gelim k A k k <> 0)%R.
Proof. exact row_dominant_pivots_nonzero. Qed.
Print Assumptions c16_row_dominant_pivots_nonzero.
