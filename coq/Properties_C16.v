(* Properties_C16.v -- property theorems for C16.  Only statements closed by `exact`, and Print Assumptions. *)
From Coq Require Import ZArith List.
From SLU Require Import PivotModel PivotProofs SymModel AllocModel AllocProofs.
Import ListNotations.
Local Open Scope Z_scope.

(* threshold 0, no pivot reuse: the original diagonal entry is the pivot whenever it is nonzero *)
Theorem c16_diag_pivot_at_zero_threshold : forall c oldrow diagind d,
  nonneg c -> NoDup (map fst c) -> (d < length c)%nat -> row_at c d = diagind -> mag_at c d <> 0 ->
  let r := pivotL c false oldrow diagind 0 in
  pr_singular r = false /\ pr_row r = diagind /\ pr_ptr r = d.
Proof. exact diag_pivot_at_zero_threshold. Qed.
Print Assumptions c16_diag_pivot_at_zero_threshold.

(* consequently the row permutation equals the column permutation *)
Theorem c16_perm_r_equals_perm_c : forall n (perm_c perm_r inv_perm_c : Z -> Z),
  (forall i, 0 <= i < n -> 0 <= perm_c i < n /\ inv_perm_c (perm_c i) = i) ->
  (forall j, 0 <= j < n -> perm_r (inv_perm_c j) = j) ->
  forall i, 0 <= i < n -> perm_r i = perm_c i.
Proof. exact perm_r_equals_perm_c. Qed.
Print Assumptions c16_perm_r_equals_perm_c.

(* storage: a slot sized with the symmetric (Cholesky of A^T+A) prediction suffices as long as the prediction dominates
   the actual column lengths -- PARTIAL, as in C05: the domination itself is monitored per run *)
Theorem c16_slot_suffices_partial : forall start w rows reqs, 0 <= w -> 0 <= rows ->
  Z.of_nat (length reqs) <= w -> (forall r, In r reqs -> 0 <= r <= rows) ->
  forall l, bump_all start (start + w * rows) reqs = Some l \/ True ->
  exists l', bump_all start (start + w * rows) reqs = Some l' /\ blocks_ok start (start + w * rows) l'.
Proof. exact lusup_slot_suffices. Qed.
Print Assumptions c16_slot_suffices_partial.
