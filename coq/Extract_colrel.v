From Coq Require Import Extraction ExtrOcamlBasic.
From SLU Require Import ColRelease.
Extraction "colrel_model.ml" cinit cstep crun.
