(* C2GalWf.v -- hand-written helpers for the definitions that tools/c2gal_wf.py generates (coq/WellFormedGen.v) and for their tie file.

   allocZ m junk : the list cell that stands for a freshly allocated array of m integers (`order = intMalloc(m)`).  malloc does not
   initialise the memory: entry i holds the arbitrary value junk i.  junk is a binder of the generated definition, the tie theorems
   quantify over it: the result of the routine may not depend on it.  m <= 0 gives the empty list (every store is dropped, every read
   gives the out-of-bounds marker of the list operations in use).

   Bounded iterations.  A descending loop `for (j = a; j >= b && c; j--) body` is generated as
       fold_left (fun st _ => if <condition on st> then <body, j - 1> else st) (zrange b (a + 1)) (a, ..)
   (the elements of the range are ignored: the range only says how many rounds can run at most).  iter_fixed: once the step function
   leaves a state alone it leaves it alone for all remaining rounds. *)
Require Import ZArith List Lia.
From SLU Require Import C2GalLib.
Import ListNotations.
Local Open Scope Z_scope.

Definition allocZ (m : Z) (junk : Z -> Z) : list Z := map junk (zrange 0 m).

Lemma allocZ_length : forall m junk, length (allocZ m junk) = Z.to_nat m.
Proof. intros m junk. unfold allocZ. rewrite map_length, zrange_length. f_equal. lia. Qed.

Lemma allocZ_nonpos : forall m junk, m <= 0 -> allocZ m junk = [].
Proof. intros m junk Hm. unfold allocZ. rewrite zrange_nil by lia. reflexivity. Qed.

Lemma iter_fixed : forall (S T : Type) (F : S -> T -> S) (l : list T) (s : S),
  (forall x, F s x = s) -> fold_left F l s = s.
Proof.
  intros S T F l s Hfix. induction l as [|x l IH]; [reflexivity|].
  cbn [fold_left]. rewrite Hfix. exact IH.
Qed.

Lemma fold_left_ext_all : forall (S T : Type) (F G : S -> T -> S) (l : list T) (s : S),
  (forall st x, F st x = G st x) -> fold_left F l s = fold_left G l s.
Proof.
  intros S T F G l. induction l as [|x l IH]; intros s Hext; [reflexivity|].
  cbn [fold_left]. rewrite Hext. apply IH. exact Hext.
Qed.
