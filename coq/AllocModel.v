(* AllocModel.v -- storage set-up for the L supernodes (C05, C16):
   ?PresetMap (SRC/p?memory.c, static scheme): the lusup[] array is carved into one slot per supernode of the
   Householder matrix H (from part_super_h / colcnt_h, split by maxsuper) or per relaxed supernode;
   Glu_alloc(LUSUP) bumps inside the slot without any run-time bound check; Glu_alloc(UCOL/USUB/LSUB) bump a shared
   array under a lock and abort when the estimate is exceeded. *)
From Coq Require Import ZArith List Bool Lia.
From SLU Require Import SchedModel.
Import ListNotations.
Local Open Scope Z_scope.

(* split large supernodes of H: super_bnd[j] = w > maxsup is replaced by pieces of size <= maxsup, the first one
   carrying the remainder *)
Fixpoint split_piece (fuel : nat) (sb : list Z) (j k w maxsup : Z) : list Z :=
  match fuel with
  | O => sb
  | S f => if j <? k then split_piece f (updZ sb j w) (j + w) k maxsup maxsup else sb
  end.
Fixpoint split_loop (fuel : nat) (n : Z) (sb : list Z) (j maxsup : Z) : list Z :=
  match fuel with
  | O => sb
  | S f => if j <? n then
             let w := nthZ sb j in
             let k := j + w in
             let sb' := if maxsup <? w then
                          let w0 := if w mod maxsup =? 0 then maxsup else w mod maxsup in
                          split_piece (Z.to_nat n + 1) sb j k w0 maxsup
                        else sb in
             if k <=? j then sb' else split_loop f n sb' k maxsup
           else sb
  end.
Definition split_super (n : Z) (sb : list Z) (maxsup : Z) : list Z := split_loop (Z.to_nat n + 1) n sb 0 maxsup.

(* number of distinct rows in columns [j, j+w) of the column-permuted matrix *)
Fixpoint add_rows (rows seen : list Z) : list Z :=
  match rows with [] => seen | r :: t => add_rows t (if existsb (Z.eqb r) seen then seen else r :: seen) end.
Fixpoint col_rows (colbeg colend rowind : list Z) (j : Z) (cnt : nat) (seen : list Z) : list Z :=
  match cnt with
  | O => seen
  | S c => let b := nthZ colbeg j in let e := nthZ colend j in
           let rs := map (fun p => nthZ rowind (b + Z.of_nat p)) (seq 0 (Z.to_nat (e - b))) in
           col_rows colbeg colend rowind (j + 1) c (add_rows rs seen)
  end.

(* for (i = j; i < rs_lastcol; k = i, i += super_bnd[i]);   returns (i, k) *)
Fixpoint next_leader (fuel : nat) (sb : list Z) (i k last : Z) : Z * Z :=
  match fuel with
  | O => (i, k)
  | S f => if i <? last then (if 1 <=? nthZ sb i then next_leader f sb (i + nthZ sb i) i last else (last + 1, i)) else (i, k)
  end.

Fixpoint fill_neg (m : list Z) (j : Z) (i : nat) (cnt : nat) : list Z :=
  match cnt with O => m | S c => fill_neg (updZ m (j + Z.of_nat i) (- Z.of_nat i)) j (S i) c end.

Fixpoint preset_loop (fuel : nat) (n : Z) (colbeg colend rowind : list Z) (rlx : list (Z * Z)) (colcnt sb : list Z)
                     (j nextpos : Z) (m : list Z) : list Z * Z :=
  match fuel with
  | O => (m, nextpos)
  | S f =>
    if j <? n then
      let m1 := updZ m j nextpos in
      let rsf := match rlx with (fc, _) :: _ => fc | [] => n end in
      let '(w, nextpos', rlx') :=
        if rsf =? j then
          let w0 := match rlx with (_, s) :: _ => s | [] => 1 end in
          let last := j + w0 in
          let nrow := Z.of_nat (length (col_rows colbeg colend rowind j (Z.to_nat w0) [])) in
          let np1 := nextpos + w0 * nrow in
          let '(i, k) := next_leader (Z.to_nat n + 1) sb j j last in
          let np2 := if last <? i then np1 + (i - last) * Z.max nrow (nthZ colcnt k) else np1 in
          (i - j, np2, tl rlx)
        else (nthZ sb j, nextpos + nthZ sb j * nthZ colcnt j, rlx) in
      let m2 := fill_neg m1 j 1 (Z.to_nat (w - 1)) in
      if w <=? 0 then (m2, nextpos') else preset_loop f n colbeg colend rowind rlx' colcnt sb (j + w) nextpos' m2
    else (m, nextpos)
  end.

(* returns (map_in_sup with n+1 entries, split super_bnd) *)
Definition preset_map (n : Z) (colbeg colend rowind : list Z) (rlx : list (Z * Z)) (colcnt sb : list Z) (maxsup : Z)
  : list Z * list Z :=
  let sb' := split_super n sb maxsup in
  let '(m, total) := preset_loop (Z.to_nat n + 1) n colbeg colend rowind rlx colcnt sb' 0 0 (repeat 0 (Z.to_nat (n + 1))) in
  (updZ m n total, sb').

(* the same loop when SuperLU_DYNAMIC_SNODE_STORE is set (Glu->dynamic_snode_bound = YES): only the relaxed supernodes (and the
   columns that may join them) are given room here, the other H-supernodes get theirs from DynamicSetMap while the
   factorization runs; map_in_sup[n] is not written, the total goes to Glu->nextlu *)
Fixpoint preset_loop_dyn (fuel : nat) (n : Z) (colbeg colend rowind : list Z) (rlx : list (Z * Z)) (colcnt sb : list Z)
                         (j nextpos : Z) (m : list Z) : list Z * Z :=
  match fuel with
  | O => (m, nextpos)
  | S f =>
    if j <? n then
      let rsf := match rlx with (fc, _) :: _ => fc | [] => n end in
      let '(w, nextpos', rlx', m1) :=
        if rsf =? j then
          let w0 := match rlx with (_, s) :: _ => s | [] => 1 end in
          let last := j + w0 in
          let nrow := Z.of_nat (length (col_rows colbeg colend rowind j (Z.to_nat w0) [])) in
          let np1 := nextpos + w0 * nrow in
          let '(i, k) := next_leader (Z.to_nat n + 1) sb j j last in
          let np2 := if last <? i then np1 + (i - last) * Z.max nrow (nthZ colcnt k) else np1 in
          (i - j, np2, tl rlx, updZ m j nextpos)
        else (nthZ sb j, nextpos, rlx, m) in
      let m2 := fill_neg m1 j 1 (Z.to_nat (w - 1)) in
      if w <=? 0 then (m2, nextpos') else preset_loop_dyn f n colbeg colend rowind rlx' colcnt sb (j + w) nextpos' m2
    else (m, nextpos)
  end.

(* returns (map_in_sup with n+1 entries, Glu->nextlu) *)
Definition preset_map_dyn (n : Z) (colbeg colend rowind : list Z) (rlx : list (Z * Z)) (colcnt sb : list Z) (maxsup : Z)
  : list Z * Z :=
  let sb' := split_super n sb maxsup in
  preset_loop_dyn (Z.to_nat n + 1) n colbeg colend rowind rlx colcnt sb' 0 0 (repeat 0 (Z.to_nat (n + 1))).

(* ---------------- checker for a storage image ---------------- *)
(* leaders are the entries >= 0 (columns < n); the image is sound when the leaders' starts are non-decreasing,
   start at 0 and end at total = map[n], and every non-leader points back to a leader *)
Fixpoint slots_ok (m : list Z) (j : nat) (cnt : nat) (prev : Z) (lastlead : Z) : bool :=
  match cnt with
  | O => true
  | S c => let v := nthZ m (Z.of_nat j) in
           if 0 <=? v then (prev <=? v) && slots_ok m (S j) c v (Z.of_nat j)
           else (0 <=? lastlead) && (Z.of_nat j + v =? lastlead) && slots_ok m (S j) c prev lastlead
  end.
Definition check_slots (n : Z) (m : list Z) : bool :=
  (lenZ m =? n + 1) && (0 <=? n) &&
  (if 0 <? n then (nthZ m 0 =? 0) else true) && slots_ok m 0 (Z.to_nat n) 0 (-1) &&
  (let lastv := fold_left (fun acc j => if 0 <=? nthZ m (Z.of_nat j) then nthZ m (Z.of_nat j) else acc) (seq 0 (Z.to_nat n)) 0 in
   lastv <=? nthZ m n).

(* ---------------- bump allocation ---------------- *)
(* Glu_alloc(UCOL / USUB / LSUB): next, max -> Some (prev, next') or None = the abort path (XPAND_HINT) *)
Definition bump (next maxv num : Z) : option (Z * Z) :=
  if maxv <? next + num then None else Some (next, next + num).

(* Glu_alloc(LUSUP): bump inside the slot of the H-supernode, NO check in the code; the model returns the block *)
Definition lusup_alloc (next num : Z) : Z * Z := (next, next + num).

Fixpoint bump_all (next maxv : Z) (reqs : list Z) : option (list (Z * Z)) :=
  match reqs with
  | [] => Some []
  | r :: t => match bump next maxv r with
              | None => None
              | Some (p, nx) => match bump_all nx maxv t with Some l => Some ((p, nx) :: l) | None => None end
              end
  end.
